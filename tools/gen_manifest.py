#!/usr/bin/env python3
"""Regenerate MANIFEST.json from the table below (keeps it valid and consistent)."""
import json
import os

VERIF = os.path.dirname(os.path.dirname(os.path.abspath(__file__)))

NOTE = ("Trusted: Lean 4.33 kernel + propext/Classical.choice/Quot.sound (audited by #print axioms each run; "
        "no sorry/axiom/native_decide); the statements in lean/Abmarl/Props; the compiled driver and the wire "
        "format; the correspondence is differential execution of the hand-written model and the current /repo "
        "sources on the generated cases (exhaustive only in the stated small scopes); harness stand-ins "
        "(oracle tape for numpy.random/random, scripted stub simulation, get_inf shim).")

CHECKS = {
    "C01": dict(
        text="Lean 4 theorem C01_managers_honour_done_protocol: for every simulation (any state/action/observation "
             "type) satisfying explicit frame conditions, every manager kind and every history of resets and steps, "
             "the model's trace satisfies the decidable trace predicate specC01 (same key sets, no re-report, "
             "rejection before the simulation advances, actions unchanged, __all__ iff, reward ledger); readings "
             "c01_* prove the predicate says what the property says. Tie: the real AllStep/TurnBased/DynamicOrder "
             "managers run over a scripted stub; traces must equal the model's and specC01 is evaluated by the "
             "driver on the implementation's trace. The packaged examples TeamBattleSim, PredatorPreyResourcesSim, "
             "MazeNavigationSim, MultiMazeNavigationSim and TrafficCorridorSimulation are modelled instances "
             "(Model/Examples.lean; Ex.ex_lawful, Ex.ex_WF, C01_examples: specC01 for every configuration of the class, "
             "manager and history), tied by the real managers over the real example objects (op mgrx) and by direct calls "
             "(op gexample, judged incl. the read-and-reset clause): their glue is no longer only monitored. Instantiating "
             "Lawful found C01-E1 (MultiMazeNavigationSim.get_reward was not read-and-reset; the class was first proved "
             "NOT lawful), repaired in /repo (fce2c1d): all five classes are lawful now, nothing is partial.",
        design="§5 C01", technique="Lean 4 proof (induction over histories with a manager invariant; instantiated for "
                                   "the scripted stub and for the modelled packaged example simulations) + differential "
                                   "correspondence of the hand-written models with the real managers over the stub and "
                                   "over the real example objects"),
    "C02": dict(
        text="Lean 4 theorems composing what C03/C09/C11/C12/C04/C05/C14/C20 prove. Grid part (a grid-world simulation is a "
             "history of component calls - moves of the three move actors, attacks of the four attack actors with their "
             "deaths, resets - after a first full reset): C02_grid_observations - in EVERY reachable world (every history "
             "of every length, grid size, overlap table, blocking layout, agent mix, range, tape) every built-in observer "
             "(absolute, centred with observe_self on/off, stacked, position, ammunition) returns, for every agent that "
             "is active or whose stored position is a grid cell, an observation inside the space its constructor declared "
             "(Observers.declared); C02_grid_actions - in every reachable world every point of the declared action space of "
             "each of the three move actors and four attack actors is processed without error and the extended history is "
             "again a reachable one (so the statement iterates over action sequences of every length); "
             "C02_null_observations / C02_null_actions / C02_null_actions_processed - the null observation each observer "
             "declares (-2-filled arrays of the declared shape, [0,0], 0) and the null action each actor declares (zero "
             "move, no attack in each of the four encodings) lie in the declared spaces and are processed without error. "
             "Wrapper part over the Space/Pt model of C04/C05, each of the form 'inner observation in inner declared space "
             "implies wrapped observation in wrapped declared space': C02_ravel_layer, C02_flatten_layer (the flattened "
             "Box as a Space: toSpace_mem), C02_comm_layer + C02_comm_model (the C20 model commSim), C02_super_layer + "
             "C02_super_model (the C14 model supObs: Dict of the covered agents' real or declared-null observations plus "
             "one mask bit per covered agent), C02_stack (any stack of unary layers; instances ravel-then-comm, "
             "comm-then-flatten). NOT carried by a theorem and covered by the runtime monitor only: gymnasium's / "
             "abmarl.tools.Box's `contains` itself, the assembly of observer channels into one Dict "
             "(SmartGridWorldSimulation.get_obs, finalize), the step glue / rewards / hand-written observers of the packaged "
             "example simulations, the action side of the wrappers, spaces outside WF04/WF05 (K1, K3, K5). Tie (runtime "
             "monitor, op gmember): real simulations - SmartGridWorldSimulations assembled from the real components over "
             "random grids (incl. 1x1, 1xN, Nx1), overlap tables, ranges 0/partial/FULL/beyond the grid and agent mixes; a "
             "stub with arbitrary nested declared spaces; every packaged example simulation built with the configurations "
             "of examples/*.py - alone and under RavelDiscreteWrapper, FlattenWrapper, SuperAgentWrapper, "
             "CommunicationHandshakeWrapper and stacks of two and three of them, played like the AllStepManager plays them "
             "under a scripted oracle tape with every action a reproducible sample (or, in the exhaustive small scopes, "
             "every point) of the declared action space. Every (declared space, observation / null point / action) pair is "
             "dumped and judged by Lean's `mem`; the real `point in space` must agree with `mem`, and an action that makes "
             "sim.step raise fails the specification. The packaged examples TeamBattleSim, PredatorPreyResourcesSim, "
             "MazeNavigationSim, MultiMazeNavigationSim and TrafficCorridorSimulation are modelled instances "
             "(examples_step_is_history: their step IS a history of component calls on one tape; "
             "examples_observations_in_space: in every state reachable by their own reset / step every channel of get_obs "
             "lies in the space its observer declared), tied by direct calls on real objects compared entry by entry with "
             "the model (op gexample): their step / reset / getter glue is no longer only monitored; "
             "examples_step_noRaise: a step whose action dict holds points of the declared spaces of learning agents does "
             "not raise (MazeNavigationSim needs the navigator's item, TrafficCorridorSimulation done components that "
             "answer for the acting agents; nothing else is assumed). Found by this modelling and repaired in /repo: "
             "C02-E2 (afc90bd: `if not attacked_agents:` on a numpy array of two or more victims raised ValueError in "
             "TeamBattleSim / PredatorPreyResourcesSim / ReachTheTargetSim), C02-E3 (c275832: TeamBattleSim raised "
             "KeyError for a killed entity without reward entry), C09-A1 (c4ff362: AbsolutePositionObserver handed out "
             "the agent's own position array); those situations are ordinary in-domain cases of the stream now.",
        design="§5 C02", technique="Lean 4 proof by composition (reachability induction of C03 + observer/actor theorems of "
                                   "C09/C11/C12; membership preservation of the four wrapper layers and of stacks from "
                                   "C04/C05/C14/C20) + runtime monitor of real simulations, wrapper stacks and example "
                                   "simulations whose every space/point pair is judged by the Lean membership predicate",
        note=NOTE + " C02 specifically: the theorems are about the component models and the Space/Pt model; that a real "
             "simulation's step is a history of component calls is proved for the five modelled example classes "
             "(Props/Examples.lean), for MultiCorridor, MultiAgentGridSim, ReachTheTargetSim (every reachable state, "
             "Props/Reach.lean), for the two pacman classes (Props/Pacman.lean, Props/PacmanHist.lean) and for BroadcastSim of "
             "comms_blocking.py (Props/Broadcast.lean: invariant, observations, no-raise under BC.cfgHypb, reset forgets, "
             "delivery sound and complete - broadcast_delivery -, the step clause of the judge - "
             "broadcast_hist_step_partial, and the whole-history statement broadcast_hist: BC.bcPre implies BC.specBC on the "
             "model's trace, Props/BroadcastHist.lean; float64 messages tied per call within 2^-40; BC.specBC is also "
             "evaluated at run time on every trace); gymnasium's `contains` is monitored at run time, not proved; rejected "
             "assignments through every public setter of every component of a session (harness/poke.py) must leave what was "
             "configured in force; how a Python value is read as a "
             "point (harness/c02sims.py dump_point) is harness code; C02-E1 (the comms_blocking example's "
             "broadcast observation, dba409b), C02-N1 (communication wrapper kept null points unchanged, ad51457), "
             "C02-N2 (ravel / flatten wrappers converted null points only if truthy, 7d54d86) and C02-A1 (selective "
             "attack given as a nested list, ecfc6a7) were found by this check and repaired in /repo."),
    "C07": dict(
        text="Lean 4 theorems C07_fair_turns_and_progress / C07_every_call_returns / turnSearch_total: for every "
             "simulation, manager and history the model reports exactly the agents the property prescribes "
             "(all-step: every live learner; turn-based: finishing agents then the first live agent in cyclic "
             "listing order; dynamic: nominated minus done), some reported agent can act whenever __all__ is "
             "false, and the turn search never exhausts a rotation (termination). Tie as for C01, every real call "
             "under a watchdog. The packaged examples TeamBattleSim, PredatorPreyResourcesSim, MazeNavigationSim, "
             "MultiMazeNavigationSim and TrafficCorridorSimulation are modelled instances (C07_examples, all five since "
             "the repair fce2c1d of finding C01-E1) driven by the real managers over the real objects (op mgrx): their "
             "glue is no longer only monitored.",
        design="§5 C07", technique="Lean 4 proof (turn-search totality and fairness by induction; instantiated for the "
                                   "stub and the modelled packaged examples) + differential correspondence with the real "
                                   "managers (over the stub and over real example objects) under a watchdog"),
    "C03": dict(
        text="Lean 4 theorems C03_reachable / C03_every_step / C03_hist over the grid-world state machine (explicit cell "
             "table stored redundantly with every agent's position; Model/Grid, Movers, Attacks, Placement, Vitals, "
             "Resets, GridSim): from ANY initial world, after a first full reset (PositionState | "
             "TargetBarriersFreePlacementState | MazePlacementState + HealthState + AmmoState + OrientationState, in "
             "any order, any tape) EVERY history of moves (MoveActor, CrossMoveActor, DriftMoveActor), attacks (the four "
             "attack actors, with the deaths they cause) and further full resets - any agents, actions, tapes, "
             "interleaving, length, number of episodes - leaves after every single operation a world satisfying the "
             "decidable invariant WInv: every cell holds only real, active agents whose position is that cell, each "
             "once, pairwise allowed to overlap (symmetric table); every active agent is stored in the cell of its "
             "in-grid position; inactive agents are in no cell; 0 <= health <= 1; active <-> health > 0; 0 <= ammo <= "
             "initial ammo; orientation in 1..4. C03_hist is the form the judge evaluates: histPre (the theorems' "
             "hypotheses FullReset / CfgOK / NoAmmoC / wfPlacement as Booleans; cfgOKb_iff, noAmmoCb_iff, "
             "fullResetb_iff, histPre_iff) implies specC03Hist of the model's trace (every world of the trace satisfies "
             "WInv, no move / attack of an active agent with an action of its action space raises - runGOp_noRaise - "
             "and the trace covers every operation up to the first reset that fails). Parts: C03_moves_preserve, "
             "C03_attacks / attack_preserves_WInv_any, C03_reset_establishes (state components in any order), "
             "C03_place (a placement state alone, given live agents). Tie: HISTORIES on one real world object - real "
             "state components and real actors called the way the example simulations' step calls them, the world "
             "dumped after every operation, the whole history replayed by the driver (ghist) and compared step by "
             "step with traceGOps; specC03Hist is evaluated on the implementation's trace. Exhaustive: five small "
             "configurations x two first resets x all operation sequences of length 3; then seeded random "
             "histories of 5..40 operations with several episodes. Also: the per-call streams of C12/C11/C13 re-judged "
             "with the C03 component of their replies; six real example simulations driven through their own "
             "reset()/step() with every dumped world judged by the Lean invariant (gwinv, runtime monitor); writes "
             "through the health / ammo setters; histories with DECIMAL healths and strengths (not dyadic: floating point "
             "rounds where the exact-rational model does not), monitor only: every dumped world judged by the Lean "
             "invariant, no model outcome compared. Finding K4 (a drawn initial health of exactly 0.0 leaves an inactive "
             "agent on the grid) is the out-of-domain stream healthClosed: reproduced on the real code, open. The packaged "
             "examples TeamBattleSim, PredatorPreyResourcesSim, MazeNavigationSim, MultiMazeNavigationSim and "
             "TrafficCorridorSimulation are modelled instances (examples_step_is_history, examples_reachable_WInv, "
             "examples_simIface_reachable: every world their own reset / step can reach satisfies WInv), tied by direct "
             "calls on real objects against the model (op gexample): their glue is no longer only monitored "
             "(ReachTheTargetSim: see the end of this text). Found by this stream and repaired in /repo: C09-A1 "
             "(c4ff362: overwriting the observation of AbsolutePositionObserver in place moved the agent away from the "
             "cell that stores it), C02-E2 / C02-E3 (afc90bd, c275832: TeamBattleSim.step raised half-way, after the "
             "attack had been applied); callers that overwrite returned observations are part of the stream.",
        design="§5 C03", technique="Lean 4 proof (invariant + induction over operation histories, reusing the C12 move, C11 "
                                   "attack and C13 placement theorems and the vitals lemmas) + whole-history differential "
                                   "correspondence with the real state components and actors on one world object, plus "
                                   "the Lean invariant as a runtime monitor over real example simulations",
        note=NOTE + " C03 specifically: health, strength and accuracy are exact rationals in the model (dyadic test "
             "values, on which IEEE arithmetic is exact); operations are made the way the packaged simulations' step "
             "makes them (only for agent.active agents, only actions of the declared action space - the managers "
             "check membership, C01/C02); acting with an inactive agent is outside the hypothesis (the real MoveActor "
             "then raises KeyError); np.random.uniform(0, 1) never returns exactly 0 in the regular oracle stream "
             "(finding K4 is the stream in which it does); a reset may raise (a placement state fails when no legal "
             "cell exists), which ends the history; the hand-written step glue of the example simulations is "
             "monitored, not modelled - ReachTheTargetSim deactivates runners by hand (active = False with positive "
             "health) and is judged by WInvWeak (zero health -> inactive) instead of active <-> health > 0; "
             "simulations without a HealthState are dumped with health 1; pacman's teleport surgery is driven by the modelled stream (harness/p_pacman.py)."),
    "C12": dict(
        text="Lean 4 theorem C12_moves: for every grid world satisfying the consistency invariant, every active "
             "agent and every action of the action space, MoveActor/CrossMoveActor/DriftMoveActor (modelled branch "
             "for branch over an explicit cell table) never raise and their outcome satisfies specMoveBy/specDrift: "
             "success iff the destination is inside the grid and is the own cell or a cell whose occupants all may "
             "overlap with the mover; on success exactly the mover relocates by the offset, on failure nothing "
             "changes, nobody else is affected; drift turns only on a successful new direction, otherwise one "
             "attempt along the kept orientation. Tie: per-call refinement — every real process_action call "
             "(pre-world, call, post-world) is replayed by the driver and judged by the same predicate.",
        design="§5 C12", technique="Lean 4 proof (cell-table lemmas, case analysis of the move body) + per-call "
                                   "differential correspondence with the real move actors"),
    "C16": dict(
        text="Lean 4 theorem C16_generate_episode: for every simulation, manager kind, policy set and mapping, horizon "
             "and manager state, the model of MultiPolicyTrainer.generate_episode (an adaptive client of the manager "
             "model) returns a record satisfying specC16: no exception escapes, each iteration asks exactly the not-done "
             "agents of the latest output through their mapped policy and sends exactly those answers, the loop stops "
             "at the horizon or at __all__, the per-agent records are the outputs in order, at most one true done flag "
             "and nothing after it (proved on top of the C01/C07 manager invariant); C16_alignment for the "
             "constructor check. Tie: real Single/Multi/Debug trainers with counting policies over real managers over "
             "the stub; records, manager calls and policy queries must equal the model's and are judged by specC16.",
        design="§5 C16", technique="Lean 4 proof (loop invariant over the episode loop, reusing the manager invariant) + "
                                   "differential correspondence with the real trainers"),
    "C18": dict(
        text="Lean 4 theorems fromArray_spec / fromFile_eq_fromArray / fromGrid_eq / direct_spec / extra_agents_merge "
             "/ layout_wins / layout_reset_positions / layout_reset_succeeds / C18_all_builders_agree: for every "
             "shape, every arrangement of registered, unregistered and reserved characters, every registry and "
             "every extra-agent dictionary (id clashes included) the model's array builder yields exactly one agent "
             "per registered entry in row-major order, numbered per character from 0, at (i / cols, i % cols); "
             "parsing the text rendering, building from the grid holding those agents and building directly give "
             "the same simulation; extras survive iff no layout agent has their id; after reset every layout agent "
             "is on its cell (specC18, with readings). Tie: the real build_sim_from_array/_file/_grid, build_sim "
             "and PositionState.reset run on generated layouts; the five canonical outcomes must equal the model's "
             "and specC18 is evaluated by the driver on the implementation's outcomes. Finding B1 (the "
             "character '0' could be registered) was repaired in /repo (e0e97b5) and is kept as a corpus case.",
        design="§5 C18", technique="Lean 4 proof (loop flattening, split/join round trip, dictionary-update "
                                   "characterisation) + differential correspondence with the four real builders"),
    "C10": dict(
        text="Lean 4 theorems over the integer model of create_grid_and_mask's mask (Model/Mask.lean: the eight "
             "direction cases with their own loop ranges, the continue on the blocker's cell and the range check, "
             "every ray comparison as an exact cross-multiplication): hidden1_iff_spec (for every range, offset and "
             "cell the eight cases are the orientation-free documented rule hiddenSpec: not the blocker's cell, at "
             "least as far along each non-zero direction, centre strictly between the rays through the two "
             "outermost corners), mask_iff_exists_blocker (a cell is 0 iff some active blocking agent within range "
             "has it in its shadow), nonblocking_inactive_ignored / out_of_range_ignored / blocker_on_viewer_ignored, "
             "own_cell_visible / nearer_cells_visible / on_ray_visible, hidden_flip_rows / hidden_flip_cols / "
             "hidden_transpose and mask_dihedral (the mask commutes with all eight symmetries of the square), "
             "C10_model_satisfies_spec (the model's mask passes the judge specMask). Tie: the real function is run "
             "on real Grid/GridWorldAgent layouts - every offset of one blocker at every range 0..8 (thorough "
             "0..24), every viewer cell of every grid up to 6x6, all ordered pairs up to range 3 (5), sampled "
             "triples and flag mixes with all dihedral images - every mask cell compared with the model's and "
             "specMask evaluated by the driver on the implementation's mask; symmetry and flag filtering are also "
             "tested directly on the real code.",
        design="§5 C10", technique="Lean 4 proof (eight-case analysis by linear arithmetic over cross products, "
                                   "dihedral invariance of the rule) + differential correspondence of the "
                                   "hand-written integer model with the real create_grid_and_mask",
        note=NOTE + " C10 specifically: the theorems are about the integer model. The float<->integer step - the real "
             "code compares one correctly rounded IEEE-754 division (2*rd+-1)*t/(2*cd+-1) of exact small integers "
             "with an integer, which coincides with the exact cross-multiplied comparison for every range < 2^25 "
             "because an integral quotient is returned exactly and a non-integral one is at least 1/(2R+1) away "
             "from every integer - is a paper argument (DESIGN.md §5 C10) supported by the exhaustive "
             "correspondence (all offsets, all cells, ranges 0..24), not a Lean theorem."),
    "C15": dict(
        text="Lean 4 theorems C15_openspiel and C15_gym_projection: for every simulation with a learning agent, for the "
             "turn-based and the simultaneous manager and for every sequence of adapter calls, the model of "
             "OpenSpielWrapper (state machine with _should_reset/current_player, _append_obs reading the inner sim, "
             "action filtering, fake step) satisfies specC15: every learning agent present in observations, legal "
             "actions and rewards; only actions of not-done agents forwarded; LAST iff __all__; restart after LAST; "
             "the turn-based current player is live; every step forwards exactly one accepted manager step (no fake "
             "step), so a play-through ends when the episode ends. GymWrapper returns exactly the single learner's "
             "entries and never hits a KeyError under the manager protocol. Both are proved on top of the C01/C07 "
             "manager invariant. Setter alphabet: C15_openspiel_with_setter / osRunX_never_forwards_done are "
             "over every history of reset | step (any action list) | `current_player = a` (the public setter, any a, "
             "accepted exactly for learning agents) - osRunX delegates to the same osReset/osStep and is osRun "
             "without setter calls (osRunX_of_plain); specC15X contains specC15 (specC15_of_specC15X). Proved for "
             "every such history (specC15X, no taint flag: the setter switches no clause off): all clauses above, "
             "'never forwards an action for an already-done agent' for every manager call of the play-through, an "
             "action for a done agent (turn-based, only reachable through the setter) is answered by the fake MID "
             "step that forwards nothing, and every time step - the fake step's included - names a current player "
             "who can still act. Finding C15-K1 was found by this check (the fake step named the first learning "
             "agent even when it was done: fake-step livelock after current_player = <done agent>) and repaired in "
             "commit 8364794; its history is a regression case. Tie: real OpenSpielWrapper (open_spiel installed) and "
             "GymWrapper over real managers over the stub; time steps and forwarded manager calls must equal the "
             "model's, judged by specC15 / specC15X; the setter stream drives `wrapper.current_player = id` (done "
             "and live learning agents, non-learning agents, unknown ids) interleaved with steps and resets, "
             "steered towards 'name a done agent, step, keep stepping'.",
        design="§5 C15", technique="Lean 4 proof (adapter invariant over call sequences, reusing the manager invariant) "
                                   "+ differential correspondence with the real adapters"),
    "C08": dict(
        text="Lean 4 theorems fresh_twin_managers / mgr_reset_forgets (every simulation whose own reset forgets, every "
             "manager kind, every prefix history, seed and follow-up: the trace of reset :: follow-up on the used manager "
             "equals the trace on a newly built one), fresh_twin_openspiel / os_reset_eq (the adapter's _should_reset, "
             "current player and the manager underneath), gymabs_reset_forgets / gymabs_reset_clears; the model state of "
             "each layer carries every mutable field of the Python object and reset is written field by field, so the "
             "theorems fail for a model that skips a field (how F3, F4, F8 were found). Grid-world state components: "
             "C08_grid_reset_fresh (from ANY prior world, a full reset through a placement state, HealthState, AmmoState "
             "and OrientationState in any order leaves every agent alive, with its declared or a freshly drawn legal "
             "health / ammunition / orientation / position, standing in a cell that stores it, and the consistency "
             "invariant holds; nothing in the conclusion refers to the prior world), and grid_reset_forgets / "
             "grid_fresh_twin (two worlds with the same configuration -- whatever their cells, positions, health, "
             "ammunition and orientation -- are mapped by a full reset to the SAME outcome, error or world and remaining "
             "tape, so every history after a reset has the same trace on a used and on a newly built world). "
             "Super-agent / communication "
             "wrappers: the reset clauses of C14_trace and of C20's trace theorem. Tie: used-versus-fresh twins on the "
             "real code (dirty with a generated prefix, reset, follow-up under a fresh seed vs a newly built copy): both "
             "traces must be identical and equal to the model's; for the grid components the prefix is a history of "
             "moves, attacks, deaths and resets on one real world and the model runs the follow-up from the FRESH "
             "world's dump (op ghist); multi-episode cases of the placement states, the communication wrapper and the "
             "super-agent wrapper are forwarded from their own modules and judged by their trace specifications. The "
             "packaged examples TeamBattleSim, PredatorPreyResourcesSim, MazeNavigationSim, MultiMazeNavigationSim and "
             "TrafficCorridorSimulation are modelled instances: examples_reset_forgets (their reset maps two objects of the "
             "same configuration under the same seed to the same state), examples_fresh_twin / "
             "examples_fresh_twin_reachable (hence, under every manager, the episode after a reset on an object that went "
             "through ANY history equals the episode on a newly built one), tied by used-versus-fresh twins of real "
             "example objects (layer example, op gexample; since the repairs afc90bd / c275832 / fce2c1d incl. agents "
             "with several simultaneous attacks, killed entities without reward entry and MultiMazeNavigationSim's "
             "ledger) and by the example streams of C01 / C02 / C03.",
        design="§5 C08", technique="Lean 4 proof (state equality after reset, lifted to traces) + used-versus-fresh twin "
                                   "differential runs on the real code",
        note=NOTE + " Layers covered in this check: the three managers, the OpenSpiel adapter, GymABS (state-equality "
             "theorems + twins), the grid-world state components (C08_grid_reset_fresh + twins through the C03 history "
             "model), the super-agent and communication wrappers and repeated placement resets (cases "
             "forwarded from C14 / C20 / C13, judged by those properties' proved trace specifications)."),
    "C19": dict(
        text="Lean 4 theorems over a universe PyVal of Python values (None, bool, int, float incl. nan/inf, str, list, "
             "tuple, set, dict, numpy arrays with dtype/shape, numpy scalars, agent objects): overlap_closure_symmetric "
             "(for every overlap table, int- or set-valued, one-sided or not, the table the Grid setter stores makes "
             "availability symmetric), close_superset/close_minimal, query_symmetric/place_symmetric, close_is_dict; one "
             "accepts_*_iff per validated attribute of every agent class, Grid and the components (model acceptance <=> "
             "a first-order description of the admissible values, for all PyVal; rejected_at_finalize_only says which "
             "are checked late), model_meets_specAccept (the model's outcome satisfies the documented rule specAccept: "
             "malformed => rejected when supplied or at finalize/reset, clearly valid => accepted); box_contains_iff "
             "characterises abmarl.tools.Box.contains on all PyVal without exception, box_int_rejects_fractional (an "
             "integer Box accepts nothing holding a non-integral float); model_meets_specBox / "
             "model_meets_specOverlapSym. Tie: ~7000 (site, value) cases on the real constructors/setters/finalize/"
             "reset, every overlap table over <=3 encodings and random ones up to 6 on the real Grid (place then "
             "query/place), ~5000 candidate points per Box kind (16 kinds); outcomes must equal the model's and the "
             "spec predicates are evaluated by the driver on the implementation's outcome. No open finding: K19a "
             "(falsy null points unchecked at finalize, fixed fc3584a) and K2 (integer Box accepted lists/numpy "
             "scalars after truncation, fixed 9e72b84) were found by this check; their reproducers stay in the corpus "
             "as regression cases.",
        design="§5 C19", technique="Lean 4 proof (case analysis over a Python value universe, induction over the closure "
                                   "loops, mutual structural induction over nested lists for np.asarray) + differential "
                                   "correspondence of the hand-written model with the real setters, Grid and Box"),
    "C09": dict(
        text="Lean 4 theorems absolute_spec / centered_spec / stacked_spec / position_spec / ammo_spec (bundled as "
             "C09_observers): for every grid world satisfying the consistency invariant (any size, overlap pile-ups, "
             "dead agents, blocking layouts), every agent (supported or not; observer position inside the grid, positive "
             "encodings), every view range (also beyond the grid), both observe_self values and every oracle tape, the "
             "model of get_obs (Model/Observers.lean: the local_grid slicing of create_grid_and_mask, C10's mask reused, "
             "the row-major double loop with one np.random.choice per reportable cell, the paste of the window into the "
             "rows x cols array, the per-encoding counting) never raises and its observation satisfies the decidable "
             "judge specC09 written from the property text: an entry is -2 iff the cell is hidden by C10's rule (or "
             "outside the view window in the absolute view), -1 iff visible and outside the grid (centred views) / iff "
             "the observer is among the occupants of that visible cell (absolute view; a dead observer sees none: "
             "absolute_dead_observer_no_minus_one, an active one exactly at its position: absolute_own_cell), 0 iff "
             "visible with no reportable occupant, otherwise the encoding of a reportable occupant of exactly that cell "
             "(never the observer when observe_self is off); stacked entries equal the exact count per encoding; the "
             "absolute view is indexed by true grid coordinates (paste_spec); position and ammunition are the agent's. "
             "Key lemmas window_embedding (local index <-> grid coordinate incl. clipping at each border), convolve_ok "
             "(every entry comes from the cell function on some tape), choice_mem (a choice is a member, for all "
             "tapes); *_in_declared_space (whatever the judge accepts lies in the declared Box). Tie: per-call "
             "refinement - each real observer is constructed over a real Grid/agents world and get_obs(agent) is run "
             "under the scripted oracle: the observer on every cell of every grid up to 5x5 (thorough 7x7, incl. 1xN, "
             "Nx1), every view range 0..FULL+1 and 'FULL', random populations with blockers / pile-ups / dead agents / "
             "dead observer, full boards with one blocker at every window offset, pile-ups of up to four encodings "
             "with every first tape value, random worlds with unsupported agents; the whole observation must equal the "
             "model's and specC09 is evaluated by the driver on the implementation's observation; membership of the "
             "observation and of the null observation in agent.observation_space is checked on the real objects.",
        design="§5 C09", technique="Lean 4 proof (window/paste index arithmetic by omega, tape-threading loop "
                                   "characterised entry by entry, reuse of the C10 mask theorems) + per-call "
                                   "differential correspondence with the five real observers under a scripted oracle"),
    "C17": dict(
        text="Lean 4 theorems C17_done_components / C17_done_iff / C17_allDone_iff / C17_done_error_iff (+ one c17_* per "
             "component and getter): for every world, every target mapping that is a dict and every agent, the five "
             "built-in done components (modelled branch for branch, KeyError of an agent without a target included) "
             "answer True exactly under the documented first-order condition (inactive; same stored position as its "
             "target; target inactive; every agent of every target encoding inactive with any/all over the teams; all "
             "active agents of one encoding) and raise exactly for an agent without an entry. smart_done_any / "
             "smart_allDone_any (lazy any, error branch, order irrelevance without errors), smart_obs_merge (+ distinct "
             "keys => order irrelevant), smart_reset_all, smart_reward_once (read + pending = start + accrued over every "
             "interleaving), C17_smart: the trace of every history of every smart simulation over abstract observers / "
             "state components satisfies the judge specSmart. Tie: per-call refinement of the real components over "
             "generated populations (every getter for every agent) and of a real minimal SmartGridWorldSimulation "
             "subclass with every subset of the built-in done components by class / registry name, logging stub "
             "observers and state components, set iteration orders read at run time; registry name->class table "
             "compared directly.",
        design="§5 C17", technique="Lean 4 proof (first-order readings of Bool judges, lazy-any and dict-merge "
                                   "characterisations, ledger invariant by induction over histories) + per-call "
                                   "differential correspondence with the real done components and SmartGridWorldSimulation"),
    "C13": dict(
        text="Lean 4 theorems place_ok_spec / avail_sound / avail_sorted / fail_explicit / "
             "reset_establishes_position_invariant / maze_connected / maze_terminates: for every prior world, option "
             "combination (no-overlap, randomised order, cluster, scatter) and oracle tape satisfying the decidable "
             "hypothesis wfPlacement, the outcome of PositionState / TargetBarriersFreePlacementState / "
             "MazePlacementState reset (modelled branch for branch incl. the order of tape consumption, the "
             "per-encoding availability lists and the stable sorts) satisfies specPlacement: position invariant, "
             "initial positions honoured, free agents alone under no-overlap, wall/passage cells of a maze whose "
             "passages are all connected to the target (specMaze, proved for generateMaze for every start and tape, "
             "frontier loop within its fuel), clustered barriers / scattered free agents extremal among the cells "
             "that Grid.query would accept at that moment, failures explicit (assertion / noCell) and justified on "
             "the grid they leave behind. Readings c13_* state the Bool predicates in Prop form. Tie: per-call "
             "refinement - every real reset() and generate_maze() under the scripted tape is replayed by the driver "
             "and judged by the same predicates. Open finding C13-K1 (randomly placed target joined by an agent fixed "
             "on its cell under no-overlap) is the excluded point of wfPlacement.",
        design="§5 C13", technique="Lean 4 proof (loop invariant on availability lists, lockstep of the placement "
                                   "loops with the specification's replay, maze frontier invariant + flood-fill "
                                   "completeness) + per-call differential correspondence with the real placement "
                                   "states and generate_maze"),
    "C04": dict(
        text="Lean 4 theorems C04_ravel_lt / C04_unravel_ravel / C04_ravel_unravel / C04_ravel_injective / "
             "C04_ravel_surjective / C04_card_counts_points / C04_ravelSpace_card / C04_ravelH_dim / C04_checkSpace_iff: "
             "for every well-formed nested space (any depth, any number of children, Discrete / MultiBinary / "
             "MultiDiscrete / bounded int Box with any per-cell bounds, Dict keys in sorted order) and every member, the "
             "model of ravel (mixed-radix Horner encoding, written after _ravel_helper) gives a number below card, "
             "unravel is its two-sided inverse and always yields a member, ravel is a bijection members <-> Fin card, "
             "ravel_space is Discrete(card) and check_space accepts exactly the supported spaces; by mutual structural "
             "induction over the nested inductive Space / List Space on top of encode/decode inverse lemmas. "
             "Hypotheses exclude Discrete(start != 0) (K1), >= 2^63 points (K3: int64 is modelled unbounded) and "
             "narrow integer Boxes (K5). Tie: the real ravel / unravel / ravel_space / check_space run on generated "
             "nested spaces (all points and all integers for spaces up to 4096 points, corners and samples beyond, "
             "sizes up to 2^63-1), outcomes incl. gymnasium's own `in` must equal the model's, and the decidable "
             "specRavel / specUnravel / specRavelSpace / specCheckSpace are evaluated by the driver on the "
             "implementation's outcome.",
        design="§5 C04", technique="Lean 4 proof (mixed-radix lemmas + mutual structural induction over nested spaces) + "
                                   "differential correspondence of the hand-written model with the real functions"),
    "C05": dict(
        text="Lean 4 theorems C05_flatten_length / C05_flatten_mem / C05_unflatten_flatten / C05_flattenSpace_int_iff / "
             "C05_int_roundtrip_mem / C05_flatten_dtype: for every well-formed nesting of Discrete / MultiBinary / "
             "MultiDiscrete / int Box / float Box in Dict / Tuple and every member, the model of flatten (list append "
             "with numpy's int->float promotion, written after flatten_wrapper.py) has length flatdim, is a member of "
             "the model of flatten_space, unflatten (np.split as take/drop, Box leaves cast back, Discrete keeps the "
             "array dtype) returns a point with the same structure and values - the very same point, hence a member, "
             "when every leaf is integer-typed - and the flattened Box is integer-typed exactly in that case. Hypotheses "
             "exclude Discrete(start != 0) (K1) and narrow integer Boxes (K5). Tie: the real flatten / "
             "unflatten(flatten) / flatten_space / flatdim on generated spaces with dyadic float bounds and points "
             "(all points of small integer spaces, corners and samples otherwise, unequal sibling dimensions), the "
             "real `in` answers are part of the compared outcome, and specFlatten / specRoundTrip / specFlatSpace "
             "are evaluated by the driver on the implementation's outcome.",
        design="§5 C05", technique="Lean 4 proof (promotion-invariant characterisation of the flattened array, mutual "
                                   "structural induction over nested spaces) + differential correspondence with the "
                                   "real functions"),
    "C11": dict(
        text="Lean 4 theorems binary_spec / encoding_spec / selective_spec / restricted_spec / C11_attacks over the "
             "model of AttackActorBaseComponent.process_action and the four _determine_attack methods "
             "(Model/Attacks.lean: window scan row by row in cell-dictionary order over the C10 mask, _basic_criteria "
             "with one accuracy draw per candidate that passed the three deterministic tests, _subset_attackables, "
             "ammunition filter, sequential health loop with the skip of already dead victims and the removal from "
             "the grid, exact order of tape consumption): for every world satisfying the C03 invariant, every "
             "attacker, every action of the action space, every mapping / stacked flag / range / strength / accuracy / "
             "ammunition level and EVERY tape the call returns and its outcome satisfies AttackSpec = specWho (every "
             "hit is another, active agent of an allowed encoding, within range, not hidden by the C10 shadow rule, on "
             "a group/cell the action addresses - cell number k >= 1 = row (k-1)/W, column (k-1)%W) && specHowMany "
             "(per-step / per-encoding / per-cell limits, no repeated victim unless stacked, with accuracy 1 exactly "
             "min(limit, eligible) resp. limit hits per group while the ammunition suffices and min(ammunition, total) "
             "in all) && specBook (ammunition' = ammunition - hits >= 0, each victim's health = healthAfter (hits taken "
             "while alive, clamped; = max 0 (h - m*s) by healthAfter_eq), dead victims inactive and erased from their "
             "cell, everything else unchanged); attack_frame (bookkeeping for any action whenever the call returns), "
             "attack_preserves_WInv(_any) / C03_attacks / successive_attacks (the C03 invariant is kept by every call "
             "and every sequence of calls, no hypothesis on action or tape); readings c11_*. Tie: per-call refinement - "
             "every real process_action(agent, {'attack': action}) call under the scripted oracle tape (pre-world, "
             "actor, attacker, action, tape -> status, hits, post-world) is replayed by the driver (gattack) and "
             "judged by the same predicate; asymmetric layouts, every action of the declared action space up to "
             "2000 points, successive attacks. Finding F6 (column-major cell numbers) was repaired in /repo "
             "(90c7833) and is kept as a corpus case.",
        design="§5 C11", technique="Lean 4 proof (loop invariants over the scan and the health loop, sub-selection "
                                   "(Subperm) reasoning for the random choices, counting against the list of eligible "
                                   "agents, reuse of the C10 mask theorems) + per-call differential correspondence "
                                   "with the four real attack actors under a scripted oracle tape",
        note=NOTE + " C11 specifically: health, strength and accuracy are exact rationals in the model (the harness "
             "feeds dyadic values on which IEEE arithmetic is exact); the shadow mask is the integer model of C10 "
             "(float<->integer step: paper argument of DESIGN.md §5 C10); hits on a victim that an earlier hit of "
             "the same call already killed are listed and cost ammunition but change nothing - the property's 'each "
             "hit lowers the health by exactly the strength' is formalised as 'each hit taken while alive'."),
    "C14": dict(
        text="Lean 4 theorem C14_trace: for every inner simulation (any state/action/observation/info type) whose "
             "getters satisfy the frame conditions Lawful, every super-agent mapping (a mapping that is not a partition "
             "of learning agents is rejected by the modelled constructor), every initial state and every history of "
             "reset / step / get_obs / get_reward / get_done / get_all_done / get_info calls, the session of the model "
             "of SuperAgentWrapper (a functor superSim on SimIface: inner state + the two last-reported sets, every "
             "effectful inner read threaded in Python's evaluation order) satisfies the decidable trace predicate "
             "specC14, judged only on results and on ghost observations of the inner simulation: mask[c] = not done c; "
             "the entry of c is a real inner read of this call until and including the first report after c became "
             "done and the declared null observation (no inner read) afterwards; the reward is the sum of what was "
             "pending for covered agents not yet finally counted, which are emptied, nothing after the final count; "
             "done iff all covered done; the inner step receives exactly the actions of not-done covered agents and "
             "the uncovered actions unchanged; uncovered getters equal the inner getters; covered ids are rejected. "
             "Readings c14_* and mask_iff / obs_handover / reward_sum / done_iff_all / actions_filtered / "
             "uncovered_transparent state the clauses for every history; c14_reward_conservation telescopes the "
             "ledger along any trace satisfying the predicate. Functor lemma superSim_lawful / superSim_WF: a wrapped "
             "lawful simulation is lawful, so C01, C07, C15, C16 hold of every wrapped simulation (C01_wrapped ...). "
             "Tie: the real SuperAgentWrapper over the scripted stub, call by call (every partition of <=3 (thorough "
             "<=4) learning agents x every done schedule x three call patterns x two episodes, then seeded random "
             "sessions incl. rejected mappings, covered ids, ill-shaped actions, calls before reset) and under the "
             "real AllStep/TurnBased managers against the manager model instantiated on superSim (stubSim); traces "
             "must equal the model's and specC14 (specC01/specC07 for manager sessions) is evaluated by the driver on "
             "the implementation's trace; membership of super observations and unravelled actions in the gymnasium "
             "spaces is checked on the real side. Open finding S1: a declared null observation that is falsy in "
             "Python (e.g. 0) is ignored by _get_null_obs (excluded from the theorem's domain by NullTruthy, "
             "reported as KNOWN-FINDING).",
        design="§5 C14", technique="Lean 4 proof (loop characterisations over a lawful inner simulation, invariant "
                                   "linking the wrapper state to a ghost state folded from the trace, induction over "
                                   "call histories; functor lemma for the manager family) + differential "
                                   "correspondence with the real wrapper, call-level and under the real managers",
        note=NOTE + " C14 specifically: membership of the super observation in the gymnasium Dict space is a run-time "
             "check on the real side, not a Lean theorem; the one-time warning of _get_null_obs is not modelled; unknown "
             "agent ids and actions outside the action space are outside the modelled domain."),
    "C20": dict(
        text="Lean 4 theorems over the model of CommunicationHandshakeWrapper as a functor on any simulation whose "
             "get_obs takes a fusion row (Model/Comm.lean: receive processing of the acting agents against the current "
             "buffer, buffer cleared, wrapped step with the original action entries, send processing; exceptions "
             "modelled): for every wrapped simulation, number of agents and history of resets, steps (any subset of "
             "acting agents, any bits) and get_obs calls - buffer_iff / buffer_after_step (buffer[x][y] after a step iff y "
             "acted in that step and chose to send to x), fuse_iff (by induction over the history: fuse[x][y] iff at x's "
             "most recent action since the last reset y's message was pending and x chose to receive it; false before "
             "x's first action; idle agents keep their row), cleared_each_step_and_reset, inner_gets_original_actions, "
             "comm_spaces_mem / augAct_wf (augmented spaces as key-set facts), C20_trace (the model's call trace passes "
             "the judge specC20, whose expectations are computed from the call history alone), comm_lawful / comm_WF / "
             "C01_applies_to_comm (a wrapped simulation again satisfies the managers' frame conditions, so the manager "
             "theorems apply to it), with readings of the judge. Tie: the real wrapper over a fusion-aware scripted stub "
             "(records the fusion_matrix and the action dict it is handed), exhaustive bit patterns on small scopes, "
             "seeded random histories, an out-of-domain stream and the wrapper under the real AllStepManager; every call's "
             "result, ghost log and both dictionaries must equal the model's and specC20 is evaluated by the driver on the "
             "implementation's trace; space membership of observations and actions is checked on the real side.",
        design="§5 C20", technique="Lean 4 proof (loop characterisations, history invariant by induction, functor lemma) + "
                                   "differential correspondence of the hand-written model with the real wrapper"),
    "C06": dict(
        text="Lean 4 theorems sar_commutes / sar_commutes_every_history / sar_inner_steps / sar_obs / sarSim_commutes: the "
             "SAR wrapper is a functor on the abstract simulation interface (step decodes every action with the inner "
             "agent's space, then steps; get_obs encodes; everything else forwarded; no state of its own) and for every "
             "inner simulation (any state / action / observation type), every decoder / encoder and every call history "
             "the wrapped trace is the inner trace under the decoded calls seen through the encoder (obsW = enc obs), the "
             "inner simulation ends in the same state and its step received exactly the decoded action dictionaries; an "
             "undecodable action raises before the inner simulation is touched. ravel_commutes / flatten_commutes / "
             "flattenAction_commutes instantiate it with C04's unravel / ravel and C05's unflatten / flatten: every wrapped "
             "action of the wrapped space decodes (ravel_dec_ok, unflatten_total), every wrapped observation is the "
             "encoding of the inner one and a member of ravel_space / flatten_space (ravel_obs_mem, flatten_obs_mem). "
             "C06_wrapped_lawful / _WF / _resetForgets / C06_managers_over_wrapped / C06_fresh_twin_over_wrapped: frame "
             "conditions and reset-forgetting pass through the wrapper, so C01 and C08 hold for every manager over every "
             "wrapped simulation. actorWrapper_commutes (+ ravelActor_commutes, exclusiveActor_commutes, the instances "
             "ravelActor_move / _cross / _drift): ActorWrapper.process_action around any model actor is that actor on the "
             "decoded action. exclusive_decode / exclusive_encode / exclusive_decode_injective / exclusive_bijection / "
             "exclDims_formula: the exclusive-channel wrap_point (transcribed loop for loop, skip of the duplicate zero "
             "vector included) is a bijection from range(dims), dims = sum n_i - m + 1, onto the members of the Dict that use "
             "at most one channel, with unwrap_point its inverse (mixed-radix / offset arithmetic by induction over the "
             "channel list on top of C04). unwrapped_innermost: every stack of wrappers exposes its base. Readings "
             "(commuteEntry_reading, specExclusive_reading, specUnwrapped_reading), the model's outcomes satisfy the "
             "judges (C06_specCommute_model, predictW_spec, C06_specExcl*_model), stub instance (C06_stub_ravel / "
             "_flatten). Tie: side-by-side twins on the real code - the same seeded real simulation (scripted stub with "
             "generated nested spaces, MultiCorridor) built twice, one copy wrapped by the real RavelDiscreteWrapper / "
             "FlattenWrapper / FlattenActionWrapper alone or stacked with SuperAgentWrapper / "
             "CommunicationHandshakeWrapper / each other; every call reaching the wrapper is mirrored on the twin with the "
             "actions decoded by the real unravel / unflatten; wrapped values, the arguments the inner step received, the "
             "real `in` answers and both inner state dumps must equal the model's and are judged by specCommute; every "
             "value of wrapped action spaces up to 512 from a common state; real move and attack actors wrapped by "
             "RavelActionWrapper / ExclusiveChannelActionWrapper against the unwrapped actor fed the decoded action on a "
             "twin world; the exclusive encoding for every number and every at-most-one-channel action of generated Dict "
             "spaces. Finding K6 (SARWrapper.get_obs / get_reward dropped keyword arguments: "
             "CommunicationHandshakeWrapper over a ravel- or flatten-wrapped simulation never fused observations) was "
             "found by this check and repaired in /repo (095c96e); its reproducers stay in the corpus.",
        design="§5 C06", technique="Lean 4 proof (functor / per-call commuting lifted over histories; offset arithmetic of "
                                   "the exclusive encoding by induction, reusing the C04 / C05 bijection theorems) + "
                                   "side-by-side twin differential runs on the real wrappers",
        note=NOTE + " C06 specifically: the deep-copy clause (wrapping never alters the wrapped simulation's own agents "
             "or spaces) and the object-identity half of the `unwrapped` clause are RUNTIME-ONLY: aliasing cannot be "
             "exhibited in a pure functional model, so they are checked on the real objects of every twin pair by "
             "snapshot comparison (repr and structural equality of the spaces, null points, ids, object identity of "
             "sim.agents / every agent / every space before wrapping, after wrapping and after stepping; `wrapper.unwrapped "
             "is innermost` for every wrapper of every stack) and reported as VIOLATION when they fail; there is no "
             "theorem behind them beyond unwrapped_innermost on the modelled chain. Real simulations the model does not "
             "contain (MultiCorridor, SuperAgentWrapper / CommunicationHandshakeWrapper underneath the wrapper under "
             "test, attack actors) enter the model through the twin's returned values: there the model's prediction is the "
             "right-hand side of the per-call commuting theorem evaluated on the twin's outcome."),
}

# three more packaged examples inside the model (MultiCorridor, MultiAgentGridSim, ReachTheTargetSim)
MORE_EXAMPLES = {
    "C01": "Three more packaged examples are modelled instances: MultiCorridor (Model/Corridor.lean; Cor.cor_lawful, "
           "Cor.cor_WF, C01_MultiCorridor), MultiAgentGridSim (Model/MultiGrid.lean; MAG.mag_lawful, C01_MultiAgentGridSim) "
           "and ReachTheTargetSim (Model/Reach.lean; RT.rt_lawful, C01_ReachTheTarget): specC01 for every configuration, "
           "manager and history; tied by the same two streams (ops mgrx / gexample with configurations `(corridor ..)`, "
           "`(multigrid ..)`, `(reach ..)`; corridors of 30+ cells with 11+ agents and 150+ manager steps included).",
    "C07": "MultiCorridor, MultiAgentGridSim and ReachTheTargetSim are modelled instances too (C07_MultiCorridor, "
           "C07_MultiAgentGridSim, C07_ReachTheTarget and the *_every_call_returns corollaries), tied by op mgrx.",
    "C02": "Also modelled: MultiCorridor (corridor_observations_in_space: every observation of every reachable state is in "
           "Dict(position: Box(0, end-1), left / right: MultiBinary(1)); corridor_step_noRaise: a step for distinct agents "
           "that are not done never raises, whatever the action values; corridor_done_agent_right_raises: RIGHT for a done "
           "agent does raise - the managers never hand such an action on; corridor_hist: the judge Cor.specCor holds on the "
           "model's trace for EVERY history, incl. arbitrary action dicts and steps that raise, whose exact partial state "
           "is modelled), MultiAgentGridSim (multigrid_observation_in_space, multigrid_step_noRaise, multigrid_hist) and "
           "ReachTheTargetSim (model and judge RT.specRT; two findings were first carried by the model as KeyError branches "
           "and proved on witnesses, then repaired in the repo, the model follows, regression theorems "
           "reach_R1_witness_processed / reach_R2_witness_processed and corpus cases C02/R1-*, R2-*: R1 - a runner "
           "standing on the target's cell after reset and killed in the attack loop made step raise KeyError in "
           "grid.remove, for in-space actions under AllStepManager; R2 - finding C02-E3 was still in reach_the_target.py; "
           "reach_observations_in_space: in every state its own reset / step can reach, get_obs of every agent with an "
           "in-grid position lies in the declared space - the WInv observer theorem transported through RT.heal, since "
           "these worlds only satisfy WInvWeak; reach_step_noRaise_WInv / reach_first_step_noRaise: a step whose items are "
           "points of the declared action spaces of learning agents does not raise when it starts in a WInv world, in "
           "particular the first step of every episode (the situation of R1); since the last session also for EVERY "
           "reachable state, which is only WInvWeak: reach_stepMustNotRaise_returns (the judge's Boolean alone implies "
           "that step returns, no invariant hypothesis), reach_step_noRaise, reach_simIface_step_returns, via "
           "RT.processAttack_heal (process_action of every attack actor commutes with `set the health of inactive "
           "agents to 0`) and RT.processAttack_ok_weak; reach_hist: the judge RT.specRT holds on the model's trace for "
           "every history; reach_inactive_positions_in_grid, reach_observations_in_space_all, reach_getters_total). "
           "PacmanSim and PacmanSimSimple are modelled instances too (Model/Pacman.lean, judge PM.specPM, driver "
           "configuration `(pacman ..)`, harness/p_pacman.py: both packaged grids and generated odd layouts, any action "
           "dicts, raising steps with the exact state they leave): PM.pm_lawful / PM.pm_WF, pacman_reset_establishes, "
           "pacman_reset_forgets, pacman_fresh_twin, PM.step_vsame, pacman_reachable_inv, pacman_reset_after_anything "
           "and the witnesses pacman_teleport_outside_grid_raises, pacman_refused_teleport_witness, "
           "pacman_allDone_ignores_eaten_food, pacmansimple_few_baddies_raises, and (second workstream) "
           "pacman_reachable_WInvFloat (the cell structure of every reachable state, raising steps included), "
           "pacman_observations_in_space (observer chain re-proved from WInvFloat), pacman_step_keeps_WInv / "
           "pacman_step_noRaise under PM.stepPre, pacman_hist (the judge PM.specPM holds on the model's trace of every "
           "history) and pacman_example_grid_cfgWF_teleSafe (the packaged example_grid, 366 agents, by decide +kernel) "
           "are proved (see DESIGN.md 11.2).",
    "C03": "MultiCorridor's own invariant (positions within 0..end-1, not-done agents pairwise apart, corridor cells = the "
           "not-done agents at their positions) is proved for every history (corridor_reachable_inv, corridor_inv_reading); "
           "MultiAgentGridSim is a modelled instance (multigrid_reachable_WInv, multigrid_simIface_reachable); "
           "ReachTheTargetSim is modelled (Model/Reach.lean, op gexample: model = implementation call by call): "
           "reach_reachable_WInvWeak / reach_simIface_reachable - every world its own reset / step can reach (ANY action "
           "dicts) satisfies WInvWeak and has the constructed static part; WInv itself is false there as soon as a runner "
           "reached the target (active = False by hand, health positive: the clause `active iff health positive` is for "
           "the built-in components alone). The WInvWeak versions of the component lemmas were proved for this: "
           "RT.moveAct_weak, RT.processAttack_weak (every attack actor, attacker, action, tape), RT.takeOff_weak (the "
           "hand-written grid.remove + active = False); reach_reset_establishes: reset turns any WInvWeak world into a "
           "WInv world.",
    "C08": "Also: MultiCorridor (corridor_reset_forgets: the state after reset is a function of configuration and tape; "
           "corridor_fresh_twin under every manager, no hypothesis on the used object), MultiAgentGridSim "
           "(multigrid_reset_forgets, multigrid_fresh_twin, multigrid_fresh_twin_reachable) and ReachTheTargetSim "
           "(reach_reset_forgets, reach_fresh_twin, reach_reset_establishes), tied by used-versus-fresh twins of real objects.",
}
for _pid, _t in MORE_EXAMPLES.items():
    CHECKS[_pid]["text"] += " " + _t

PENDING = {
}


def main():
    props = [json.loads(l) for l in open(os.path.join(VERIF, "properties.jsonl"))]
    checks, na = [], []
    for p in props:
        pid = p["id"]
        if pid in CHECKS:
            c = CHECKS[pid]
            checks.append({
                "property_id": pid,
                "quick_cmd": f"./check {pid} --tier quick",
                "thorough_cmd": f"./check {pid} --tier thorough",
                "evidence_file": f"evidence/{pid}.json",
                "replay_cmd_template": f"./check {pid} --replay {{path}}",
                "engine": "lean4-model+correspondence",
                "level_claimed": {"category": "proof", "text": c["text"], "design_ref": "DESIGN.md " + c["design"]},
                "level_note": c.get("note", NOTE),
                "technique": c["technique"],
            })
        else:
            na.append({"property_id": pid,
                       "reason": PENDING.get(pid, "not claimed yet: model, theorems and correspondence for this "
                                                  "property are still being built (see DESIGN.md build order)")})
    man = {
        "version": 1,
        "setup_cmd": "cd lean && lake build Abmarl driver",
        "hooks": {
            "guard": "ABMARL_VERIF",
            "enable": "no hook or instrumentation lives in /repo: the harness imports the working tree "
                      "(PYTHONPATH) and observes it through public APIs and class-level patching from outside",
            "baseline_off_cmd": "cd /repo && /venv/bin/python -m pytest -ra -q -p no:cacheprovider --timeout=900 "
                                "--continue-on-collection-errors",
            "source_commits": [],
            "add_only": True,
        },
        "engines": [{
            "name": "lean4-model+correspondence", "path": "lean/ + harness/",
            "serves_properties": sorted(CHECKS),
            "kind_free_text": "hand-written executable Lean 4 models with machine-checked theorems; a Python "
                              "harness runs the real code and the compiled Lean driver on the same inputs and "
                              "evaluates the proved specification predicate on the implementation's outcome",
        }],
        "checks": checks,
        "not_applicable": na,
        "notes": "Single entry point ./check <Cxx> [--tier quick|thorough] [--replay FILE]; VERIF_SEED selects the "
                 "PRNG seed. known_findings.json lists open findings (KNOWN-FINDING lines) and fixed ones.",
    }
    with open(os.path.join(VERIF, "MANIFEST.json"), "w") as f:
        json.dump(man, f, indent=1)
    print("claimed:", sorted(CHECKS), "not_applicable:", [x["property_id"] for x in na])


if __name__ == "__main__":
    main()
