#!/bin/bash
# tools/try_benign.sh <id> <patch.diff> <check-ids...>
# a HARMLESS change (behaviour through the public API unchanged): applied to a scratch worktree of /repo, the given
# checks (quick tier, ABMARL_REPO) must stay quiet: exit 0, no VIOLATION line.  One line per check.
set -u
ID=$1; PATCH=$(readlink -f "$2"); shift 2
WT=/tmp/benign_$$_$ID
git -C /repo worktree add -q --detach $WT HEAD || exit 2
trap 'git -C /repo worktree remove --force $WT >/dev/null 2>&1' EXIT
git -C $WT apply "$PATCH" || { echo "[$ID] patch does not apply"; exit 0; }
cd "$(dirname "$0")/.."
for c in "$@"; do
  out=$(ABMARL_REPO=$WT VERIF_NO_EVIDENCE=1 ./check $c --tier ${TIER:-quick} 2>&1); rc=$?
  if [ $rc -eq 0 ] && ! echo "$out" | grep -q '^VIOLATION'; then v=quiet; else v="ALARM(rc=$rc)"; fi
  echo "[$ID] check $c: $v $(echo "$out" | grep '^VIOLATION' | head -1) :: $(echo "$out" | tail -1 | cut -c1-160)"
done
