#!/bin/bash
# tools/run_all_par.sh -- as run_all.sh, J checks at a time (env J, default 4; SEEDS, TIER); writes evidence only with NOEV= (empty)
cd "$(dirname "$0")/.."
TIER=${TIER:-quick}; SEEDS=${SEEDS:-"0"}; J=${J:-4}
(cd lean && lake build Abmarl driver >/dev/null 2>&1)
one() {
  pid=$1; s=$2
  out=$(VERIF_NO_EVIDENCE=${NOEV-1} VERIF_SEED=$s ./check $pid --tier $TIER 2>&1); rc=$?
  echo "$pid seed=$s rc=$rc :: $(echo "$out" | grep -c '^VIOLATION') violation(s) :: $(echo "$out" | tail -1 | cut -c1-200)"
}
export -f one; export TIER
for pid in $(python3 -c "import json;print(' '.join(c['property_id'] for c in json.load(open('MANIFEST.json'))['checks']))"); do
  for s in $SEEDS; do echo "$pid $s"; done
done | xargs -P $J -L 1 bash -c 'one $0 $1' | sort
