#!/usr/bin/env python3
"""Regenerates the machine-written tables of DESIGN.md section 11 (between the AUTO markers) from
evidence/*.json, seeded/*/meta.json, known_findings.json and MANIFEST.json."""
import glob
import json
import os
import re

ROOT = os.path.dirname(os.path.dirname(os.path.abspath(__file__)))


def table_checks():
    man = json.load(open(os.path.join(ROOT, "MANIFEST.json")))
    rows = ["| property | level | theorems audited | cases (quick, seed 0) | distinct non-trivial | wall (s) |",
            "|---|---|---|---|---|---|"]
    claimed = {p["property_id"]: p for p in man.get("checks", [])}
    for pid in sorted(claimed):
        f = os.path.join(ROOT, "evidence", pid + ".json")
        if not os.path.exists(f):
            continue
        e = json.load(open(f))
        c = e["coverage"]
        rows.append("| %s | %s | %s/%s | %s | %s | %.0f |" % (pid, e.get("level", ""), c.get("discharged"),
                    c.get("obligations"), c.get("evaluations"), c.get("distinct_nontrivial"), e.get("wall_s", 0)))
    return "\n".join(rows)


def table_benign():
    rows = ["| harmless change | written for | kind | checks run | result |", "|---|---|---|---|---|"]
    for f in sorted(glob.glob(os.path.join(ROOT, "benign", "*", "meta.json"))):
        m = json.load(open(f))
        rows.append("| %s | %s | %s | %s | %s |" % (m["id"], m["written_for_property"], m["kind"].split(" (")[0],
                                                  ", ".join(m["checks_run"]), m.get("result", "quiet")))
    return "\n".join(rows) + "\n"


def table_seeded():
    rows = ["| seeded change | breaks | needs, to manifest | caught by | note |", "|---|---|---|---|---|"]
    for f in sorted(glob.glob(os.path.join(ROOT, "seeded", "*", "meta.json"))):
        m = json.load(open(f))
        rows.append("| %s | %s | %s | %s | %s |" % (m["id"], m["breaks_property"], m["needs_to_manifest"].replace("|", "/"),
                    ", ".join(m["caught_by"]) or "—", m["result"].replace("|", "/")))
    return "\n".join(rows)


def table_findings():
    k = json.load(open(os.path.join(ROOT, "known_findings.json")))["findings"]
    rows = ["| id | property | status | what |", "|---|---|---|---|"]
    for it in k:
        st = it["status"] + (" " + it.get("commit", "") if it["status"] == "fixed" else "")
        rows.append("| %s | %s | %s | %s |" % (it["id"], it["property"], st, it["what"].replace("|", "/")))
    return "\n".join(rows)


def main():
    p = os.path.join(ROOT, "DESIGN.md")
    s = open(p).read()
    for name, fn in (("checks", table_checks), ("seeded", table_seeded), ("findings", table_findings),
                     ("benign", table_benign)):
        pat = re.compile(r"(<!-- AUTO:%s:begin -->\n).*?(<!-- AUTO:%s:end -->)" % (name, name), re.S)
        if not pat.search(s):
            raise SystemExit("marker missing: " + name)
        s = pat.sub(lambda m: m.group(1) + fn() + "\n" + m.group(2), s)
    open(p, "w").write(s)
    print("DESIGN.md tables regenerated")


if __name__ == "__main__":
    main()
