#!/bin/bash
# tools/anchor_coverage.sh <Cxx> [tier]  -- development aid: which lines of /repo/abmarl does the correspondence
# stream of a check execute?  (coverage.py from /venv; the data file lives in /tmp and is removed)
set -u
ID=$1; TIER=${2:-quick}
cd "$(dirname "$0")/.."
D=/tmp/cov_$ID.$$
PYTHONPATH=harness VERIF_NO_EVIDENCE=1 /venv/bin/python -m coverage run --branch --include='/repo/abmarl/*' --data-file=$D harness/main.py $ID --tier $TIER >/dev/null 2>&1
echo "exit of the check under coverage: $?"
FILES=$(python3 - "$ID" <<'PY'
import json,sys,os,glob
pid=sys.argv[1]
for l in open('properties.jsonl'):
    d=json.loads(l)
    if d['id']==pid:
        out=[]
        for f in d['anchors']['files']:
            p=os.path.join('/repo',f)
            if os.path.isdir(p): out+=glob.glob(p.rstrip('/')+'/*.py')
            else: out.append(p)
        print(",".join(out))
PY
)
/venv/bin/python -m coverage report --data-file=$D --include="$FILES" -m 2>&1
rm -f $D
