#!/bin/bash
# tools/try_mut.sh <rN> <Cxx> <mK> <checks...> -- apply /tmp/mut_<Cxx>_<rN>/_mutation/<mK>/patch.diff to a scratch worktree and run the checks on it
R=$1; P=$2; M=$3; shift 3
cd "$(dirname "$0")/.."
WT=/tmp/try_${R}_${P}_${M}_$$
git -C /repo worktree add -q --detach $WT HEAD || exit 2
git -C $WT apply /tmp/mut_${P}_${R}/_mutation/$M/patch.diff || { git -C /repo worktree remove --force $WT; echo "patch does not apply"; exit 2; }
for c in "$@"; do
  out=$(ABMARL_REPO=$WT VERIF_NO_EVIDENCE=1 ./check $c --tier ${TIER:-quick} 2>&1); rc=$?
  echo "$P-$R$M check $c: rc=$rc $(echo "$out" | grep '^VIOLATION' | head -2 | tr '\n' ' ') :: $(echo "$out" | tail -1)"
done
git -C /repo worktree remove --force $WT
