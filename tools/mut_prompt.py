#!/usr/bin/env python3
"""tools/mut_prompt.py <Cxx>  -> prints the prompt for a fresh adversary sub-agent (property text only) and
creates its scratch worktree /tmp/mut_<Cxx> (detached HEAD of /repo)."""
import json
import os
import subprocess
import sys

pid = sys.argv[1]
BENIGN = len(sys.argv) > 2 and sys.argv[2] in ("benign", "benign2")
BENIGN2 = len(sys.argv) > 2 and sys.argv[2] == "benign2"
ROUND2 = len(sys.argv) > 2 and sys.argv[2] == "round2"
ROUND3 = len(sys.argv) > 2 and sys.argv[2] == "round3"
ROUND4 = len(sys.argv) > 2 and sys.argv[2] == "round4"
ROUND5 = len(sys.argv) > 2 and sys.argv[2] == "round5"
ROUND6 = len(sys.argv) > 2 and sys.argv[2] == "round6"
suffix = "_bn2" if BENIGN2 else "_r2" if ROUND2 else ("_r3" if ROUND3 else ("_bn" if BENIGN else ("_r4" if ROUND4 else ("_r5" if ROUND5 else ("_r6" if ROUND6 else "")))))
root = os.path.dirname(os.path.dirname(os.path.abspath(__file__)))
prop = next(json.loads(l) for l in open(os.path.join(root, "properties.jsonl")) if json.loads(l)["id"] == pid)
wt = f"/tmp/mut_{pid}{suffix}"
if not os.path.exists(wt):
    subprocess.run(["git", "-C", "/repo", "worktree", "add", "-q", "--detach", wt, "HEAD"], check=True)
files = ", ".join(prop["anchors"]["files"])
extra = ("""
This is a SECOND round: a first round already tried the obvious single-call defects. Prefer defects that only show (a) when ONE object (manager, wrapper, component, simulation, trainer) is used for a multi-step history — several episodes, options changed through public setters between uses, a second call after a first one, (b) through aliasing or shared mutable state between two objects built in the same process, (c) for inputs that are equal as values but differ in representation or ordering (dict insertion order, id order, numpy memory layout/dtype, tuple vs list, int vs numpy int), or (d) only for a particular combination of three or more options/agents. A check that builds a fresh object per case and feeds canonical inputs must NOT be able to see your change.""" if ROUND2 else ("""
This is a THIRD round: earlier rounds tried single-call defects and defects that need object histories, aliasing or unusual representations. Assume the checker generates many SMALL cases (grids up to about 6x6, up to about 7 agents, ranges up to about 6, histories up to about 40 operations, small integers) exhaustively and at random, also with object reuse. Prefer defects that only show at SCALE or at EXTREMES that such generators do not reach: ten or more rows/columns, eleven or more agents (ids like agent10 sort before agent2), view/move/attack ranges of 8 and more or larger than the grid, more than 9 encodings, two-digit counts, histories of 50+ steps or 3+ episodes, values at the ends of integer or float ranges, accumulation effects (rounding of many small rewards, counters), performance shortcuts that change results only above a threshold. The defect must still be realistic and must still leave the test suite unchanged.""" if ROUND3 else ("""
This is a FOURTH round. Assume the checker is STRONG: it drives the real code with exhaustive small cases and many random ones, with a share of big cases (20x20 grids, 15+ agents, 1000+ agents under a manager, ranges of 15+, episodes of 500 steps), with multi-episode histories on one object, second objects alive in the same process, options changed through setters, numpy and Python representations of the same values, and it compares EVERY observable result and the state after every call with an executable reference model. Find what such a checker would plausibly still miss. Prefer: (a) a defect placed OUTSIDE the anchored files - in a base class, the agent classes, a utility, a registry, a helper the anchored code calls, or in the interplay of two components or wrapper layers - that nevertheless breaks THIS property; (b) a defect that needs a rare CONJUNCTION of three or more independent conditions (particular agent kinds in a particular dictionary order, with a particular option, at a particular position or value); (c) code reached only through an optional keyword argument, a rarely used public method, property or class-level default; (d) particular numeric values (exact ties, exact boundaries such as health exactly equal to attack strength, accuracy exactly 1.0 or 0.0, a draw landing exactly on a threshold, negative zero, values that differ only beyond float32 precision); (e) a dependence on object identity, hash order or garbage left behind by an exception raised in an earlier call. The defect must still be realistic (a plausible maintainer slip) and must still leave the test suite unchanged.""" if ROUND4 else ("""
This is a SIXTH round. Assume the checker is STRONG: it drives the real code with exhaustive small cases and many random ones (a share of them big), with multi-episode histories on one object, second objects alive in the same process, options changed through setters, caller-side edits of everything handed in or handed back, numpy and Python representations of the same values, and it compares every observable result and the state after every call with an executable reference model. Find what it would plausibly still miss. This round is about FAULTS, INTERLEAVINGS and COOPERATING SITES: (a) a FAULT AT A PARTICULAR POINT - an exception raised part-way through a multi-step operation (by the wrapped simulation, by one bad item among good ones in a dictionary, by a rejected setter, by a component) after which the object is used again legally and now misbehaves because the interrupted operation left half-updated state; (b) TWO COOPERATING SITES that each look fine alone (a producer that changes what it stores and a consumer that changes how it reads, a default changed in one place and relied on in another, a helper that starts returning a view / generator / other type and one caller of several that cannot cope); (c) a particular INTERLEAVING of public calls that are usually made in a fixed order (a getter called twice or not at all between steps, get_obs before the first reset or after the last step, reset called twice in a row or in the middle of an episode, step after the episode finished, render or a property read in between, two wrappers / managers sharing one simulation used alternately); (d) a MULTI-STEP SEQUENCE in which the first steps only prepare the state (an agent dies, a counter passes a value, a buffer fills) and the defect shows several calls later. The defect must still be realistic (a plausible maintainer slip) and must still leave the test suite unchanged.""" if ROUND6 else ""))))
if BENIGN:
    B2 = ("""      THIS ROUND (benign2): put the three changes where objects are CONFIGURED and where calls can FAIL - the public property setters and their validation code (validate into a local and commit at the end, a helper extracted, checks re-ordered where the order cannot matter, a message re-worded, `type(x) is T` kept as it is), constructors, and exception paths (a try/finally that restores what was there, an early check that can only fire on what would be rejected anyway, an exception re-raised unchanged). A rejected assignment must still leave the object exactly as it was, an accepted one must store exactly what it stored before, and an interrupted call must leave exactly the state it left before. Use the three kinds below, but at such sites.\n""" if BENIGN2 else "")
    print(f"""You are helping to evaluate a verification effort: its checks must stay QUIET on harmless changes. You get ONE semantic property of the Python package LLNL/Abmarl and your own scratch git worktree of its repository at {wt} (a detached checkout; work ONLY there; do NOT read or use anything under /verif or /repo).

The property:
-----
{pid} — {prop['title']}

{prop['statement']}

Quantified over: {prop['quantifier']['text']}

Code it is anchored in: {files}
-----

Your task: produce THREE independent HARMLESS changes to the code the property is anchored in — the kind of commit a maintainer makes all the time — each of which
  (1) keeps the property TRUE for every input, schedule and history, and keeps the behaviour observable through the PUBLIC API exactly the same (same return values, same exceptions raised in the same situations, same consumption of numpy's global random stream in the same order, same contents of public attributes),
  (2) still leaves the test suite exactly as it was: `cd {wt} && /venv/bin/python -m pytest -q -p no:cacheprovider --timeout=900 --continue-on-collection-errors 2>&1 | tail -5` gives `1 failed, 155 passed, 12 errors` before and after,
  (3) is NOT trivial: it must really restructure code on the paths the property exercises. Use three different kinds, one each:
{B2}      m1: an internal refactoring — loops rewritten as comprehensions or the other way round, a helper function or method extracted or inlined, early returns, conditions reordered where order does not matter, local variables renamed, a private helper attribute or private method (leading underscore, not part of the documented interface) renamed or replaced by an equivalent structure;
      m2: an equivalent algorithm or data structure — a different but equivalent formula, a set instead of a list where order is not observable, a cached or precomputed value that is provably always fresh, numpy vectorisation of a Python loop or the reverse, integer arithmetic instead of equivalent comparisons;
      m3: a change of things the property does not speak about — wording of error and assertion messages, docstrings and comments, added type or sanity checks that can never fire on legal use, logging, rendering code, default colours / render shapes, an added keyword argument with a default that preserves behaviour, an added public helper method.
For each change i in {{1,2,3}} deliver, under {wt}/_mutation/m<i>/ : patch.diff (`git diff` of ONLY that change against HEAD; make change 1, save its diff, `git checkout -- .`, then the next), and README.md (what was changed and the argument why behaviour is unchanged; the test-suite tail with the change). Also write ONE program {wt}/_mutation/demo.py exercising the changed code paths through the public API with fixed seeds (np.random.seed) and printing a digest (e.g. a hash of all observations / states / outputs over a few hundred operations); run it on the clean checkout and with each change applied and confirm in each README that the digest is IDENTICAL (if `abmarl.sim.wrappers` is needed: gymnasium 1.3 lacks `gymnasium.spaces.box.get_inf`, define it before importing: `import gymnasium.spaces.box as b; import numpy as np; b.get_inf = getattr(b,'get_inf', lambda dtype, sign: (np.inf if sign=='+' else -np.inf) if np.dtype(dtype).kind=='f' else (np.iinfo(dtype).max-2 if sign=='+' else np.iinfo(dtype).min+2))`; run as `PYTHONPATH=<checkout> /venv/bin/python demo.py`).
Leave the worktree clean (`git checkout -- .`; `_mutation/` stays, untracked). Keep scratch files inside {wt}/_mutation/.
In your final message give, per change, a two-line summary (site, what changed).""")
    sys.exit(0)
if ROUND5:
    print(f"""You are helping to measure a verification effort. You get ONE semantic property of the Python package LLNL/Abmarl and your own scratch git worktree of its repository at {wt} (a detached checkout; work ONLY there; do NOT read or use anything under /verif or /repo).

The property:
-----
{pid} — {prop['title']}

{prop['statement']}

Quantified over: {prop['quantifier']['text']}

Code it is anchored in: {files}
-----

Your task: produce FIVE independent ORDINARY defects ("mutants") - the everyday slips of a maintainer, not exotic constructions: an off-by-one, `<` for `<=`, a wrong variable of two similar ones, swapped arguments, a negated or dropped condition, `and` for `or`, a statement moved into or out of a loop or an `if`, a forgotten update of one of two fields, a wrong default, `==` on the wrong pair, an early `return`/`continue`/`break`, an index `[0]` for `[1]`, `min` for `max`, a copy dropped or added. Each must
  (1) BREAK the property above for some reasonably ordinary input or history (no need for rare conjunctions),
  (2) leave the repository's test suite exactly as it was: `cd {wt} && /venv/bin/python -m pytest -q -p no:cacheprovider --timeout=900 --continue-on-collection-errors 2>&1 | tail -3` gives `1 failed, 155 passed, 12 errors` on the unchanged tree and must give the same with the change (if a candidate makes a test fail, drop it and take another),
  (3) be a change of ONE to THREE lines at ONE site, each of the five in a DIFFERENT function or method (spread them over the anchored files; one of the five may be in a helper outside them).
For each change i in 1..5 deliver under {wt}/_mutation/m<i>/ : patch.diff (`git diff` of ONLY that change against HEAD; apply it, save the diff, `git checkout -- .`, next), demo.py (standalone, run as `PYTHONPATH=<checkout> /venv/bin/python demo.py`, exits 0 on the unchanged checkout and non-zero with a clear assertion message with the change applied, showing the property violated through the public API; if you need `abmarl.sim.wrappers` or `abmarl.external`, gymnasium 1.3 lacks `gymnasium.spaces.box.get_inf`: define it before importing: `import gymnasium.spaces.box as b; import numpy as np; b.get_inf = getattr(b,'get_inf', lambda dtype, sign: (np.inf if sign=='+' else -np.inf) if np.dtype(dtype).kind=='f' else (np.iinfo(dtype).max-2 if sign=='+' else np.iinfo(dtype).min+2))`), and README.md (one paragraph: site, what was changed, which clause breaks, the test-suite tail with the change). Verify each at the end: clean checkout -> demo exits 0; `git apply` -> suite unchanged, demo fails; `git checkout -- .`. Leave the worktree clean (`_mutation/` stays, untracked). Keep scratch files inside {wt}/_mutation/. Work quickly: aim to finish within 30 minutes.
In your final message give one line per change (site, change).""")
    sys.exit(0)
print(f"""You are helping to evaluate a verification effort by playing the adversary. You get ONE semantic property of the Python package LLNL/Abmarl and your own scratch git worktree of its repository at {wt} (a detached checkout; work ONLY there; do NOT read or use anything under /verif or /repo — what you write must be independent of any existing checker).

The property:
-----
{pid} — {prop['title']}

{prop['statement']}

Quantified over: {prop['quantifier']['text']}

Code it is anchored in: {files}
-----

Your task: produce TWO independent changes ("seeded defects") to the Abmarl source in your worktree, each of which
  (1) BREAKS the property above (for some input / schedule / history the property's statement becomes false),
  (2) still imports/compiles and leaves the repository's existing test suite exactly as it was: run `cd {wt} && /venv/bin/python -m pytest -q -p no:cacheprovider --timeout=900 --continue-on-collection-errors 2>&1 | tail -5` before and after — the unchanged tree gives `1 failed, 155 passed, 12 errors` in this sandbox (the 13 non-passing items are environment-related and must stay exactly the same set; the 155 passes must stay passes),
  (3) is REALISTIC (the kind of slip a maintainer could make in a refactoring or "optimisation": a reordered statement, a cached value, an off-by-one, a condition that looks equivalent, a forgotten reset of one field, two cooperating sites that each look fine alone) and SUBTLE: it must need something specific to manifest — a particular interleaving or schedule, a multi-step sequence of operations, a second episode, an unusual but legal input, a particular combination of options — NOT something that ordinary use or the existing tests would expose at once. Do not just delete a feature or raise an exception unconditionally.
The two changes must use different mechanisms / different code sites.{extra}

For each change i in {{1,2}} deliver, under {wt}/_mutation/m<i>/ :
  * patch.diff — `git diff` of ONLY that change against the worktree's HEAD (apply cleanly with `git apply` on a clean checkout; make change 1, save its diff, `git checkout -- .`, then make change 2),
  * demo.py — a small standalone program (run as `PYTHONPATH=<checkout> /venv/bin/python demo.py`; note `abmarl` is not installed, it is imported from the checkout via PYTHONPATH; if you need `abmarl.sim.wrappers`, gymnasium 1.3 lacks `gymnasium.spaces.box.get_inf`, so define it before importing: `import gymnasium.spaces.box as b; import numpy as np; b.get_inf = getattr(b,'get_inf', lambda dtype, sign: (np.inf if sign=='+' else -np.inf) if np.dtype(dtype).kind=='f' else (np.iinfo(dtype).max-2 if sign=='+' else np.iinfo(dtype).min+2))`) that exits 0 on the UNCHANGED checkout and exits non-zero (assertion failure with a clear message) WITH the change applied — demonstrating the property violation through the public API,
  * README.md — which clause of the property it breaks, what exactly is needed for it to manifest, and the outputs of the test suite and of demo.py with and without the change (you must actually run all four).
Leave the worktree clean (`git checkout -- .`; the `_mutation/` directory stays, untracked). Verify each patch once more at the end: clean checkout -> demo passes; `git apply _mutation/m<i>/patch.diff` -> test suite unchanged and demo fails; `git checkout -- .`.
Keep any scratch files inside {wt}/_mutation/ (not elsewhere under /tmp).

In your final message give, per change, a three-line summary (site, mechanism, trigger).""")
