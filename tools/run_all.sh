#!/bin/bash
# run every claimed check (quick tier by default) for the given seeds; print one line per run
cd "$(dirname "$0")/.."
TIER=${TIER:-quick}
SEEDS=${SEEDS:-"0"}
for pid in $(python3 -c "import json;print(' '.join(c['property_id'] for c in json.load(open('MANIFEST.json'))['checks']))"); do
  for s in $SEEDS; do
    out=$(VERIF_SEED=$s ./check $pid --tier $TIER 2>&1); rc=$?
    echo "$pid seed=$s rc=$rc :: $(echo "$out" | grep -c '^VIOLATION') violation(s) :: $(echo "$out" | tail -1)"
  done
done
