#!/bin/bash
# tools/recheck_benign.sh [-j N] [ids...] -- the HARMLESS changes archived under benign/ (behaviour through the public
# API unchanged): each is applied to its own scratch worktree of /repo and the checks named in its meta.json run against
# it (ABMARL_REPO, quick tier); every check must stay quiet (exit 0, no VIOLATION line).  exit 1 if one raises an alarm.
cd "$(dirname "$0")/.."
J=6
if [ "${1:-}" = "-j" ]; then J=$2; shift 2; fi
IDS=${@:-$(ls benign)}
(cd lean && lake build Abmarl driver >/dev/null 2>&1)
before=$(ls replays 2>/dev/null | sort)
one() {
  id=$1; d=benign/$id
  checks=$(python3 -c "import json;print(' '.join(json.load(open('$d/meta.json'))['checks_run']))")
  WT=/tmp/rebenign_$id
  git -C /repo worktree add -q --detach $WT HEAD 2>/dev/null || { echo "$id: cannot create worktree"; return 1; }
  if ! git -C $WT apply "$PWD/$d/patch.diff" 2>/dev/null; then
    echo "$id: patch does not apply any more"; git -C /repo worktree remove --force $WT; return 1
  fi
  res=""; bad=0
  for c in $checks; do
    out=$(ABMARL_REPO=$WT VERIF_NO_EVIDENCE=1 ./check $c --tier quick 2>&1); rc=$?
    if [ $rc -eq 0 ] && ! echo "$out" | grep -q '^VIOLATION'; then res="$res $c:quiet"; else res="$res $c:ALARM(rc=$rc)"; bad=1; fi
  done
  git -C /repo worktree remove --force $WT
  echo "$id:$res"
  return $bad
}
export -f one
echo $IDS | tr ' ' '\n' | xargs -P $J -I{} bash -c 'one {}' | sort
rc=${PIPESTATUS[1]}
for f in $(comm -13 <(echo "$before") <(ls replays 2>/dev/null | sort)); do rm -f replays/$f; done
git -C /repo worktree prune
exit $rc
