#!/usr/bin/env python3
"""tools/archive_bn2.py <logdir> -- archives the benign2 changes (/tmp/mut_<Cxx>_bn2/_mutation/m1..m3: harmless changes at
setters, constructors and exception paths, written after round 6) under benign/<Cxx>-bn2m<k>/ with the verdicts read from
the logs of the evaluation (suite unchanged; every check quiet)."""
import glob
import json
import os
import re
import shutil
import sys

ROOT = os.path.dirname(os.path.dirname(os.path.abspath(__file__)))
KIND = {"m1": "internal refactoring at setters / constructors / exception paths (helpers extracted, validate into a local and "
              "commit at the end)",
        "m2": "equivalent algorithm or data structure at setters / constructors / exception paths",
        "m3": "things the property does not speak about (messages re-worded, docstrings, logging, re-raise unchanged, checks "
              "that can never fire)"}
res = {}
for f in glob.glob(os.path.join(sys.argv[1], "*.log")):
    for line in open(f):
        m = re.match(r"\[(C\d\d)-bn2(m\d)\] suite: (.*)", line)
        if m:
            res.setdefault((m.group(1), m.group(2)), {"checks": {}})["suite"] = m.group(3).strip()
        m = re.match(r"\[(C\d\d)-bn2(m\d)\] check (C\d\d): (\S+)", line)
        if m:
            res.setdefault((m.group(1), m.group(2)), {"checks": {}})["checks"][m.group(3)] = m.group(4)
bad = 0
for (prop, mk), r in sorted(res.items()):
    src = "/tmp/mut_%s_bn2/_mutation" % prop
    sid = "%s-bn2%s" % (prop, mk)
    if "155 passed" not in r.get("suite", "") or not r["checks"]:
        print("not confirmed:", sid, r)
        continue
    quiet = all(v == "quiet" for v in r["checks"].values())
    dst = os.path.join(ROOT, "benign", sid)
    os.makedirs(dst, exist_ok=True)
    shutil.copy(os.path.join(src, mk, "patch.diff"), os.path.join(dst, "patch.diff"))
    shutil.copy(os.path.join(src, mk, "README.md"), os.path.join(dst, "README.md"))
    if os.path.exists(os.path.join(src, "demo.py")):
        shutil.copy(os.path.join(src, "demo.py"), os.path.join(dst, "demo.py"))
    meta = {"id": sid, "written_for_property": prop, "kind": KIND[mk],
            "written_by": "fresh sub-agent given only the property text and a scratch worktree (benign2: harmless changes where "
                          "objects are configured and where calls can fail); behaviour through the public API unchanged "
                          "(digest of a seeded run identical, rejected assignments and interrupted calls included), test suite "
                          "unchanged (%s)" % r["suite"],
            "checks_run": sorted(r["checks"]), "expected": "quiet (exit 0, no VIOLATION line)",
            "result": "quiet" if quiet else "ALARM: " + ", ".join("%s %s" % kv for kv in sorted(r["checks"].items()) if kv[1] != "quiet")}
    json.dump(meta, open(os.path.join(dst, "meta.json"), "w"), indent=1)
    print(sid, meta["result"])
    bad += 0 if quiet else 1
sys.exit(1 if bad else 0)
