#!/bin/bash
# tools/eval_round.sh <rN> <Cxx> [extra checks...] -- evaluates the mutants /tmp/mut_<Cxx>_<rN>/_mutation/m*:
# each is applied to its own scratch worktree; the demo must pass clean / fail patched; then ./check <Cxx> (+ extras)
# runs against it (quick tier).  One line per mutant.
R=$1; P=$2; shift 2; EXTRA="$@"; export R
cd "$(dirname "$0")/.."
one() {
  P=$1; m=$2; shift 2; checks="$P $@"
  d=/tmp/mut_${P}_${R}/_mutation/$m
  [ -f $d/patch.diff ] || { echo "$P-${R}$m: no patch"; return; }
  WT=/tmp/${R}_${P}_$m
  git -C /repo worktree add -q --detach $WT HEAD 2>/dev/null || { echo "$P-${R}$m: no worktree"; return; }
  PYTHONPATH=$WT /venv/bin/python $d/demo.py >/dev/null 2>&1; c0=$?
  if ! git -C $WT apply $d/patch.diff 2>/dev/null; then echo "$P-${R}$m: patch does not apply"; git -C /repo worktree remove --force $WT; return; fi
  PYTHONPATH=$WT /venv/bin/python $d/demo.py >/dev/null 2>&1; c1=$?
  suite=$(cd $WT && /venv/bin/python -m pytest -q -p no:cacheprovider --timeout=900 --continue-on-collection-errors 2>&1 | tail -1 | sed 's/ in .*//')
  res=""
  for c in $checks; do
    out=$(ABMARL_REPO=$WT VERIF_NO_EVIDENCE=1 ./check $c --tier quick 2>&1); rc=$?
    if [ $rc -eq 1 ] && echo "$out" | grep -q '^VIOLATION'; then
      if echo "$out" | grep '^VIOLATION' | grep -vq 'no-failing-input-found'; then res="$res $c:caught"; else res="$res $c:caught(nfi)"; fi
    else res="$res $c:MISSED(rc=$rc)"; fi
  done
  git -C /repo worktree remove --force $WT
  echo "$P-${R}$m: demo clean=$c0 patched=$c1 | suite: $suite |$res"
}
export -f one
for m in $(ls /tmp/mut_${P}_${R}/_mutation | grep "^m[0-9]"); do echo "$P $m $EXTRA" | sed 's/ *$//'; done | xargs -P 5 -L 1 bash -c 'one $0 $@' | sort
