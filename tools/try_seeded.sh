#!/bin/bash
# tools/try_seeded.sh <seed-id> <patch.diff> <demo.py> <check-ids...>
# 1. confirms the seeded change in a scratch worktree (demo passes clean / fails patched; suite keeps its 155 passes)
# 2. applies it to /repo, runs the given checks (quick tier), undoes it straight afterwards
# prints one summary line per step; exit 0 always (it is a measuring tool)
set -u
ID=$1; PATCH=$(readlink -f "$2"); DEMO=$(readlink -f "$3"); shift 3
WT=/tmp/seedcheck_$$
git -C /repo worktree add -q --detach $WT HEAD || exit 2
trap 'git -C /repo worktree remove --force $WT >/dev/null 2>&1; [ -n "${VIA_WORKTREE:-}" ] || git -C /repo checkout -q -- . ' EXIT
cd $WT
PYTHONPATH=$WT /venv/bin/python "$DEMO" >/dev/null 2>&1; echo "[$ID] demo on clean tree: exit $?"
git apply "$PATCH" || { echo "[$ID] patch does not apply"; exit 0; }
PYTHONPATH=$WT /venv/bin/python "$DEMO" >/dev/null 2>&1; echo "[$ID] demo on patched tree: exit $?"
echo "[$ID] suite on patched tree: $(/venv/bin/python -m pytest -q -p no:cacheprovider --timeout=900 --continue-on-collection-errors 2>&1 | tail -1)"
cd /verif
if [ -n "${VIA_WORKTREE:-}" ]; then
  # while a long run uses /repo: run the checks against the patched scratch worktree instead (ABMARL_REPO);
  # tools/recheck_seeded.sh later repeats the run with the patch applied to /repo itself
  export ABMARL_REPO=$WT VERIF_NO_EVIDENCE=1
else
  git -C /repo apply "$PATCH" || { echo "[$ID] patch does not apply to /repo"; exit 0; }
fi
for c in "$@"; do
  out=$(./check $c --tier ${TIER:-quick} 2>&1); rc=$?
  echo "[$ID] check $c: rc=$rc $(echo "$out" | grep '^VIOLATION' | head -2 | tr '\n' ' ') :: $(echo "$out" | tail -1)"
done
[ -n "${VIA_WORKTREE:-}" ] || git -C /repo checkout -q -- .
