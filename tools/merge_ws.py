#!/usr/bin/env python3
"""Merge a workstream copy (/tmp/ws_X/verif) into /verif: copies new files, and applies the additive edits to
the shared files (Main.lean ops, Abmarl.lean imports, obligations, main.py get_prop, gen_manifest CHECKS,
known_findings).  Usage: merge_ws.py <ws_dir> <PID> [<PID>...]"""
import json
import os
import re
import shutil
import subprocess
import sys

ws, pids = sys.argv[1], sys.argv[2:]
V = "/verif"
# 1. new (untracked) files
out = subprocess.run(["git", "status", "--short", "--untracked-files=all"], cwd=ws, capture_output=True, text=True).stdout
for line in out.splitlines():
    st, path = line[:2], line[3:]
    if st == "??" and not path.startswith(("evidence/", "replays/", "MERGE_NOTES")) and "/Audit/" not in path:
        dst = os.path.join(V, path)
        os.makedirs(os.path.dirname(dst), exist_ok=True)
        shutil.copy2(os.path.join(ws, path), dst)
        print("copied", path)
    if st == " M" and path in ("harness/gridw.py", "harness/oracle.py", "harness/core.py"):
        print("NOTE: modified shared harness file needs manual merge:", path)
if os.path.exists(os.path.join(ws, "MERGE_NOTES.md")):
    shutil.copy2(os.path.join(ws, "MERGE_NOTES.md"), os.path.join(V, "tools", "merge_notes_%s.md" % "_".join(pids)))
# 2. Main.lean
wm = open(os.path.join(ws, "lean/Main.lean")).read()
vm = open(os.path.join(V, "lean/Main.lean")).read()
for imp in re.findall(r"^import .*$", wm, re.M):
    if imp not in vm:
        vm = vm.replace("/-! Line-protocol driver", imp + "\n/-! Line-protocol driver")
for op in re.findall(r'^\s*\| "(\w+)" => (\w+\.handle\w*) args$', wm, re.M):
    if ('"%s"' % op[0]) not in vm:
        vm = vm.replace('      | "ping" =>', '      | "%s" => %s args\n      | "ping" =>' % op)
open(os.path.join(V, "lean/Main.lean"), "w").write(vm)
# 3. Abmarl.lean
wa = open(os.path.join(ws, "lean/Abmarl.lean")).read().splitlines()
va = open(os.path.join(V, "lean/Abmarl.lean")).read().splitlines()
for l in wa:
    if l.strip() and l not in va:
        va.append(l)
open(os.path.join(V, "lean/Abmarl.lean"), "w").write("\n".join(va) + "\n")
# 4. obligations
wo = json.load(open(os.path.join(ws, "lean/obligations.json")))
vo = json.load(open(os.path.join(V, "lean/obligations.json")))
for p in pids:
    vo[p] = wo[p]
json.dump(vo, open(os.path.join(V, "lean/obligations.json"), "w"), indent=1)
# 5. main.py
wp = open(os.path.join(ws, "harness/main.py")).read()
vp = open(os.path.join(V, "harness/main.py")).read()
for m in re.finditer(r'    if pid (?:==|in) [^\n]*\n        import (\w+)\n        return [^\n]*\n', wp):
    if ("import " + m.group(1) + "\n") not in vp:
        vp = vp.replace('    raise SystemExit(f"unknown property {pid}")', m.group(0) + '    raise SystemExit(f"unknown property {pid}")')
open(os.path.join(V, "harness/main.py"), "w").write(vp)
# 6. gen_manifest
wg = open(os.path.join(ws, "tools/gen_manifest.py")).read()
vg = open(os.path.join(V, "tools/gen_manifest.py")).read()
for p in pids:
    m = re.search(r'    "%s": dict\(.*?\n(?=    "C\d\d": dict\(|}\n\nPENDING)' % p, wg, re.S)
    if m and ('    "%s": dict(' % p) not in vg:
        vg = vg.replace("}\n\nPENDING = {", m.group(0) + "}\n\nPENDING = {")
    elif not m:
        print("NOTE: no manifest entry found for", p)
open(os.path.join(V, "tools/gen_manifest.py"), "w").write(vg)
# 7. known findings
wk = json.load(open(os.path.join(ws, "known_findings.json")))["findings"]
vk = json.load(open(os.path.join(V, "known_findings.json")))
have = {f["id"] for f in vk["findings"]}
for f in wk:
    if f["id"] not in have:
        vk["findings"].append(f)
        print("finding added:", f["id"], f["status"])
json.dump(vk, open(os.path.join(V, "known_findings.json"), "w"), indent=1)
print("merged", pids)
