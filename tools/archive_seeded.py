#!/usr/bin/env python3
"""tools/archive_seeded.py <id> <srcdir> <property> <caught_by,comma> <needs> <result> [patchfile]
copies patch.diff / demo.py / README.md of a confirmed seeded change into seeded/<id>/ and writes meta.json"""
import json
import os
import shutil
import sys

sid, src, prop, caught, needs, result = sys.argv[1:7]
patch = sys.argv[7] if len(sys.argv) > 7 else os.path.join(src, "patch.diff")
root = os.path.dirname(os.path.dirname(os.path.abspath(__file__)))
dst = os.path.join(root, "seeded", sid)
os.makedirs(dst, exist_ok=True)
shutil.copy(patch, os.path.join(dst, "patch.diff"))
for f in ("demo.py", "README.md"):
    shutil.copy(os.path.join(src, f), os.path.join(dst, f))
checks = [c for c in caught.split(",") if c]
meta = {"id": sid, "breaks_property": prop, "needs_to_manifest": needs,
        "written_by": "fresh sub-agent given only the property text and a scratch worktree",
        "confirmed": "tools/try_seeded.sh: demo exits 0 on the clean tree and 1 on the patched tree; the baseline "
                     "suite keeps its 155 passes with the patch",
        "ran": ["./check %s --tier quick (patch applied to /repo, undone straight afterwards)" % c
                for c in (checks or [prop])],
        "caught_by": checks, "result": result}
json.dump(meta, open(os.path.join(dst, "meta.json"), "w"), indent=1)
print("archived", sid)
