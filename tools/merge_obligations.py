#!/usr/bin/env python3
"""tools/merge_obligations.py <their-branch> -- union of lean/obligations.json of HEAD and of a workstream branch (order kept)"""
import json, subprocess, sys
def show(ref):
    return json.loads(subprocess.run(['git', 'show', ref + ':lean/obligations.json'], capture_output=True, text=True, check=True).stdout)
ours, theirs = show('HEAD'), show(sys.argv[1])
out = {}
for k in ours:
    if k == '_imports':
        out[k] = {p: list(dict.fromkeys(ours[k].get(p, []) + theirs.get(k, {}).get(p, []))) for p in list(ours[k]) + [q for q in theirs.get(k, {}) if q not in ours[k]]}
    else:
        out[k] = list(dict.fromkeys(ours[k] + [x for x in theirs.get(k, []) if x not in ours[k]]))
for k in theirs:
    if k not in out:
        out[k] = theirs[k]
json.dump(out, open('lean/obligations.json', 'w'), indent=1)
print({k: len(v) for k, v in out.items() if k != '_imports'})
