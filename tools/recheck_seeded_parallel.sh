#!/bin/bash
# tools/recheck_seeded_parallel.sh [-j N] [ids...] -- regression of the detection, in parallel: every archived seeded
# change is applied to its OWN scratch worktree of /repo (not to /repo itself), the checks named in its meta.json run
# against that worktree (ABMARL_REPO), expecting exit 1 with a VIOLATION line.  evidence/ is left alone
# (VERIF_NO_EVIDENCE); replay files written by these runs are removed.  One line per change; exit 1 if any change
# that should be caught is not.  (tools/recheck_seeded.sh does the same sequentially with the patch applied to /repo.)
cd "$(dirname "$0")/.."
J=6
if [ "${1:-}" = "-j" ]; then J=$2; shift 2; fi
IDS=${@:-$(ls seeded)}
(cd lean && lake build Abmarl driver >/dev/null 2>&1)
before=$(ls replays 2>/dev/null | sort)
one() {
  id=$1
  d=seeded/$id
  checks=$(python3 -c "import json;print(' '.join(json.load(open('$d/meta.json'))['caught_by']))")
  [ -z "$checks" ] && { echo "$id: (recorded as not caught)"; return 0; }
  WT=/tmp/reseed_$id
  git -C /repo worktree add -q --detach $WT HEAD 2>/dev/null || { echo "$id: cannot create worktree"; return 1; }
  if ! git -C $WT apply "$PWD/$d/patch.diff" 2>/dev/null; then
    echo "$id: patch does not apply any more"; git -C /repo worktree remove --force $WT; return 1
  fi
  res=""; bad=0
  for c in $checks; do
    out=$(ABMARL_REPO=$WT VERIF_NO_EVIDENCE=1 ./check $c --tier quick 2>&1); rc=$?
    if [ $rc -eq 1 ] && echo "$out" | grep -q '^VIOLATION'; then res="$res $c:caught"; else res="$res $c:MISSED(rc=$rc)"; bad=1; fi
  done
  git -C /repo worktree remove --force $WT
  echo "$id:$res"
  return $bad
}
export -f one
echo $IDS | tr ' ' '\n' | xargs -P $J -I{} bash -c 'one {}' | sort
rc=${PIPESTATUS[1]}
for f in $(comm -13 <(echo "$before") <(ls replays 2>/dev/null | sort)); do rm -f replays/$f; done
git -C /repo worktree prune
exit $rc
