#!/usr/bin/env python3
"""tools/archive_r6.py <dir with eval_round logs> -- archives the round-6 seeded changes (/tmp/mut_<Cxx>_r6/_mutation/m*)
under seeded/<Cxx>-r6m<k>/ with what each needs to manifest, what the first evaluation showed and which checks catch it
now (read from the logs of tools/eval_round.sh)."""
import glob
import json
import os
import re
import shutil
import sys

ROOT = os.path.dirname(os.path.dirname(os.path.abspath(__file__)))
NEEDS = {
    "C01-r6m1": ("TurnBasedManager.reset rebuilds the turn cycle only if a flag set by a successful step says so, but reset "
                 "itself takes the head of the line: reset twice in a row, or reset - a step the simulation refuses - reset",
                 "caught at once"),
    "C01-r6m2": ("done_agents declared at class level on SimulationManager, DynamicOrderManager.reset clears it instead of "
                 "binding a new set: two dynamic-order managers alive at once over the same ids, used interleaved",
                 "caught at once (the shadow manager of the sessions)"),
    "C02-r6m1": ("SuperAgentWrapper.step filters a covered agent's action by the wrapper's own hand-over flag instead of "
                 "sim.get_done: a covered agent finishes and step is called again without get_obs(super agent) in between",
                 "caught by C14 (the wrapper's own check); C02's sessions see it only when the wrapped simulation chokes"),
    "C02-r6m2": ("the attack_mapping setter stores the value BEFORE validating it: an invalid mapping assigned to a live "
                 "actor and caught, then an attack",
                 "MISSED at first; rejected assignments on live objects (harness/poke.py) are now part of every session"),
    "C03-r6m1": ("move = place then remove: a move still processed for an agent an attack has taken off the grid raises "
                 "KeyError as before, but has already put the dead agent into the destination cell",
                 "MISSED at first (acting with an inactive agent was outside the hypothesis); moves for inactive agents are "
                 "now generated, the judge specMoveAny says 'raises or refused, world unchanged' (proved: C12_inactive_mover)"),
    "C03-r6m2": ("the Grid.overlapping setter commits row by row: a table with a malformed later row, assigned to a live grid "
                 "and caught", "caught at once (bad_table of the grid worlds)"),
    "C04-r6m1": ("the child sizes unravel uses are remembered on the space object: a Dict edited through Dict.__setitem__ and "
                 "used again", "caught at once (spaces with a history)"),
    "C04-r6m2": ("sizes of an integer Box read in MEMORY order: a multi-dimensional Box whose bound arrays are Fortran-ordered",
                 "MISSED at first; a third of the rank >= 2 integer Boxes are now built from Fortran-ordered bound arrays"),
    "C05-r6m1": ("flatdim of a composite space remembered on the space object: a NESTED Dict extended through "
                 "Dict.__setitem__ after a first use",
                 "MISSED at first (only the top-level Dict had a history, flatdim was not part of it); every Dict node of the "
                 "tree now gets one, the functions (flatdim too) are called on the root meanwhile"),
    "C05-r6m2": ("FlattenWrapper writes the next observation into the array it returned for that agent the call before: "
                 "get_obs, keep the result, step, get_obs again, only then look at the first result",
                 "MISSED at first; the wrapper twins now keep every observation together with a copy and compare them at the "
                 "agent's next observation (C06)"),
    "C06-r6m1": ("unravel of MultiDiscrete / MultiBinary through an lru_cache that hands out ONE list object: the receiver "
                 "edits the decoded action in place, the same wrapped value is decoded again later", "caught at once"),
    "C06-r6m2": ("ActorWrapper records an agent's pre-wrapped channel space just before replacing it: two agents built with "
                 "ONE action-space container (the second reads what the wrapper wrote for the first)",
                 "MISSED at first; twins sharing one action-space container (world key shared_aspace) are generated; "
                 "reported as a broken correspondence (no failing input for the judge of the unwrapped actor)"),
    "C07-r6m1": ("AllStepManager marks an agent done while it builds the done dictionary, before the remaining getters: the "
                 "simulation raises once from get_info in the step in which an agent finishes, the caller steps again",
                 "MISSED at first; after every second all-step history in mid-episode the stub raises from the last get_info of "
                 "one more step, and the step after that must accept and report every agent never reported done"),
    "C07-r6m2": ("as C01-r6m1 (reset twice in a row)", "caught at once"),
    "C08-r6m1": ("the barrier_encodings setter empties its set and adds the validated members one by one: {2, 3, 99} rejected "
                 "on a used component, then reset", "MISSED at first; harness/poke.py"),
    "C08-r6m2": ("OpenSpielWrapper.reset restores current_player only for turn-based managers: all-step play in which the "
                 "first agent finished early in the previous episode", "caught at once (C08, C15)"),
    "C09-r6m1": ("the observe_self setter writes a derived flag before its assert: a rejected assignment whose truthiness "
                 "differs from the option in force", "MISSED at first; harness/poke.py"),
    "C09-r6m2": ("the observer remembers WHICH agents block at its first observation and refreshes only when the number of "
                 "agents changes: an agent's blocking flag switched on through the setter afterwards",
                 "MISSED at first; in half of the observer histories nobody was blocking yet at the earlier observation"),
    "C10-r6m1": ("the mask is built in a module-level scratch array that is wiped just before return: a call that raises "
                 "part-way (an agent without a position after a blocker) leaves the shadow for the next call of that range",
                 "MISSED at first; the mask history now contains a call that raises part-way"),
    "C10-r6m2": ("last mask per (viewer, range) reused while viewer position and the SET of blockers in range are unchanged: "
                 "a blocker moves inside the window", "caught at once"),
    "C11-r6m1": ("as C02-r6m2 (attack_mapping stored before validation)", "MISSED at first; harness/poke.py"),
    "C11-r6m2": ("the ammunition filter draws with replacement when attacks are stacked: ammunition short after earlier "
                 "attacks, more hits than rounds", "caught at once"),
    "C12-r6m1": ("the overlap table is made symmetric in the GETTER, Grid.query reads the raw table: a one-sided table "
                 "assigned mid-episode and a move before anybody reads grid.overlapping", "caught at once"),
    "C12-r6m2": ("as C03-r6m1 (place before remove; a move for a dead agent)", "MISSED at first; see C03-r6m1"),
    "C13-r6m1": ("as C03-r6m2 with PositionState.reset afterwards", "caught by C03 at once, by C13 after its sessions poke "
                 "the overlap table of their grid too"),
    "C13-r6m2": ("distance-sorted cell lists kept between episodes, keyed by the target's start stored WITHOUT a copy: "
                 "target.initial_position edited in place between resets", "caught at once"),
    "C14-r6m1": ("the hand-over flag of a covered agent's last reward is set BEFORE the reward is fetched: the wrapped "
                 "simulation raises once on exactly that reward, the caller asks again",
                 "MISSED at first; one reward read in three of a super agent is first attempted while the stub fails on the "
                 "reward of the first covered agent; only the second call is compared with the model"),
    "C14-r6m2": ("a cache of done super agents that the super_agent_mapping setter does not clear: all covered agents done, "
                 "get_done(S), the mapping re-assigned in MID-episode so that S also covers a live agent, get_done(S)",
                 "MISSED at first (the mapping is re-assigned before the first reset only in the modelled call alphabet); caught "
                 "since every second call history ends model-free: a super agent whose covered agents are all done is asked "
                 "get_done, its mapping is re-assigned to cover a live agent as well, and get_done must answer False at once"),
    "C15-r6m1": ("OpenSpielWrapper.step decides LAST / _should_reset after the calls that can fail: on exactly the terminal "
                 "step the observation of an agent that finished earlier raises once, the caller steps again",
                 "MISSED at first (the adapter sessions had no fault injection); the OpenSpiel play-throughs now use a "
                 "subclass that overrides the documented hook get_legal_actions (same answer, fails once when armed): after a "
                 "play-through that stopped in mid-episode one more step is interrupted in that way, and if it was the "
                 "terminal one the next step must start a new episode"),
    "C15-r6m2": ("is_turn_based tests type(sim) is TurnBasedManager: a subclass of TurnBasedManager",
                 "MISSED at first; for half of the scripted simulations the managers are instances of subclasses that "
                 "override nothing"),
    "C16-r6m1": ("the policy an agent resolved to is remembered and SinglePolicyTrainer.policy does not clear it: an episode, "
                 "then sim and policy replaced through the setters", "caught at once (warm histories)"),
    "C16-r6m2": ("the policies setter stores the dictionary first and validates afterwards", "MISSED at first; harness/poke.py"),
    "C17-r6m1": ("the target_mapping setter of TargetEncodingInactiveDone assigns, then validates in place",
                 "MISSED at first; harness/poke.py"),
    "C17-r6m2": ("register() skips a class that is already in the class set, the name table included: A registered, another "
                 "class of the same name registered, A registered again",
                 "MISSED at first; names requested through the registry now have such a history (p_done._aba_register)"),
    "C18-r6m1": ("the array builder calls the factory inside its try/except KeyError: a registered factory that raises "
                 "KeyError itself at its n-th call", "MISSED at first; runtime check with failing factories (both builders "
                 "must let the factory's KeyError through)"),
    "C18-r6m2": ("Grid.place stores np.asarray(ndx): agent.position IS agent.initial_position for every layout agent; a step "
                 "that edits position in place, then a second reset",
                 "caught by C03 (the configured arrays hold other numbers while worlds are read); C18 builds and resets, it "
                 "does not play episodes"),
    "C19-r6m1": ("as C03-r6m2 (the overlap table built in place)", "caught by C03 / C12 at once, by C19 after its grids are "
                 "poked too"),
    "C19-r6m2": ("finalize finalizes each agent once and records it BEFORE agent.finalize(): finalize asked again after it "
                 "raised, or after a null point was set outside its space", "caught at once (finalize asked twice)"),
    "C20-r6m1": ("the receive loop consumes each acting agent's pending row at once: one malformed item after a good receiver "
                 "with a pending message raises before the simulation is advanced, the corrected step follows",
                 "MISSED at first; one step in four is preceded by such a failed attempt"),
    "C20-r6m2": ("the next buffer is swapped in as the LAST statement of step: a step interrupted after the simulation advanced "
                 "(a 'send' naming an unknown agent) keeps the whole previous buffer",
                 "MISSED at first; after every second history one more step is interrupted in that way and the buffer must hold "
                 "no message of an earlier step"),
}


def main(logdir):
    res = {}
    for f in glob.glob(os.path.join(logdir, "*.log")):
        for line in open(f):
            m = re.match(r"(C\d\d)-r6(m\d): demo clean=(\d+) patched=(\d+) \| suite: ([^|]*)\|(.*)", line)
            if not m:
                continue
            sid = "%s-r6%s" % (m.group(1), m.group(2))
            caught = set(res.get(sid, {}).get("caught", []))
            for c, v in re.findall(r"(C\d\d):(caught(?:\(nfi\))?|MISSED)", m.group(6)):
                if v.startswith("caught"):
                    caught.add(c)
            res[sid] = {"clean": m.group(3), "patched": m.group(4), "suite": m.group(5).strip(), "caught": sorted(caught)}
    for sid, (needs, note) in sorted(NEEDS.items()):
        prop, mk = sid.split("-r6")
        src = "/tmp/mut_%s_r6/_mutation/%s" % (prop, mk)
        r = res.get(sid)
        if r is None or not os.path.exists(os.path.join(src, "patch.diff")):
            print("no result / no patch for", sid)
            continue
        if r["clean"] != "0" or r["patched"] == "0" or "155 passed" not in r["suite"]:
            print("NOT CONFIRMED:", sid, r)
            continue
        dst = os.path.join(ROOT, "seeded", sid)
        os.makedirs(dst, exist_ok=True)
        for fn in ("patch.diff", "demo.py", "README.md"):
            shutil.copy(os.path.join(src, fn), os.path.join(dst, fn))
        caught = r["caught"]
        if note.startswith("NOT CAUGHT"):
            caught = []
        meta = {"id": sid, "breaks_property": prop, "needs_to_manifest": needs,
                "written_by": "fresh sub-agent given only the property text and a scratch worktree (round 6: faults at a "
                              "particular point, cooperating sites, interleavings, multi-step preparation)",
                "confirmed": "tools/eval_round.sh r6: demo exits 0 on the clean tree and non-zero on the patched tree; the "
                             "baseline suite keeps its 155 passes with the patch (%s)" % r["suite"],
                "ran": ["./check %s --tier quick (patch applied to a scratch worktree of /repo, ABMARL_REPO)" % c
                        for c in (caught or [prop])],
                "caught_by": caught, "result": note if caught or note.startswith("NOT CAUGHT") else "NOT CAUGHT: " + note}
        json.dump(meta, open(os.path.join(dst, "meta.json"), "w"), indent=1)
        print("archived", sid, caught)


if __name__ == "__main__":
    main(sys.argv[1])
