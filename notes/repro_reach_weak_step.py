# the scenario of exRTState2 / exRTHistOps (Props/Reach.lean) on the real class:
# 1x3 grid, runner0 at (0,2), runner1 at (0,0), target at (0,1); step 1: runner1 walks onto the target and is
# deactivated BY HAND (active False, health 1); step 2 from that WInvWeak-only world with an item for the
# deactivated runner too and the target attacking its own cell: must not raise.
import sys
sys.path.insert(0, '/tmp/ws_reach/verif/harness')
import os
os.environ.setdefault('ABMARL_REPO', '/tmp/ws_reach/repo')
import compat  # noqa
import numpy as np
from abmarl.examples.sim.reach_the_target import ReachTheTargetSim, TargetAgent, RunningAgent
from abmarl.sim.gridworld.grid import Grid

agents = {
    'r0': RunningAgent(id='r0', move_range=1, view_range=1, initial_health=1, initial_position=np.array([0, 2])),
    'r1': RunningAgent(id='r1', move_range=1, view_range=1, initial_health=1, initial_position=np.array([0, 0])),
    'target': TargetAgent(view_range=1, attack_range=1, attack_strength=1, attack_accuracy=1, initial_health=1,
                          initial_position=np.array([0, 1])),
}
overlap = {2: {3}, 3: {1, 2, 3}, 1: {3}}
grid = Grid(1, 3, overlapping=overlap)
sim = ReachTheTargetSim(agents=agents, grid=grid, overlapping=overlap, attack_mapping={2: {3}})
sim.reset()
acts = {
    'r0': {'move': np.array([0, 0])},
    'r1': {'move': np.array([0, 1])},
    'target': {'attack': np.array([[0, 0, 0], [0, 1, 0], [0, 0, 0]])},
}
for k, a in acts.items():
    assert a in sim.agents[k].action_space, k
sim.step(acts)
r1 = sim.agents['r1']
print('after step 1: r1.active', r1.active, 'health', r1.health, 'pos', r1.position, 'rewards', sim.rewards)
assert (not r1.active) and r1.health == 1
sim.step(acts)    # the second step, from the WInvWeak-only world
print('after step 2: rewards', sim.rewards)
print('obs of deactivated r1 in space:', sim.get_obs('r1') in r1.observation_space)
print('done r1', sim.get_done('r1'), 'all done', sim.get_all_done())
