import Abmarl.Model.Wire
import Abmarl.Model.MgrDriver
import Abmarl.Model.GridDriver
import Abmarl.Model.TrainerDriver
import Abmarl.Model.BuildersDriver
import Abmarl.Model.AdaptersDriver
import Abmarl.Model.TwinDriver
import Abmarl.Model.MaskDriver
import Abmarl.Model.ConfigDriver
import Abmarl.Model.ObserversDriver
import Abmarl.Model.DoneDriver
import Abmarl.Model.PlacementDriver
import Abmarl.Model.SpacesDriver
import Abmarl.Model.AttacksDriver
import Abmarl.Model.SuperDriver
import Abmarl.Model.CommDriver
import Abmarl.Model.WrappersDriver
import Abmarl.Model.GridSimDriver
import Abmarl.Model.MemberDriver
import Abmarl.Model.ExamplesDriver
import Abmarl.Model.ReachDriver
import Abmarl.Model.PacmanDriver
/-! Line-protocol driver: one request per line on stdin, one reply per line on stdout. -/
open Abmarl

def dispatch (line : String) : String :=
  match parseVal line with
  | some (.list (.atom op :: args)) =>
    let r : Option Val :=
      match op with
      | "mgr" => MgrDriver.handle args
      | "gmove" => GridDriver.handle args
      | "trainer" => TrainerDriver.handle args
      | "train" => TrainerDriver.handleTrain args
      | "build" => BuildersDriver.handle args
      | "mask" => MaskDriver.handle args
      | "gym" => AdaptersDriver.handleGym args
      | "ospiel" => AdaptersDriver.handleOS args
      | "ospielx" => AdaptersDriver.handleOSX args
      | "twin" => TwinDriver.handleTwin args
      | "ostwin" => TwinDriver.handleOSTwin args
      | "gymabs" => TwinDriver.handleGymABS args
      | "cfg_attr" => CfgDriver.handleAttr args
      | "cfg_overlap" => CfgDriver.handleOverlap args
      | "cfg_box" => CfgDriver.handleBox args
      | "gobs" => ObserversDriver.handle args
      | "gdone" => DoneDriver.handleDone args
      | "gsmart" => DoneDriver.handleSmart args
      | "gmerge" => DoneDriver.handleMerge args
      | "gplace" => PlacementDriver.handlePlace args
      | "gmaze" => PlacementDriver.handleMaze args
      | "ravel" | "unravel" | "ravelspace" | "checkspace" | "flatten" | "unflatten" | "flatspace" =>
        SpacesDriver.handle op args
      | "gattack" => AttacksDriver.handle args
      | "super" => SuperDriver.handle args
      | "supermgr" => SuperDriver.handleMgr args
      | "comm" => CommDriver.handle args
      | "wsar" => WrappersDriver.handleSar args
      | "wexcl" => WrappersDriver.handleExcl args
      | "wactor" => WrappersDriver.handleActor args
      | "wunwrap" => WrappersDriver.handleUnwrap args
      | "ghist" => GridSimDriver.handleHist args
      | "gwinv" => GridSimDriver.handleWInv args
      | "gmember" => MemberDriver.handle args
      | "gexample" => PacmanDriver.gexample args
      | "mgrx" => PacmanDriver.mgrx args
      | "ping" => some (.list (.atom "pong" :: args))
      | _ => none
    match r with
    | some v => toString v
    | none => "(bad-op " ++ op ++ ")"
  | _ => "(bad-line)"

partial def loop (h : IO.FS.Stream) (out : IO.FS.Stream) : IO Unit := do
  let line ← h.getLine
  if line.isEmpty then return ()
  out.putStrLn (dispatch line)
  loop h out

def main : IO Unit := do
  let out ← IO.getStdout
  loop (← IO.getStdin) out
  out.flush
