import Abmarl.Model.Comm
/-!
# Decidable trace specification for C20 (communication handshake)

`specC20` judges a *call trace* of the wrapper (`CEntry`s: reset / step / get_obs with the ghost
observations of the wrapped stub and of the wrapper's two dictionaries).  Everything it expects is
computed from the **history of calls alone** (`expBuffer`, `expFuse`, recursion over the past calls,
most recent first) — never from the model's state:

* `expBuffer past x y` — reading of DESIGN.md §5 C20: after a step, `buffer[x][y]` is true iff `y`
  acted in *that* step and chose to send to `x`; `get_obs` calls in between do not change it; it is
  false after a reset (and before the first one).
* `expFuse past x y` — `fuse[x][y]` is true iff at `x`'s *most recent action in this episode* the
  message from `y` was pending (`expBuffer` of the calls before that step) and `x` chose to receive
  it; false before `x`'s first action of the episode; agents that do not act in a step keep their row.

Calls outside the domain end the obligation (as a step after `__all__` does for C01): any call but
`reset` before the first reset, `get_obs` of an unknown agent, and a step whose action dictionary is
not well formed (`actsWF`: known acting agents, `send` addressed to other known agents, and the
`receive` dictionary has a key for every sender whose message is pending — exactly the inputs on
which the code raises no `KeyError`; every action of the augmented action space is well formed,
`Props/C20.lean: augAct_wf`).
-/
namespace Abmarl
variable {α ω : Type}

/-- a Python dictionary: no key twice -/
def isDict {β : Type} (l : List (Aid × β)) : Bool := decide (l.map (·.1)).Nodup

/-- the sender `y` acted in this step and chose to send to `x` -/
def sentTo (acts : List (Aid × CAct α)) (y x : Aid) : Bool :=
  match acts.lookup y with
  | some a => (a.send.lookup x).getD false
  | none => false

/-- expected `message_buffer[x][y]` after the calls `past` (most recent call first) -/
def expBuffer : List (COp α) → Aid → Aid → Bool
  | [], _, _ => false
  | .reset :: _, _, _ => false
  | .getObs _ :: past, x, y => expBuffer past x y
  | .step acts :: _, x, y => sentTo acts y x

/-- expected `received_message[x][y]` (the fusion matrix) after the calls `past` -/
def expFuse : List (COp α) → Aid → Aid → Bool
  | [], _, _ => false
  | .reset :: _, _, _ => false
  | .getObs _ :: past, x, y => expFuse past x y
  | .step acts :: past, x, y =>
    match acts.lookup x with
    | some a => expBuffer past x y && (a.receive.lookup y).getD false
    | none => expFuse past x y

def actWF (n : Nat) (past : List (COp α)) (x : Aid) (a : CAct α) : Bool :=
  isDict a.send && a.send.all (fun q => decide (q.1 < n) && q.1 != x) &&
  (others n x).all (fun y => !expBuffer past x y || (a.receive.lookup y).isSome)

def actsWF (n : Nat) (past : List (COp α)) (acts : List (Aid × CAct α)) : Bool :=
  isDict acts && acts.all fun p => decide (p.1 < n) && actWF n past p.1 p.2

def opWF (n : Nat) (started : Bool) (past : List (COp α)) : COp α → Bool
  | .reset => true
  | .step acts => started && actsWF n past acts
  | .getObs a => started && decide (a < n)

def isReset : COp α → Bool
  | .reset => true
  | _ => false

/-- a matrix given pointwise, as the list of per-agent dictionaries the wrapper holds -/
def expRow (n : Nat) (f : Aid → Aid → Bool) (x : Aid) : Row := (others n x).map fun y => (y, f x y)
def expRows (n : Nat) (f : Aid → Aid → Bool) : List Row := (List.range n).map (expRow n f)

def allClear (rows : List Row) : Bool := rows.all fun r => r.all fun p => !p.2

def c20Entry [DecidableEq α] (n : Nat) (past : List (COp α)) (e : CEntry α ω) : Bool :=
  let now := e.op :: past
  -- buffer_iff / fuse_iff: the wrapper's two dictionaries after the call
  decide (e.buffer = expRows n (expBuffer now)) && decide (e.received = expRows n (expFuse now)) &&
  match e.op, e.res with
  | .reset, .resetOk =>
    -- nothing reaches the wrapped step/get_obs; both dictionaries are cleared
    e.simArgs.isNone && e.fusion.isNone && allClear e.buffer && allClear e.received
  | .step acts, .stepOk =>
    -- the wrapped simulation receives exactly the original `action` entries, in order
    decide (e.simArgs = some (simOnly acts)) && e.fusion.isNone
  | .getObs a, .obsOk o =>
    e.simArgs.isNone &&
    -- the wrapped get_obs is called with the expected fusion row of `a` …
    decide (e.fusion = some (expRow n (expFuse past) a)) &&
    -- … and the observation's message buffer is the expected row, which is the wrapper's own
    decide (o.buffer = expRow n (expBuffer past) a) && decide (e.buffer[a]? = some o.buffer)
  | _, _ => false

def c20Loop [DecidableEq α] (n : Nat) : Bool → List (COp α) → List (CEntry α ω) → Bool
  | _, _, [] => true
  | st, past, e :: es =>
    if !opWF n st past e.op then true
    else c20Entry n past e && c20Loop n (st || isReset e.op) (e.op :: past) es

def specC20 [DecidableEq α] (n : Nat) (tr : List (CEntry α ω)) : Bool := c20Loop n false [] tr

/-- a whole history stays inside the domain -/
def histWF (n : Nat) : Bool → List (COp α) → List (COp α) → Bool
  | _, _, [] => true
  | st, past, op :: ops => opWF n st past op && histWF n (st || isReset op) (op :: past) ops

end Abmarl
