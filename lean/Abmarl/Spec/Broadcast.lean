import Abmarl.Model.Broadcast
import Abmarl.Spec.Examples
/-!
# Decidable judge for `BroadcastSim` histories (`gexample` with configuration `(broadcast …)`)

A trace entry shows the result of a call and everything that can be read of the object afterwards without side effects:
the world, every agent's `message`, `receiving_state`, the reward dict.  `specBC` says, from the trace alone:

* **C03** every world after a `reset` / `step` that returned satisfies `WInv`, has the static part the simulation was
  built with, and everybody is active (there is no health here); the getters leave the world alone;
* **messages** every stored message lies in `[-1, 1]`, broadcasters have one, nobody else has; `reset` gives the
  configured initial message where there is one, empties every receiving list and zeroes a reward entry for EVERY agent;
  `step` changes no message;
* **delivery** (`recvAfter`): after a `step` every receiving list is the old one followed by one entry `(sender, sender's
  message)` for each item of the action dict, in its order, whose sender is a broadcaster that chose to broadcast and
  *reaches* the receiver — another agent standing within the sender's broadcast range, whose encoding the mapping allows
  for the sender's encoding, on a cell that no active blocking agent within that range hides (`Observers.hiddenFrom`:
  the specification of C10, `Mask.hiddenSpec`); positions are those before the moves of the same step;
* **C02** an observation has exactly the declared keys; the grid part lies in its Box (`Ex.obsInSpace`); the `message`
  part of a broadcaster has exactly the broadcasters as keys, every entry in `[-1, 1]`; the agent's own slot carries its
  new message; a foreign slot carries the LAST pending entry of that sender if there is one and is exactly 0 otherwise
  (so it is non-zero only if a broadcast of that sender reached the agent since its last observation); the read empties
  the agent's list, leaves the others, and the new message is within `bound = 2⁻⁴⁰` of the clamped exact average of
  the pending messages and the old one; nobody else's message changes; an agent that is not a broadcaster has no
  `message` key and reading changes nothing;
* **rewards** read-and-reset; `get_done` is `False`; `get_all_done` is the tolerance test on the stored messages, computed
  exactly, with a grey zone of `bound` around the boundary (`doneAccepted`);
* a call that raises ends the trace, and: a `step` whose items are points of the declared action spaces, in a world of
  the invariant on a configuration satisfying `cfgHypb`, does not raise (`stepMustNotRaise`); `get_obs` /
  `get_reward` of an agent of the simulation after a reset do not raise; `get_done` never raises; `get_all_done` raises
  only when a broadcaster has no message yet.
-/
namespace Abmarl
namespace BC
open World Ex Observers

/-- tolerance of the per-call refinement: the rounding error of a sum of a few dozen doubles in `[-1, 1]` and one
division is below `2⁻⁴⁶` -/
def bound : Rat := mkRat 1 1099511627776

def aliveb (w : World) : Bool := w.allAgents.all fun a => (w.stOf a).active

def inUnit (m : Rat) : Bool := decide (-1 ≤ m) && decide (m ≤ 1)

def bcasters (cfg : Cfg) (n : Nat) : List Aid := (List.range n).filter cfg.isB

/-- broadcasters have a message in `[-1, 1]`, nobody else has one -/
def msgsOKb (cfg : Cfg) (n : Nat) (msgs : List (Option Rat)) : Bool :=
  (msgs.length == n) &&
  (List.range n).all fun a =>
    match msgs.getD a none with
    | some m => cfg.isB a && inUnit m
    | none => !cfg.isB a

/-- the receiving state has exactly the broadcasters as keys (in listing order); every pending entry comes from a
broadcaster and carries a number in `[-1, 1]` -/
def recvOKb (cfg : Cfg) (n : Nat) (rv : Recv) : Bool :=
  (rv.map (·.1) == bcasters cfg n) &&
  rv.all fun p => p.2.all fun x => cfg.isB x.1 && decide (x.1 < n) && inUnit x.2

def ledgerAllb (n : Nat) (r : Ledger) : Bool := r.map (·.1) == List.range n

/-- **the configuration hypothesis**: the encoding of every broadcaster is a key of the mapping, and every agent whose
encoding that row allows is a broadcaster (it has a receiving list) -/
def cfgHypb (cfg : Cfg) (w : World) : Bool :=
  (List.range w.n).all fun a =>
    !cfg.isB a ||
    match cfg.mapping.lookup (w.encOf a) with
    | none => false
    | some l => (List.range w.n).all fun o => !decide (w.encOf o ∈ l) || cfg.isB o

/-- **the broadcast of `s` reaches `b`** -/
def reaches (cfg : Cfg) (w : World) (s b : Aid) : Bool :=
  let R := cfg.rangeOf s
  let d := offsetOf w s b
  (b != s) && decide (b < w.n) && (w.stOf b).active && Mask.inWin R d.1 && Mask.inWin R d.2 &&
  (match cfg.mapping.lookup (w.encOf s) with
   | some l => decide (w.encOf b ∈ l)
   | none => false) &&
  !hiddenFrom w s R d.1 d.2

/-- what one `step` appends to the receiving list of `b` -/
def delivered (cfg : Cfg) (w : World) (msgs : List (Option Rat)) (acts : List (Aid × Act)) (b : Aid) :
    List (Aid × Rat) :=
  acts.filterMap fun x =>
    if cfg.isB x.1 && (x.2.broadcast != 0) && reaches cfg w x.1 b then (msgs.getD x.1 none).map fun m => (x.1, m)
    else none

def recvAfter (cfg : Cfg) (w : World) (msgs : List (Option Rat)) (acts : List (Aid × Act)) (rv : Recv) : Recv :=
  rv.map fun p => (p.1, p.2 ++ delivered cfg w msgs acts p.1)

/-- the item is a point of the agent's declared action space -/
def actInSpace (cfg : Cfg) (w : World) (x : Aid × Act) : Bool :=
  decide (x.1 < w.n) && (MoveCall.move x.1 x.2.move).inSpace w &&
  (!cfg.isB x.1 || (decide (0 ≤ x.2.broadcast) && decide (x.2.broadcast ≤ 1)))

def encPosb (w : World) : Bool := w.allAgents.all fun b => decide (0 < w.encOf b)

/-- what the dump before a call must show for the "must not raise" clauses to apply: the invariants every reachable
state of a supported configuration has -/
def goodb (cfg : Cfg) (j : BEntry) : Bool :=
  j.w.WInv && aliveb j.w && encPosb j.w && cfgHypb cfg j.w && msgsOKb cfg j.w.n j.msgs &&
  (match j.recv with | some rv => recvOKb cfg j.w.n rv | none => false) &&
  (match j.rewards with | some r => ledgerAllb j.w.n r | none => false)

def stepMustNotRaise (cfg : Cfg) (j : BEntry) (acts : List (Aid × Act)) : Bool :=
  goodb cfg j && acts.all (actInSpace cfg j.w)

def slotsOK (cfg : Cfg) (n : Nat) (a : Aid) (rf : List (Aid × Rat)) (slots : List (Aid × List Slot × Rat)) : Bool :=
  (slots.map (·.1) == bcasters cfg n) &&
  slots.all fun p =>
    inUnit p.2.2 &&
    (if p.1 == a then p.2.1.contains .own
     else
       match lastFrom p.1 rf 0 with
       | some (k, _) => p.2.1.contains (.entry k)
       | none => p.2.1.contains .zero && (p.2.2 == 0))

/-- `get_all_done` is the tolerance test on the stored messages; the code evaluates `|m − average| ≤ tolerance` in
floating point, the judge exactly, so an answer is accepted when it is the exact one **or** the decision lies within
`bound` of the boundary: `True` needs every distance `≤ tolerance + bound`, `False` needs some distance
`> tolerance − bound`.  (Decimal inputs do sit exactly ON the boundary: messages 0.5 and 0.3 with tolerance 0.1 as
doubles give `|0.5 − 0.4| = 0.1` exactly in the rationals, and `False` in float64.) -/
def doneAccepted (cfg : Cfg) (ms : List Rat) (res : BRes) : Bool :=
  match res with
  | .bool true => allDoneWith cfg bound ms
  | .bool false => !allDoneWith cfg (-bound) ms
  | _ => false

/-- one entry, given what could be seen before the call -/
def judge1 (cfg : Cfg) (w0 : World) (j : BEntry) (op : BOp) (e : BEntry) : Bool :=
  match e.res with
  | .err _ =>
    (match op with
     | .reset _ _ => true
     | .step acts _ => !(stepMustNotRaise cfg j acts)
     | .obs a _ => !(goodb cfg j && decide (a < j.w.n))
     | .rew a => !(match j.rewards with | some r => (r.lookup a).isSome | none => false)
     | .done _ => false
     | .allDone => !((bcasters cfg j.w.n).all fun b => (j.msgs.getD b none).isSome))
  | res =>
    match op with
    | .reset _ _ =>
      (res == .unit) && e.w.WInv && frameb w0 e.w && aliveb e.w && msgsOKb cfg e.w.n e.msgs &&
      ((List.range e.w.n).all fun a =>
         match cfg.initOf a with
         | some v => !cfg.isB a || (e.msgs.getD a none == some (clamp v))
         | none => true) &&
      (e.recv == some (emptyRecv cfg e.w.n)) && (e.rewards == some (zeroAll e.w.n))
    | .step acts _ =>
      (res == .unit) && e.w.WInv && frameb w0 e.w && aliveb e.w && (e.msgs == j.msgs) &&
      (match j.recv with
       | some rv => e.recv == some (recvAfter cfg j.w j.msgs acts rv)
       | none => false) &&
      (match j.rewards, e.rewards with
       | some r, some r' => r'.map (·.1) == r.map (·.1)
       | _, _ => false)
    | .obs a _ =>
      (e.w == j.w) && (e.rewards == j.rewards) &&
      (match res with
       | .obs o =>
         obsInSpace e.w a [.centered cfg.observeSelf] o.grid &&
         (if cfg.isB a then
            match o.msg, j.recv, j.msgs.getD a none, e.msgs.getD a none with
            | some slots, some rv, some own, some new =>
              (match rv.lookup a with
               | some rf =>
                 slotsOK cfg j.w.n a rf slots && inUnit new &&
                 decide (absR (new - clamp (average (rf.map (·.2) ++ [own]))) ≤ bound)
               | none => false) &&
              (e.msgs == j.msgs.set a (some new)) && (e.recv == some (dictSet rv a []))
            | _, _, _, _ => false
          else o.msg.isNone && (e.msgs == j.msgs) && (e.recv == j.recv))
       | _ => false)
    | .rew a =>
      (e.w == j.w) && (e.msgs == j.msgs) && (e.recv == j.recv) &&
      (match res, j.rewards, e.rewards with
       | .int x, some r, some r' => (r' == dictSet r a 0) && (r.lookup a == some x)
       | _, _, _ => false)
    | .done _ =>
      (e.w == j.w) && (e.msgs == j.msgs) && (e.recv == j.recv) && (e.rewards == j.rewards) && (res == .bool false)
    | .allDone =>
      (e.w == j.w) && (e.msgs == j.msgs) && (e.recv == j.recv) && (e.rewards == j.rewards) &&
      (match (bcasters cfg j.w.n).mapM (fun b => j.msgs.getD b none) with
       | some ms => doneAccepted cfg ms res
       | none => false)

def specFrom (cfg : Cfg) (w0 : World) : BEntry → List (BOp × BEntry) → Bool
  | _, [] => true
  | j, (op, e) :: rest =>
    judge1 cfg w0 j op e &&
    (match e.res with
     | .err _ => rest.isEmpty
     | _ => specFrom cfg w0 e rest)

/-- **the judge** -/
def specBC (cfg : Cfg) (w0 : World) (tr : List (BOp × BEntry)) : Bool :=
  specFrom cfg w0 (see .unit (init w0)) tr

/-- the placement state is one the theorems cover -/
def compOKb (w0 : World) (c : StateComp) : Bool := c.isPosition && c.wfOn w0

/-- **the hypotheses of `broadcast_hist`**: the world as the constructors leave it, the configuration hypothesis, the
history starts with a reset, every reset with a covered placement state, every step's items are for agents of the
simulation with moves in the declared spaces -/
def bcPre (cfg : Cfg) (w0 : World) (ops : List BOp) : Bool :=
  cfgOKb w0 && w0.vitalsAlive && noAmmoCb w0 && encPosb w0 &&
  w0.allAgents.all (fun b => decide (0 ≤ (w0.cfgOf b).initAmmo)) &&
  cfgHypb cfg w0 &&
  (match ops with | .reset _ _ :: _ => true | _ => false) &&
  ops.all fun op =>
    match op with
    | .reset c _ => compOKb w0 c
    | .step acts _ => acts.all fun x => decide (x.1 < w0.n) && (MoveCall.move x.1 x.2.move).inSpace w0
    | _ => true

def zipOps : List BOp → List BEntry → List (BOp × BEntry)
  | op :: ops, e :: es => (op, e) :: zipOps ops es
  | _, _ => []

end BC
end Abmarl
