import Abmarl.Model.Wrappers
import Abmarl.Spec.Spaces
/-!
# Decidable specifications for C06 (space-converting wrappers)

Side-by-side twins: the same simulation is built twice, one copy `W` is wrapped; every call made on
the wrapped copy (with wrapped actions) is mirrored on the unwrapped twin `T` (with the actions
decoded by the *real* decode).  A `WEntry` is the observable outcome of one such pair of calls; the
specifications only look at these outcomes and at the inputs (spaces, the wrapped call).

* `specCommute` — per entry: the argument the inner `step` of the wrapped copy received is the
  decoded action dictionary (and so is what the twin was stepped with); the wrapped observation is
  the encoding of the twin's observation and a member of the wrapped observation space (by the
  model's membership *and* by the real `in`); every other getter returns the twin's value; the two
  inner states are equal after the call; an undecodable action raises without touching anything.
* `specRavelInit`, `specFlatInit` — the wrapped agents' spaces the constructor computes.
* `specExclusive`, `specExclEnc`, `specExclDims` — the exclusive-channel encoding.
* `specActor` — an actor wrapper's `process_action` against the unwrapped actor fed the decoded action.
* `specUnwrapped` — every wrapper of a stack exposes the innermost object.
-/
namespace Abmarl

/-! ## twins of SAR-wrapped simulations -/

section commute
variable {α' α ω' ω ι : Type}

def SRet.beq [BEq ω] [BEq ι] : SRet ω ι → SRet ω ι → Bool
  | .unit, .unit => true
  | .obs a o, .obs b p => a == b && o == p
  | .reward r, .reward r' => r == r'
  | .flag b, .flag b' => b == b'
  | .info i, .info j => i == j
  | .raised e, .raised e' => e == e'
  | _, _ => false

def SRet.isRaised : SRet ω ι → Bool
  | .raised _ => true
  | _ => false

/-- the twin answered the right kind of call, for the right agent (or the inner simulation itself raised:
the wrapper then has to pass the exception on, which `retW = encRet enc retT` demands) -/
def WCall.answers {β : Type} : WCall β → SRet ω ι → Bool
  | _, .raised _ => true
  | .reset, .unit => true
  | .step _, .unit => true
  | .obs a, .obs b _ => a == b
  | .reward _, .reward _ => true
  | .done _, .flag _ => true
  | .allDone, .flag _ => true
  | .info _, .info _ => true
  | _, _ => false

/-- one entry of a twin trace -/
def commuteEntry [BEq α] [BEq ω'] [BEq ω] [BEq ι] (dec : Aid → α' → Except Err α)
    (enc : Aid → ω → ω') (memW : Aid → ω' → Bool) (e : WEntry α' α ω' ω ι) : Bool :=
  (e.stW == e.stT) &&
  (match decodeCall dec e.call with
   | .error _ => e.retW.isRaised && e.inW.isNone && e.argsT.isNone
   | .ok c =>
     c.answers e.retT && SRet.beq e.retW (encRet enc e.retT) &&
     (e.inW == c.stepArgs) && (e.argsT == c.stepArgs) &&
     (match e.retW with
      | .obs a o' => memW a o' && e.isIn
      | _ => true))

/-- **C06, commuting clause** on a twin trace -/
def specCommute [BEq α] [BEq ω'] [BEq ω] [BEq ι] (dec : Aid → α' → Except Err α)
    (enc : Aid → ω → ω') (memW : Aid → ω' → Bool) (tr : List (WEntry α' α ω' ω ι)) : Bool :=
  tr.all (commuteEntry dec enc memW)

end commute

/-- membership of a ravelled observation in `ravel_space(observation_space) = Discrete(card)` -/
def ravelMemW (sp : AgentSpaces) (a : Aid) (o : Option Int) : Bool :=
  match o, obsSpace? sp a with
  | some k, some s => decide (0 ≤ k) && decide (k.toNat < card s)
  | _, _ => false

/-- membership of a flattened observation in `flatten_space(observation_space)` -/
def flatMemW (sp : AgentSpaces) (a : Aid) (o : Option (List Num)) : Bool :=
  match o, obsSpace? sp a with
  | some x, some s =>
    (match flattenSpace s with
     | some fb => memFlat fb x
     | none => false)
  | _, _ => false

/-- `FlattenActionWrapper` leaves observations (and the observation space) alone -/
def idMemW (sp : AgentSpaces) (a : Aid) (o : Pt) : Bool :=
  match obsSpace? sp a with
  | some s => mem s o
  | none => false

/-- the spaces the `RavelDiscreteWrapper` constructor gives a learning agent: `(n_action, n_obs)` -/
def specRavelInit (x : Space × Space) (out : Option (Nat × Nat)) : Bool :=
  match out with
  | some (na, no) => decide (na = card x.1) && decide (no = card x.2)
  | none => false

/-- the Boxes the `FlattenWrapper` constructor gives a learning agent: those of `flatten_space`
(judged as in C05: integer-typed iff every leaf is, one bound per flat dimension) -/
def specFlatInit (x : Space × Space) (out : Option (FlatBox × FlatBox)) : Bool :=
  match out with
  | some (a, o) => specFlatSpace x.1 (some (a, flatdim x.1)) && specFlatSpace x.2 (some (o, flatdim x.2))
  | none => false

/-! ## the exclusive-channel encoding -/

def nonZeros (vs : List Int) : Nat := (vs.filter fun v => v != 0).length

/-- the point uses at most one channel: at most one channel's ravelled value is non-zero -/
def usesAtMostOne (s : Space) (p : Pt) : Bool :=
  match s, p with
  | .dict keys ss, .dict pkeys ps =>
    decide (keys = pkeys) &&
    (match ravelL ss ps with
     | some vd => decide (nonZeros vd.1 ≤ 1)
     | none => false)
  | _, _ => false

/-- spaces the exclusive-channel theorems are about: a well-formed Dict (C04's `wf`) -/
def wfExcl (s : Space) : Bool :=
  match s with
  | .dict _ _ => wf s
  | _ => false

/-- outcome of `wrap_point(space, k)`: the decoded action, the real `action in space`, and the real
`unwrap_point(space, action)`.  The action is a member that uses at most one channel and encodes
to `k` (so distinct `k` give distinct actions). -/
def specExclusive (s : Space) (k : Nat) (out : Option (Pt × Bool × Int)) : Bool :=
  match out with
  | some (p, isIn, re) =>
    isIn && mem s p && usesAtMostOne s p && (exclEncode s p == some (k : Int)) && (re == (k : Int))
  | none => false

/-- outcome of `unwrap_point(space, p)` with the real `wrap_point` of the result: for a member that
uses at most one channel, a number below `dims` that decodes to `p` again (other points are outside
the property) -/
def specExclEnc (s : Space) (p : Pt) (out : Option (Int × Pt)) : Bool :=
  if mem s p && usesAtMostOne s p then
    match out with
    | some (c, q) =>
      decide (0 ≤ c) && decide (c.toNat < exclDims s) && (exclDecode s c.toNat == some p) && (q == p)
    | none => false
  else true

/-- outcome of `wrap_space(space).n`: `Σ nᵢ − m + 1` -/
def specExclDims (s : Space) (out : Option Nat) : Bool :=
  match s, out with
  | .dict _ ss, some n => decide (n + ss.length = sum (cardL ss) + 1)
  | _, _ => false

/-! ## actor wrappers -/

/-- outcome of `wrapper.process_action(agent, {key: k})` on one copy of a world and of the unwrapped
actor fed the decoded action on a twin copy -/
structure ActorOut where
  received : Option Pt       -- what the wrapped actor received from the wrapper (intercepted)
  retW     : List Int        -- canonical return value of the wrapper
  postW    : World
  retT     : List Int        -- canonical return value of the unwrapped actor on the twin
  postT    : World

/-- **C06, actor clause**: the wrapped actor received exactly the decoded action, and wrapper and
twin agree on return value and post-world -/
def specActor (dec : Space → Nat → Option Pt) (sp : Space) (k : Nat) (o : Option ActorOut) : Bool :=
  match o, dec sp k with
  | some o, some p =>
    (match o.received with
     | some q => q == p
     | none => false) &&
    (o.retW == o.retT) && decide (o.postW = o.postT)
  | _, _ => false

/-! ## `unwrapped` -/

/-- for a stack of `depth` wrappers: every wrapper's `unwrapped` is the object at position `depth`
of the chain (the innermost one) -/
def specUnwrapped (depth : Nat) (out : List Int) : Bool :=
  (out.length == depth) && out.all (fun i => i == (depth : Int))

end Abmarl
