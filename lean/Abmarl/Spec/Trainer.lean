import Abmarl.Model.Trainer
import Abmarl.Spec.Managers
/-!
# Decidable specification for C16 (episode generation)

`specC16` looks only at what `generate_episode` returned plus the ghost log of the calls it
made (manager calls and policy queries); it never re-runs the trainer.
-/
namespace Abmarl
variable {α ω ι : Type}

/-- the agents of an output that may still act, with their observations, in report order -/
def liveOfEntry (e : Entry α ω ι) : List (Aid × ω) :=
  match e.res with
  | .resetOk o => o
  | .stepOk out => out.obs.filter fun p => !((out.dones.lookup p.1).getD false)
  | .err _ => []

def isResetE (e : Entry α ω ι) : Bool :=
  match e.op, e.res with | .reset, .resetOk _ => true | _, _ => false
def stepOut? (e : Entry α ω ι) : Option (Out ω ι) :=
  match e.op, e.res with | .step _, .stepOk o => some o | _, _ => none
def stepActs (e : Entry α ω ι) : List (Aid × α) :=
  match e.op with | .step acts => acts | .reset => []

def pick {β : Type} (l : List (Aid × β)) (a : Aid) : List β := (l.filter (·.1 == a)).map (·.2)

/-- what one manager call contributes to agent `a`'s records -/
def eObs (e : Entry α ω ι) (a : Aid) : List ω :=
  match e.res with | .resetOk o => pick o a | .stepOk out => pick out.obs a | .err _ => []
def eRew (e : Entry α ω ι) (a : Aid) : List Int :=
  match e.res with | .stepOk out => pick out.rewards a | _ => []
def eDone (e : Entry α ω ι) (a : Aid) : List Bool :=
  match e.res with | .stepOk out => pick out.dones a | _ => []
def eAct (e : Entry α ω ι) (a : Aid) : List α :=
  match e.res with | .stepOk _ => pick (stepActs e) a | _ => []
def eAll (e : Entry α ω ι) : List Bool :=
  match e.res with | .stepOk out => [out.allDone] | _ => []

/-- what agent `a`'s records must be, read off the manager outputs in order -/
def expObs (tr : List (Entry α ω ι)) (a : Aid) : List ω := tr.flatMap fun e => eObs e a
def expRew (tr : List (Entry α ω ι)) (a : Aid) : List Int := tr.flatMap fun e => eRew e a
def expDone (tr : List (Entry α ω ι)) (a : Aid) : List Bool := tr.flatMap fun e => eDone e a
def expAct (tr : List (Entry α ω ι)) (a : Aid) : List α := tr.flatMap fun e => eAct e a
def expAll (tr : List (Entry α ω ι)) : List Bool := tr.flatMap eAll

def recOf {β : Type} (l : List β) : Option (List β) := if l.isEmpty then none else some l

def specC16 [DecidableEq α] [DecidableEq ω] (n horizon : Nat) (pmap : Aid → Nat)
    (r : EpRec α ω ι) : Bool :=
  let steps := r.trace.length - 1
  -- no exception escapes
  r.err.isNone &&
  -- one reset, then only accepted steps
  (match r.trace with | [] => false | e0 :: es => isResetE e0 && es.all (fun e => (stepOut? e).isSome)) &&
  (r.queries.length == steps) &&
  -- each iteration: ask exactly the live agents of the latest output, each with its own
  -- observation and through its mapped policy; send exactly the answers
  (List.range steps).all (fun j =>
    match r.trace[j]?, r.queries[j]?, r.trace[j + 1]? with
    | some prev, some qs, some cur =>
      decide (qs.map (fun q => (q.agent, q.obs)) = liveOfEntry prev) &&
      qs.all (fun q => q.policy == pmap q.agent) &&
      decide (stepActs cur = qs.map (fun q => (q.agent, q.action)))
    | _, _, _ => false) &&
  -- stop at the horizon or as soon as `__all__` is reported, not before
  decide (steps ≤ horizon) &&
  (expAll r.trace).dropLast.all (fun b => !b) &&
  (decide (steps = horizon) || (expAll r.trace).getLast?.getD false) &&
  -- the per-agent records hold everything in the order it occurred
  (List.range n).all (fun a =>
    decide (r.observations.lookup a = recOf (expObs r.trace a)) &&
    decide (r.rewards.lookup a = recOf (expRew r.trace a)) &&
    decide (r.dones.lookup a = recOf (expDone r.trace a)) &&
    decide (r.actions.lookup a = recOf (expAct r.trace a))) &&
  decide (r.allDones = expAll r.trace) &&
  (keys r.observations ++ keys r.rewards ++ keys r.dones ++ keys r.actions).all (fun a => decide (a < n)) &&
  -- at most one true done flag per agent, and nothing recorded after it
  (List.range n).all (fun a =>
    match r.dones.lookup a with | some l => l.dropLast.all (fun b => !b) | none => true) &&
  (List.range n).all (fun a =>
    decide ((r.rewards.lookup a).map List.length = (r.dones.lookup a).map List.length))

end Abmarl
