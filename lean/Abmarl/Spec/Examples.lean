import Abmarl.Model.Examples
import Abmarl.Spec.GridSim
import Abmarl.Spec.Observers
import Abmarl.Spec.Attacks
/-!
# Decidable judges for the packaged example simulations (`gexample`, `mgrx`)

A trace is the list of calls of a history (`EOp`) with, for each, the result and what can be seen of
the simulation afterwards without side effects (`EEntry`: the dumped world and the reward dict).
`specEx` says, from the trace alone:

* **C03** every world after a successful `reset` / `step` satisfies `WInv` and has the static part
  the simulation was built with;
* **C02** every observation is a dict with exactly the keys of the observers that support the agent,
  each value inside the space that observer declared (`Observers.declared`);
* **frame** (`Lawful` of the manager theorems, seen from outside) `get_obs`, `get_done`,
  `get_all_done` change neither the world nor the reward dict, `get_reward` changes only the entry
  it reads; `get_done` / `get_all_done` return what the class's done rule gives on the dumped
  world;
* **ledger** `reset` leaves a zero entry for every learning agent and nothing else; `step` keeps the
  key set; `get_reward(a)` returns the entry of `a` and leaves `0` there (read-and-reset) — for all
  five classes (`MultiMazeNavigationSim.get_reward` was not read-and-reset before the repair
  fce2c1d, finding C01-E1);
* a call that raises ends the trace (what it left of the object is not judged), and a `step` all of whose actions are
  points of the declared action spaces, made in a world satisfying the invariant on a simulation
  whose learning agents all have a ledger entry, does not raise (`stepMustNotRaise`).

`exPre` is the conjunction of the hypotheses of `examples_hist` (Props/Examples.lean: under `exPre` the
model's own trace satisfies `specEx`), evaluated on the request (the driver sends it along; outside it
the self-test on the model's trace is void).
-/
namespace Abmarl
namespace Ex
open World Observers

/-- the observer component supports the agent (`_supported_agent`) -/
def supports (w : World) (a : Aid) : Kind → Bool
  | .ammo => (w.cfgOf a).hasAmmo && (w.cfgOf a).observing
  | _ => (w.cfgOf a).observing

def dedup : List String → List String
  | [] => []
  | x :: xs => x :: (dedup xs).filter (· != x)

/-- keys of the declared observation `Dict`, in first-occurrence order of the observers -/
def expectedKeys (w : World) (a : Aid) (ks : List Kind) : List String :=
  dedup ((ks.filter (supports w a)).map keyOf)

/-- **C02** on one observation -/
def obsInSpace (w : World) (a : Aid) (ks : List Kind) (o : List (String × Obs)) : Bool :=
  (o.map (·.1) == expectedKeys w a ks) &&
  o.all fun p => (p.2 != .unsupported) &&
    ks.any fun k => (keyOf k == p.1) && supports w a k && declared w a k p.2

/-- the action of one agent is a point of its declared action space (`Dict(move, attack)` with the
channels of the actors that support the agent) -/
def actInSpace (cfg : Cfg) (w : World) (x : Aid × Act) : Bool :=
  decide (x.1 < w.n) &&
  (MoveCall.move x.1 x.2.move).inSpace w &&
  (match cfg.which with
   | .teamBattle | .predatorPrey => !(w.cfgOf x.1).attacking || inSpace cfg.attack w x.1 x.2.attack
   | _ => true)

def keysNodup (acts : List (Aid × Act)) : Bool := decide (acts.map (·.1)).Nodup

/-- the done components the class asks inside `step` answer for the acting agents
(`TrafficCorridorSimulation`: `self.get_done(agent_id)`) -/
def donesTotal (cfg : Cfg) (acts : List (Aid × Act)) : Bool :=
  match cfg.which with
  | .traffic =>
    (match cfg.dones with
     | none => false
     | some ds =>
       ds.all fun c =>
         match c with
         | .targetOverlap m | .targetInactive m => acts.all fun x => (m.lookup x.1).isSome
         | _ => true)
  | _ => true

/-- the static part is the constructed one (`SFrame` as a Boolean) -/
def frameb (w0 w : World) : Bool :=
  (w.rows == w0.rows) && (w.cols == w0.cols) && (w.overlap == w0.overlap) && (w.cfg == w0.cfg) &&
  (w.st.length == w0.st.length)

/-- every learning agent has an entry in the reward dict -/
def ledgerFullb (cfg : Cfg) (n : Nat) (r : Ledger) : Bool :=
  ((List.range n).filter cfg.isLearning).all fun a => (r.lookup a).isSome

/-- **a `step` that must not raise** (C02: "every action drawn from an agent's declared action space
is accepted and processed without error"): the action dict holds one point of the declared action
space for each of some learning agents (the managers hand on nothing else), the done components the
class consults are total, the class's own precondition on the dict holds (`MazeNavigationSim` reads
`action_dict['navigator']`), and — for the three classes whose `step` has no `if agent.active:` —
nobody is dead (no component of theirs can kill) -/
def stepMustNotRaise (cfg : Cfg) (w : World) (acts : List (Aid × Act)) : Bool :=
  acts.all (actInSpace cfg w) && keysNodup acts && acts.all (fun x => cfg.isLearning x.1) &&
  donesTotal cfg acts &&
  (match cfg.which with
   | .mazeNav => (acts.lookup cfg.navigator).isSome && cfg.isLearning cfg.navigator && decide (cfg.navigator < w.n)
   | .teamBattle | .predatorPrey => true
   | _ => (List.range w.n).all fun a => (w.stOf a).active)

structure J where
  w       : World
  rewards : Option Ledger

/-- one entry, given what could be seen before the call -/
def judge1 (cfg : Cfg) (w0 : World) (j : J) (op : EOp) (e : EEntry) : Bool :=
  match e.res with
  | .err _ =>
    (match op, j.rewards with
     | .step acts _, some r =>
       !(j.w.WInv && stepMustNotRaise cfg j.w acts && ledgerFullb cfg j.w.n r)
     | _, _ => true)
  | res =>
    match op with
    | .reset _ _ =>
      (res == .unit) && e.w.WInv && frameb w0 e.w && (e.rewards == some (zeroRewards cfg e.w.n))
    | .step _ _ =>
      (res == .unit) && e.w.WInv && frameb w0 e.w &&
      (match j.rewards, e.rewards with
       | some r, some r' => r'.map (·.1) == r.map (·.1)
       | _, _ => false)
    | .obs a _ =>
      (e.w == j.w) && (e.rewards == j.rewards) &&
      (match res, cfg.observers with
       | .obs o, some ks => obsInSpace e.w a ks o
       | _, _ => false)
    | .rew a =>
      (e.w == j.w) &&
      (match res, j.rewards, e.rewards with
       | .int x, some r, some r' =>
         (r' == dictSet r a 0) && (r.lookup a == some x)
       | _, _, _ => false)
    | .done a => (e.w == j.w) && (e.rewards == j.rewards) && (res == resOfBool (doneW cfg j.w a))
    | .allDone => (e.w == j.w) && (e.rewards == j.rewards) && (res == resOfBool (allDoneW cfg j.w))

def specFrom (cfg : Cfg) (w0 : World) : J → List (EOp × EEntry) → Bool
  | _, [] => true
  | j, (op, e) :: rest =>
    judge1 cfg w0 j op e &&
    (match e.res with
     | .err _ => rest.isEmpty
     | _ => specFrom cfg w0 ⟨e.w, e.rewards⟩ rest)

/-- **the judge** -/
def specEx (cfg : Cfg) (w0 : World) (tr : List (EOp × EEntry)) : Bool :=
  specFrom cfg w0 ⟨w0, none⟩ tr

/-! ## the hypotheses of the theorems, as a Boolean -/

/-- the reset order is one the theorems cover: a placement state whose options are well-formed, the
regular oracle stream, `HealthState` where agents can die (`TeamBattleSim`,
`PredatorPreyResourcesSim`) -/
def resetOKb (cfg : Cfg) (w0 : World) (order : List StateComp) : Bool :=
  order.any StateComp.isPosition && !order.any StateComp.isHealthClosed && order.all (StateComp.wfOn w0) &&
  (match cfg.which with
   | .teamBattle | .predatorPrey => order.any StateComp.isHealth
   | _ => true)

/-- `ActsOK` (Lemmas/ExamplesStep.lean): the moves of the action dict are points of the declared `move`
spaces (and the acting agents exist, for the classes whose `step` does not skip anybody) -/
def actsOKb (cfg : Cfg) (w0 : World) (acts : List (Aid × Act)) : Bool :=
  match cfg.which with
  | .teamBattle | .predatorPrey => acts.all fun x => (MoveCall.move x.1 x.2.move).inSpace w0
  | .mazeNav =>
    decide (cfg.navigator < w0.n) &&
    (match acts.lookup cfg.navigator with
     | none => true
     | some act => (MoveCall.move cfg.navigator act.move).inSpace w0)
  | .multiMaze | .traffic =>
    acts.all fun x => decide (x.1 < w0.n) && (MoveCall.move x.1 x.2.move).inSpace w0

/-- **the hypotheses of `examples_hist`**: the world as the constructors leave it (everybody alive,
legal vitals: `vitalsAlive`; configuration facts `cfgOKb`; positive encodings, non-negative initial
ammunition), the history starts with a reset, every reset order is covered (`resetOKb`), every step's
moves are in the declared spaces (`actsOKb`) -/
def exPre (cfg : Cfg) (w0 : World) (ops : List EOp) : Bool :=
  cfgOKb w0 && w0.vitalsAlive && noAmmoCb w0 &&
  w0.allAgents.all (fun b => decide (0 < w0.encOf b) && decide (0 ≤ (w0.cfgOf b).initAmmo)) &&
  (match ops with | .reset _ _ :: _ => true | _ => false) &&
  ops.all fun op =>
    match op with
    | .reset order _ => resetOKb cfg w0 order
    | .step acts _ => actsOKb cfg w0 acts
    | _ => true

def zipOps : List EOp → List EEntry → List (EOp × EEntry)
  | op :: ops, e :: es => (op, e) :: zipOps ops es
  | _, _ => []

end Ex
end Abmarl
