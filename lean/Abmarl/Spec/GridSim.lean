import Abmarl.Model.GridSim
import Abmarl.Spec.Attacks
import Abmarl.Spec.Placement
/-!
# C03 judged on a whole history

A history is a list of operations (`GOp`: a move call, an attack call, a reset of a list of state
components, each with the oracle tape it consumes) applied to one world, and its *trace*: per
operation the world it left behind, or the error it raised (the trace stops there).

`specC03Hist w0 ops trace` reads only the inputs (`w0`, `ops`) and the observable outcome (`trace`):

* every world of the trace satisfies the consistency invariant `WInv` (Spec/Grid.lean);
* a `move` / `attack` operation by an agent of the simulation that is active in the world it acts
  on, with an action of its action space, does not raise (a reset MAY raise: a placement state
  legitimately fails when no legal cell exists);
* the trace has one entry per operation, up to and including the first error.

`histPre` evaluates the hypotheses of the theorems (`C03_reachable`, `C03_every_step`, `C03_hist`,
Props/C03.lean) as Booleans: the history starts with a full reset, every reset is a full one
(placement state + health + ammunition + orientation, in any order, regular oracle stream), the
placement options are well-formed, the agents' configuration is what the constructors guarantee.
-/
namespace Abmarl
open World

/-! ## the hypotheses, as Booleans -/

/-- `CfgOK` (Lemmas/Vitals.lean): initial health in (0,1], initial orientation at most 4 -/
def cfgOKb (w : World) : Bool :=
  w.cfg.all fun c =>
    (match c.initHealth with | some h => decide (0 < h) && decide (h ≤ 1) | none => true) &&
    (match c.initOrient with | some o => decide (o ≤ 4) | none => true)

/-- `NoAmmoC` (Props/C03Base.lean): the ammunition field of an agent without ammunition is not negative -/
def noAmmoCb (w : World) : Bool :=
  w.allAgents.all fun a => (w.cfgOf a).hasAmmo || decide (0 ≤ (w.stOf a).ammo)

namespace StateComp
def isPosition : StateComp → Bool | .position _ _ => true | _ => false
def isHealth : StateComp → Bool | .health => true | _ => false
def isAmmo : StateComp → Bool | .ammo => true | _ => false
def isOrient : StateComp → Bool | .orient => true | _ => false
def isHealthClosed : StateComp → Bool | .healthClosed => true | _ => false
/-- the options of a placement state are well-formed for the world -/
def wfOn (w0 : World) : StateComp → Bool
  | .position kind o => wfPlacement kind o w0
  | _ => true
end StateComp

/-- `FullReset` (Props/C03.lean) -/
def fullResetb (w0 : World) (cs : List StateComp) : Bool :=
  cs.any StateComp.isPosition && cs.any StateComp.isHealth && cs.any StateComp.isAmmo &&
  cs.any StateComp.isOrient && !cs.any StateComp.isHealthClosed && cs.all (StateComp.wfOn w0)

def GOp.resetsFullb (w0 : World) : GOp → Bool
  | .reset cs => fullResetb w0 cs
  | _ => true

def GOp.isReset : GOp → Bool | .reset _ => true | _ => false

/-- the hypotheses of `C03_hist` -/
def histPre (w0 : World) (ops : List (GOp × Tape)) : Bool :=
  cfgOKb w0 && noAmmoCb w0 &&
  (match ops with | (op, _) :: _ => op.isReset | [] => false) &&
  ops.all fun p => p.1.resetsFullb w0

/-! ## the specification -/

/-- in world `w` the operation is a call that must not raise: a move or an attack by an agent of
the simulation that is active, with an action of its action space -/
def GOp.mustNotRaise (w : World) : GOp → Bool
  | .move c => decide (c.agent < w.n) && (w.stOf c.agent).active && c.inSpace w
  | .attack cfg a act => decide (a < w.n) && (w.stOf a).active && inSpace cfg w a act
  | .reset _ => false

/-- **C03 on a trace**, from the world `w` the first remaining operation acts on -/
def specC03HistFrom : World → List (GOp × Tape) → List (Except GErr World) → Bool
  | _, [], tr => tr.isEmpty
  | _, _ :: _, [] => false
  | _, _ :: rest, .ok w' :: tr => w'.WInv && specC03HistFrom w' rest tr
  | w, p :: _, .error _ :: tr => tr.isEmpty && !p.1.mustNotRaise w

/-- **C03 on a trace** -/
def specC03Hist (w0 : World) (ops : List (GOp × Tape)) (trace : List (Except GErr World)) : Bool :=
  specC03HistFrom w0 ops trace

/-! ## the invariant without the "built-in components alone" clause

`WInv` says `active ↔ 0 < health`.  A simulation whose own `step` deactivates agents by hand (the
runners of `ReachTheTargetSim` that reached the target: `agent.active = False`) keeps only what the
property states for every simulation: *an agent with zero health is never active*. -/
namespace World

def wAgentWeak (w : World) (a : Aid) : Bool :=
  let s := w.stOf a
  (!s.active || (w.inGrid s.pos && decide (a ∈ w.cell s.pos))) &&
  decide (0 ≤ s.health) && decide (s.health ≤ 1) && (!s.active || decide (0 < s.health)) &&
  decide (0 ≤ s.ammo) && (!(w.cfgOf a).hasAmmo || decide (s.ammo ≤ max 0 (w.cfgOf a).initAmmo)) &&
  (!(w.cfgOf a).hasOrient || (decide (1 ≤ s.orient) && decide (s.orient ≤ 4)))

def WInvWeak (w : World) : Bool :=
  w.wShape && w.allCells.all w.wCell && w.allAgents.all w.wAgentWeak && w.wOverlapSym

/-- everybody is alive with legal vitals: what a placement reset needs to find in order to leave a
world satisfying the whole invariant (it keeps the vitals, other components own them) -/
def vitalsAlive (w : World) : Bool :=
  w.allAgents.all fun a =>
    let s := w.stOf a
    decide (0 < s.health) && decide (s.health ≤ 1) && s.active && decide (0 ≤ s.ammo) &&
    (!(w.cfgOf a).hasAmmo || decide (s.ammo ≤ max 0 (w.cfgOf a).initAmmo)) &&
    (!(w.cfgOf a).hasOrient || (decide (1 ≤ s.orient) && decide (s.orient ≤ 4)))

/-- the agents `zs` taken out of every cell (diagnosis of finding K4 only) -/
def dropFromCells (w : World) (zs : List Aid) : World :=
  { w with cells := w.cells.map fun c => c.filter fun a => !zs.contains a }

end World

/-- **C03 judged on a placement reset**: a successful reset that finds everybody alive with legal
vitals leaves a world satisfying the invariant -/
def specC03Place (w : World) (out : PlaceOut) : Bool :=
  out.err.isSome || !w.vitalsAlive || out.post.WInv

end Abmarl
