import Abmarl.Model.Placement
import Abmarl.Spec.Grid
/-!
# Decidable specification of C13: placement at reset, and mazes

`specPlacement kind opts pre tape out` judges the **outcome** of a reset (`out.err`, `out.post`)
against the inputs.  It never looks at availability lists: what was available to an agent when
it was placed is recomputed from the overlap rule (`joinOK`, the rule of `Grid.query`) on the
cell table as it was at that moment, which is reconstructed from the outcome itself by putting
the agents back, one by one, in the order the options, the listing and the tape prescribe
(`replay`).  The only model functions used are the tape consumers (`shuffle`), and, for the maze
state, `generateMaze` for *the* maze of this reset; `specMaze` judges any maze separately.

`specMaze rows cols start m`: `m` is a `rows × cols` table of 0/1, the start is a passage, and a
flood fill from the start through 4-adjacent passages reaches every passage.
-/
namespace Abmarl
open World

/-! ## mazes -/
namespace Maze

/-- one round of the flood fill over the flat `rows × cols` maze: a passage cell is marked if it
was marked already or one of its 4-neighbours inside the grid was -/
def floodStep (rows cols : Nat) (m : List Nat) (marks : List Bool) : List Bool :=
  (List.range (rows * cols)).map fun i =>
    marks.getD i false ||
    (m.getD i 1 == 0 &&
      ((decide (0 < i / cols) && marks.getD (i - cols) false) ||
       (decide (i / cols + 1 < rows) && marks.getD (i + cols) false) ||
       (decide (0 < i % cols) && marks.getD (i - 1) false) ||
       (decide (i % cols + 1 < cols) && marks.getD (i + 1) false)))

/-- rounds of the flood fill, stopping early at a fixed point -/
def flood (rows cols : Nat) (m : List Nat) : Nat → List Bool → List Bool
  | 0, marks => marks
  | k + 1, marks =>
    let marks' := floodStep rows cols m marks
    if marks' == marks then marks else flood rows cols m k marks'

def startIdx (cols : Nat) (start : Pos) : Nat := start.1.toNat * cols + start.2.toNat

/-- **maze part of C13** -/
def specMaze (rows cols : Nat) (start : Pos) (m : List Nat) : Bool :=
  (m.length == rows * cols) && m.all (fun v => decide (v ≤ 1)) &&
  decide (0 ≤ start.1) && decide (start.1 < rows) && decide (0 ≤ start.2) && decide (start.2 < cols) &&
  (m.getD (startIdx cols start) 1 == 0) &&
  (let marks0 := (List.range (rows * cols)).map fun i => i == startIdx cols start
   let marks := flood rows cols m (fuelFor rows cols) marks0
   (List.range (rows * cols)).all fun i => m.getD i 1 != 0 || marks.getD i false)

end Maze

/-! ## placement -/

/-- the target of a target/maze state is placed by the state itself, before everybody else -/
def isTargetRole (kind : PKind) (o : PlaceOpts) (a : Aid) : Bool := kind != .position && a == o.target

def isFixed (w : World) (a : Aid) : Bool := (w.cfgOf a).initPos.isSome

/-- the order in which a reset places the agents: the target (target/maze states), then the
agents with an initial position, then the others — both groups in listing order, or in the order
of the tape-driven shuffle of the listing -/
def placementOrder (kind : PKind) (o : PlaceOpts) (w : World) (t : Tape) : List Aid :=
  let l := if o.randomize then (shuffle w.allAgents t).1 else w.allAgents
  (if kind == .position then [] else [o.target]) ++
  l.filter (fun a => !isTargetRole kind o a && isFixed w a) ++
  l.filter (fun a => !isTargetRole kind o a && !isFixed w a)

/-- the tape as it is when the maze is generated: after the shuffle and after the two draws of a
random target position -/
def mazeTape (o : PlaceOpts) (w : World) (t : Tape) : Tape :=
  let t1 := if o.randomize then (shuffle w.allAgents t).2 else t
  if isFixed w o.target then t1 else t1.tail.tail

/-- the overlap rule on a cell table (`Grid.query`): an agent of encoding `e` may join cell `c` iff
it may overlap with everybody who is there -/
def joinOK (w : World) (cells : List (List Aid)) (e : Int) (c : Nat) : Bool :=
  (cells.getD c []).all fun b => w.pairOK e (w.encOf b)

/-- a cell is *available* to encoding `e`: joinable; with no-overlap-at-reset, empty -/
def availRule (w : World) (no : Bool) (cells : List (List Aid)) (e : Int) (c : Nat) : Bool :=
  if no then (cells.getD c []).isEmpty else joinOK w cells e c

/-- maze state: barrier encodings belong on wall cells, free encodings on passage cells -/
def baseOK (kind : PKind) (o : PlaceOpts) (mz : List Nat) (e : Int) (c : Nat) : Bool :=
  kind != .maze ||
  ((!o.barrier.contains e || mz.getD c 1 == 1) && (!o.free.contains e || mz.getD c 1 == 0))

/-- is the agent somewhere in the grid? -/
def placedIn (w : World) (a : Aid) : Bool := w.cells.any fun c => c.contains a

/-- what the property demands of agent `a` standing at its position of the outcome `w'`, given
the cell table `cells` as it was when `a` was placed -/
def stepOK (kind : PKind) (o : PlaceOpts) (w' : World) (mz : List Nat) (cells : List (List Aid))
    (a : Aid) : Bool :=
  let p := (w'.stOf a).pos
  let k := w'.idx p
  let e := w'.encOf a
  let tpos := (w'.stOf o.target).pos
  -- inside the grid, on a cell it may share with everybody there, and not there already
  w'.inGrid p && joinOK w' cells e k && !(cells.any fun c => c.contains a) &&
  (match (w'.cfgOf a).initPos with
   | some q => p == q                                   -- on its initial position
   | none =>
     isTargetRole kind o a ||
     ((!o.noOverlap || (cells.getD k []).isEmpty) &&    -- alone when it is placed
      baseOK kind o mz e k &&                            -- wall / passage
      (!(kind != .position && o.useLast e) ||            -- cluster / scatter
        w'.allCells.all fun c =>
          !(baseOK kind o mz e c && availRule w' o.noOverlap cells e c) ||
          (if o.barrier.contains e && o.cluster then
             decide (sqDist p tpos ≤ sqDist (w'.unravel c) tpos)
           else decide (sqDist (w'.unravel c) tpos ≤ sqDist p tpos)))))

/-- the reason of a failure at agent `a` (the first agent that is not in the grid) holds:
* `assertion`: the encodings of the simulation are not covered by barrier ∪ free (nobody placed
  yet), or the cell of `a`'s initial position cannot be joined;
* `noCell`: `a` is placed freely and no cell at all was available to its encoding. -/
def errJustified (kind : PKind) (o : PlaceOpts) (w' : World) (mz : List Nat)
    (cells : List (List Aid)) (a : Aid) (err : Option GErr) : Bool :=
  let e := w'.encOf a
  match err with
  | some .assertion =>
    if isTargetRole kind o a then !(w'.cfg.all fun c => (o.barrier ++ o.free).contains c.enc)
    else
      match (w'.cfgOf a).initPos with
      | some q => w'.inGrid q && !joinOK w' cells e (w'.idx q)
      | none => false
  | some .noCell =>
    !isTargetRole kind o a && !isFixed w' a &&
    w'.allCells.all fun c => !(baseOK kind o mz e c && availRule w' o.noOverlap cells e c)
  | _ => false

/-- put `a` back into the cell of its position -/
def putCell (w' : World) (cells : List (List Aid)) (a : Aid) : List (List Aid) :=
  cells.set (w'.idx (w'.stOf a).pos) (cells.getD (w'.idx (w'.stOf a).pos) [] ++ [a])

/-- walk through the placement order, rebuilding the cell table from the outcome: every agent
that is in the grid must satisfy `stepOK` at its moment; the first agent that is not in the grid
ends the walk — then nothing else may be in the grid and the error must be justified; if everybody
is in the grid the reset must have succeeded and the rebuilt table is the outcome's table -/
def replay (kind : PKind) (o : PlaceOpts) (w' : World) (mz : List Nat) (err : Option GErr) :
    List Aid → List (List Aid) → Bool
  | [], cells => err.isNone && cells == w'.cells
  | a :: rest, cells =>
    if placedIn w' a then
      stepOK kind o w' mz cells a && replay kind o w' mz err rest (putCell w' cells a)
    else cells == w'.cells && errJustified kind o w' mz cells a err

namespace World

/-- position part of the C03 invariant, cell side: whoever is stored in cell `i` is a real agent
whose position is that cell, once; co-occupants may pairwise overlap -/
def posCell (w : World) (i : Nat) : Bool :=
  let c := w.cells.getD i []
  decide c.Nodup &&
  c.all (fun a => decide (a < w.n) && w.inGrid (w.stOf a).pos && (w.idx (w.stOf a).pos == i)) &&
  c.all (fun a => c.all (fun b => a == b || w.pairOK (w.encOf a) (w.encOf b)))

/-- position part of the C03 invariant, agent side (after a reset every agent is in the grid) -/
def posAgent (w : World) (a : Aid) : Bool :=
  w.inGrid (w.stOf a).pos && decide (a ∈ w.cell (w.stOf a).pos)

def posInv (w : World) : Bool :=
  w.wShape && w.allCells.all w.posCell && w.allAgents.all w.posAgent

end World

/-- the reset does not touch the static part of the world -/
def sameGrid (w w' : World) : Bool :=
  (w.rows == w'.rows) && (w.cols == w'.cols) && (w.overlap == w'.overlap) && (w.cfg == w'.cfg)

/-- health, activity, ammunition and orientation are other components' business -/
def vitalsKept (w w' : World) : Bool :=
  w.allAgents.all fun a => w'.stOf a == { w.stOf a with pos := (w'.stOf a).pos }

/-- agents with an initial position stand on it -/
def fixedOnInit (w' : World) : Bool :=
  w'.allAgents.all fun a =>
    match (w'.cfgOf a).initPos with
    | some q => (w'.stOf a).pos == q
    | none => true

/-- with no-overlap-at-reset every agent without an initial position is alone on its cell -/
def aloneFinal (o : PlaceOpts) (w' : World) : Bool :=
  !o.noOverlap ||
  w'.allAgents.all fun a => isFixed w' a || (w'.cell (w'.stOf a).pos == [a])

/-- the maze of this reset: generated at the target's position from the tape after the shuffle
and the target draws (all walls if that fails, which `specMaze` then rejects) -/
def mazeOf (kind : PKind) (o : PlaceOpts) (w : World) (t : Tape) (w' : World) : List Nat :=
  if kind == .maze then
    match Maze.generateMaze w'.rows w'.cols (w'.stOf o.target).pos (mazeTape o w t) with
    | .ok r => r.1
    | .error _ => []
  else []

/-- **C13** judged on the outcome of a reset -/
def specPlacement (kind : PKind) (o : PlaceOpts) (w : World) (t : Tape) (out : PlaceOut) : Bool :=
  let w' := out.post
  let mz := mazeOf kind o w t w'
  sameGrid w w' && w'.wShape && vitalsKept w w' &&
  -- success: the position invariant, initial positions, aloneness; a connected maze
  (out.err.isSome ||
    (w'.posInv && fixedOnInit w' && aloneFinal o w' &&
     (kind != .maze || Maze.specMaze w'.rows w'.cols (w'.stOf o.target).pos mz))) &&
  -- every agent legal at its moment; a failure is explicit and justified
  replay kind o w' mz out.err (placementOrder kind o w t) (List.replicate (w.rows * w.cols) [])

/-- decidable well-formedness of the inputs of a reset — the hypothesis of the C13 theorems.
Positive grid, at least one agent (O8), one state per agent, a symmetric overlap table (C19),
initial positions inside the grid, positive encodings for `PositionState` (O6); for the target and
maze states: the target is an agent, no encoding is both barrier and free, and — finding C13-K1 —
with no-overlap-at-reset a target that is placed at random is not joined by an agent that has an
initial position (no such agent may overlap with the target). -/
def wfPlacement (kind : PKind) (o : PlaceOpts) (w : World) : Bool :=
  decide (0 < w.rows) && decide (0 < w.cols) && decide (0 < w.n) && (w.st.length == w.cfg.length) &&
  w.wOverlapSym &&
  w.allAgents.all (fun a =>
    (kind != .position || decide (1 ≤ w.encOf a)) &&
    (match (w.cfgOf a).initPos with | some q => w.inGrid q | none => true)) &&
  (kind == .position ||
    (decide (o.target < w.n) && o.barrier.all (fun e => !o.free.contains e) &&
     (!o.noOverlap || isFixed w o.target ||
       w.allAgents.all fun b =>
         b == o.target || !isFixed w b || !w.pairOK (w.encOf b) (w.encOf o.target))))

end Abmarl
