import Abmarl.Model.Pacman
import Abmarl.Spec.Examples
/-!
# Decidable judge for `PacmanSim` / `PacmanSimSimple` histories (`gexample` with configuration `(pacman …)`)

As `Ex.specEx` (Spec/Examples.lean) with the differences of the two classes:

* the world after a `reset` satisfies the whole invariant `WInv`;
* the world after EVERY `step` — returned or raised — satisfies `WInvFloat`, the weakest invariant the class keeps by
  design: `WInv` without "whoever is stored in a cell is active" (pacman, eaten by a baddie in the first overlap loop,
  stays in its cell until the end of the step: a step that raises later leaves it there) and without "every active agent
  is stored in the cell of its position" (the corridor teleport takes the agent out of its cell and does not look at the
  result of `grid.place`: a refused or out-of-grid placement leaves an active agent in no cell);
* a step that returns from a state satisfying `stepPre` (below) leaves a world satisfying the whole `WInv` again;
* `get_done(a)` = `get_all_done()` = "pacman is inactive, or no `FoodAgent` was ever built" (`PM.allDoneW`) on the dumped
  world, for every `a`;
* `step_count` moves as the class says (0 after reset, +1 after a step of `PacmanSimSimple` that fell through to the end —
  which is what the model computes; the judge asks `count ≤ old + 1`, unchanged by getters, `0` for `PacmanSim`);
* **a `step` that must not raise** (`stepPre`): the explicit decidable hypothesis of `pacman_step_noRaise` (Props/Pacman.lean).
-/
namespace Abmarl
namespace PM
open World Ex Observers

/-! ## the weak invariant -/

def wCellF (w : World) (i : Nat) : Bool :=
  let c := w.cells.getD i []
  decide c.Nodup &&
  c.all (fun a => decide (a < w.n) && w.inGrid (w.stOf a).pos && (w.idx (w.stOf a).pos == i)) &&
  c.all (fun a => c.all (fun b => a == b || w.pairOK (w.encOf a) (w.encOf b)))

def wAgentF (w : World) (a : Aid) : Bool :=
  let s := w.stOf a
  decide (0 ≤ s.health) && decide (s.health ≤ 1) && (s.active == decide (0 < s.health)) &&
  decide (0 ≤ s.ammo) && (!(w.cfgOf a).hasAmmo || decide (s.ammo ≤ max 0 (w.cfgOf a).initAmmo)) &&
  (!(w.cfgOf a).hasOrient || (decide (1 ≤ s.orient) && decide (s.orient ≤ 4)))

/-- **the invariant `PacmanSim` keeps in every state, also in the one a raising `step` leaves** -/
def WInvFloat (w : World) : Bool :=
  w.wShape && w.allCells.all (wCellF w) && w.allAgents.all (wAgentF w) && w.wOverlapSym

/-! ## the configuration hypothesis -/

def Scheme.full (s : Scheme) (simple : Bool) : Bool :=
  s.badMove.isSome && s.entropy.isSome && s.eatFood.isSome && s.die.isSome && (simple || s.kill.isSome)

/-- the agent is moved by the `DriftMoveActor` -/
def mover (w : World) (a : Aid) : Bool := (w.cfgOf a).moving && (w.cfgOf a).hasOrient

/-- **what the class documents about its agents** ("a single Pacman agent named pacman … FoodAgents … BaddieAgents … all
entities move according to the DriftMoveActor"): the learning agents are exactly the movers (`PacmanAgent`, `BaddieAgent`),
pacman is one of them and neither food nor baddie, every baddie is a mover, no food is, the reward scheme has every event
the class reads; `PacmanSimSimple`: the five ids `baddie_0 … baddie_4` exist and are baddies (hence movers) other than pacman. -/
def cfgWF (cfg : Cfg) (w : World) : Bool :=
  decide (cfg.pacman < w.n) && mover w cfg.pacman && cfg.isLearning cfg.pacman &&
  !(cfg.food.contains cfg.pacman) && !(cfg.baddies.contains cfg.pacman) &&
  w.allAgents.all (fun a => cfg.isLearning a == mover w a) &&
  cfg.food.all (fun a => decide (a < w.n) && !mover w a && !(cfg.baddies.contains a)) &&
  cfg.baddies.all (fun a => decide (a < w.n) && mover w a) &&
  cfg.scheme.full cfg.simple &&
  (!cfg.simple ||
    (List.range 5).all fun i =>
      match cfg.named.getD i none with
      | none => false
      | some b => cfg.baddies.contains b)

/-- the two cells of the hard-coded corridor teleport -/
def teleCells (cfg : Cfg) : List Pos := [(9, 0), (9, cfg.far)]

/-- **"the grid is composed like the standard pacman grid"**, as far as the teleport needs it: both teleport cells lie
inside the grid, and a mover may share a cell with every other mover and with everything that is stored in a teleport
cell (so that `grid.place` at the far end is never refused) -/
def teleSafe (cfg : Cfg) (w : World) : Bool :=
  (teleCells cfg).all w.inGrid &&
  w.allAgents.all fun m => !mover w m ||
    w.allAgents.all fun b =>
      !(mover w b || (teleCells cfg).any (fun p => decide (b ∈ w.cell p))) || m == b || w.pairOK (w.encOf m) (w.encOf b)

def actInSpace (w : World) (x : Aid × Int) : Bool :=
  decide (x.1 < w.n) && decide (0 ≤ x.2) && decide (x.2 ≤ 4)

def keysNodup (acts : List (Aid × Int)) : Bool := decide (acts.map (·.1)).Nodup

/-- **a `step` that must not raise** (C02): the world satisfies `WInv`, pacman is alive, everybody but pacman and the
food is alive, the action dict holds a point of `Discrete(5)` for pacman and for some of the other learning agents
(distinct keys), every learning agent has a reward entry, and the configuration hypotheses `cfgWF`, `teleSafe` hold. -/
def stepPre (cfg : Cfg) (w : World) (r : Ledger) (acts : List (Aid × Int)) : Bool :=
  w.WInv && cfgWF cfg w && teleSafe cfg w &&
  (w.stOf cfg.pacman).active &&
  w.allAgents.all (fun a => a == cfg.pacman || cfg.food.contains a || (w.stOf a).active) &&
  (acts.lookup cfg.pacman).isSome && keysNodup acts &&
  acts.all (fun x => actInSpace w x && cfg.isLearning x.1) &&
  ledgerFullb cfg.toEx w.n r

/-! ## the judge -/

structure J where
  w       : World
  rewards : Option Ledger
  count   : Nat

def judge1 (cfg : Cfg) (w0 : World) (j : J) (op : Op) (e : Entry) : Bool :=
  match op with
  | .reset _ _ =>
    (match e.res with
     | .err _ => true
     | res => (res == .unit) && e.w.WInv && frameb w0 e.w && (e.rewards == some (zeroRewards cfg.toEx e.w.n)) &&
              (e.count == 0))
  | .step acts _ =>
    (match j.rewards with
     | none => e.res.isErr
     | some r =>
       WInvFloat e.w && frameb w0 e.w &&
       (match e.rewards with
        | some r' => r'.map (·.1) == r.map (·.1)
        | none => false) &&
       (if cfg.simple then decide (j.count ≤ e.count) && decide (e.count ≤ j.count + 1) else e.count == 0) &&
       (match e.res with
        | .err _ => !(stepPre cfg j.w r acts) && (e.count == j.count)
        | res => (res == .unit) && (!(stepPre cfg j.w r acts) || e.w.WInv)))
  | .obs a _ =>
    (match e.res with
     | .err _ => true
     | .obs o => (e.w == j.w) && (e.rewards == j.rewards) && (e.count == j.count) &&
                 (match cfg.observers with
                  | some ks => obsInSpace e.w a ks o
                  | none => false)
     | _ => false)
  | .rew a =>
    (match e.res with
     | .err _ => true
     | .int x =>
       (e.w == j.w) && (e.count == j.count) &&
       (match j.rewards, e.rewards with
        | some r, some r' => (r' == dictSet r a 0) && (r.lookup a == some x)
        | _, _ => false)
     | _ => false)
  | .done _ =>
    (e.w == j.w) && (e.rewards == j.rewards) && (e.count == j.count) &&
    (match j.rewards with
     | some _ => e.res == .bool (allDoneW cfg j.w)
     | none => e.res.isErr)
  | .allDone =>
    (e.w == j.w) && (e.rewards == j.rewards) && (e.count == j.count) &&
    (match j.rewards with
     | some _ => e.res == .bool (allDoneW cfg j.w)
     | none => e.res.isErr)

/-- a raising getter / reset leaves what was there -/
def unchangedOnErr (j : J) (op : Op) (e : Entry) : Bool :=
  match op, e.res with
  | .step _ _, _ => true
  | _, .err _ => (e.w == j.w) && (e.rewards == j.rewards) && (e.count == j.count)
  | _, _ => true

def specFrom (cfg : Cfg) (w0 : World) : J → List (Op × Entry) → Bool
  | _, [] => true
  | j, (op, e) :: rest =>
    judge1 cfg w0 j op e && unchangedOnErr j op e &&
    (if e.res.isErr && (op.isReset || e.rewards.isNone) then rest.isEmpty
     else specFrom cfg w0 ⟨e.w, e.rewards, e.count⟩ rest)

/-- **the judge** -/
def specPM (cfg : Cfg) (w0 : World) (tr : List (Op × Entry)) : Bool := specFrom cfg w0 ⟨w0, none, 0⟩ tr

def zipOps : List Op → List Entry → List (Op × Entry)
  | op :: ops, e :: es => (op, e) :: zipOps ops es
  | _, _ => []

/-- the vitals of a constructed world, as the dump reads them before the first `reset` (health 1, active, ammunition 0;
the orientation of an `OrientationAgent` is not set yet: `OrientationState.reset` is part of every reset of the class) -/
def freshb (w : World) : Bool :=
  w.allAgents.all fun a =>
    let s := w.stOf a
    decide (0 < s.health) && decide (s.health ≤ 1) && s.active && decide (0 ≤ s.ammo) &&
    (!(w.cfgOf a).hasAmmo || decide (s.ammo ≤ max 0 (w.cfgOf a).initAmmo))

/-- the world as the constructors leave it, the history starts with a reset, every reset with a covered placement
state, `HealthState` and `OrientationState` (in any order) -/
def pmPre (cfg : Cfg) (w0 : World) (ops : List Op) : Bool :=
  cfgOKb w0 && freshb w0 && noAmmoCb w0 &&
  w0.allAgents.all (fun b => decide (0 < w0.encOf b) && decide (0 ≤ (w0.cfgOf b).initAmmo)) &&
  (match ops with | .reset _ _ :: _ => true | _ => false) &&
  ops.all fun op =>
    match op with
    | .reset order _ => resetOKb cfg.toEx w0 order && order.any StateComp.isOrient
    | _ => true

end PM
end Abmarl
