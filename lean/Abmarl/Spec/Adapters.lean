import Abmarl.Model.Adapters
import Abmarl.Spec.Managers
/-!
# Decidable specification for C15 (gym and OpenSpiel adapters)

Judged on the adapter's outputs and the ghost log of the manager calls it made; the manager
ghost state (`GSt`: who was reported done, is the episode over) is folded over those calls
exactly as for C01.
-/
namespace Abmarl
variable {α ω ι : Type}

/-! ## Gym: the adapter returns exactly the single learning agent's entries -/

def specGym [DecidableEq ω] [DecidableEq ι] (ag : Aid) (act : Option α)
    (res : Except Err (GymOut ω ι)) (e : Entry α ω ι) : Bool :=
  match act, e.res, res with
  | none, .resetOk obs, .ok o =>
    decide (obs.lookup ag = some o.obs) && o.reward.isNone && o.done.isNone && o.info.isNone
  | some _, .stepOk out, .ok o =>
    decide (out.obs.lookup ag = some o.obs) && decide (out.rewards.lookup ag = o.reward) &&
    decide (out.dones.lookup ag = o.done) && decide (out.infos.lookup ag = o.info) &&
    o.reward.isSome && o.done.isSome && o.info.isSome
  | _, .err er, .error er' => decide (er = er')      -- the manager's rejection is passed on
  | _, _, _ => false

/-- a sequence of gym calls, judged under the caller protocol of the manager (a step before the
first reset or after `__all__` ends the obligation, as for C01) -/
def gymLoop [DecidableEq ω] [DecidableEq ι] (ag : Aid) :
    GSt → List (Option α) → List (Except Err (GymOut ω ι) × Entry α ω ι) → Bool
  | _, [], [] => true
  | g, c :: cs, (res, e) :: rest =>
    if c.isSome && (!g.started || g.over) then true
    else specGym ag c res e && gymLoop ag (gNext g e) cs rest
  | _, _, _ => false

/-! ## OpenSpiel -/

structure OSGhost where
  g           : GSt := {}
  shouldReset : Bool := true      -- spec-level: first call, or the previous time step was LAST
  current     : Aid := 0          -- current player named by the previous time step

def foldG (g : GSt) (es : List (Entry α ω ι)) : GSt := es.foldl gNext g

def osGhostNext (gh : OSGhost) (c : OSCall α ω ι) : OSGhost :=
  match c.res with
  | .ok ts => { g := foldG gh.g c.mgrCalls, shouldReset := decide (ts.stepType = .last), current := ts.current }
  | .error _ => { gh with g := foldG gh.g c.mgrCalls }

def isLearner (n : Nat) (learning : Aid → Bool) (a : Aid) : Bool := decide (a < n) && learning a

/-- the action lists a well-behaved OpenSpiel caller sends: one action in turn-based play, one per
learning agent otherwise (it keeps sending them for finished agents) -/
def callOK (k : MKind) (nLearners : Nat) (c : Option (List α)) : Bool :=
  match c with
  | none => true
  | some acts => if k == .turnBased then !acts.isEmpty else acts.length == nLearners

def c15Call [DecidableEq α] [DecidableEq ω] (k : MKind) (n : Nat) (learning : Aid → Bool)
    (gh : OSGhost) (call : Option (List α)) (c : OSCall α ω ι) : Bool :=
  let learners := (List.range n).filter learning
  match c.res with
  | .error _ => false                       -- a well-formed call never raises
  | .ok ts =>
    -- every learning agent is present in observations, legal actions and rewards
    sameSet (keys ts.infoState) learners && decide (ts.legal = learners) &&
    (match ts.rewards with | none => true | some r => sameSet (keys r) learners) &&
    (if call.isNone || gh.shouldReset then
       -- a (re)start: exactly one manager reset, FIRST, no rewards
       (match c.mgrCalls with
        | [e] => (match e.op, e.res with
            | .reset, .resetOk obs =>
              decide (ts.stepType = .first) && ts.rewards.isNone &&
              obs.all (fun p => decide (p ∈ ts.infoState)) &&
              decide (some ts.current = obs.head?.map (·.1))
            | _, _ => false)
        | _ => false)
     else
       match call, c.mgrCalls with
       | some acts, [e] =>
         (match e.op, e.res with
          | .step sent, .stepOk out =>
            -- only actions of agents not yet done are forwarded, unchanged
            (if k == .turnBased then
               (match acts, sent with
                | a :: _, [p] => decide (p = (gh.current, a))
                | _, _ => false)
             else decide (sent = (learners.zip acts).filter (fun p => decide (p.1 ∉ gh.g.R)))) &&
            -- LAST exactly when the manager reports `__all__`
            decide (ts.stepType = (if out.allDone then StepType.last else StepType.mid)) &&
            -- observations and rewards of the manager's output are passed on; others get 0
            out.obs.all (fun p => decide (p ∈ ts.infoState)) &&
            (match ts.rewards with
             | none => false
             | some r => out.rewards.all (fun p => decide (p ∈ r)) &&
                         r.all (fun p => decide (p ∈ out.rewards) || p.2 == 0))
          | _, _ => false)
       | _, _ => false) &&       -- in particular: never a fake step, never a rejected action
    -- in turn-based play the current player can still act
    (!(k == .turnBased) || decide (ts.stepType = .last) ||
      (isLearner n learning ts.current && decide (ts.current ∉ (foldG gh.g c.mgrCalls).R)))

def c15Loop [DecidableEq α] [DecidableEq ω] (k : MKind) (n : Nat) (learning : Aid → Bool) :
    OSGhost → List (Option (List α)) → List (OSCall α ω ι) → Bool
  | _, [], [] => true
  | gh, call :: calls, c :: cs =>
    if !callOK k ((List.range n).filter learning).length call then true
    else c15Call k n learning gh call c && c15Loop k n learning (osGhostNext gh c) calls cs
  | _, _, _ => false

def specC15 [DecidableEq α] [DecidableEq ω] (k : MKind) (n : Nat) (learning : Aid → Bool)
    (calls : List (Option (List α))) (cs : List (OSCall α ω ι)) : Bool :=
  c15Loop k n learning {} calls cs

/-! ## OpenSpiel with the `current_player` setter in the call alphabet

Reading of the property under the richer alphabet.  The clause "in turn-based play always names as
current player an agent that can still act" is about the current player *the adapter names in a time
step it returns* — every time step, also the one `_take_fake_step` returns, however the state was
reached through the public interface.  What the caller names through the setter is not named by the
adapter; for it only "never forwards an action for an already-done agent" is demanded: a turn-based
step whose action is for an agent reported done forwards nothing, touches neither the manager nor the
episode, and answers with a MID time step in which every learning agent is present with reward 0
(the documented fake step) and which names a current player who can still act.  No "taint": the setter
does not switch any clause off.  (This check found C15-K1 — the fake step named the first learning
agent even when it was done — which has been repaired.) -/

/-- every manager step recorded has no action for an agent reported done earlier in the episode
(`R` of the ghost state just before that manager call) -/
def noFwdDone (g : GSt) : List (Entry α ω ι) → Bool
  | [] => true
  | e :: es =>
    (match e.op with
     | .step sent => sent.all (fun p => decide (p.1 ∉ g.R))
     | .reset => true) && noFwdDone (gNext g e) es

/-- turn-based play, not a restart: the one action of a step is for the current player, who has been
reported done — it cannot be forwarded -/
def fakeDue (k : MKind) (gh : OSGhost) : Bool :=
  k == .turnBased && !gh.shouldReset && decide (gh.current ∈ gh.g.R)

/-- the time step that answers an action that cannot be forwarded -/
def c15Fake (n : Nat) (learning : Aid → Bool) (gh : OSGhost) (c : OSCall α ω ι) : Bool :=
  let learners := (List.range n).filter learning
  match c.res with
  | .error _ => false
  | .ok ts =>
    -- nothing reaches the manager
    c.mgrCalls.isEmpty &&
    -- every learning agent is present in observations, legal actions and rewards (all 0)
    sameSet (keys ts.infoState) learners && decide (ts.legal = learners) &&
    (match ts.rewards with
     | none => false
     | some r => sameSet (keys r) learners && r.all (fun p => p.2 == 0)) &&
    -- the episode goes on
    decide (ts.stepType = .mid) &&
    -- the current player the adapter names can still act
    isLearner n learning ts.current && decide (ts.current ∉ gh.g.R)

def osGhostNextX (gh : OSGhost) (call : OSIn α) (o : OSOut α ω ι) : OSGhost :=
  match call, o with
  | _, .ts c => osGhostNext gh c
  | .setCurrent a, .set (.ok _) => { gh with current := a }
  | _, _ => gh

def c15XItem [DecidableEq α] [DecidableEq ω] (k : MKind) (n : Nat) (learning : Aid → Bool)
    (gh : OSGhost) (call : OSIn α) (o : OSOut α ω ι) : Bool :=
  match call, o with
  | .setCurrent a, .set r =>
    -- the setter accepts exactly the learning agents
    (match r with
     | .ok _ => isLearner n learning a
     | .error e => !isLearner n learning a && decide (e = .rejected))
  | .reset, .ts c => noFwdDone gh.g c.mgrCalls && c15Call k n learning gh none c
  | .step acts, .ts c =>
    -- for every action list, well-formed or not: never an action for an already-done agent
    noFwdDone gh.g c.mgrCalls &&
    (!callOK k ((List.range n).filter learning).length (some acts) ||
      (if fakeDue k gh then c15Fake n learning gh c
       else c15Call k n learning gh (some acts) c))
  | _, _ => false

def c15XLoop [DecidableEq α] [DecidableEq ω] (k : MKind) (n : Nat) (learning : Aid → Bool) :
    OSGhost → List (OSIn α) → List (OSOut α ω ι) → Bool
  | _, [], [] => true
  | gh, call :: calls, o :: os =>
    c15XItem k n learning gh call o && c15XLoop k n learning (osGhostNextX gh call o) calls os
  | _, _, _ => false

/-- C15 (OpenSpiel) over histories of resets, steps and `current_player = …` -/
def specC15X [DecidableEq α] [DecidableEq ω] (k : MKind) (n : Nat) (learning : Aid → Bool)
    (calls : List (OSIn α)) (tr : List (OSOut α ω ι)) : Bool :=
  c15XLoop k n learning {} calls tr

/-- all the manager calls of a play-through, in order -/
def mgrCallsOf : List (OSOut α ω ι) → List (Entry α ω ι)
  | [] => []
  | .ts c :: os => c.mgrCalls ++ mgrCallsOf os
  | .set _ :: os => mgrCallsOf os

end Abmarl
