import Abmarl.Model.Movers
/-!
# Decidable specifications over worlds: the consistency invariant (C03) and moves (C12)
-/
namespace Abmarl
namespace World

/-- may encodings `e1` and `e2` share a cell, asked from `e1`'s row of the table -/
def pairOK (w : World) (e1 e2 : Int) : Bool :=
  match w.overlap.lookup e1 with
  | none => false
  | some s => decide (e2 ∈ s)

def allAgents (w : World) : List Aid := List.range w.n
def allCells (w : World) : List Nat := List.range (w.rows * w.cols)

/-- shape of the tables -/
def wShape (w : World) : Bool :=
  (w.cells.length == w.rows * w.cols) && (w.st.length == w.cfg.length)

/-- whoever is stored in cell `i` is a real, active agent whose position is that cell, once; and no
two occupants have encodings that may not overlap -/
def wCell (w : World) (i : Nat) : Bool :=
  let c := w.cells.getD i []
  decide c.Nodup &&
  c.all (fun a => decide (a < w.n) && (w.stOf a).active && w.inGrid (w.stOf a).pos &&
                  (w.idx (w.stOf a).pos == i)) &&
  c.all (fun a => c.all (fun b => a == b || w.pairOK (w.encOf a) (w.encOf b)))

/-- every active agent is stored in the cell of its position, which lies inside the grid; vitals -/
def wAgent (w : World) (a : Aid) : Bool :=
  let s := w.stOf a
  (!s.active || (w.inGrid s.pos && decide (a ∈ w.cell s.pos))) &&
  decide (0 ≤ s.health) && decide (s.health ≤ 1) && (s.active == decide (0 < s.health)) &&
  decide (0 ≤ s.ammo) && (!(w.cfgOf a).hasAmmo || decide (s.ammo ≤ max 0 (w.cfgOf a).initAmmo)) &&
  (!(w.cfgOf a).hasOrient || (decide (1 ≤ s.orient) && decide (s.orient ≤ 4)))

/-- the grid's overlapping table is symmetric (it is closed by `Grid.overlapping`'s setter, C19) -/
def wOverlapSym (w : World) : Bool :=
  w.overlap.all (fun p => p.2.all (fun x => w.pairOK x p.1))

/-- **C03 invariant** on a world (built-in components only) -/
def WInv (w : World) : Bool :=
  w.wShape && w.allCells.all w.wCell && w.allAgents.all w.wAgent && w.wOverlapSym

/-- everything about agent `b` and about cell `i` is the same in both worlds -/
def sameAgent (w w' : World) (b : Aid) : Bool := w.stOf b == w'.stOf b
def sameCell (w w' : World) (i : Nat) : Bool := w.cells.getD i [] == w'.cells.getD i []

def sameStatic (w w' : World) : Bool :=
  (w.rows == w'.rows) && (w.cols == w'.cols) && (w.overlap == w'.overlap) && (w.cfg == w'.cfg) &&
  (w.cells.length == w'.cells.length) && (w.st.length == w'.st.length)

/-- the destination of a move by `d` is inside the grid and is the current cell or a cell all of
whose occupants may overlap with the mover -/
def destFree (w : World) (a : Aid) (d : Pos) : Bool :=
  let src := (w.stOf a).pos
  let dst : Pos := (src.1 + d.1, src.2 + d.2)
  w.inGrid dst && (dst == src || (w.cell dst).all (fun o => w.pairOK (w.encOf a) (w.encOf o)))

/-- **C12**: a move by offset `d` — succeeds iff the destination is free (`destFree`); on success
exactly the mover changes cell (by exactly `d`); on failure nothing changes; nobody else is ever
affected. -/
def specMoveBy (w : World) (a : Aid) (d : Pos) (ok : Bool) (w' : World) : Bool :=
  let src := (w.stOf a).pos
  let dst : Pos := (src.1 + d.1, src.2 + d.2)
  (ok == w.destFree a d) && sameStatic w w' &&
  (if ok && dst != src then
     -- the mover is at dst, with nothing else about it changed
     (w'.stOf a == { w.stOf a with pos := dst }) &&
     w.allAgents.all (fun b => b == a || sameAgent w w' b) &&
     (w'.cell src == (w.cell src).erase a) && (w'.cell dst == w.cell dst ++ [a]) &&
     w.allCells.all (fun i => i == w.idx src || i == w.idx dst || sameCell w w' i)
   else w' == w)

/-- **C12**, drift: asked for a new direction `x ≠ 0` the agent turns and advances only if that
move succeeds; otherwise, and for `x = 0`, exactly one attempt along the current orientation,
which is kept. -/
def specDrift (w : World) (a : Aid) (x : Int) (ret : Option Bool) (w' : World) : Bool :=
  if (w.cfgOf a).moving && (w.cfgOf a).hasOrient then
    let o := (w.stOf a).orient
    match crossTable x, ret with
    | some d, some ok =>
      if x != 0 && w.destFree a d then
        ok && ((w'.stOf a).orient == x.toNat) &&
          specMoveBy w a d true (w'.setSt a { w'.stOf a with orient := o })
      else
        (match crossTable o with
         | some d' => specMoveBy w a d' ok w'
         | none => false)
    | _, _ => false
  else ret.isNone && w' == w

end World

/-! ## Calls of the move actors and the per-call judgements -/

structure MoveOut where
  ret  : Option Bool      -- `process_action`'s return value (`none` = unsupported agent)
  post : World
  left : Int              -- value left in `action_dict['move']` (observation O4)

inductive MoveCall where
  | move (a : Aid) (d : Pos) | cross (a : Aid) (act : Int) | drift (a : Aid) (act : Int)

def MoveCall.agent : MoveCall → Aid
  | .move a _ => a | .cross a _ => a | .drift a _ => a

/-- the action is a point of the actor's declared action space -/
def MoveCall.inSpace (w : World) : MoveCall → Bool
  | .move a d => decide (d.1.natAbs ≤ (w.cfgOf a).moveRange) && decide (d.2.natAbs ≤ (w.cfgOf a).moveRange)
  | .cross _ x => decide (0 ≤ x) && decide (x ≤ 4)
  | .drift _ x => decide (0 ≤ x) && decide (x ≤ 4)

open World in
def runMoveCall (w : World) : MoveCall → Except GErr MoveOut
  | .move a d => (w.moveAct a d).map fun r => ⟨r.1, r.2, 0⟩
  | .cross a x => (w.crossAct a x).map fun r => ⟨r.1, r.2, x⟩
  | .drift a x => (w.driftAct a x).map fun r => ⟨r.1, r.2.1, r.2.2⟩

open World in
/-- **C12** judged on the outcome of a call -/
def specC12 (w : World) (c : MoveCall) (o : Except GErr MoveOut) : Bool :=
  match c, o with
  | _, .error _ => false                    -- no action of the action space may raise
  | .move a d, .ok o =>
    if (w.cfgOf a).moving then
      (match o.ret with | some ok => specMoveBy w a d ok o.post | none => false)
    else o.ret.isNone && o.post == w
  | .cross a x, .ok o =>
    if (w.cfgOf a).moving then
      (match crossTable x, o.ret with
       | some d, some ok => specMoveBy w a d ok o.post
       | _, _ => false)
    else o.ret.isNone && o.post == w
  | .drift a x, .ok o => specDrift w a x o.ret o.post

/-- **C03** judged on the outcome of a call: the invariant is preserved -/
def specC03Move (w : World) (o : Except GErr MoveOut) : Bool :=
  !w.WInv || (match o with | .ok o => o.post.WInv | .error _ => false)

/-- **C12 / C03** for a call made for ANY agent, active or not (round 6 of the seeded changes: a move that is
still processed for an agent an attack has taken off the grid).  For an active mover this is `specC12`.  A mover
that is not active stands in no cell: the call may raise (`Grid.remove` of an agent that is in no cell) or be
refused, and either way the world is what it was - "a move changes only the mover", and a mover that is not on
the grid cannot be moved. -/
def specMoveAny (w : World) (c : MoveCall) (o : Except GErr MoveOut) : Bool :=
  if (w.stOf c.agent).active then specC12 w c o
  else match o with
    | .error _ => true
    | .ok o => o.post == w

/-- the invariant clause for a call made for any agent -/
def specC03MoveAny (w : World) (c : MoveCall) (o : Except GErr MoveOut) : Bool :=
  if (w.stOf c.agent).active then specC03Move w o
  else !w.WInv || (match o with | .ok o => o.post.WInv | .error _ => true)

end Abmarl
