import Abmarl.Model.SuperAgent
/-!
# Decidable trace specification for C14 (`SuperAgentWrapper`)

`specC14` judges a *session*: the mapping handed to the constructor and the list of calls made on
the wrapper, each with its result and with the ghost observations of the **inner** simulation
(done flags, pending rewards, the argument the inner `step` received, the inner `get_obs` reads).
It never looks at the wrapper's own state.  `Props/C14.lean` proves it of the model's trace for
every inner simulation, partition and call history; the driver evaluates the same function on the
implementation's trace.

Ghost state folded along the trace (`SG`):
* `done`, `pend`  the inner done flags / pending rewards after the previous call;
* `obsRep`        covered agents that have had a super observation taken while they were done
                  (their "first report after done") since the last reset;
* `rewRep`        covered agents whose reward has been counted while they were done (final count).

Clauses (`c14Entry`):
* `get_obs(super)` — `mask[c] = !done c`; the entry of `c` is the value of a real inner read made
  during this call while `c` is not done or has not yet been reported after done, and the declared
  null observation (no inner read at all) afterwards; the inner reads are exactly the due ones,
  in mapping order (`expectObs`).  For an agent that declares no null observation the code falls
  back to a real read at every later report too; the property text says nothing there and the
  specification accepts exactly that (a real read) and nothing else;
* `get_reward(super)` — the sum of what was pending for the covered agents not yet finally counted,
  which are left with nothing pending, while a finally counted agent is neither paid nor read
  (ledger: delivered + pending = accrued, nothing after the final count);
* `get_done(super)` — all covered agents done; `get_info(super)` — the covered agents' infos;
* `step` — the inner `step` receives exactly the actions of covered agents that are not done at
  that moment and the uncovered agents' actions, unchanged, in dictionary order;
* every getter for an uncovered agent returns the inner getter's value (one inner read for
  `get_obs`, read-and-reset for `get_reward`), `get_all_done` is the inner one;
* a covered agent's id is rejected by every method before anything reaches the simulation;
* `reset` clears the hand-over state (the fold restarts with empty `obsRep`/`rewRep`).

Calls before the first `reset` are outside the caller protocol (the real wrapper has no
`_last_*_reported` dictionaries yet and may raise `AttributeError`): they end the obligation.
-/
namespace Abmarl

variable {α ω ι : Type}

structure SG where
  started : Bool := false
  done    : List Bool := []
  pend    : List Int := []
  obsRep  : List Aid := []
  rewRep  : List Aid := []
deriving Repr

def SG.isDone (g : SG) (c : Aid) : Bool := g.done.getD c false
def SG.pendOf (g : SG) (c : Aid) : Int := g.pend.getD c 0

/-- covered agents of a super agent whose reward is still counted: all but the finally counted -/
def SG.counted (g : SG) (cov : List Aid) : List Aid :=
  cov.filter fun c => !(g.isDone c && decide (c ∈ g.rewRep))

/-- is a real inner read due for covered agent `c` in a super observation? -/
def SG.obsDue (g : SG) (cfg : SuperCfg ω) (c : Aid) : Bool :=
  !g.isDone c || !decide (c ∈ g.obsRep) || (cfg.declared c).isNone

def sgNext (cfg : SuperCfg ω) (g : SG) (e : SupEntry α ω ι) : SG :=
  match e.call with
  | .reset => { started := true, done := e.simDone, pend := e.pending, obsRep := [], rewRep := [] }
  | .getObs (.sup i) =>
    (match e.res with
     | .obs _ => { g with done := e.simDone, pend := e.pending,
                          obsRep := g.obsRep ++ (cfg.groups.getD i []).filter g.isDone }
     | _ => { g with done := e.simDone, pend := e.pending })
  | .getReward (.sup i) =>
    (match e.res with
     | .reward _ => { g with done := e.simDone, pend := e.pending,
                             rewRep := g.rewRep ++ (cfg.groups.getD i []).filter g.isDone }
     | _ => { g with done := e.simDone, pend := e.pending })
  | _ => { g with done := e.simDone, pend := e.pending }

/-- replay the hand-over rule against the log of inner reads: a due entry consumes the next read,
which must be a read of that very agent; any other entry is the declared null observation -/
def expectObs (due : Aid → Bool) (null : Aid → Option ω) :
    List Aid → List (Aid × ω) → Option (List (Aid × ω))
  | [], [] => some []
  | [], _ :: _ => none
  | c :: cs, log =>
    if due c then
      match log with
      | (c', o) :: rest => if c' = c then (expectObs due null cs rest).map ((c, o) :: ·) else none
      | [] => none
    else
      match null c with
      | some o => (expectObs due null cs log).map ((c, o) :: ·)
      | none => none

/-- the insertions into the inner action dictionary one item of the action dict stands for -/
def expect1 (g : SG) (p : Outer × SAct α) : List (Aid × α) :=
  match p.1, p.2 with
  | .sup _, .joint l => l.filter (fun q => !g.isDone q.1)
  | .unc a, .plain v => [(a, v)]
  | _, _ => []

/-- the call did not step the inner simulation, and left done flags and pending rewards alone -/
def frameOK (g : SG) (e : SupEntry α ω ι) : Bool :=
  e.simArgs.isNone && e.simDone == g.done && e.accrued == g.pend

/-- nothing reached the inner simulation at all -/
def untouched (g : SG) (e : SupEntry α ω ι) : Bool :=
  frameOK g e && e.obsReads.isEmpty && e.pending == g.pend

/-- pending rewards after a call that read (and thereby emptied) exactly the agents `read` -/
def pendingAfter (n : Nat) (g : SG) (read : List Aid) (e : SupEntry α ω ι) : Bool :=
  e.pending.length == n &&
  (List.range n).all fun a => e.pending.getD a 0 == if a ∈ read then 0 else g.pendOf a

def c14Entry [DecidableEq α] [DecidableEq ω] [DecidableEq ι] (n : Nat) (cfg : SuperCfg ω)
    (g : SG) (e : SupEntry α ω ι) : Bool :=
  match e.call with
  | .reset =>
    e.res == .unit && e.simArgs.isNone && e.obsReads.isEmpty && e.pending == e.accrued
  | .step acts =>
    (match checkActs n cfg acts with
     | .error er => e.res == .err er && untouched g e
     | .ok oacts =>
       e.res == .unit && e.simArgs == some (supDictOf (oacts.flatMap (expect1 g))) &&
       e.obsReads.isEmpty && e.pending == e.accrued)
  | .getObs r =>
    (match resolve n cfg r with
     | .error er => e.res == .err er && untouched g e
     | .ok (.sup cov) =>
       (match expectObs (g.obsDue cfg) cfg.declared cov e.obsReads with
        | some ol => e.res == .obs (.super (cov.map fun c => (c, !g.isDone c)) ol)
        | none => false) && frameOK g e && e.pending == g.pend
     | .ok (.unc a) =>
       (match e.obsReads with
        | [(a', o)] => a' == a && e.res == .obs (.plain o)
        | _ => false) && frameOK g e && e.pending == g.pend
     | .ok .bad => false)
  | .getReward r =>
    (match resolve n cfg r with
     | .error er => e.res == .err er && untouched g e
     | .ok (.sup cov) =>
       e.res == .reward ((g.counted cov).map g.pendOf).sum && pendingAfter n g (g.counted cov) e &&
       frameOK g e && e.obsReads.isEmpty
     | .ok (.unc a) =>
       e.res == .reward (g.pendOf a) && pendingAfter n g [a] e && frameOK g e && e.obsReads.isEmpty
     | .ok .bad => false)
  | .getDone r =>
    (match resolve n cfg r with
     | .error er => e.res == .err er && untouched g e
     | .ok (.sup cov) => e.res == .done (cov.all g.isDone) && untouched g e
     | .ok (.unc a) => e.res == .done (g.isDone a) && untouched g e
     | .ok .bad => false)
  | .getAllDone => e.res == .done e.simAllDone && untouched g e
  | .getInfo r =>
    (match resolve n cfg r with
     | .error er => e.res == .err er && untouched g e
     | .ok (.sup cov) =>
       (match e.res with
        | .info (.super l) => l.map (·.1) == cov && l.all (fun p => e.simInfos[p.1]? == some p.2)
        | _ => false) && untouched g e
     | .ok (.unc a) =>
       (match e.res with
        | .info (.plain i) => e.simInfos[a]? == some i
        | _ => false) && untouched g e
     | .ok .bad => false)

def sup_isReset : SCall α → Bool
  | .reset => true
  | _ => false

/-- run the per-call check along a trace; a call before the first `reset` ends the obligation -/
def c14Loop [DecidableEq α] [DecidableEq ω] [DecidableEq ι] (n : Nat) (cfg : SuperCfg ω) :
    SG → List (SupEntry α ω ι) → Bool
  | _, [] => true
  | g, e :: es =>
    if !sup_isReset e.call && !g.started then true
    else c14Entry n cfg g e && c14Loop n cfg (sgNext cfg g e) es

/-- a session: the constructor rejects a mapping that is not a partition of learning agents;
otherwise every call satisfies its clause -/
def specC14 [DecidableEq α] [DecidableEq ω] [DecidableEq ι] (n : Nat) (learning : Aid → Bool)
    (cfg : SuperCfg ω) (out : Except Err (List (SupEntry α ω ι))) : Bool :=
  if ctorOK n learning cfg then
    match out with
    | .ok tr => c14Loop n cfg {} tr
    | .error _ => false
  else
    match out with
    | .error .rejected => true
    | _ => false

end Abmarl
