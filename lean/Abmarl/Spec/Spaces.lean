import Abmarl.Model.Spaces
/-!
# Decidable specifications for C04 (ravel) and C05 (flatten)

Each `spec…` is a Bool-valued predicate on the *inputs* of one call and its *observable
outcome* (`none` = the call raised).  `Props/C04.lean`, `Props/C05.lean` prove that the model's
outcome satisfies them for every well-formed space and every point; the driver evaluates the
very same functions on the implementation's outcome (the judge).

Well-formedness (`WF04`, `WF05`) is the hypothesis of the theorems; it is decidable so that
the driver can say for each request whether the theorems apply.  It excludes exactly
* `Discrete(n, start ≠ 0)` (finding K1),
* spaces with `2^63` points or more, and bounds outside int64 (finding K3),
* integer Boxes of a dtype other than numpy's `int` (finding K5),
* degenerate spaces gymnasium or numpy reject or treat specially (no cells, no children),
* for ravelling: float and unbounded Boxes (not supported by the property).
-/
namespace Abmarl

/-! ## well-formedness -/

/-- Dict keys as gymnasium orders them: strictly increasing key indices -/
def sortedLt : List Nat → Bool
  | a :: b :: r => decide (a < b) && sortedLt (b :: r)
  | _ => true

def allPos : List Nat → Bool
  | [] => true
  | r :: rs => decide (0 < r) && allPos rs

/-- pointwise `lo ≤ hi`, both strictly inside int64 and away from the sentinels `min + 2`,
`max - 2` that `check_space` reads as "unbounded" (so `high + 1` cannot wrap either) -/
def boundsOk : List Int → List Int → Bool
  | [], [] => true
  | l :: ls, h :: hs =>
    decide (l ≤ h) && decide (-(2 : Int) ^ 63 + 2 < l) && decide (h < (2 : Int) ^ 63 - 3) && boundsOk ls hs
  | _, _ => false

def boundsOkQ : List Rat → List Rat → Bool
  | [], [] => true
  | l :: ls, h :: hs => decide (l ≤ h) && boundsOkQ ls hs
  | _, _ => false

mutual
/-- spaces the ravel theorems are about -/
def wf : Space → Bool
  | .discrete n start => decide (0 < n) && decide (start = 0)
  | .multiBinary n => decide (0 < n)
  | .multiDiscrete nvec => !nvec.isEmpty && allPos nvec
  | .box shape lo hi wide =>
    wide && decide (prod shape = lo.length) && decide (0 < lo.length) && boundsOk lo hi
  | .fbox _ _ _ => false
  | .ubox _ => false
  | .dict keys ss => decide (keys.length = ss.length) && sortedLt keys && !ss.isEmpty && wfL ss
  | .tuple ss => !ss.isEmpty && wfL ss
def wfL : List Space → Bool
  | [] => true
  | s :: ss => wf s && wfL ss
end

/-- hypothesis of the C04 theorems -/
def WF04 (s : Space) : Bool := wf s && decide (card s < 2 ^ 63)

mutual
/-- spaces the flatten theorems are about -/
def wfF : Space → Bool
  | .discrete n start => decide (0 < n) && decide (start = 0)
  | .multiBinary n => decide (0 < n)
  | .multiDiscrete nvec => !nvec.isEmpty && allPos nvec
  | .box shape lo hi wide =>
    wide && decide (prod shape = lo.length) && decide (0 < lo.length) && boundsOk lo hi
  | .fbox shape lo hi => decide (prod shape = lo.length) && decide (0 < lo.length) && boundsOkQ lo hi
  | .ubox _ => false
  | .dict keys ss => decide (keys.length = ss.length) && sortedLt keys && !ss.isEmpty && wfFL ss
  | .tuple ss => !ss.isEmpty && wfFL ss
def wfFL : List Space → Bool
  | [] => true
  | s :: ss => wfF s && wfFL ss
end

/-- hypothesis of the C05 theorems -/
def WF05 (s : Space) : Bool := wfF s

/-! ## C04 -/

mutual
/-- "supported": every leaf is Discrete, MultiBinary, MultiDiscrete or a bounded `int` Box -/
def supported : Space → Bool
  | .discrete _ _ => true
  | .multiBinary _ => true
  | .multiDiscrete _ => true
  | .box _ _ _ wide => wide
  | .fbox _ _ _ => false
  | .ubox _ => false
  | .dict _ ss => supportedL ss
  | .tuple ss => supportedL ss
def supportedL : List Space → Bool
  | [] => true
  | s :: ss => supported s && supportedL ss
end

/-- outcome of `ravel(space, p)`: a number below the number of points which unravels to `p` -/
def specRavel (s : Space) (p : Pt) (out : Option Int) : Bool :=
  match out with
  | some v => decide (0 ≤ v) && decide (v.toNat < card s) && (unravel s v.toNat == some p)
  | none => false

/-- outcome of `unravel(space, k)` together with gymnasium's answer to `result in space`:
a member of the space which ravels to `k` -/
def specUnravel (s : Space) (k : Nat) (out : Option (Pt × Bool)) : Bool :=
  match out with
  | some (q, isIn) => isIn && mem s q && (ravel s q == some (Int.ofNat k))
  | none => false

/-- outcome of `ravel_space(space)` as `(n, start)`: `Discrete(number of points)` -/
def specRavelSpace (s : Space) (out : Option (Nat × Int)) : Bool :=
  match out with
  | some (n, start) => decide (n = card s) && decide (start = 0)
  | none => false

/-- outcome of `check_space(space)` -/
def specCheckSpace (s : Space) (out : Option Bool) : Bool :=
  match out with
  | some b => b == supported s
  | none => false

/-! ## C05 -/

mutual
/-- every leaf space is integer-typed -/
def allLeavesInt : Space → Bool
  | .fbox _ _ _ => false
  | .dict _ ss => allLeavesIntL ss
  | .tuple ss => allLeavesIntL ss
  | _ => true
def allLeavesIntL : List Space → Bool
  | [] => true
  | s :: ss => allLeavesInt s && allLeavesIntL ss
end

def valsEq : List Num → List Num → Bool
  | [], [] => true
  | a :: as, b :: bs => decide (a.val = b.val) && valsEq as bs
  | _, _ => false

mutual
/-- same structure and same values; only the int/float tag (numpy promotion) may differ -/
def ptEqv : Pt → Pt → Bool
  | .scalar a, .scalar b => decide (a.val = b.val)
  | .arr a, .arr b => valsEq a b
  | .dict k ps, .dict k' qs => decide (k = k') && ptEqvL ps qs
  | .tuple ps, .tuple qs => ptEqvL ps qs
  | _, _ => false
def ptEqvL : List Pt → List Pt → Bool
  | [], [] => true
  | p :: ps, q :: qs => ptEqv p q && ptEqvL ps qs
  | _, _ => false
end

/-- outcome of `flatten(space, p)` (a one-dimensional array) together with the real answer to
`result in flatten_space(space)`: right length, inside the flattened Box, and unflattening
gives back a point with the same structure and values (the same point for integer spaces) -/
def specFlatten (s : Space) (p : Pt) (out : Option (List Num × Bool)) : Bool :=
  match out with
  | some (a, isIn) =>
    decide (a.length = flatdim s) && isIn &&
    (match flattenSpace s with
     | some b => memFlat b a
     | none => false) &&
    (match unflatten s a with
     | some q => ptEqv q p && (!allLeavesInt s || q == p)
     | none => false)
  | none => false

/-- outcome of `unflatten(space, flatten(space, p))` together with the real answer to
`result in space` (`1`/`0`; only asked for integer spaces): same structure and values as `p`,
and for an integer space the very same point, a member of the space -/
def specRoundTrip (s : Space) (p : Pt) (out : Option (Pt × Int)) : Bool :=
  match out with
  | some (q, isIn) => ptEqv q p && (!allLeavesInt s || (q == p && mem s q && decide (isIn = 1)))
  | none => false

/-- outcome of `flatten_space(space)` with `flatdim(space)`: integer-typed exactly when every
leaf is, one bound per flat dimension -/
def specFlatSpace (s : Space) (out : Option (FlatBox × Nat)) : Bool :=
  match out with
  | some (b, d) =>
    (decide (b.kind ≠ .f) == allLeavesInt s) && decide (d = flatdim s) &&
    decide (b.lo.length = d) && decide (b.hi.length = d)
  | none => false

end Abmarl
