import Abmarl.Model.Corridor
/-!
# Decidable judge for `MultiCorridor` histories (`gexample` with configuration `(corridor end n)`)

A trace is the list of calls of a history (`COp`) with, for each, the result and what can be seen of the
object afterwards without side effects (`CEntry.dyn`: positions, corridor cells, reward dict; `none`
while the attributes do not exist).  `specCor` says, from the trace alone:

* **state** every dump satisfies `invb`: one position per agent, inside `0 .. end-1`; a corridor cell
  stores agent `a` exactly when `a` stands there and the cell is not the last one (the agents that are
  not done are in the corridor at exactly their positions — hence pairwise apart —, the done ones are
  not stored); also after a call that raised;
* **reset** leaves every reward 0 and nobody on the last cell; it raises exactly when the configuration
  admits no placement (`end ≤ 1` or `n > end - 1`), and then changes nothing;
* **step** agents without an item keep their position; a step whose items are for distinct agents that
  are not done, in a state satisfying `invb`, does not raise (`stepMustNotRaise`) — whatever the action
  values (C02);
* **observations** (C02) `get_obs(a)` for an agent of the simulation, once reset, returns; the position
  is inside `Box(0, end-1, (1,), int)` (`obsInSpace`; `left` / `right` are single bits) and the real
  object's own `contains` agreed (`member`); the three entries are what the dump says;
* **frame** (`Lawful`) `get_obs`, `get_done`, `get_all_done` change nothing, `get_reward(a)` returns
  the entry of `a` and leaves `0` there, nothing else changes; the done getters return the done rule on
  the dump (`position = end - 1`, all of them).
-/
namespace Abmarl
namespace Cor

/-- `[p] ∈ Box(0, end-1, (1,), int)`; `left`, `right` are bits: members of `MultiBinary(1)` as they are -/
def obsInSpace (cfg : Cfg) (o : Obs) : Bool := decide (o.position + 1 ≤ cfg.endp) && o.member

/-- the invariant of every reachable state, as a Boolean (the Prop form is `Cor.Inv`) -/
def invb (cfg : Cfg) (d : Dyn) : Bool :=
  decide (d.pos.length = cfg.n) && decide (d.cor.length = cfg.endp) && decide (d.rew.length = cfg.n) &&
  ((List.range cfg.n).all fun a => decide (d.pos.getD a 0 < cfg.endp)) &&
  ((List.range cfg.endp).all fun q => (List.range cfg.n).all fun a =>
    decide (d.cor.getD q none = some a ↔ (d.pos.getD a 0 = q ∧ q + 1 ≠ cfg.endp))) &&
  ((List.range cfg.endp).all fun q =>
    match d.cor.getD q none with
    | none => true
    | some a => decide (a < cfg.n))

/-- the configuration admits a placement: `np.random.choice(end-1, n, False)` returns -/
def cfgOKb (cfg : Cfg) : Bool := decide (2 ≤ cfg.endp) && decide (cfg.n ≤ cfg.endp - 1)

def keysNodup (acts : List (Aid × Int)) : Bool := decide (acts.map (·.1)).Nodup

/-- **a `step` that must not raise**: items for distinct agents of the simulation none of which is done -/
def stepMustNotRaise (cfg : Cfg) (d : Dyn) (acts : List (Aid × Int)) : Bool :=
  invb cfg d && keysNodup acts &&
  acts.all fun x => decide (x.1 < cfg.n) && !doneOf cfg d x.1

/-- agents without an item keep their position -/
def frameb (cfg : Cfg) (d d' : Dyn) (acts : List (Aid × Int)) : Bool :=
  (List.range cfg.n).all fun b => (acts.map (·.1)).contains b || (d'.pos.getD b 0 == d.pos.getD b 0)

def dumpOK (cfg : Cfg) : Option Dyn → Bool
  | none => true
  | some d => invb cfg d

/-- one entry, given what could be seen before the call -/
def judge1 (cfg : Cfg) (j : Option Dyn) (op : COp) (e : CEntry) : Bool :=
  dumpOK cfg e.dyn &&
  match op with
  | .reset _ =>
    (match e.res with
     | .unit =>
       cfgOKb cfg &&
       (match e.dyn with
        | some d => d.rew.all (· == 0) && ((List.range cfg.n).all fun a => !doneOf cfg d a)
        | none => false)
     | .err _ => !cfgOKb cfg && (e.dyn == j)
     | _ => false)
  | .step acts =>
    (match e.res, j, e.dyn with
     | .unit, some d, some d' => frameb cfg d d' acts
     | .unit, none, none => true
     | .err _, some d, some d' => !stepMustNotRaise cfg d acts && frameb cfg d d' acts
     | .err _, none, none => true
     | _, _, _ => false)
  | .obs a =>
    (e.dyn == j) &&
    (match e.res, j with
     | .obs o, some d => decide (a < cfg.n) && obsInSpace cfg o && (o == obsOf cfg d a)
     | .err _, some _ => decide (cfg.n ≤ a)
     | .err _, none => true
     | _, _ => false)
  | .rew a =>
    (match e.res, j, e.dyn with
     | .int x, some d, some d' =>
       decide (a < cfg.n) && (x == d.rew.getD a 0) && (d' == { d with rew := d.rew.set a 0 })
     | .err _, some _, _ => decide (cfg.n ≤ a) && (e.dyn == j)
     | .err _, none, _ => e.dyn == j
     | _, _, _ => false)
  | .done a => (e.dyn == j) && (e.res == resOfBool (getDone cfg { dyn := j } a))
  | .allDone => (e.dyn == j) && (e.res == resOfBool (getAllDone cfg { dyn := j }))

def specFrom (cfg : Cfg) : Option Dyn → List (COp × CEntry) → Bool
  | _, [] => true
  | j, (op, e) :: rest => judge1 cfg j op e && specFrom cfg e.dyn rest

/-- **the judge** -/
def specCor (cfg : Cfg) (tr : List (COp × CEntry)) : Bool := specFrom cfg none tr

def zipOps : List COp → List CEntry → List (COp × CEntry)
  | op :: ops, e :: es => (op, e) :: zipOps ops es
  | _, _ => []

end Cor
end Abmarl
