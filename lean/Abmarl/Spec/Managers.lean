import Abmarl.Model.Managers
/-!
# Decidable trace specifications for C01 and C07

`specC01` / `specC07` are Bool-valued predicates on a *trace* (the list of `Entry`s a
history of resets and steps produced, with the ghost observations of the simulation).
They never look at the manager's internal state.  `Props/C01.lean` and `Props/C07.lean`
prove that the trace of the model satisfies them for every simulation and every history;
the driver evaluates the very same functions on the implementation's trace (`judge`).

Ghost state folded along the trace:
* `R`       agents output with `done = true` since the last reset;
* `over`    the last output had `__all__ = true` (protocol: only `reset` may follow);
* `pend`    the simulation's pending rewards after the previous call;
* `holder`  turn-based: the agent whose turn it was.
-/
namespace Abmarl

variable {α ω ι : Type}

structure GSt where
  started : Bool := false
  over    : Bool := false
  R       : List Aid := []
  pend    : List Int := []
  holder  : Option Aid := none
deriving Repr

def keys {β : Type} (l : List (Aid × β)) : List Aid := l.map (·.1)

def sameSet (a b : List Aid) : Bool := a.all (fun x => decide (x ∈ b)) && b.all (fun x => decide (x ∈ a))

def newlyDone (dones : List (Aid × Bool)) : List Aid := (dones.filter (·.2)).map (·.1)

/-- last reported agent whose done flag is false -/
def liveOf (dones : List (Aid × Bool)) : Option Aid :=
  ((dones.filter (fun p => !p.2)).map (·.1)).getLast?

def gNext (g : GSt) (e : Entry α ω ι) : GSt :=
  match e.res with
  | .resetOk o => { started := true, over := false, R := [], pend := e.ghost.pending,
                    holder := (keys o).getLast? }
  | .stepOk o => { g with over := o.allDone, R := g.R ++ newlyDone o.dones, pend := e.ghost.pending,
                          holder := match liveOf o.dones with | some a => some a | none => g.holder }
  | .err _ => g

/-- run a per-entry check along a trace; entries that break the caller protocol (a step
before the first reset or after `__all__`) end the obligation -/
def specLoop (chk : GSt → Entry α ω ι → Bool) : GSt → List (Entry α ω ι) → Bool
  | _, [] => true
  | g, e :: es =>
    match e.op with
    | .reset => chk g e && specLoop chk (gNext g e) es
    | .step _ => if !g.started || g.over then true else chk g e && specLoop chk (gNext g e) es

/-- who must be reported done before `__all__` follows from the agents alone -/
def participating (k : MKind) (n : Nat) (learning : Aid → Bool) : List Aid :=
  match k with
  | .dynamic => List.range n
  | _ => (List.range n).filter learning

def permOf [DecidableEq α] (a b : List (Aid × α)) : Bool :=
  a.length == b.length && a.all (fun x => a.count x == b.count x) && b.all (fun x => a.count x == b.count x)

/-- ledger clause: reported agents receive exactly what was pending after `sim.step` and are
left with nothing pending; unreported agents keep what was pending -/
def ledgerOk (n : Nat) (rewards : List (Aid × Int)) (accrued pendAfter : List Int) : Bool :=
  (List.range n).all fun a =>
    match rewards.lookup a with
    | some r => r == accrued.getD a 0 && pendAfter.getD a 0 == 0
    | none => pendAfter.getD a 0 == accrued.getD a 0

def c01Step [DecidableEq α] (k : MKind) (n : Nat) (learning : Aid → Bool) (shuffled : Bool)
    (g : GSt) (acts : List (Aid × α)) (e : Entry α ω ι) : Bool :=
  let blockedR := acts.any (fun p => decide (p.1 ∈ g.R))
  let blocked := acts.any (fun p => decide (p.1 ∈ g.R) || (k != .dynamic && !learning p.1))
  match e.res with
  | .resetOk _ => false
  | .err er =>
    -- a rejection: allowed only for a blocked action, and nothing reached the simulation
    decide (er = .rejected) && blocked && e.simArgs.isNone &&
      e.accrued == g.pend && e.ghost.pending == g.pend
  | .stepOk o =>
    let ks := keys o.obs
    let Rafter := g.R ++ newlyDone o.dones
    !blockedR &&
    -- same key set in all four dictionaries, each agent once
    keys o.rewards == ks && keys o.dones == ks && keys o.infos == ks && decide ks.Nodup &&
    -- only participating agents of the simulation are reported
    ks.all (fun a => decide (a ∈ participating k n learning)) &&
    -- when `__all__` is reported every participating agent not yet reported done gets its final report
    (!o.allDone || (participating k n learning).all (fun a => decide (a ∈ g.R) || decide (a ∈ ks))) &&
    -- nobody already reported done is reported again
    ks.all (fun a => decide (a ∉ g.R)) &&
    -- the accepted actions reached the simulation unchanged
    (match e.simArgs with
     | none => false
     | some args => if shuffled then permOf args acts else decide (args = acts)) &&
    -- `__all__`
    (o.allDone == (e.ghost.simAllDone ||
        (participating k n learning).all (fun a => decide (a ∈ Rafter)))) &&
    ledgerOk n o.rewards e.accrued e.ghost.pending

def c01Entry [DecidableEq α] (k : MKind) (n : Nat) (learning : Aid → Bool) (shuffled : Bool)
    (g : GSt) (e : Entry α ω ι) : Bool :=
  match e.op with
  | .reset => (match e.res with
               | .resetOk o => decide (keys o).Nodup && (keys o).all (fun a => decide (a < n))
               | _ => false)
  | .step acts => c01Step k n learning shuffled g acts e

def specC01 [DecidableEq α] (k : MKind) (n : Nat) (learning : Aid → Bool) (shuffled : Bool)
    (tr : List (Entry α ω ι)) : Bool :=
  specLoop (c01Entry k n learning shuffled) {} tr

/-! ## C07 -/

/-- the listing of learners rotated so that it starts just after `holder` -/
def rotAfter (learners : List Aid) (holder : Option Aid) : List Aid :=
  match holder with
  | none => learners
  | some h => rotate learners ((learners.idxOf h + 1) % learners.length)

/-- expected turn-based report: the agents that finish now between the previous holder and the
next live agent (in cyclic listing order, skipping those already reported), then that agent -/
def turnExpect (learners : List Aid) (g : GSt) (simDone : List Bool) :
    Option (List (Aid × Bool)) :=
  let rot := rotAfter learners g.holder
  let gone := fun a => decide (a ∈ g.R) || simDone.getD a false
  match rot.dropWhile gone with
  | [] => none
  | live :: _ =>
    some (((rot.takeWhile gone).filter (fun a => decide (a ∉ g.R))).map (fun a => (a, true)) ++ [(live, false)])

def nominatesLive (g : GSt) (gh : Ghost) : Bool :=
  gh.nominated.any (fun a => decide (a ∉ g.R) && !gh.simDone.getD a false)

def c07Entry (k : MKind) (n : Nat) (learning : Aid → Bool)
    (g : GSt) (e : Entry α ω ι) : Bool :=
  let learners := (List.range n).filter learning
  match e.op, e.res with
  | _, .err er => decide (er = .rejected)          -- every call returns: no hang, no crash
  | .reset, .resetOk o =>
    (match k with
     | .allStep => sameSet (keys o) learners
     | .turnBased => keys o == learners.take 1
     | .dynamic => sameSet (keys o) e.ghost.nominated) &&
    -- progress: somebody can act (dynamic manager: if the simulation nominated anybody;
    -- all-step manager: if there is a learning agent at all)
    (!(keys o).isEmpty || (k == .dynamic && e.ghost.nominated.isEmpty) ||
      (k == .allStep && learners.isEmpty))
  | .step _, .stepOk o =>
    o.allDone ||
    ((match k with
      | .allStep => sameSet (keys o.dones) (learners.filter (fun a => decide (a ∉ g.R)))
      | .turnBased => turnExpect learners g e.ghost.simDone == some o.dones
      | .dynamic => sameSet (keys o.dones) (e.ghost.nominated.filter (fun a => decide (a ∉ g.R)))) &&
     -- progress: some reported agent is not done (dynamic: under the documented contract)
     (o.dones.any (fun p => !p.2) || (k == .dynamic && !nominatesLive g e.ghost)))
  | .reset, .stepOk _ => false
  | .step _, .resetOk _ => false

def specC07 (k : MKind) (n : Nat) (learning : Aid → Bool) (tr : List (Entry α ω ι)) : Bool :=
  specLoop (c07Entry k n learning) {} tr

end Abmarl
