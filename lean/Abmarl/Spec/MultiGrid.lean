import Abmarl.Model.MultiGrid
import Abmarl.Spec.Examples
/-!
# Decidable judge for `MultiAgentGridSim` histories (`gexample` with configuration `(multigrid learning comp)`)

From the trace alone: every world after a `reset` that returned satisfies the C03 invariant `WInv`,
has the static part the simulation was built with, and everybody is alive (the class has no component
that could change health); `step` and the getters change nothing; every observation is the empty
dict and a member of the declared (empty `Dict`) space; every reward is 0; nobody is ever done; a call
that raises (only `reset` can) ends the trace.  `magPre` = the hypotheses of `multigrid_hist`.
-/
namespace Abmarl
namespace MAG
open World

def aliveb (w : World) : Bool := w.allAgents.all fun a => (w.stOf a).active

def judge1 (w0 : World) (j : World) (op : MOp) (e : MEntry) : Bool :=
  match e.res with
  | .err _ => (match op with | .reset _ _ => true | _ => false)
  | res =>
    match op with
    | .reset _ _ => (res == .unit) && e.w.WInv && Ex.frameb w0 e.w && aliveb e.w
    | .step _ => (res == .unit) && (e.w == j)
    | .obs _ => (res == .obs 0 true) && (e.w == j)
    | .rew _ => (res == .int 0) && (e.w == j)
    | .done _ => (res == .bool false) && (e.w == j)
    | .allDone => (res == .bool false) && (e.w == j)

def specFrom (w0 : World) : World → List (MOp × MEntry) → Bool
  | _, [] => true
  | j, (op, e) :: rest =>
    judge1 w0 j op e &&
    (match e.res with
     | .err _ => rest.isEmpty
     | _ => specFrom w0 e.w rest)

/-- **the judge** -/
def specMAG (w0 : World) (tr : List (MOp × MEntry)) : Bool := specFrom w0 w0 tr

/-- the placement state is one the theorems cover (well-formed options for the constructed world) -/
def compOKb (w0 : World) (c : StateComp) : Bool := c.isPosition && c.wfOn w0

/-- **the hypotheses of `multigrid_hist`**: the world as the constructors leave it, every reset with a
covered placement state -/
def magPre (w0 : World) (ops : List MOp) : Bool :=
  cfgOKb w0 && w0.vitalsAlive &&
  ops.all fun op =>
    match op with
    | .reset c _ => compOKb w0 c
    | _ => true

def zipOps : List MOp → List MEntry → List (MOp × MEntry)
  | op :: ops, e :: es => (op, e) :: zipOps ops es
  | _, _ => []

end MAG
end Abmarl
