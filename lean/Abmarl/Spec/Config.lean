import Abmarl.Model.Config
/-!
# Decidable specifications for C19

The judge (`Model/ConfigDriver.lean`) evaluates these on the *implementation's* outcome; the
theorems in `Props/C19.lean` show the model's outcome satisfies them.  None of them calls an
acceptance function of the model: each states the **documented rule** (docstrings, assertion
messages, the text of C19) as a classification of the supplied value

* `valid`      clearly well-formed: must be accepted,
* `malformed`  clearly malformed by the text of C19 (non-string ids, agent dictionaries whose keys
               differ from ids, reserved or non-integer encodings, out-of-range strengths,
               accuracies, ranges, healths and orientations, null points outside their space,
               mappings that mention encodings absent from the simulation; wrong container types):
               must be rejected, when supplied or at finalize/reset,
* `either`     borderline, the documentation does not decide: a number of the right value but not
               of the canonical Python type (`True` for `1`, `np.int64(3)`, `2.0`, a one-element
               array), encodings ≤ −3, negative ammunition, … — both outcomes satisfy the property;
               that the implementation keeps doing what the model does on these is the
               correspondence check's business, not the specification's.

No exception is left: the two findings this specification exposed — K19a (falsy null points were
not checked, repaired in fc3584a) and K2 (an integer Box accepted lists and numpy scalars after
truncation, repaired in 9e72b84) — are fixed, and the theorems hold for every modelled input.
-/
namespace Abmarl
namespace Cfg

inductive Doc where
  | valid | malformed | either
deriving DecidableEq, Repr, Inhabited

/-- `malformed` if some part is, `valid` if all parts are -/
def Doc.and : Doc → Doc → Doc
  | .malformed, _ => .malformed
  | _, .malformed => .malformed
  | .valid, .valid => .valid
  | _, _ => .either

def docAll : List Doc → Doc
  | [] => .valid
  | d :: ds => d.and (docAll ds)

/-- the number a value would be read as, if the documentation regards it as a number at all
(one-element arrays included: `np.array([2])`) -/
def numView : PyVal → Option Flt
  | .bool b => some (.fin (if b then 1 else 0))
  | .int i => some (.fin i)
  | .float f => some f
  | .npInt i => some (.fin i)
  | .npFloat f => some f
  | .ndarray _ _ [x] => some x
  | _ => none

/-- the integer a number is, if it is one -/
def wholeOf : Flt → Option Int
  | .fin q => if q.den = 1 then some q.num else none
  | _ => none

def intView (v : PyVal) : Option Int :=
  match numView v with
  | some x => wholeOf x
  | none => none

def canonInt : PyVal → Bool
  | .int _ => true
  | _ => false

def canonNum : PyVal → Bool
  | .int _ => true
  | .float _ => true
  | _ => false

/-- a numeric attribute: `ok` = the value is admissible, `good` = and unquestionably so;
`canon` = the value has the documented Python type -/
def docNum (canon : PyVal → Bool) (ok good : Flt → Bool) (v : PyVal) : Doc :=
  match numView v with
  | none => .malformed
  | some x => if !ok x then .malformed else if canon v && good x then .valid else .either

def wholeWhere (p : Int → Bool) (x : Flt) : Bool :=
  match wholeOf x with
  | some i => p i
  | none => false

def finWhere (p : Rat → Bool) : Flt → Bool
  | .fin q => p q
  | _ => false

def docOpt (d : PyVal → Doc) : PyVal → Doc
  | .none => .valid
  | v => d v

def docId : PyVal → Doc
  | .str _ => .valid
  | _ => .malformed

def docFlag : PyVal → Doc
  | .bool _ => .valid
  | v => match numView v with
    | some x => if x == .fin 0 || x == .fin 1 then .either else .malformed
    | none => .malformed

def docEncoding (v : PyVal) : Doc :=
  docNum canonInt (wholeWhere fun i => i != -2 && i != -1 && i != 0) (wholeWhere fun i => decide (1 ≤ i)) v

def docInitialPosition : PyVal → Doc
  | .none => .valid
  | .ndarray dt sh _ =>
    if sh == [2] then (if dt == .i64 || dt == .f64 then .valid else .either) else .malformed
  | .list [a, b] => if (numView a).isSome && (numView b).isSome then .either else .malformed
  | .tuple [a, b] => if (numView a).isSome && (numView b).isSome then .either else .malformed
  | _ => .malformed

def docRenderShape : PyVal → Doc
  | .str s => if ["o", "v", "^", "<", ">", "1", "2", "3", "4", "8", "s", "p", "P", "*", "h", "H",
                  "+", "x", "X", "D", "d"].contains s then .valid else .malformed
  | _ => .malformed

def docRenderColor : PyVal → Doc
  | .str _ => .valid
  | _ => .either

def docRange : PyVal → Doc
  | .str s => if s == "FULL" then .valid else .malformed
  | v => docNum canonInt (wholeWhere fun i => decide (0 ≤ i)) (fun _ => true) v

def unitOk : Flt → Bool := finWhere fun q => decide (0 ≤ q) && decide (q ≤ 1)

/-- the key is the agent's id (and the agent is a `GridWorldAgent` where that is required) -/
def docAgentEntry (gwOnly : Bool) (kv : PyVal × PyVal) : Bool :=
  match kv.2, kv.1 with
  | .agent gw id, .str s => (gw || !gwOnly) && s == id
  | _, _ => false

def docAgents (gwOnly : Bool) : PyVal → Doc
  | .dict items => if items.all (docAgentEntry gwOnly) then .valid else .malformed
  | _ => .malformed

/-- a key of an encoding mapping -/
def docEncKey (encs : List Int) : PyVal → Doc
  | .int i => if encs.contains i then .valid else .malformed
  | k => match intView k with
    | some i => if encs.contains i then .either else .malformed
    | none => .malformed

/-- the value side: an encoding or a set of encodings, all present in the simulation -/
def docEncTargets (encs : List Int) : PyVal → Doc
  | .int i => if encs.contains i then .valid else .malformed
  | .set elems => docAll (elems.map (docEncKey encs))
  | v => match intView v with
    | some i => if encs.contains i then .either else .malformed
    | none => .malformed

def docAttackEntry (encs : List Int) (kv : PyVal × PyVal) : Doc :=
  (docEncKey encs kv.1).and (docEncTargets encs kv.2)

def docAttackMapping (encs : List Int) : PyVal → Doc
  | .dict items => docAll (items.map (docAttackEntry encs))
  | _ => .malformed

/-- does a target value mention the encoding `k` itself (documented only in an assertion message:
"Agent cannot target its own encodings" — borderline for C19) -/
def selfTarget (k : PyVal) : PyVal → Bool
  | .set elems => elems.any fun e => (intView e).isSome && intView e == intView k
  | v => (intView v).isSome && intView v == intView k

def docTargetEncEntry (encs : List Int) (kv : PyVal × PyVal) : Doc :=
  if docAttackEntry encs kv == .valid && selfTarget kv.1 kv.2 then .either else docAttackEntry encs kv

def docTargetEncMapping (encs : List Int) : PyVal → Doc
  | .dict items => docAll (items.map (docTargetEncEntry encs))
  | _ => .malformed

def docIdEntry (ids : List String) (kv : PyVal × PyVal) : Bool :=
  match kv.1, kv.2 with
  | .str a, .str t => ids.contains a && ids.contains t
  | _, _ => false

def docTargetIdMapping (ids : List String) : PyVal → Doc
  | .dict items => if items.all (docIdEntry ids) then .valid else .malformed
  | _ => .malformed

def docEncSet (encs : List Int) : PyVal → Doc := docOpt (docEncTargets encs)

/-- the encodings a *valid* barrier/free value lists -/
def listed : PyVal → List Int
  | .int i => [i]
  | .set elems => elems.filterMap intView
  | _ => []

def docBarrierFree (encs : List Int) : PyVal → Doc
  | .tuple [bv, fv] =>
    match (docEncSet encs bv).and (docEncSet encs fv) with
    | .malformed => .malformed
    | .valid => if encs.all (fun e => (listed bv ++ listed fv).contains e) then .valid else .either
    | .either => .either
  | _ => .either

def docOverlapKey : PyVal → Doc
  | .int _ => .valid
  | k => if (intView k).isSome then .either else .malformed

def docOverlapVal : PyVal → Doc
  | .int _ => .valid
  | .set elems => docAll (elems.map docOverlapKey)
  | v => if (intView v).isSome then .either else .malformed

def docOverlapEntry (kv : PyVal × PyVal) : Doc := (docOverlapKey kv.1).and (docOverlapVal kv.2)

def docOverlapping : PyVal → Doc
  | .none => .valid
  | .dict items => docAll (items.map docOverlapEntry)
  | _ => .malformed

/-! ## Box membership by the documentation: "exactly the scalars, lists and arrays of matching
shape that lie within its bounds" -/

mutual
/-- the non-sequence elements of a nested list / tuple, left to right -/
def leaves : PyVal → List PyVal
  | .list l => leavesL l
  | .tuple l => leavesL l
  | v => [v]
def leavesL : List PyVal → List PyVal
  | [] => []
  | v :: vs => leaves v ++ leavesL vs
end

/-- shape of a sequence whose elements have the shapes `shs` (`none` = ragged) -/
def rectOf : List (Option (List Nat)) → Option (List Nat)
  | [] => some [0]
  | some sh :: rest => if rest.all (· == some sh) then some ((rest.length + 1) :: sh) else none
  | none :: _ => none

mutual
/-- the shape of a rectangular nesting (`none` = ragged); anything that is not a list or tuple is
a scalar of shape `()` -/
def rect : PyVal → Option (List Nat)
  | .list l => rectOf (rects l)
  | .tuple l => rectOf (rects l)
  | _ => some []
def rects : List PyVal → List (Option (List Nat))
  | [] => []
  | v :: vs => rect v :: rects vs
end

/-- the exact number a leaf is -/
def leafNum : PyVal → Option Flt
  | .bool b => some (.fin (if b then 1 else 0))
  | .int i => some (.fin i)
  | .float f => some f
  | .npInt i => some (.fin i)
  | .npFloat f => some f
  | _ => none

def isFloatLeaf : PyVal → Bool
  | .float _ => true
  | .npFloat _ => true
  | _ => false

def inBounds (b : BoxSp) : Flt → Bool
  | .fin q => decide (b.low ≤ q) && decide (q ≤ b.high)
  | _ => false

def wholeF : Flt → Bool
  | .fin q => q.den == 1
  | _ => false

/-- a plain Python number that unquestionably belongs to the box's element type and range -/
def goodLeaf (b : BoxSp) : PyVal → Bool
  | .int i => inI64 i && inBounds b (.fin i)
  | .float f => !b.isInt && inBounds b f
  | _ => false

/-- unquestionably a member -/
def mustAcceptBox (b : BoxSp) (v : PyVal) : Bool :=
  match v with
  | .int i => b.shape == [1] && inI64 i && inBounds b (.fin i)      -- a scalar is a 1-vector
  | .float f => !b.isInt && b.shape == [1] && inBounds b f
  | .npInt i => b.shape == [] && inBounds b (.fin i)              -- a numpy scalar is 0-dimensional
  | .npFloat f => !b.isInt && b.shape == [] && inBounds b f
  | .ndarray dt sh vals =>
    (if b.isInt then dt == .i64 || dt == .i32 else dt != .bool) && sh == b.shape && vals.all (inBounds b)
  | .list _ => rect v == some b.shape && (leaves v).all (goodLeaf b)
  | .tuple _ => rect v == some b.shape && (leaves v).all (goodLeaf b)
  | _ => false

/-- a leaf that rules membership out: a number outside the bounds (or `nan`/`inf`), a
non-integral float offered to an integer box, or something that is not a number at all
(strings and nested arrays are left undecided) -/
def badLeaf (b : BoxSp) (l : PyVal) : Bool :=
  match leafNum l with
  | some x => !inBounds b x || (b.isInt && isFloatLeaf l && !wholeF x)
  | none =>
    match l with
    | .str _ => false
    | .ndarray _ _ _ => false
    | _ => true

/-- unquestionably not a member -/
def mustRejectBox (b : BoxSp) (v : PyVal) : Bool :=
  match v with
  | .none => true
  | .set _ => true
  | .dict _ => true
  | .agent _ _ => true
  | .str _ => false
  | .ndarray dt sh vals =>
    sh != b.shape || vals.any (fun x => !inBounds b x) ||
      (b.isInt && (dt == .f64 || dt == .f32) && vals.any (fun x => !wholeF x))
  | .list _ =>
    (match rect v with
     | none => true
     | some sh => sh != b.shape || (leaves v).any (badLeaf b))
  | .tuple _ =>
    (match rect v with
     | none => true
     | some sh => sh != b.shape || (leaves v).any (badLeaf b))
  | v => !(b.shape == [] || b.shape == [1]) || badLeaf b v

def docBox (b : BoxSp) (v : PyVal) : Doc :=
  if mustAcceptBox b v then .valid else if mustRejectBox b v then .malformed else .either

/-- **C19, Box clause.** `out` is the observed answer of `x in box`. -/
def specBox (b : BoxSp) (v : PyVal) (out : BoxOut) : Bool :=
  match docBox b v with
  | .valid => out == .yes
  | .malformed => out != .yes          -- `False`, or an exception
  | .either => true

/-! ## Null points -/

def docInSpace (sp : Space) (v : PyVal) : Doc :=
  match sp with
  | .discrete n => docNum canonInt (wholeWhere fun i => decide (0 ≤ i) && decide (i < n)) (wholeWhere inI64) v
  | .box b => docBox b v

/-- a null point must be a member of the agent's space; `None` (stored as `{}`) means none given -/
def docNullPoint (sp : Space) : PyVal → Doc
  | .none => .valid                       -- no null point
  | .dict [] => .valid                    -- what `None` is stored as
  | v => docInSpace sp v

/-! ## The attribute specification -/

def docAttr (a : Attr) (c : Ctx) (v : PyVal) : Doc :=
  match a with
  | .id => docId v
  | .seed => docOpt (docNum canonInt (wholeWhere fun _ => true) (fun _ => true)) v
  | .active => docFlag v
  | .flag => docFlag v
  | .optFlag => docOpt docFlag v
  | .encoding => docEncoding v
  | .initialPosition => docInitialPosition v
  | .renderShape => docRenderShape v
  | .renderColor => docRenderColor v
  | .renderSize => docNum canonInt (wholeWhere fun i => decide (0 < i)) (fun _ => true) v
  | .health => docNum canonNum (fun _ => true) (fun _ => true) v
  | .initialHealth =>
    docOpt (docNum canonNum (finWhere fun q => decide (0 < q) && decide (q ≤ 1)) (fun _ => true)) v
  | .range => docRange v
  | .unit => docNum canonNum unitOk (fun _ => true) v
  | .simAttacks => docNum canonInt (wholeWhere fun i => decide (0 ≤ i)) (fun _ => true) v
  | .initialAmmo => docNum canonInt (wholeWhere fun _ => true) (wholeWhere fun i => decide (0 ≤ i)) v
  | .ammo => docNum canonInt (wholeWhere fun _ => true) (wholeWhere fun i => decide (0 ≤ i)) v
  | .orientation => docNum canonInt (wholeWhere fun i => decide (1 ≤ i) && decide (i ≤ 4)) (fun _ => true) v
  | .initialOrientation =>
    docOpt (docNum canonInt (wholeWhere fun i => decide (1 ≤ i) && decide (i ≤ 4)) (fun _ => true)) v
  | .nullPoint => docNullPoint c.space v
  | .agentsSim => docAgents false v
  | .agentsComp => docAgents true v
  | .attackMapping => docAttackMapping c.encs v
  | .targetEncMapping => docTargetEncMapping c.encs v
  | .targetIdMapping => docTargetIdMapping c.ids v
  | .encSet => docEncSet c.encs v
  | .barrierFree => docBarrierFree c.encs v
  | .gridDim => docNum canonInt (wholeWhere fun i => decide (0 < i)) (fun _ => true) v
  | .overlapping => docOverlapping v

/-- **C19, rejection clause.**  `out` is the observed outcome of supplying `v` for attribute `a`. -/
def specAccept (a : Attr) (c : Ctx) (v : PyVal) (out : Outcome) : Bool :=
  match docAttr a c v with
  | .valid => out == .accepted
  | .malformed => out == .rejAssign || out == .rejFinal
  | .either => true

/-! ## The overlap specification -/

/-- **C19, overlap clause** on an observed closed table and an observed availability matrix
(entries `(a, b, r)`: a cell holding one agent of encoding `b` is available to an agent of
encoding `a` iff `r`):
availability is symmetric, everything the user wrote is still there (in the stored table and in the
behaviour), and the stored table itself is symmetric. -/
def specOverlapSym (raw : RawTable) (closed : Table) (mat : List (Int × Int × Bool)) : Bool :=
  (mat.all fun e => mat.all fun e' => !(e'.1 == e.2.1 && e'.2.1 == e.1) || e'.2.2 == e.2.2) &&
  ((normalise raw).all fun kv => kv.2.all fun o => avail closed kv.1 o) &&
  ((normalise raw).all fun kv => kv.2.all fun o =>
      mat.all fun e => !(e.1 == kv.1 && e.2.1 == o) || e.2.2) &&
  (closed.all fun kv => kv.2.all fun o => avail closed o kv.1)

end Cfg
end Abmarl
