import Abmarl.Model.Builders
/-!
# Decidable specification for C18 (all builders produce the same simulation)

Nothing here looks at how the model computes: only the inputs (layout, registry, extra agents,
file text) and the observable outcomes (grid size, agents with encodings and initial positions,
positions after reset).

The documented rule, as an independent definition (`layoutAgents`): reading the layout row by
row, every entry whose character is registered yields one agent; the agent made for the entry
with flat index `i` is numbered by how many earlier entries hold the same character (so the k-th
occurrence gets number k, counted from 0, per character), has the registered encoding and the
initial position `(i / cols, i % cols)`; every other entry (reserved or unregistered) yields
nothing.  Extra agents are kept unless a layout agent has the same id (`keptExtras`).
The dictionary order of the outcome is *not* part of the property: outcomes are compared as
finite maps id ↦ (encoding, initial position).
-/
namespace Abmarl
namespace Builders

/-- the agents the layout prescribes, in reading order -/
def layoutAgents (reg : Registry) (cols : Nat) (cells : List Nat) : List Agent :=
  cells.zipIdx.filterMap fun p =>
    (reg.lookup p.1).map fun enc =>
      { id := .gen p.1 ((cells.take p.2).count p.1), enc := enc, ipos := some (p.2 / cols, p.2 % cols) }

/-- extra agents survive unless the layout produces an agent with the same id -/
def keptExtras (lay extras : List Agent) : List Agent :=
  extras.filter fun e => !(lay.any fun l => decide (l.id = e.id))

def expectedAgents (reg : Registry) (cols : Nat) (cells : List Nat) (extras : List Agent) : List Agent :=
  layoutAgents reg cols cells ++ keptExtras (layoutAgents reg cols cells) extras

def sameAgents (a b : List Agent) : Bool :=
  a.all (fun x => decide (x ∈ b)) && b.all (fun x => decide (x ∈ a))

def idsNodup (a : List Agent) : Bool := decide (a.map (·.id)).Nodup

/-- one builder's outcome is the simulation the layout prescribes -/
def specBuild (rows cols : Nat) (cells : List Nat) (reg : Registry) (extras : List Agent) :
    Except Err Sim → Bool
  | .error _ => false
  | .ok sim =>
    sim.rows == rows && sim.cols == cols && idsNodup sim.agents &&
      sameAgents (expectedAgents reg cols cells extras) sim.agents

/-- two builders produced the same simulation: same size, same agents (as finite maps
id ↦ encoding, initial position) -/
def specSame : Except Err Sim → Except Err Sim → Bool
  | .ok a, .ok b =>
    a.rows == b.rows && a.cols == b.cols && idsNodup a.agents && idsNodup b.agents &&
      sameAgents a.agents b.agents
  | _, _ => false

/-- after reset every layout agent stands where the layout put it; a failing reset is only
excusable by surviving extra agents (they may claim a layout cell or fill the grid) or by a
simulation without any agent -/
def specReset (reg : Registry) (cols : Nat) (cells : List Nat) (extras : List Agent) :
    Except Err (List (AId × Pos)) → Bool
  | .ok placed =>
    (layoutAgents reg cols cells).all fun l =>
      match l.ipos with
      | some p => decide ((l.id, p) ∈ placed)
      | none => false
  | .error _ =>
    (layoutAgents reg cols cells).isEmpty || !(keptExtras (layoutAgents reg cols cells) extras).isEmpty

/-- the documented empty markers: zero, period, underscore -/
def reservedChar (c : Nat) : Bool := c == 48 || c == 46 || c == 95

def regReserved (reg : Registry) : Bool := reg.any fun p => reservedChar p.1

def isReservedErr : Except Err Sim → Bool
  | .error .reservedKey => true
  | _ => false

/-- the file really holds the layout: one line per row, single spaces, optional final newline -/
def isRendering (rows cols : Nat) (cells text : List Nat) : Bool :=
  decide (text = render rows cols cells) || decide (text = render rows cols cells ++ [10])

/-- the clauses of C18, in a fixed order (the driver reports them one by one):
0. a registry that registers an empty marker is rejected by the array and file builders;
1.–4. the array / file / grid / direct outcome is the prescribed simulation;
5. the four outcomes are the same simulation;
6. after reset of the array-built simulation every layout agent is on its layout cell. -/
def specClauses (rows cols : Nat) (cells : List Nat) (reg : Registry) (extras : List Agent)
    (text : List Nat) (o : Outcomes) : List Bool :=
  let res := regReserved reg
  let sb := specBuild rows cols cells reg extras
  let isR := isRendering rows cols cells text
  [ !res || (isReservedErr o.array && isReservedErr o.file),
    (res && isReservedErr o.array) || sb o.array,
    !isR || (res && isReservedErr o.file) || sb o.file,
    sb o.grid,
    sb o.direct,
    (res && isReservedErr o.array) ||
      (specSame o.array o.grid && specSame o.array o.direct && (!isR || specSame o.array o.file)),
    match o.array with
    | .ok _ => specReset reg cols cells extras o.reset
    | .error _ => true ]

def specC18 (rows cols : Nat) (cells : List Nat) (reg : Registry) (extras : List Agent)
    (text : List Nat) (o : Outcomes) : Bool :=
  (specClauses rows cols cells reg extras text o).all id

/-- the grid that holds the given agents: a fresh grid, `reset()`, then every agent placed on its
initial position in listing order (what `Grid.place` appends to the cell's dictionary) -/
def gridOfAgents (rows cols : Nat) (as : List Agent) : GridCells :=
  (List.range (rows * cols)).map fun i =>
    some (as.filter fun a => decide (a.ipos = some (i / cols, i % cols)))

end Builders
end Abmarl
