import Abmarl.Spec.Observers
import Abmarl.Spec.Attacks
import Abmarl.Spec.Spaces
import Abmarl.Model.SuperAgent
import Abmarl.Model.Comm
/-!
# C02 — declared null points and wrapper layers (definitions, import-free)

Next to `Observers.declared` (the declared observation spaces, `Spec/Observers.lean`),
`MoveCall.inSpace` (`Spec/Grid.lean`) and `World.inSpace` (`Spec/Attacks.lean`) this file holds
what C02 adds:

* `Observers.nullObs` — the null observation each observer's constructor assigns under its key
  (`observer.py`: `-2 * np.ones(shape)` of the declared shape for the three grid views,
  `np.zeros((2,))` for the position, `0` for the ammunition);
* `nullMove` / `nullCross` / `nullDrift` / `nullAttack` — the null action each actor's
  constructor assigns (`actor.py`: `np.zeros((2,))`, `0`, `0`; Binary `0`, EncodingBased
  `{e: 0 for e in attackable}`, Selective `np.zeros((W, W))`, RestrictedSelective
  `np.zeros((simultaneous_attacks,))`);
* the four wrappers as transformations of one agent's `(declared space, observation)` pair over
  `Space` / `Pt` (`Model/Spaces.lean`):
  `MLayer.ravel` (`RavelDiscreteWrapper`: `ravel_space`, `ravel`), `MLayer.flatten`
  (`FlattenWrapper`: `flatten_space`, `flatten`; the flattened Box as a `Space` is
  `FlatBox.toSpace`), `commSpace` / `commPt` (`CommunicationHandshakeWrapper`:
  `{'obs': …, 'message_buffer': {other: Discrete(2)}}`), `superSpace` / `superPt`
  (`SuperAgentWrapper`: `{'mask': {c: MultiBinary(1)}, c: obs_c}`), and `stackRun`, a stack of
  unary layers applied one after the other.

A Python `bool` is a Python `int` (gymnasium's `Discrete.contains` / `MultiBinary.contains` accept
`False` / `[False]`), so the bits of a message buffer and of a mask are the integers 0 / 1.
Dict keys are abstract numbers here (`Model/Spaces.lean`); the two layers that add keys take them
as parameters and list them in the same order in the space and in the point.
-/
namespace Abmarl

/-! ## Null observations -/

namespace Observers
open World

/-- the null observation the observer of kind `k` assigns to a supported agent `a` -/
def nullObs (w : World) (a : Aid) : Kind → Obs
  | .absolute => .grid (tab w.rows w.cols fun _ _ => -2)
  | .centered _ =>
    .grid (tab (2*(w.cfgOf a).viewRange+1) (2*(w.cfgOf a).viewRange+1) fun _ _ => -2)
  | .stacked =>
    .stack (tab (2*(w.cfgOf a).viewRange+1) (2*(w.cfgOf a).viewRange+1) fun _ _ =>
      List.replicate (maxEnc w).toNat (-2))
  | .position => .vec (0, 0)
  | .ammo => .scalar 0

end Observers

/-! ## Null actions -/

def nullMove (a : Aid) : MoveCall := .move a (0, 0)
def nullCross (a : Aid) : MoveCall := .cross a 0
def nullDrift (a : Aid) : MoveCall := .drift a 0

open World in
/-- the null action the attack actor `cfg` assigns to the attacking agent `a` -/
def nullAttack (cfg : AttackCfg) (w : World) (a : Aid) : AttackAct :=
  match cfg.kind with
  | .binary => .count 0
  | .encoding => .perEnc (((cfg.mapping.lookup (w.encOf a)).getD []).map fun e => (e, 0))
  | .selective =>
    .grid (List.replicate ((2 * (w.cfgOf a).attackRange + 1) * (2 * (w.cfgOf a).attackRange + 1)) 0)
  | .restricted => .cells (List.replicate (w.cfgOf a).simAttacks 0)

/-! ## Wrapper layers over `Space` / `Pt` -/

/-- `ceil` through `floor` (only `Rat.floor` is needed) -/
def ratCeil (q : Rat) : Int := -(Rat.floor (-q))

/-- the flattened Box as a `Space`: a float Box when its dtype is float, otherwise the integer Box
with the same integer points (an integer lies in `[lo, hi]` iff it lies in `[⌈lo⌉, ⌊hi⌋]`) -/
def FlatBox.toSpace (b : FlatBox) : Space :=
  if b.kind = .f then .fbox [b.lo.length] b.lo b.hi
  else .box [b.lo.length] (b.lo.map ratCeil) (b.hi.map Rat.floor) (decide (b.kind = .i64))

/-- one wrapper, at one `get_obs` call, as a map on `(declared space, observation)` -/
structure MLayer where
  space : Space → Option Space
  point : Space → Pt → Option Pt

/-- `RavelDiscreteWrapper`: `ravel_space(space)`, `ravel(space, obs)` -/
def MLayer.ravel : MLayer :=
  { space := ravelSpace, point := fun s p => (Abmarl.ravel s p).map fun v => .scalar (.int v) }

/-- `FlattenWrapper`: `flatten_space(space)`, `flatten(space, obs)` -/
def MLayer.flatten : MLayer :=
  { space := fun s => (flattenSpace s).map FlatBox.toSpace,
    point := fun s p => (Abmarl.flatten s p).map .arr }

def bitPt (b : Bool) : Pt := .scalar (.int (if b then 1 else 0))
def bitArr (b : Bool) : Pt := .arr [.int (if b then 1 else 0)]

/-- `Dict({'message_buffer': Dict({other: Discrete(2)}), 'obs': inner})`; `kb`, `ko` are the two keys -/
def commSpace (kb ko : Nat) (oth : List Nat) (s : Space) : Space :=
  .dict [kb, ko] [.dict oth (oth.map fun _ => .discrete 2 0), s]

/-- `{'message_buffer': {other: bit}, 'obs': obs}` -/
def commPt (kb ko : Nat) (buffer : List (Nat × Bool)) (p : Pt) : Pt :=
  .dict [kb, ko] [.dict (buffer.map (·.1)) (buffer.map fun q => bitPt q.2), p]

/-- `CommunicationHandshakeWrapper` for one agent at one call (`oth` = the other agents, `buffer` =
its row of the message buffer) -/
def MLayer.comm (kb ko : Nat) (oth : List Nat) (buffer : List (Nat × Bool)) : MLayer :=
  { space := fun s => some (commSpace kb ko oth s), point := fun _ p => some (commPt kb ko buffer p) }

/-- the wrapped observation of the model of C20 as a point -/
def commPtOf (kb ko : Nat) (o : CObs Pt) : Pt := commPt kb ko o.buffer o.obs

/-- `Dict({'mask': Dict({c: MultiBinary(1)}), c: space_c …})`; `km` is the key of the mask -/
def superSpace (km : Nat) (cov : List Nat) (sp : Nat → Space) : Space :=
  .dict (km :: cov) (.dict cov (cov.map fun _ => .multiBinary 1) :: cov.map sp)

/-- `{'mask': {c: [bit]}, c: obs_c …}` -/
def superPt (km : Nat) (mask : List (Nat × Bool)) (obs : List (Nat × Pt)) : Pt :=
  .dict (km :: obs.map (·.1)) (.dict (mask.map (·.1)) (mask.map fun q => bitArr q.2) :: obs.map (·.2))

/-- the super observation of the model of C14 as a point (an uncovered agent's observation is
handed through) -/
def superPtOf (km : Nat) : SObs Pt → Pt
  | .plain p => p
  | .super mask obs => superPt km mask obs

/-- a stack of unary layers, innermost first: each layer reads the space declared by the one below -/
def stackRun : List MLayer → Space → Pt → Option (Space × Pt)
  | [], s, p => some (s, p)
  | L :: Ls, s, p =>
    match L.space s, L.point s p with
    | some s', some p' => stackRun Ls s' p'
    | _, _ => none

/-- a layer keeps membership on the spaces `dom` accepts -/
def MLayer.Sound (L : MLayer) (dom : Space → Prop) : Prop :=
  ∀ s p, dom s → mem s p = true →
    ∃ s' p', L.space s = some s' ∧ L.point s p = some p' ∧ mem s' p' = true

/-- every layer of the stack meets a space of its domain -/
def stackDom : List (MLayer × (Space → Prop)) → Space → Prop
  | [], _ => True
  | (L, dom) :: Ls, s => dom s ∧ ∀ s', L.space s = some s' → stackDom Ls s'

end Abmarl
