import Abmarl.Model.Observers
import Abmarl.Spec.Mask
import Abmarl.Spec.Grid
/-!
# Decidable specification for C09 (the five built-in grid observers)

Written from the property text, cell by cell, over the *inputs* (world, agent, option) and the
*observable outcome* (the observation) only — no model function of `Model/Observers.lean` is
called (only the type `Obs` of observations and the world accessors are shared):

* a cell is **hidden** iff some blocking, active agent within the view window has it in its
  shadow by the documented rule `Mask.hiddenSpec` of C10 (`hiddenFrom`; it ranges over *all*
  agents of the simulation — an agent standing on the viewer's cell, the viewer included, has no
  direction and no shadow: `Mask.blocker_on_viewer_ignored`);
* **centred views** (window `(2R+1)²`, entry `[i, j]` is the cell `pos + (i−R, j−R)`):
  −2 ⇔ hidden; −1 ⇔ visible and outside the grid; 0 ⇔ visible, inside, and no *reportable*
  occupant (all occupants, or all occupants except the observer when `observe_self` is off);
  any other value is the encoding of some reportable occupant of exactly that cell;
* **absolute view** (array `rows × cols`, entry `[gi, gj]` **is** the grid cell `(gi, gj)`; its
  offset from the observer is `(gi − r, gj − c)`): −2 ⇔ masked = outside the view window or
  hidden; −1 ⇔ not masked and the observer is among the occupants of the cell; 0 ⇔ not masked
  and empty; any other value is the encoding of an occupant *other than the observer*.
  "Own cell" is deliberately "the observer is among the occupants": a **dead** observer (asked for
  one last observation) is on no cell and sees no −1 (`absolute_dead_observer_no_minus_one` in
  `Props/C09.lean`), an active one sees it exactly at its position (`absolute_own_cell`);
* **stacked view** (shape `(2R+1, 2R+1, E)`, `E` = largest encoding in the simulation): entry
  `[i, j, e]` is −2 ⇔ hidden, −1 ⇔ visible and outside the grid, and otherwise **equals** the
  number of occupants of the cell whose encoding is `e + 1` (the observer counts like everybody
  else) — uniformly in `e` for the two markers;
* position observer: the agent's `pos`; ammunition observer: the agent's `ammo`;
* an agent the observer does not support gets `{}` (`Obs.unsupported`).

`declared*` are the declared observation spaces (`Box(-2, max encoding, shape)`,
`Box(-2, number of agents, shape)`, `Box([0,0],[rows-1,cols-1])`, `Box(0, initial_ammo, (1,))`);
they are C02's clause, proved here as consequences of the specification and evaluated by the
driver on both outcomes.
-/
namespace Abmarl
namespace Observers
open World

/-! ## Arrays -/

/-- `g` is an `n × m` array every entry `[i, j]` of which satisfies `p i j` -/
def specTab {β : Type} (n m : Nat) (p : Nat → Nat → β → Bool) (g : List (List β)) : Bool :=
  (g.length == n) &&
  (List.range n).all fun i =>
    match g[i]? with
    | none => false
    | some row =>
      (row.length == m) &&
      (List.range m).all fun j =>
        match row[j]? with
        | none => false
        | some v => p i j v

/-! ## Hidden cells (C10's rule, over the agents of the world) -/

/-- offset of agent `b` from the observer `a` -/
def offsetOf (w : World) (a b : Aid) : Pos :=
  ((w.stOf b).pos.1 - (w.stOf a).pos.1, (w.stOf b).pos.2 - (w.stOf a).pos.2)

/-- the cell at offset `(r, c)` from the observer is hidden behind a blocking agent -/
def hiddenFrom (w : World) (a : Aid) (R : Nat) (r c : Int) : Bool :=
  w.allAgents.any fun b =>
    (w.cfgOf b).blocking && (w.stOf b).active &&
    Mask.inWin R (offsetOf w a b).1 && Mask.inWin R (offsetOf w a b).2 &&
    Mask.hiddenSpec (offsetOf w a b).1 (offsetOf w a b).2 r c

/-! ## One cell -/

/-- centred view, one cell: `rep` = the reportable occupants of the cell (`[]` outside the grid) -/
def cenCellOK (w : World) (hidden inG : Bool) (rep : List Aid) (v : Int) : Bool :=
  ((v == -2) == hidden) &&
  ((v == -1) == (!hidden && !inG)) &&
  ((v == 0) == (!hidden && inG && rep.isEmpty)) &&
  (v == -2 || v == -1 || v == 0 || rep.any fun b => w.encOf b == v)

/-- absolute view, one grid cell with occupants `occ` -/
def absCellOK (w : World) (a : Aid) (masked : Bool) (occ : List Aid) (v : Int) : Bool :=
  ((v == -2) == masked) &&
  ((v == -1) == (!masked && occ.contains a)) &&
  ((v == 0) == (!masked && occ.isEmpty)) &&
  (v == -2 || v == -1 || v == 0 || occ.any fun b => b != a && w.encOf b == v)

/-- stacked view, one entry: layer `e` is about encoding `e + 1` -/
def stkCellOK (w : World) (hidden inG : Bool) (occ : List Aid) (e : Nat) (v : Int) : Bool :=
  ((v == -2) == hidden) &&
  ((v == -1) == (!hidden && !inG)) &&
  (hidden || !inG || v == ((occ.countP fun b => w.encOf b == (e : Int) + 1 : Nat) : Int))

/-! ## The five judges -/

/-- grid coordinate of entry `[i, j]` of a window of range `R` centred on `p` -/
def winPos (p : Pos) (R : Nat) (i j : Nat) : Pos := (p.1 + ((i : Int) - (R : Int)), p.2 + ((j : Int) - (R : Int)))

/-- occupants that may be reported from the in-grid cell `q` -/
def reportable (w : World) (a : Aid) (observeSelf : Bool) (q : Pos) : List Aid :=
  if observeSelf then w.cell q else (w.cell q).filter fun b => b != a

def specCentered (w : World) (a : Aid) (observeSelf : Bool) (o : Obs) : Bool :=
  if (w.cfgOf a).observing then
    match o with
    | .grid g =>
      let R := (w.cfgOf a).viewRange
      let p := (w.stOf a).pos
      specTab (2*R+1) (2*R+1) (fun i j v =>
        let q := winPos p R i j
        cenCellOK w (hiddenFrom w a R ((i : Int) - (R : Int)) ((j : Int) - (R : Int))) (w.inGrid q)
          (if w.inGrid q then reportable w a observeSelf q else []) v) g
    | _ => false
  else o == .unsupported

def specAbsolute (w : World) (a : Aid) (o : Obs) : Bool :=
  if (w.cfgOf a).observing then
    match o with
    | .grid g =>
      let R := (w.cfgOf a).viewRange
      let p := (w.stOf a).pos
      specTab w.rows w.cols (fun gi gj v =>
        let r : Int := (gi : Int) - p.1
        let c : Int := (gj : Int) - p.2
        absCellOK w a (!(Mask.inWin R r && Mask.inWin R c) || hiddenFrom w a R r c)
          (w.cell ((gi : Int), (gj : Int))) v) g
    | _ => false
  else o == .unsupported

/-- the largest encoding of the simulation, read off the agents (`none` if there is no agent) -/
def topEnc (w : World) : Option Int :=
  w.cfg.foldl (fun m c => match m with
    | none => some c.enc
    | some x => some (if x < c.enc then c.enc else x)) none

def specStacked (w : World) (a : Aid) (o : Obs) : Bool :=
  if (w.cfgOf a).observing then
    match o, topEnc w with
    | .stack g, some E =>
      let R := (w.cfgOf a).viewRange
      let p := (w.stOf a).pos
      specTab (2*R+1) (2*R+1) (fun i j layers =>
        let q := winPos p R i j
        (layers.length == E.toNat) &&
        (List.range E.toNat).all fun e =>
          match layers[e]? with
          | none => false
          | some v =>
            stkCellOK w (hiddenFrom w a R ((i : Int) - (R : Int)) ((j : Int) - (R : Int))) (w.inGrid q)
              (if w.inGrid q then w.cell q else []) e v) g
    | _, _ => false
  else o == .unsupported

def specPosition (w : World) (a : Aid) (o : Obs) : Bool :=
  if (w.cfgOf a).observing then o == .vec (w.stOf a).pos else o == .unsupported

def specAmmo (w : World) (a : Aid) (o : Obs) : Bool :=
  if (w.cfgOf a).hasAmmo && (w.cfgOf a).observing then o == .scalar (w.stOf a).ammo
  else o == .unsupported

/-- **C09** judged on the outcome of one `get_obs` call (an exception is never acceptable) -/
def specC09 (w : World) (a : Aid) (k : Kind) (out : Except GErr Obs) : Bool :=
  match out with
  | .error _ => false
  | .ok o =>
    match k with
    | .absolute => specAbsolute w a o
    | .centered os => specCentered w a os o
    | .stacked => specStacked w a o
    | .position => specPosition w a o
    | .ammo => specAmmo w a o

/-! ## Declared observation spaces (C02's clause for the observers) -/

def inBox2 (lo hi : Int) (n m : Nat) (g : List (List Int)) : Bool :=
  specTab n m (fun _ _ v => decide (lo ≤ v) && decide (v ≤ hi)) g

def declared (w : World) (a : Aid) (k : Kind) (o : Obs) : Bool :=
  match o with
  | .unsupported => true
  | .grid g =>
    (match k, topEnc w with
     | .absolute, some E => inBox2 (-2) E w.rows w.cols g
     | .centered _, some E => inBox2 (-2) E (2*(w.cfgOf a).viewRange+1) (2*(w.cfgOf a).viewRange+1) g
     | _, _ => false)
  | .stack g =>
    (match k, topEnc w with
     | .stacked, some E =>
       specTab (2*(w.cfgOf a).viewRange+1) (2*(w.cfgOf a).viewRange+1)
         (fun _ _ layers => (layers.length == E.toNat) &&
            layers.all fun v => decide (-2 ≤ v) && decide (v ≤ (w.n : Int))) g
     | _, _ => false)
  | .vec p =>
    (match k with
     | .position => decide (0 ≤ p.1) && decide (p.1 ≤ (w.rows : Int) - 1) &&
                    decide (0 ≤ p.2) && decide (p.2 ≤ (w.cols : Int) - 1)
     | _ => false)
  | .scalar v =>
    (match k with
     | .ammo => decide (0 ≤ v) && decide (v ≤ (w.cfgOf a).initAmmo)
     | _ => false)

end Observers
end Abmarl
