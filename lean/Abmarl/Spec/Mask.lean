/-!
# Decidable specification for C10 (the shadow of a blocking agent)

Orientation-free: the rule is written once, with the signs `sr = sign rd`, `sc = sign cd` of the
blocker's offset, not as eight cases.  All coordinates are offsets from the viewer's cell
(rows, columns); to stay in the integers every centre/corner coordinate is **doubled**: the
blocker's cell has centre `(2rd, 2cd)` and corners `(2rd ± 1, 2cd ± 1)`, a cell centre is
`(2r, 2c)`, and the viewer's centre is the origin.

`cross a b r c = a·c − b·r` is (half of) the cross product of the ray through the corner
`(a, b)` with the centre of the cell `(r, c)`: positive on one side of the ray, negative on the
other, **zero exactly when the centre lies on the ray**.

A cell `(r, c)` is hidden by a blocker at `(rd, cd)` iff
* the blocker is not on the viewer's own cell (it has no direction, so it has no shadow),
* the cell is not the blocker's cell,
* the cell is at least as far as the blocker along each non-zero direction
  (`sr·rd ≤ sr·r`, `sc·cd ≤ sc·c`; a zero sign makes the clause trivial), and
* its centre lies strictly between the two rays through the outermost corners of the blocker's
  cell as seen from the viewer: the two cross products have **strictly opposite signs**.
  The outermost corners are `(2rd+sr, 2cd−sc)` and `(2rd−sr, 2cd+sc)` for a diagonal offset
  and the two *near* corners when the blocker is on an axis.

This file imports nothing (the driver evaluates `specMask` on the implementation's mask).
-/
namespace Abmarl
namespace Mask

/-- side of the ray through the (doubled) point `(a, b)` on which the centre of `(r, c)` lies -/
def cross (a b r c : Int) : Int := a*c - b*r

/-- strictly opposite signs (neither is zero) -/
def oppSigns (x y : Int) : Bool :=
  (decide (x < 0) && decide (0 < y)) || (decide (0 < x) && decide (y < 0))

/-- the two corners (doubled coordinates) of the blocker's cell whose rays bound its shadow -/
def corners (rd cd : Int) : (Int × Int) × (Int × Int) :=
  if rd = 0 then ((2*rd+1, 2*cd-cd.sign), (2*rd-1, 2*cd-cd.sign))          -- in the viewer's row: near corners
  else if cd = 0 then ((2*rd-rd.sign, 2*cd+1), (2*rd-rd.sign, 2*cd-1))     -- in the viewer's column: near corners
  else ((2*rd+rd.sign, 2*cd-cd.sign), (2*rd-rd.sign, 2*cd+cd.sign))        -- diagonal: outermost corners

/-- the documented rule: is `(r, c)` in the shadow of a blocker at `(rd, cd)`? -/
def hiddenSpec (rd cd r c : Int) : Bool :=
  !(decide (rd = 0) && decide (cd = 0)) &&
  !(decide (r = rd) && decide (c = cd)) &&
  decide (rd.sign * rd ≤ rd.sign * r) &&
  decide (cd.sign * cd ≤ cd.sign * c) &&
  oppSigns (cross (corners rd cd).1.1 (corners rd cd).1.2 r c)
           (cross (corners rd cd).2.1 (corners rd cd).2.2 r c)

/-- within the range window: `-R ≤ x ≤ R` -/
def inWin (R : Nat) (x : Int) : Bool := decide (-(R : Int) ≤ x) && decide (x ≤ (R : Int))

/-- "some active blocking agent within range has the cell in its shadow";
a blocker is `(rd, cd, blocking, active)` -/
def hiddenBySpec (R : Nat) (bs : List (Int × Int × Bool × Bool)) (r c : Int) : Bool :=
  bs.any fun b => b.2.2.1 && b.2.2.2 && inWin R b.1 && inWin R b.2.1 && hiddenSpec b.1 b.2.1 r c

/-- entry `(i, j)` of a table given as a list of rows -/
def cellAt (t : List (List Bool)) (i j : Nat) : Option Bool := (t[i]?).bind (·[j]?)

/-- entry of a `(2R+1)²` mask at the offset `(r, c)` from the viewer (`true` = visible) -/
def visibleAt (R : Nat) (t : List (List Bool)) (r c : Int) : Option Bool :=
  cellAt t (r + (R : Int)).toNat (c + (R : Int)).toNat

/-- the judge: `out` is a `(2R+1) × (2R+1)` table (rows of `true` = visible / `false` = hidden)
and every cell is hidden exactly when some active blocking agent within range has it in its
shadow -/
def specMask (R : Nat) (bs : List (Int × Int × Bool × Bool)) (out : List (List Bool)) : Bool :=
  out.length == 2*R+1 && out.all (fun row => row.length == 2*R+1) &&
  (List.range (2*R+1)).all fun i => (List.range (2*R+1)).all fun j =>
    cellAt out i j == some (!(hiddenBySpec R bs ((i : Int) - (R : Int)) ((j : Int) - (R : Int))))

end Mask
end Abmarl
