import Abmarl.Model.Attacks
import Abmarl.Spec.Grid
import Abmarl.Spec.Mask
/-!
# Decidable specification for C11 (the four attack actors)

Written from the property text, not from the code: it reads only the constructor arguments of
the actor (`AttackCfg`), the world before the call, the attacker, the action, the returned list
of attacked agents ("hits", in order, with repetitions) and the world after the call.  It never
looks at the cell table to find out who can be attacked: eligibility is decided from the agents'
own positions, flags and encodings and from the documented shadow rule of C10
(`Mask.hiddenBySpec`).

Clauses (names of the parts in brackets):

* **who** [`specWho`] every hit is a real agent that is *eligible*: another agent, currently
  active, of an encoding the attack mapping allows for the attacker's encoding, at an offset
  within the attack range in both directions, on a cell that no active blocking agent hides;
  and it belongs to a *group* the action addresses with a positive count — for the cell-directed
  actors the group is the window cell it stands on: cell number `k ≥ 1` means row `(k−1) / W`,
  column `(k−1) % W` of the `W × W` window (`W = 2R+1`, rows and columns counted from the top
  left), the Selective actor's array is read row-major (`act[row·W + col]`);
* **how many** [`specHowMany`] per group (Binary: one group, all agents, limit = the action;
  EncodingBased: one group per item of the action, limit = its count; Selective: one group per
  window cell, limit = the cell's count; RestrictedSelective: one group per window cell, limit =
  the number of entries naming it) the number of hits is at most the limit and at most
  `simultaneous_attacks`; Binary and Restricted hit at most `simultaneous_attacks` agents in
  total; no agent is hit twice unless attacks are stacked; with accuracy 1 the group's count is
  exactly `min limit eligible` when not stacked and exactly `limit` when stacked and somebody is
  eligible — provided the ammunition suffices for the sum `T` of these numbers — and the total
  is `min ammunition T` in any case;
* **bookkeeping** [`specBook`] an ammunition agent has at least as much ammunition as there are
  hits and loses exactly that many; nothing else about the attacker changes; an agent hit `m ≥ 1`
  times ends with the health `healthAfter h s m` and is active iff that is positive, nothing
  else about it changes; an agent that is not hit does not change; every cell keeps its
  occupants, in order, except the victims that are now inactive; the static part is untouched.

`healthAfter h s m` applies `m` times "if still alive, lower the health by exactly the strength,
clamped to [0, 1]": **the hits a victim takes while alive count, a hit on a victim that an earlier
hit of the same call already killed changes nothing** (the code skips it; it is still listed
among the hits and still costs ammunition).  For `0 ≤ s` and `0 ≤ h ≤ 1` this is
`max 0 (h − m·s)` (`healthAfter_eq`, Props/C11.lean).
-/
namespace Abmarl
namespace World

/-- offset (rows, columns) of `b` from `a` -/
def offs (w : World) (a b : Aid) : Int × Int :=
  ((w.stOf b).pos.1 - (w.stOf a).pos.1, (w.stOf b).pos.2 - (w.stOf a).pos.2)

/-- every agent as a potential blocker seen from `a`: offset, blocking flag, active flag -/
def specBlockers (w : World) (a : Aid) : List (Int × Int × Bool × Bool) :=
  w.allAgents.map fun b => ((w.offs a b).1, (w.offs a b).2, (w.cfgOf b).blocking, (w.stOf b).active)

/-- the attack mapping allows an agent of `a`'s encoding to attack an agent of `b`'s encoding -/
def mayAttack (mapping : List (Int × List Int)) (w : World) (a b : Aid) : Bool :=
  match mapping.lookup (w.encOf a) with
  | some s => decide (w.encOf b ∈ s)
  | none => false

/-- `b` can be attacked by `a` in world `w` -/
def eligible (cfg : AttackCfg) (w : World) (a b : Aid) : Bool :=
  let R := (w.cfgOf a).attackRange
  (b != a) && (w.stOf b).active && mayAttack cfg.mapping w a b &&
  Mask.inWin R (w.offs a b).1 && Mask.inWin R (w.offs a b).2 &&
  !Mask.hiddenBySpec R (w.specBlockers a) (w.offs a b).1 (w.offs a b).2

/-- row / column of `b`'s cell in `a`'s attack window, counted from the top left -/
def winRow (w : World) (a b : Aid) : Nat := ((w.offs a b).1 + ((w.cfgOf a).attackRange : Int)).toNat
def winCol (w : World) (a b : Aid) : Nat := ((w.offs a b).2 + ((w.cfgOf a).attackRange : Int)).toNat

/-- the cell number `k` names row `i`, column `j` of a window of width `W`: `k ≥ 1`, row
`(k−1) / W`, column `(k−1) % W` — row by row from the top left -/
def names (W k i j : Nat) : Bool := decide (1 ≤ k) && ((k - 1) / W == i) && ((k - 1) % W == j)

/-- a set of agents the action addresses together with the number of attacks it spends there -/
structure Group where
  mem : Aid → Bool
  lim : Nat

def windowIdx (W : Nat) : List (Nat × Nat) :=
  (List.range W).flatMap fun i => (List.range W).map fun j => (i, j)

/-- the groups of an action -/
def attackGroups (cfg : AttackCfg) (w : World) (a : Aid) (act : AttackAct) : List Group :=
  let W := 2 * (w.cfgOf a).attackRange + 1
  match cfg.kind, act with
  | .binary, .count k => [⟨fun _ => true, k⟩]
  | .encoding, .perEnc l => l.map fun p => ⟨fun b => w.encOf b == p.1, p.2⟩
  | .selective, .grid l =>
    (windowIdx W).map fun ij => ⟨fun b => w.winRow a b == ij.1 && w.winCol a b == ij.2, l.getD (ij.1 * W + ij.2) 0⟩
  | .restricted, .cells l =>
    (windowIdx W).map fun ij =>
      ⟨fun b => w.winRow a b == ij.1 && w.winCol a b == ij.2, l.countP fun k => names W k ij.1 ij.2⟩
  | _, _ => []

/-- the action is a point of the action space the actor assigned to `a` (and the mapping has a
row for `a`'s encoding: without one `EncodingBasedAttackActor` cannot even be constructed and
the other three raise `KeyError` on the first candidate) -/
def inSpace (cfg : AttackCfg) (w : World) (a : Aid) (act : AttackAct) : Bool :=
  let c := w.cfgOf a
  let W := 2 * c.attackRange + 1
  match cfg.mapping.lookup (w.encOf a) with
  | none => false
  | some s =>
    match cfg.kind, act with
    | .binary, .count k => decide (k ≤ c.simAttacks)
    | .encoding, .perEnc l =>
      decide (l.map (·.1)).Nodup && l.all (fun p => decide (p.1 ∈ s) && decide (p.2 ≤ c.simAttacks)) &&
      s.all (fun e => l.any (fun p => p.1 == e))
    | .selective, .grid l => (l.length == W * W) && l.all (fun k => decide (k ≤ c.simAttacks))
    | .restricted, .cells l => (l.length == c.simAttacks) && l.all (fun k => decide (k ≤ W * W))
    | _, _ => false

/-- number of hits a group receives when nobody is skipped -/
def expected (stacked : Bool) (lim E : Nat) : Nat :=
  if stacked then (if E = 0 then 0 else lim) else min lim E

/-- one hit on a victim of health `h` with strength `s`: only a living victim is affected -/
def hitOnce (h s : Rat) : Rat := if 0 < h then min (max (h - s) 0) 1 else h

/-- `m` hits in a row -/
def healthAfter (h s : Rat) : Nat → Rat
  | 0 => h
  | m + 1 => healthAfter (hitOnce h s) s m

/-- **who** is hit -/
def specWho (cfg : AttackCfg) (w : World) (a : Aid) (act : AttackAct) (hits : List Aid) : Bool :=
  hits.all fun b =>
    decide (b < w.n) && eligible cfg w a b &&
    (attackGroups cfg w a act).any fun g => g.mem b && decide (0 < g.lim)

/-- **how many** are hit -/
def specHowMany (cfg : AttackCfg) (w : World) (a : Aid) (act : AttackAct) (hits : List Aid) : Bool :=
  let c := w.cfgOf a
  let elig := w.allAgents.filter (eligible cfg w a)
  let gs := attackGroups cfg w a act
  let acc1 := decide (1 ≤ c.accuracy)
  let T := (gs.map fun g => expected cfg.stacked g.lim (elig.countP g.mem)).sum
  let enough := !c.hasAmmo || decide ((T : Int) ≤ (w.stOf a).ammo)
  gs.all (fun g =>
    decide (hits.countP g.mem ≤ g.lim) && decide (hits.countP g.mem ≤ c.simAttacks) &&
    (!(acc1 && enough) || hits.countP g.mem == expected cfg.stacked g.lim (elig.countP g.mem))) &&
  (match cfg.kind with
   | .binary | .restricted => decide (hits.length ≤ c.simAttacks)
   | _ => true) &&
  (cfg.stacked || decide hits.Nodup) &&
  (!acc1 || hits.length == (if c.hasAmmo then min (w.stOf a).ammo.toNat T else T))

/-- **bookkeeping** -/
def specBook (w : World) (a : Aid) (hits : List Aid) (w' : World) : Bool :=
  let c := w.cfgOf a
  sameStatic w w' &&
  -- ammunition: enough for every hit, and exactly that many less
  (if c.hasAmmo then
     decide ((hits.length : Int) ≤ (w.stOf a).ammo) &&
     (w'.stOf a == { w.stOf a with ammo := (w.stOf a).ammo - (hits.length : Int) })
   else w'.stOf a == w.stOf a) &&
  -- everybody else
  w.allAgents.all (fun b => b == a ||
    (if hits.count b == 0 then w'.stOf b == w.stOf b
     else
       w'.stOf b == { w.stOf b with
         health := healthAfter (w.stOf b).health c.strength (hits.count b),
         active := decide (0 < healthAfter (w.stOf b).health c.strength (hits.count b)) })) &&
  -- the cells: victims that are now inactive have left, nothing else moved
  w.allCells.all (fun i =>
    w'.cells.getD i [] == (w.cells.getD i []).filter fun b => !(decide (b ∈ hits) && !(w'.stOf b).active))

/-- **C11** on one call: hits `hits`, world `w'` afterwards -/
def AttackSpec (cfg : AttackCfg) (w : World) (a : Aid) (act : AttackAct) (hits : List Aid) (w' : World) : Bool :=
  if (w.cfgOf a).attacking then
    specWho cfg w a act hits && specHowMany cfg w a act hits && specBook w a hits w'
  else hits.isEmpty && (w' == w)          -- an agent that cannot attack hits nobody, changes nothing

/-- the hypotheses of the C11 theorems, as the judge evaluates them -/
def attackPre (cfg : AttackCfg) (w : World) (a : Aid) (act : AttackAct) : Bool :=
  w.WInv && decide (a < w.n) && (w.stOf a).active && inSpace cfg w a act

end World

open World in
/-- **C11** judged on the outcome of a call (status, hits, post-world): inside the hypotheses no
action may raise and the outcome must satisfy `AttackSpec` -/
def specC11 (cfg : AttackCfg) (w : World) (a : Aid) (act : AttackAct)
    (o : Except GErr ((Bool × List Aid) × World)) : Bool :=
  !attackPre cfg w a act ||
  (match o with
   | .ok ((_, hits), w') => AttackSpec cfg w a act hits w'
   | .error _ => false)

open World in
/-- **C03** judged on the outcome of an attack: a consistent world stays consistent; a call may
only raise for an action outside the action space -/
def specC03Attack (cfg : AttackCfg) (w : World) (a : Aid) (act : AttackAct)
    (o : Except GErr ((Bool × List Aid) × World)) : Bool :=
  !w.WInv ||
  (match o with
   | .ok (_, w') => w'.WInv
   | .error _ => !attackPre cfg w a act)

end Abmarl
