import Abmarl.Model.Reach
import Abmarl.Spec.Examples
/-!
# Decidable judge for `ReachTheTargetSim` histories (`gexample` with configuration `(reach …)`)

As `Ex.specEx` (Spec/Examples.lean), with the differences of the class:

* the world after a `reset` satisfies the whole invariant `WInv` (everybody is revived by
  `HealthState`), the world after a `step` only `WInvWeak` (a runner that reached the target is taken
  off the grid and deactivated by hand, its health stays positive);
* the done getters return the class's own rule (`RT.doneW`, `RT.onlyLeft`) on the dumped world;
* **a `step` that must not raise** (`stepMustNotRaise`) — every item a point of the declared action space of a
  learning agent of the simulation (alive or not), distinct keys, a world satisfying `WInvWeak`, a reward entry for every
  learning agent: nothing else (since the repairs 856b778 / c7ca573 of findings R1 / R2 the class no longer raises for a
  runner killed on the target's cell or for a killed entity without reward entry).  This clause is evaluated on the
  implementation's trace (runtime); for the model it is proved for steps that start in a `WInv` world
  (`reach_step_noRaise_WInv`), see Props/Reach.lean for what is missing in general.
-/
namespace Abmarl
namespace RT
open World Ex Observers

def actInSpace (cfg : Cfg) (w : World) (x : Aid × Act) : Bool :=
  decide (x.1 < w.n) && (MoveCall.move x.1 x.2.move).inSpace w &&
  (!(w.cfgOf x.1).attacking || inSpace cfg.attack w x.1 x.2.attack)

def stepMustNotRaise (cfg : Cfg) (w : World) (r : Ledger) (acts : List (Aid × Act)) : Bool :=
  w.WInvWeak && acts.all (actInSpace cfg w) && keysNodup acts &&
  acts.all (fun x => cfg.isLearning x.1) && ledgerFullb cfg.toEx w.n r

def judge1 (cfg : Cfg) (w0 : World) (j : J) (op : EOp) (e : EEntry) : Bool :=
  match e.res with
  | .err _ =>
    (match op, j.rewards with
     | .step acts _, some r => !(stepMustNotRaise cfg j.w r acts)
     | _, _ => true)
  | res =>
    match op with
    | .reset _ _ =>
      (res == .unit) && e.w.WInv && frameb w0 e.w && (e.rewards == some (zeroRewards cfg.toEx e.w.n))
    | .step _ _ =>
      (res == .unit) && e.w.WInvWeak && frameb w0 e.w &&
      (match j.rewards, e.rewards with
       | some r, some r' => r'.map (·.1) == r.map (·.1)
       | _, _ => false)
    | .obs a _ =>
      (e.w == j.w) && (e.rewards == j.rewards) &&
      (match res with
       | .obs o => obsInSpace e.w a [.centered cfg.observeSelf] o
       | _ => false)
    | .rew a =>
      (e.w == j.w) &&
      (match res, j.rewards, e.rewards with
       | .int x, some r, some r' => (r' == dictSet r a 0) && (r.lookup a == some x)
       | _, _, _ => false)
    | .done a => (e.w == j.w) && (e.rewards == j.rewards) && (res == Ex.resOfBool (doneW cfg j.w a))
    | .allDone => (e.w == j.w) && (e.rewards == j.rewards) && (res == .bool (onlyLeft cfg j.w))

def specFrom (cfg : Cfg) (w0 : World) : J → List (EOp × EEntry) → Bool
  | _, [] => true
  | j, (op, e) :: rest =>
    judge1 cfg w0 j op e &&
    (match e.res with
     | .err _ => rest.isEmpty
     | _ => specFrom cfg w0 ⟨e.w, e.rewards⟩ rest)

/-- **the judge** -/
def specRT (cfg : Cfg) (w0 : World) (tr : List (EOp × EEntry)) : Bool := specFrom cfg w0 ⟨w0, none⟩ tr

/-- the world as the constructors leave it, the history starts with a reset, every reset in the class's
order with a covered placement state -/
def rtPre (cfg : Cfg) (w0 : World) (ops : List EOp) : Bool :=
  cfgOKb w0 && w0.vitalsAlive && noAmmoCb w0 &&
  w0.allAgents.all (fun b => decide (0 < w0.encOf b) && decide (0 ≤ (w0.cfgOf b).initAmmo)) &&
  (match ops with | .reset _ _ :: _ => true | _ => false) &&
  ops.all fun op =>
    match op with
    | .reset order _ => resetOKb cfg.toEx w0 order
    | _ => true

end RT
end Abmarl
