import Abmarl.Model.Done
import Abmarl.Model.Smart
import Abmarl.Spec.Grid
/-!
# Specification for C17: the documented done conditions and the smart simulation's contract

Two layers, both independent of the model's loops and lookups:

* **documented conditions as first-order statements over the population** (`Doc.*`, `Prop`s
  quantifying over agents `b < w.n` and over the items of a mapping), taken from the property
  text and the class docstrings of `done.py`;
* **decidable judges** (`docDone`, `docAllDone`, `specDone`, `specAllDone`, `specSmartDone`,
  `specSmartAllDone`, `specMerge`, `specResetAll`, `specRewardOnce`, `specSmart`) written with
  `any`/`all` over the listing and the mapping items — the driver evaluates them on the
  *implementation's* outcome.  `Props/C17.lean` proves judge ⇔ first-order statement and
  model ⊨ judge.

Where the documents say nothing the judges ask nothing:
* an agent without an entry in an agent→target mapping has no target: the component may raise or
  answer `False`, it must not answer `True`;
* a smart simulation one of whose components raises may raise; if it answers, the answer is the
  disjunction of the components that have an answer;
* a smart simulation without done components must not report anybody done.
-/
namespace Abmarl

/-! ## The documented conditions, first order -/
namespace Doc

/-- a target mapping is a Python dict: its keys are distinct -/
def IsDict {α β : Type} (m : List (α × β)) : Prop := (m.map (·.1)).Nodup

/-- "inactive" -/
def Inactive (w : World) (a : Aid) : Prop := (w.stOf a).active = false
/-- "overlapping its target": the agent is at its target's position -/
def SamePos (w : World) (a t : Aid) : Prop := (w.stOf a).pos = (w.stOf t).pos
/-- nobody of encoding `e` is active -/
def EncInactive (w : World) (e : Int) : Prop :=
  ∀ b, b < w.n → (w.stOf b).active = true → w.encOf b ≠ e
/-- "all of its target encodings inactive" -/
def TeamDone (w : World) (targets : List Int) : Prop := ∀ e ∈ targets, EncInactive w e
/-- "at most one encoding still active" -/
def AtMostOneTeam (w : World) : Prop :=
  ∀ a b, a < w.n → b < w.n → (w.stOf a).active = true → (w.stOf b).active = true →
    w.encOf a = w.encOf b


/-- does the component's documentation prescribe an answer for this agent?  (the two
agent→target components speak only about agents that have a target) -/
def HasTarget : DoneComp → Aid → Prop
  | .targetOverlap m, a => ∃ t, (a, t) ∈ m
  | .targetInactive m, a => ∃ t, (a, t) ∈ m
  | _, _ => True

/-- the documented condition under which `get_done(agent)` is `True` -/
def DoneCond : DoneComp → World → Aid → Prop
  | .active, w, a => Inactive w a
  | .targetOverlap m, w, a => ∃ t, (a, t) ∈ m ∧ SamePos w a t
  | .targetInactive m, w, a => ∃ t, (a, t) ∈ m ∧ Inactive w t
  | .targetEncoding m _, w, a => ∃ ts, (w.encOf a, ts) ∈ m ∧ TeamDone w ts
  | .oneTeam, w, a => Inactive w a

/-- the documented condition under which `get_all_done()` is `True` -/
def AllDoneCond : DoneComp → World → Prop
  | .active, w => ∀ a, a < w.n → Inactive w a
  | .targetOverlap m, w => ∀ p ∈ m, SamePos w p.1 p.2
  | .targetInactive m, w => ∀ p ∈ m, Inactive w p.2
  | .targetEncoding m true, w => ∃ p ∈ m, TeamDone w p.2       -- `sim_ends_if_one_done`
  | .targetEncoding m false, w => ∀ p ∈ m, TeamDone w p.2
  | .oneTeam, w => AtMostOneTeam w

end Doc

/-! ## Decidable judges for the components -/

def DoneComp.isDict : DoneComp → Bool
  | .targetOverlap m => decide (m.map (·.1)).Nodup
  | .targetInactive m => decide (m.map (·.1)).Nodup
  | .targetEncoding m _ => decide (m.map (·.1)).Nodup
  | _ => true

namespace World

def inactiveB (w : World) (a : Aid) : Bool := !(w.stOf a).active
def samePosB (w : World) (a t : Aid) : Bool := (w.stOf a).pos == (w.stOf t).pos
/-- every agent of every encoding in `targets` is inactive -/
def teamDoneB (w : World) (targets : List Int) : Bool :=
  w.allAgents.all (fun b => !(w.stOf b).active || !decide (w.encOf b ∈ targets))
def atMostOneTeamB (w : World) : Bool :=
  w.allAgents.all fun a => w.allAgents.all fun b =>
    !((w.stOf a).active && (w.stOf b).active) || (w.encOf a == w.encOf b)

end World

/-- has agent `a` an entry in the mapping? -/
def hasEntry {β : Type} (m : List (Aid × β)) (a : Aid) : Bool := m.any (fun p => p.1 == a)

/-- the documented answer of `get_done(agent)`; `none` = the documents prescribe nothing positive
(the agent has no target) -/
def docDone : DoneComp → World → Aid → Option Bool
  | .active, w, a => some (w.inactiveB a)
  | .targetOverlap m, w, a =>
    if hasEntry m a then some (m.any (fun p => p.1 == a && w.samePosB a p.2)) else none
  | .targetInactive m, w, a =>
    if hasEntry m a then some (m.any (fun p => p.1 == a && w.inactiveB p.2)) else none
  | .targetEncoding m _, w, a => some (m.any (fun p => p.1 == w.encOf a && w.teamDoneB p.2))
  | .oneTeam, w, a => some (w.inactiveB a)

/-- the documented answer of `get_all_done()` -/
def docAllDone : DoneComp → World → Bool
  | .active, w => w.allAgents.all w.inactiveB
  | .targetOverlap m, w => m.all (fun p => w.samePosB p.1 p.2)
  | .targetInactive m, w => m.all (fun p => w.inactiveB p.2)
  | .targetEncoding m oneDone, w =>
    if oneDone then m.any (fun p => w.teamDoneB p.2) else m.all (fun p => w.teamDoneB p.2)
  | .oneTeam, w => w.atMostOneTeamB

/-- an outcome against the documented answer: equal to it when there is one; otherwise anything
but `True` -/
def answerOK (doc : Option Bool) (out : Except GErr Bool) : Bool :=
  match doc, out with
  | some b, .ok b' => b == b'
  | some _, .error _ => false
  | none, .ok b' => !b'
  | none, .error _ => true

/-- **C17**, a component's `get_done` judged on its outcome -/
def specDone (c : DoneComp) (w : World) (a : Aid) (out : Except GErr Bool) : Bool :=
  answerOK (docDone c w a) out

/-- **C17**, a component's `get_all_done` judged on its outcome -/
def specAllDone (c : DoneComp) (w : World) (out : Except GErr Bool) : Bool :=
  match out with
  | .ok b => b == docAllDone c w
  | .error _ => false

/-! ## Decidable judges for the smart simulation -/

/-- the composition rule, given what the documents say about each component -/
def specAny (docs : List (Option Bool)) (out : Except GErr Bool) : Bool :=
  match out with
  | .ok b => b == docs.any (fun d => d == some true)
  | .error _ => docs.any (fun d => d.isNone)

/-- **C17**: the simulation reports an agent done iff any of its done components does -/
def specSmartDone (comps : List DoneComp) (w : World) (a : Aid) (out : Except GErr Bool) : Bool :=
  specAny (comps.map (fun c => docDone c w a)) out

/-- **C17**: the simulation reports itself done iff any of its done components does -/
def specSmartAllDone (comps : List DoneComp) (w : World) (out : Except GErr Bool) : Bool :=
  specAny (comps.map (fun c => some (docAllDone c w))) out

section merge
variable {κ υ : Type} [DecidableEq κ] [DecidableEq υ]

/-- the value of the last item with key `k` -/
def lastVal : List (κ × υ) → κ → Option υ
  | [], _ => none
  | (k', v) :: rest, k =>
    match lastVal rest k with
    | some x => some x
    | none => if k' = k then some v else none

/-- **C17**: the merged observation has every channel of every observer once, and each channel
carries the value of the last observer (in call order) that has it -/
def specMerge (outs : List (List (κ × υ))) (merged : List (κ × υ)) : Bool :=
  decide (merged.map (·.1)).Nodup &&
  merged.all (fun p => lastVal outs.flatten p.1 == some p.2) &&
  outs.flatten.all (fun p => decide (p.1 ∈ merged.map (·.1)))

end merge

/-- **C17**: the `k` components were each called exactly once -/
def specResetAll (k : Nat) (calls : List Nat) : Bool :=
  (calls.length == k) && (List.range k).all (fun i => calls.count i == 1)

section trace
variable {σ κ υ : Type}

/-- the reward dict seen as one optional value per agent index -/
def pendVec (n : Nat) (p : Option (List (Aid × Int))) : Option (List (Option Int)) :=
  p.map (fun d => (List.range n).map (fun a => d.lookup a))

/-- the reference ledger seen the same way -/
def expVec (n : Nat) (learning : Aid → Bool) (x : List Int) : List (Option Int) :=
  (List.range n).map (fun a => if learning a then some (x.getD a 0) else none)

/-- reference ledger after an entry: `none` until the first reset; a reset zeroes it, a
successful step adds its accruals, a successful read zeroes the reader's account -/
def ledgerNext (n : Nat) (exp : Option (List Int)) (e : SEntry σ κ υ) : Option (List Int) :=
  match e.op, e.res, exp with
  | .reset, .unit, _ => some (List.replicate n 0)
  | .step _ acc, .unit, some x => some (acc.foldl (fun x p => x.set p.1 (x.getD p.1 0 + p.2)) x)
  | .reward a, .int _, some x => some (x.set a 0)
  | _, _, exp => exp

/-- is the result of a read what the reference ledger holds? -/
def readOk (n : Nat) (learning : Aid → Bool) (exp : Option (List Int)) (e : SEntry σ κ υ) : Bool :=
  match e.op, e.res with
  | .reward a, .int r =>
    (match exp with
     | some x => learning a && decide (a < n) && (r == x.getD a 0)
     | none => false)
  | .reward a, .err _ => exp.isNone || !(learning a && decide (a < n))
  | .reward _, _ => false
  | _, _ => true

/-- **C17**, ledger clause along a trace: a read returns exactly what accrued since the previous
read (or reset) and leaves nothing pending; nothing else touches the accumulators -/
def rewardLoop (n : Nat) (learning : Aid → Bool) :
    Option (List Int) → List (SEntry σ κ υ) → Bool
  | _, [] => true
  | exp, e :: es =>
    readOk n learning exp e &&
    (pendVec n e.pending == (ledgerNext n exp e).map (expVec n learning)) &&
    rewardLoop n learning (ledgerNext n exp e) es

def specRewardOnce (n : Nat) (learning : Aid → Bool) (tr : List (SEntry σ κ υ)) : Bool :=
  rewardLoop n learning none tr

variable [DecidableEq κ] [DecidableEq υ]

def exceptOfRes : SRes κ υ → Option (Except GErr Bool)
  | .bool b => some (.ok b)
  | .err e => some (.error e)
  | _ => none

/-- the static facts about a smart simulation the judge needs -/
structure SmartFacts (σ : Type) where
  n         : Nat
  learning  : Aid → Bool
  comps     : Option (List DoneComp)      -- its done components (iteration order)
  nObs      : Option Nat                  -- how many observers
  nStates   : Option Nat                  -- how many state components
  worldOf   : σ → World

/-- **C17**, per call -/
def specSmartEntry (F : SmartFacts σ) (e : SEntry σ κ υ) : Bool :=
  match e.op with
  | .done a =>
    (match exceptOfRes e.res, F.comps with
     | none, _ => false
     | some (.ok b), none => !b
     | some (.error _), none => true
     | some out, some cs =>
       if a < F.n then specSmartDone cs (F.worldOf e.sim) a out
       else (match out with | .ok _ => false | .error _ => true))
  | .allDone =>
    (match exceptOfRes e.res, F.comps with
     | none, _ => false
     | some (.ok b), none => !b
     | some (.error _), none => true
     | some out, some cs => specSmartAllDone cs (F.worldOf e.sim) out)
  | .obs a =>
    (match e.res with
     | .obs o =>
       (match F.nObs with
        | some k => specResetAll k e.calls && (e.outs.length == k) && specMerge e.outs o && decide (a < F.n)
        | none => false)
     | .err _ => F.nObs.isNone || !decide (a < F.n)
     | _ => false)
  | .reset =>
    (match e.res with
     | .unit => (match F.nStates with | some k => specResetAll k e.calls | none => false)
     | .err _ => F.nStates.isNone
     | _ => false)
  | .reward _ => true          -- judged by the ledger
  | .step _ _ => true          -- the subclass's own code

/-- **C17** for a history of a smart simulation -/
def specSmart (F : SmartFacts σ) (tr : List (SEntry σ κ υ)) : Bool :=
  tr.all (specSmartEntry F) && specRewardOnce F.n F.learning tr

end trace
end Abmarl
