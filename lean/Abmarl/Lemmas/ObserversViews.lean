import Abmarl.Lemmas.ObserversCells
/-!
# C09 lemmas, part 3: the model's cell functions on the window of a world; the paste; the
largest encoding

`cen_window_cell`, `abs_window_cell`, `stk_window_cell` instantiate the one-cell lemmas with the
mask entry (`at2_maskFor`) and the local-grid entry (`at2_localGrid`, i.e. `window_embedding`) of
a world that satisfies the consistency invariant; `paste_spec` carries the per-entry fact of the
convolved window to the `rows × cols` array (true grid coordinates).
-/
namespace Abmarl
namespace Observers
open World

variable (w : World) (a : Aid)

theorem cen_window_cell (os : Bool) (R : Nat) (hI : w.WInv = true)
    (hpos : w.inGrid (w.stOf a).pos = true) (henc : ∀ b < w.n, 0 < w.encOf b)
    (i : Nat) (hi : i < 2*R+1) (j : Nat) (hj : j < 2*R+1) (t : Tape) :
    ∃ v t', cenCell w a os (at2 (maskFor w a R) i j false) (at2 (localGrid w a R) i j none) t = .ok (v, t') ∧
      cenCellOK w (hiddenFrom w a R ((i : Int) - (R : Int)) ((j : Int) - (R : Int)))
        (w.inGrid (winPos (w.stOf a).pos R i j))
        (if w.inGrid (winPos (w.stOf a).pos R i j) = true
          then reportable w a os (winPos (w.stOf a).pos R i j) else []) v = true := by
  rw [at2_maskFor w a R i j hi hj, at2_localGrid w a R i j hpos hi hj]
  unfold reportable
  exact cenCell_ok w a os _ _ (w.cell (winPos (w.stOf a).pos R i j)) t
    (fun b hb => henc b (cell_of_WInv hI hb).1)

theorem abs_window_cell (R : Nat) (hI : w.WInv = true)
    (hpos : w.inGrid (w.stOf a).pos = true) (henc : ∀ b < w.n, 0 < w.encOf b)
    (i : Nat) (hi : i < 2*R+1) (j : Nat) (hj : j < 2*R+1) (t : Tape) :
    ∃ v t', absCell w a (at2 (maskFor w a R) i j false) (at2 (localGrid w a R) i j none) t = .ok (v, t') ∧
      (w.inGrid (winPos (w.stOf a).pos R i j) = true →
        absCellOK w a (hiddenFrom w a R ((i : Int) - (R : Int)) ((j : Int) - (R : Int)))
          (w.cell (winPos (w.stOf a).pos R i j)) v = true) := by
  rw [at2_maskFor w a R i j hi hj, at2_localGrid w a R i j hpos hi hj]
  by_cases hin : w.inGrid (winPos (w.stOf a).pos R i j) = true
  · rw [if_pos hin]
    obtain ⟨v, t', h1, h2⟩ := absCell_ok w a (hiddenFrom w a R ((i : Int) - (R : Int)) ((j : Int) - (R : Int)))
      (w.cell (winPos (w.stOf a).pos R i j)) t (fun b hb => henc b (cell_of_WInv hI hb).1)
    exact ⟨v, t', h1, fun _ => h2⟩
  · rw [if_neg hin]
    cases hiddenFrom w a R ((i : Int) - (R : Int)) ((j : Int) - (R : Int))
    · exact ⟨0, t, by simp [absCell], fun h => absurd h hin⟩
    · exact ⟨-2, t, by simp [absCell], fun h => absurd h hin⟩

theorem stk_window_cell (R : Nat) (hpos : w.inGrid (w.stOf a).pos = true)
    (i : Nat) (hi : i < 2*R+1) (j : Nat) (hj : j < 2*R+1) (e : Nat) :
    stkCellOK w (hiddenFrom w a R ((i : Int) - (R : Int)) ((j : Int) - (R : Int)))
      (w.inGrid (winPos (w.stOf a).pos R i j))
      (if w.inGrid (winPos (w.stOf a).pos R i j) = true then w.cell (winPos (w.stOf a).pos R i j) else []) e
      (stkCell w (at2 (maskFor w a R) i j false) (at2 (localGrid w a R) i j none) e) = true := by
  rw [at2_maskFor w a R i j hi hj, at2_localGrid w a R i j hpos hi hj]
  exact stkCell_ok w _ _ _ e

/-! ## The paste of the absolute observer -/

/-- **paste embedding.**  Entry `[gi, gj]` of the `rows × cols` observation: if the grid cell
`(gi, gj)` is within `R` of the observer in both coordinates it is the window entry
`[gi − r + R, gj − c + R]` — whose grid coordinate is again `(gi, gj)` — and otherwise it keeps
the initial −2.  So every visible cell appears at its true grid coordinates. -/
theorem paste_spec (R : Nat) (conv : List (List Int)) (hpos : w.inGrid (w.stOf a).pos = true)
    (hP : TabP (2*R+1) (2*R+1) (fun i j v => w.inGrid (winPos (w.stOf a).pos R i j) = true →
      absCellOK w a (hiddenFrom w a R ((i : Int) - (R : Int)) ((j : Int) - (R : Int)))
        (w.cell (winPos (w.stOf a).pos R i j)) v = true) conv) :
    TabP w.rows w.cols (fun gi gj v =>
      absCellOK w a
        (!(Mask.inWin R ((gi : Int) - (w.stOf a).pos.1) && Mask.inWin R ((gj : Int) - (w.stOf a).pos.2)) ||
          hiddenFrom w a R ((gi : Int) - (w.stOf a).pos.1) ((gj : Int) - (w.stOf a).pos.2))
        (w.cell ((gi : Int), (gj : Int))) v = true)
      (paste w.rows w.cols (w.stOf a).pos R conv) := by
  obtain ⟨p, hp⟩ : ∃ p, p = (w.stOf a).pos := ⟨_, rfl⟩
  rw [← hp] at hpos hP ⊢
  rw [inGrid_iff] at hpos
  obtain ⟨p1, p2, p3, p4⟩ := hpos
  unfold paste
  apply TabP_tab
  intro gi hgi gj hgj
  by_cases hs : (clip w.rows w.cols p R).rl ≤ (gi : Int) ∧ (gi : Int) < (clip w.rows w.cols p R).ru ∧
      (clip w.rows w.cols p R).cl ≤ (gj : Int) ∧ (gj : Int) < (clip w.rows w.cols p R).cu
  · rw [if_pos hs]
    simp only [clip] at hs ⊢
    obtain ⟨i, hi⟩ : ∃ i : Nat, i = (max 0 (p.1 - (R : Int)) + (R : Int) - p.1 + ((gi : Int) - max 0 (p.1 - (R : Int)))).toNat :=
      ⟨_, rfl⟩
    obtain ⟨j, hj⟩ : ∃ j : Nat, j = (max 0 (p.2 - (R : Int)) + (R : Int) - p.2 + ((gj : Int) - max 0 (p.2 - (R : Int)))).toNat :=
      ⟨_, rfl⟩
    rw [← hi, ← hj]
    have ei : (i : Int) = (gi : Int) - p.1 + R := by omega
    have ej : (j : Int) = (gj : Int) - p.2 + R := by omega
    have hq : winPos p R i j = ((gi : Int), (gj : Int)) := by
      unfold winPos; exact Prod.ext (by simp only []; omega) (by simp only []; omega)
    have hin : w.inGrid (winPos p R i j) = true := by
      rw [hq, inGrid_iff]; simp only []; omega
    have h := at2_of_TabP hP i j (-2) (by omega) (by omega) hin
    rw [hq] at h
    have e1 : (i : Int) - (R : Int) = (gi : Int) - p.1 := by omega
    have e2 : (j : Int) - (R : Int) = (gj : Int) - p.2 := by omega
    rw [e1, e2] at h
    have w1 : Mask.inWin R ((gi : Int) - p.1) = true := by rw [Mask.inWin_iff]; omega
    have w2 : Mask.inWin R ((gj : Int) - p.2) = true := by rw [Mask.inWin_iff]; omega
    rw [w1, w2]
    simpa using h
  · rw [if_neg hs]
    simp only [clip] at hs
    have hw : (Mask.inWin R ((gi : Int) - p.1) && Mask.inWin R ((gj : Int) - p.2)) = false := by
      rw [Bool.eq_false_iff]
      intro hc
      simp only [Bool.and_eq_true, Mask.inWin_iff] at hc
      omega
    rw [hw]
    simp [absCellOK]

/-! ## The largest encoding -/

theorem foldl_max_ge (cs : List AgentCfg) (x : Int) : x ≤ cs.foldl (fun m c => max m c.enc) x := by
  induction cs generalizing x with
  | nil => exact Int.le_refl _
  | cons c cs ih => exact Int.le_trans (Int.le_max_left _ _) (ih _)

theorem foldl_max_mem (cs : List AgentCfg) (x : Int) (c : AgentCfg) (hc : c ∈ cs) :
    c.enc ≤ cs.foldl (fun m c => max m c.enc) x := by
  induction cs generalizing x with
  | nil => cases hc
  | cons d cs ih =>
    rcases List.mem_cons.mp hc with h | h
    · subst h; exact Int.le_trans (Int.le_max_right _ _) (foldl_max_ge cs _)
    · exact ih _ h

/-- every agent's encoding is at most `maxEnc` -/
theorem encOf_le_maxEnc {b : Aid} (hb : b < w.n) : w.encOf b ≤ maxEnc w := by
  unfold World.n at hb
  have hmem : w.cfgOf b ∈ w.cfg := by
    unfold cfgOf
    rw [List.getD_eq_getElem?_getD, List.getElem?_eq_getElem hb, Option.getD_some]
    exact List.getElem_mem hb
  unfold encOf maxEnc
  generalize w.cfgOf b = c at hmem
  cases hcfg : w.cfg with
  | nil => rw [hcfg] at hmem; cases hmem
  | cons d ds =>
    rw [hcfg] at hmem
    simp only []
    rcases List.mem_cons.mp hmem with h | h
    · subst h; exact foldl_max_ge ds _
    · exact foldl_max_mem ds _ c h

theorem foldl_topEnc (cs : List AgentCfg) (x : Int) :
    cs.foldl (fun (m : Option Int) c => match m with
      | none => some c.enc
      | some y => some (if y < c.enc then c.enc else y)) (some x) =
    some (cs.foldl (fun m c => max m c.enc) x) := by
  induction cs generalizing x with
  | nil => rfl
  | cons c cs ih =>
    simp only [List.foldl_cons]
    have : (if x < c.enc then c.enc else x) = max x c.enc := by
      by_cases h : x < c.enc
      · rw [if_pos h]; omega
      · rw [if_neg h]; omega
    rw [this]
    exact ih _

/-- the specification's `topEnc` (read off the agents) is the model's `maxEnc` -/
theorem topEnc_eq (hn : 0 < w.n) : topEnc w = some (maxEnc w) := by
  unfold topEnc maxEnc World.n at *
  cases hcfg : w.cfg with
  | nil => rw [hcfg] at hn; cases hn
  | cons c cs =>
    simp only [List.foldl_cons]
    exact foldl_topEnc cs c.enc

theorem maxEnc_pos {b : Aid} (hb : b < w.n) (henc : ∀ b < w.n, 0 < w.encOf b) : 0 < maxEnc w :=
  Int.lt_of_lt_of_le (henc b hb) (encOf_le_maxEnc w hb)

end Observers
end Abmarl
