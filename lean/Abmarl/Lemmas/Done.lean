import Abmarl.Spec.Done
/-!
# Helper lemmas for C17, part 1: the done components

Characterisations of the model's loops (`activeLoop`, `collect`, `toSet`, dict lookup) and the
readings of the Bool judges as first-order statements.
-/
namespace Abmarl
open World Done Doc

/-! ## dict lookup -/

theorem lookup_of_mem {α β : Type} [BEq α] [LawfulBEq α] :
    ∀ (m : List (α × β)) (a : α) (t : β), IsDict m → (a, t) ∈ m → m.lookup a = some t
  | [], _, _, _, h => by cases h
  | (k, v) :: rest, a, t, hd, h => by
    rw [List.lookup_cons]
    simp only [IsDict, List.map_cons, List.nodup_cons] at hd
    rcases List.mem_cons.mp h with h1 | h1
    · cases h1; simp
    · have hne : (a == k) = false := by
        apply Bool.eq_false_iff.mpr
        intro hk
        have hak : a = k := by simpa using hk
        exact hd.1 (List.mem_map.mpr ⟨(a, t), h1, hak⟩)
      rw [hne]
      exact lookup_of_mem rest a t hd.2 h1

theorem lookup_none_iff {α β : Type} [BEq α] [LawfulBEq α] (m : List (α × β)) (a : α) :
    m.lookup a = none ↔ ∀ t, (a, t) ∉ m := by
  rw [List.lookup_eq_none_iff]
  constructor
  · intro h t ht
    have := h (a, t) ht
    simp at this
  · intro h p hp
    simp only [bne_iff_ne, ne_eq]
    intro hk
    exact h p.2 (by rw [hk]; exact hp)

theorem mem_of_lookup_done {α β : Type} [BEq α] [LawfulBEq α] {m : List (α × β)} {a : α} {t : β}
    (h : m.lookup a = some t) : (a, t) ∈ m := by
  obtain ⟨l1, l2, hl, _⟩ := List.lookup_eq_some_iff.mp h
  rw [hl]; simp

theorem hasEntry_iff {β : Type} (m : List (Aid × β)) (a : Aid) :
    hasEntry m a = true ↔ ∃ t, (a, t) ∈ m := by
  simp only [hasEntry, List.any_eq_true, beq_iff_eq]
  constructor
  · rintro ⟨p, hp, rfl⟩; exact ⟨p.2, hp⟩
  · rintro ⟨t, ht⟩; exact ⟨(a, t), ht, rfl⟩

theorem hasEntry_false_iff {β : Type} (m : List (Aid × β)) (a : Aid) :
    hasEntry m a = false ↔ m.lookup a = none := by
  rw [lookup_none_iff, ← Bool.not_eq_true, hasEntry_iff]
  simp

/-- over a dict, "some item of `a` satisfies `q`" is "the target of `a` satisfies `q`" -/
theorem any_entry_eq {α β : Type} [DecidableEq α] {m : List (α × β)} {a : α} {t : β}
    (hd : IsDict m) (ht : (a, t) ∈ m) (q : β → Bool) :
    m.any (fun p => p.1 == a && q p.2) = q t := by
  cases hq : q t with
  | true =>
    exact List.any_eq_true.mpr ⟨(a, t), ht, by simp [hq]⟩
  | false =>
    apply Bool.eq_false_iff.mpr
    intro h
    obtain ⟨p, hp, hpq⟩ := List.any_eq_true.mp h
    simp only [Bool.and_eq_true, beq_iff_eq] at hpq
    have h1 := lookup_of_mem m a t hd ht
    have h2 := lookup_of_mem m a p.2 hd (by rw [← hpq.1]; exact hp)
    rw [h1] at h2
    cases h2
    rw [hq] at hpq
    exact Bool.false_ne_true hpq.2

/-! ## loops -/

theorem activeLoop_eq (w : World) : ∀ l : List Aid, activeLoop w l = l.all w.inactiveB
  | [] => rfl
  | a :: as => by
    cases h : (w.stOf a).active with
    | false => simpa [activeLoop, inactiveB, isActive, h] using activeLoop_eq w as
    | true => simp [activeLoop, inactiveB, isActive, h]

theorem collect_ok {α β : Type} (f : α → Except GErr β) (g : α → β) :
    ∀ l : List α, (∀ x ∈ l, f x = .ok (g x)) → collect f l = .ok (l.map g)
  | [], _ => rfl
  | x :: xs, h => by
    simp only [collect, h x (by simp), collect_ok f g xs (fun y hy => h y (by simp [hy])),
      List.map_cons]

/-! ## `set(...)` as the list of first occurrences -/

theorem mem_foldl_setAdd (l : List Int) : ∀ (s : List Int) (x : Int),
    x ∈ l.foldl setAdd s ↔ x ∈ s ∨ x ∈ l := by
  induction l with
  | nil => intro s x; simp
  | cons y ys ih =>
    intro s x
    rw [List.foldl_cons, ih]
    unfold setAdd
    by_cases hy : y ∈ s
    · rw [if_pos hy]
      constructor
      · rintro (h | h)
        · exact .inl h
        · exact .inr (List.mem_cons_of_mem _ h)
      · rintro (h | h)
        · exact .inl h
        · rcases List.mem_cons.mp h with h | h
          · exact .inl (h ▸ hy)
          · exact .inr h
    · rw [if_neg hy]
      simp only [List.mem_append, List.mem_cons, List.not_mem_nil, or_false]
      constructor
      · rintro ((h | h) | h)
        · exact .inl h
        · exact .inr (.inl h)
        · exact .inr (.inr h)
      · rintro (h | h | h)
        · exact .inl (.inl h)
        · exact .inl (.inr h)
        · exact .inr h

theorem mem_toSet (l : List Int) (x : Int) : x ∈ toSet l ↔ x ∈ l := by
  unfold toSet; rw [mem_foldl_setAdd]; simp

theorem nodup_foldl_setAdd (l : List Int) : ∀ s : List Int, s.Nodup → (l.foldl setAdd s).Nodup := by
  induction l with
  | nil => intro s h; exact h
  | cons y ys ih =>
    intro s h
    rw [List.foldl_cons]
    apply ih
    unfold setAdd
    by_cases hy : y ∈ s
    · rw [if_pos hy]; exact h
    · rw [if_neg hy]
      rw [List.nodup_append]
      refine ⟨h, by simp, ?_⟩
      intro a ha b hb
      simp only [List.mem_singleton] at hb
      subst hb
      intro hab; subst hab; exact hy ha

theorem nodup_toSet (l : List Int) : (toSet l).Nodup := nodup_foldl_setAdd l [] List.nodup_nil

/-- `len(set(l)) <= 1` iff all members are equal -/
theorem toSet_length_le_one (l : List Int) :
    (toSet l).length ≤ 1 ↔ ∀ x ∈ l, ∀ y ∈ l, x = y := by
  constructor
  · intro h x hx y hy
    have hx' := (mem_toSet l x).mpr hx
    have hy' := (mem_toSet l y).mpr hy
    match hs : toSet l, h with
    | [], _ => rw [hs] at hx'; cases hx'
    | [z], _ =>
      rw [hs] at hx' hy'
      simp only [List.mem_singleton] at hx' hy'
      rw [hx', hy']
    | _ :: _ :: _, h => simp at h
  · intro h
    have hn := nodup_toSet l
    match hs : toSet l with
    | [] => simp
    | [z] => simp
    | a :: b :: rest =>
      exfalso
      rw [hs] at hn
      have ha : a ∈ l := (mem_toSet l a).mp (by rw [hs]; simp)
      have hb : b ∈ l := (mem_toSet l b).mp (by rw [hs]; simp)
      have := h a ha b hb
      subst this
      simp at hn

/-! ## the population, first order -/

theorem mem_allAgents (w : World) (a : Aid) : a ∈ w.allAgents ↔ a < w.n := by
  simp [allAgents]

theorem mem_activeEncs (w : World) (e : Int) :
    e ∈ w.activeEncs ↔ ∃ b, b < w.n ∧ (w.stOf b).active = true ∧ w.encOf b = e := by
  simp only [activeEncs, List.mem_map, List.mem_filter, List.mem_range, isActive]
  constructor
  · rintro ⟨b, ⟨hb, hact⟩, he⟩; exact ⟨b, hb, hact, he⟩
  · rintro ⟨b, hb, hact, he⟩; exact ⟨b, ⟨hb, hact⟩, he⟩

theorem teamDoneB_iff (w : World) (ts : List Int) : w.teamDoneB ts = true ↔ TeamDone w ts := by
  simp only [teamDoneB, List.all_eq_true, mem_allAgents, Bool.or_eq_true, Bool.not_eq_true',
    decide_eq_false_iff_not, TeamDone, EncInactive]
  constructor
  · intro h e he b hb hact hbe
    rcases h b hb with h | h
    · rw [hact] at h; cases h
    · exact h (hbe ▸ he)
  · intro h b hb
    cases hact : (w.stOf b).active with
    | false => exact .inl rfl
    | true => exact .inr (fun hmem => h _ hmem b hb hact rfl)

/-- the model's intersection test is the documented team condition -/
theorem teamDone_eq (w : World) (ts : List Int) : teamDone w ts = w.teamDoneB ts := by
  cases hB : w.teamDoneB ts with
  | true =>
    have hT := (teamDoneB_iff w ts).mp hB
    unfold teamDone
    have : meets w.activeEncs ts = false := by
      apply Bool.eq_false_iff.mpr
      intro hm
      simp only [meets, List.any_eq_true, decide_eq_true_eq] at hm
      obtain ⟨e, he, hets⟩ := hm
      obtain ⟨b, hb, hact, hbe⟩ := (mem_activeEncs w e).mp he
      exact hT e hets b hb hact hbe
    rw [this]; rfl
  | false =>
    unfold teamDone
    have : meets w.activeEncs ts = true := by
      cases hm' : meets w.activeEncs ts with
      | true => rfl
      | false =>
      exfalso
      have : w.teamDoneB ts = true := by
        rw [teamDoneB_iff]
        intro e he b hb hact hbe
        have : meets w.activeEncs ts = true := by
          simp only [meets, List.any_eq_true, decide_eq_true_eq]
          exact ⟨e, (mem_activeEncs w e).mpr ⟨b, hb, hact, hbe⟩, he⟩
        rw [hm'] at this; cases this
      rw [hB] at this; cases this
    rw [this]; rfl

theorem atMostOneTeamB_iff (w : World) : w.atMostOneTeamB = true ↔ AtMostOneTeam w := by
  simp only [atMostOneTeamB, List.all_eq_true, mem_allAgents, Bool.or_eq_true, Bool.not_eq_true',
    Bool.and_eq_false_iff, beq_iff_eq, AtMostOneTeam]
  constructor
  · intro h a b ha hb hact hbct
    rcases h a ha b hb with (h | h) | h
    · rw [hact] at h; cases h
    · rw [hbct] at h; cases h
    · exact h
  · intro h a ha b hb
    cases hact : (w.stOf a).active with
    | false => exact .inl (.inl rfl)
    | true =>
      cases hbct : (w.stOf b).active with
      | false => exact .inl (.inr rfl)
      | true => exact .inr (h a b ha hb hact hbct)

theorem oneTeam_model_iff (w : World) :
    (toSet w.activeEncs).length ≤ 1 ↔ AtMostOneTeam w := by
  rw [toSet_length_le_one]
  constructor
  · intro h a b ha hb hact hbct
    exact h _ ((mem_activeEncs w _).mpr ⟨a, ha, hact, rfl⟩) _ ((mem_activeEncs w _).mpr ⟨b, hb, hbct, rfl⟩)
  · intro h x hx y hy
    obtain ⟨a, ha, hact, rfl⟩ := (mem_activeEncs w x).mp hx
    obtain ⟨b, hb, hbct, rfl⟩ := (mem_activeEncs w y).mp hy
    exact h a b ha hb hact hbct

/-! ## model = documented answer -/

theorem overlapDone_of_entry {m : AgentMap} {a t : Aid} (w : World) (hd : IsDict m) (ht : (a, t) ∈ m) :
    overlapDone m w a = .ok (w.samePosB a t) := by
  unfold overlapDone
  rw [lookup_of_mem m a t hd ht]
  simp only [samePosB, posOf]
  congr 1
  rw [Bool.eq_iff_iff]
  simp only [beq_iff_eq]
  exact decide_eq_true_iff

theorem inactiveDone_of_entry {m : AgentMap} {a t : Aid} (w : World) (hd : IsDict m) (ht : (a, t) ∈ m) :
    inactiveDone m w a = .ok (w.inactiveB t) := by
  unfold inactiveDone
  rw [lookup_of_mem m a t hd ht]
  simp [inactiveB, isActive]

theorem allMapped_eq {m : AgentMap} (f : Aid → Except GErr Bool) (q : Aid → Aid → Bool)
    (h : ∀ p ∈ m, f p.1 = .ok (q p.1 p.2)) :
    allMapped f m = .ok (m.all (fun p => q p.1 p.2)) := by
  unfold allMapped
  rw [collect_ok (fun p => f p.1) (fun p => q p.1 p.2) m h]
  simp [List.all_map]

theorem getDone_eq_doc (c : DoneComp) (w : World) (a : Aid) (hd : c.isDict = true) :
    specDone c w a (getDone c w a) = true := by
  cases c with
  | active => simp [specDone, answerOK, docDone, getDone, inactiveB, isActive]
  | oneTeam => simp [specDone, answerOK, docDone, getDone, inactiveB, isActive]
  | targetOverlap m =>
    have hd' : IsDict m := by simpa [DoneComp.isDict, IsDict] using hd
    cases he : hasEntry m a with
    | true =>
      obtain ⟨t, ht⟩ := (hasEntry_iff m a).mp he
      simp [specDone, answerOK, docDone, he, getDone, overlapDone_of_entry w hd' ht,
        any_entry_eq hd' ht (fun t => w.samePosB a t)]
    | false =>
      have := (hasEntry_false_iff m a).mp he
      simp [specDone, answerOK, docDone, he, getDone, overlapDone, this]
  | targetInactive m =>
    have hd' : IsDict m := by simpa [DoneComp.isDict, IsDict] using hd
    cases he : hasEntry m a with
    | true =>
      obtain ⟨t, ht⟩ := (hasEntry_iff m a).mp he
      simp [specDone, answerOK, docDone, he, getDone, inactiveDone_of_entry w hd' ht,
        any_entry_eq hd' ht (fun t => w.inactiveB t)]
    | false =>
      have := (hasEntry_false_iff m a).mp he
      simp [specDone, answerOK, docDone, he, getDone, inactiveDone, this]
  | targetEncoding m one =>
    have hd' : IsDict m := by simpa [DoneComp.isDict, IsDict] using hd
    simp only [specDone, answerOK, docDone, getDone]
    cases hl : m.lookup (w.encOf a) with
    | none =>
      have hno := (lookup_none_iff m (w.encOf a)).mp hl
      have : m.any (fun p => p.1 == w.encOf a && w.teamDoneB p.2) = false := by
        apply Bool.eq_false_iff.mpr
        intro h
        obtain ⟨p, hp, hpq⟩ := List.any_eq_true.mp h
        simp only [Bool.and_eq_true, beq_iff_eq] at hpq
        exact hno p.2 (by rw [← hpq.1]; exact hp)
      simp [this]
    | some ts =>
      have ht := mem_of_lookup_done hl
      simp [any_entry_eq hd' ht (fun ts => w.teamDoneB ts), teamDone_eq]

theorem getAllDone_eq_doc (c : DoneComp) (w : World) (hd : c.isDict = true) :
    specAllDone c w (getAllDone c w) = true := by
  cases c with
  | active => simp [specAllDone, docAllDone, getAllDone, activeLoop_eq, allAgents]
  | oneTeam =>
    simp only [specAllDone, docAllDone, getAllDone, beq_iff_eq]
    cases hB : w.atMostOneTeamB with
    | true => simpa using (oneTeam_model_iff w).mpr ((atMostOneTeamB_iff w).mp hB)
    | false =>
      simp only [decide_eq_false_iff_not]
      intro h
      have := (atMostOneTeamB_iff w).mpr ((oneTeam_model_iff w).mp h)
      rw [hB] at this; cases this
  | targetOverlap m =>
    have hd' : IsDict m := by simpa [DoneComp.isDict, IsDict] using hd
    simp only [specAllDone, docAllDone, getAllDone]
    rw [allMapped_eq (overlapDone m w) (fun a t => w.samePosB a t)
      (fun p hp => overlapDone_of_entry w hd' hp)]
    simp
  | targetInactive m =>
    have hd' : IsDict m := by simpa [DoneComp.isDict, IsDict] using hd
    simp only [specAllDone, docAllDone, getAllDone]
    rw [allMapped_eq (inactiveDone m w) (fun _ t => w.inactiveB t)
      (fun p hp => inactiveDone_of_entry w hd' hp)]
    simp
  | targetEncoding m one =>
    cases one <;>
      simp [specAllDone, docAllDone, getAllDone, List.any_map, List.all_map, Function.comp_def,
        teamDone_eq]

end Abmarl
