import Abmarl.Lemmas.ExamplesStep
import Abmarl.Lemmas.ExamplesLawful
import Abmarl.Spec.Examples
/-!
# Histories of resets, steps and getter calls on a packaged example keep the invariant
-/
namespace Abmarl
open World
namespace Ex

/-- the reset orders the theorems cover: a placement state with well-formed options is among the
components, the oracle stream is the regular one (finding K4), and the two classes whose agents can
die have a `HealthState` -/
structure ResetOK (cfg : Cfg) (w0 : World) (order : List StateComp) : Prop where
  pos : ∃ kind o, StateComp.position kind o ∈ order
  noClosed : StateComp.healthClosed ∉ order
  wf : ∀ kind o, StateComp.position kind o ∈ order → wfPlacement kind o w0 = true
  health : cfg.which = .teamBattle ∨ cfg.which = .predatorPrey → StateComp.health ∈ order

theorem ammoC_of_WInv {w : World} (hI : w.WInv = true) : AmmoC w := by
  intro a ha hA
  have h := (wAgent_reading w a).mp (((WInv_parts_iff w).mp hI).2.2.1 a ha)
  exact ⟨h.2.2.2.2.1, h.2.2.2.2.2.1 hA⟩

theorem orientC_of_WInv {w : World} (hI : w.WInv = true) : OrientC w := by
  intro a ha hO
  have h := (wAgent_reading w a).mp (((WInv_parts_iff w).mp hI).2.2.1 a ha)
  exact h.2.2.2.2.2.2 hO

/-- a covered reset, from any world whose vitals it does not own are legal, establishes the invariant
— and everybody is alive afterwards -/
theorem reset_establishes {cfg : Cfg} {w0 w w' : World} {order : List StateComp} {t t' : Tape}
    (hcfg : CfgOK w0) (hR : ResetOK cfg w0 order) (hF : SFrame w0 w)
    (hH : StateComp.health ∈ order ∨ HealthC w) (hA : AmmoC w) (hO : OrientC w) (hN : NoAmmoC w)
    (h : applyComps order w t = .ok (w', t')) : XInvA w0 w' := by
  obtain ⟨k0, o0, hm0⟩ := hR.pos
  have hwf : ∀ kind o, StateComp.position kind o ∈ order → wfPlacement kind o w = true :=
    fun k o hm => by rw [wfPlacement_of_sframe hF]; exact hR.wf k o hm
  have hwf0 := hwf k0 o0 hm0
  have hlen : w.st.length = w.cfg.length := by
    simp only [wfPlacement, Bool.and_eq_true, beq_iff_eq] at hwf0
    exact hwf0.1.1.1.2
  have hsym : w.wOverlapSym = true := by
    simp only [wfPlacement, Bool.and_eq_true] at hwf0
    exact hwf0.1.1.2
  obtain ⟨hS, hN', hP', hH', hA', hO'⟩ :=
    applyComps_spec order w t w' t' hwf (cfgOK_of_sframe hF hcfg) hR.noClosed hlen h
  have hsym' : w'.wOverlapSym = true := by
    have hpk : w'.pairOK = w.pairOK := by funext a b; simp [pairOK, hS.overlap]
    simp only [wOverlapSym, hS.overlap, hpk] at hsym ⊢
    exact hsym
  have hHw' := hH' hH
  exact ⟨⟨hF.trans hS, WInv_of_clauses (hP' (Or.inl ⟨k0, o0, hm0⟩)) hHw' (hA' (Or.inr hA)) (hO' (Or.inr hO))
    (hN' hN) hsym'⟩, hHw'⟩

theorem XInvA.inv' {cfg : Cfg} {w0 w : World} (h : XInvA w0 w) : Inv cfg w0 w := by
  unfold Inv
  cases cfg.which <;> first | exact h.toXInv | exact h

/-- the state of a live object: nothing happened yet (the constructed world, no reward dict), or the
invariant of the class holds -/
def Good (cfg : Cfg) (w0 : World) (s : St) : Prop :=
  match s.rewards with
  | none => s.w = w0
  | some _ => Inv cfg w0 s.w

/-- the hypotheses on one call -/
def OpOK (cfg : Cfg) (w0 : World) : EOp → Prop
  | .reset order _ => ResetOK cfg w0 order
  | .step acts _ => ActsOK cfg w0 acts
  | _ => True

theorem reset_good {cfg : Cfg} {w0 : World} (hcfg : CfgOK w0) (hfresh : w0.vitalsAlive = true)
    {order : List StateComp} (hR : ResetOK cfg w0 order) {s s' : St} (hG : Good cfg w0 s)
    (h : reset cfg order s = .ok s') : s'.rewards.isSome = true ∧ XInvA w0 s'.w := by
  unfold reset at h
  split at h
  · cases h
  · split at h
    · cases h
    · rename_i w' t' ha
      simp only [Except.ok.injEq] at h
      subst h
      refine ⟨rfl, ?_⟩
      unfold Good at hG
      cases hr : s.rewards with
      | none =>
        rw [hr] at hG
        simp only at hG
        obtain ⟨hH, hA, hO, hN⟩ := vitalsAlive_clauses hfresh
        rw [hG] at ha
        exact reset_establishes hcfg hR (SFrame.refl w0) (Or.inr hH) hA hO hN ha
      | some r =>
        rw [hr] at hG
        simp only at hG
        have hX := hG.xinv
        have hH : StateComp.health ∈ order ∨ HealthC s.w := by
          unfold Inv at hG
          cases hc : cfg.which <;> rw [hc] at hG <;> simp only at hG
          · exact Or.inl (hR.health (Or.inl hc))
          · exact Or.inl (hR.health (Or.inr hc))
          · exact Or.inr hG.alive
          · exact Or.inr hG.alive
          · exact Or.inr hG.alive
        exact reset_establishes hcfg hR hX.frame hH (ammoC_of_WInv hX.inv) (orientC_of_WInv hX.inv)
          (noAmmoC_of_WInv hX.inv) ha

theorem step_good {cfg : Cfg} {w0 : World} (hcfg : CfgOK w0) {acts : List (Aid × Act)}
    (hA : ActsOK cfg w0 acts) {s s' : St} (hG : Good cfg w0 s) (h : step cfg s acts = .ok s') :
    ∃ r, s.rewards = some r ∧ s'.rewards.isSome = true ∧
      runGOpsSeq s.w s.tape (stepOps cfg acts) = .ok (s'.w, s'.tape) ∧ Inv cfg w0 s'.w := by
  unfold step at h
  split at h
  · cases h
  · rename_i r hr
    split at h
    · cases h
    · rename_i p hp
      simp only [Except.ok.injEq] at h
      subst h
      unfold Good at hG
      rw [hr] at hG
      obtain ⟨h1, h2⟩ := stepPS_hist hcfg (p := ⟨s.w, r, s.tape⟩) hG hA hp
      exact ⟨r, hr, rfl, h1, h2⟩

/-- **every call keeps the state good** -/
theorem runOp_good {cfg : Cfg} {w0 : World} (hcfg : CfgOK w0) (hfresh : w0.vitalsAlive = true)
    (s : St) (op : EOp) (hop : OpOK cfg w0 op) (hG : Good cfg w0 s) : Good cfg w0 (runOp cfg s op).2 := by
  cases op with
  | reset order tape =>
    simp only [runOp]
    cases h : reset cfg order { s with tape := tape } with
    | error e => exact hG
    | ok s' =>
      obtain ⟨hs, hX⟩ := reset_good hcfg hfresh hop (s := { s with tape := tape }) hG h
      simp only
      unfold Good
      cases hr : s'.rewards with
      | none => rw [hr] at hs; cases hs
      | some r => exact hX.inv'
  | step acts tape =>
    simp only [runOp]
    cases h : step cfg { s with tape := tape } acts with
    | error e => exact hG
    | ok s' =>
      obtain ⟨r, _, hs, _, hI⟩ := step_good hcfg hop (s := { s with tape := tape }) hG h
      simp only
      unfold Good
      cases hr : s'.rewards with
      | none => rw [hr] at hs; cases hs
      | some r => exact hI
  | obs a tape =>
    simp only [runOp]
    cases h : getObs cfg { s with tape := tape } a with
    | error e => exact hG
    | ok r =>
      obtain ⟨o, s'⟩ := r
      obtain ⟨t', rfl⟩ := getObs_shape h
      exact hG
  | rew a =>
    simp only [runOp]
    cases h : getReward cfg s a with
    | error e => exact hG
    | ok r =>
      obtain ⟨x, s'⟩ := r
      obtain ⟨r0, hr0, _, rfl⟩ := getReward_shape h
      unfold Good at hG ⊢
      rw [hr0] at hG
      exact hG
  | done a => exact hG
  | allDone => exact hG

/-- whatever every call preserves holds after a history -/
theorem runOps_inv {cfg : Cfg} (P : St → Prop) :
    ∀ (ops : List EOp) (s : St), (∀ op ∈ ops, ∀ s, P s → P (runOp cfg s op).2) → P s → P (runOps cfg s ops).2 := by
  intro ops
  induction ops with
  | nil => intro s _ hP; exact hP
  | cons op ops ih =>
    intro s hstep hP
    have h1 := hstep op List.mem_cons_self s hP
    simp only [runOps]
    split
    · exact h1
    · exact ih _ (fun o ho => hstep o (List.mem_cons_of_mem _ ho)) h1

/-- the state after a history -/
theorem runOps_good {cfg : Cfg} {w0 : World} (hcfg : CfgOK w0) (hfresh : w0.vitalsAlive = true)
    (ops : List EOp) (s : St) (hops : ∀ op ∈ ops, OpOK cfg w0 op) (hG : Good cfg w0 s) :
    Good cfg w0 (runOps cfg s ops).2 :=
  runOps_inv (Good cfg w0) ops s (fun op ho s' hs' => runOp_good hcfg hfresh s' op (hops op ho) hs') hG

end Ex
end Abmarl
