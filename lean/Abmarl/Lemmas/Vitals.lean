import Abmarl.Model.Vitals
import Abmarl.Spec.Placement
import Abmarl.Lemmas.GridInv
import Mathlib.Tactic.NormNum
import Mathlib.Tactic.Positivity
import Mathlib.Tactic.Linarith
import Mathlib.Algebra.Order.Field.Rat
/-!
# The vitals state components establish their clauses of the world invariant and touch nothing else
-/
namespace Abmarl
namespace World

/-- nothing but per-agent vitals changed: grid, table, configuration and every position are the same -/
structure VFrame (w w' : World) : Prop where
  rows : w'.rows = w.rows
  cols : w'.cols = w.cols
  overlap : w'.overlap = w.overlap
  cells : w'.cells = w.cells
  cfg : w'.cfg = w.cfg
  len : w'.st.length = w.st.length
  pos : ∀ b, (w'.stOf b).pos = (w.stOf b).pos

theorem VFrame.refl (w : World) : VFrame w w := ⟨rfl, rfl, rfl, rfl, rfl, rfl, fun _ => rfl⟩

theorem VFrame.trans {w w' w'' : World} (h : VFrame w w') (h' : VFrame w' w'') : VFrame w w'' :=
  ⟨h'.rows.trans h.rows, h'.cols.trans h.cols, h'.overlap.trans h.overlap, h'.cells.trans h.cells,
   h'.cfg.trans h.cfg, h'.len.trans h.len, fun b => (h'.pos b).trans (h.pos b)⟩

theorem stOf_setSt (w : World) (a b : Aid) (s : AgentSt) :
    (w.setSt a s).stOf b = if b = a ∧ a < w.st.length then s else w.stOf b := by
  by_cases hba : b = a
  · subst hba
    by_cases hl : b < w.st.length
    · simp [hl, stOf_setSt_same _ _ _ hl]
    · simp only [hl, and_false, if_false, setSt, stOf]
      rw [List.getD_eq_getElem?_getD, List.getD_eq_getElem?_getD, List.getElem?_set]
      simp [hl]
  · simp only [hba, false_and, if_false, setSt, stOf]
    exact getD_set_ne _ _ _ _ _ (fun e => hba e.symm)

theorem VFrame.of_setSt (w : World) (a : Aid) (s : AgentSt) (hp : s.pos = (w.stOf a).pos) :
    VFrame w (w.setSt a s) :=
  ⟨rfl, rfl, rfl, rfl, rfl, by simp [setSt], fun b => by
    rw [stOf_setSt]; by_cases h : b = a ∧ a < w.st.length
    · simp [h, hp, h.1]
    · simp [h]⟩

theorem cfgOf_of_frame {w w' : World} (h : VFrame w w') (b : Aid) : w'.cfgOf b = w.cfgOf b := by
  simp [cfgOf, h.cfg]

theorem n_of_frame {w w' : World} (h : VFrame w w') : w'.n = w.n := by simp [n, h.cfg]

/-! ## health -/

theorem clamp_id {h : Rat} (h0 : 0 < h) (h1 : h ≤ 1) : min (max h 0) 1 = h := by
  rw [max_eq_left (le_of_lt h0), min_eq_left h1]

theorem uniform01_pos (t : Tape) : 0 < (Oracle.uniform01 t).1 ∧ (Oracle.uniform01 t).1 ≤ 1 := by
  simp only [Oracle.uniform01, Oracle.pop]
  constructor
  · rw [Rat.mkRat_eq_div]; positivity
  · rw [Rat.mkRat_eq_div, div_le_one (by norm_num)]
    have : t.headD 0 % 1023 < 1023 := Nat.mod_lt _ (by norm_num)
    exact_mod_cast (by omega : t.headD 0 % 1023 + 1 ≤ 1024)

/-- configuration facts the constructors guarantee (C19): initial health in (0,1], initial
orientation one of the four directions -/
structure CfgOK (w : World) : Prop where
  health : ∀ a h, (w.cfgOf a).initHealth = some h → 0 < h ∧ h ≤ 1
  orient : ∀ a o, (w.cfgOf a).initOrient = some o → o ≤ 4

theorem healthResetFrom_spec (l : List Aid) :
    ∀ (w : World) (t : Tape), l.Nodup → CfgOK w →
      VFrame w (healthResetFrom false l w t).1 ∧
      (∀ b, b ∉ l → (healthResetFrom false l w t).1.stOf b = w.stOf b) ∧
      (∀ b, ((healthResetFrom false l w t).1.stOf b).ammo = (w.stOf b).ammo ∧
            ((healthResetFrom false l w t).1.stOf b).orient = (w.stOf b).orient) ∧
      (∀ b ∈ l, b < w.st.length →
        0 < ((healthResetFrom false l w t).1.stOf b).health ∧
        ((healthResetFrom false l w t).1.stOf b).health ≤ 1 ∧
        ((healthResetFrom false l w t).1.stOf b).active = true) := by
  induction l with
  | nil => intro w t _ _; exact ⟨VFrame.refl w, fun _ _ => rfl, fun _ => ⟨rfl, rfl⟩, fun b hb => by cases hb⟩
  | cons a as ih =>
    intro w t hnd hc
    have hnd' := List.nodup_cons.mp hnd
    -- the value written for `a` and the world after writing it
    obtain ⟨h, t1, hEq, hh⟩ : ∃ (h : Rat) (t1 : Tape),
        healthResetFrom false (a :: as) w t = healthResetFrom false as (w.setHealth a h) t1 ∧
        0 < h ∧ h ≤ 1 := by
      cases hi : (w.cfgOf a).initHealth with
      | some h => exact ⟨h, t, by simp [healthResetFrom, hi], hc.health a h hi⟩
      | none =>
        exact ⟨(Oracle.uniform01 t).1, (Oracle.uniform01 t).2, by simp [healthResetFrom, hi],
          uniform01_pos t⟩
    rw [hEq]
    obtain ⟨w1, hw1⟩ : ∃ w1, w1 = w.setHealth a h := ⟨_, rfl⟩
    rw [← hw1]
    have hw1' : w1 = w.setSt a { w.stOf a with health := h, active := true } := by
      rw [hw1]; simp only [setHealth, clamp_id hh.1 hh.2, hh.1, decide_true]
    have hF1 : VFrame w w1 := by rw [hw1']; exact VFrame.of_setSt w a _ rfl
    have hc1 : CfgOK w1 := ⟨fun b x hx => hc.health b x (by rw [← cfgOf_of_frame hF1 b]; exact hx),
      fun b x hx => hc.orient b x (by rw [← cfgOf_of_frame hF1 b]; exact hx)⟩
    obtain ⟨i1, i2, i3, i4⟩ := ih w1 t1 hnd'.2 hc1
    have hst1 : ∀ b, w1.stOf b =
        if b = a ∧ a < w.st.length then { w.stOf a with health := h, active := true } else w.stOf b := by
      intro b; rw [hw1']; exact stOf_setSt w a b _
    refine ⟨hF1.trans i1, ?_, ?_, ?_⟩
    · intro b hb
      have hba : b ≠ a := fun e => hb (e ▸ List.mem_cons_self)
      rw [i2 b (fun h' => hb (List.mem_cons_of_mem _ h')), hst1 b]
      simp [hba]
    · intro b
      rw [(i3 b).1, (i3 b).2, hst1 b]
      by_cases hb : b = a ∧ a < w.st.length
      · simp [hb, hb.1]
      · simp [hb]
    · intro b hb hbl
      rcases List.mem_cons.mp hb with rfl | hb'
      · rw [i2 b hnd'.1, hst1 b]
        simp [hbl, hh.1, hh.2]
      · exact i4 b hb' (by rw [hF1.len]; exact hbl)

end World
end Abmarl

namespace Abmarl
namespace World

/-! ## ammunition -/

theorem ammoResetFrom_spec (l : List Aid) :
    ∀ (w : World), l.Nodup →
      VFrame w (ammoResetFrom l w) ∧
      (∀ b, b ∉ l → (ammoResetFrom l w).stOf b = w.stOf b) ∧
      (∀ b, ((ammoResetFrom l w).stOf b).health = (w.stOf b).health ∧
            ((ammoResetFrom l w).stOf b).active = (w.stOf b).active ∧
            ((ammoResetFrom l w).stOf b).orient = (w.stOf b).orient) ∧
      (∀ b ∈ l, b < w.st.length → (w.cfgOf b).hasAmmo = true →
        ((ammoResetFrom l w).stOf b).ammo = max 0 (w.cfgOf b).initAmmo) ∧
      (∀ b, (w.cfgOf b).hasAmmo = false → ((ammoResetFrom l w).stOf b).ammo = (w.stOf b).ammo) := by
  induction l with
  | nil =>
    intro w _
    refine ⟨VFrame.refl w, fun _ _ => rfl, fun _ => ⟨rfl, rfl, rfl⟩, ?_, fun _ _ => rfl⟩
    intro b hb; cases hb
  | cons a as ih =>
    intro w hnd
    have hnd' := List.nodup_cons.mp hnd
    obtain ⟨w1, hw1⟩ : ∃ w1, w1 = (if (w.cfgOf a).hasAmmo then w.setAmmo a (w.cfgOf a).initAmmo else w) :=
      ⟨_, rfl⟩
    have hEq : ammoResetFrom (a :: as) w = ammoResetFrom as w1 := by rw [hw1]; rfl
    rw [hEq]
    have hval : ∀ v : Int, (if v < 0 then (0 : Int) else v) = max 0 v := by
      intro v; by_cases h : v < 0
      · simp [h]; omega
      · simp [h]; omega
    have hst1 : ∀ b, w1.stOf b =
        if (w.cfgOf a).hasAmmo = true ∧ b = a ∧ a < w.st.length
        then { w.stOf a with ammo := max 0 (w.cfgOf a).initAmmo } else w.stOf b := by
      intro b
      rw [hw1]
      by_cases hA : (w.cfgOf a).hasAmmo = true
      · simp only [hA, if_true, setAmmo, stOf_setSt, hval, true_and]
      · simp [hA]
    have hF1 : VFrame w w1 := by
      rw [hw1]
      by_cases hA : (w.cfgOf a).hasAmmo = true
      · simp only [hA, if_true, setAmmo]; exact VFrame.of_setSt w a _ rfl
      · simp only [hA, Bool.false_eq_true, if_false]; exact VFrame.refl w
    obtain ⟨i1, i2, i3, i4, i5⟩ := ih w1 hnd'.2
    have hcf : ∀ b, w1.cfgOf b = w.cfgOf b := cfgOf_of_frame hF1
    refine ⟨hF1.trans i1, ?_, ?_, ?_, ?_⟩
    · intro b hb
      have hba : b ≠ a := fun e => hb (e ▸ List.mem_cons_self)
      rw [i2 b (fun h' => hb (List.mem_cons_of_mem _ h')), hst1 b]
      simp [hba]
    · intro b
      rw [(i3 b).1, (i3 b).2.1, (i3 b).2.2, hst1 b]
      by_cases hb : (w.cfgOf a).hasAmmo = true ∧ b = a ∧ a < w.st.length
      · simp [hb, hb.2.1]
      · simp [hb]
    · intro b hb hbl hA
      rcases List.mem_cons.mp hb with rfl | hb'
      · rw [i2 b hnd'.1, hst1 b]
        simp [hA, hbl]
      · rw [← hcf b]
        exact i4 b hb' (by rw [hF1.len]; exact hbl) (by rw [hcf b]; exact hA)
    · intro b hA
      rw [i5 b (by rw [hcf b]; exact hA), hst1 b]
      by_cases hb : (w.cfgOf a).hasAmmo = true ∧ b = a ∧ a < w.st.length
      · obtain ⟨h1, h2, _⟩ := hb
        subst h2; rw [h1] at hA; cases hA
      · simp [hb]

/-! ## orientation -/

theorem randint15 (t : Tape) : 1 ≤ (Oracle.randint 1 5 t).1.toNat ∧ (Oracle.randint 1 5 t).1.toNat ≤ 4 := by
  simp only [Oracle.randint, Oracle.pop]
  have h1 : (0 : Int) ≤ (t.headD 0 : Int) % (5 - 1) := Int.emod_nonneg _ (by norm_num)
  have h2 : (t.headD 0 : Int) % (5 - 1) < 4 := by
    have := Int.emod_lt_of_pos (t.headD 0 : Int) (by norm_num : (0 : Int) < 5 - 1)
    simpa using this
  omega

theorem orientResetFrom_spec (l : List Aid) :
    ∀ (w : World) (t : Tape), l.Nodup → CfgOK w →
      VFrame w (orientResetFrom l w t).1 ∧
      (∀ b, b ∉ l → (orientResetFrom l w t).1.stOf b = w.stOf b) ∧
      (∀ b, ((orientResetFrom l w t).1.stOf b).health = (w.stOf b).health ∧
            ((orientResetFrom l w t).1.stOf b).active = (w.stOf b).active ∧
            ((orientResetFrom l w t).1.stOf b).ammo = (w.stOf b).ammo) ∧
      (∀ b ∈ l, b < w.st.length → (w.cfgOf b).hasOrient = true →
        1 ≤ ((orientResetFrom l w t).1.stOf b).orient ∧ ((orientResetFrom l w t).1.stOf b).orient ≤ 4) := by
  induction l with
  | nil =>
    intro w t _ _
    refine ⟨VFrame.refl w, fun _ _ => rfl, fun _ => ⟨rfl, rfl, rfl⟩, ?_⟩
    intro b hb; cases hb
  | cons a as ih =>
    intro w t hnd hc
    have hnd' := List.nodup_cons.mp hnd
    by_cases hO : (w.cfgOf a).hasOrient = true
    · -- some direction x ∈ 1..4 is written for `a`
      obtain ⟨x, t1, hEq, hx⟩ : ∃ (x : Nat) (t1 : Tape),
          orientResetFrom (a :: as) w t =
            orientResetFrom as (w.setSt a { w.stOf a with orient := x }) t1 ∧ 1 ≤ x ∧ x ≤ 4 := by
        cases hi : (w.cfgOf a).initOrient with
        | none =>
          exact ⟨(Oracle.randint 1 5 t).1.toNat, (Oracle.randint 1 5 t).2,
            by simp [orientResetFrom, hO, hi], randint15 t⟩
        | some o =>
          cases o with
          | zero =>
            exact ⟨(Oracle.randint 1 5 t).1.toNat, (Oracle.randint 1 5 t).2,
              by simp [orientResetFrom, hO, hi], randint15 t⟩
          | succ o =>
            exact ⟨o + 1, t, by simp [orientResetFrom, hO, hi], by omega, hc.orient a _ hi⟩
      rw [hEq]
      obtain ⟨w1, hw1⟩ : ∃ w1, w1 = w.setSt a { w.stOf a with orient := x } := ⟨_, rfl⟩
      rw [← hw1]
      have hF1 : VFrame w w1 := by rw [hw1]; exact VFrame.of_setSt w a _ rfl
      have hc1 : CfgOK w1 := ⟨fun b y hy => hc.health b y (by rw [← cfgOf_of_frame hF1 b]; exact hy),
        fun b y hy => hc.orient b y (by rw [← cfgOf_of_frame hF1 b]; exact hy)⟩
      have hst1 : ∀ b, w1.stOf b =
          if b = a ∧ a < w.st.length then { w.stOf a with orient := x } else w.stOf b := by
        intro b; rw [hw1]; exact stOf_setSt w a b _
      obtain ⟨i1, i2, i3, i4⟩ := ih w1 t1 hnd'.2 hc1
      have hcf : ∀ b, w1.cfgOf b = w.cfgOf b := cfgOf_of_frame hF1
      refine ⟨hF1.trans i1, ?_, ?_, ?_⟩
      · intro b hb
        have hba : b ≠ a := fun e => hb (e ▸ List.mem_cons_self)
        rw [i2 b (fun h' => hb (List.mem_cons_of_mem _ h')), hst1 b]
        simp [hba]
      · intro b
        rw [(i3 b).1, (i3 b).2.1, (i3 b).2.2, hst1 b]
        by_cases hb : b = a ∧ a < w.st.length
        · simp [hb, hb.1]
        · simp [hb]
      · intro b hb hbl hOb
        rcases List.mem_cons.mp hb with rfl | hb'
        · rw [i2 b hnd'.1, hst1 b]
          simp [hbl, hx.1, hx.2]
        · exact i4 b hb' (by rw [hF1.len]; exact hbl) (by rw [hcf b]; exact hOb)
    · have hEq : orientResetFrom (a :: as) w t = orientResetFrom as w t := by
        simp [orientResetFrom, hO]
      rw [hEq]
      obtain ⟨i1, i2, i3, i4⟩ := ih w t hnd'.2 hc
      refine ⟨i1, fun b hb => i2 b (fun h' => hb (List.mem_cons_of_mem _ h')), i3, ?_⟩
      intro b hb hbl hOb
      rcases List.mem_cons.mp hb with rfl | hb'
      · exact absurd hOb hO
      · exact i4 b hb' hbl hOb

end World
end Abmarl
