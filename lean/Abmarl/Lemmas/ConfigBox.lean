import Abmarl.Spec.Config
import Mathlib.Tactic.Tauto
import Mathlib.Data.Rat.Defs
/-!
# Lemmas for C19: `np.asarray` on nested lists, characterised by shape and leaves

`asArr_ok_iff`: the model's conversion succeeds with shape `sh` and values `xs` exactly when the
nesting is rectangular of shape `sh` (`rect`, defined in the specification independently of the
model), every leaf converts, and `xs` are the converted leaves in order.
-/
namespace Abmarl
namespace Cfg

/-- does `np.asarray(leaf, dtype)` succeed -/
def leafOk (isInt : Bool) (l : PyVal) : Bool :=
  match leafConv isInt l with
  | .ok _ _ => true
  | _ => false

/-- the element it produces -/
def leafVal (isInt : Bool) (l : PyVal) : Flt :=
  match leafConv isInt l with
  | .ok _ (x :: _) => x
  | _ => .nan

theorem leafConv_ok (isInt : Bool) (v : PyVal) (sh : List Nat) (xs : List Flt)
    (h : leafConv isInt v = .ok sh xs) : sh = [] ∧ ∃ x, xs = [x] := by
  cases v <;> simp only [leafConv] at h <;> (try split at h) <;> (try split at h) <;> (try split at h) <;>
    first
    | (injection h with h1 h2; exact ⟨h1.symm, _, h2.symm⟩)
    | cases h

theorem leafConv_ok_iff (isInt : Bool) (v : PyVal) (sh : List Nat) (xs : List Flt) :
    leafConv isInt v = .ok sh xs ↔ (sh = [] ∧ leafOk isInt v = true ∧ xs = [leafVal isInt v]) := by
  constructor
  · intro h
    obtain ⟨h1, x, h2⟩ := leafConv_ok isInt v sh xs h
    subst h1 h2
    simp [leafOk, leafVal, h]
  · rintro ⟨h1, h2, h3⟩
    subst h1 h3
    unfold leafOk at h2
    cases hc : leafConv isInt v with
    | ok sh' xs' =>
      obtain ⟨h1, x, h2'⟩ := leafConv_ok isInt v sh' xs' hc
      subst h1 h2'
      simp [leafVal, hc]
    | raises => simp [hc] at h2
    | unmodelled => simp [hc] at h2

theorem asArrs_eq_map (isInt : Bool) (l : List PyVal) : asArrs isInt l = l.map (asArr isInt) := by
  induction l with
  | nil => simp [asArrs]
  | cons v vs ih => simp [asArrs, ih]

theorem rects_eq_map (l : List PyVal) : rects l = l.map rect := by
  induction l with
  | nil => simp [rects]
  | cons v vs ih => simp [rects, ih]

theorem leavesL_eq_flatMap (l : List PyVal) : leavesL l = l.flatMap leaves := by
  induction l with
  | nil => simp [leavesL]
  | cons v vs ih => simp [leavesL, ih]

theorem isOkShape_iff (sh : List Nat) (r : AsArr) : r.isOkShape sh = true ↔ ∃ xs, r = .ok sh xs := by
  cases r with
  | ok sh' xs =>
    simp only [AsArr.isOkShape, beq_iff_eq]
    constructor
    · intro h; subst h; exact ⟨xs, rfl⟩
    · rintro ⟨xs', h⟩; injection h with h1 _
  | raises => simp [AsArr.isOkShape]
  | unmodelled => simp [AsArr.isOkShape]

/-- `combine` succeeds exactly on a list of same-shaped successes -/
theorem combine_ok_iff (rs : List AsArr) (sh : List Nat) (xs : List Flt) :
    combine rs = .ok sh xs ↔
      ((rs = [] ∧ sh = [0] ∧ xs = []) ∨
       (∃ sh0, rs ≠ [] ∧ (∀ r ∈ rs, r.isOkShape sh0 = true) ∧ sh = rs.length :: sh0 ∧
          xs = rs.flatMap AsArr.valsOf)) := by
  constructor
  · intro h
    unfold combine at h
    by_cases hu : (rs.any (· == .unmodelled)) = true
    · rw [if_pos hu] at h; cases h
    rw [if_neg hu] at h
    by_cases hr : (rs.any (· == .raises)) = true
    · rw [if_pos hr] at h; cases h
    rw [if_neg hr] at h
    cases rs with
    | nil =>
      simp only at h
      injection h with h1 h2
      exact Or.inl ⟨rfl, h1.symm, h2.symm⟩
    | cons r rest =>
      cases r with
      | ok sh0 vs0 =>
        simp only at h
        by_cases hall : ((AsArr.ok sh0 vs0 :: rest).all (AsArr.isOkShape sh0)) = true
        · rw [if_pos hall] at h
          injection h with h1 h2
          exact Or.inr ⟨sh0, by simp, fun r hr => (List.all_eq_true.mp hall) r hr, h1.symm, h2.symm⟩
        · rw [if_neg hall] at h; cases h
      | raises => simp only at h; cases h
      | unmodelled => simp only at h; cases h
  · rintro (⟨h1, h2, h3⟩ | ⟨sh0, hne, hall, h2, h3⟩)
    · subst h1 h2 h3; rfl
    · subst h2 h3
      have hnu : (rs.any (· == .unmodelled)) = false := by
        rw [List.any_eq_false]
        intro r hr
        obtain ⟨xs, hx⟩ := (isOkShape_iff sh0 r).mp (hall r hr)
        subst hx; simp
      have hnr : (rs.any (· == .raises)) = false := by
        rw [List.any_eq_false]
        intro r hr
        obtain ⟨xs, hx⟩ := (isOkShape_iff sh0 r).mp (hall r hr)
        subst hx; simp
      unfold combine
      rw [hnu, hnr]
      simp only [Bool.false_eq_true, if_false]
      cases rs with
      | nil => exact absurd rfl hne
      | cons r rest =>
        obtain ⟨xs0, hx⟩ := (isOkShape_iff sh0 r).mp (hall r (by simp))
        subst hx
        have : ((AsArr.ok sh0 xs0 :: rest).all (AsArr.isOkShape sh0)) = true := List.all_eq_true.mpr hall
        simp only [this, if_true]

theorem rectOf_some_iff (shs : List (Option (List Nat))) (sh : List Nat) :
    rectOf shs = some sh ↔
      ((shs = [] ∧ sh = [0]) ∨
       (∃ sh0, shs ≠ [] ∧ (∀ x ∈ shs, x = some sh0) ∧ sh = shs.length :: sh0)) := by
  cases shs with
  | nil => simp [rectOf, eq_comm]
  | cons x rest =>
    cases x with
    | none =>
      simp only [rectOf]
      constructor
      · intro h; cases h
      · rintro (⟨h, _⟩ | ⟨sh0, _, hall, _⟩)
        · cases h
        · have := hall none (by simp); cases this
    | some sh0 =>
      simp only [rectOf]
      constructor
      · intro h
        split at h
        · rename_i hall
          injection h with h
          refine Or.inr ⟨sh0, by simp, ?_, by simp [← h]⟩
          intro y hy
          rcases List.mem_cons.mp hy with rfl | hy
          · rfl
          · simpa using (List.all_eq_true.mp hall) y hy
        · cases h
      · rintro (⟨h, _⟩ | ⟨sh1, _, hall, hsh⟩)
        · cases h
        · have h0 : some sh0 = some sh1 := hall _ (by simp)
          injection h0 with h0
          subst h0
          have : (rest.all (· == some sh0)) = true := by
            rw [List.all_eq_true]
            intro y hy
            simpa using hall y (List.mem_cons_of_mem _ hy)
          rw [if_pos this, hsh]
          simp

/-- what a successful conversion looks like, in terms of the specification's `rect` and `leaves` -/
def ConvR (isInt : Bool) (v : PyVal) (sh : List Nat) (xs : List Flt) : Prop :=
  rect v = some sh ∧ (∀ l ∈ leaves v, leafOk isInt l = true) ∧ xs = (leaves v).map (leafVal isInt)

theorem flatMap_vals (isInt : Bool) (l : List PyVal)
    (h : ∀ v ∈ l, (asArr isInt v).valsOf = (leaves v).map (leafVal isInt)) :
    (l.map (asArr isInt)).flatMap AsArr.valsOf = (l.flatMap leaves).map (leafVal isInt) := by
  induction l with
  | nil => rfl
  | cons v vs ih =>
    simp only [List.map_cons, List.flatMap_cons, List.map_append]
    rw [h v (by simp), ih (fun w hw => h w (List.mem_cons_of_mem _ hw))]

theorem asArr_seq_step (isInt : Bool) (l : List PyVal)
    (ih : ∀ v ∈ l, ∀ sh xs, asArr isInt v = .ok sh xs ↔ ConvR isInt v sh xs) (sh : List Nat) (xs : List Flt) :
    combine (asArrs isInt l) = .ok sh xs ↔
      (rectOf (rects l) = some sh ∧ (∀ x ∈ leavesL l, leafOk isInt x = true) ∧
        xs = (leavesL l).map (leafVal isInt)) := by
  rw [asArrs_eq_map, rects_eq_map, leavesL_eq_flatMap, combine_ok_iff, rectOf_some_iff]
  cases l with
  | nil => simp
  | cons v0 vs =>
    obtain ⟨l, hl⟩ : ∃ l, l = v0 :: vs := ⟨_, rfl⟩
    rw [← hl] at ih ⊢
    have hne : l ≠ [] := by rw [hl]; simp
    have hne1 : l.map (asArr isInt) ≠ [] := by rw [hl]; simp
    have hne2 : l.map rect ≠ [] := by rw [hl]; simp
    constructor
    · rintro (⟨h, _⟩ | ⟨sh0, _, hall, hsh, hxs⟩)
      · exact absurd h hne1
      · have hv : ∀ v ∈ l, ∃ xs', asArr isInt v = .ok sh0 xs' := fun v hv =>
          (isOkShape_iff sh0 _).mp (hall _ (List.mem_map_of_mem hv))
        have hR : ∀ v ∈ l, ∃ xs', asArr isInt v = .ok sh0 xs' ∧ ConvR isInt v sh0 xs' := fun v hm => by
          obtain ⟨xs', hx⟩ := hv v hm
          exact ⟨xs', hx, (ih v hm sh0 xs').mp hx⟩
        refine ⟨Or.inr ⟨sh0, hne2, ?_, by simpa using hsh⟩, ?_, ?_⟩
        · intro x hx
          obtain ⟨v, hm, rfl⟩ := List.mem_map.mp hx
          obtain ⟨xs', _, hr, _, _⟩ := hR v hm
          exact hr
        · intro x hx
          obtain ⟨v, hm, hxv⟩ := List.mem_flatMap.mp hx
          obtain ⟨xs', _, _, hok, _⟩ := hR v hm
          exact hok x hxv
        · rw [hxs]
          apply flatMap_vals
          intro v hm
          obtain ⟨xs', hx, _, _, hval⟩ := hR v hm
          rw [hx, AsArr.valsOf, hval]
    · rintro ⟨(⟨h, _⟩ | ⟨sh0, _, hall, hsh⟩), hok, hxs⟩
      · exact absurd h hne2
      · have hA : ∀ v ∈ l, asArr isInt v = .ok sh0 ((leaves v).map (leafVal isInt)) := fun v hm =>
          (ih v hm sh0 _).mpr ⟨hall _ (List.mem_map_of_mem hm),
            fun x hx => hok x (List.mem_flatMap.mpr ⟨v, hm, hx⟩), rfl⟩
        refine Or.inr ⟨sh0, hne1, ?_, by simpa using hsh, ?_⟩
        · intro r hr
          obtain ⟨v, hm, rfl⟩ := List.mem_map.mp hr
          exact (isOkShape_iff sh0 _).mpr ⟨_, hA v hm⟩
        · rw [hxs]
          symm
          apply flatMap_vals
          intro v hm
          rw [hA v hm, AsArr.valsOf]

theorem asArr_leaf (isInt : Bool) (v : PyVal) (hl : ∀ l, v ≠ .list l) (ht : ∀ l, v ≠ .tuple l) :
    asArr isInt v = leafConv isInt v ∧ rect v = some [] ∧ leaves v = [v] := by
  cases v <;> first
    | exact absurd rfl (hl _)
    | exact absurd rfl (ht _)
    | exact ⟨by simp [asArr], by simp [rect], by simp [leaves]⟩

theorem convR_leaf (isInt : Bool) (v : PyVal) (hl : ∀ l, v ≠ .list l) (ht : ∀ l, v ≠ .tuple l)
    (sh : List Nat) (xs : List Flt) : asArr isInt v = .ok sh xs ↔ ConvR isInt v sh xs := by
  obtain ⟨h1, h2, h3⟩ := asArr_leaf isInt v hl ht
  rw [h1, leafConv_ok_iff, ConvR, h2, h3]
  simp only [Option.some.injEq, List.mem_singleton, forall_eq, List.map_cons, List.map_nil]
  constructor
  · rintro ⟨a, b, c⟩; exact ⟨a.symm, b, c⟩
  · rintro ⟨a, b, c⟩; exact ⟨a.symm, b, c⟩

mutual
/-- **`np.asarray` on nested lists**: succeeds with shape `sh` and values `xs` iff the nesting is
rectangular of shape `sh`, every leaf converts, and `xs` are the converted leaves in order -/
theorem asArr_ok_iff (isInt : Bool) : ∀ (v : PyVal), ∀ (sh : List Nat) (xs : List Flt),
    asArr isInt v = .ok sh xs ↔ ConvR isInt v sh xs
  | .list l => by
    have ih := asArr_ok_iff_list isInt l
    intro sh xs
    rw [asArr, ConvR, rect, leaves]
    exact asArr_seq_step isInt l ih sh xs
  | .tuple l => by
    have ih := asArr_ok_iff_list isInt l
    intro sh xs
    rw [asArr, ConvR, rect, leaves]
    exact asArr_seq_step isInt l ih sh xs
  | .none => convR_leaf isInt _ (by intro l h; cases h) (by intro l h; cases h)
  | .bool _ => convR_leaf isInt _ (by intro l h; cases h) (by intro l h; cases h)
  | .int _ => convR_leaf isInt _ (by intro l h; cases h) (by intro l h; cases h)
  | .float _ => convR_leaf isInt _ (by intro l h; cases h) (by intro l h; cases h)
  | .str _ => convR_leaf isInt _ (by intro l h; cases h) (by intro l h; cases h)
  | .set _ => convR_leaf isInt _ (by intro l h; cases h) (by intro l h; cases h)
  | .dict _ => convR_leaf isInt _ (by intro l h; cases h) (by intro l h; cases h)
  | .ndarray _ _ _ => convR_leaf isInt _ (by intro l h; cases h) (by intro l h; cases h)
  | .npInt _ => convR_leaf isInt _ (by intro l h; cases h) (by intro l h; cases h)
  | .npFloat _ => convR_leaf isInt _ (by intro l h; cases h) (by intro l h; cases h)
  | .agent _ _ => convR_leaf isInt _ (by intro l h; cases h) (by intro l h; cases h)
theorem asArr_ok_iff_list (isInt : Bool) : ∀ (l : List PyVal), ∀ v ∈ l, ∀ (sh : List Nat) (xs : List Flt),
    asArr isInt v = .ok sh xs ↔ ConvR isInt v sh xs
  | [] => by intro v hv; cases hv
  | w :: ws => by
    have h1 := asArr_ok_iff isInt w
    have h2 := asArr_ok_iff_list isInt ws
    intro v hv sh xs
    rcases List.mem_cons.mp hv with hvw | hv'
    · rw [hvw]; exact h1 sh xs
    · exact h2 v hv' sh xs
end

/-! ## Membership as the documentation states it -/

/-- the exact number a leaf denotes for a box of the given element type, if it is admissible at
all: Python ints must fit int64 for an integer box, floats offered to an integer box must be whole
(and fit), `None` reads as `nan` in a float box; sets, dicts, strings, … denote nothing -/
def leafDen (isInt : Bool) : PyVal → Option Flt
  | .bool b => some (.fin (b2i b))
  | .int i => if isInt = true ∧ inI64 i = false then none else some (.fin i)
  | .float f =>
    if isInt then
      (match f with
       | .fin q => if q.den = 1 ∧ inI64 q.num = true then some (.fin q) else none
       | _ => none)
    else some f
  | .npInt i => some (.fin i)
  | .npFloat f =>
    if isInt then
      (match f with
       | .fin q => if q.den = 1 ∧ inI64 q.num = true then some (.fin q) else none
       | _ => none)
    else some f
  | .none => if isInt then none else some .nan
  | _ => none

/-- values that `Box.contains` hands to `np.asarray(x, dtype=self.dtype)` -/
def ViaAsarray (v : PyVal) : Prop :=
  (∀ i, v ≠ .int i) ∧ (∀ f, v ≠ .float f) ∧ (∀ dt sh xs, v ≠ .ndarray dt sh xs)

/-- **Box membership, declaratively.**  A Python `int` / `float` is a one-element vector (a float
only for a float box); an array needs a safely castable dtype, the box's shape and all elements
within the bounds; anything else must be a rectangular nesting of lists/tuples (a bare value having
shape `()`) of the box's shape whose leaves all denote numbers within the bounds. -/
def DocMember (b : BoxSp) (v : PyVal) : Prop :=
  (∃ i, v = .int i ∧ inI64 i = true ∧ b.shape = [1] ∧ inBounds b (.fin i) = true) ∨
  (∃ f, v = .float f ∧ b.isInt = false ∧ b.shape = [1] ∧ inBounds b f = true) ∨
  (∃ dt sh xs, v = .ndarray dt sh xs ∧ canCast dt b.isInt = true ∧ sh = b.shape ∧
      ∀ x ∈ xs, inBounds b x = true) ∨
  (ViaAsarray v ∧ rect v = some b.shape ∧
      ∀ l ∈ leaves v, ∃ x, leafDen b.isInt l = some x ∧ inBounds b x = true)

theorem inBounds_eq (b : BoxSp) (x : Flt) : (x.geR b.low && x.leR b.high) = inBounds b x := by
  cases x <;> simp [Flt.geR, Flt.leR, inBounds]

theorem boxTest_yes_iff (b : BoxSp) (dt : DT) (sh : List Nat) (xs : List Flt) :
    boxTest b dt sh xs = .yes ↔ (canCast dt b.isInt = true ∧ sh = b.shape ∧ ∀ x ∈ xs, inBounds b x = true) := by
  unfold boxTest
  constructor
  · intro h
    split at h
    · rename_i hc
      simp only [Bool.and_eq_true, beq_iff_eq, List.all_eq_true] at hc
      refine ⟨hc.1.1.1, hc.1.1.2, fun x hx => ?_⟩
      rw [← inBounds_eq, hc.1.2 x hx, hc.2 x hx]; rfl
    · cases h
  · rintro ⟨h1, h2, h3⟩
    have : (canCast dt b.isInt && (sh == b.shape) && xs.all (·.geR b.low) && xs.all (·.leR b.high)) = true := by
      simp only [Bool.and_eq_true, beq_iff_eq, List.all_eq_true]
      refine ⟨⟨⟨h1, h2⟩, fun x hx => ?_⟩, fun x hx => ?_⟩
      · have := h3 x hx; rw [← inBounds_eq] at this
        exact (Bool.and_eq_true_iff.mp this).1
      · have := h3 x hx; rw [← inBounds_eq] at this
        exact (Bool.and_eq_true_iff.mp this).2
    rw [if_pos this]

theorem truncQ_whole (q : Rat) (h : q.den = 1) : truncQ q = q.num ∧ ((q.num : Int) : Rat) = q := by
  refine ⟨?_, Rat.coe_int_num_of_den_eq_one h⟩
  unfold truncQ
  rw [h]
  simp

/-- finite and not an integer -/
def fracF : Flt → Bool
  | .fin q => q.den != 1
  | _ => false

/-- a float (Python or numpy) that is finite and not whole: what `int(x)` alters -/
def fracFloatLeaf : PyVal → Bool
  | .float f => fracF f
  | .npFloat f => fracF f
  | _ => false

theorem truncQ_changed_iff (q : Rat) : (((truncQ q : Int) : Rat) ≠ q) ↔ q.den ≠ 1 := by
  constructor
  · intro h hd
    obtain ⟨ht, hc⟩ := truncQ_whole q hd
    exact h (by rw [ht]; exact hc)
  · intro hd he
    apply hd
    rw [← he]
    simp

theorem leafChanged_eq (l : PyVal) : leafChanged l = fracFloatLeaf l := by
  have key : ∀ q : Rat, decide (((truncQ q : Int) : Rat) ≠ q) = (q.den != 1) := by
    intro q
    rw [Bool.eq_iff_iff]
    simp only [decide_eq_true_eq, truncQ_changed_iff, bne_iff_ne, ne_eq]
  cases l with
  | float f => cases f <;> simp [leafChanged, fracFloatLeaf, fracF, key]
  | npFloat f => cases f <;> simp [leafChanged, fracFloatLeaf, fracF, key]
  | _ => rfl

mutual
/-- the cast changed the value iff some leaf is a fractional float -/
theorem castChanged_eq : ∀ (v : PyVal), castChanged v = (leaves v).any fracFloatLeaf
  | .list l => by rw [castChanged, leaves]; exact castChangedL_eq l
  | .tuple l => by rw [castChanged, leaves]; exact castChangedL_eq l
  | .none => by simp [castChanged, leaves, leafChanged_eq]
  | .bool _ => by simp [castChanged, leaves, leafChanged_eq]
  | .int _ => by simp [castChanged, leaves, leafChanged_eq]
  | .float _ => by simp [castChanged, leaves, leafChanged_eq]
  | .str _ => by simp [castChanged, leaves, leafChanged_eq]
  | .set _ => by simp [castChanged, leaves, leafChanged_eq]
  | .dict _ => by simp [castChanged, leaves, leafChanged_eq]
  | .ndarray _ _ _ => by simp [castChanged, leaves, leafChanged_eq]
  | .npInt _ => by simp [castChanged, leaves, leafChanged_eq]
  | .npFloat _ => by simp [castChanged, leaves, leafChanged_eq]
  | .agent _ _ => by simp [castChanged, leaves, leafChanged_eq]
theorem castChangedL_eq : ∀ (l : List PyVal), castChangedL l = (leavesL l).any fracFloatLeaf
  | [] => rfl
  | v :: vs => by
    have h1 := castChanged_eq v
    have h2 := castChangedL_eq vs
    rw [castChangedL, leavesL, List.any_append, h1, h2]
end

theorem fracF_false_iff (f : Flt) : fracF f = false ↔ ∀ q, f = .fin q → q.den = 1 := by
  cases f with
  | fin q => simp [fracF]
  | nan => simp [fracF]
  | pinf => simp [fracF]
  | ninf => simp [fracF]

/-- leaf by leaf: when no fractional float is offered to an integer dtype the conversion
succeeds with an in-bounds element exactly when the leaf denotes an in-bounds number -/
theorem leaf_den_iff (b : BoxSp) (l : PyVal) (h : b.isInt = true → fracFloatLeaf l = false) :
    (leafOk b.isInt l = true ∧ inBounds b (leafVal b.isInt l) = true) ↔
      ∃ x, leafDen b.isInt l = some x ∧ inBounds b x = true := by
  cases hI : b.isInt with
  | false =>
    cases l <;> simp [leafOk, leafVal, leafConv, leafDen, inBounds]
  | true =>
    have h' := h hI
    cases l with
    | float f =>
      cases f with
      | fin q =>
        have hq : q.den = 1 := (fracF_false_iff _).mp (by simpa [fracFloatLeaf] using h') q rfl
        obtain ⟨ht, hc⟩ := truncQ_whole q hq
        by_cases hi : inI64 q.num = true
        · simp [leafOk, leafVal, leafConv, leafDen, ht, hi, hq, hc]
        · simp [leafOk, leafVal, leafConv, leafDen, ht, hi]
      | nan => simp [leafOk, leafVal, leafConv, leafDen]
      | pinf => simp [leafOk, leafVal, leafConv, leafDen]
      | ninf => simp [leafOk, leafVal, leafConv, leafDen]
    | npFloat f =>
      cases f with
      | fin q =>
        have hq : q.den = 1 := (fracF_false_iff _).mp (by simpa [fracFloatLeaf] using h') q rfl
        obtain ⟨ht, hc⟩ := truncQ_whole q hq
        by_cases hi : inI64 q.num = true
        · simp [leafOk, leafVal, leafConv, leafDen, ht, hi, hq, hc]
        · simp [leafOk, leafVal, leafConv, leafDen, ht, hi]
      | nan => simp [leafOk, leafVal, leafConv, leafDen]
      | pinf => simp [leafOk, leafVal, leafConv, leafDen]
      | ninf => simp [leafOk, leafVal, leafConv, leafDen]
    | int i =>
      by_cases hi : inI64 i = true
      · simp [leafOk, leafVal, leafConv, leafDen, hi]
      · simp [leafOk, leafVal, leafConv, leafDen, hi]
    | none => simp [leafOk, leafVal, leafConv, leafDen]
    | bool _ => simp [leafOk, leafVal, leafConv, leafDen]
    | str _ => simp [leafOk, leafVal, leafConv, leafDen]
    | list _ => simp [leafOk, leafVal, leafConv, leafDen]
    | tuple _ => simp [leafOk, leafVal, leafConv, leafDen]
    | set _ => simp [leafOk, leafVal, leafConv, leafDen]
    | dict _ => simp [leafOk, leafVal, leafConv, leafDen]
    | ndarray _ _ _ => simp [leafOk, leafVal, leafConv, leafDen]
    | npInt _ => simp [leafOk, leafVal, leafConv, leafDen]
    | agent _ _ => simp [leafOk, leafVal, leafConv, leafDen]

theorem boxContains_via (b : BoxSp) (v : PyVal) (hv : ViaAsarray v) :
    boxContains b v =
      (match asArr b.isInt v with
       | .ok sh vals => if b.isInt && castChanged v then .no else boxTest b (boxDT b) sh vals
       | .raises => .raises
       | .unmodelled => .unmodelled) := by
  obtain ⟨h1, h2, h3⟩ := hv
  cases v <;> first
    | exact absurd rfl (h1 _)
    | exact absurd rfl (h2 _)
    | exact absurd rfl (h3 _ _ _)
    | rfl

theorem canCast_boxDT (b : BoxSp) : canCast (boxDT b) b.isInt = true := by
  cases h : b.isInt <;> simp [canCast, boxDT, h]

/-- if the integer cast changed nothing, no leaf is a fractional float -/
theorem unchanged_noFrac (v : PyVal) (h : castChanged v = false) :
    ∀ l ∈ leaves v, fracFloatLeaf l = false := by
  rw [castChanged_eq, List.any_eq_false] at h
  intro l hl
  simpa using h l hl

/-- a fractional float denotes nothing in an integer box -/
theorem frac_no_den (l : PyVal) (h : fracFloatLeaf l = true) : leafDen true l = none := by
  have key : ∀ f : Flt, fracF f = true →
      (match f with
       | .fin q => if q.den = 1 ∧ inI64 q.num = true then some (Flt.fin q) else none
       | _ => none) = none := by
    intro f hf
    cases f with
    | fin q =>
      have hq : q.den ≠ 1 := by simpa [fracF] using hf
      simp [hq]
    | nan => rfl
    | pinf => rfl
    | ninf => rfl
  cases l with
  | float f => simp only [leafDen, if_true]; exact key f (by simpa [fracFloatLeaf] using h)
  | npFloat f => simp only [leafDen, if_true]; exact key f (by simpa [fracFloatLeaf] using h)
  | none => simp [fracFloatLeaf] at h
  | bool _ => simp [fracFloatLeaf] at h
  | int _ => simp [fracFloatLeaf] at h
  | str _ => simp [fracFloatLeaf] at h
  | list _ => simp [fracFloatLeaf] at h
  | tuple _ => simp [fracFloatLeaf] at h
  | set _ => simp [fracFloatLeaf] at h
  | dict _ => simp [fracFloatLeaf] at h
  | ndarray _ _ _ => simp [fracFloatLeaf] at h
  | npInt _ => simp [fracFloatLeaf] at h
  | agent _ _ => simp [fracFloatLeaf] at h

theorem viaAsarray_or (v : PyVal) :
    (∃ i, v = .int i) ∨ (∃ f, v = .float f) ∨ (∃ dt sh xs, v = .ndarray dt sh xs) ∨ ViaAsarray v := by
  cases v <;> first
    | exact Or.inl ⟨_, rfl⟩
    | exact Or.inr (Or.inl ⟨_, rfl⟩)
    | exact Or.inr (Or.inr (Or.inl ⟨_, _, _, rfl⟩))
    | exact Or.inr (Or.inr (Or.inr ⟨(by intro _ h; cases h), (by intro _ h; cases h), (by intro _ _ _ h; cases h)⟩))

/-- **`Box.contains` characterised**, without exception -/
theorem boxContains_yes_iff (b : BoxSp) (v : PyVal) :
    boxContains b v = .yes ↔ DocMember b v := by
  rcases viaAsarray_or v with ⟨i, rfl⟩ | ⟨f, rfl⟩ | ⟨dt, sh, xs, rfl⟩ | hv
  · -- Python int
    have hD : DocMember b (.int i) ↔ (inI64 i = true ∧ b.shape = [1] ∧ inBounds b (.fin i) = true) := by
      unfold DocMember ViaAsarray
      constructor
      · rintro (⟨i', h1, h2⟩ | ⟨f, h1, _⟩ | ⟨_, _, _, h1, _⟩ | ⟨⟨h1, _⟩, _⟩)
        · injection h1 with h1; subst h1; exact h2
        · cases h1
        · cases h1
        · exact absurd rfl (h1 i)
      · intro h; exact Or.inl ⟨i, rfl, h⟩
    rw [hD]
    simp only [boxContains]
    by_cases hi : inI64 i = true
    · rw [if_pos hi, boxTest_yes_iff]
      have hc : canCast .i64 b.isInt = true := by cases b.isInt <;> rfl
      constructor
      · rintro ⟨_, h2, h3⟩; exact ⟨hi, h2.symm, h3 _ (by simp)⟩
      · rintro ⟨_, h2, h3⟩
        refine ⟨hc, h2.symm, ?_⟩
        intro x hx
        rw [List.mem_singleton] at hx
        subst hx; exact h3
    · rw [if_neg hi]
      constructor
      · intro h; cases h
      · rintro ⟨h1, _⟩; exact absurd h1 hi
  · -- Python float
    have hD : DocMember b (.float f) ↔ (b.isInt = false ∧ b.shape = [1] ∧ inBounds b f = true) := by
      unfold DocMember ViaAsarray
      constructor
      · rintro (⟨i', h1, _⟩ | ⟨f', h1, h2⟩ | ⟨_, _, _, h1, _⟩ | ⟨⟨_, h1, _⟩, _⟩)
        · cases h1
        · injection h1 with h1; subst h1; exact h2
        · cases h1
        · exact absurd rfl (h1 f)
      · intro h; exact Or.inr (Or.inl ⟨f, rfl, h⟩)
    rw [hD]
    simp only [boxContains]
    rw [boxTest_yes_iff]
    have hc : canCast .f64 b.isInt = true ↔ b.isInt = false := by cases b.isInt <;> simp [canCast]
    rw [hc]
    constructor
    · rintro ⟨h1, h2, h3⟩; exact ⟨h1, h2.symm, h3 _ (by simp)⟩
    · rintro ⟨h1, h2, h3⟩
      refine ⟨h1, h2.symm, ?_⟩
      intro x hx
      rw [List.mem_singleton] at hx
      subst hx; exact h3
  · -- numpy array
    have hD : DocMember b (.ndarray dt sh xs) ↔
        (canCast dt b.isInt = true ∧ sh = b.shape ∧ ∀ x ∈ xs, inBounds b x = true) := by
      unfold DocMember ViaAsarray
      constructor
      · rintro (⟨i', h1, _⟩ | ⟨f', h1, _⟩ | ⟨_, _, _, h1, h2⟩ | ⟨⟨_, _, h1⟩, _⟩)
        · cases h1
        · cases h1
        · injection h1 with h1 h1' h1''; subst h1 h1' h1''; exact h2
        · exact absurd rfl (h1 dt sh xs)
      · intro h; exact Or.inr (Or.inr (Or.inl ⟨dt, sh, xs, rfl, h⟩))
    rw [hD]
    simp only [boxContains]
    rw [boxTest_yes_iff]
  · -- everything else: `np.asarray(x, dtype=self.dtype)`
    have hD : DocMember b v ↔
        (rect v = some b.shape ∧ ∀ l ∈ leaves v, ∃ x, leafDen b.isInt l = some x ∧ inBounds b x = true) := by
      unfold DocMember
      constructor
      · rintro (⟨i', h1, _⟩ | ⟨f', h1, _⟩ | ⟨_, _, _, h1, _⟩ | ⟨_, h2⟩)
        · exact absurd h1 (hv.1 _)
        · exact absurd h1 (hv.2.1 _)
        · exact absurd h1 (hv.2.2 _ _ _)
        · exact h2
      · intro h; exact Or.inr (Or.inr (Or.inr ⟨hv, h⟩))
    rw [hD, boxContains_via b v hv]
    by_cases hch : (b.isInt && castChanged v) = true
    · -- the integer cast changed a value: rejected, and indeed no member
      simp only [Bool.and_eq_true] at hch
      obtain ⟨l, hl, hfr⟩ : ∃ l ∈ leaves v, fracFloatLeaf l = true := by
        have := hch.2
        rw [castChanged_eq, List.any_eq_true] at this
        exact this
      constructor
      · intro hy
        cases ha : asArr b.isInt v with
        | ok sh xs => rw [ha] at hy; simp [hch.1, hch.2] at hy
        | raises => rw [ha] at hy; cases hy
        | unmodelled => rw [ha] at hy; cases hy
      · rintro ⟨_, hall⟩
        obtain ⟨x, hx, _⟩ := hall l hl
        rw [hch.1, frac_no_den l hfr] at hx
        cases hx
    · have hleaf : ∀ l ∈ leaves v, ((leafOk b.isInt l = true ∧ inBounds b (leafVal b.isInt l) = true) ↔
          ∃ x, leafDen b.isInt l = some x ∧ inBounds b x = true) := fun l hl =>
        leaf_den_iff b l (fun hI => by
          have hc : castChanged v = false := by
            cases hcc : castChanged v with
            | false => rfl
            | true => exact absurd (by rw [hI, hcc]; rfl) hch
          exact unchanged_noFrac v hc l hl)
      have hif : ∀ sh xs, (if (b.isInt && castChanged v) = true then BoxOut.no else boxTest b (boxDT b) sh xs) =
          boxTest b (boxDT b) sh xs := fun sh xs => if_neg hch
      constructor
      · intro hy
        cases ha : asArr b.isInt v with
        | ok sh xs =>
          rw [ha] at hy
          simp only [hif] at hy
          obtain ⟨_, hsh, hall⟩ := (boxTest_yes_iff b _ sh xs).mp hy
          obtain ⟨hr, hok, hxs⟩ := (asArr_ok_iff b.isInt v sh xs).mp ha
          subst hsh hxs
          refine ⟨hr, fun l hl => (hleaf l hl).mp ⟨hok l hl, hall _ (List.mem_map_of_mem hl)⟩⟩
        | raises => rw [ha] at hy; cases hy
        | unmodelled => rw [ha] at hy; cases hy
      · rintro ⟨hr, hall⟩
        have ha : asArr b.isInt v = .ok b.shape ((leaves v).map (leafVal b.isInt)) :=
          (asArr_ok_iff b.isInt v _ _).mpr ⟨hr, fun l hl => ((hleaf l hl).mpr (hall l hl)).1, rfl⟩
        rw [ha]
        simp only [hif]
        refine (boxTest_yes_iff b _ _ _).mpr ⟨canCast_boxDT b, rfl, ?_⟩
        intro x hx
        obtain ⟨l, hl, rfl⟩ := List.mem_map.mp hx
        exact ((hleaf l hl).mpr (hall l hl)).2

end Cfg
end Abmarl
