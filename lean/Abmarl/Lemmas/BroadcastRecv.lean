import Abmarl.Lemmas.BroadcastDeliv
import Abmarl.Lemmas.ExamplesJudge
/-!
# The first loop of `BroadcastSim.step` is `BC.recvAfter`

The per-sender `dictSet`s of `update_receipients` are turned into the per-receiver `filterMap` of the specification.
-/
namespace Abmarl
namespace BC
open World Ex

/-- appending to the list of key `b`, when keys are distinct, is a `map` -/
theorem dictSet_append_map (x : Aid × Rat) (b : Aid) : ∀ (r : Recv) (l : List (Aid × Rat)),
    (r.map (·.1)).Nodup → r.lookup b = some l →
    dictSet r b (l ++ [x]) = r.map fun p => (p.1, p.2 ++ if p.1 = b then [x] else []) := by
  intro r
  induction r with
  | nil => intro l _ h; cases h
  | cons p rest ih =>
    intro l hnd hl
    obtain ⟨k, v⟩ := p
    simp only [List.map_cons, List.nodup_cons] at hnd
    by_cases hk : k = b
    · subst hk
      simp only [List.lookup, beq_self_eq_true, Option.some.injEq] at hl
      subst hl
      simp only [dictSet, if_true, List.map_cons, List.cons.injEq, true_and]
      symm
      conv_rhs => rw [← List.map_id rest]
      apply List.map_congr_left
      intro q hq
      have : q.1 ≠ k := fun h => hnd.1 (h ▸ List.mem_map_of_mem hq)
      simp [this]
    · have hbk : (b == k) = false := by simpa using (Ne.symm hk)
      simp only [List.lookup, hbk] at hl
      simp only [dictSet, hk, if_false, List.map_cons, List.append_nil, List.cons.injEq, true_and]
      exact ih l hnd.2 hl

/-- `update_receipients` as a `map` -/
theorem updateRecipients_map {msgs : List (Option Rat)} {sender : Aid} {m : Rat}
    (hm : msgs.getD sender none = some m) : ∀ (tos : List Aid) (r : Recv), (r.map (·.1)).Nodup →
    (∀ b ∈ tos, b ∈ r.map (·.1)) →
    updateRecipients msgs r sender tos =
      .ok (r.map fun p => (p.1, p.2 ++ (tos.filter (· == p.1)).map fun _ => (sender, m))) := by
  intro tos
  induction tos with
  | nil => intro r _ _; simp [updateRecipients, foldE]
  | cons b rest ih =>
    intro r hnd hk
    obtain ⟨l, hl⟩ := Option.isSome_iff_exists.mp (lookup_isSome_of_mem_keys r b (hk b List.mem_cons_self))
    have h1 : recip1 msgs sender r b = .ok (dictSet r b (l ++ [(sender, m)])) := by
      simp only [recip1, hl, hm, appendRecv]
    rw [dictSet_append_map _ _ r l hnd hl] at h1
    have hkeys : ∀ (f : Aid → List (Aid × Rat)), ((r.map fun p => (p.1, p.2 ++ f p.1)).map (·.1)) = r.map (·.1) := by
      intro f; simp [List.map_map, Function.comp_def]
    have h2 := ih (r.map fun p => (p.1, p.2 ++ if p.1 = b then [(sender, m)] else []))
      (by rw [hkeys (fun k => if k = b then [(sender, m)] else [])]; exact hnd)
      (by rw [hkeys (fun k => if k = b then [(sender, m)] else [])]
          exact fun x hx => hk x (List.mem_cons_of_mem _ hx))
    unfold updateRecipients at h2 ⊢
    simp only [foldE, h1, h2, List.map_map, Function.comp_def, Except.ok.injEq]
    apply List.map_congr_left
    intro p _
    by_cases hp : p.1 = b
    · simp [hp]
    · have : (b == p.1) = false := by simpa using (Ne.symm hp)
      simp [hp, this]

theorem filter_beq_nodup {tos : List Aid} (hnd : tos.Nodup) (k : Aid) :
    tos.filter (· == k) = if k ∈ tos then [k] else [] := by
  rw [List.filter_beq]
  by_cases hk : k ∈ tos
  · rw [if_pos hk, List.count_eq_one_of_mem hnd hk]; rfl
  · rw [if_neg hk, List.count_eq_zero_of_not_mem hk]; rfl

theorem bcasters_nodup (cfg : Cfg) (n : Nat) : (bcasters cfg n).Nodup :=
  List.Nodup.filter _ List.nodup_range

theorem delivered_single_false {cfg : Cfg} {w : World} {msgs : List (Option Rat)} {x : Aid × Act} {b : Aid}
    (h : (cfg.isB x.1 && (x.2.broadcast != 0) && reaches cfg w x.1 b) = false) :
    delivered cfg w msgs [x] b = [] := by
  unfold delivered
  simp only [List.filterMap_cons, h, Bool.false_eq_true, if_false, List.filterMap_nil]

theorem delivered_single_true {cfg : Cfg} {w : World} {msgs : List (Option Rat)} {x : Aid × Act} {b : Aid} {m : Rat}
    (h : (cfg.isB x.1 && (x.2.broadcast != 0) && reaches cfg w x.1 b) = true)
    (hm : msgs.getD x.1 none = some m) : delivered cfg w msgs [x] b = [(x.1, m)] := by
  unfold delivered
  simp only [List.filterMap_cons, h, if_true, hm, Option.map_some, List.filterMap_nil]

/-- **one pass of the first loop** -/
theorem bcast1_map {cfg : Cfg} {w : World} {msgs : List (Option Rat)} (hI : w.WInv = true)
    (hP : AllInGrid w) (hH : cfgHypb cfg w = true) (hM : MsgsOK cfg w.n msgs) {r : Recv}
    (hR : r.map (·.1) = bcasters cfg w.n) {x : Aid × Act} (hlt : x.1 < w.n) :
    bcast1 cfg w msgs r x = .ok (r.map fun p => (p.1, p.2 ++ delivered cfg w msgs [x] p.1)) := by
  have hid : ∀ (g : Aid → List (Aid × Rat)), (∀ k, g k = []) → r = r.map fun p => (p.1, p.2 ++ g p.1) := by
    intro g hg
    conv_lhs => rw [← List.map_id r]
    apply List.map_congr_left
    intro p _
    simp [hg]
  unfold bcast1
  simp only [Nat.not_le.mpr hlt, if_false]
  by_cases hb : cfg.isB x.1 = true
  · simp only [hb, if_true]
    by_cases hbc : x.2.broadcast ≠ 0
    · rw [if_pos hbc]
      obtain ⟨l, hl, hall⟩ := cfgHyp_reading hH hlt hb
      obtain ⟨m, hm, _⟩ := (hM.2 x.1 hlt).1 hb
      have hp := hP x.1 hlt
      rw [determine_eq_scan hl hp]
      simp only
      rw [updateRecipients_map hm _ r (by rw [hR]; exact bcasters_nodup _ _)
        (fun b hb' => by
          rw [hR]
          obtain ⟨h1, _, h3⟩ := mem_determine hI hl hp (determine_eq hl hp) hb'
          exact (mem_bcasters cfg w.n b).mpr ⟨h1, hall b h1 h3⟩)]
      simp only [Except.ok.injEq]
      apply List.map_congr_left
      intro p _
      rw [filter_beq_nodup (determine_nodup hI hp)]
      have hbc' : (x.2.broadcast != 0) = true := by simpa using hbc
      by_cases hr : reaches cfg w x.1 p.1 = true
      · have hmem : p.1 ∈ scan cfg w x.1 l := (mem_scan_iff hI hl hp _).mpr hr
        rw [if_pos hmem, delivered_single_true (by rw [hb, hbc', hr]; rfl) hm]; rfl
      · have hmem : ¬ p.1 ∈ scan cfg w x.1 l := fun h => hr ((mem_scan_iff hI hl hp _).mp h)
        have hr' : reaches cfg w x.1 p.1 = false := by simpa using hr
        rw [if_neg hmem, delivered_single_false (by rw [hr']; simp)]; rfl
    · rw [if_neg hbc]
      have hbc' : (x.2.broadcast != 0) = false := by simpa using hbc
      exact congrArg _ (hid _ fun k => delivered_single_false (by rw [hbc']; simp))
  · have hb' : cfg.isB x.1 = false := by simpa using hb
    simp only [hb', Bool.false_eq_true, if_false]
    exact congrArg _ (hid _ fun k => delivered_single_false (by rw [hb']; simp))

/-- **the first loop of `step` is `recvAfter`** -/
theorem foldE_bcast1_map {cfg : Cfg} {w : World} {msgs : List (Option Rat)} (hI : w.WInv = true)
    (hP : AllInGrid w) (hH : cfgHypb cfg w = true) (hM : MsgsOK cfg w.n msgs) :
    ∀ (acts : List (Aid × Act)) (r : Recv), (∀ x ∈ acts, x.1 < w.n) → r.map (·.1) = bcasters cfg w.n →
      foldE (bcast1 cfg w msgs) r acts = .ok (recvAfter cfg w msgs acts r) := by
  intro acts
  induction acts with
  | nil => intro r _ _; simp [foldE, recvAfter, delivered]
  | cons x xs ih =>
    intro r hx hR
    have h1 := bcast1_map hI hP hH hM hR (hx x List.mem_cons_self)
    have hR1 : (r.map fun p => (p.1, p.2 ++ delivered cfg w msgs [x] p.1)).map (·.1) = bcasters cfg w.n := by
      rw [← hR]; simp [List.map_map, Function.comp_def]
    have h2 := ih _ (fun y hy => hx y (List.mem_cons_of_mem _ hy)) hR1
    simp only [foldE, h1, h2, recvAfter, List.map_map, Function.comp_def, Except.ok.injEq]
    apply List.map_congr_left
    intro p _
    have : delivered cfg w msgs (x :: xs) p.1 = delivered cfg w msgs [x] p.1 ++ delivered cfg w msgs xs p.1 := by
      unfold delivered
      rw [← List.filterMap_append]; rfl
    rw [this, List.append_assoc]

/-- a first loop that returned has seen only agents of the simulation -/
theorem foldE_bcast1_lt {cfg : Cfg} {w : World} {msgs : List (Option Rat)} :
    ∀ (acts : List (Aid × Act)) (r r' : Recv), foldE (bcast1 cfg w msgs) r acts = .ok r' → ∀ x ∈ acts, x.1 < w.n := by
  intro acts
  induction acts with
  | nil => intro _ _ _ x hx; cases hx
  | cons y ys ih =>
    intro r r' h x hx
    simp only [foldE] at h
    cases h1 : bcast1 cfg w msgs r y with
    | error e => rw [h1] at h; cases h
    | ok r1 =>
      rw [h1] at h
      rcases List.mem_cons.mp hx with rfl | hx
      · by_contra hlt
        unfold bcast1 at h1
        rw [if_pos (Nat.le_of_not_lt hlt)] at h1
        cases h1
      · exact ih r1 r' h x hx

/-- **`step` delivers exactly `recvAfter`** -/
theorem step_recv {cfg : Cfg} {w0 : World} {s s' : St} (hG : Good cfg w0 s) (hH : cfgHypb cfg s.w = true)
    {acts : List (Aid × Act)} (h : step cfg s acts = .ok s') :
    ∃ rv, s.recv = some rv ∧ s'.recv = some (recvAfter cfg s.w s.msgs acts rv) ∧ s'.msgs = s.msgs := by
  obtain ⟨r, hr, _⟩ := hG.led
  obtain ⟨rv, hrv, hR⟩ := hG.recv
  have hP := allInGrid_of_alive hG.x.inv hG.x.alive
  refine ⟨rv, hrv, ?_⟩
  simp only [step, hr, hrv] at h
  cases h1 : foldE (bcast1 cfg s.w s.msgs) rv acts with
  | error e => rw [h1] at h; cases h
  | ok rv' =>
    rw [h1] at h
    have hlt := foldE_bcast1_lt acts rv rv' h1
    rw [foldE_bcast1_map hG.x.inv hP hH hG.msgs acts rv hlt hR.1] at h1
    simp only [Except.ok.injEq] at h1
    subst h1
    simp only at h
    split at h
    · cases h
    · split at h
      · cases h
      · simp only [Except.ok.injEq] at h
        subst h
        exact ⟨rfl, rfl⟩

/-- **the `step` clause of the judge holds on the model's own run** -/
theorem judge1_step {cfg : Cfg} {w0 : World} (hcfg : CfgOK w0) {s : St} (hG : Good cfg w0 s)
    (hH : cfgHypb cfg s.w = true) (acts : List (Aid × Act)) (t : Tape) (hA : ActsOK w0 acts) (res0 : BRes) :
    judge1 cfg w0 (see res0 s) (.step acts t) (runOp cfg s (.step acts t)).1 = true := by
  have hG' : Good cfg w0 { s with tape := t } := ⟨hG.x, hG.msgs, hG.recv, hG.led⟩
  simp only [runOp]
  cases h : step cfg { s with tape := t } acts with
  | ok s' =>
    have hG2 := step_good hcfg hA hG' h
    obtain ⟨rv, hrv, hrecv, hmsgs⟩ := step_recv hG' hH h
    obtain ⟨r, hr, hk⟩ := hG.led
    obtain ⟨r', hr', hk'⟩ := hG2.led
    have hn : s'.w.n = s.w.n := by rw [sframe_n hG2.x.frame, sframe_n hG.x.frame]
    have hal : aliveb s'.w = true := by
      simp only [aliveb, allAgents, List.all_eq_true, List.mem_range]
      exact fun a ha => (hG2.x.alive a ha).2.2
    simp only at hrv hrecv hmsgs
    simp [judge1, see, hG2.x.inv, Ex.frameb_of_sframe hG2.x.frame, hal, hmsgs, hrv, hrecv, hr, hr', hk, hk', hn]
  | error e =>
    simp only [judge1, see]
    by_contra hc
    have hm : stepMustNotRaise cfg ⟨res0, s.w, s.msgs, s.recv, s.rewards⟩ acts = true := by simpa using hc
    simp only [stepMustNotRaise, Bool.and_eq_true, List.all_eq_true] at hm
    obtain ⟨s', hs'⟩ := step_returns hcfg hG' hH hm.2
    rw [h] at hs'; cases hs'

end BC
end Abmarl
