import Abmarl.Spec.Membership
import Abmarl.Props.C03
import Abmarl.Props.C09
import Abmarl.Props.C11
/-!
# Helper lemmas for C02 (grid part): reachable worlds, null points

`Reachable w0 w`: `w` is the end of a history of component calls (`GOp`s: moves of the three move
actors, attacks of the four attack actors with the deaths they cause, resets) that starts with a
full reset of `w0` — the hypotheses of `C03_reachable`.
-/
namespace Abmarl
open World

/-! ## Histories -/

theorem runGOps_append (xs ys : List (GOp × Tape)) :
    ∀ w : World, runGOps w (xs ++ ys) =
      (match runGOps w xs with
       | .error e => .error e
       | .ok w' => runGOps w' ys) := by
  induction xs with
  | nil => intro w; simp [runGOps]
  | cons p xs ih =>
    intro w
    obtain ⟨op, t⟩ := p
    simp only [List.cons_append, runGOps]
    cases runGOp w t op with
    | error e => rfl
    | ok w1 => exact ih w1

/-- `w` is reachable from the constructed world `w0`: a first full reset, then any history of moves,
attacks and further full resets that ran to its end -/
def Reachable (w0 w : World) : Prop :=
  ∃ (cs0 : List StateComp) (t0 : Tape) (ops : List (GOp × Tape)),
    FullReset w0 cs0 ∧ ResetsFull w0 ops ∧ runGOps w0 ((.reset cs0, t0) :: ops) = .ok w

/-- in a reachable world the static part is the constructed one and the C03 invariant holds -/
theorem reachable_inv {w0 w : World} (hcfg : CfgOK w0) (hn : NoAmmoC w0) (h : Reachable w0 w) :
    SFrame w0 w ∧ w.WInv = true := by
  obtain ⟨cs0, t0, ops, h0, hR, h⟩ := h
  obtain ⟨hpos, hh, ha, ho, hnc, hwf⟩ := h0
  simp only [runGOps, runGOp] at h
  cases hr : applyComps cs0 w0 t0 with
  | error e => rw [hr] at h; cases h
  | ok r =>
    obtain ⟨w1, t1⟩ := r
    rw [hr] at h
    simp only [Except.map] at h
    have hI1 := C03_reset_establishes cs0 w0 t0 w1 t1 hpos hh ha ho hnc hwf hcfg hn hr
    obtain ⟨k0, o0, hm0⟩ := hpos
    have hlen : w0.st.length = w0.cfg.length := by
      have := hwf k0 o0 hm0
      simp only [wfPlacement, Bool.and_eq_true, beq_iff_eq] at this
      exact this.1.1.1.2
    have hF1 := (applyComps_spec cs0 w0 t0 w1 t1 hwf hcfg hnc hlen hr).1
    exact runGOps_inv hcfg ops w1 w hR hF1 hI1 h

/-- one more operation that returns leads to a reachable world again (a reset must be a full one) -/
theorem reachable_snoc {w0 w w' : World} {op : GOp} {t : Tape} (h : Reachable w0 w)
    (hfull : ∀ cs, op = .reset cs → FullReset w0 cs) (hop : runGOp w t op = .ok w') :
    Reachable w0 w' := by
  obtain ⟨cs0, t0, ops, h0, hR, h⟩ := h
  refine ⟨cs0, t0, ops ++ [(op, t)], h0, ?_, ?_⟩
  · intro cs t' hm
    rcases List.mem_append.mp hm with hm | hm
    · exact hR cs t' hm
    · simp only [List.mem_singleton, Prod.mk.injEq] at hm
      exact hfull cs hm.1.symm
  · have := runGOps_append ((GOp.reset cs0, t0) :: ops) [(op, t)] w0
    rw [List.cons_append] at this
    rw [this, h]
    simp only [runGOps, hop]

theorem sframe_n {w0 w : World} (h : SFrame w0 w) : w.n = w0.n := (clause_frame h).1
theorem sframe_cfgOf {w0 w : World} (h : SFrame w0 w) (b : Aid) : w.cfgOf b = w0.cfgOf b :=
  (clause_frame h).2 b
theorem sframe_encOf {w0 w : World} (h : SFrame w0 w) (b : Aid) : w.encOf b = w0.encOf b := by
  simp [encOf, sframe_cfgOf h]

/-! ## Observations of a consistent world lie in the declared spaces -/

namespace Observers

/-- every built-in observer, every option, every tape: in a consistent world `get_obs` returns and the
observation lies in the declared space -/
theorem getObs_declared (w : World) (a : Aid) (k : Kind) (t : Tape) (hI : w.WInv = true) (ha : a < w.n)
    (hpos : w.inGrid (w.stOf a).pos = true) (henc : ∀ b < w.n, 0 < w.encOf b)
    (hammo : 0 ≤ (w.cfgOf a).initAmmo) :
    ∃ o t', getObs w a k t = .ok (o, t') ∧ declared w a k o = true := by
  obtain ⟨o, t', hget, hspec⟩ := C09_observers w a k t hI ha hpos henc
  refine ⟨o, t', hget, ?_⟩
  cases k with
  | absolute => exact absolute_in_declared_space w a o hI ha henc hspec
  | centered os => exact centered_in_declared_space w a os o hI ha henc hspec
  | stacked => exact stacked_in_declared_space w a o hI ha hspec
  | position => exact position_in_declared_space w a o hpos hspec
  | ammo => exact ammo_in_declared_space w a o hI ha hammo hspec

/-! ## Null observations -/

theorem inBox2_const (lo hi v : Int) (n m : Nat) (h1 : lo ≤ v) (h2 : v ≤ hi) :
    inBox2 lo hi n m (tab n m fun _ _ => v) = true := by
  unfold inBox2
  rw [specTab_iff]
  apply TabP_tab
  intro i _ j _
  simp [h1, h2]

/-- the null observation of every observer lies in the space the same constructor declares -/
theorem nullObs_declared (w : World) (a : Aid) (k : Kind) (ha : a < w.n)
    (henc : ∀ b < w.n, 0 < w.encOf b) (hrows : 0 < w.rows) (hcols : 0 < w.cols)
    (hammo : 0 ≤ (w.cfgOf a).initAmmo) :
    declared w a k (nullObs w a k) = true := by
  have hn : 0 < w.n := Nat.lt_of_le_of_lt (Nat.zero_le _) ha
  have hE := maxEnc_pos w ha henc
  cases k with
  | absolute =>
    simp only [nullObs, declared, topEnc_eq w hn]
    exact inBox2_const _ _ _ _ _ (by omega) (by omega)
  | centered os =>
    simp only [nullObs, declared, topEnc_eq w hn]
    exact inBox2_const _ _ _ _ _ (by omega) (by omega)
  | stacked =>
    simp only [nullObs, declared, topEnc_eq w hn]
    rw [specTab_iff]
    apply TabP_tab
    intro i _ j _
    simp only [List.length_replicate, beq_self_eq_true, Bool.true_and, List.all_eq_true,
      Bool.and_eq_true, decide_eq_true_eq]
    intro v hv
    have := List.eq_of_mem_replicate hv
    omega
  | position =>
    simp only [nullObs, declared, Bool.and_eq_true, decide_eq_true_eq]
    omega
  | ammo =>
    simp only [nullObs, declared, Bool.and_eq_true, decide_eq_true_eq]
    omega

end Observers

/-! ## Null actions -/

theorem nullMove_inSpace (w : World) (a : Aid) :
    (nullMove a).inSpace w = true ∧ (nullCross a).inSpace w = true ∧ (nullDrift a).inSpace w = true := by
  simp [nullMove, nullCross, nullDrift, MoveCall.inSpace]

/-- the null action of each of the four attack actors is a point of the action space the actor declares
(`s` is the row of the attack mapping for the attacker's encoding — a Python `set`, hence without
repetitions) -/
theorem nullAttack_inSpace (cfg : AttackCfg) (w : World) (a : Aid) {s : List Int}
    (hmap : cfg.mapping.lookup (w.encOf a) = some s) (hs : s.Nodup) :
    inSpace cfg w a (nullAttack cfg w a) = true := by
  unfold inSpace nullAttack
  rw [hmap]
  cases hk : cfg.kind with
  | binary => simp
  | encoding =>
    simp only [Option.getD_some, List.map_map, Bool.and_eq_true, decide_eq_true_eq, List.all_eq_true,
      List.any_eq_true, beq_iff_eq]
    refine ⟨⟨?_, ?_⟩, ?_⟩
    · have : ((fun p : Int × Nat => p.1) ∘ fun e : Int => (e, 0)) = id := by funext e; rfl
      rw [this, List.map_id]; exact hs
    · intro p hp
      obtain ⟨e, he, rfl⟩ := List.mem_map.mp hp
      exact ⟨he, Nat.zero_le _⟩
    · intro e he
      exact ⟨(e, 0), List.mem_map.mpr ⟨e, he, rfl⟩, rfl⟩
  | selective =>
    simp only [List.length_replicate, beq_self_eq_true, Bool.true_and, List.all_eq_true, decide_eq_true_eq]
    intro k hk'
    rw [List.eq_of_mem_replicate hk']; exact Nat.zero_le _
  | restricted =>
    simp only [List.length_replicate, beq_self_eq_true, Bool.true_and, List.all_eq_true, decide_eq_true_eq]
    intro k hk'
    rw [List.eq_of_mem_replicate hk']; exact Nat.zero_le _

end Abmarl
