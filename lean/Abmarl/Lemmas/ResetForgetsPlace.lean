import Abmarl.Lemmas.ResetForgetsBase
/-!
# Reset forgets — the placement primitives

Everything a placement state reads is the static part of the world, the cell table, the availability
lists and the tape; the only dynamic field it writes is the position of the agent it places.  So the
primitives map agreeing loop states to agreeing loop states (or to the same error), switching on the
position flag of the agent placed.
-/
namespace Abmarl
open World

namespace WAgree
variable {cf : List AgentCfg} {F : Flags} {C : Prop} {x1 x2 : World}

/-- a function of the static part gives the same value on agreeing worlds -/
theorem static_congr {β : Type} (f : World → β)
    (hf : ∀ (w : World) (c : List (List Aid)) (s : List AgentSt), f { w with cells := c, st := s } = f w)
    (h : WAgree cf F C x1 x2) : f x1 = f x2 := by
  have e : x2 = { x1 with cells := x2.cells, st := x2.st } := by
    obtain ⟨r1, c1, o1, ce1, cf1, st1⟩ := x1
    obtain ⟨r2, c2, o2, ce2, cf2, st2⟩ := x2
    have h1 := h.rows; have h2 := h.cols; have h3 := h.overlap; have h4 := h.cfg
    simp only at h1 h2 h3 h4
    subst h1 h2 h3 h4; rfl
  rw [e]; exact (hf x1 x2.cells x2.st).symm

/-- a function of the static part and the cell table gives the same value on worlds agreeing on cells -/
theorem cells_congr {β : Type} (f : World → β)
    (hf : ∀ (w : World) (s : List AgentSt), f { w with st := s } = f w)
    (h : WAgree cf F True x1 x2) : f x1 = f x2 := by
  have e : x2 = { x1 with st := x2.st } := by
    obtain ⟨r1, c1, o1, ce1, cf1, st1⟩ := x1
    obtain ⟨r2, c2, o2, ce2, cf2, st2⟩ := x2
    have h1 := h.rows; have h2 := h.cols; have h3 := h.overlap; have h4 := h.cfg
    have h5 := h.cells trivial
    simp only at h1 h2 h3 h4 h5
    subst h1 h2 h3 h4 h5; rfl
  rw [e]; exact (hf x1 x2.st).symm

theorem inGrid_eq (h : WAgree cf F C x1 x2) (p : Pos) : x1.inGrid p = x2.inGrid p :=
  h.static_congr (fun w => w.inGrid p) (fun _ _ _ => rfl)
theorem idx_eq (h : WAgree cf F C x1 x2) (p : Pos) : x1.idx p = x2.idx p :=
  h.static_congr (fun w => w.idx p) (fun _ _ _ => rfl)
theorem unravel_eq (h : WAgree cf F C x1 x2) (k : Nat) : x1.unravel k = x2.unravel k :=
  h.static_congr (fun w => w.unravel k) (fun _ _ _ => rfl)
theorem updateAvail_eq (h : WAgree cf F C x1 x2) (no : Bool) (av : Avail) (pe : Int) (k : Nat) :
    updateAvail x1 no av pe k = updateAvail x2 no av pe k :=
  h.static_congr (fun w => updateAvail w no av pe k) (fun _ _ _ => rfl)
theorem query_eq (h : WAgree cf F True x1 x2) (a : Aid) (p : Pos) : x1.query a p = x2.query a p :=
  h.cells_congr (fun w => w.query a p) (fun _ _ => rfl)

/-- switch position flags (only agents the worlds have need to be checked) -/
theorem monoP (h : WAgree cf F C x1 x2) {P' : Aid → Prop}
    (hP : ∀ b, b < cf.length → P' b → F.P b) : WAgree cf { F with P := P' } C x1 x2 :=
  h.mono (fun b hb => ⟨hP b hb, id, id, id⟩) id

end WAgree

/-- the cell table `Grid.place` writes when the query succeeds -/
def placeCells (w : World) (a : Aid) (p : Pos) : List (List Aid) :=
  w.cells.set (w.idx p) (if a ∈ w.cell p then w.cell p else w.cell p ++ [a])

theorem place_of_query {w : World} {a : Aid} {p : Pos} (hq : w.query a p = true) :
    w.place a p =
      (true, ({ w with cells := placeCells w a p }).setSt a { w.stOf a with pos := p }) := by
  simp only [World.place, hq, if_true]; rfl

theorem place_of_not_query {w : World} {a : Aid} {p : Pos} (hq : w.query a p = false) :
    w.place a p = (false, w) := by
  simp only [World.place, hq, Bool.false_eq_true, if_false]

/-- `Grid.place` on agreeing worlds: the same answer, and agreeing worlds in which the position of
the placed agent agrees as well -/
theorem place_agree {cf : List AgentCfg} {F : Flags} {x1 x2 : World} (h : WAgree cf F True x1 x2)
    (a : Aid) (p : Pos) :
    (x1.place a p).1 = (x2.place a p).1 ∧
    ((x1.place a p).1 = true →
      WAgree cf { F with P := fun b => F.P b ∨ b = a } True (x1.place a p).2 (x2.place a p).2) := by
  have hq := h.query_eq a p
  cases hq1 : x1.query a p with
  | false =>
    rw [place_of_not_query hq1, place_of_not_query (hq ▸ hq1)]
    exact ⟨rfl, fun hh => by cases hh⟩
  | true =>
    rw [place_of_query hq1, place_of_query (hq ▸ hq1)]
    refine ⟨rfl, fun _ => ?_⟩
    have hc : placeCells x1 a p = placeCells x2 a p :=
      h.cells_congr (fun w => placeCells w a p) (fun _ _ => rfl)
    rw [← hc]
    refine (h.withCells (placeCells x1 a p)).setSt a _ _
      ⟨fun _ => rfl, fun q => (h.st a).health q, fun q => (h.st a).active q,
       fun q => (h.st a).ammo q, fun q => (h.st a).orient q⟩ (fun b hb => ⟨?_, id, id, id⟩)
    intro hh
    rcases hh with hh | hh
    · exact hh
    · exact (hb hh).elim

/-- agreement of two loop states -/
structure PAgree (cf : List AgentCfg) (F : Flags) (s1 s2 : PSt) : Prop where
  w : WAgree cf F True s1.w s2.w
  av : s1.av = s2.av
  t : s1.t = s2.t

theorem PAgree.monoP {cf : List AgentCfg} {F : Flags} {s1 s2 : PSt} (h : PAgree cf F s1 s2)
    {P' : Aid → Prop} (hP : ∀ b, b < cf.length → P' b → F.P b) :
    PAgree cf { F with P := P' } s1 s2 :=
  ⟨h.w.monoP hP, h.av, h.t⟩

theorem ERel.mono {β : Type} {R R' : β → β → Prop} (hR : ∀ a b, R a b → R' a b)
    {r1 r2 : Except GErr β} (h : ERel R r1 r2) : ERel R' r1 r2 := by
  cases r1 with
  | error e1 =>
    cases r2 with
    | error e2 => exact h
    | ok b => exact False.elim h
  | ok a =>
    cases r2 with
    | error e2 => exact False.elim h
    | ok b => exact hR a b h

/-- `placeAt` on agreeing loop states -/
theorem placeAt_agree {cf : List AgentCfg} {F : Flags} {s1 s2 : PSt} (h : PAgree cf F s1 s2)
    (no : Bool) (a : Aid) (p : Pos) :
    ERel (PAgree cf { F with P := fun b => F.P b ∨ b = a }) (placeAt no s1 a p) (placeAt no s2 a p) := by
  obtain ⟨hp1, hp2⟩ := place_agree h.w a p
  simp only [placeAt]
  rw [← h.w.inGrid_eq p, ← hp1]
  by_cases hg : s1.w.inGrid p = true
  · simp only [hg, if_true]
    by_cases hq : (s1.w.place a p).1 = true
    · simp only [hq, if_true, ERel]
      have hw := hp2 hq
      refine ⟨hw, ?_, h.t⟩
      simp only
      rw [h.av, hw.updateAvail_eq, hw.encOf_eq, hw.idx_eq]
    · simp only [hq, Bool.false_eq_true, if_false, ERel]
  · simp only [hg, Bool.false_eq_true, if_false, ERel]

theorem PAgree.withT {cf : List AgentCfg} {F : Flags} {s1 s2 : PSt} (h : PAgree cf F s1 s2)
    (t' : Tape) : PAgree cf F ⟨s1.w, s1.av, t'⟩ ⟨s2.w, s1.av, t'⟩ :=
  ⟨h.w, rfl, rfl⟩

/-- `PositionState._place_variable_position_agent` on agreeing loop states -/
theorem placeVarRandom_agree {cf : List AgentCfg} {F : Flags} {s1 s2 : PSt} (h : PAgree cf F s1 s2)
    (no : Bool) (a : Aid) :
    ERel (PAgree cf { F with P := fun b => F.P b ∨ b = a })
      (placeVarRandom no s1 a) (placeVarRandom no s2 a) := by
  simp only [placeVarRandom]
  rw [← h.av, ← h.w.encOf_eq a, ← h.t]
  cases s1.av.lookup (s1.w.encOf a) with
  | none => simp only [ERel]
  | some l =>
    simp only
    cases choice1 l s1.t with
    | mk ok t' =>
      cases ok with
      | none => simp only [ERel]
      | some k =>
        simp only
        rw [← h.w.unravel_eq]
        exact placeAt_agree (h.withT t') no a (s1.w.unravel k)

/-- `_place_variable_position_agent` of the target and maze states on agreeing loop states -/
theorem placeVarTB_agree {cf : List AgentCfg} {F : Flags} {s1 s2 : PSt} (h : PAgree cf F s1 s2)
    (o : PlaceOpts) (a : Aid) :
    ERel (PAgree cf { F with P := fun b => F.P b ∨ b = a })
      (placeVarTB o s1 a) (placeVarTB o s2 a) := by
  simp only [placeVarTB]
  rw [← h.av, ← h.w.encOf_eq a]
  by_cases hu : o.useLast (s1.w.encOf a) = true
  · simp only [hu, if_true]
    cases s1.av.lookup (s1.w.encOf a) with
    | none => simp only [ERel]
    | some l =>
      simp only
      cases l.getLast? with
      | none => simp only [ERel]
      | some k =>
        simp only
        rw [← h.w.unravel_eq]
        exact placeAt_agree h o.noOverlap a (s1.w.unravel k)
  · simp only [hu, Bool.false_eq_true, if_false]
    exact placeVarRandom_agree h o.noOverlap a

end Abmarl
