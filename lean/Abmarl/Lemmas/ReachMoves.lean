import Abmarl.Lemmas.Reach
import Abmarl.Lemmas.Grid
/-!
# Moves keep `WInvWeak` (one half of `RT.CompsKeepWeak`)
-/
namespace Abmarl
namespace World

/-- **moves preserve `WInvWeak`**: the proof of `World.move_preserves_WInv` (Lemmas/GridInv.lean) with the weak agent
clause carried along instead of the strong one (the clause about health is not touched by a move) -/
theorem move_preserves_WInvWeak {w w' : World} {a : Aid} {d : Pos} {ok : Bool}
    (hI : w.WInvWeak = true) (ha : a < w.n) (hact : (w.stOf a).active = true)
    (hs : specMoveBy w a d ok w' = true) : w'.WInvWeak = true := by
  obtain ⟨hokfree, hstat, hmoved, hstay⟩ := specMoveBy_reading hs
  by_cases hnmv : ¬ (ok = true ∧ ((w.stOf a).pos.1 + d.1, (w.stOf a).pos.2 + d.2) ≠ (w.stOf a).pos)
  · rw [hstay hnmv]; exact hI
  have hmv := Classical.not_not.mp hnmv
  obtain ⟨hok, hne⟩ := hmv
  obtain ⟨src, hsrc⟩ : ∃ src, src = (w.stOf a).pos := ⟨_, rfl⟩
  obtain ⟨dst, hdst⟩ : ∃ dst : Pos, dst = (src.1 + d.1, src.2 + d.2) := ⟨_, rfl⟩
  rw [← hsrc] at hmoved hne
  rw [← hdst] at hmoved hne
  obtain ⟨hsta, hothers, hcsrc, hcdst, hcells⟩ := hmoved ⟨hok, hne⟩
  obtain ⟨hrows, hcols, hov, hcfg, hlenc, hlens⟩ := (sameStatic_iff w w').mp hstat
  obtain ⟨hshape, hcellsI, hagentsI, hsym⟩ := (RT.WInvWeak_parts_iff w).mp hI
  have hP : Placed w a := by
    -- (same derivation as `placed_of_WInv`, inlined to avoid a cyclic import)
    simp only [wShape, Bool.and_eq_true, beq_iff_eq] at hshape
    have hA := (RT.wAgentWeak_reading w a).mp (hagentsI a ha)
    refine ⟨hshape.1, by rw [hshape.2]; exact ha, (hA.1 hact).1, (hA.1 hact).2, ?_⟩
    intro i hi
    by_cases hil : i < w.rows * w.cols
    · exact (((wCell_reading w i).mp (hcellsI i hil)).2.1 a hi).2.2.2.symm
    · have : w.cells.getD i [] = [] := by
        simp only [List.getD_eq_getElem?_getD]
        rw [List.getElem?_eq_none (by omega)]; rfl
      rw [this] at hi; cases hi
  -- facts about the destination
  have hfree : w.destFree a d = true := by rw [← hokfree]; exact hok
  have hdfree : w.inGrid dst = true ∧
      ∀ o ∈ w.cell dst, w.pairOK (w.encOf a) (w.encOf o) = true := by
    simp only [destFree, ← hsrc, ← hdst, Bool.and_eq_true, Bool.or_eq_true, beq_iff_eq, List.all_eq_true] at hfree
    refine ⟨hfree.1, ?_⟩
    rcases hfree.2 with h | h
    · exact absurd h hne
    · exact h
  have hinsrc : w.inGrid src = true := hsrc ▸ hP.inG
  have hidxne : w.idx src ≠ w.idx dst := fun e => hne (idx_inj hdfree.1 hinsrc e.symm)
  have hidx' : ∀ p, w'.idx p = w.idx p := by intro p; simp [idx, hcols]
  have hinG' : ∀ p, w'.inGrid p = w.inGrid p := by intro p; simp [inGrid, hrows, hcols]
  have hn' : w'.n = w.n := by simp [n, hcfg]
  have henc' : ∀ b, w'.encOf b = w.encOf b := by intro b; simp [encOf, cfgOf, hcfg]
  have hcfg' : ∀ b, w'.cfgOf b = w.cfgOf b := by intro b; simp [cfgOf, hcfg]
  have hpair' : ∀ e1 e2, w'.pairOK e1 e2 = w.pairOK e1 e2 := by intro e1 e2; simp [pairOK, hov]
  have hst' : ∀ b, b < w.n → w'.stOf b = if b = a then { w.stOf a with pos := dst } else w.stOf b := by
    intro b hb
    by_cases hba : b = a
    · simp [hba, hsta]
    · simp [hba, hothers b hb hba]
  have hanotdst : a ∉ w.cell dst := by
    intro hc
    have := hP.only (w.idx dst) hc
    rw [← hsrc] at this
    exact hidxne this.symm
  have hcellsrc : w'.cells.getD (w.idx src) [] = (w.cell src).erase a := by
    have := hcsrc; simp only [cell, hidx'] at this; exact this
  have hcelldst : w'.cells.getD (w.idx dst) [] = w.cell dst ++ [a] := by
    have := hcdst; simp only [cell, hidx'] at this; exact this
  have hsl : w.idx src < w.rows * w.cols := idx_lt hinsrc
  have hdl : w.idx dst < w.rows * w.cols := idx_lt hdfree.1
  rw [RT.WInvWeak_parts_iff]
  refine ⟨?_, ?_, ?_, ?_⟩
  · -- shape
    simp only [wShape, Bool.and_eq_true, beq_iff_eq] at hshape ⊢
    exact ⟨by rw [← hlenc, ← hrows, ← hcols]; exact hshape.1, by rw [← hlens, ← hcfg]; exact hshape.2⟩
  · -- cells
    intro i hi
    rw [← hrows, ← hcols] at hi
    have hold := (wCell_reading w i).mp (hcellsI i hi)
    rw [wCell_reading]
    by_cases hisrc : i = w.idx src
    · -- the source cell lost the mover
      subst hisrc
      rw [hcellsrc]
      obtain ⟨hnd, hmem, hpw⟩ := hold
      have hnd' : (w.cell src).Nodup := hnd
      refine ⟨hnd'.erase a, ?_, ?_⟩
      · intro b hb
        have hb0 : b ∈ w.cell src := List.mem_of_mem_erase hb
        have hba : b ≠ a := fun e => by
          subst e; exact (List.Nodup.not_mem_erase hnd') hb
        obtain ⟨m1, m2, m3, m4⟩ := hmem b hb0
        rw [hn', hst' b m1, if_neg hba, hinG', hidx']
        exact ⟨m1, m2, m3, m4⟩
      · intro b hb c hc
        rw [henc', henc', hpair']
        exact hpw b (List.mem_of_mem_erase hb) c (List.mem_of_mem_erase hc)
    · by_cases hidst : i = w.idx dst
      · -- the destination cell gained the mover
        subst hidst
        rw [hcelldst]
        obtain ⟨hnd, hmem, hpw⟩ := hold
        have hnd' : (w.cell dst).Nodup := hnd
        refine ⟨?_, ?_, ?_⟩
        · rw [List.nodup_append]
          exact ⟨hnd', by simp, fun x hx y hy => by
            simp only [List.mem_singleton] at hy; subst hy
            exact fun e => hanotdst (e ▸ hx)⟩
        · intro b hb
          rcases List.mem_append.mp hb with hb | hb
          · have hba : b ≠ a := fun e => hanotdst (e ▸ hb)
            obtain ⟨m1, m2, m3, m4⟩ := hmem b hb
            rw [hn', hst' b m1, if_neg hba, hinG', hidx']
            exact ⟨m1, m2, m3, m4⟩
          · simp only [List.mem_singleton] at hb
            subst hb
            rw [hn', hst' b ha, if_pos rfl, hinG', hidx']
            exact ⟨ha, hact, hdfree.1, rfl⟩
        · intro b hb c hc
          rw [henc', henc', hpair']
          rcases List.mem_append.mp hb with hb1 | hb1 <;> rcases List.mem_append.mp hc with hc1 | hc1
          · exact hpw b hb1 c hc1
          · simp only [List.mem_singleton] at hc1
            rw [hc1]
            exact Or.inr (pairOK_symm_of_table hsym (hdfree.2 b hb1))
          · simp only [List.mem_singleton] at hb1
            rw [hb1]
            exact Or.inr (hdfree.2 c hc1)
          · simp only [List.mem_singleton] at hb1 hc1
            exact Or.inl (hb1.trans hc1.symm)
      · -- every other cell is untouched and does not hold the mover
        rw [hcells i hi hisrc hidst]
        obtain ⟨hnd, hmem, hpw⟩ := hold
        refine ⟨hnd, ?_, ?_⟩
        · intro b hb
          have hba : b ≠ a := fun e => by
            subst e
            have := hP.only i hb
            rw [← hsrc] at this
            exact hisrc this
          obtain ⟨m1, m2, m3, m4⟩ := hmem b hb
          rw [hn', hst' b m1, if_neg hba, hinG', hidx']
          exact ⟨m1, m2, m3, m4⟩
        · intro b hb c hc
          rw [henc', henc', hpair']
          exact hpw b hb c hc
  · -- agents
    intro b hb
    rw [hn'] at hb
    have hold := (RT.wAgentWeak_reading w b).mp (hagentsI b hb)
    rw [RT.wAgentWeak_reading, hcfg']
    by_cases hba : b = a
    · subst hba
      rw [hst' b hb, if_pos rfl]
      obtain ⟨_, h2, h3, h4, h5, h6, h7⟩ := hold
      refine ⟨fun _ => ?_, h2, h3, h4, h5, h6, h7⟩
      simp only [cell, hidx', hinG']
      rw [hcelldst]
      exact ⟨hdfree.1, by simp⟩
    · rw [hst' b hb, if_neg hba]
      obtain ⟨h1, h2, h3, h4, h5, h6, h7⟩ := hold
      refine ⟨fun hbact => ?_, h2, h3, h4, h5, h6, h7⟩
      obtain ⟨hg, hm⟩ := h1 hbact
      rw [hinG']
      refine ⟨hg, ?_⟩
      simp only [cell, hidx']
      have hm' : b ∈ w.cells.getD (w.idx (w.stOf b).pos) [] := hm
      by_cases h1' : w.idx (w.stOf b).pos = w.idx src
      · rw [h1', hcellsrc]
        rw [h1'] at hm'
        exact (List.mem_erase_of_ne hba).mpr hm'
      · by_cases h2' : w.idx (w.stOf b).pos = w.idx dst
        · rw [h2', hcelldst]
          rw [h2'] at hm'
          exact List.mem_append_left _ hm'
        · rw [hcells _ (idx_lt hg) h1' h2']
          exact hm'
  · -- the table did not change
    simp only [wOverlapSym, List.all_eq_true] at hsym ⊢
    rw [← hov]
    intro p hp x hx
    rw [hpair']
    exact hsym p hp x hx


end World

namespace RT
open World

theorem placed_of_weak {w : World} {a : Aid} (hI : w.WInvWeak = true) (ha : a < w.n)
    (hact : (w.stOf a).active = true) : Placed w a := by
  obtain ⟨hshape, hcellsI, hagentsI, _⟩ := (WInvWeak_parts_iff w).mp hI
  simp only [wShape, Bool.and_eq_true, beq_iff_eq] at hshape
  have hA := (wAgentWeak_reading w a).mp (hagentsI a ha)
  refine ⟨hshape.1, by rw [hshape.2]; exact ha, (hA.1 hact).1, (hA.1 hact).2, ?_⟩
  intro i hi
  by_cases hil : i < w.rows * w.cols
  · exact (((wCell_reading w i).mp (hcellsI i hil)).2.1 a hi).2.2.2.symm
  · have : w.cells.getD i [] = [] := by
      simp only [List.getD_eq_getElem?_getD]
      rw [List.getElem?_eq_none (by omega)]; rfl
    rw [this] at hi; cases hi

/-- **`MoveActor.process_action` for an active agent keeps `WInvWeak` and the static part** -/
theorem moveAct_weak {w w' : World} {a : Aid} {d : Pos} {r : Option Bool} (hI : w.WInvWeak = true) (ha : a < w.n)
    (hact : (w.stOf a).active = true) (h : w.moveAct a d = .ok (r, w')) : w'.WInvWeak = true ∧ SFrame w w' := by
  unfold moveAct at h
  by_cases hmv : (w.cfgOf a).moving = true
  · simp only [hmv, if_true] at h
    obtain ⟨ok, w1, hm, hs⟩ := moveBy_sound (placed_of_weak hI ha hact) d
    rw [hm] at h
    simp only [Except.ok.injEq, Prod.mk.injEq] at h
    rw [← h.2]
    refine ⟨move_preserves_WInvWeak hI ha hact hs, ?_⟩
    obtain ⟨_, hstat, _, _⟩ := specMoveBy_reading hs
    obtain ⟨h1, h2, h3, h4, _, h6⟩ := (sameStatic_iff w w1).mp hstat
    exact ⟨h1.symm, h2.symm, h3.symm, h4.symm, h6.symm⟩
  · simp only [hmv, Bool.false_eq_true, if_false, Except.ok.injEq, Prod.mk.injEq] at h
    rw [← h.2]
    exact ⟨hI, SFrame.refl w⟩

end RT
end Abmarl
