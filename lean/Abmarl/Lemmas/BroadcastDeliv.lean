import Abmarl.Lemmas.BroadcastStep
/-!
# `determine_broadcast` returns exactly the reached agents, once each

The converse of `BC.determine_sound` (`determine_complete`) and `Nodup` of the scan (`determine_nodup`).
-/
namespace Abmarl
namespace BC
open World Ex

/-- the scan of `determine_broadcast`, as a list -/
def scan (cfg : Cfg) (w : World) (a : Aid) (l : List Int) : List Aid :=
  (List.range (2 * cfg.rangeOf a + 1)).flatMap fun i =>
    (List.range (2 * cfg.rangeOf a + 1)).flatMap fun j => sel cfg w a l i j

/-- an agent taken from window cell `(i, j)` stands at that cell -/
theorem sel_pos {cfg : Cfg} {w : World} {a : Aid} {l : List Int} (hI : w.WInv = true)
    (hp : w.inGrid (w.stOf a).pos = true) {i j : Nat} (hi : i < 2 * cfg.rangeOf a + 1)
    (hj : j < 2 * cfg.rangeOf a + 1) {b : Aid} (hb : b ∈ sel cfg w a l i j) :
    (w.stOf b).pos = Observers.winPos (w.stOf a).pos (cfg.rangeOf a) i j := by
  unfold sel at hb
  split at hb
  · rw [Observers.at2_localGrid w a _ i j hp hi hj] at hb
    split at hb
    · rename_i hin
      simp only [Option.getD_some, List.mem_filter] at hb
      exact ((mem_cell_iff_pos hI _ b).mp ⟨hin, hb.1⟩).2.2
    · simp at hb
  · cases hb

theorem sel_nodup {cfg : Cfg} {w : World} {a : Aid} {l : List Int} (hI : w.WInv = true)
    (hp : w.inGrid (w.stOf a).pos = true) {i j : Nat} (hi : i < 2 * cfg.rangeOf a + 1)
    (hj : j < 2 * cfg.rangeOf a + 1) : (sel cfg w a l i j).Nodup := by
  unfold sel
  split
  · rw [Observers.at2_localGrid w a _ i j hp hi hj]
    split
    · rename_i hin
      simp only [Option.getD_some]
      exact List.Nodup.filter _ (winv_cell hI (idx_lt hin)).1
    · simp
  · exact List.nodup_nil

/-- **completeness of the scan**: a reached agent is returned -/
theorem determine_complete {cfg : Cfg} {w : World} {a : Aid} {l : List Int} (hI : w.WInv = true)
    (hl : cfg.mapping.lookup (w.encOf a) = some l) (hp : w.inGrid (w.stOf a).pos = true) {b : Aid}
    (hr : reaches cfg w a b = true) : b ∈ scan cfg w a l := by
  simp only [reaches, hl, Bool.and_eq_true, bne_iff_ne, ne_eq, decide_eq_true_eq, Mask.inWin,
    Bool.not_eq_true'] at hr
  obtain ⟨⟨⟨⟨⟨⟨hne, hbn⟩, hact⟩, h1a, h1b⟩, h2a, h2b⟩, henc⟩, hvis⟩ := hr
  obtain ⟨hbin, hbc⟩ := (mem_cell_iff_pos hI (w.stOf b).pos b).mpr ⟨hbn, hact, rfl⟩
  have hi : ((Observers.offsetOf w a b).1 + (cfg.rangeOf a : Int)).toNat < 2 * cfg.rangeOf a + 1 := by omega
  have hj : ((Observers.offsetOf w a b).2 + (cfg.rangeOf a : Int)).toNat < 2 * cfg.rangeOf a + 1 := by omega
  have e1 : ((((Observers.offsetOf w a b).1 + (cfg.rangeOf a : Int)).toNat : Nat) : Int) - (cfg.rangeOf a : Int)
      = (Observers.offsetOf w a b).1 := by omega
  have e2 : ((((Observers.offsetOf w a b).2 + (cfg.rangeOf a : Int)).toNat : Nat) : Int) - (cfg.rangeOf a : Int)
      = (Observers.offsetOf w a b).2 := by omega
  have hwp : Observers.winPos (w.stOf a).pos (cfg.rangeOf a)
      ((Observers.offsetOf w a b).1 + (cfg.rangeOf a : Int)).toNat
      ((Observers.offsetOf w a b).2 + (cfg.rangeOf a : Int)).toNat = (w.stOf b).pos := by
    simp only [Observers.winPos, e1, e2]
    simp only [Observers.offsetOf]
    ext <;> simp
  simp only [scan, List.mem_flatMap, List.mem_range]
  refine ⟨_, hi, _, hj, ?_⟩
  unfold sel
  rw [Observers.at2_maskFor w a _ _ _ hi hj, Observers.at2_localGrid w a _ _ _ hp hi hj, e1, e2, hvis, hwp]
  simp only [Bool.not_false, if_true, hbin, Option.getD_some, List.mem_filter, Bool.and_eq_true,
    decide_eq_true_eq]
  exact ⟨hbc, hne, henc⟩

theorem winPos_inj {p : Pos} {R i j i' j' : Nat}
    (h : Observers.winPos p R i j = Observers.winPos p R i' j') : i = i' ∧ j = j' := by
  simp only [Observers.winPos, Prod.mk.injEq] at h
  omega

/-- **an agent is returned once**: it stands in one cell, and a cell lists an agent once -/
theorem determine_nodup {cfg : Cfg} {w : World} {a : Aid} {l : List Int} (hI : w.WInv = true)
    (hp : w.inGrid (w.stOf a).pos = true) : (scan cfg w a l).Nodup := by
  unfold scan
  rw [List.nodup_flatMap]
  refine ⟨fun i hi => ?_, ?_⟩
  · rw [List.nodup_flatMap]
    refine ⟨fun j hj => sel_nodup hI hp (List.mem_range.mp hi) (List.mem_range.mp hj), ?_⟩
    refine List.Pairwise.imp_of_mem ?_ (List.nodup_range (n := 2 * cfg.rangeOf a + 1))
    intro j j' hj hj' hne b hb hb'
    have h1 := sel_pos hI hp (List.mem_range.mp hi) (List.mem_range.mp hj) hb
    have h2 := sel_pos hI hp (List.mem_range.mp hi) (List.mem_range.mp hj') hb'
    exact hne (winPos_inj (h1.symm.trans h2)).2
  · refine List.Pairwise.imp_of_mem ?_ (List.nodup_range (n := 2 * cfg.rangeOf a + 1))
    intro i i' hi hi' hne b hb hb'
    simp only [List.mem_flatMap, List.mem_range] at hb hb'
    obtain ⟨j, hj, hb⟩ := hb
    obtain ⟨j', hj', hb'⟩ := hb'
    have h1 := sel_pos hI hp (List.mem_range.mp hi) hj hb
    have h2 := sel_pos hI hp (List.mem_range.mp hi') hj' hb'
    exact hne (winPos_inj (h1.symm.trans h2)).1

theorem determine_eq_scan {cfg : Cfg} {w : World} {a : Aid} {l : List Int}
    (hl : cfg.mapping.lookup (w.encOf a) = some l) (hp : w.inGrid (w.stOf a).pos = true) :
    determine cfg w a = .ok (scan cfg w a l) := determine_eq hl hp

theorem mem_scan_iff {cfg : Cfg} {w : World} {a : Aid} {l : List Int} (hI : w.WInv = true)
    (hl : cfg.mapping.lookup (w.encOf a) = some l) (hp : w.inGrid (w.stOf a).pos = true) (b : Aid) :
    b ∈ scan cfg w a l ↔ reaches cfg w a b = true :=
  ⟨fun hb => determine_sound hI hl hp (determine_eq hl hp) hb, determine_complete hI hl hp⟩

end BC
end Abmarl
