import Abmarl.Lemmas.GridInv
/-!
# The move actors called for an agent that is not active

Under `WInv` an agent that is not active is stored in no cell (`not_mem_cell_of_inactive`), so
`Grid.remove` of it raises `KeyError` (`remove_inactive`).  The move actors do not look at `active`: they
compute the destination from the stored position, ask `Grid.query`, and only then call `remove`.  Hence the
closed form `moveBy_inactive`: the call raises exactly when the move would have been carried out
(`wouldMove`), and otherwise returns with the world it was given.
-/
namespace Abmarl
namespace World

/-- under the invariant an agent that is not active is stored in no cell (whatever its index) -/
theorem not_mem_cell_of_inactive {w : World} {a : Aid} (hI : w.WInv = true)
    (hin : (w.stOf a).active = false) (p : Pos) : a ∉ w.cell p := by
  intro hm
  rw [WInv_parts_iff] at hI
  obtain ⟨hshape, hcells, _, _⟩ := hI
  simp only [wShape, Bool.and_eq_true, beq_iff_eq] at hshape
  simp only [cell] at hm
  by_cases hil : w.idx p < w.rows * w.cols
  · have h := ((wCell_reading w _).1 (hcells _ hil)).2.1 a hm
    rw [hin] at h
    exact absurd h.2.1 (by simp)
  · have : w.cells.getD (w.idx p) [] = [] := by
      simp only [List.getD_eq_getElem?_getD]
      rw [List.getElem?_eq_none (by omega)]; rfl
    rw [this] at hm; cases hm

/-- `Grid.remove` of an agent that is not active raises `KeyError` -/
theorem remove_inactive {w : World} {a : Aid} (hI : w.WInv = true)
    (hin : (w.stOf a).active = false) (p : Pos) : w.remove a p = .error .keyError := by
  rw [remove, if_neg (not_mem_cell_of_inactive hI hin p)]

/-- the move by `d` would be carried out: the destination is another cell, inside the grid, and
`Grid.query` answers `True` for it -/
def wouldMove (w : World) (a : Aid) (d : Pos) : Bool :=
  w.inGrid ((w.stOf a).pos.1 + d.1, (w.stOf a).pos.2 + d.2) &&
  decide (((w.stOf a).pos.1 + d.1, (w.stOf a).pos.2 + d.2) ≠ (w.stOf a).pos) &&
  w.query a ((w.stOf a).pos.1 + d.1, (w.stOf a).pos.2 + d.2)

/-- the move by `d` is the trivial one: the destination is the stored position and lies in the grid -/
def staysPut (w : World) (a : Aid) (d : Pos) : Bool :=
  w.inGrid ((w.stOf a).pos.1 + d.1, (w.stOf a).pos.2 + d.2) &&
  decide (((w.stOf a).pos.1 + d.1, (w.stOf a).pos.2 + d.2) = (w.stOf a).pos)

private theorem moveBy_shape (w : World) (a : Aid) (dst src : Pos) :
    (if w.inGrid dst then
        if dst = src then (Except.ok (true, w) : Except GErr (Bool × World))
        else if w.query a dst then .error .keyError else .ok (false, w)
      else .ok (false, w)) =
      if (w.inGrid dst && decide (dst ≠ src) && w.query a dst) then .error .keyError
      else .ok (w.inGrid dst && decide (dst = src), w) := by
  by_cases h2 : dst = src <;> cases h1 : w.inGrid dst <;> cases h3 : w.query a dst <;> simp [h2]

/-- closed form of the common body of the move actors for an agent that is not active -/
theorem moveBy_inactive {w : World} {a : Aid} (hI : w.WInv = true)
    (hin : (w.stOf a).active = false) (d : Pos) :
    w.moveBy a d =
      if w.wouldMove a d then .error .keyError else .ok (w.staysPut a d, w) := by
  simp only [moveBy, wouldMove, staysPut, remove_inactive hI hin]
  exact moveBy_shape w a _ _

/-- an offset other than `(0, 0)` leads to another position -/
theorem dst_ne_src {p d : Pos} (hd : d ≠ (0, 0)) : ((p.1 + d.1, p.2 + d.2) : Pos) ≠ p := by
  intro h
  apply hd
  have h1 : p.1 + d.1 = p.1 := congrArg Prod.fst h
  have h2 : p.2 + d.2 = p.2 := congrArg Prod.snd h
  have : d.1 = 0 := by omega
  have : d.2 = 0 := by omega
  exact Prod.ext ‹d.1 = 0› ‹d.2 = 0›

theorem staysPut_of_ne {w : World} {a : Aid} {d : Pos} (hd : d ≠ (0, 0)) : w.staysPut a d = false := by
  simp [staysPut, dst_ne_src hd]

/-- the entries of the cross table for an action other than 0 are real steps -/
theorem crossTable_ne_zero {x : Int} {d : Pos} (hx : x ≠ 0) (h : crossTable x = some d) : d ≠ (0, 0) := by
  unfold crossTable at h
  split at h <;> first | (exact absurd rfl hx) | (cases h; decide) | cases h

/-! ## The three actors: closed forms -/

/-- what `MoveActor.process_action` answers for an agent that is not active -/
theorem moveAct_inactive {w : World} {a : Aid} (hI : w.WInv = true)
    (hin : (w.stOf a).active = false) (d : Pos) :
    w.moveAct a d =
      if (w.cfgOf a).moving then
        if w.wouldMove a d then .error .keyError else .ok (some (w.staysPut a d), w)
      else .ok (none, w) := by
  rw [moveAct, moveBy_inactive hI hin]
  by_cases hm : (w.cfgOf a).moving = true <;> by_cases h : w.wouldMove a d = true <;> simp [hm, h]

/-- what `CrossMoveActor.process_action` answers for an agent that is not active -/
theorem crossAct_inactive {w : World} {a : Aid} (hI : w.WInv = true)
    (hin : (w.stOf a).active = false) (x : Int) :
    w.crossAct a x =
      if (w.cfgOf a).moving then
        match crossTable x with
        | none => .error .assertion
        | some d => if w.wouldMove a d then .error .keyError else .ok (some (w.staysPut a d), w)
      else .ok (none, w) := by
  rw [crossAct]
  by_cases hm : (w.cfgOf a).moving = true
  · simp only [hm, if_true]
    cases hd : crossTable x with
    | none => rfl
    | some d =>
      simp only [moveBy_inactive hI hin]
      by_cases h : w.wouldMove a d = true <;> simp [h]
  · simp [hm]

/-- the drift actor's single attempt along the stored orientation, for an agent that is not active -/
def ghostDrift (w : World) (a : Aid) : Except GErr (Option Bool × World × Int) :=
  match crossTable ((w.stOf a).orient : Int) with
  | none => .error .assertion
  | some d =>
    if w.wouldMove a d then .error .keyError
    else .ok (some (w.staysPut a d), w, ((w.stOf a).orient : Int))

/-- what `DriftMoveActor.process_action` answers for an agent that is not active: for a new direction
`x ≠ 0` the FIRST attempt (along `x`) decides when it raises - `x` outside the table (`AssertionError`) or a
destination that `query` accepts (`KeyError`); when it is refused the SECOND attempt (along the stored
orientation) decides in the same way; for `x = 0` there is only the second one. -/
theorem driftAct_inactive {w : World} {a : Aid} (hI : w.WInv = true)
    (hin : (w.stOf a).active = false) (x : Int) :
    w.driftAct a x =
      if (w.cfgOf a).moving && (w.cfgOf a).hasOrient then
        if x ≠ 0 then
          match crossTable x with
          | none => .error .assertion
          | some d => if w.wouldMove a d then .error .keyError else w.ghostDrift a
        else w.ghostDrift a
      else .ok (none, w, x) := by
  rw [driftAct]
  by_cases hsup : ((w.cfgOf a).moving && (w.cfgOf a).hasOrient) = true
  · have hmv : (w.cfgOf a).moving = true := by
      simp only [Bool.and_eq_true] at hsup; exact hsup.1
    have hdrift : (match w.crossAct a ((w.stOf a).orient : Int) with
        | .ok (b, w') => Except.ok (b, w', ((w.stOf a).orient : Int))
        | .error e => .error e) = w.ghostDrift a := by
      rw [crossAct_inactive hI hin, ghostDrift]
      simp only [hmv, if_true]
      cases crossTable ((w.stOf a).orient : Int) with
      | none => rfl
      | some d => by_cases h : w.wouldMove a d = true <;> simp [h]
    simp only [hsup, if_true]
    by_cases hx : x = 0
    · simp only [hx, ne_eq, not_true_eq_false, if_false]
      exact hdrift
    · simp only [ne_eq, hx, not_false_eq_true, if_true]
      rw [crossAct_inactive hI hin]
      simp only [hmv, if_true]
      cases hd : crossTable x with
      | none => rfl
      | some d =>
        by_cases h : w.wouldMove a d = true
        · simp [h]
        · have hs : w.staysPut a d = false := staysPut_of_ne (crossTable_ne_zero hx hd)
          simp only [h, hs, Bool.false_eq_true, if_false]
          exact hdrift
  · simp [hsup]

end World
end Abmarl
