import Abmarl.Lemmas.ExamplesNoRaise
/-!
# Every agent of a packaged example keeps a stored position on the grid (dead or alive)
-/
namespace Abmarl
open World
namespace Ex

/-- every agent's stored position is a grid cell -/
def AllInGrid (w : World) : Prop := ∀ a < w.n, w.inGrid (w.stOf a).pos = true

theorem allInGrid_of_alive {w : World} (hI : w.WInv = true) (hH : HealthC w) : AllInGrid w :=
  fun a ha => (placed_of_WInv hI ha (hH a ha).2.2).inG

theorem inGrid_sframe {w w' : World} (h : SFrame w w') (p : Pos) : w'.inGrid p = w.inGrid p := by
  simp only [inGrid, h.rows, h.cols]

/-- the component calls the examples make: `MoveActor` / `CrossMoveActor` moves and attacks -/
def Plain : GOp → Prop
  | .move (.drift _ _) => False
  | .reset _ => False
  | _ => True

theorem Plain.noReset {op : GOp} (h : Plain op) : ∀ cs, op ≠ .reset cs := by
  intro cs hc; subst hc; exact h

/-- a move or an attack leaves every agent where it was, or alive -/
theorem op_pos_or_active {w w' : World} {t t' : Tape} {op : GOp} (hI : w.WInv = true)
    (hpl : Plain op) (h : runGOpSeq w t op = .ok (w', t')) :
    ∀ b < w.n, (w'.stOf b).pos = (w.stOf b).pos ∨ (w'.stOf b).active = true := by
  cases op with
  | reset cs => exact absurd hpl (by simp [Plain])
  | move c =>
    simp only [runGOpSeq] at h
    split at h
    · rename_i hg
      simp only [Bool.and_eq_true, decide_eq_true_eq] at hg
      obtain ⟨⟨ha, hact⟩, hsp⟩ := hg
      obtain ⟨o, ho, he⟩ := map_ok h
      simp only [Prod.mk.injEq] at he
      have h12 := C12_moves w c hI ha hact hsp
      rw [ho] at h12
      rw [← he.1]
      -- every move actor: the outcome is a `specMoveBy` outcome or the world itself
      have key : ∀ {a d ok}, a = c.agent → specMoveBy w a d ok o.post = true →
          ∀ b < w.n, (o.post.stOf b).pos = (w.stOf b).pos ∨ (o.post.stOf b).active = true := by
        intro a d ok hac hs b hb
        obtain ⟨_, _, hyes, hno⟩ := specMoveBy_reading hs
        by_cases hc : ok = true ∧ ((w.stOf a).pos.1 + d.1, (w.stOf a).pos.2 + d.2) ≠ (w.stOf a).pos
        · obtain ⟨hst, hoth, _⟩ := hyes hc
          by_cases hba : b = a
          · right; rw [hba, hst, hac]; exact hact
          · left; rw [hoth b hb hba]
        · left; rw [hno hc]
      have same : ∀ {x : Bool}, (x && o.post == w) = true →
          ∀ b < w.n, (o.post.stOf b).pos = (w.stOf b).pos ∨ (o.post.stOf b).active = true := by
        intro x hx b _
        simp only [Bool.and_eq_true, beq_iff_eq] at hx
        left; rw [hx.2]
      cases c with
      | move a d =>
        simp only [specC12] at h12
        split at h12
        · split at h12
          · exact key rfl h12
          · cases h12
        · exact same h12
      | cross a x =>
        simp only [specC12] at h12
        split at h12
        · split at h12
          · exact key rfl h12
          · cases h12
        · exact same h12
      | drift a x => simp [Plain] at hpl
    · simp only [Except.ok.injEq, Prod.mk.injEq] at h
      intro b _; left; rw [h.1]
  | attack cfg a act =>
    simp only [runGOpSeq] at h
    split at h
    · rename_i hg
      simp only [Bool.and_eq_true, decide_eq_true_eq] at hg
      obtain ⟨r, hr, he⟩ := map_ok h
      obtain ⟨⟨st, H⟩, w1, t1⟩ := r
      simp only [Prod.mk.injEq] at he
      obtain ⟨hyes, hno⟩ := attack_frame cfg w a act t hI hg.1 hr
      rw [← he.1]
      intro b hb
      left
      cases hatt : (w.cfgOf a).attacking with
      | false => rw [(hno hatt).2]
      | true =>
        have hb' := hyes hatt
        simp only [specBook, Bool.and_eq_true, List.all_eq_true, allAgents, List.mem_range, Bool.or_eq_true,
          beq_iff_eq] at hb'
        obtain ⟨⟨⟨_, hatk⟩, hoth⟩, _⟩ := hb'
        by_cases hba : b = a
        · subst hba
          split at hatk
          · simp only [Bool.and_eq_true, beq_iff_eq] at hatk
            rw [hatk.2]
          · simp only [beq_iff_eq] at hatk
            rw [hatk]
        · rcases hoth b hb with h1 | h1
          · exact absurd h1 hba
          · split at h1
            · simp only [beq_iff_eq] at h1; rw [h1]
            · simp only [beq_iff_eq] at h1; rw [h1]
    · simp only [Except.ok.injEq, Prod.mk.injEq] at h
      intro b _; left; rw [h.1]

theorem op_allInGrid {w0 w w' : World} {t t' : Tape} {op : GOp} (hcfg : CfgOK w0) (hX : XInv w0 w)
    (hP : AllInGrid w) (hop : Plain op) (h : runGOpSeq w t op = .ok (w', t')) : AllInGrid w' := by
  have hX' := xinv_step hcfg hX hop.noReset h
  have hn : w'.n = w.n := (sframe_n hX'.frame).trans (sframe_n hX.frame).symm
  intro b hb
  rcases op_pos_or_active hX.inv hop h b (by rw [← hn]; exact hb) with h1 | h1
  · rw [h1]
    have e1 := inGrid_sframe hX.frame (w.stOf b).pos
    have e2 := inGrid_sframe hX'.frame (w.stOf b).pos
    rw [e2, ← e1]
    exact hP b (by rw [← hn]; exact hb)
  · exact (placed_of_WInv hX'.inv hb h1).inG

theorem ops_allInGrid {w0 : World} (hcfg : CfgOK w0) :
    ∀ (ops : List GOp) (w w' : World) (t t' : Tape), XInv w0 w → AllInGrid w →
      (∀ op ∈ ops, Plain op) → runGOpsSeq w t ops = .ok (w', t') → AllInGrid w' := by
  intro ops
  induction ops with
  | nil =>
    intro w w' t t' _ hP _ h
    simp only [runGOpsSeq, Except.ok.injEq, Prod.mk.injEq] at h
    rw [← h.1]; exact hP
  | cons op rest ih =>
    intro w w' t t' hX hP hops h
    simp only [runGOpsSeq] at h
    cases h1 : runGOpSeq w t op with
    | error e => rw [h1] at h; cases h
    | ok r =>
      obtain ⟨w1, t1⟩ := r
      rw [h1] at h
      have hop := hops op List.mem_cons_self
      exact ih w1 w' t1 t' (xinv_step hcfg hX hop.noReset h1) (op_allInGrid hcfg hX hP hop h1)
        (fun o ho => hops o (List.mem_cons_of_mem _ ho)) h

theorem stepOps_plain (cfg : Cfg) (acts : List (Aid × Act)) : ∀ op ∈ stepOps cfg acts, Plain op := by
  intro op hop
  unfold stepOps at hop
  cases hw : cfg.which <;> rw [hw] at hop <;> simp only at hop
  · simp only [List.mem_append, List.mem_map] at hop
    rcases hop with ⟨x, _, rfl⟩ | ⟨x, _, rfl⟩ <;> trivial
  · simp only [List.mem_append, List.mem_map] at hop
    rcases hop with ⟨x, _, rfl⟩ | ⟨x, _, rfl⟩ <;> trivial
  · split at hop
    · cases hop
    · simp only [List.mem_singleton] at hop; subst hop; trivial
  · simp only [List.mem_map] at hop
    obtain ⟨x, _, rfl⟩ := hop; trivial
  · simp only [List.mem_map] at hop
    obtain ⟨x, _, rfl⟩ := hop; trivial

/-- `GoodL`, and (after the first reset) every agent's stored position is a grid cell -/
def GoodP (cfg : Cfg) (w0 : World) (s : St) : Prop :=
  GoodL cfg w0 s ∧ (s.rewards.isSome = true → AllInGrid s.w)

theorem runOp_goodP {cfg : Cfg} {w0 : World} (hcfg : CfgOK w0) (hfresh : w0.vitalsAlive = true)
    (s : St) (op : EOp) (hop : OpOK cfg w0 op) (hG : GoodP cfg w0 s) : GoodP cfg w0 (runOp cfg s op).2 := by
  refine ⟨runOp_goodL hcfg hfresh s op hop hG.1, ?_⟩
  cases op with
  | reset order tape =>
    simp only [runOp]
    cases h : reset cfg order { s with tape := tape } with
    | error e => exact hG.2
    | ok s' =>
      obtain ⟨_, hX⟩ := reset_good hcfg hfresh hop (s := { s with tape := tape }) hG.1.1 h
      exact fun _ => allInGrid_of_alive hX.inv hX.alive
  | step acts tape =>
    simp only [runOp]
    cases h : step cfg { s with tape := tape } acts with
    | error e => exact hG.2
    | ok s' =>
      obtain ⟨r, hr, _, hhist, _⟩ := step_good hcfg hop (s := { s with tape := tape }) hG.1.1 h
      intro _
      have hI : Inv cfg w0 s.w := by
        have := hG.1.1
        unfold Good at this
        simp only at hr
        rw [hr] at this
        exact this
      exact ops_allInGrid hcfg (stepOps cfg acts) s.w s'.w tape s'.tape hI.xinv
        (hG.2 (by simp only at hr; rw [hr]; rfl)) (stepOps_plain cfg acts) hhist
  | obs a tape =>
    simp only [runOp]
    cases h : getObs cfg { s with tape := tape } a with
    | error e => exact hG.2
    | ok r =>
      obtain ⟨o, s'⟩ := r
      obtain ⟨t', rfl⟩ := getObs_shape h
      exact hG.2
  | rew a =>
    simp only [runOp]
    cases h : getReward cfg s a with
    | error e => exact hG.2
    | ok r =>
      obtain ⟨x, s'⟩ := r
      obtain ⟨r0, hr0, _, rfl⟩ := getReward_shape h
      intro _
      exact hG.2 (by rw [hr0]; rfl)
  | done a => exact hG.2
  | allDone => exact hG.2

theorem runOps_goodP {cfg : Cfg} {w0 : World} (hcfg : CfgOK w0) (hfresh : w0.vitalsAlive = true)
    (ops : List EOp) (s : St) (hops : ∀ op ∈ ops, OpOK cfg w0 op) (hG : GoodP cfg w0 s) :
    GoodP cfg w0 (runOps cfg s ops).2 :=
  runOps_inv (GoodP cfg w0) ops s (fun op ho s' hs' => runOp_goodP hcfg hfresh s' op (hops op ho) hs') hG

theorem goodP_init (cfg : Cfg) (w0 : World) (t : Tape) : GoodP cfg w0 { w := w0, tape := t } :=
  ⟨⟨rfl, fun r hr => by cases hr⟩, fun h => by cases h⟩

end Ex
end Abmarl
