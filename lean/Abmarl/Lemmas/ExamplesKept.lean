import Abmarl.Lemmas.ExamplesPos
import Abmarl.Lemmas.ExamplesReset
/-!
# What no component of a packaged example owns is never written

The ghost fields (the `ammo` of an agent without ammunition, the `orient` of an agent without
orientation) and — in the classes without an attack actor — health and activity are, in every state a
history can reach, what they were in the constructed world, unless a state component of the
simulation resets them.  With `Ex.comps_reset_forgets` this gives the used-versus-fresh statement for
every reachable state.
-/
namespace Abmarl
open World
namespace Ex

/-- from `w` to `w'`: ghost fields kept, and (if `H`) health and activity kept -/
structure Keeps (H : Prop) (w w' : World) : Prop where
  ammo : ∀ a, (w.cfgOf a).hasAmmo = false → (w'.stOf a).ammo = (w.stOf a).ammo
  orient : ∀ a, (w.cfgOf a).hasOrient = false → (w'.stOf a).orient = (w.stOf a).orient
  health : H → ∀ a, (w'.stOf a).health = (w.stOf a).health ∧ (w'.stOf a).active = (w.stOf a).active

theorem Keeps.refl (H : Prop) (w : World) : Keeps H w w := ⟨fun _ _ => rfl, fun _ _ => rfl, fun _ _ => ⟨rfl, rfl⟩⟩

theorem Keeps.trans {H : Prop} {w w' w'' : World} (h1 : Keeps H w w') (h2 : Keeps H w' w'')
    (hc : ∀ a, w'.cfgOf a = w.cfgOf a) : Keeps H w w'' :=
  ⟨fun a ha => (h2.ammo a (by rw [hc]; exact ha)).trans (h1.ammo a ha),
   fun a ha => (h2.orient a (by rw [hc]; exact ha)).trans (h1.orient a ha),
   fun hH a => ⟨((h2.health hH a).1).trans (h1.health hH a).1, ((h2.health hH a).2).trans (h1.health hH a).2⟩⟩

theorem stOf_eq_of_ge {w w' : World} (hl : w'.st.length = w.st.length) {a : Aid} (ha : w.st.length ≤ a) :
    w'.stOf a = w.stOf a := by
  rw [WAgree.stOf_default_of_ge ha, WAgree.stOf_default_of_ge (by rw [hl]; exact ha)]

theorem len_of_WInv {w : World} (hI : w.WInv = true) : w.st.length = w.n := by
  have := ((WInv_parts_iff w).mp hI).1
  simp only [wShape, Bool.and_eq_true, beq_iff_eq] at this
  exact this.2

/-- to establish `Keeps` it is enough to look at the agents of the world -/
theorem Keeps.of_lt {H : Prop} {w w' : World} (hl : w'.st.length = w.st.length) (hn : w.st.length = w.n)
    (h : ∀ a < w.n, ((w.cfgOf a).hasAmmo = false → (w'.stOf a).ammo = (w.stOf a).ammo) ∧
      ((w.cfgOf a).hasOrient = false → (w'.stOf a).orient = (w.stOf a).orient) ∧
      (H → (w'.stOf a).health = (w.stOf a).health ∧ (w'.stOf a).active = (w.stOf a).active)) :
    Keeps H w w' := by
  have key : ∀ a, ¬ a < w.n → w'.stOf a = w.stOf a :=
    fun a ha => stOf_eq_of_ge hl (by rw [hn]; exact Nat.le_of_not_lt ha)
  refine ⟨fun a hA => ?_, fun a hO => ?_, fun hH a => ?_⟩
  · by_cases ha : a < w.n
    · exact (h a ha).1 hA
    · rw [key a ha]
  · by_cases ha : a < w.n
    · exact (h a ha).2.1 hO
    · rw [key a ha]
  · by_cases ha : a < w.n
    · exact (h a ha).2.2 hH
    · rw [key a ha]; exact ⟨rfl, rfl⟩

/-! ## moves and attacks -/

/-- a `MoveActor` move changes nobody's vitals -/
theorem move_keeps {w w' : World} {t t' : Tape} {a : Aid} {d : Pos} (hI : w.WInv = true)
    (h : runGOpSeq w t (.move (.move a d)) = .ok (w', t')) : Keeps True w w' := by
  simp only [runGOpSeq] at h
  split at h
  · rename_i hg
    simp only [Bool.and_eq_true, MoveCall.agent] at hg
    obtain ⟨⟨ha, hact⟩, hsp⟩ := hg
    have ha : a < w.n := of_decide_eq_true ha
    obtain ⟨o, ho, he⟩ := map_ok h
    simp only [Prod.mk.injEq] at he
    have h12 := C12_moves w (.move a d) hI ha hact hsp
    rw [ho] at h12
    have hS := move_sframe h12
    rw [← he.1]
    apply Keeps.of_lt hS.len (len_of_WInv hI)
    intro b hb
    have key : (o.post.stOf b).health = (w.stOf b).health ∧ (o.post.stOf b).active = (w.stOf b).active ∧
        (o.post.stOf b).ammo = (w.stOf b).ammo ∧ (o.post.stOf b).orient = (w.stOf b).orient := by
      simp only [specC12] at h12
      split at h12
      · split at h12
        · rename_i ok _
          obtain ⟨_, _, hyes, hno⟩ := specMoveBy_reading h12
          by_cases hc : ok = true ∧ ((w.stOf a).pos.1 + d.1, (w.stOf a).pos.2 + d.2) ≠ (w.stOf a).pos
          · obtain ⟨hst, hoth, _⟩ := hyes hc
            by_cases hba : b = a
            · subst hba; rw [hst]; exact ⟨rfl, rfl, rfl, rfl⟩
            · rw [hoth b hb hba]; exact ⟨rfl, rfl, rfl, rfl⟩
          · rw [hno hc]; exact ⟨rfl, rfl, rfl, rfl⟩
        · cases h12
      · simp only [Bool.and_eq_true, beq_iff_eq] at h12
        rw [h12.2]; exact ⟨rfl, rfl, rfl, rfl⟩
    exact ⟨fun _ => key.2.2.1, fun _ => key.2.2.2, fun _ => ⟨key.1, key.2.1⟩⟩
  · simp only [Except.ok.injEq, Prod.mk.injEq] at h
    rw [← h.1]; exact Keeps.refl _ _

/-- an attack changes no ghost field -/
theorem attack_keeps {w w' : World} {t t' : Tape} {cfg : AttackCfg} {a : Aid} {act : AttackAct}
    (hI : w.WInv = true) (h : runGOpSeq w t (.attack cfg a act) = .ok (w', t')) : Keeps False w w' := by
  simp only [runGOpSeq] at h
  split at h
  · rename_i hg
    simp only [Bool.and_eq_true, decide_eq_true_eq] at hg
    obtain ⟨r, hr, he⟩ := map_ok h
    obtain ⟨⟨st, H⟩, w1, t1⟩ := r
    simp only [Prod.mk.injEq] at he
    obtain ⟨hyes, hno⟩ := attack_frame cfg w a act t hI hg.1 hr
    rw [← he.1]
    cases hatt : (w.cfgOf a).attacking with
    | false => rw [(hno hatt).2]; exact Keeps.refl _ _
    | true =>
      have hb' := hyes hatt
      simp only [specBook, Bool.and_eq_true, List.all_eq_true, allAgents, List.mem_range, Bool.or_eq_true,
        beq_iff_eq] at hb'
      obtain ⟨⟨⟨hstat, hatk⟩, hoth⟩, _⟩ := hb'
      have hS := sframe_of_sameStatic hstat
      apply Keeps.of_lt hS.len (len_of_WInv hI)
      intro b hb
      refine ⟨fun hA => ?_, fun _ => ?_, fun hf => hf.elim⟩
      · by_cases hba : b = a
        · subst hba
          rw [hA] at hatk
          simp only [Bool.false_eq_true, if_false, beq_iff_eq] at hatk
          rw [hatk]
        · rcases hoth b hb with h1 | h1
          · exact absurd h1 hba
          · split at h1
            · simp only [beq_iff_eq] at h1; rw [h1]
            · simp only [beq_iff_eq] at h1; rw [h1]
      · by_cases hba : b = a
        · subst hba
          split at hatk
          · simp only [Bool.and_eq_true, beq_iff_eq] at hatk
            rw [hatk.2]
          · simp only [beq_iff_eq] at hatk
            rw [hatk]
        · rcases hoth b hb with h1 | h1
          · exact absurd h1 hba
          · split at h1
            · simp only [beq_iff_eq] at h1; rw [h1]
            · simp only [beq_iff_eq] at h1; rw [h1]
  · simp only [Except.ok.injEq, Prod.mk.injEq] at h
    rw [← h.1]; exact Keeps.refl _ _

theorem Keeps.weaken {H H' : Prop} {w w' : World} (h : Keeps H w w') (hH : H' → H) : Keeps H' w w' :=
  ⟨h.ammo, h.orient, fun h' => h.health (hH h')⟩

/-- the component calls of one `step`: ghost fields kept; health kept if there is no attack among them -/
theorem ops_keeps {w0 : World} (hcfg : CfgOK w0) (H : Prop) :
    ∀ (ops : List GOp) (w w' : World) (t t' : Tape), XInv w0 w →
      (∀ op ∈ ops, (∃ a d, op = .move (.move a d)) ∨ (¬ H ∧ ∃ c a act, op = .attack c a act)) →
      runGOpsSeq w t ops = .ok (w', t') → Keeps H w w' := by
  intro ops
  induction ops with
  | nil =>
    intro w w' t t' _ _ h
    simp only [runGOpsSeq, Except.ok.injEq, Prod.mk.injEq] at h
    rw [← h.1]; exact Keeps.refl _ _
  | cons op rest ih =>
    intro w w' t t' hX hops h
    simp only [runGOpsSeq] at h
    cases h1 : runGOpSeq w t op with
    | error e => rw [h1] at h; cases h
    | ok r =>
      obtain ⟨w1, t1⟩ := r
      rw [h1] at h
      have hk1 : Keeps H w w1 := by
        rcases hops op List.mem_cons_self with ⟨a, d, rfl⟩ | ⟨hnH, c, a, act, rfl⟩
        · exact (move_keeps hX.inv h1).weaken (fun _ => trivial)
        · exact (attack_keeps hX.inv h1).weaken (fun hh => hnH hh)
      have hnr : ∀ cs, op ≠ .reset cs := by
        rcases hops op List.mem_cons_self with ⟨a, d, rfl⟩ | ⟨_, c, a, act, rfl⟩ <;> intro cs hc <;> cases hc
      have hX1 := xinv_step hcfg hX hnr h1
      have hk2 := ih w1 w' t1 t' hX1 (fun o ho => hops o (List.mem_cons_of_mem _ ho)) h
      exact hk1.trans hk2 (fun a => by rw [sframe_cfgOf hX1.frame, sframe_cfgOf hX.frame])

/-! ## resets -/

theorem orientResetFrom_ghost (l : List Aid) :
    ∀ (w : World) (t : Tape) (b : Aid), (w.cfgOf b).hasOrient = false →
      ((orientResetFrom l w t).1.stOf b).orient = (w.stOf b).orient := by
  induction l with
  | nil => intro w t b _; rfl
  | cons a as ih =>
    intro w t b hb
    simp only [orientResetFrom]
    split
    · rename_i hO
      have hba : b ≠ a := fun e => by rw [e, hO] at hb; cases hb
      split
      · rw [ih _ _ b (by simpa [cfgOf, setSt] using hb), stOf_setSt_ne _ _ hba]
      · rw [ih _ _ b (by simpa [cfgOf, setSt] using hb), stOf_setSt_ne _ _ hba]
    · exact ih w t b hb

/-- one state component: ghost fields kept; health and activity kept unless it is the health state -/
theorem applyComp_keeps (c : StateComp) (w : World) (t : Tape) (w' : World) (t' : Tape)
    (hwf : ∀ kind o, c = .position kind o → wfPlacement kind o w = true) (hcfg : CfgOK w)
    (hnc : c ≠ .healthClosed) (hlen : w.st.length = w.cfg.length) (h : applyComp c w t = .ok (w', t')) :
    Keeps (c.resetsHealth = false) w w' := by
  cases c with
  | healthClosed => exact absurd rfl hnc
  | position kind o =>
    obtain ⟨hS, _⟩ := placement_clauses kind o w t w' t' (hwf kind o rfl) hlen h
    have hspec := place_ok_spec kind o w t (hwf kind o rfl)
    simp only [applyComp, placementReset, PlaceOut.toExcept] at h
    cases herr : (resetX kind o w t).1.err with
    | some e => rw [herr] at h; cases h
    | none =>
      rw [herr] at h
      simp only [Except.ok.injEq, Prod.mk.injEq] at h
      unfold specPlacement at hspec
      simp only [Bool.and_eq_true] at hspec
      obtain ⟨⟨⟨⟨_, _⟩, hvk⟩, _⟩, _⟩ := hspec
      rw [h.1] at hvk
      simp only [vitalsKept, List.all_eq_true, allAgents, List.mem_range, beq_iff_eq] at hvk
      apply Keeps.of_lt hS.len (by rw [hlen]; rfl)
      intro b hb
      rw [hvk b hb]
      exact ⟨fun _ => rfl, fun _ => rfl, fun _ => ⟨rfl, rfl⟩⟩
  | health =>
    simp only [applyComp, Except.ok.injEq] at h
    obtain ⟨_, _, h3, _⟩ := healthResetFrom_spec (List.range w.n) w t List.nodup_range hcfg
    have hw' : w' = (healthResetFrom false (List.range w.n) w t).1 := (congrArg Prod.fst h).symm
    rw [← hw'] at h3
    exact ⟨fun a _ => (h3 a).1, fun a _ => (h3 a).2, fun hh => by simp [StateComp.resetsHealth] at hh⟩
  | ammo =>
    simp only [applyComp, Except.ok.injEq, Prod.mk.injEq] at h
    obtain ⟨_, _, h3, _, h5⟩ := ammoResetFrom_spec (List.range w.n) w List.nodup_range
    have hw' : w' = ammoResetFrom (List.range w.n) w := h.1.symm
    rw [← hw'] at h3 h5
    exact ⟨fun a hA => h5 a hA, fun a _ => (h3 a).2.2, fun _ a => ⟨(h3 a).1, (h3 a).2.1⟩⟩
  | orient =>
    simp only [applyComp, Except.ok.injEq] at h
    obtain ⟨_, _, h3, _⟩ := orientResetFrom_spec (List.range w.n) w t List.nodup_range hcfg
    have hw' : w' = (orientResetFrom (List.range w.n) w t).1 := (congrArg Prod.fst h).symm
    have hg := orientResetFrom_ghost (List.range w.n) w t
    rw [← hw'] at h3 hg
    exact ⟨fun a _ => (h3 a).2.2, fun a hO => hg a hO, fun _ a => ⟨(h3 a).1, (h3 a).2.1⟩⟩

/-- the state components one after the other -/
theorem applyComps_keeps (cs : List StateComp) :
    ∀ (w : World) (t : Tape) (w' : World) (t' : Tape),
      (∀ kind o, StateComp.position kind o ∈ cs → wfPlacement kind o w = true) → CfgOK w →
      StateComp.healthClosed ∉ cs → w.st.length = w.cfg.length → applyComps cs w t = .ok (w', t') →
      Keeps (cs.any StateComp.resetsHealth = false) w w' := by
  induction cs with
  | nil =>
    intro w t w' t' _ _ _ _ h
    simp only [applyComps, Except.ok.injEq, Prod.mk.injEq] at h
    rw [← h.1]; exact Keeps.refl _ _
  | cons c cs ih =>
    intro w t w' t' hwf hcfg hnc hlen h
    simp only [applyComps] at h
    cases h1 : applyComp c w t with
    | error e => rw [h1] at h; cases h
    | ok r =>
      obtain ⟨w1, t1⟩ := r
      rw [h1] at h
      simp only at h
      have hk1 := applyComp_keeps c w t w1 t1 (fun k o hc => hwf k o (by rw [hc]; exact List.mem_cons_self)) hcfg
        (fun hc => hnc (by rw [hc]; exact List.mem_cons_self)) hlen h1
      obtain ⟨hS1, _⟩ := applyComp_spec c w t w1 t1 (fun k o hc => hwf k o (by rw [hc]; exact List.mem_cons_self)) hcfg
        (fun hc => hnc (by rw [hc]; exact List.mem_cons_self)) hlen h1
      have hlen1 : w1.st.length = w1.cfg.length := by rw [hS1.len, hS1.cfg]; exact hlen
      have hk2 := ih w1 t1 w' t'
        (fun k o hm => by rw [wfPlacement_of_sframe hS1]; exact hwf k o (List.mem_cons_of_mem _ hm))
        (cfgOK_of_sframe hS1 hcfg) (fun hm => hnc (List.mem_cons_of_mem _ hm)) hlen1 h
      have hH1 : (c :: cs).any StateComp.resetsHealth = false → c.resetsHealth = false := by
        intro hh; simp only [List.any_cons, Bool.or_eq_false_iff] at hh; exact hh.1
      have hH2 : (c :: cs).any StateComp.resetsHealth = false → cs.any StateComp.resetsHealth = false := by
        intro hh; simp only [List.any_cons, Bool.or_eq_false_iff] at hh; exact hh.2
      exact (hk1.weaken hH1).trans (hk2.weaken hH2) (fun a => (clause_frame hS1).2 a)

/-! ## histories -/

/-- no state component of the simulation owns health -/
def NoHealthComp (cfg : Cfg) : Prop := cfg.comps.any StateComp.resetsHealth = false

theorem any_resetsHealth_of_mem {cs : List StateComp} (h : StateComp.health ∈ cs) :
    cs.any StateComp.resetsHealth = true := List.any_eq_true.mpr ⟨_, h, rfl⟩

theorem stepOps_kinds (cfg : Cfg) (acts : List (Aid × Act)) : ∀ op ∈ stepOps cfg acts,
    (∃ a d, op = .move (.move a d)) ∨
    ((cfg.which = .teamBattle ∨ cfg.which = .predatorPrey) ∧ ∃ c a act, op = .attack c a act) := by
  intro op hop
  unfold stepOps at hop
  cases hw : cfg.which <;> rw [hw] at hop <;> simp only at hop
  · simp only [List.mem_append, List.mem_map] at hop
    rcases hop with ⟨x, _, rfl⟩ | ⟨x, _, rfl⟩
    · exact Or.inr ⟨Or.inl rfl, _, _, _, rfl⟩
    · exact Or.inl ⟨_, _, rfl⟩
  · simp only [List.mem_append, List.mem_map] at hop
    rcases hop with ⟨x, _, rfl⟩ | ⟨x, _, rfl⟩
    · exact Or.inr ⟨Or.inr rfl, _, _, _, rfl⟩
    · exact Or.inl ⟨_, _, rfl⟩
  · split at hop
    · cases hop
    · simp only [List.mem_singleton] at hop; subst hop; exact Or.inl ⟨_, _, rfl⟩
  · simp only [List.mem_map] at hop
    obtain ⟨x, _, rfl⟩ := hop; exact Or.inl ⟨_, _, rfl⟩
  · simp only [List.mem_map] at hop
    obtain ⟨x, _, rfl⟩ := hop; exact Or.inl ⟨_, _, rfl⟩

/-- a successful `step` keeps what the class's components do not own -/
theorem step_keeps {cfg : Cfg} {w0 : World} (hcfg : CfgOK w0) (hR : ResetOK cfg w0 cfg.comps)
    {acts : List (Aid × Act)} (hA : ActsOK cfg w0 acts) {s s' : St} (hG : Good cfg w0 s)
    (h : step cfg s acts = .ok s') : Keeps (NoHealthComp cfg) s.w s'.w := by
  obtain ⟨r, hr, _, hhist, _⟩ := step_good hcfg hA hG h
  have hI : Inv cfg w0 s.w := by
    unfold Good at hG; rw [hr] at hG; exact hG
  refine ops_keeps hcfg (NoHealthComp cfg) (stepOps cfg acts) s.w s'.w s.tape s'.tape hI.xinv ?_ hhist
  intro op hop
  rcases stepOps_kinds cfg acts op hop with h1 | ⟨hw, h2⟩
  · exact Or.inl h1
  · refine Or.inr ⟨?_, h2⟩
    intro hN
    have := any_resetsHealth_of_mem (hR.health hw)
    unfold NoHealthComp at hN
    rw [hN] at this; cases this

/-- a successful `reset` (in the order `cfg.comps`) keeps what the components do not own -/
theorem reset_keeps {cfg : Cfg} {w0 : World} (hcfg : CfgOK w0) (hR : ResetOK cfg w0 cfg.comps)
    {s s' : St} (hF : SFrame w0 s.w) (hlen : w0.st.length = w0.cfg.length)
    (h : reset cfg cfg.comps s = .ok s') : Keeps (NoHealthComp cfg) s.w s'.w := by
  unfold reset at h
  split at h
  · cases h
  · split at h
    · cases h
    · rename_i w' t' ha
      simp only [Except.ok.injEq] at h
      subst h
      exact applyComps_keeps cfg.comps s.w s.tape w' t'
        (fun k o hm => by rw [wfPlacement_of_sframe hF]; exact hR.wf k o hm) (cfgOK_of_sframe hF hcfg)
        hR.noClosed (by rw [hF.len, hF.cfg]; exact hlen) ha

end Ex
end Abmarl
