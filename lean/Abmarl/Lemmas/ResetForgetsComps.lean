import Abmarl.Lemmas.ResetForgetsVitals
import Abmarl.Lemmas.ResetForgetsLoop
/-!
# Reset forgets — any list of state components

The order of the components is arbitrary, so the agreement is indexed by four Booleans: which field
groups have been reset so far.  Each component switches its own on.
-/
namespace Abmarl
open World

/-- the flags "these groups agree for every agent" -/
def FB (p h a o : Bool) : Flags :=
  ⟨fun _ => p = true, fun _ => h = true, fun _ => a = true, fun _ => o = true⟩

namespace StateComp
def resetsPos : StateComp → Bool
  | .position _ _ => true
  | _ => false
def resetsHealth : StateComp → Bool
  | .health => true
  | .healthClosed => true
  | _ => false
def resetsAmmo : StateComp → Bool
  | .ammo => true
  | _ => false
def resetsOrient : StateComp → Bool
  | .orient => true
  | _ => false
end StateComp

/-- what is left of a reset: the world and the tape -/
def RAgree (cf : List AgentCfg) (p h a o : Bool) (r1 r2 : World × Tape) : Prop :=
  WAgree cf (FB p h a o) (p = true) r1.1 r2.1 ∧ r1.2 = r2.2

/-- one component on agreeing worlds: the same error, or agreeing worlds with its group switched on
and the same tape -/
theorem applyComp_agree {cf : List AgentCfg} (c : StateComp) (p h a o : Bool) {x1 x2 : World}
    (t : Tape) (hw : WAgree cf (FB p h a o) (p = true) x1 x2) :
    ERel (RAgree cf (p || c.resetsPos) (h || c.resetsHealth) (a || c.resetsAmmo) (o || c.resetsOrient))
      (applyComp c x1 t) (applyComp c x2 t) := by
  cases c with
  | position kind o' =>
    simp only [applyComp, StateComp.resetsPos, StateComp.resetsHealth, StateComp.resetsAmmo,
      StateComp.resetsOrient, Bool.or_true, Bool.or_false]
    refine (placementReset_agree hw kind o' t).mono (fun r1 r2 hr => ⟨?_, hr.2⟩)
    exact hr.1.mono (fun b _ => ⟨fun _ => trivial, id, id, id⟩) (fun _ => trivial)
  | health =>
    simp only [applyComp, StateComp.resetsPos, StateComp.resetsHealth, StateComp.resetsAmmo,
      StateComp.resetsOrient, Bool.or_true, Bool.or_false, ERel]
    obtain ⟨i1, i2⟩ := healthReset_agree t false hw
    exact ⟨i1.mono (fun b _ => ⟨id, fun _ => trivial, id, id⟩) id, i2⟩
  | healthClosed =>
    simp only [applyComp, StateComp.resetsPos, StateComp.resetsHealth, StateComp.resetsAmmo,
      StateComp.resetsOrient, Bool.or_true, Bool.or_false, ERel]
    obtain ⟨i1, i2⟩ := healthReset_agree t true hw
    exact ⟨i1.mono (fun b _ => ⟨id, fun _ => trivial, id, id⟩) id, i2⟩
  | ammo =>
    simp only [applyComp, StateComp.resetsPos, StateComp.resetsHealth, StateComp.resetsAmmo,
      StateComp.resetsOrient, Bool.or_true, Bool.or_false, ERel]
    exact ⟨(ammoReset_agree hw).mono (fun b _ => ⟨id, id, fun _ => trivial, id⟩) id, rfl⟩
  | orient =>
    simp only [applyComp, StateComp.resetsPos, StateComp.resetsHealth, StateComp.resetsAmmo,
      StateComp.resetsOrient, Bool.or_true, Bool.or_false, ERel]
    obtain ⟨i1, i2⟩ := orientReset_agree t hw
    exact ⟨i1.mono (fun b _ => ⟨id, id, id, fun _ => trivial⟩) id, i2⟩

/-- a list of components on agreeing worlds -/
theorem applyComps_agree {cf : List AgentCfg} (cs : List StateComp) :
    ∀ (p h a o : Bool) (x1 x2 : World) (t : Tape), WAgree cf (FB p h a o) (p = true) x1 x2 →
      ERel (RAgree cf (p || cs.any StateComp.resetsPos) (h || cs.any StateComp.resetsHealth)
          (a || cs.any StateComp.resetsAmmo) (o || cs.any StateComp.resetsOrient))
        (applyComps cs x1 t) (applyComps cs x2 t) := by
  induction cs with
  | nil =>
    intro p h a o x1 x2 t hw
    simp only [applyComps, List.any_nil, Bool.or_false, ERel]
    exact ⟨hw, rfl⟩
  | cons c cs ih =>
    intro p h a o x1 x2 t hw
    simp only [applyComps, List.any_cons]
    rcases (applyComp_agree c p h a o t hw).cases' with ⟨e, h1, h2⟩ | ⟨r1, r2, h1, h2, hr⟩
    · rw [h1, h2]; simp only [ERel]
    · rw [h1, h2]
      obtain ⟨w1, t1⟩ := r1
      obtain ⟨w2, t2⟩ := r2
      obtain ⟨hr1, hr2⟩ := hr
      simp only at hr1 hr2
      subst hr2
      simp only [← Bool.or_assoc]
      exact ih _ _ _ _ w1 w2 t1 hr1

end Abmarl
