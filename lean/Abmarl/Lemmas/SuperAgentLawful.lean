import Abmarl.Lemmas.SuperAgent
/-!
# The functor lemma: a wrapped lawful simulation is lawful

`superSim_lawful : Lawful S → (covered ++ uncovered).Nodup → Lawful (superSim S cfg)` and
`superSim_WF`, so that every manager / adapter / trainer theorem (C01, C07, C15, C16) applies to
`superSim S cfg` for free.
-/
namespace Abmarl
variable {σ α ω ι : Type}

/-- the mapping is a partition of (some of) the simulation's agents: nobody is covered twice and
the uncovered agents are listed once each and are not covered -/
def Partition (cfg : SuperCfg ω) : Prop := (cfg.covered ++ cfg.uncovered).Nodup

/-! ### who is who among the outer agents -/

theorem outer_sup {cfg : SuperCfg ω} {x : Aid} {cov : List Aid} (h : cfg.outer x = .sup cov) :
    cfg.groups[x]? = some cov := by
  unfold SuperCfg.outer at h
  cases hg : cfg.groups[x]? with
  | some c => simp only [hg, Outer.sup.injEq] at h; rw [h]
  | none =>
    simp only [hg] at h
    cases hu : cfg.uncovered[x - cfg.groups.length]? with
    | some a => simp [hu] at h
    | none => simp [hu] at h

theorem outer_unc {cfg : SuperCfg ω} {x : Aid} {a : Aid} (h : cfg.outer x = .unc a) :
    cfg.groups.length ≤ x ∧ cfg.uncovered[x - cfg.groups.length]? = some a := by
  unfold SuperCfg.outer at h
  cases hg : cfg.groups[x]? with
  | some c => simp [hg] at h
  | none =>
    simp only [hg] at h
    cases hu : cfg.uncovered[x - cfg.groups.length]? with
    | some b =>
      simp only [hu, Outer.unc.injEq] at h
      exact ⟨by simpa using hg, by rw [h]⟩
    | none => simp [hu] at h

theorem groups_disjoint {cfg : SuperCfg ω} (hP : Partition cfg) {x y : Aid} {cx cy : List Aid}
    (hx : cfg.groups[x]? = some cx) (hy : cfg.groups[y]? = some cy) (hne : x ≠ y) :
    ∀ c ∈ cx, c ∉ cy := by
  have hnd : cfg.covered.Nodup := (List.nodup_append.mp hP).1
  unfold SuperCfg.covered List.Nodup at hnd
  have hpw := (List.pairwise_flatten.mp hnd).2
  rw [List.pairwise_iff_getElem] at hpw
  obtain ⟨hxl, hxe⟩ := List.getElem?_eq_some_iff.mp hx
  obtain ⟨hyl, hye⟩ := List.getElem?_eq_some_iff.mp hy
  intro c hcx hcy
  rcases Nat.lt_or_gt_of_ne hne with hlt | hgt
  · exact hpw x y hxl hyl hlt c (hxe ▸ hcx) c (hye ▸ hcy) rfl
  · exact hpw y x hyl hxl hgt c (hye ▸ hcy) c (hxe ▸ hcx) rfl

theorem unc_not_covered {cfg : SuperCfg ω} (hP : Partition cfg) {y : Aid} {b : Aid}
    (hy : cfg.outer y = .unc b) : b ∉ cfg.covered := by
  have hb : b ∈ cfg.uncovered := List.mem_of_getElem? (outer_unc hy).2
  intro hc
  exact (List.nodup_append.mp hP).2.2 b hc b hb rfl

theorem unc_inj {cfg : SuperCfg ω} (hP : Partition cfg) {x y : Aid} {a b : Aid}
    (hx : cfg.outer x = .unc a) (hy : cfg.outer y = .unc b) (hne : x ≠ y) : a ≠ b := by
  have hnd : cfg.uncovered.Nodup := (List.nodup_append.mp hP).2.1
  obtain ⟨hxl, hxu⟩ := outer_unc hx
  obtain ⟨hyl, hyu⟩ := outer_unc hy
  unfold List.Nodup at hnd
  rw [List.pairwise_iff_getElem] at hnd
  obtain ⟨hxl', hxe⟩ := List.getElem?_eq_some_iff.mp hxu
  obtain ⟨hyl', hye⟩ := List.getElem?_eq_some_iff.mp hyu
  intro hab
  have hne' : x - cfg.groups.length ≠ y - cfg.groups.length := by
    intro h
    apply hne
    have := congrArg (· + cfg.groups.length) h
    simpa [Nat.sub_add_cancel hxl, Nat.sub_add_cancel hyl] using this
  rcases Nat.lt_or_gt_of_ne hne' with hlt | hgt
  · exact hnd _ _ hxl' hyl' hlt (by rw [hxe, hye]; exact hab)
  · exact hnd _ _ hyl' hxl' hgt (by rw [hxe, hye]; exact hab.symm)

theorem sum_map_zero {β : Type} (f : β → Int) : ∀ (l : List β), (∀ c ∈ l, f c = 0) → (l.map f).sum = 0
  | [], _ => rfl
  | c :: cs, h => by
    simp only [List.map_cons, List.sum_cons]
    rw [h c (List.mem_cons_self ..), sum_map_zero f cs (fun c' hc' => h c' (List.mem_cons_of_mem _ hc'))]
    rfl

/-! ### congruence of the pure getters in the parts of the state they read -/

theorem supDone_congr (S : SimIface σ α ω ι) {st st' : SupSt σ}
    (h : ∀ b, S.done st'.sim b = S.done st.sim b) (o : Outer) : supDone S st' o = supDone S st o := by
  cases o with
  | sup cov =>
    simp only [supDone]
    congr 1
    funext b
    exact h b
  | unc a => exact h a
  | bad => rfl

theorem supPending_congr (S : SimIface σ α ω ι) {st st' : SupSt σ} (o : Outer)
    (h : ∀ b, (match o with | .sup cov => b ∈ cov | .unc a => b = a | .bad => False) →
      S.done st'.sim b = S.done st.sim b ∧ S.pending st'.sim b = S.pending st.sim b ∧
      (b ∈ st'.lastRew ↔ b ∈ st.lastRew)) :
    supPending S st' o = supPending S st o := by
  cases o with
  | sup cov =>
    simp only [supPending]
    have hf : (cov.filter fun c => !(S.done st'.sim c && decide (c ∈ st'.lastRew))) =
        cov.filter fun c => !(S.done st.sim c && decide (c ∈ st.lastRew)) := by
      apply List.filter_congr
      intro c hc
      obtain ⟨h1, _, h3⟩ := h c hc
      rw [h1]
      simp only [h3]
    rw [hf]
    congr 1
    apply List.map_congr_left
    intro c hc
    exact (h c (List.mem_filter.mp hc).1).2.1
  | unc a => exact (h a rfl).2.1
  | bad => rfl

/-! ### frame of `get_obs` (no hypothesis on the mapping needed) -/

theorem supObsLoop_frame {S : SimIface σ α ω ι} (hS : Lawful S) (cfg : SuperCfg ω) :
    ∀ (cov : List Aid) (st : SupSt σ),
      SameView S st.sim (supObsLoop S cfg cov st).2.sim ∧
      (∀ b, S.pending (supObsLoop S cfg cov st).2.sim b = S.pending st.sim b) ∧
      (supObsLoop S cfg cov st).2.lastRew = st.lastRew := by
  intro cov
  induction cov with
  | nil => intro st; exact ⟨SameView.refl S _, fun _ => rfl, rfl⟩
  | cons c cs ih =>
    intro st
    obtain ⟨_, _, _, _, hv, hp, hlr, _⟩ := supObs1_spec hS cfg st c
    obtain ⟨i1, i2, i3⟩ := ih (supObs1 S cfg st c).2
    simp only [supObsLoop]
    exact ⟨hv.trans i1, fun b => by rw [i2 b, hp b], by rw [i3, hlr]⟩

theorem supObs_frame {S : SimIface σ α ω ι} (hS : Lawful S) (cfg : SuperCfg ω) (st : SupSt σ) (o : Outer) :
    SameView S st.sim (supObs S cfg st o).2.2.sim ∧
    (∀ b, S.pending (supObs S cfg st o).2.2.sim b = S.pending st.sim b) ∧
    (supObs S cfg st o).2.2.lastRew = st.lastRew := by
  cases o with
  | sup cov => exact supObsLoop_frame hS cfg cov st
  | unc a =>
    exact ⟨⟨hS.obs_done st.sim a, hS.obs_allDone st.sim a, hS.obs_next st.sim a⟩,
      hS.obs_pending st.sim a, rfl⟩
  | bad => exact ⟨SameView.refl S _, fun _ => rfl, rfl⟩

/-! ### `get_reward` of any outer agent -/

theorem supReward_spec {S : SimIface σ α ω ι} (hS : Lawful S) {cfg : SuperCfg ω} (hP : Partition cfg)
    (st : SupSt σ) {x : Aid} :
    (supReward S st (cfg.outer x)).1 = supPending S st (cfg.outer x) ∧
    SameView S st.sim (supReward S st (cfg.outer x)).2.sim ∧
    supPending S (supReward S st (cfg.outer x)).2 (cfg.outer x) = 0 ∧
    (∀ y, y ≠ x → supPending S (supReward S st (cfg.outer x)).2 (cfg.outer y) =
      supPending S st (cfg.outer y)) := by
  cases hx : cfg.outer x with
  | bad =>
    refine ⟨rfl, SameView.refl S _, rfl, fun y _ => rfl⟩
  | unc a =>
    have hv : SameView S st.sim (S.reward st.sim a).2 :=
      ⟨hS.rew_done st.sim a, hS.rew_allDone st.sim a, hS.rew_next st.sim a⟩
    refine ⟨hS.rew_val st.sim a, hv, ?_, ?_⟩
    · simp [supReward, supPending, hS.rew_pending]
    · intro y hy
      apply supPending_congr
      intro b hb
      refine ⟨hv.1 b, ?_, Iff.rfl⟩
      simp only [supReward]
      rw [hS.rew_pending]
      have hba : b ≠ a := by
        cases hyo : cfg.outer y with
        | bad => rw [hyo] at hb; exact absurd hb id
        | unc b' =>
          rw [hyo] at hb
          have hb' : b = b' := hb
          rw [hb']
          exact (unc_inj hP hx hyo (Ne.symm hy)).symm
        | sup cy =>
          rw [hyo] at hb
          intro e
          exact unc_not_covered hP hx (mem_covered_of_group (outer_sup hyo) (e ▸ hb))
      simp [hba]
  | sup cov =>
    have hgx := outer_sup hx
    have hnd : cov.Nodup := nodup_group (List.nodup_append.mp hP).1 hgx
    obtain ⟨h1, h2, h3, _, h5⟩ := supRewLoop_spec hS cov st 0 hnd
    refine ⟨by simp only [supReward, supPending]; rw [h1, Int.zero_add], h2, ?_, ?_⟩
    · -- after the report nothing is pending for the super agent
      simp only [supReward, supPending]
      apply sum_map_zero
      intro c hc
      obtain ⟨hcm, hcf⟩ := List.mem_filter.mp hc
      rw [h3 c]
      by_cases hd : S.done st.sim c = true
      · -- done: it is now marked, so it cannot be in the filter
        exfalso
        have : c ∈ (supRewLoop S cov st 0).2.lastRew := (h5 c).mpr (Or.inr ⟨hcm, hd⟩)
        simp [h2.1 c, hd, this] at hcf
      · have hd' : S.done st.sim c = false := by simpa using hd
        have : c ∈ cov.filter (fun c => !(S.done st.sim c && decide (c ∈ st.lastRew))) :=
          List.mem_filter.mpr ⟨hcm, by simp [hd']⟩
        rw [if_pos this]
    · intro y hy
      apply supPending_congr
      intro b hb
      have hbn : b ∉ cov := by
        cases hyo : cfg.outer y with
        | bad => rw [hyo] at hb; exact absurd hb id
        | unc b' =>
          rw [hyo] at hb
          have hb' : b = b' := hb
          intro hm
          exact unc_not_covered hP hyo (mem_covered_of_group hgx (hb' ▸ hm))
        | sup cy =>
          rw [hyo] at hb
          exact groups_disjoint hP (outer_sup hyo) hgx hy b hb
      refine ⟨h2.1 b, ?_, ?_⟩
      · simp only [supReward]
        rw [h3 b]
        have : b ∉ cov.filter (fun c => !(S.done st.sim c && decide (c ∈ st.lastRew))) :=
          fun hm => hbn (List.mem_filter.mp hm).1
        rw [if_neg this]
      · simp only [supReward]
        rw [h5 b]
        constructor
        · rintro (h | ⟨h, _⟩)
          · exact h
          · exact absurd h hbn
        · exact Or.inl

/-- **the functor lemma**: a wrapped lawful simulation is lawful -/
theorem superSim_lawful {S : SimIface σ α ω ι} (hS : Lawful S) {cfg : SuperCfg ω} (hP : Partition cfg) :
    Lawful (superSim S cfg) where
  obs_done := by
    intro st x y
    exact supDone_congr S (supObs_frame hS cfg st (cfg.outer x)).1.1 (cfg.outer y)
  obs_allDone := by
    intro st x
    exact (supObs_frame hS cfg st (cfg.outer x)).1.2.1
  obs_next := by intros; rfl
  obs_pending := by
    intro st x y
    obtain ⟨hv, hp, hl⟩ := supObs_frame hS cfg st (cfg.outer x)
    apply supPending_congr
    intro b _
    exact ⟨hv.1 b, hp b, by
      show b ∈ (supObs S cfg st (cfg.outer x)).2.2.lastRew ↔ _
      rw [hl]⟩
  rew_done := by
    intro st x y
    exact supDone_congr S (supReward_spec hS hP st (x := x)).2.1.1 (cfg.outer y)
  rew_allDone := by
    intro st x
    exact (supReward_spec hS hP st (x := x)).2.1.2.1
  rew_next := by intros; rfl
  rew_val := by
    intro st x
    exact (supReward_spec hS hP st (x := x)).1
  rew_pending := by
    intro st x y
    obtain ⟨_, _, h0, hne⟩ := supReward_spec hS hP st (x := x)
    by_cases hyx : y = x
    · subst hyx; simp only [if_true]; exact h0
    · simp only [hyx, if_false]; exact hne y hyx

/-- the wrapper has a learning agent whenever the inner simulation has one, provided every inner
agent is covered or listed as uncovered -/
theorem superSim_learners_ne_nil {S : SimIface σ α ω ι} {cfg : SuperCfg ω}
    (hcomplete : ∀ a < S.n, a ∈ cfg.covered ∨ a ∈ cfg.uncovered) (hl : S.learners ≠ []) :
    (superSim S cfg).learners ≠ [] := by
  obtain ⟨a, ha⟩ := List.exists_mem_of_ne_nil _ hl
  obtain ⟨han, hal⟩ := (mem_learners S a).mp ha
  intro he
  have key : ∃ x, x ∈ (superSim S cfg).learners := by
    rcases hcomplete a han with hc | hu
    · -- covered: its super agent is a learning agent of the wrapper
      unfold SuperCfg.covered at hc
      obtain ⟨cov, hcov, _⟩ := List.mem_flatten.mp hc
      obtain ⟨i, hi, hie⟩ := List.getElem_of_mem hcov
      refine ⟨i, (mem_learners _ i).mpr ⟨?_, ?_⟩⟩
      · show i < cfg.groups.length + cfg.uncovered.length
        omega
      · show (match cfg.outer i with | .sup _ => true | .unc a => S.learning a | .bad => false) = true
        have : cfg.outer i = .sup cov := by
          unfold SuperCfg.outer
          rw [List.getElem?_eq_getElem hi, hie]
        rw [this]
    · obtain ⟨j, hj, hje⟩ := List.getElem_of_mem hu
      refine ⟨cfg.groups.length + j, (mem_learners _ _).mpr ⟨?_, ?_⟩⟩
      · show cfg.groups.length + j < cfg.groups.length + cfg.uncovered.length
        omega
      · show (match cfg.outer (cfg.groups.length + j) with
              | .sup _ => true | .unc a => S.learning a | .bad => false) = true
        have : cfg.outer (cfg.groups.length + j) = .unc a := by
          unfold SuperCfg.outer
          have h1 : cfg.groups[cfg.groups.length + j]? = none := by
            apply List.getElem?_eq_none; omega
          have h2 : cfg.groups.length + j - cfg.groups.length = j := by omega
          rw [h1, h2, List.getElem?_eq_getElem hj, hje]
        rw [this]; exact hal
  obtain ⟨x, hx⟩ := key
  rw [he] at hx; cases hx

/-- well-formedness for the all-step and the turn-based manager carries over to the wrapped
simulation (the wrapper is not a `DynamicOrderSimulation`) -/
theorem superSim_WF {S : SimIface σ α ω ι} {k : MKind} (hW : WF S k) (hk : k ≠ .dynamic)
    {cfg : SuperCfg ω} (hP : Partition cfg)
    (hcomplete : ∀ a < S.n, a ∈ cfg.covered ∨ a ∈ cfg.uncovered) : WF (superSim S cfg) k where
  lawful := superSim_lawful hW.lawful hP
  turn := fun hkt => superSim_learners_ne_nil hcomplete (hW.turn hkt)
  dyn := fun hkd => absurd hkd hk

end Abmarl
