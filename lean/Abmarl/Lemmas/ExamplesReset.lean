import Abmarl.Props.C08Grid
import Abmarl.Props.C08Base
import Abmarl.Model.Examples
/-!
# `reset` of a packaged example forgets the previous episode
-/
namespace Abmarl
open World
namespace Ex

/-- same configuration (`SameCfg`: static part, ghost fields), and every field group that the
components `cs` do **not** reset is already the same in both worlds.  (`TeamBattleSim` built with
`states={PositionState, HealthState}` has no agent with ammunition or orientation: the last two
clauses then follow from the ghost clauses of `SameCfg`.) -/
structure SameBut (cs : List StateComp) (w1 w2 : World) : Prop where
  cfg : SameCfg w1 w2
  health : cs.any StateComp.resetsHealth = false →
    ∀ a, (w1.stOf a).health = (w2.stOf a).health ∧ (w1.stOf a).active = (w2.stOf a).active
  ammo : cs.any StateComp.resetsAmmo = false → ∀ a, (w1.stOf a).ammo = (w2.stOf a).ammo
  orient : cs.any StateComp.resetsOrient = false → ∀ a, (w1.stOf a).orient = (w2.stOf a).orient

/-- **reset forgets** for any set of state components that contains a placement state: two worlds that
agree on what the components do not own are mapped to the same outcome (the same error, or the same
world and the same remaining tape) — whatever cells and positions, and whatever values of the fields
the components do own, they had before. -/
theorem comps_reset_forgets (cs : List StateComp) (w1 w2 : World) (t : Tape) (h : SameBut cs w1 w2)
    (hp : cs.any StateComp.resetsPos = true) : applyComps cs w1 t = applyComps cs w2 t := by
  have hw : WAgree w1.cfg (FB false (!cs.any StateComp.resetsHealth) (!cs.any StateComp.resetsAmmo)
      (!cs.any StateComp.resetsOrient)) (false = true) w1 w2 := by
    refine ⟨h.cfg.rows, h.cfg.cols, h.cfg.overlap, rfl, h.cfg.cfg.symm, h.cfg.len1,
      by rw [h.cfg.len2, h.cfg.cfg], fun hh => (by cases hh), fun a => ⟨fun hh => (by cases hh), ?_, ?_, ?_, ?_⟩⟩
    · intro hh
      exact (h.health (by simpa [FB] using hh) a).1
    · intro hh
      exact (h.health (by simpa [FB] using hh) a).2
    · rintro (hh | hh)
      · exact h.ammo (by simpa [FB] using hh) a
      · exact h.cfg.ghostAmmo a hh
    · rintro (hh | hh)
      · exact h.orient (by simpa [FB] using hh) a
      · exact h.cfg.ghostOrient a hh
  have hr := applyComps_agree cs false _ _ _ w1 w2 t hw
  simp only [hp, Bool.false_or, Bool.not_or_self] at hr
  refine hr.eq_of (fun r1 r2 hr' => ?_)
  obtain ⟨hw', ht⟩ := hr'
  have hw'' : WAgree w1.cfg Flags.all True r1.1 r2.1 :=
    hw'.mono (fun b _ => ⟨fun _ => rfl, fun _ => rfl, fun _ => rfl, fun _ => rfl⟩) (fun _ => rfl)
  exact Prod.ext hw''.eq_of_all ht

/-- `reset` of the example: same outcome on two objects of the same configuration under the same seed -/
theorem reset_forgets (cfg : Cfg) (order : List StateComp) (s1 s2 : St) (hw : SameBut order s1.w s2.w)
    (ht : s1.tape = s2.tape) (hp : order.any StateComp.resetsPos = true) :
    reset cfg order s1 = reset cfg order s2 := by
  unfold reset
  rw [comps_reset_forgets order s1.w s2.w s1.tape hw hp, ht]

end Ex

/-! ## managers over a simulation whose reset gives the same state on two objects -/

variable {σ α ω ι : Type}

/-- `runOp_reset_eq` of Props/C08Base.lean with the equality of the two reset states as hypothesis
(instead of `ResetForgets`, which asks it of every pair of states) -/
theorem runOp_reset_eq_of (S : SimIface σ α ω ι) (k : MKind) (hl : k = .turnBased → S.learners ≠ [])
    (m1 m2 : MState σ) (hs : S.reset m1.sim = S.reset m2.sim) (hsh : m1.shuffle = m2.shuffle)
    (ht : m1.tape = m2.tape) :
    runOp (α := α) S k m1 .reset = runOp (α := α) S k m2 .reset := by
  cases k with
  | allStep => simp [runOp, mgrReset, hs, hsh, ht]
  | dynamic => simp [runOp, mgrReset, hs, hsh, ht]
  | turnBased =>
    obtain ⟨a, rest, hL⟩ : ∃ a rest, S.learners = a :: rest := by
      cases hL : S.learners with
      | nil => exact absurd hL (hl rfl)
      | cons a r => exact ⟨a, r, rfl⟩
    simp [runOp, mgrReset, hs, hL, hsh, ht]

theorem runOps_reset_eq_of (S : SimIface σ α ω ι) (k : MKind) (hl : k = .turnBased → S.learners ≠ [])
    (m1 m2 : MState σ) (hs : S.reset m1.sim = S.reset m2.sim) (hsh : m1.shuffle = m2.shuffle)
    (ht : m1.tape = m2.tape) (ops : List (Op α)) :
    runOps S k m1 (.reset :: ops) = runOps S k m2 (.reset :: ops) := by
  simp only [runOps, runOp_reset_eq_of (α := α) S k hl m1 m2 hs hsh ht]

end Abmarl
