import Abmarl.Lemmas.PlacementBasic
/-!
# C13 — the invariant of a placement state's reset

`PInv`: the cell table and the agents' positions agree for everybody who has been placed,
co-occupants may pairwise overlap, and every availability list is **exactly** its base list
filtered by the update rule `okCell` (`avail_sound`; sortedness follows because filtering keeps
the order, `avail_sorted`).
-/
namespace Abmarl
open World

/-- the update rule, read off a cell table: encoding `e` keeps cell `c` iff every agent standing
there lets it (`e ∈ overlapping[their encoding]`), and nobody stands there at all when
no-overlap-at-reset is on -/
def okCell (w : World) (no : Bool) (e : Int) (c : Nat) : Bool :=
  (w.cells.getD c []).all fun b => !no && w.ovHas (w.encOf b) e

/-- the agent is in no cell -/
def Unplaced (w : World) (a : Aid) : Prop := ∀ i, a ∉ w.cells.getD i []

structure PInv (w0 : World) (no : Bool) (base : Int → List Nat) (s : PSt) : Prop where
  rows : s.w.rows = w0.rows
  cols : s.w.cols = w0.cols
  ov   : s.w.overlap = w0.overlap
  cfg  : s.w.cfg = w0.cfg
  lenC : s.w.cells.length = w0.rows * w0.cols
  lenS : s.w.st.length = w0.cfg.length
  cellOK : ∀ i a, a ∈ s.w.cells.getD i [] →
    a < w0.n ∧ s.w.inGrid (s.w.stOf a).pos = true ∧ s.w.idx (s.w.stOf a).pos = i
  nodup : ∀ i, (s.w.cells.getD i []).Nodup
  pair : ∀ i a b, a ∈ s.w.cells.getD i [] → b ∈ s.w.cells.getD i [] → a ≠ b →
    s.w.pairOK (s.w.encOf a) (s.w.encOf b) = true
  avail : ∀ x ∈ s.av, x.2 = (base x.1).filter (okCell s.w no x.1)
  vit : ∀ a, s.w.stOf a = { w0.stOf a with pos := (s.w.stOf a).pos }

theorem erase_filter_eq {l : List Nat} (hl : l.Nodup) (p : Nat → Bool) (k : Nat) :
    (l.filter p).erase k = l.filter (fun c => p c && (c != k)) := by
  rw [(hl.sublist List.filter_sublist).erase_eq_filter, List.filter_filter]
  apply List.filter_congr
  intro c _
  exact Bool.and_comm _ _

/-- the world after a successful `place` of an agent that is not yet in the cell -/
def placedWorld (w : World) (a : Aid) (p : Pos) : World :=
  { w with cells := w.cells.set (w.idx p) (w.cell p ++ [a]),
           st := w.st.set a { w.stOf a with pos := p } }

theorem place_eq {w : World} {a : Aid} {p : Pos} (hq : w.query a p = true) (hn : a ∉ w.cell p) :
    w.place a p = (true, placedWorld w a p) := by
  simp [place, hq, hn, placedWorld]

theorem place_fail {w : World} {a : Aid} {p : Pos} (hq : w.query a p = false) :
    w.place a p = (false, w) := by
  simp [place, hq]

theorem okCell_placed (w : World) (no : Bool) (a : Aid) (p : Pos) (e : Int) (c : Nat)
    (hk : w.idx p < w.cells.length) :
    okCell (placedWorld w a p) no e c =
      (okCell w no e c && (c != w.idx p || (!no && w.ovHas (w.encOf a) e))) := by
  unfold okCell
  have henc : (placedWorld w a p).encOf = w.encOf := rfl
  have hov : (placedWorld w a p).ovHas = w.ovHas := rfl
  rw [henc, hov]
  by_cases hc : c = w.idx p
  · subst hc
    have : (placedWorld w a p).cells.getD (w.idx p) [] = w.cell p ++ [a] := by
      simp only [placedWorld]; exact getD_set_same _ _ _ _ hk
    rw [this]
    simp [cell, List.all_append]
  · have : (placedWorld w a p).cells.getD c [] = w.cells.getD c [] := by
      simp only [placedWorld]; exact getD_set_ne _ _ _ _ _ (fun e => hc e.symm)
    rw [this]
    simp [hc]

theorem placeAt_ok {w0 : World} {no : Bool} {base : Int → List Nat} {s : PSt} {a : Aid} {p : Pos}
    (hI : PInv w0 no base s) (hsym : w0.wOverlapSym = true) (hbase : ∀ e, (base e).Nodup)
    (ha : a < w0.n) (hun : Unplaced s.w a) (hin : s.w.inGrid p = true)
    (hq : s.w.query a p = true) :
    ∃ s', placeAt no s a p = .ok s' ∧ PInv w0 no base s' ∧ s'.w = placedWorld s.w a p ∧ s'.t = s.t ∧
      s'.av.map Prod.fst = s.av.map Prod.fst := by
  have hk : s.w.idx p < s.w.cells.length := by
    rw [hI.lenC, ← hI.rows, ← hI.cols]; exact idx_lt hin
  have hn : a ∉ s.w.cell p := hun _
  have hast : a < s.w.st.length := by rw [hI.lenS]; exact ha
  refine ⟨{ s with w := placedWorld s.w a p,
                   av := updateAvail (placedWorld s.w a p) no s.av ((placedWorld s.w a p).encOf a)
                           ((placedWorld s.w a p).idx p) }, ?_, ?_, rfl, rfl, ?_⟩
  · simp [placeAt, hin, place_eq hq hn]
  rotate_left
  · simp only [updateAvail, List.map_map]
    apply List.map_congr_left
    intro x _
    simp only [Function.comp]
    split <;> rfl
  · obtain ⟨w1, hw1⟩ : ∃ w1, w1 = placedWorld s.w a p := ⟨_, rfl⟩
    have hsym1 : s.w.wOverlapSym = true := by
      simp only [wOverlapSym, pairOK] at hsym ⊢; rw [hI.ov]; exact hsym
    have hstA : (placedWorld s.w a p).stOf a = { s.w.stOf a with pos := p } := by
      simp only [placedWorld, stOf]; exact getD_set_same _ _ _ _ hast
    have hstB : ∀ b, b ≠ a → (placedWorld s.w a p).stOf b = s.w.stOf b := by
      intro b hb
      simp only [placedWorld, stOf]; exact getD_set_ne _ _ _ _ _ (fun e => hb e.symm)
    have hcellK : (placedWorld s.w a p).cells.getD (s.w.idx p) [] = s.w.cell p ++ [a] := by
      simp only [placedWorld]; exact getD_set_same _ _ _ _ hk
    have hcellN : ∀ i, i ≠ s.w.idx p → (placedWorld s.w a p).cells.getD i [] = s.w.cells.getD i [] := by
      intro i hi
      simp only [placedWorld]; exact getD_set_ne _ _ _ _ _ (fun e => hi e.symm)
    constructor
    · exact hI.rows
    · exact hI.cols
    · exact hI.ov
    · exact hI.cfg
    · simp only [placedWorld, List.length_set]; exact hI.lenC
    · simp only [placedWorld, List.length_set]; exact hI.lenS
    · -- cellOK
      intro i b hb
      by_cases hi : i = s.w.idx p
      · subst hi
        rw [hcellK, List.mem_append, List.mem_singleton] at hb
        rcases hb with hb | hb
        · have hba : b ≠ a := fun e => hn (e ▸ hb)
          obtain ⟨h1, h2, h3⟩ := hI.cellOK _ b hb
          refine ⟨h1, ?_, ?_⟩
          · show s.w.inGrid ((placedWorld s.w a p).stOf b).pos = true
            rw [hstB b hba]; exact h2
          · show s.w.idx ((placedWorld s.w a p).stOf b).pos = _
            rw [hstB b hba]; exact h3
        · subst hb
          refine ⟨ha, ?_, ?_⟩
          · show s.w.inGrid ((placedWorld s.w b p).stOf b).pos = true
            rw [hstA]; exact hin
          · show s.w.idx ((placedWorld s.w b p).stOf b).pos = _
            rw [hstA]
      · rw [hcellN i hi] at hb
        have hba : b ≠ a := fun e => hun i (e ▸ hb)
        obtain ⟨h1, h2, h3⟩ := hI.cellOK _ b hb
        refine ⟨h1, ?_, ?_⟩
        · show s.w.inGrid ((placedWorld s.w a p).stOf b).pos = true
          rw [hstB b hba]; exact h2
        · show s.w.idx ((placedWorld s.w a p).stOf b).pos = _
          rw [hstB b hba]; exact h3
    · -- nodup
      intro i
      by_cases hi : i = s.w.idx p
      · subst hi
        rw [hcellK]
        refine List.nodup_append.mpr ⟨hI.nodup _, (by simp), ?_⟩
        intro x hx y hy
        rw [List.mem_singleton] at hy
        subst hy
        exact fun e => hn (e ▸ hx)
      · rw [hcellN i hi]; exact hI.nodup i
    · -- pairwise overlap
      intro i b c hb hc hbc
      show s.w.pairOK (s.w.encOf b) (s.w.encOf c) = true
      by_cases hi : i = s.w.idx p
      · subst hi
        rw [hcellK, List.mem_append, List.mem_singleton] at hb hc
        have hqa : ∀ o ∈ s.w.cell p, s.w.pairOK (s.w.encOf a) (s.w.encOf o) = true := by
          have := hq
          rw [query_eq, List.all_eq_true] at this
          exact this
        rcases hb with hb | hb <;> rcases hc with hc | hc
        · exact hI.pair _ b c hb hc hbc
        · subst hc; exact pairOK_symm_imp hsym1 (hqa b hb)
        · subst hb; exact hqa c hc
        · subst hb; subst hc; exact absurd rfl hbc
      · rw [hcellN i hi] at hb hc
        exact hI.pair i b c hb hc hbc
    · -- availability lists
      intro x hx
      simp only [updateAvail, List.mem_map] at hx
      obtain ⟨y, hy, hxy⟩ := hx
      have hyl := hI.avail y hy
      have hidx : (placedWorld s.w a p).idx p = s.w.idx p := rfl
      have henc : (placedWorld s.w a p).encOf a = s.w.encOf a := rfl
      have hov : (placedWorld s.w a p).ovHas = s.w.ovHas := rfl
      rw [hidx, henc, hov] at hxy
      by_cases hcond : (no || !(s.w.ovHas (s.w.encOf a) y.1)) = true
      · rw [if_pos hcond] at hxy
        subst hxy
        show y.2.erase (s.w.idx p) = (base y.1).filter (okCell (placedWorld s.w a p) no y.1)
        rw [hyl, erase_filter_eq (hbase _)]
        apply List.filter_congr
        intro c _
        rw [okCell_placed _ _ _ _ _ _ hk]
        by_cases hc : c = s.w.idx p
        · subst hc
          have : (!no && s.w.ovHas (s.w.encOf a) y.1) = false := by
            cases no <;> simp_all
          simp [this]
        · have hne : (c != s.w.idx p) = true := by simpa using hc
          simp [hne]
      · rw [if_neg hcond] at hxy
        subst hxy
        rw [hyl]
        apply List.filter_congr
        intro c _
        rw [okCell_placed _ _ _ _ _ _ hk]
        have : (!no && s.w.ovHas (s.w.encOf a) y.1) = true := by
          cases no <;> simp_all
        simp [this]
    · -- vitals
      intro b
      by_cases hb : b = a
      · subst hb
        rw [hstA, hI.vit b]
      · rw [hstB b hb]; exact hI.vit b

theorem placeAt_fail {no : Bool} {s : PSt} {a : Aid} {p : Pos} (hin : s.w.inGrid p = true)
    (hq : s.w.query a p = false) : placeAt no s a p = .error .assertion := by
  simp [placeAt, hin, place_fail hq]

end Abmarl
