import Abmarl.Lemmas.PacmanStep
import Abmarl.Lemmas.DoneSmart
/-!
# `PacmanSim` / `PacmanSimSimple`: every `step` — returned or raised — keeps the key list of the reward dict
(`self.rewards[a] += …` reads the entry first: it never creates one) and moves `step_count` as the class says.
-/
namespace Abmarl
namespace PM
open World Ex

/-- a block keeps the value of `g` -/
def KeepsF {α : Type} (g : PS → α) (f : PS → R) : Prop := ∀ p, g (f p).1 = g p

theorem keepsF_andThen {α : Type} {g : PS → α} {x : R} {f : PS → R} {v : α} (hx : g x.1 = v) (hf : KeepsF g f) :
    g (andThen x f).1 = v := by
  unfold andThen
  split
  · rw [hf x.1]; exact hx
  · exact hx

theorem keepsF_loopR {α β : Type} {g : PS → α} {f : PS → β → R} (hf : ∀ x, KeepsF g fun p => f p x) :
    ∀ (l : List β) (p : PS), g (loopR f p l).1 = g p := by
  intro l
  induction l with
  | nil => intro p; rfl
  | cons x xs ih =>
    intro p
    unfold loopR
    have h1 := hf x p
    split
    · rename_i p' heq
      have : (f p x).1 = p' := by rw [heq]
      rw [this] at h1
      rw [ih p', h1]
    · exact h1

/-- the key list of the reward dict -/
def keys (p : PS) : List Aid := p.r.map (·.1)

theorem keysK_reward (a : Aid) (v : Option Int) : KeepsF keys fun p => reward p a v := by
  intro p
  dsimp only
  unfold reward
  split
  · rfl
  · rename_i x hx
    split
    · rfl
    · show (dictSet p.r a _).map (·.1) = p.r.map (·.1)
      apply keys_dictSet_of_mem
      exact List.mem_map.mpr ⟨(a, x), mem_of_lookup_nat _ _ _ hx, rfl⟩

theorem keysK_moveTele (cfg : Cfg) (a : Aid) (act : Int) (rew : Bool) : KeepsF keys fun p => moveTele cfg p a act rew := by
  intro p
  dsimp only
  unfold moveTele
  split
  · rfl
  · rename_i res w1 l hd
    apply keepsF_andThen
    · split
      · exact keysK_reward a _ { p with w := w1 }
      · rfl
    · intro p2; rfl

theorem keysK_biteBody (cfg : Cfg) (b : Aid) :
    KeepsF keys fun p => andThen (reward p cfg.pacman cfg.scheme.die) fun p1 =>
      andThen (reward p1 b cfg.scheme.kill) fun p2 => ({ p2 with w := p2.w.setHealth cfg.pacman 0 }, Ctl.go) := by
  intro p
  apply keepsF_andThen (keysK_reward _ _ p)
  intro p1
  apply keepsF_andThen (keysK_reward _ _ p1)
  intro p2
  rfl

theorem keysK_eatBody (cfg : Cfg) (b : Aid) :
    KeepsF keys fun p => andThen (reward p cfg.pacman cfg.scheme.eatFood) fun p1 =>
      match removeG p1.w b (p1.w.stOf cfg.pacman).pos with
      | .error e => (p1, Ctl.err e)
      | .ok w2 => ({ p1 with w := w2.setHealth b 0 }, Ctl.go) := by
  intro p
  apply keepsF_andThen (keysK_reward _ _ p)
  intro p1
  dsimp only
  split <;> rfl

theorem keysK_dieNow (cfg : Cfg) : KeepsF keys fun p => dieNow cfg p := by
  intro p
  dsimp only
  unfold dieNow
  apply keepsF_andThen (keysK_reward _ _ p)
  intro p1
  simp only
  split <;> rfl

theorem keysK_eat1 (cfg : Cfg) (b : Aid) : KeepsF keys fun p => eat1 cfg p b := by
  intro p
  dsimp only
  unfold eat1
  split
  · rfl
  · split
    · exact keysK_eatBody cfg b p
    · split
      · exact keysK_biteBody cfg b p
      · rfl

theorem keysK_bite1 (cfg : Cfg) (b : Aid) : KeepsF keys fun p => bite1 cfg p b := by
  intro p
  dsimp only
  unfold bite1
  split
  · rfl
  · split
    · exact keysK_biteBody cfg b p
    · rfl

theorem keysK_eat1S (cfg : Cfg) (b : Aid) : KeepsF keys fun p => eat1S cfg p b := by
  intro p
  dsimp only
  unfold eat1S
  split
  · rfl
  · split
    · exact keysK_eatBody cfg b p
    · split
      · exact keysK_dieNow cfg p
      · rfl

theorem keysK_bite1S (cfg : Cfg) (b : Aid) : KeepsF keys fun p => bite1S cfg p b := by
  intro p
  dsimp only
  unfold bite1S
  split
  · rfl
  · split
    · exact keysK_dieNow cfg p
    · rfl

theorem keysK_overlapLoop (cfg : Cfg) {f : PS → Aid → R} (hf : ∀ b, KeepsF keys fun p => f p b) :
    KeepsF keys fun p => overlapLoop cfg f p := by
  intro p
  dsimp only
  unfold overlapLoop
  simp only
  split
  · exact keepsF_loopR hf _ p
  · rfl

theorem keysK_baddie1 (cfg : Cfg) (x : Aid × Int) : KeepsF keys fun p => baddie1 cfg p x := by
  intro p
  dsimp only
  unfold baddie1
  split
  · rfl
  · split
    · rfl
    · exact keysK_moveTele cfg x.1 x.2 true p

theorem keysK_baddie1S (cfg : Cfg) (x : Nat × Int) : KeepsF keys fun p => baddie1S cfg p x := by
  intro p
  dsimp only
  unfold baddie1S
  split
  · rfl
  · rename_i b _
    exact keysK_moveTele cfg b x.2 false p

theorem keysK_finish (cfg : Cfg) : KeepsF keys fun p => finish cfg p := by
  intro p
  dsimp only
  unfold finish
  split
  · split <;> rfl
  · rfl

theorem keysK_stepFull (cfg : Cfg) (acts : List (Aid × Int)) : KeepsF keys fun p => stepFull cfg p acts := by
  intro p
  dsimp only
  unfold stepFull
  split
  · rfl
  · rename_i act _
    apply keepsF_andThen (keysK_moveTele cfg cfg.pacman act true p)
    intro p1
    apply keepsF_andThen (keysK_overlapLoop cfg (keysK_eat1 cfg) p1)
    intro p2
    apply keepsF_andThen (keepsF_loopR (keysK_baddie1 cfg) acts p2)
    intro p3
    apply keepsF_andThen (keysK_overlapLoop cfg (keysK_bite1 cfg) p3)
    intro p4
    exact keysK_finish cfg p4

theorem keysK_stepSimple (cfg : Cfg) (k : Nat) (acts : List (Aid × Int)) : KeepsF keys fun p => stepSimple cfg p k acts := by
  intro p
  dsimp only
  unfold stepSimple
  split
  · rfl
  · rename_i act _
    apply keepsF_andThen (keysK_moveTele cfg cfg.pacman act true p)
    intro p1
    apply keepsF_andThen (keysK_overlapLoop cfg (keysK_eat1S cfg) p1)
    intro p2
    dsimp only
    split
    · rfl
    · rename_i sc _
      apply keepsF_andThen (keepsF_loopR (keysK_baddie1S cfg) sc p2)
      intro p3
      exact keysK_overlapLoop cfg (keysK_bite1S cfg) p3

/-- **every `step` keeps the key list of the reward dict** -/
theorem step_keys (cfg : Cfg) (s : St) (acts : List (Aid × Int)) (r : Ledger) (hr : s.ex.rewards = some r) :
    ∃ r', (step cfg s acts).1.ex.rewards = some r' ∧ r'.map (·.1) = r.map (·.1) := by
  unfold step
  rw [hr]
  simp only [stepR]
  refine ⟨_, rfl, ?_⟩
  split
  · exact keysK_stepSimple cfg s.count acts ⟨s.ex.w, r, s.ex.tape⟩
  · exact keysK_stepFull cfg acts ⟨s.ex.w, r, s.ex.tape⟩

/-- `step_count` after a `step` -/
theorem step_count (cfg : Cfg) (s : St) (acts : List (Aid × Int)) :
    (cfg.simple = false → (step cfg s acts).1.count = s.count) ∧
    s.count ≤ (step cfg s acts).1.count ∧ (step cfg s acts).1.count ≤ s.count + 1 ∧
    ((step cfg s acts).2.isSome = true → (step cfg s acts).1.count = s.count) := by
  unfold step
  split
  · exact ⟨fun _ => rfl, Nat.le_refl _, Nat.le_succ _, fun _ => rfl⟩
  · simp only
    refine ⟨fun h => by simp [h], ?_, ?_, ?_⟩
    · split <;> omega
    · split <;> omega
    · intro he
      split
      · rename_i hc
        simp only [Bool.and_eq_true, beq_iff_eq] at hc
        rw [hc.2] at he
        cases he
      · rfl

end PM
end Abmarl
