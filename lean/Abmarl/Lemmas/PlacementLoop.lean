import Abmarl.Lemmas.PlacementInv
/-!
# C13 — the placement loops and the specification's `replay` run in lockstep
-/
namespace Abmarl
open World

/-- `w'` (a later world of the same reset, e.g. its outcome) extends `w`: same static part, and
whoever is in a cell of `w` is still in that cell, with the same state -/
structure Ext (w w' : World) : Prop where
  rows : w'.rows = w.rows
  cols : w'.cols = w.cols
  ov   : w'.overlap = w.overlap
  cfg  : w'.cfg = w.cfg
  keep : ∀ i a, a ∈ w.cells.getD i [] → a ∈ w'.cells.getD i [] ∧ w'.stOf a = w.stOf a

theorem Ext.refl (w : World) : Ext w w := ⟨rfl, rfl, rfl, rfl, fun _ _ h => ⟨h, rfl⟩⟩

theorem Ext.trans {a b c : World} (h1 : Ext a b) (h2 : Ext b c) : Ext a c :=
  ⟨h2.rows.trans h1.rows, h2.cols.trans h1.cols, h2.ov.trans h1.ov, h2.cfg.trans h1.cfg,
   fun i x hx => ⟨(h2.keep i x (h1.keep i x hx).1).1,
     (h2.keep i x (h1.keep i x hx).1).2.trans (h1.keep i x hx).2⟩⟩

theorem cells_placed_same (w : World) (a : Aid) (p : Pos) (hk : w.idx p < w.cells.length) :
    (placedWorld w a p).cells.getD (w.idx p) [] = w.cell p ++ [a] := by
  simp only [placedWorld]; exact getD_set_same _ _ _ _ hk

theorem cells_placed_ne (w : World) (a : Aid) (p : Pos) (i : Nat) (hi : i ≠ w.idx p) :
    (placedWorld w a p).cells.getD i [] = w.cells.getD i [] := by
  simp only [placedWorld]; exact getD_set_ne _ _ _ _ _ (fun e => hi e.symm)

theorem mem_cells_placed {w : World} {a : Aid} {p : Pos} (hk : w.idx p < w.cells.length) (i : Nat) (b : Aid) :
    b ∈ (placedWorld w a p).cells.getD i [] ↔ (b ∈ w.cells.getD i [] ∨ (i = w.idx p ∧ b = a)) := by
  by_cases hi : i = w.idx p
  · subst hi
    rw [cells_placed_same w a p hk, List.mem_append, List.mem_singleton]
    simp [cell]
  · rw [cells_placed_ne w a p i hi]
    simp [hi]

theorem ext_placed {w : World} {a : Aid} {p : Pos} (hk : w.idx p < w.cells.length)
    (hun : Unplaced w a) : Ext w (placedWorld w a p) := by
  refine ⟨rfl, rfl, rfl, rfl, ?_⟩
  intro i b hb
  refine ⟨(mem_cells_placed hk i b).mpr (Or.inl hb), ?_⟩
  have hba : b ≠ a := fun e => hun i (e ▸ hb)
  simp only [placedWorld, stOf]
  exact getD_set_ne _ _ _ _ _ (fun e => hba e.symm)

theorem unplaced_placed {w : World} {a b : Aid} {p : Pos} (hk : w.idx p < w.cells.length)
    (hb : Unplaced w b) (hba : b ≠ a) : Unplaced (placedWorld w a p) b := by
  intro i hm
  rcases (mem_cells_placed hk i b).mp hm with h | ⟨_, h⟩
  · exact hb i h
  · exact hba h

theorem mem_getD_lt {l : List (List Aid)} {i : Nat} {a : Aid} (h : a ∈ l.getD i []) : i < l.length := by
  by_cases hi : i < l.length
  · exact hi
  · rw [List.getD_eq_getElem?_getD, List.getElem?_eq_none (by omega)] at h
    simp at h

theorem placedIn_of_mem {w : World} {i : Nat} {a : Aid} (h : a ∈ w.cells.getD i []) : placedIn w a = true := by
  have hi := mem_getD_lt h
  simp only [placedIn, List.any_eq_true]
  refine ⟨w.cells[i], List.getElem_mem hi, ?_⟩
  rw [List.getD_eq_getElem?_getD, List.getElem?_eq_getElem hi] at h
  simpa using h

theorem placedIn_false {w : World} {a : Aid} (h : Unplaced w a) : placedIn w a = false := by
  cases hp : placedIn w a with
  | false => rfl
  | true =>
    simp only [placedIn, List.any_eq_true] at hp
    obtain ⟨c, hc, hac⟩ := hp
    obtain ⟨i, hi, rfl⟩ := List.getElem_of_mem hc
    exact absurd (by
      rw [List.getD_eq_getElem?_getD, List.getElem?_eq_getElem hi]; simpa using hac) (h i)

theorem not_unplaced_of_placedIn {w : World} {a : Aid} (h : placedIn w a = true) : ¬ Unplaced w a := by
  intro hu; rw [placedIn_false hu] at h; cases h

/-- for an agent that was just placed at `p`, the specification's `putCell` on the model's previous
cell table is the model's new cell table -/
theorem putCell_eq {w w' : World} {a : Aid} {p : Pos} (hk : w.idx p < w.cells.length)
    (ha : a < w.st.length) (hE : Ext (placedWorld w a p) w') :
    putCell w' w.cells a = (placedWorld w a p).cells := by
  have hmem : a ∈ (placedWorld w a p).cells.getD (w.idx p) [] :=
    (mem_cells_placed hk _ _).mpr (Or.inr ⟨rfl, rfl⟩)
  have hst : w'.stOf a = (placedWorld w a p).stOf a := (hE.keep _ _ hmem).2
  have hst2 : (placedWorld w a p).stOf a = { w.stOf a with pos := p } := by
    simp only [placedWorld, stOf]; exact getD_set_same _ _ _ _ ha
  have hidx : ∀ q, w'.idx q = w.idx q := by
    intro q; simp only [idx]; rw [hE.cols]; rfl
  have hpos : (w'.stOf a).pos = p := by rw [hst, hst2]
  unfold putCell
  rw [hpos, hidx]
  rfl

/-- body of the generic lockstep argument: what one iteration must provide -/
def StepSound (kind : PKind) (o : PlaceOpts) (mz : List Nat) (w0 : World) (no : Bool)
    (base : Int → List Nat) (J : PSt → Prop) (P : Aid → Bool)
    (step : PSt → Aid → Except GErr PSt) : Prop :=
  (∀ s a, PInv w0 no base s → P a = false → step s a = .ok s) ∧
  (∀ s a, PInv w0 no base s → J s → P a = true → a < w0.n → Unplaced s.w a →
    (∃ s' p, step s a = .ok s' ∧ PInv w0 no base s' ∧ J s' ∧ s'.w = placedWorld s.w a p ∧
        s.w.inGrid p = true ∧
        (∀ w', Ext s'.w w' → stepOK kind o w' mz s.w.cells a = true)) ∨
    (∃ e, step s a = .error e ∧ errJustified kind o s.w mz s.w.cells a (some e) = true))

theorem loop_replay {kind : PKind} {o : PlaceOpts} {mz : List Nat} {w0 : World} {no : Bool}
    {base : Int → List Nat} {J : PSt → Prop} {P : Aid → Bool}
    {step : PSt → Aid → Except GErr PSt}
    (hS : StepSound kind o mz w0 no base J P step) :
    ∀ (rest : List Aid) (s : PSt), PInv w0 no base s → J s → (rest.filter P).Nodup →
      (∀ a ∈ rest, P a = true → a < w0.n ∧ Unplaced s.w a) →
      PInv w0 no base (runLoop step rest s).2 ∧ J (runLoop step rest s).2 ∧
      Ext s.w (runLoop step rest s).2.w ∧
      ((runLoop step rest s).1 = none → ∀ a ∈ rest, P a = true → ¬ Unplaced (runLoop step rest s).2.w a) ∧
      (∀ a, (∀ b ∈ rest, P b = true → b ≠ a) → Unplaced s.w a → Unplaced (runLoop step rest s).2.w a) ∧
      (∀ tail w' err,
        (match (runLoop step rest s).1 with
         | some e => w' = (runLoop step rest s).2.w ∧ err = some e
         | none => Ext (runLoop step rest s).2.w w' ∧
                   replay kind o w' mz err tail (runLoop step rest s).2.w.cells = true) →
        replay kind o w' mz err (rest.filter P ++ tail) s.w.cells = true) := by
  intro rest
  induction rest with
  | nil =>
    intro s hI hJ _ _
    refine ⟨hI, hJ, Ext.refl _, fun _ a ha => (by cases ha), fun a _ h => h, ?_⟩
    intro tail w' err h
    simp only [runLoop] at h
    simpa using h.2
  | cons a rest ih =>
    intro s hI hJ hnd hun
    by_cases hP : P a = true
    · -- an agent this loop handles
      have hfilt : (a :: rest).filter P = a :: rest.filter P := by simp [hP]
      rw [hfilt] at hnd
      obtain ⟨ha, hua⟩ := hun a List.mem_cons_self hP
      rcases hS.2 s a hI hJ hP ha hua with ⟨s', p, hst, hI', hJ', hw', hin, hok⟩ | ⟨e, hst, hej⟩
      · -- placed
        have hk : s.w.idx p < s.w.cells.length := by
          rw [hI.lenC, ← hI.rows, ← hI.cols]; exact idx_lt hin
        have hast : a < s.w.st.length := by rw [hI.lenS]; exact ha
        have hrun : runLoop step (a :: rest) s = runLoop step rest s' := by simp [runLoop, hst]
        have hun' : ∀ b ∈ rest, P b = true → b < w0.n ∧ Unplaced s'.w b := by
          intro b hb hPb
          obtain ⟨hb1, hb2⟩ := hun b (List.mem_cons_of_mem _ hb) hPb
          refine ⟨hb1, ?_⟩
          rw [hw']
          refine unplaced_placed hk hb2 ?_
          intro e
          subst e
          exact (List.nodup_cons.mp hnd).1 (List.mem_filter.mpr ⟨hb, by simpa using hPb⟩)
        obtain ⟨r1, r2, r3, r4, r5, r6⟩ := ih s' hI' hJ' (List.nodup_cons.mp hnd).2 hun'
        rw [hrun]
        have hE1 : Ext s.w s'.w := by rw [hw']; exact ext_placed hk hua
        have hmemA : a ∈ s'.w.cells.getD (s.w.idx p) [] := by
          rw [hw']; exact (mem_cells_placed hk _ _).mpr (Or.inr ⟨rfl, rfl⟩)
        refine ⟨r1, r2, hE1.trans r3, ?_, ?_, ?_⟩
        · intro hnone b hb hPb
          rcases List.mem_cons.mp hb with hb | hb
          · subst hb
            intro hu
            exact hu _ ((r3.keep _ _ hmemA).1)
          · exact r4 hnone b hb hPb
        · intro b hb hub
          refine r5 b (fun c hc hPc => hb c (List.mem_cons_of_mem _ hc) hPc) ?_
          rw [hw']
          exact unplaced_placed hk hub (fun e => hb a List.mem_cons_self hP e.symm)
        · intro tail w' err h
          have hrep := r6 tail w' err h
          -- the final world extends s'
          have hE' : Ext s'.w w' := by
            cases hr : (runLoop step rest s').1 with
            | some e => rw [hr] at h; simp only at h; rw [h.1]; exact r3
            | none => rw [hr] at h; simp only at h; exact r3.trans h.1
          have hplaced : placedIn w' a = true := placedIn_of_mem (hE'.keep _ _ hmemA).1
          have hput : putCell w' s.w.cells a = s'.w.cells := by
            rw [hw'] at hE' ⊢; exact putCell_eq hk hast hE'
          rw [hfilt, List.cons_append, replay, if_pos hplaced, hok w' hE', hput, hrep]
          rfl
      · -- the reset fails at this agent
        have hrun : runLoop step (a :: rest) s = (some e, s) := by simp [runLoop, hst]
        rw [hrun]
        refine ⟨hI, hJ, Ext.refl _, fun h => (by cases h), fun b _ h => h, ?_⟩
        intro tail w' err h
        simp only at h
        obtain ⟨hw', herr⟩ := h
        subst hw'; subst herr
        rw [hfilt, List.cons_append, replay, placedIn_false hua]
        simp [hej]
    · -- an agent this loop skips
      have hP' : P a = false := by simpa using hP
      have hfilt : (a :: rest).filter P = rest.filter P := by simp [hP']
      have hrun : runLoop step (a :: rest) s = runLoop step rest s := by
        simp [runLoop, hS.1 s a hI hP']
      rw [hfilt] at hnd ⊢
      rw [hrun]
      obtain ⟨r1, r2, r3, r4, r5, r6⟩ :=
        ih s hI hJ hnd (fun b hb hPb => hun b (List.mem_cons_of_mem _ hb) hPb)
      refine ⟨r1, r2, r3, ?_, ?_, r6⟩
      · intro hnone b hb hPb
        rcases List.mem_cons.mp hb with hb | hb
        · subst hb; rw [hP'] at hPb; cases hPb
        · exact r4 hnone b hb hPb
      · intro b hb hub
        exact r5 b (fun c hc hPc => hb c (List.mem_cons_of_mem _ hc) hPc) hub

end Abmarl
