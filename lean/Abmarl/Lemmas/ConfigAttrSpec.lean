import Abmarl.Lemmas.ConfigAttr
import Abmarl.Lemmas.ConfigBoxSpec
/-!
# Lemmas for C19, part 2: the model's outcome satisfies `specAccept`, attribute by attribute
-/
namespace Abmarl
namespace Cfg

/-- `specAccept` with the classification made explicit -/
def SpecOK (d : Doc) (out : Outcome) : Bool :=
  match d with
  | .valid => out == .accepted
  | .malformed => out == .rejAssign || out == .rejFinal
  | .either => true

theorem specAccept_eq (a : Attr) (c : Ctx) (v : PyVal) (out : Outcome) :
    specAccept a c v out = SpecOK (docAttr a c v) out := by
  unfold specAccept SpecOK
  cases docAttr a c v <;> rfl

/-- outcome of an attribute that is only checked when supplied -/
def assign (f : Bool) : Outcome := if f then .accepted else .rejAssign

theorem assign_ok (d : Doc) (f : Bool) (h1 : f = true → d ≠ .malformed) (h2 : d = .valid → f = true) :
    SpecOK d (assign f) = true := by
  cases d with
  | valid => simp [SpecOK, assign, h2 rfl]
  | malformed =>
    cases f with
    | false => simp [SpecOK, assign]
    | true => exact absurd rfl (h1 rfl)
  | either => rfl

theorem wholeOf_int (i : Int) : wholeOf (.fin (i : Rat)) = some i := by
  simp [wholeOf]

theorem wholeOf_bool (bb : Bool) : wholeOf (.fin (if bb then 1 else 0)) = some (b2i bb) := by
  cases bb <;> simp [wholeOf, b2i]

theorem wholeOf_eq_asInt (f : Flt) : wholeOf f = f.asInt := by
  cases f <;> rfl

theorem wholeWhere_int (p : Int → Bool) (i : Int) : wholeWhere p (.fin (i : Rat)) = p i := by
  simp [wholeWhere, wholeOf_int]

theorem docNum_malformed_iff (canon : PyVal → Bool) (ok good : Flt → Bool) (v : PyVal) :
    docNum canon ok good v = .malformed ↔ ∀ x, numView v = some x → ok x = false := by
  unfold docNum
  cases h : numView v with
  | none => simp
  | some x =>
    cases hok : ok x with
    | false => simp [hok]
    | true =>
      simp only [hok, Bool.not_true, Bool.false_eq_true, if_false, Option.some.injEq, forall_eq']
      split <;> simp

theorem docNum_valid_iff (canon : PyVal → Bool) (ok good : Flt → Bool) (v : PyVal) :
    docNum canon ok good v = .valid ↔
      ∃ x, numView v = some x ∧ ok x = true ∧ canon v = true ∧ good x = true := by
  unfold docNum
  cases h : numView v with
  | none => simp
  | some x =>
    cases hok : ok x with
    | false => simp [hok]
    | true =>
      simp only [hok, Bool.not_true, Bool.false_eq_true, if_false, Option.some.injEq, exists_eq_left',
        true_and]
      split
      · rename_i hc; simpa using hc
      · rename_i hc; simpa using hc

theorem canonInt_iff (v : PyVal) : canonInt v = true ↔ ∃ i, v = .int i := by
  cases v <;> simp [canonInt]

theorem canonNum_iff (v : PyVal) : canonNum v = true ↔ ((∃ i, v = .int i) ∨ ∃ f, v = .float f) := by
  cases v <;> simp [canonNum]

/-- attributes of the form `type(value) is int and p(value)` -/
theorem intAttr_ok (f : PyVal → Bool) (p : Int → Bool) (good : Flt → Bool) (v : PyVal)
    (hf : f v = true ↔ ∃ i, v = .int i ∧ p i = true) :
    SpecOK (docNum canonInt (wholeWhere p) good v) (assign (f v)) = true := by
  apply assign_ok
  · intro h hm
    obtain ⟨i, rfl, hp⟩ := hf.mp h
    have := (docNum_malformed_iff _ _ _ _).mp hm (.fin i) rfl
    rw [wholeWhere_int, hp] at this
    cases this
  · intro hv
    obtain ⟨x, hx, hok, hc, _⟩ := (docNum_valid_iff _ _ _ _).mp hv
    obtain ⟨i, rfl⟩ := (canonInt_iff v).mp hc
    simp only [numView, Option.some.injEq] at hx
    subst hx
    rw [wholeWhere_int] at hok
    exact hf.mpr ⟨i, rfl, hok⟩

/-- attributes of the form `type(value) in [int, float] and ok(value)` -/
theorem numAttr_ok (f : PyVal → Bool) (ok good : Flt → Bool) (v : PyVal)
    (hf : f v = true ↔ ((∃ i : Int, v = .int i ∧ ok (.fin i) = true) ∨ ∃ fl, v = .float fl ∧ ok fl = true)) :
    SpecOK (docNum canonNum ok good v) (assign (f v)) = true := by
  apply assign_ok
  · intro h hm
    rcases hf.mp h with ⟨i, rfl, hp⟩ | ⟨fl, rfl, hp⟩
    · have := (docNum_malformed_iff _ _ _ _).mp hm (.fin i) rfl
      rw [hp] at this; cases this
    · have := (docNum_malformed_iff _ _ _ _).mp hm fl rfl
      rw [hp] at this; cases this
  · intro hv
    obtain ⟨x, hx, hok, hc, _⟩ := (docNum_valid_iff _ _ _ _).mp hv
    rcases (canonNum_iff v).mp hc with ⟨i, rfl⟩ | ⟨fl, rfl⟩
    · simp only [numView, Option.some.injEq] at hx
      subst hx
      exact hf.mpr (Or.inl ⟨i, rfl, hok⟩)
    · simp only [numView, Option.some.injEq] at hx
      subst hx
      exact hf.mpr (Or.inr ⟨fl, rfl, hok⟩)

theorem docOpt_ok (d : PyVal → Doc) (f : PyVal → Bool) (v : PyVal) (hnone : f .none = true)
    (h : v ≠ .none → SpecOK (d v) (assign (f v)) = true) :
    SpecOK (docOpt d v) (assign (f v)) = true := by
  by_cases hv : v = .none
  · subst hv; simp [docOpt, SpecOK, assign, hnone]
  · have : docOpt d v = d v := by cases v <;> first | rfl | exact absurd rfl hv
    rw [this]; exact h hv

/-! ### the attributes one by one -/

theorem id_ok (v : PyVal) : SpecOK (docId v) (assign (acceptId v)) = true := by
  cases v <;> rfl

theorem seed_ok (v : PyVal) :
    SpecOK (docOpt (docNum canonInt (wholeWhere fun _ => true) (fun _ => true)) v) (assign (acceptSeed v)) = true := by
  apply docOpt_ok _ _ _ rfl
  intro hv
  apply intAttr_ok
  rw [seed_accepts_iff]
  constructor
  · rintro (h | ⟨i, h⟩)
    · exact absurd h hv
    · exact ⟨i, h, rfl⟩
  · rintro ⟨i, h, _⟩; exact Or.inr ⟨i, h⟩

theorem docFlag_valid_iff (v : PyVal) : docFlag v = .valid ↔ ∃ b, v = .bool b := by
  cases v with
  | bool b => simp [docFlag]
  | none => simp [docFlag, numView]
  | str _ => simp [docFlag, numView]
  | list _ => simp [docFlag, numView]
  | tuple _ => simp [docFlag, numView]
  | set _ => simp [docFlag, numView]
  | dict _ => simp [docFlag, numView]
  | agent _ _ => simp [docFlag, numView]
  | int i => simp only [docFlag, numView]; split <;> simp
  | float i => simp only [docFlag, numView]; split <;> simp
  | npInt i => simp only [docFlag, numView]; split <;> simp
  | npFloat i => simp only [docFlag, numView]; split <;> simp
  | ndarray dt sh xs =>
    simp only [docFlag]
    cases hn : numView (.ndarray dt sh xs) with
    | none => simp
    | some x => simp only []; split <;> simp

theorem flag_ok (v : PyVal) : SpecOK (docFlag v) (assign (acceptFlag v)) = true := by
  apply assign_ok
  · intro h hm
    obtain ⟨b, rfl⟩ := (flag_accepts_iff v).mp h
    simp [docFlag] at hm
  · intro hv
    exact (flag_accepts_iff v).mpr ((docFlag_valid_iff v).mp hv)

theorem optFlag_ok (v : PyVal) : SpecOK (docOpt docFlag v) (assign (acceptOptFlag v)) = true := by
  apply docOpt_ok _ _ _ rfl
  intro hv
  have : acceptOptFlag v = acceptFlag v := by cases v <;> first | rfl | exact absurd rfl hv
  rw [this]; exact flag_ok v

theorem encoding_ok (v : PyVal) : SpecOK (docEncoding v) (assign (acceptEncoding v)) = true := by
  unfold docEncoding
  apply intAttr_ok
  rw [encoding_accepts_iff]
  simp [and_assoc]

theorem initialPosition_ok (v : PyVal) :
    SpecOK (docInitialPosition v) (assign (acceptInitialPosition v)) = true := by
  apply assign_ok
  · intro h hm
    rcases (initialPosition_accepts_iff v).mp h with rfl | ⟨dt, xs, rfl, hdt⟩
    · simp [docInitialPosition] at hm
    · have : docInitialPosition (.ndarray dt [2] xs) ≠ .malformed := by
        by_cases hd : (dt == .i64 || dt == .f64) = true
        · simp [docInitialPosition, hd]
        · simp [docInitialPosition, hd]
      exact this hm
  · intro hv
    cases v with
    | none => rfl
    | ndarray dt sh xs =>
      by_cases hsh : (sh == [2]) = true
      · by_cases hdt : (dt == .i64 || dt == .f64) = true
        · simp [acceptInitialPosition, hsh, hdt]
        · simp [docInitialPosition, hsh, hdt] at hv
      · simp [docInitialPosition, hsh] at hv
    | list l =>
      exfalso
      rcases l with _ | ⟨a, _ | ⟨b, _ | ⟨c, r⟩⟩⟩
      · simp [docInitialPosition] at hv
      · simp [docInitialPosition] at hv
      · simp only [docInitialPosition] at hv
        split at hv <;> simp at hv
      · simp [docInitialPosition] at hv
    | tuple l =>
      exfalso
      rcases l with _ | ⟨a, _ | ⟨b, _ | ⟨c, r⟩⟩⟩
      · simp [docInitialPosition] at hv
      · simp [docInitialPosition] at hv
      · simp only [docInitialPosition] at hv
        split at hv <;> simp at hv
      · simp [docInitialPosition] at hv
    | bool _ => simp [docInitialPosition] at hv
    | int _ => simp [docInitialPosition] at hv
    | float _ => simp [docInitialPosition] at hv
    | str _ => simp [docInitialPosition] at hv
    | set _ => simp [docInitialPosition] at hv
    | dict _ => simp [docInitialPosition] at hv
    | npInt _ => simp [docInitialPosition] at hv
    | npFloat _ => simp [docInitialPosition] at hv
    | agent _ _ => simp [docInitialPosition] at hv

theorem renderShape_ok (v : PyVal) : SpecOK (docRenderShape v) (assign (acceptRenderShape v)) = true := by
  cases v with
  | str s =>
    show SpecOK (if renderShapes.contains s then .valid else .malformed)
      (assign (renderShapes.contains s)) = true
    cases renderShapes.contains s <;> rfl
  | _ => rfl

theorem renderColor_ok (v : PyVal) : SpecOK (docRenderColor v) (assign (acceptRenderColor v)) = true := by
  cases v <;> rfl

theorem renderSize_ok (v : PyVal) :
    SpecOK (docNum canonInt (wholeWhere fun i => decide (0 < i)) (fun _ => true) v)
      (assign (acceptRenderSize v)) = true := by
  apply intAttr_ok
  rw [renderSize_accepts_iff]; simp

theorem gridDim_ok (v : PyVal) :
    SpecOK (docNum canonInt (wholeWhere fun i => decide (0 < i)) (fun _ => true) v)
      (assign (acceptGridDim v)) = true := by
  apply intAttr_ok
  rw [gridDim_accepts_iff]; simp

theorem simAttacks_ok (v : PyVal) :
    SpecOK (docNum canonInt (wholeWhere fun i => decide (0 ≤ i)) (fun _ => true) v)
      (assign (acceptSimAttacks v)) = true := by
  apply intAttr_ok
  rw [simAttacks_accepts_iff]; simp

theorem ammo_ok (v : PyVal) :
    SpecOK (docNum canonInt (wholeWhere fun _ => true) (wholeWhere fun i => decide (0 ≤ i)) v)
      (assign (acceptAmmo v)) = true := by
  apply intAttr_ok
  rw [ammo_accepts_iff]; simp

theorem health_ok (v : PyVal) :
    SpecOK (docNum canonNum (fun _ => true) (fun _ => true) v) (assign (acceptHealth v)) = true := by
  apply numAttr_ok
  rw [health_accepts_iff]; simp

theorem unit_ok (v : PyVal) :
    SpecOK (docNum canonNum unitOk (fun _ => true) v) (assign (acceptUnit v)) = true := by
  apply numAttr_ok
  cases v with
  | float f => cases f <;> simp [acceptUnit, Flt.geR, Flt.leR, unitOk, finWhere]
  | int i => simp [acceptUnit, Flt.geR, Flt.leR, unitOk, finWhere]
  | _ => simp [acceptUnit]

theorem initialHealth_ok (v : PyVal) :
    SpecOK (docOpt (docNum canonNum (finWhere fun q => decide (0 < q) && decide (q ≤ 1)) (fun _ => true)) v)
      (assign (acceptInitialHealth v)) = true := by
  apply docOpt_ok _ _ _ rfl
  intro hv
  apply numAttr_ok
  cases v with
  | float f => cases f <;> simp [acceptInitialHealth, Flt.gtR, Flt.leR, finWhere]
  | int i => simp [acceptInitialHealth, Flt.gtR, Flt.leR, finWhere]
  | none => exact absurd rfl hv
  | _ => simp [acceptInitialHealth]

theorem range_ok (v : PyVal) : SpecOK (docRange v) (assign (acceptRange v)) = true := by
  cases v with
  | str s =>
    simp only [docRange, acceptRange]
    split <;> rename_i h <;> simp [SpecOK, assign, h]
  | int i =>
    have := intAttr_ok acceptRange (fun i => decide (0 ≤ i)) (fun _ => true) (.int i)
      (by simp [acceptRange])
    simpa [docRange] using this
  | none => rfl
  | bool b =>
    have := intAttr_ok acceptRange (fun i => decide (0 ≤ i)) (fun _ => true) (.bool b)
      (by simp [acceptRange])
    simpa [docRange] using this
  | float b =>
    have := intAttr_ok acceptRange (fun i => decide (0 ≤ i)) (fun _ => true) (.float b)
      (by simp [acceptRange])
    simpa [docRange] using this
  | list b => rfl
  | tuple b => rfl
  | set b => rfl
  | dict b => rfl
  | ndarray a b c =>
    have := intAttr_ok acceptRange (fun i => decide (0 ≤ i)) (fun _ => true) (.ndarray a b c)
      (by simp [acceptRange])
    simpa [docRange] using this
  | npInt b =>
    have := intAttr_ok acceptRange (fun i => decide (0 ≤ i)) (fun _ => true) (.npInt b)
      (by simp [acceptRange])
    simpa [docRange] using this
  | npFloat b =>
    have := intAttr_ok acceptRange (fun i => decide (0 ≤ i)) (fun _ => true) (.npFloat b)
      (by simp [acceptRange])
    simpa [docRange] using this
  | agent a b => rfl

/-! ### orientation -/

theorem intView_of_numKey (k : PyVal) (i : Int) (h : numKey k = some i) : intView k = some i := by
  cases k with
  | bool b => simp only [numKey, Option.some.injEq] at h; subst h; simp [intView, numView, wholeOf_bool]
  | int j => simp only [numKey, Option.some.injEq] at h; subst h; simp [intView, numView, wholeOf_int]
  | float f => simp only [numKey] at h; simp [intView, numView, wholeOf_eq_asInt, h]
  | npInt j => simp only [numKey, Option.some.injEq] at h; subst h; simp [intView, numView, wholeOf_int]
  | npFloat f => simp only [numKey] at h; simp [intView, numView, wholeOf_eq_asInt, h]
  | none => simp [numKey] at h
  | str _ => simp [numKey] at h
  | list _ => simp [numKey] at h
  | tuple _ => simp [numKey] at h
  | set _ => simp [numKey] at h
  | dict _ => simp [numKey] at h
  | ndarray _ _ _ => simp [numKey] at h
  | agent _ _ => simp [numKey] at h

theorem equalsInt_numView (v : PyVal) (i : Int) (h : EqualsInt v i) :
    ∃ x, numView v = some x ∧ wholeOf x = some i := by
  rcases h with h | ⟨dt, sh, x, rfl, hx⟩
  · have := intView_of_numKey v i h
    unfold intView at this
    cases hn : numView v with
    | none => simp [hn] at this
    | some x => exact ⟨x, rfl, by simpa [hn] using this⟩
  · exact ⟨x, rfl, by rw [wholeOf_eq_asInt]; exact hx⟩

theorem orientation_ok (v : PyVal) :
    SpecOK (docNum canonInt (wholeWhere fun i => decide (1 ≤ i) && decide (i ≤ 4)) (fun _ => true) v)
      (assign (acceptOrientation v)) = true := by
  apply assign_ok
  · intro h hm
    obtain ⟨i, he, h1, h4⟩ := (orientation_accepts_iff v).mp h
    obtain ⟨x, hx, hw⟩ := equalsInt_numView v i he
    have := (docNum_malformed_iff _ _ _ _).mp hm x hx
    simp [wholeWhere, hw, h1, h4] at this
  · intro hv
    obtain ⟨x, hx, hok, hc, _⟩ := (docNum_valid_iff _ _ _ _).mp hv
    obtain ⟨i, rfl⟩ := (canonInt_iff v).mp hc
    simp only [numView, Option.some.injEq] at hx
    subst hx
    rw [wholeWhere_int] at hok
    simp only [Bool.and_eq_true, decide_eq_true_eq] at hok
    exact (orientation_accepts_iff _).mpr ⟨i, Or.inl rfl, hok.1, hok.2⟩

theorem initialOrientation_ok (v : PyVal) :
    SpecOK (docOpt (docNum canonInt (wholeWhere fun i => decide (1 ≤ i) && decide (i ≤ 4)) (fun _ => true)) v)
      (assign (acceptInitialOrientation v)) = true := by
  apply docOpt_ok _ _ _ rfl
  intro hv
  have : acceptInitialOrientation v = acceptOrientation v := by
    cases v <;> first | rfl | exact absurd rfl hv
  rw [this]; exact orientation_ok v

/-! ### agents -/

theorem docAgentEntry_eq (gwOnly : Bool) (kv : PyVal × PyVal) :
    docAgentEntry gwOnly kv = acceptAgentEntry gwOnly kv := by
  obtain ⟨k, a⟩ := kv
  unfold docAgentEntry acceptAgentEntry
  cases a <;> cases k <;> simp [Bool.or_comm]

theorem agents_ok (gwOnly : Bool) (v : PyVal) :
    SpecOK (docAgents gwOnly v) (assign (acceptAgents gwOnly v)) = true := by
  cases v with
  | dict items =>
    have : items.all (docAgentEntry gwOnly) = items.all (acceptAgentEntry gwOnly) := by
      congr 1; funext kv; exact docAgentEntry_eq gwOnly kv
    simp only [docAgents, acceptAgents, this]
    cases items.all (acceptAgentEntry gwOnly) <;> rfl
  | _ => rfl

/-! ### mappings over encodings -/

theorem and_malformed_iff (a b : Doc) : a.and b = .malformed ↔ (a = .malformed ∨ b = .malformed) := by
  cases a <;> cases b <;> simp [Doc.and]

theorem and_valid_iff (a b : Doc) : a.and b = .valid ↔ (a = .valid ∧ b = .valid) := by
  cases a <;> cases b <;> simp [Doc.and]

theorem docAll_malformed_iff (ds : List Doc) : docAll ds = .malformed ↔ ∃ d ∈ ds, d = .malformed := by
  induction ds with
  | nil => simp [docAll]
  | cons d ds ih =>
    rw [docAll, and_malformed_iff, ih]
    constructor
    · rintro (h | ⟨d', hd', h⟩)
      · exact ⟨d, by simp, h⟩
      · exact ⟨d', List.mem_cons_of_mem _ hd', h⟩
    · rintro ⟨d', hd', h⟩
      rcases List.mem_cons.mp hd' with rfl | hd'
      · exact Or.inl h
      · exact Or.inr ⟨d', hd', h⟩

theorem docAll_valid_iff (ds : List Doc) : docAll ds = .valid ↔ ∀ d ∈ ds, d = .valid := by
  induction ds with
  | nil => simp [docAll]
  | cons d ds ih => simp [docAll, and_valid_iff, ih]

theorem docEncKey_valid_iff (encs : List Int) (k : PyVal) :
    docEncKey encs k = .valid ↔ ∃ i, k = .int i ∧ i ∈ encs := by
  cases k with
  | int i =>
    simp only [docEncKey]
    by_cases h : encs.contains i = true
    · simp [List.contains_iff_mem.mp h]
    · simp only [h]
      simp only [Bool.false_eq_true, if_false]
      constructor
      · intro h'; cases h'
      · rintro ⟨j, hj, hm⟩; injection hj with hj; subst hj; exact absurd (List.contains_iff_mem.mpr hm) h
  | none => simp only [docEncKey]; split <;> (try split) <;> simp
  | bool _ => simp only [docEncKey]; split <;> (try split) <;> simp
  | float _ => simp only [docEncKey]; split <;> (try split) <;> simp
  | str _ => simp only [docEncKey]; split <;> (try split) <;> simp
  | list _ => simp only [docEncKey]; split <;> (try split) <;> simp
  | tuple _ => simp only [docEncKey]; split <;> (try split) <;> simp
  | set _ => simp only [docEncKey]; split <;> (try split) <;> simp
  | dict _ => simp only [docEncKey]; split <;> (try split) <;> simp
  | ndarray _ _ _ => simp only [docEncKey]; split <;> (try split) <;> simp
  | npInt _ => simp only [docEncKey]; split <;> (try split) <;> simp
  | npFloat _ => simp only [docEncKey]; split <;> (try split) <;> simp
  | agent _ _ => simp only [docEncKey]; split <;> (try split) <;> simp

theorem docEncKey_inSim (encs : List Int) (k : PyVal) (h : InSim encs k) : docEncKey encs k ≠ .malformed := by
  obtain ⟨i, hk, hm⟩ := h
  have hc : encs.contains i = true := List.contains_iff_mem.mpr hm
  have hv := intView_of_numKey k i hk
  cases k with
  | int j =>
    simp only [numKey, Option.some.injEq] at hk; subst hk
    simp [docEncKey, hm]
  | bool _ => simp [docEncKey, hv, hm]
  | float _ => simp [docEncKey, hv, hm]
  | npInt _ => simp [docEncKey, hv, hm]
  | npFloat _ => simp [docEncKey, hv, hm]
  | none => simp [numKey] at hk
  | str _ => simp [numKey] at hk
  | list _ => simp [numKey] at hk
  | tuple _ => simp [numKey] at hk
  | set _ => simp [numKey] at hk
  | dict _ => simp [numKey] at hk
  | ndarray _ _ _ => simp [numKey] at hk
  | agent _ _ => simp [numKey] at hk

/-- canonical targets: an `int` present, or a set of `int`s all present -/
def CanonTargets (encs : List Int) (val : PyVal) : Prop :=
  (∃ i, val = .int i ∧ i ∈ encs) ∨ (∃ elems, val = .set elems ∧ ∀ e ∈ elems, ∃ j, e = .int j ∧ j ∈ encs)

theorem docEncTargets_valid_iff (encs : List Int) (val : PyVal) :
    docEncTargets encs val = .valid ↔ CanonTargets encs val := by
  unfold CanonTargets
  cases val with
  | int i =>
    simp only [docEncTargets]
    by_cases h : encs.contains i = true
    · simp [List.contains_iff_mem.mp h]
    · simp only [h, Bool.false_eq_true, if_false]
      constructor
      · intro h'; cases h'
      · rintro (⟨j, hj, hm⟩ | ⟨_, hj, _⟩)
        · injection hj with hj; subst hj; exact absurd (List.contains_iff_mem.mpr hm) h
        · cases hj
  | set elems =>
    simp only [docEncTargets, docAll_valid_iff, List.mem_map, forall_exists_index, and_imp,
      forall_apply_eq_imp_iff₂, docEncKey_valid_iff]
    constructor
    · intro h; exact Or.inr ⟨elems, rfl, h⟩
    · rintro (⟨_, hj, _⟩ | ⟨elems', hj, h⟩)
      · cases hj
      · injection hj with hj; subst hj; exact h
  | none => simp only [docEncTargets]; split <;> (try split) <;> simp
  | bool _ => simp only [docEncTargets]; split <;> (try split) <;> simp
  | float _ => simp only [docEncTargets]; split <;> (try split) <;> simp
  | str _ => simp only [docEncTargets]; split <;> (try split) <;> simp
  | list _ => simp only [docEncTargets]; split <;> (try split) <;> simp
  | tuple _ => simp only [docEncTargets]; split <;> (try split) <;> simp
  | dict _ => simp only [docEncTargets]; split <;> (try split) <;> simp
  | ndarray _ _ _ => simp only [docEncTargets]; split <;> (try split) <;> simp
  | npInt _ => simp only [docEncTargets]; split <;> (try split) <;> simp
  | npFloat _ => simp only [docEncTargets]; split <;> (try split) <;> simp
  | agent _ _ => simp only [docEncTargets]; split <;> (try split) <;> simp

theorem canonTargets_ok (encs : List Int) (val : PyVal) (h : CanonTargets encs val) : TargetsOk encs val := by
  rcases h with h | ⟨elems, rfl, h⟩
  · exact Or.inl h
  · refine Or.inr ⟨elems, rfl, ?_⟩
    intro e he
    obtain ⟨j, rfl, hj⟩ := h e he
    exact ⟨j, rfl, hj⟩

theorem docEncTargets_ok (encs : List Int) (val : PyVal) (h : TargetsOk encs val) :
    docEncTargets encs val ≠ .malformed := by
  rcases h with ⟨i, rfl, hm⟩ | ⟨elems, rfl, h⟩
  · simp [docEncTargets, hm]
  · intro hm
    simp only [docEncTargets, docAll_malformed_iff, List.mem_map] at hm
    obtain ⟨d, ⟨e, he, rfl⟩, hd⟩ := hm
    exact docEncKey_inSim encs e (h e he) hd

theorem attackMapping_ok (encs : List Int) (v : PyVal) :
    SpecOK (docAttackMapping encs v) (assign (acceptAttackMapping encs v)) = true := by
  apply assign_ok
  · intro h hm
    obtain ⟨items, rfl, hall⟩ := (attackMapping_accepts_iff encs v).mp h
    simp only [docAttackMapping, docAll_malformed_iff, List.mem_map] at hm
    obtain ⟨d, ⟨kv, hkv, rfl⟩, hd⟩ := hm
    rcases (and_malformed_iff _ _).mp hd with hd | hd
    · exact docEncKey_inSim encs kv.1 (hall kv hkv).1 hd
    · exact docEncTargets_ok encs kv.2 (hall kv hkv).2 hd
  · intro hv
    cases v with
    | dict items =>
      refine (attackMapping_accepts_iff encs _).mpr ⟨items, rfl, ?_⟩
      intro kv hkv
      simp only [docAttackMapping, docAll_valid_iff, List.mem_map, forall_exists_index, and_imp,
        forall_apply_eq_imp_iff₂] at hv
      obtain ⟨h1, h2⟩ := (and_valid_iff _ _).mp (hv kv hkv)
      obtain ⟨i, hi, hm⟩ := (docEncKey_valid_iff encs kv.1).mp h1
      exact ⟨⟨i, by rw [hi]; rfl, hm⟩, canonTargets_ok encs kv.2 ((docEncTargets_valid_iff encs kv.2).mp h2)⟩
    | _ => simp [docAttackMapping] at hv

theorem encSet_ne_malformed (encs : List Int) (v : PyVal) (h : acceptEncSet encs v = true) :
    docEncSet encs v ≠ .malformed := by
  rcases (encSet_accepts_iff encs v).mp h with rfl | h
  · simp [docEncSet, docOpt]
  · have : docEncSet encs v = docEncTargets encs v := by
      unfold docEncSet
      cases v <;> first | rfl | (rcases h with ⟨_, h, _⟩ | ⟨_, h, _⟩ <;> cases h)
    rw [this]; exact docEncTargets_ok encs v h

theorem encSet_valid (encs : List Int) (v : PyVal) (h : docEncSet encs v = .valid) :
    acceptEncSet encs v = true ∧ (v = .none ∨ CanonTargets encs v) := by
  by_cases hv : v = .none
  · subst hv; exact ⟨rfl, Or.inl rfl⟩
  · have : docEncSet encs v = docEncTargets encs v := by
      unfold docEncSet
      cases v <;> first | rfl | exact absurd rfl hv
    rw [this] at h
    have hc := (docEncTargets_valid_iff encs v).mp h
    exact ⟨(encSet_accepts_iff encs v).mpr (Or.inr (canonTargets_ok encs v hc)), Or.inr hc⟩

theorem encSet_ok (encs : List Int) (v : PyVal) :
    SpecOK (docEncSet encs v) (assign (acceptEncSet encs v)) = true := by
  apply assign_ok
  · exact encSet_ne_malformed encs v
  · intro h; exact (encSet_valid encs v h).1

/-! ### `TargetEncodingInactiveDone.target_mapping` -/

theorem encTargetsOk_targetsOk (encs : List Int) (k val : PyVal) (h : EncTargetsOk encs k val) :
    TargetsOk encs val := by
  rcases h with ⟨i, rfl, hm, _⟩ | ⟨elems, rfl, h⟩
  · exact Or.inl ⟨i, rfl, hm⟩
  · exact Or.inr ⟨elems, rfl, fun e he => (h e he).1⟩

theorem differs_int (i k : Int) (h : i ≠ k) : Differs (.int i) (.int k) := by
  intro x y hx hy
  simp only [numKey, Option.some.injEq] at hx hy
  subst hx hy; exact h

theorem intView_int (i : Int) : intView (.int i) = some i := by
  simp [intView, numView, wholeOf_int]

theorem targetEncMapping_ok (encs : List Int) (v : PyVal) :
    SpecOK (docTargetEncMapping encs v) (assign (acceptTargetEncMapping encs v)) = true := by
  apply assign_ok
  · intro h hm
    obtain ⟨items, rfl, hall⟩ := (targetEncMapping_accepts_iff encs v).mp h
    simp only [docTargetEncMapping, docAll_malformed_iff, List.mem_map] at hm
    obtain ⟨d, ⟨kv, hkv, rfl⟩, hd⟩ := hm
    have hd' : docAttackEntry encs kv = .malformed := by
      unfold docTargetEncEntry at hd
      split at hd
      · cases hd
      · exact hd
    rcases (and_malformed_iff _ _).mp hd' with hd' | hd'
    · exact docEncKey_inSim encs kv.1 (hall kv hkv).1 hd'
    · exact docEncTargets_ok encs kv.2 (encTargetsOk_targetsOk encs kv.1 kv.2 (hall kv hkv).2) hd'
  · intro hv
    cases v with
    | dict items =>
      refine (targetEncMapping_accepts_iff encs _).mpr ⟨items, rfl, ?_⟩
      intro kv hkv
      simp only [docTargetEncMapping, docAll_valid_iff, List.mem_map, forall_exists_index, and_imp,
        forall_apply_eq_imp_iff₂] at hv
      have he := hv kv hkv
      unfold docTargetEncEntry at he
      split at he
      · cases he
      · rename_i hns
        have hns' : selfTarget kv.1 kv.2 = false := by
          simp only [he, beq_self_eq_true, Bool.true_and] at hns
          simpa using hns
        obtain ⟨h1, h2⟩ := (and_valid_iff _ _).mp he
        obtain ⟨k, hk, hkm⟩ := (docEncKey_valid_iff encs kv.1).mp h1
        refine ⟨⟨k, by rw [hk]; rfl, hkm⟩, ?_⟩
        rcases (docEncTargets_valid_iff encs kv.2).mp h2 with ⟨i, hi, him⟩ | ⟨elems, hel, hall⟩
        · refine Or.inl ⟨i, hi, him, ?_⟩
          rw [hk]
          apply differs_int
          intro hik
          rw [hk, hi] at hns'
          simp [selfTarget, intView_int, hik] at hns'
        · refine Or.inr ⟨elems, hel, ?_⟩
          intro e he'
          obtain ⟨j, rfl, hjm⟩ := hall e he'
          refine ⟨⟨j, rfl, hjm⟩, ?_⟩
          rw [hk]
          apply differs_int
          intro hjk
          rw [hk, hel] at hns'
          simp only [selfTarget, List.any_eq_false] at hns'
          have := hns' _ he'
          simp [intView_int, hjk] at this
    | _ => simp [docTargetEncMapping] at hv

/-! ### id mappings -/

theorem docIdEntry_eq (ids : List String) (kv : PyVal × PyVal) :
    docIdEntry ids kv = (strIn kv.1 ids && strIn kv.2 ids) := by
  obtain ⟨k, t⟩ := kv
  unfold docIdEntry
  cases k <;> cases t <;> simp [strIn]

theorem targetIdMapping_ok (ids : List String) (v : PyVal) :
    SpecOK (docTargetIdMapping ids v) (assign (acceptTargetIdMapping ids v)) = true := by
  cases v with
  | dict items =>
    have : items.all (docIdEntry ids) = items.all (fun kv => strIn kv.1 ids && strIn kv.2 ids) := by
      congr 1; funext kv; exact docIdEntry_eq ids kv
    simp only [docTargetIdMapping, acceptTargetIdMapping, this]
    cases items.all (fun kv => strIn kv.1 ids && strIn kv.2 ids) <;> rfl
  | _ => rfl

/-! ### the `overlapping` argument -/

theorem docOverlapKey_valid_iff (k : PyVal) : docOverlapKey k = .valid ↔ ∃ i, k = .int i := by
  cases k with
  | int i => simp [docOverlapKey]
  | none => simp only [docOverlapKey]; split <;> simp
  | bool _ => simp only [docOverlapKey]; split <;> simp
  | float _ => simp only [docOverlapKey]; split <;> simp
  | str _ => simp only [docOverlapKey]; split <;> simp
  | list _ => simp only [docOverlapKey]; split <;> simp
  | tuple _ => simp only [docOverlapKey]; split <;> simp
  | set _ => simp only [docOverlapKey]; split <;> simp
  | dict _ => simp only [docOverlapKey]; split <;> simp
  | ndarray _ _ _ => simp only [docOverlapKey]; split <;> simp
  | npInt _ => simp only [docOverlapKey]; split <;> simp
  | npFloat _ => simp only [docOverlapKey]; split <;> simp
  | agent _ _ => simp only [docOverlapKey]; split <;> simp

theorem docOverlapVal_valid_iff (val : PyVal) : docOverlapVal val = .valid ↔ acceptOverlapVal val = true := by
  cases val with
  | int i => simp [docOverlapVal, acceptOverlapVal]
  | set elems =>
    simp only [docOverlapVal, acceptOverlapVal, docAll_valid_iff, List.mem_map, forall_exists_index,
      and_imp, forall_apply_eq_imp_iff₂, docOverlapKey_valid_iff, List.all_eq_true, isPyInt_iff]
  | none => simp only [docOverlapVal, acceptOverlapVal]; split <;> simp
  | bool _ => simp only [docOverlapVal, acceptOverlapVal]; split <;> simp
  | float _ => simp only [docOverlapVal, acceptOverlapVal]; split <;> simp
  | str _ => simp only [docOverlapVal, acceptOverlapVal]; split <;> simp
  | list _ => simp only [docOverlapVal, acceptOverlapVal]; split <;> simp
  | tuple _ => simp only [docOverlapVal, acceptOverlapVal]; split <;> simp
  | dict _ => simp only [docOverlapVal, acceptOverlapVal]; split <;> simp
  | ndarray _ _ _ => simp only [docOverlapVal, acceptOverlapVal]; split <;> simp
  | npInt _ => simp only [docOverlapVal, acceptOverlapVal]; split <;> simp
  | npFloat _ => simp only [docOverlapVal, acceptOverlapVal]; split <;> simp
  | agent _ _ => simp only [docOverlapVal, acceptOverlapVal]; split <;> simp

theorem overlapping_ok (v : PyVal) : SpecOK (docOverlapping v) (assign (acceptOverlapping v)) = true := by
  apply assign_ok
  · intro h hm
    cases v with
    | none => simp [docOverlapping] at hm
    | dict items =>
      simp only [acceptOverlapping, List.all_eq_true, Bool.and_eq_true] at h
      simp only [docOverlapping, docAll_malformed_iff, List.mem_map] at hm
      obtain ⟨d, ⟨kv, hkv, rfl⟩, hd⟩ := hm
      obtain ⟨h1, h2⟩ := h kv hkv
      have k1 : docOverlapKey kv.1 = .valid := (docOverlapKey_valid_iff _).mpr ((isPyInt_iff _).mp h1)
      have k2 : docOverlapVal kv.2 = .valid := (docOverlapVal_valid_iff _).mpr h2
      simp [docOverlapEntry, k1, k2, Doc.and] at hd
    | _ => simp [acceptOverlapping] at h
  · intro hv
    cases v with
    | none => rfl
    | dict items =>
      simp only [docOverlapping, docAll_valid_iff, List.mem_map, forall_exists_index, and_imp,
        forall_apply_eq_imp_iff₂] at hv
      simp only [acceptOverlapping, List.all_eq_true, Bool.and_eq_true]
      intro kv hkv
      obtain ⟨h1, h2⟩ := (and_valid_iff _ _).mp (hv kv hkv)
      exact ⟨(isPyInt_iff _).mpr ((docOverlapKey_valid_iff _).mp h1), (docOverlapVal_valid_iff _).mp h2⟩
    | _ => simp [docOverlapping] at hv

/-! ### barrier and free encodings, with the cover check at reset -/

theorem filterMap_congr' {α β : Type} (f g : α → Option β) (l : List α) (h : ∀ e ∈ l, f e = g e) :
    l.filterMap f = l.filterMap g := by
  induction l with
  | nil => rfl
  | cons a l ih =>
    simp only [List.filterMap_cons, h a (by simp), ih (fun e he => h e (List.mem_cons_of_mem _ he))]

theorem canon_elems (encs : List Int) (v : PyVal) (h : v = .none ∨ CanonTargets encs v) :
    (encSetElems v).filterMap numKey = listed v ∧ (encSetElems v).all isPyInt = true := by
  rcases h with rfl | ⟨i, rfl, _⟩ | ⟨elems, rfl, hall⟩
  · exact ⟨rfl, rfl⟩
  · exact ⟨rfl, rfl⟩
  · constructor
    · simp only [encSetElems, listed]
      apply filterMap_congr'
      intro e he
      obtain ⟨j, rfl, _⟩ := hall e he
      rw [intView_int]; rfl
    · simp only [encSetElems, List.all_eq_true]
      intro e he
      obtain ⟨j, rfl, _⟩ := hall e he
      rfl

theorem barrierFree_ok (encs : List Int) (bv fv : PyVal) :
    SpecOK (docBarrierFree encs (.tuple [bv, fv])) (barrierFreeOutcome encs bv fv) = true := by
  simp only [docBarrierFree]
  cases hd : (docEncSet encs bv).and (docEncSet encs fv) with
  | either => rfl
  | malformed =>
    have hrej : (acceptEncSet encs bv && acceptEncSet encs fv) = false := by
      rcases (and_malformed_iff _ _).mp hd with h | h
      · have : acceptEncSet encs bv = false := by
          cases ha : acceptEncSet encs bv with
          | false => rfl
          | true => exact absurd h (encSet_ne_malformed encs bv ha)
        simp [this]
      · have : acceptEncSet encs fv = false := by
          cases ha : acceptEncSet encs fv with
          | false => rfl
          | true => exact absurd h (encSet_ne_malformed encs fv ha)
        simp [this]
    simp [barrierFreeOutcome, hrej, SpecOK]
  | valid =>
    simp only
    split
    · rename_i hcover
      obtain ⟨h1, h2⟩ := (and_valid_iff _ _).mp hd
      obtain ⟨a1, c1⟩ := encSet_valid encs bv h1
      obtain ⟨a2, c2⟩ := encSet_valid encs fv h2
      obtain ⟨e1, i1⟩ := canon_elems encs bv c1
      obtain ⟨e2, i2⟩ := canon_elems encs fv c2
      have hacc : barrierFreeOutcome encs bv fv = .accepted := by
        unfold barrierFreeOutcome
        simp only [a1, a2, Bool.and_self, Bool.not_true, Bool.false_eq_true, if_false]
        rw [List.filterMap_append, e1, e2]
        simp only [hcover, Bool.not_true, Bool.false_eq_true, if_false]
        have hk : ((encSetElems bv ++
            (encSetElems fv).filter fun e => !((encSetElems bv).map numKey).contains (numKey e)).all isPyInt) = true := by
          rw [List.all_append, i1, Bool.true_and, List.all_eq_true]
          intro e he
          exact (List.all_eq_true.mp i2) e (List.mem_filter.mp he).1
        simp only [hk, Bool.not_true, Bool.false_eq_true, if_false]
      rw [hacc]; rfl
    · rfl

/-! ### null points -/

theorem discrete_yes (n : Nat) (v : PyVal) (h : discreteContains n v = .yes) :
    ∃ x, numView v = some x ∧ wholeWhere (fun i => decide (0 ≤ i) && decide (i < n)) x = true := by
  have hin : ∀ i : Int, inDiscrete n i = .yes → (decide (0 ≤ i) && decide (i < (n : Int))) = true := by
    intro i hi
    unfold inDiscrete at hi
    split at hi
    · rename_i hc; exact hc
    · cases hi
  cases v with
  | bool b =>
    exact ⟨_, rfl, by simp only [wholeWhere, wholeOf_bool]; exact hin _ (by simpa [discreteContains] using h)⟩
  | int i =>
    simp only [discreteContains] at h
    split at h
    · exact ⟨_, rfl, by rw [wholeWhere_int]; exact hin _ h⟩
    · cases h
  | npInt i =>
    exact ⟨_, rfl, by rw [wholeWhere_int]; exact hin _ (by simpa [discreteContains] using h)⟩
  | ndarray dt sh xs =>
    rcases sh with _ | ⟨s0, ss⟩
    · rcases xs with _ | ⟨x, _ | ⟨y, r⟩⟩
      · simp [discreteContains] at h
      · simp only [discreteContains] at h
        split at h
        · cases hx : x.asInt with
          | none => simp [hx] at h
          | some i =>
            simp only [hx] at h
            exact ⟨x, rfl, by simp only [wholeWhere, wholeOf_eq_asInt, hx]; exact hin _ h⟩
        · cases h
      · simp [discreteContains] at h
    · simp [discreteContains] at h
  | none => simp [discreteContains] at h
  | float _ => simp [discreteContains] at h
  | str _ => simp [discreteContains] at h
  | list _ => simp [discreteContains] at h
  | tuple _ => simp [discreteContains] at h
  | set _ => simp [discreteContains] at h
  | dict _ => simp [discreteContains] at h
  | npFloat _ => simp [discreteContains] at h
  | agent _ _ => simp [discreteContains] at h

theorem inSpace_sound (sp : Space) (v : PyVal) :
    (docInSpace sp v = .valid → spaceContains sp v = .yes) ∧
    (docInSpace sp v = .malformed → spaceContains sp v ≠ .yes) := by
  cases sp with
  | discrete n =>
    constructor
    · intro hv
      obtain ⟨x, hx, hok, hc, hg⟩ := (docNum_valid_iff _ _ _ _).mp hv
      obtain ⟨i, rfl⟩ := (canonInt_iff v).mp hc
      simp only [numView, Option.some.injEq] at hx
      subst hx
      rw [wholeWhere_int] at hok hg
      simp [spaceContains, discreteContains, hg, inDiscrete, hok]
    · intro hm hy
      obtain ⟨x, hx, hok⟩ := discrete_yes n v hy
      have := (docNum_malformed_iff _ _ _ _).mp hm x hx
      rw [hok] at this; cases this
  | box b =>
    have hs := model_meets_specBox_aux b v
    unfold specBox at hs
    constructor
    · intro hv
      simp only [docInSpace] at hv
      rw [hv] at hs
      simpa [spaceContains] using hs
    · intro hm
      simp only [docInSpace] at hm
      rw [hm] at hs
      simpa [spaceContains] using hs

theorem docNullPoint_given (sp : Space) (v : PyVal) (h : noNullPoint v = false) :
    docNullPoint sp v = docInSpace sp v := by
  cases v with
  | none => simp [noNullPoint] at h
  | dict items =>
    cases items with
    | nil => simp [noNullPoint] at h
    | cons kv rest => rfl
  | bool _ => rfl
  | int _ => rfl
  | float _ => rfl
  | str _ => rfl
  | list _ => rfl
  | tuple _ => rfl
  | set _ => rfl
  | ndarray _ _ _ => rfl
  | npInt _ => rfl
  | npFloat _ => rfl
  | agent _ _ => rfl

theorem nullPoint_ok (sp : Space) (v : PyVal) (hm : nullOutcome sp v ≠ .unmodelled) :
    SpecOK (docNullPoint sp v) (nullOutcome sp v) = true := by
  cases hn : noNullPoint v with
  | true =>
    have ho : nullOutcome sp v = .accepted := by simp [nullOutcome, hn]
    rw [ho]
    rcases (noNullPoint_iff v).mp hn with rfl | rfl <;> rfl
  | false =>
    rw [docNullPoint_given sp v hn]
    obtain ⟨h1, h2⟩ := inSpace_sound sp v
    unfold nullOutcome at hm ⊢
    simp only [hn, Bool.false_eq_true, if_false] at hm ⊢
    cases hd : docInSpace sp v with
    | either => rfl
    | valid => rw [h1 hd]; rfl
    | malformed =>
      have := h2 hd
      cases hs : spaceContains sp v with
      | yes => exact absurd hs this
      | no => rfl
      | raises => rfl
      | unmodelled => rw [hs] at hm; exact absurd rfl hm

/-! ## All attributes -/

/-- **the model's outcome satisfies the rejection clause of C19** for every attribute, context and
value on which the model is defined (no finding is excepted any more) -/
theorem model_meets_specAccept_aux (a : Attr) (c : Ctx) (v : PyVal)
    (hm : outcome a c v ≠ .unmodelled) :
    specAccept a c v (outcome a c v) = true := by
  rw [specAccept_eq]
  cases a with
  | id => exact id_ok v
  | seed => exact seed_ok v
  | active => exact flag_ok v
  | flag => exact flag_ok v
  | optFlag => exact optFlag_ok v
  | encoding => exact encoding_ok v
  | initialPosition => exact initialPosition_ok v
  | renderShape => exact renderShape_ok v
  | renderColor => exact renderColor_ok v
  | renderSize => exact renderSize_ok v
  | health => exact health_ok v
  | initialHealth => exact initialHealth_ok v
  | range => exact range_ok v
  | unit => exact unit_ok v
  | simAttacks => exact simAttacks_ok v
  | initialAmmo => exact ammo_ok v
  | ammo => exact ammo_ok v
  | orientation => exact orientation_ok v
  | initialOrientation => exact initialOrientation_ok v
  | agentsSim => exact agents_ok false v
  | agentsComp => exact agents_ok true v
  | attackMapping => exact attackMapping_ok c.encs v
  | targetEncMapping => exact targetEncMapping_ok c.encs v
  | targetIdMapping => exact targetIdMapping_ok c.ids v
  | encSet => exact encSet_ok c.encs v
  | gridDim => exact gridDim_ok v
  | overlapping => exact overlapping_ok v
  | barrierFree =>
    show SpecOK (docBarrierFree c.encs v) (outcome .barrierFree c v) = true
    by_cases hv : ∃ bv fv, v = .tuple [bv, fv]
    · obtain ⟨bv, fv, rfl⟩ := hv
      exact barrierFree_ok c.encs bv fv
    · have : docBarrierFree c.encs v = .either := by
        unfold docBarrierFree
        split
        · rename_i bv fv; exact absurd ⟨bv, fv, rfl⟩ hv
        · rfl
      rw [this]; rfl
  | nullPoint =>
    show SpecOK (docNullPoint c.space v) (nullOutcome c.space v) = true
    exact nullPoint_ok c.space v hm

end Cfg
end Abmarl
