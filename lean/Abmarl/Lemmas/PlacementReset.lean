import Abmarl.Lemmas.PlacementSteps
import Abmarl.Lemmas.MazeConn
/-!
# C13 — the resets as a whole: initial state, the two loops, the target
-/
namespace Abmarl
open World

theorem getD_replicate_nil (n i : Nat) : (List.replicate n ([] : List Aid)).getD i [] = [] := by
  rw [List.getD_eq_getElem?_getD, List.getElem?_replicate]
  split <;> rfl

theorem gridReset_cells_getD (w : World) (i : Nat) : w.gridReset.cells.getD i [] = [] :=
  getD_replicate_nil _ _

theorem gridReset_unplaced (w : World) (a : Aid) : Unplaced w.gridReset a := by
  intro i h; rw [gridReset_cells_getD] at h; cases h

theorem okCell_empty {w : World} {no : Bool} {e : Int} {c : Nat} (h : w.cells.getD c [] = []) :
    okCell w no e c = true := by
  unfold okCell; rw [h]; rfl

/-- the state right after `grid.reset()` and `_build_available_positions` satisfies the invariant -/
theorem pinv_init (w : World) (no : Bool) (base : Int → List Nat) (av : Avail) (t : Tape)
    (hst : w.st.length = w.cfg.length) (hav : ∀ x ∈ av, x.2 = base x.1) :
    PInv w.gridReset no base ⟨w.gridReset, av, t⟩ := by
  constructor
  · rfl
  · rfl
  · rfl
  · rfl
  · simp [gridReset]
  · exact hst
  · intro i a h; rw [gridReset_cells_getD] at h; cases h
  · intro i; rw [gridReset_cells_getD]; exact List.nodup_nil
  · intro i a b h; rw [gridReset_cells_getD] at h; cases h
  · intro x hx
    rw [hav x hx]
    symm
    apply List.filter_eq_self.mpr
    intro c _
    exact okCell_empty (gridReset_cells_getD _ _)
  · intro a; cases w.gridReset.stOf a; rfl

def PF (kind : PKind) (o : PlaceOpts) (w0 : World) (a : Aid) : Bool := !isTargetRole kind o a && isFixed w0 a
def PV (kind : PKind) (o : PlaceOpts) (w0 : World) (a : Aid) : Bool := !isTargetRole kind o a && !isFixed w0 a

theorem JF.toJV {kind : PKind} {o : PlaceOpts} {w0 : World} {start : Pos} {s : PSt}
    (h : JF kind o w0 start s) : JV kind o w0 start s :=
  ⟨h.1, h.2.1, fun hn i a ha hi => (h.2.2 hn i a ha hi).2⟩

theorem placeAll_err {kind : PKind} {o : PlaceOpts} {order : List Aid} {s : PSt} {e : GErr}
    (h : (runLoop (stepFixed kind o) order s).1 = some e) :
    (placeAll kind o order s).1 = ⟨some e, (runLoop (stepFixed kind o) order s).2.w⟩ := by
  simp [placeAll, h]

theorem placeAll_ok {kind : PKind} {o : PlaceOpts} {order : List Aid} {s : PSt}
    (h : (runLoop (stepFixed kind o) order s).1 = none) :
    (placeAll kind o order s).1 =
      ⟨(runLoop (stepFree kind o) order (runLoop (stepFixed kind o) order s).2).1,
       (runLoop (stepFree kind o) order (runLoop (stepFixed kind o) order s).2).2.w⟩ := by
  simp [placeAll, h]

/-- the two placement loops: the final state keeps the invariant, extends the state they started
from, and the specification's `replay` accepts the outcome -/
theorem placeAll_replay {kind : PKind} {o : PlaceOpts} {w0 : World} {base : Int → List Nat}
    {mz : List Nat} {start : Pos} (hC : RCtx kind o w0 base mz start) (order : List Aid) (s1 : PSt)
    (hI : PInv w0 o.noOverlap base s1) (hJ : JF kind o w0 start s1) (hnd : order.Nodup)
    (hun : ∀ a ∈ order, isTargetRole kind o a = false → a < w0.n ∧ Unplaced s1.w a) :
    ∃ sF, (placeAll kind o order s1).1.post = sF.w ∧ PInv w0 o.noOverlap base sF ∧ Ext s1.w sF.w ∧
      ((placeAll kind o order s1).1.err = none → JV kind o w0 start sF) ∧
      replay kind o sF.w mz (placeAll kind o order s1).1.err
        (order.filter (PF kind o w0) ++ order.filter (PV kind o w0)) s1.w.cells = true := by
  have hun1 : ∀ a ∈ order, PF kind o w0 a = true → a < w0.n ∧ Unplaced s1.w a := by
    intro a ha hP
    simp only [PF, Bool.and_eq_true, Bool.not_eq_true'] at hP
    exact hun a ha hP.1
  obtain ⟨a1, a2, a3, _, a5, a6⟩ :=
    loop_replay (fixed_stepSound hC) order s1 hI hJ (hnd.sublist List.filter_sublist) hun1
  cases hr1 : (runLoop (stepFixed kind o) order s1).1 with
  | some e =>
    rw [placeAll_err hr1]
    refine ⟨(runLoop (stepFixed kind o) order s1).2, rfl, a1, a3, fun h => (by cases h), ?_⟩
    apply a6
    rw [hr1]
    exact ⟨rfl, rfl⟩
  | none =>
    rw [placeAll_ok hr1]
    obtain ⟨r1, hr1def⟩ : ∃ r1, r1 = (runLoop (stepFixed kind o) order s1).2 := ⟨_, rfl⟩
    rw [← hr1def] at a1 a2 a3 a5 a6 ⊢
    have hun2 : ∀ a ∈ order, PV kind o w0 a = true → a < w0.n ∧ Unplaced r1.w a := by
      intro a ha hP
      simp only [PV, Bool.and_eq_true, Bool.not_eq_true'] at hP
      obtain ⟨h1, h2⟩ := hun a ha hP.1
      refine ⟨h1, a5 a ?_ h2⟩
      intro b _ hPb e
      subst e
      simp only [Bool.and_eq_true] at hPb
      rw [hP.2] at hPb; cases hPb.2
    obtain ⟨b1, b2, b3, _, _, b6⟩ :=
      loop_replay (free_stepSound hC) order r1 a1 a2.toJV (hnd.sublist List.filter_sublist) hun2
    refine ⟨(runLoop (stepFree kind o) order r1).2, rfl, b1, a3.trans b3, fun h => ?_, ?_⟩
    · exact b2
    · apply a6
      rw [hr1]
      simp only
      refine ⟨b3, ?_⟩
      have := b6 [] (runLoop (stepFree kind o) order r1).2.w (runLoop (stepFree kind o) order r1).1
      rw [List.append_nil] at this
      apply this
      cases hr2 : (runLoop (stepFree kind o) order r1).1 with
      | some e => exact ⟨rfl, rfl⟩
      | none =>
        simp only
        exact ⟨Ext.refl _, by simp [replay]⟩

theorem stepOK_target {kind : PKind} {o : PlaceOpts} {w' : World} {mz : List Nat}
    {cells : List (List Aid)} {p : Pos} (hkind : kind ≠ .position)
    (hp : (w'.stOf o.target).pos = p) (hinit : (w'.cfgOf o.target).initPos = none)
    (hin : w'.inGrid p = true)
    (hjoin : joinOK w' cells (w'.encOf o.target) (w'.idx p) = true)
    (hun : (cells.any fun c => c.contains o.target) = false) :
    stepOK kind o w' mz cells o.target = true := by
  have ht : isTargetRole kind o o.target = true := by
    simp [isTargetRole, hkind]
  simp only [stepOK, hp, hinit, hin, hjoin, hun, ht]
  simp

/-- the target is put on the start cell of the empty grid: always possible, and judged sound -/
theorem target_sound {kind : PKind} {o : PlaceOpts} {w : World} {base : Int → List Nat}
    {mz : List Nat} {start : Pos} (hC : RCtx kind o w.gridReset base mz start) (hkind : kind ≠ .position)
    (av : Avail) (t : Tape) (hI : PInv w.gridReset o.noOverlap base ⟨w.gridReset, av, t⟩)
    (hK : Keys w.gridReset ⟨w.gridReset, av, t⟩) (ht : o.target < w.gridReset.n)
    (hstart : w.gridReset.inGrid start = true)
    (hinit : ∀ q, (w.gridReset.cfgOf o.target).initPos = some q → start = q) :
    ∃ s1, placeAt o.noOverlap ⟨w.gridReset, av, t⟩ o.target start = .ok s1 ∧
      PInv w.gridReset o.noOverlap base s1 ∧ JF kind o w.gridReset start s1 ∧
      Ext w.gridReset s1.w ∧ (∀ b, b ≠ o.target → Unplaced s1.w b) ∧
      (∀ tail w' err, Ext s1.w w' → replay kind o w' mz err tail s1.w.cells = true →
        replay kind o w' mz err (o.target :: tail) w.gridReset.cells = true) := by
  obtain ⟨s0, hs0⟩ : ∃ s0 : PSt, s0 = ⟨w.gridReset, av, t⟩ := ⟨_, rfl⟩
  rw [← hs0] at hI hK ⊢
  have hw0 : s0.w = w.gridReset := by rw [hs0]
  have hua : Unplaced s0.w o.target := by rw [hw0]; exact gridReset_unplaced _ _
  have hin : s0.w.inGrid start = true := by rw [hw0]; exact hstart
  have hcell : s0.w.cell start = [] := by rw [hw0]; exact gridReset_cells_getD _ _
  have hq : s0.w.query o.target start = true := by
    simp [query, hcell]
  obtain ⟨s1, h1, h2, h3, h4, h5⟩ := placeAt_ok hI hC.sym hC.baseNodup ht hua hin hq
  have hkl : s0.w.idx start < s0.w.cells.length := by
    rw [hI.lenC, ← hI.rows, ← hI.cols]; exact idx_lt hin
  have hast : o.target < s0.w.st.length := by rw [hI.lenS]; exact ht
  have hmem : o.target ∈ s1.w.cells.getD (s0.w.idx start) [] := by
    rw [h3]; exact (mem_cells_placed hkl _ _).mpr (Or.inr ⟨rfl, rfl⟩)
  have hpos1 : (s1.w.stOf o.target).pos = start := by
    rw [h3]; simp only [placedWorld, stOf]; rw [getD_set_same _ _ _ _ hast]
  have hE01 : Ext s0.w s1.w := by rw [h3]; exact ext_placed hkl hua
  refine ⟨s1, h1, h2, ⟨hK.of_map h5, fun _ => ⟨⟨_, hmem⟩, hpos1⟩, ?_⟩, by rw [← hw0]; exact hE01, ?_, ?_⟩
  · -- sealed: the only agent in the grid is the target
    intro _ i b hb _
    rw [h3] at hb ⊢
    by_cases hi : i = s0.w.idx start
    · subst hi
      rw [cells_placed_same _ _ _ hkl, hcell] at hb ⊢
      simp only [List.nil_append, List.mem_singleton] at hb
      subst hb
      exact ⟨⟨hkind, rfl⟩, rfl⟩
    · rw [cells_placed_ne _ _ _ _ hi, hw0, gridReset_cells_getD] at hb; cases hb
  · intro b hb
    rw [h3]
    refine unplaced_placed hkl ?_ hb
    rw [hw0]; exact gridReset_unplaced _ _
  · intro tail w' err hE hrep
    have hG' : SameG s0.w w' := (hE01.trans hE).sameG
    have hplaced : placedIn w' o.target = true := placedIn_of_mem (hE.keep _ _ hmem).1
    have hst : (w'.stOf o.target).pos = start := by rw [(hE.keep _ _ hmem).2]; exact hpos1
    have hput : putCell w' s0.w.cells o.target = s1.w.cells := by
      rw [h3] at hE ⊢; exact putCell_eq hkl hast hE
    have hjoin : joinOK w' s0.w.cells (w'.encOf o.target) (w'.idx start) = true := by
      rw [hG'.joinOK, hG'.encOf, hG'.idx, joinOK_query]; exact hq
    have hok : stepOK kind o w' mz s0.w.cells o.target = true := by
      cases hi : (s0.w.cfgOf o.target).initPos with
      | some q =>
        have hsq : start = q := hinit q (by rw [← hw0]; exact hi)
        subst hsq
        apply stepOK_fixed hst
        · rw [hG'.cfgOf]; exact hi
        · rw [hG'.inGrid]; exact hin
        · exact hjoin
        · exact placedIn_false hua
      | none =>
        apply stepOK_target hkind hst
        · rw [hG'.cfgOf]; exact hi
        · rw [hG'.inGrid]; exact hin
        · exact hjoin
        · exact placedIn_false hua
    rw [← hw0, replay, if_pos hplaced, hok, hput, hrep]
    rfl

end Abmarl
