import Abmarl.Lemmas.Done
/-!
# Helper lemmas for C17, part 2: the smart simulation

`anyLazy` (Python's lazy `any`), dicts as item lists (`dictSet`, `dictOf`, `lastVal`), the
reward ledger invariant.
-/
namespace Abmarl

/-! ## lazy `any` -/
section anyLazy
variable {δ : Type} (f : δ → Except GErr Bool)

theorem anyLazy_cons_false {d : δ} {ds : List δ} (h : f d = .ok false) :
    anyLazy f (d :: ds) = anyLazy f ds := by
  rw [anyLazy, h]

theorem anyLazy_cons_stop {d : δ} {ds : List δ} (h : f d ≠ .ok false) :
    anyLazy f (d :: ds) = f d := by
  rw [anyLazy]
  cases hf : f d with
  | error e => rfl
  | ok b =>
    cases b with
    | true => rfl
    | false => exact absurd hf h

theorem anyLazy_ok_false : ∀ ds : List δ, anyLazy f ds = .ok false ↔ ∀ d ∈ ds, f d = .ok false
  | [] => by simp [anyLazy]
  | d :: ds => by
    by_cases h : f d = .ok false
    · rw [anyLazy_cons_false f h, anyLazy_ok_false ds]
      simp [h]
    · rw [anyLazy_cons_stop f h]
      constructor
      · intro h'; exact absurd h' h
      · intro h'; exact h' d (by simp)

/-- the lazy `any` gives a result other than `False` exactly when some component gives it and
every component before that one said `False` -/
theorem anyLazy_stop (r : Except GErr Bool) (hr : r ≠ .ok false) :
    ∀ ds : List δ, anyLazy f ds = r ↔
      ∃ pre d post, ds = pre ++ d :: post ∧ (∀ x ∈ pre, f x = .ok false) ∧ f d = r
  | [] => by
    constructor
    · intro h; exact absurd h.symm hr
    · rintro ⟨pre, d, post, h, _⟩; simp at h
  | d :: ds => by
    by_cases h : f d = .ok false
    · rw [anyLazy_cons_false f h, anyLazy_stop r hr ds]
      constructor
      · rintro ⟨pre, d', post, hds, hpre, hd'⟩
        refine ⟨d :: pre, d', post, by rw [hds]; rfl, ?_, hd'⟩
        intro x hx
        rcases List.mem_cons.mp hx with hx | hx
        · rw [hx]; exact h
        · exact hpre x hx
      · rintro ⟨pre, d', post, hds, hpre, hd'⟩
        cases pre with
        | nil =>
          simp only [List.nil_append, List.cons.injEq] at hds
          rw [← hds.1, h] at hd'
          exact absurd hd'.symm hr
        | cons x pre' =>
          simp only [List.cons_append, List.cons.injEq] at hds
          exact ⟨pre', d', post, hds.2, fun y hy => hpre y (by simp [hy]), hd'⟩
    · rw [anyLazy_cons_stop f h]
      constructor
      · intro hfd
        exact ⟨[], d, ds, rfl, by simp, hfd⟩
      · rintro ⟨pre, d', post, hds, hpre, hd'⟩
        cases pre with
        | nil =>
          simp only [List.nil_append, List.cons.injEq] at hds
          rw [hds.1]; exact hd'
        | cons x pre' =>
          simp only [List.cons_append, List.cons.injEq] at hds
          exact absurd (hds.1 ▸ hpre x (by simp)) h

/-- when no component raises, the lazy `any` is the plain disjunction -/
theorem anyLazy_total (g : δ → Bool) :
    ∀ ds : List δ, (∀ d ∈ ds, f d = .ok (g d)) → anyLazy f ds = .ok (ds.any g)
  | [], _ => rfl
  | d :: ds, h => by
    have hd := h d (by simp)
    cases hg : g d with
    | false =>
      rw [hg] at hd
      rw [anyLazy_cons_false f hd, anyLazy_total g ds (fun x hx => h x (by simp [hx]))]
      simp [hg]
    | true =>
      rw [hg] at hd
      rw [anyLazy_cons_stop f (by rw [hd]; simp), hd]
      simp [hg]

/-- composition rule: if every component's outcome is acceptable for its documented answer, the
lazy `any` is acceptable for the documented disjunction -/
theorem specAny_anyLazy (doc : δ → Option Bool) :
    ∀ ds : List δ, (∀ d ∈ ds, answerOK (doc d) (f d) = true) →
      specAny (ds.map doc) (anyLazy f ds) = true
  | [], _ => by simp [anyLazy, specAny]
  | d :: ds, h => by
    have hd := h d (by simp)
    have ih := specAny_anyLazy doc ds (fun x hx => h x (by simp [hx]))
    cases hf : f d with
    | error e =>
      rw [anyLazy_cons_stop f (by rw [hf]; simp), hf]
      rw [hf] at hd
      cases hdoc : doc d with
      | none => simp [specAny, hdoc]
      | some b => simp [answerOK, hdoc] at hd
    | ok b =>
      rw [hf] at hd
      cases b with
      | true =>
        rw [anyLazy_cons_stop f (by rw [hf]; simp), hf]
        cases hdoc : doc d with
        | none => simp [answerOK, hdoc] at hd
        | some b' =>
          have : b' = true := by simpa [answerOK, hdoc] using hd
          simp [specAny, hdoc, this]
      | false =>
        rw [anyLazy_cons_false f hf]
        have hnt : (doc d == some true) = false := by
          cases hdoc : doc d with
          | none => rfl
          | some b' =>
            have : b' = false := by simpa [answerOK, hdoc] using hd
            simp [this]
        cases hr : anyLazy f ds with
        | ok b'' =>
          rw [hr] at ih
          simpa [specAny, hnt] using ih
        | error e =>
          rw [hr] at ih
          simp only [specAny, List.map_cons, List.any_cons, Bool.or_eq_true] at ih ⊢
          exact .inr ih

end anyLazy

/-! ## dicts as item lists -/
section dict
variable {κ υ : Type} [DecidableEq κ]

theorem lookup_dictSet (k : κ) (v : υ) (k' : κ) :
    ∀ d : List (κ × υ), (dictSet d k v).lookup k' = if k' = k then some v else d.lookup k'
  | [] => by
    simp only [dictSet, List.lookup_cons, List.lookup_nil]
    by_cases h : k' = k
    · simp [h]
    · have : (k' == k) = false := by simpa using h
      simp [h, this]
  | (k0, v0) :: rest => by
    unfold dictSet
    by_cases h0 : k0 = k
    · rw [if_pos h0]
      simp only [List.lookup_cons]
      by_cases h : k' = k
      · simp [h, h0]
      · have : (k' == k0) = false := by rw [h0]; simpa using h
        simp [h, this]
    · rw [if_neg h0]
      simp only [List.lookup_cons]
      by_cases h1 : k' = k0
      · have : k' ≠ k := by rw [h1]; exact h0
        simp [h1, h0]
      · have : (k' == k0) = false := by simpa using h1
        rw [this]
        exact lookup_dictSet k v k' rest

theorem keys_dictSet_of_mem (k : κ) (v : υ) :
    ∀ d : List (κ × υ), k ∈ d.map (·.1) → (dictSet d k v).map (·.1) = d.map (·.1)
  | [], h => by cases h
  | (k0, v0) :: rest, h => by
    unfold dictSet
    by_cases h0 : k0 = k
    · rw [if_pos h0]; rfl
    · rw [if_neg h0]
      simp only [List.map_cons, List.mem_cons] at h
      rcases h with h | h
      · exact absurd h.symm h0
      · simp only [List.map_cons, List.cons.injEq, true_and]
        exact keys_dictSet_of_mem k v rest h

theorem dictSet_of_not_mem (k : κ) (v : υ) :
    ∀ d : List (κ × υ), k ∉ d.map (·.1) → dictSet d k v = d ++ [(k, v)]
  | [], _ => rfl
  | (k0, v0) :: rest, h => by
    unfold dictSet
    simp only [List.map_cons, List.mem_cons, not_or] at h
    rw [if_neg (fun e => h.1 e.symm), dictSet_of_not_mem k v rest h.2]
    rfl

theorem mem_keys_dictSet (k : κ) (v : υ) (k' : κ) (d : List (κ × υ)) :
    k' ∈ (dictSet d k v).map (·.1) ↔ k' = k ∨ k' ∈ d.map (·.1) := by
  by_cases h : k ∈ d.map (·.1)
  · rw [keys_dictSet_of_mem k v d h]
    constructor
    · intro h'; exact .inr h'
    · rintro (h' | h')
      · rw [h']; exact h
      · exact h'
  · rw [dictSet_of_not_mem k v d h]
    simp only [List.map_append, List.map_cons, List.map_nil, List.mem_append, List.mem_cons,
      List.not_mem_nil, or_false]
    constructor
    · rintro (h' | h'); exact .inr h'; exact .inl h'
    · rintro (h' | h'); exact .inr h'; exact .inl h'

theorem nodup_keys_dictSet (k : κ) (v : υ) (d : List (κ × υ)) (hd : (d.map (·.1)).Nodup) :
    ((dictSet d k v).map (·.1)).Nodup := by
  by_cases h : k ∈ d.map (·.1)
  · rw [keys_dictSet_of_mem k v d h]; exact hd
  · rw [dictSet_of_not_mem k v d h]
    simp only [List.map_append, List.map_cons, List.map_nil]
    rw [List.nodup_append]
    refine ⟨hd, by simp, ?_⟩
    intro a ha b hb
    simp only [List.mem_singleton] at hb
    subst hb
    intro hab; subst hab; exact h ha

/-- the fold of assignments: the last item with key `k` wins, older entries survive otherwise -/
theorem lookup_foldl_dictSet (k : κ) :
    ∀ (items d : List (κ × υ)),
      (items.foldl (fun d p => dictSet d p.1 p.2) d).lookup k =
        (match lastVal items k with | some v => some v | none => d.lookup k)
  | [], d => by simp [lastVal]
  | (k0, v0) :: rest, d => by
    rw [List.foldl_cons, lookup_foldl_dictSet k rest]
    simp only [lastVal]
    cases hl : lastVal rest k with
    | some x => rfl
    | none =>
      simp only [lookup_dictSet]
      by_cases h : k = k0
      · simp [h]
      · have : ¬ k0 = k := fun e => h e.symm
        simp [h, this]

theorem mem_keys_foldl_dictSet (k : κ) :
    ∀ (items d : List (κ × υ)),
      k ∈ (items.foldl (fun d p => dictSet d p.1 p.2) d).map (·.1) ↔
        k ∈ d.map (·.1) ∨ k ∈ items.map (·.1)
  | [], d => by simp
  | (k0, v0) :: rest, d => by
    rw [List.foldl_cons, mem_keys_foldl_dictSet k rest, mem_keys_dictSet]
    simp only [List.map_cons, List.mem_cons]
    constructor
    · rintro ((h | h) | h)
      · exact .inr (.inl h)
      · exact .inl h
      · exact .inr (.inr h)
    · rintro (h | h | h)
      · exact .inl (.inr h)
      · exact .inl (.inl h)
      · exact .inr h

theorem nodup_keys_foldl_dictSet :
    ∀ (items d : List (κ × υ)), (d.map (·.1)).Nodup →
      ((items.foldl (fun d p => dictSet d p.1 p.2) d).map (·.1)).Nodup
  | [], _, h => h
  | (k0, v0) :: rest, d, h => by
    rw [List.foldl_cons]
    exact nodup_keys_foldl_dictSet rest _ (nodup_keys_dictSet k0 v0 d h)

/-- assigning items with pairwise distinct fresh keys just appends them -/
theorem foldl_dictSet_of_nodup :
    ∀ (items d : List (κ × υ)), ((d ++ items).map (·.1)).Nodup →
      items.foldl (fun d p => dictSet d p.1 p.2) d = d ++ items
  | [], d, _ => by simp
  | (k0, v0) :: rest, d, h => by
    rw [List.foldl_cons]
    have hk : k0 ∉ d.map (·.1) := by
      simp only [List.map_append, List.map_cons] at h
      rw [List.nodup_append] at h
      intro hmem
      exact h.2.2 k0 hmem k0 (by simp) rfl
    rw [dictSet_of_not_mem k0 v0 d hk]
    have h' : (((d ++ [(k0, v0)]) ++ rest).map (·.1)).Nodup := by
      simpa [List.append_assoc] using h
    rw [foldl_dictSet_of_nodup rest _ h']
    simp [List.append_assoc]

theorem lookup_dictOf (items : List (κ × υ)) (k : κ) : (dictOf items).lookup k = lastVal items k := by
  unfold dictOf
  rw [lookup_foldl_dictSet]
  cases lastVal items k <;> simp

theorem mem_keys_dictOf (items : List (κ × υ)) (k : κ) :
    k ∈ (dictOf items).map (·.1) ↔ k ∈ items.map (·.1) := by
  unfold dictOf
  rw [mem_keys_foldl_dictSet]
  simp

theorem nodup_keys_dictOf (items : List (κ × υ)) : ((dictOf items).map (·.1)).Nodup :=
  nodup_keys_foldl_dictSet items [] List.nodup_nil

theorem dictOf_of_nodup (items : List (κ × υ)) (h : (items.map (·.1)).Nodup) : dictOf items = items := by
  unfold dictOf
  rw [foldl_dictSet_of_nodup items [] (by simpa using h)]
  simp

/-- reading of `lastVal`: the value of the last item with that key -/
theorem lastVal_eq_some_iff (k : κ) (v : υ) :
    ∀ items : List (κ × υ), lastVal items k = some v ↔
      ∃ l1 l2, items = l1 ++ (k, v) :: l2 ∧ ∀ p ∈ l2, p.1 ≠ k
  | [] => by
    simp only [lastVal]
    constructor
    · intro h; cases h
    · rintro ⟨l1, l2, h, _⟩; simp at h
  | (k0, v0) :: rest => by
    simp only [lastVal]
    cases hl : lastVal rest k with
    | some x =>
      have ih := lastVal_eq_some_iff k x rest
      obtain ⟨l1, l2, hrest, hl2⟩ := ih.mp hl
      constructor
      · intro h
        cases h
        exact ⟨(k0, v0) :: l1, l2, by rw [hrest]; rfl, hl2⟩
      · rintro ⟨m1, m2, hm, hm2⟩
        -- the decomposition by the last occurrence of `k` is unique
        have hv : lastVal rest k = some v := by
          cases m1 with
          | nil =>
            simp only [List.nil_append, List.cons.injEq] at hm
            exfalso
            have : (k, x) ∈ m2 := by rw [← hm.2, hrest]; simp
            exact hm2 _ this rfl
          | cons y m1' =>
            simp only [List.cons_append, List.cons.injEq] at hm
            exact (lastVal_eq_some_iff k v rest).mpr ⟨m1', m2, hm.2, hm2⟩
        rw [hl] at hv
        exact hv
    | none =>
      have hnone : ∀ p ∈ rest, p.1 ≠ k := by
        intro p hp hpk
        obtain ⟨l1, l2, hsplit⟩ := List.append_of_mem hp
        -- take the last occurrence of `k` in `rest`: `lastVal` would find it
        have : ∀ (r : List (κ × υ)), (∃ q ∈ r, q.1 = k) → lastVal r k ≠ none := by
          intro r
          induction r with
          | nil => rintro ⟨q, hq, _⟩; cases hq
          | cons q0 r ih =>
            rintro ⟨q, hq, hqk⟩
            obtain ⟨qk, qv⟩ := q0
            simp only [lastVal]
            cases hr : lastVal r k with
            | some _ => simp
            | none =>
              rcases List.mem_cons.mp hq with hq | hq
              · have : qk = k := by rw [← hqk, hq]
                simp [this]
              · exact absurd hr (ih ⟨q, hq, hqk⟩)
        exact this rest ⟨p, hp, hpk⟩ hl
      by_cases h0 : k0 = k
      · simp only [h0, if_true, Option.some.injEq]
        constructor
        · intro hv
          exact ⟨[], rest, by simp [hv], hnone⟩
        · rintro ⟨m1, m2, hm, hm2⟩
          cases m1 with
          | nil =>
            simp only [List.nil_append, List.cons.injEq, Prod.mk.injEq] at hm
            exact hm.1.2
          | cons y m1' =>
            simp only [List.cons_append, List.cons.injEq] at hm
            exfalso
            exact hnone (k, v) (by rw [hm.2]; simp) rfl
      · simp only [h0, if_false]
        constructor
        · intro h; cases h
        · rintro ⟨m1, m2, hm, hm2⟩
          exfalso
          cases m1 with
          | nil =>
            simp only [List.nil_append, List.cons.injEq, Prod.mk.injEq] at hm
            exact h0 hm.1.1
          | cons y m1' =>
            simp only [List.cons_append, List.cons.injEq] at hm
            exact hnone (k, v) (by rw [hm.2]; simp) rfl

theorem lastVal_isSome_of_mem_keys (k : κ) :
    ∀ items : List (κ × υ), k ∈ items.map (·.1) → ∃ v, lastVal items k = some v
  | [], h => by cases h
  | (k0, v0) :: rest, h => by
    simp only [lastVal]
    cases hl : lastVal rest k with
    | some x => exact ⟨x, rfl⟩
    | none =>
      simp only [List.map_cons, List.mem_cons] at h
      rcases h with h | h
      · exact ⟨v0, by simp [h]⟩
      · obtain ⟨v, hv⟩ := lastVal_isSome_of_mem_keys k rest h
        rw [hl] at hv; cases hv

variable [DecidableEq υ]

/-- the model's merge satisfies the judge -/
theorem specMerge_mergeObs (outs : List (List (κ × υ))) : specMerge outs (mergeObs outs) = true := by
  unfold specMerge mergeObs
  simp only [Bool.and_eq_true, decide_eq_true_eq, List.all_eq_true, beq_iff_eq]
  refine ⟨⟨nodup_keys_dictOf _, ?_⟩, ?_⟩
  · intro p hp
    rw [← lookup_dictOf]
    exact lookup_of_mem _ p.1 p.2 (nodup_keys_dictOf _) hp
  · intro p hp
    exact (mem_keys_dictOf _ _).mpr (List.mem_map.mpr ⟨p, hp, rfl⟩)

end dict

/-! ## "each component exactly once" -/

theorem specResetAll_range (k : Nat) : specResetAll k (List.range k) = true := by
  simp only [specResetAll, List.length_range, beq_self_eq_true, Bool.true_and, List.all_eq_true,
    List.mem_range, beq_iff_eq]
  intro i hi
  rw [List.count_range, if_pos hi]

end Abmarl
