import Abmarl.Model.Examples
import Abmarl.Lemmas.ManagersInv
/-!
# The packaged examples satisfy the frame conditions of the manager theorems (`Lawful`, `WF`)

The getters of the five modelled classes read the world and the reward dict only; `get_obs` moves
the oracle tape, `get_reward` reads one entry of the reward dict and writes 0 there.  That is exactly
`Lawful` — for all five classes since `MultiMazeNavigationSim.get_reward` was repaired (fce2c1d,
finding C01-E1: it used to return 1 on every call while the navigator stood on the target).
-/
namespace Abmarl
namespace Ex

theorem lookup_dictSet (r : Ledger) (a b : Aid) (v : Int) :
    (dictSet r a v).lookup b = if b = a then some v else r.lookup b := by
  induction r with
  | nil =>
    by_cases h : b = a
    · subst h; simp [dictSet]
    · have : (b == a) = false := by simpa using h
      simp [dictSet, List.lookup, this, h]
  | cons p rest ih =>
    obtain ⟨k, x⟩ := p
    simp only [dictSet]
    by_cases hk : k = a
    · subst hk
      by_cases h : b = k
      · subst h; simp
      · have : (b == k) = false := by simpa using h
        simp [List.lookup, this, h]
    · simp only [hk, if_false, List.lookup]
      by_cases h : b = k
      · subst h
        have : b ≠ a := hk
        simp [this]
      · have : (b == k) = false := by simpa using h
        simp only [this, ih]

theorem getObs_shape {cfg : Cfg} {s s' : St} {a : Aid} {o : List (String × Observers.Obs)}
    (h : getObs cfg s a = .ok (o, s')) : ∃ t', s' = { s with tape := t' } := by
  unfold getObs at h
  split at h
  · cases h
  · split at h
    · cases h
    · split at h
      · split at h
        · cases h
        · rename_i outs t' _
          simp only [Except.ok.injEq, Prod.mk.injEq] at h
          exact ⟨t', h.2.symm⟩
      · cases h

theorem getReward_shape {cfg : Cfg} {s s' : St} {a : Aid} {x : Int}
    (h : getReward cfg s a = .ok (x, s')) :
    ∃ r, s.rewards = some r ∧ rewardVal r a = .ok x ∧ s' = { s with rewards := some (dictSet r a 0) } := by
  unfold getReward at h
  split at h
  · cases h
  · rename_i r hr
    split at h
    · cases h
    · rename_i y hy
      simp only [Except.ok.injEq, Prod.mk.injEq] at h
      exact ⟨r, hr, by rw [hy, h.1], h.2.symm⟩

theorem pendingOf_eq (cfg : Cfg) (s : St) (a : Aid) :
    pendingOf cfg s a = (match s.rewards with | none => 0 | some r => (r.lookup a).getD 0) := by
  unfold pendingOf
  cases hr : s.rewards with
  | none => rfl
  | some r =>
    simp only [rewardVal]
    cases r.lookup a <;> rfl

/-- **`Lawful`** for `TeamBattleSim`, `PredatorPreyResourcesSim`, `MazeNavigationSim`,
`MultiMazeNavigationSim`, `TrafficCorridorSimulation` — every configuration, every number of agents -/
theorem ex_lawful (cfg : Cfg) (n : Nat) : Lawful (toSimIface cfg n) where
  obs_done := by
    intro s a b
    simp only [toSimIface]
    cases h : getObs cfg s a with
    | error e => rfl
    | ok r => obtain ⟨o, s'⟩ := r; obtain ⟨t', rfl⟩ := getObs_shape h; rfl
  obs_allDone := by
    intro s a
    simp only [toSimIface]
    cases h : getObs cfg s a with
    | error e => rfl
    | ok r => obtain ⟨o, s'⟩ := r; obtain ⟨t', rfl⟩ := getObs_shape h; rfl
  obs_next := by intros; rfl
  obs_pending := by
    intro s a b
    simp only [toSimIface]
    cases h : getObs cfg s a with
    | error e => rfl
    | ok r => obtain ⟨o, s'⟩ := r; obtain ⟨t', rfl⟩ := getObs_shape h; rfl
  rew_done := by
    intro s a b
    simp only [toSimIface]
    cases h : getReward cfg s a with
    | error e => rfl
    | ok r =>
      obtain ⟨x, s'⟩ := r
      obtain ⟨r0, hr0, _, rfl⟩ := getReward_shape h
      simp only [getDone, hr0]
  rew_allDone := by
    intro s a
    simp only [toSimIface]
    cases h : getReward cfg s a with
    | error e => rfl
    | ok r =>
      obtain ⟨x, s'⟩ := r
      obtain ⟨r0, hr0, _, rfl⟩ := getReward_shape h
      simp only [getAllDone, hr0]
  rew_next := by intros; rfl
  rew_val := by
    intro s a
    simp only [toSimIface]
    cases h : getReward cfg s a with
    | error e =>
      simp only [pendingOf]
      unfold getReward at h
      cases hr : s.rewards with
      | none => rfl
      | some r =>
        rw [hr] at h
        simp only at h
        cases hv : rewardVal r a with
        | error e' => simp [hv]
        | ok x => rw [hv] at h; cases h
    | ok r =>
      obtain ⟨x, s'⟩ := r
      obtain ⟨r0, hr0, hv, rfl⟩ := getReward_shape h
      simp only [pendingOf, hr0, hv]
  rew_pending := by
    intro s a b
    simp only [toSimIface]
    rw [pendingOf_eq, pendingOf_eq]
    cases h : getReward cfg s a with
    | error e =>
      simp only
      by_cases hb : b = a
      · subst hb
        simp only [if_true]
        unfold getReward at h
        cases hr : s.rewards with
        | none => rfl
        | some r =>
          rw [hr] at h
          simp only [rewardVal] at h
          cases hl : r.lookup b with
          | none => simp [hl]
          | some x => rw [hl] at h; cases h
      · simp [hb]
    | ok r =>
      obtain ⟨x, s'⟩ := r
      obtain ⟨r0, hr0, hv, rfl⟩ := getReward_shape h
      simp only [hr0, lookup_dictSet]
      by_cases hb : b = a <;> simp [hb]

/-- `WF` for the two managers that can drive the examples (they are not
`DynamicOrderSimulation`s): the turn-based manager needs a learning agent -/
theorem ex_WF (cfg : Cfg) (n : Nat) (k : MKind) (hk : k ≠ .dynamic)
    (hl : k = .turnBased → ∃ a < n, cfg.isLearning a = true) : WF (toSimIface cfg n) k where
  lawful := ex_lawful cfg n
  turn := by
    intro hk'
    obtain ⟨a, ha, hla⟩ := hl hk'
    intro he
    have : a ∈ (toSimIface cfg n).learners := (mem_learners _ a).mpr ⟨ha, hla⟩
    rw [he] at this; cases this
  dyn := fun h => absurd h hk

end Ex
end Abmarl
