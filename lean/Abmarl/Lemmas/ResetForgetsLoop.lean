import Abmarl.Lemmas.ResetForgetsPlace
import Abmarl.Lemmas.Managers
/-!
# Reset forgets — the placement loops and the three placement resets

The two loops place every agent of the listing exactly once (the target of the target and maze
states is placed before them); the listing is the range of agents, possibly shuffled.  Hence a
successful placement reset of two agreeing worlds ends in agreeing worlds with the same cell table
and the position flag switched on for every agent; a failing one fails with the same error.
-/
namespace Abmarl
open World

/-- the loops skip the target of the target and maze states -/
def skipT (kind : PKind) (o : PlaceOpts) (a : Aid) : Bool := kind != .position && a == o.target

/-- the agents the first loop places -/
def QFix (cf : List AgentCfg) (kind : PKind) (o : PlaceOpts) (a : Aid) : Prop :=
  skipT kind o a = false ∧ (cf.getD a {}).initPos ≠ none
/-- the agents the second loop places -/
def QFree (cf : List AgentCfg) (kind : PKind) (o : PlaceOpts) (a : Aid) : Prop :=
  skipT kind o a = false ∧ (cf.getD a {}).initPos = none

theorem stepFixed_agree {cf : List AgentCfg} {F : Flags} {s1 s2 : PSt} (h : PAgree cf F s1 s2)
    (kind : PKind) (o : PlaceOpts) (a : Aid) :
    ERel (PAgree cf { F with P := fun b => F.P b ∨ (b = a ∧ QFix cf kind o a) })
      (stepFixed kind o s1 a) (stepFixed kind o s2 a) := by
  simp only [stepFixed]
  rw [← h.w.cfgOf_eq a, h.w.cfgOf1 a]
  by_cases hs : skipT kind o a = true
  · have hs' : (kind != .position && a == o.target) = true := hs
    simp only [hs', if_true, ERel]
    refine h.monoP (fun b _ hh => ?_)
    rcases hh with hh | ⟨_, hq, _⟩
    · exact hh
    · rw [hq] at hs; cases hs
  · have hs' : (kind != .position && a == o.target) = false := by simpa [skipT] using hs
    have hs'' : skipT kind o a = false := hs'
    simp only [hs', Bool.false_eq_true, if_false]
    cases hi : (cf.getD a {}).initPos with
    | none =>
      simp only [ERel]
      refine h.monoP (fun b _ hh => ?_)
      rcases hh with hh | ⟨_, _, hq⟩
      · exact hh
      · exact (hq hi).elim
    | some p =>
      simp only
      refine (placeAt_agree h o.noOverlap a p).mono (fun r1 r2 hr => hr.monoP (fun b _ hh => ?_))
      rcases hh with hh | ⟨hh, _⟩
      · exact Or.inl hh
      · exact Or.inr hh

theorem stepFree_agree {cf : List AgentCfg} {F : Flags} {s1 s2 : PSt} (h : PAgree cf F s1 s2)
    (kind : PKind) (o : PlaceOpts) (a : Aid) :
    ERel (PAgree cf { F with P := fun b => F.P b ∨ (b = a ∧ QFree cf kind o a) })
      (stepFree kind o s1 a) (stepFree kind o s2 a) := by
  simp only [stepFree]
  rw [← h.w.cfgOf_eq a, h.w.cfgOf1 a]
  by_cases hs : skipT kind o a = true
  · have hs' : (kind != .position && a == o.target) = true := hs
    simp only [hs', if_true, ERel]
    refine h.monoP (fun b _ hh => ?_)
    rcases hh with hh | ⟨_, hq, _⟩
    · exact hh
    · rw [hq] at hs; cases hs
  · have hs' : (kind != .position && a == o.target) = false := by simpa [skipT] using hs
    simp only [hs', Bool.false_eq_true, if_false]
    cases hi : (cf.getD a {}).initPos with
    | some p =>
      simp only [ERel]
      refine h.monoP (fun b _ hh => ?_)
      rcases hh with hh | ⟨_, _, hq⟩
      · exact hh
      · rw [hq] at hi; cases hi
    | none =>
      simp only
      have hm : ∀ r1 r2, PAgree cf { F with P := fun b => F.P b ∨ b = a } r1 r2 →
          PAgree cf { F with P := fun b => F.P b ∨ (b = a ∧ QFree cf kind o a) } r1 r2 := by
        intro r1 r2 hr
        refine hr.monoP (fun b _ hh => ?_)
        rcases hh with hh | ⟨hh, _⟩
        · exact Or.inl hh
        · exact Or.inr hh
      by_cases hk : (kind == .position) = true
      · simp only [hk, if_true]
        exact (placeVarRandom_agree h o.noOverlap a).mono hm
      · simp only [hk, Bool.false_eq_true, if_false]
        exact (placeVarTB_agree h o a).mono hm

/-- a loop whose body maps agreeing states to agreeing states (switching on the position flag of the
agents `Q` it places) does so as a whole -/
theorem runLoop_agree {cf : List AgentCfg} (step : PSt → Aid → Except GErr PSt) (Q : Aid → Prop)
    (hstep : ∀ (F : Flags) (s1 s2 : PSt) (a : Aid), PAgree cf F s1 s2 →
      ERel (PAgree cf { F with P := fun b => F.P b ∨ (b = a ∧ Q a) }) (step s1 a) (step s2 a)) :
    ∀ (l : List Aid) (F : Flags) (s1 s2 : PSt), PAgree cf F s1 s2 →
      (runLoop step l s1).1 = (runLoop step l s2).1 ∧
      ((runLoop step l s1).1 = none →
        PAgree cf { F with P := fun b => F.P b ∨ (b ∈ l ∧ Q b) }
          (runLoop step l s1).2 (runLoop step l s2).2) := by
  intro l
  induction l with
  | nil =>
    intro F s1 s2 h
    refine ⟨rfl, fun _ => h.monoP (fun b _ hh => ?_)⟩
    rcases hh with hh | ⟨hh, _⟩
    · exact hh
    · cases hh
  | cons a rest ih =>
    intro F s1 s2 h
    have hs := hstep F s1 s2 a h
    simp only [runLoop]
    cases h1 : step s1 a with
    | error e1 =>
      cases h2 : step s2 a with
      | error e2 =>
        rw [h1, h2] at hs
        simp only [ERel] at hs
        simp only [hs, true_and]
        intro hh; cases hh
      | ok r2 => rw [h1, h2] at hs; exact False.elim hs
    | ok r1 =>
      cases h2 : step s2 a with
      | error e2 => rw [h1, h2] at hs; exact False.elim hs
      | ok r2 =>
        rw [h1, h2] at hs
        simp only
        obtain ⟨i1, i2⟩ := ih _ r1 r2 hs
        refine ⟨i1, fun hn => (i2 hn).monoP (fun b _ hh => ?_)⟩
        rcases hh with hh | ⟨hh, hq⟩
        · exact Or.inl (Or.inl hh)
        · rcases List.mem_cons.mp hh with hh | hh
          · exact Or.inl (Or.inr ⟨hh, hh ▸ hq⟩)
          · exact Or.inr ⟨hh, hq⟩

/-- relation on the outcomes of a placement reset: the same error, or (on success) agreeing worlds
and the same tape -/
def ORel (cf : List AgentCfg) (F : Flags) (r1 r2 : PlaceOut × Tape) : Prop :=
  r1.1.err = r2.1.err ∧ (r1.1.err = none → WAgree cf F True r1.1.post r2.1.post ∧ r1.2 = r2.2)

theorem ORel.of_err {cf : List AgentCfg} {F : Flags} (e : GErr) (w1 w2 : World) (t1 t2 : Tape) :
    ORel cf F (⟨some e, w1⟩, t1) (⟨some e, w2⟩, t2) :=
  ⟨rfl, fun hh => by cases hh⟩

/-- the two loops -/
theorem placeAll_agree {cf : List AgentCfg} {F : Flags} {s1 s2 : PSt} (h : PAgree cf F s1 s2)
    (kind : PKind) (o : PlaceOpts) (order : List Aid) :
    ORel cf { F with P := fun b => F.P b ∨ (b ∈ order ∧ skipT kind o b = false) }
      (placeAll kind o order s1) (placeAll kind o order s2) := by
  obtain ⟨i1, i2⟩ := runLoop_agree (stepFixed kind o) (QFix cf kind o)
    (fun F s1 s2 a hh => stepFixed_agree hh kind o a) order F s1 s2 h
  simp only [placeAll]
  rw [← i1]
  cases he : (runLoop (stepFixed kind o) order s1).1 with
  | some e => exact ORel.of_err e _ _ _ _
  | none =>
    simp only
    obtain ⟨j1, j2⟩ := runLoop_agree (stepFree kind o) (QFree cf kind o)
      (fun F s1 s2 a hh => stepFree_agree hh kind o a) order _ _ _ (i2 he)
    refine ⟨j1, fun hn => ?_⟩
    have hp := j2 hn
    refine ⟨hp.w.monoP (fun b _ hh => ?_), hp.t⟩
    rcases hh with hh | ⟨hm, hsk⟩
    · exact Or.inl (Or.inl hh)
    · cases hi : (cf.getD b {}).initPos with
      | none => exact Or.inr ⟨hm, hsk, hi⟩
      | some p => exact Or.inl (Or.inr ⟨hm, hsk, by rw [hi]; exact fun hh => by cases hh⟩)

theorem ORel.monoP {cf : List AgentCfg} {F : Flags} {r1 r2 : PlaceOut × Tape} (h : ORel cf F r1 r2)
    {P' : Aid → Prop} (hP : ∀ b, b < cf.length → P' b → F.P b) : ORel cf { F with P := P' } r1 r2 :=
  ⟨h.1, fun hn => ⟨(h.2 hn).1.monoP hP, (h.2 hn).2⟩⟩

theorem ERel.cases' {β : Type} {R : β → β → Prop} {r1 r2 : Except GErr β} (h : ERel R r1 r2) :
    (∃ e, r1 = .error e ∧ r2 = .error e) ∨ (∃ a b, r1 = .ok a ∧ r2 = .ok b ∧ R a b) := by
  cases r1 with
  | error e1 =>
    cases r2 with
    | error e2 => simp only [ERel] at h; exact Or.inl ⟨e1, rfl, by rw [h]⟩
    | ok b => exact False.elim h
  | ok a =>
    cases r2 with
    | error e2 => exact False.elim h
    | ok b => exact Or.inr ⟨a, b, rfl, rfl, h⟩

/-- `Grid.reset` on agreeing worlds: the cell tables agree from now on -/
theorem gridReset_agree {cf : List AgentCfg} {F : Flags} {C : Prop} {x1 x2 : World}
    (h : WAgree cf F C x1 x2) : WAgree cf F True x1.gridReset x2.gridReset := by
  have e : List.replicate (x2.rows * x2.cols) ([] : List Aid) = List.replicate (x1.rows * x1.cols) [] := by
    rw [h.rows, h.cols]
  simp only [World.gridReset]
  rw [e]
  exact h.withCells _

/-- every agent is in the (possibly shuffled) listing -/
theorem mem_placementListing (o : PlaceOpts) (w : World) (t : Tape) {b : Aid} (hb : b < w.n) :
    b ∈ (placementListing o w t).1 := by
  have hr : b ∈ w.agentIds := List.mem_range.mpr hb
  simp only [placementListing]
  by_cases hz : o.randomize = true
  · simp only [hz, if_true]
    exact (shuffle_perm w.agentIds t).mem_iff.mpr hr
  · simp only [hz, Bool.false_eq_true, if_false]
    exact hr

/-- `PositionState.reset` forgets -/
theorem positionResetX_agree {cf : List AgentCfg} {F : Flags} {C : Prop} {x1 x2 : World}
    (h : WAgree cf F C x1 x2) (o : PlaceOpts) (t : Tape) :
    ORel cf { F with P := fun _ => True } (positionResetX o x1 t) (positionResetX o x2 t) := by
  have h0 := gridReset_agree h
  have e1 : placementListing o x1.gridReset t = placementListing o x2.gridReset t :=
    h0.static_congr (fun w => placementListing o w t) (fun _ _ _ => rfl)
  have e2 : buildPosition x1.gridReset = buildPosition x2.gridReset :=
    h0.static_congr (fun w => buildPosition w) (fun _ _ _ => rfl)
  simp only [positionResetX]
  rw [← e1, ← e2]
  cases buildPosition x1.gridReset with
  | none => exact ORel.of_err _ _ _ _ _
  | some av =>
    simp only
    have hp : PAgree cf F ⟨x1.gridReset, av, (placementListing o x1.gridReset t).2⟩
        ⟨x2.gridReset, av, (placementListing o x1.gridReset t).2⟩ := ⟨h0, rfl, rfl⟩
    refine (placeAll_agree hp .position o (placementListing o x1.gridReset t).1).monoP
      (fun b hb _ => Or.inr ⟨mem_placementListing o _ t (by rw [h0.n1]; exact hb), rfl⟩)

/-- `TargetBarriersFreePlacementState.reset` / `MazePlacementState.reset` forget -/
theorem tbResetX_agree {cf : List AgentCfg} {F : Flags} {C : Prop} {x1 x2 : World}
    (h : WAgree cf F C x1 x2) (kind : PKind) (o : PlaceOpts) (t : Tape) :
    ORel cf { F with P := fun _ => True } (tbResetX kind o x1 t) (tbResetX kind o x2 t) := by
  have h0 := gridReset_agree h
  have e1 : placementListing o x1.gridReset t = placementListing o x2.gridReset t :=
    h0.static_congr (fun w => placementListing o w t) (fun _ _ _ => rfl)
  have e2 : ∀ t', targetStart o x1.gridReset t' = targetStart o x2.gridReset t' := fun t' =>
    h0.static_congr (fun w => targetStart o w t') (fun _ _ _ => rfl)
  have e3 : ∀ st t', buildTB kind o x1.gridReset st t' = buildTB kind o x2.gridReset st t' :=
    fun st t' => h0.static_congr (fun w => buildTB kind o w st t') (fun _ _ _ => rfl)
  simp only [tbResetX]
  rw [← e1, ← e2, ← e3, ← h0.cfg]
  by_cases hall : (x1.gridReset.cfg.all fun c => (o.barrier ++ o.free).contains c.enc) = true
  · simp only [hall, if_true]
    cases buildTB kind o x1.gridReset (targetStart o x1.gridReset (placementListing o x1.gridReset t).2).1
        (targetStart o x1.gridReset (placementListing o x1.gridReset t).2).2 with
    | error e => exact ORel.of_err _ _ _ _ _
    | ok b =>
      simp only
      have hp : PAgree cf F ⟨x1.gridReset, b.1, b.2⟩ ⟨x2.gridReset, b.1, b.2⟩ := ⟨h0, rfl, rfl⟩
      rcases (placeAt_agree hp o.noOverlap o.target
        (targetStart o x1.gridReset (placementListing o x1.gridReset t).2).1).cases' with
        ⟨e, h1, h2⟩ | ⟨r1, r2, h1, h2, hr⟩
      · rw [h1, h2]; exact ORel.of_err _ _ _ _ _
      · rw [h1, h2]
        simp only
        refine (placeAll_agree hr kind o (placementListing o x1.gridReset t).1).monoP
          (fun b hb _ => ?_)
        by_cases hs : skipT kind o b = true
        · refine Or.inl (Or.inr ?_)
          simp only [skipT, Bool.and_eq_true, beq_iff_eq] at hs
          exact hs.2
        · exact Or.inr ⟨mem_placementListing o _ t (by rw [h0.n1]; exact hb), by simpa using hs⟩
  · simp only [hall, Bool.false_eq_true, if_false]
    exact ORel.of_err _ _ _ _ _

/-- the reset of a placement state forgets -/
theorem resetX_agree {cf : List AgentCfg} {F : Flags} {C : Prop} {x1 x2 : World}
    (h : WAgree cf F C x1 x2) (kind : PKind) (o : PlaceOpts) (t : Tape) :
    ORel cf { F with P := fun _ => True } (resetX kind o x1 t) (resetX kind o x2 t) := by
  simp only [resetX]
  by_cases hk : (kind == .position) = true
  · simp only [hk, if_true]; exact positionResetX_agree h o t
  · simp only [hk, Bool.false_eq_true, if_false]; exact tbResetX_agree h kind o t

/-- … as the `Except`-typed component: the same error, or agreeing worlds (same cell table, every
position) and the same tape -/
theorem placementReset_agree {cf : List AgentCfg} {F : Flags} {C : Prop} {x1 x2 : World}
    (h : WAgree cf F C x1 x2) (kind : PKind) (o : PlaceOpts) (t : Tape) :
    ERel (fun r1 r2 => WAgree cf { F with P := fun _ => True } True r1.1 r2.1 ∧ r1.2 = r2.2)
      (placementReset kind o x1 t) (placementReset kind o x2 t) := by
  obtain ⟨i1, i2⟩ := resetX_agree h kind o t
  simp only [placementReset, PlaceOut.toExcept]
  rw [← i1]
  cases he : (resetX kind o x1 t).1.err with
  | some e => simp only [ERel]
  | none => simp only [ERel]; exact i2 he

end Abmarl
