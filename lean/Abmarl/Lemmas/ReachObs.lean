import Abmarl.Lemmas.ReachAttacks
import Abmarl.Lemmas.ExamplesObs
/-!
# Observations of `ReachTheTargetSim` lie in the declared space although its worlds violate `WInv`

The observer theorems (C09 / C02) are stated for `WInv` worlds.  `heal w` sets the health of every inactive agent to 0:
for a `WInvWeak` world it satisfies `WInv` (`heal_WInv`), and the `PositionCenteredEncodingObserver` does not read
anybody's health, so it returns the same observation on `w` and on `heal w` (`getObsCentered_heal`).
-/
namespace Abmarl
namespace RT
open World Observers

def healSt (s : AgentSt) : AgentSt := if s.active then s else { s with health := 0 }

/-- the world with the health of every inactive agent set to 0 (a proof device: no code does this) -/
def heal (w : World) : World := { w with st := w.st.map healSt }

theorem healSt_default : healSt {} = {} := rfl

theorem heal_stOf (w : World) (b : Aid) : (heal w).stOf b = healSt (w.stOf b) := by
  simp only [heal, stOf, List.getD_eq_getElem?_getD, List.getElem?_map]
  cases w.st[b]? with
  | none => rfl
  | some s => rfl

theorem healSt_pos (s : AgentSt) : (healSt s).pos = s.pos := by unfold healSt; split <;> rfl
theorem healSt_active (s : AgentSt) : (healSt s).active = s.active := by unfold healSt; split <;> rfl
theorem healSt_ammo (s : AgentSt) : (healSt s).ammo = s.ammo := by unfold healSt; split <;> rfl
theorem healSt_orient (s : AgentSt) : (healSt s).orient = s.orient := by unfold healSt; split <;> rfl

theorem heal_pos (w : World) (b : Aid) : ((heal w).stOf b).pos = (w.stOf b).pos := by rw [heal_stOf, healSt_pos]
theorem heal_active (w : World) (b : Aid) : ((heal w).stOf b).active = (w.stOf b).active := by
  rw [heal_stOf, healSt_active]

/-- **a `WInvWeak` world with the health of the inactive agents set to 0 satisfies `WInv`** -/
theorem heal_WInv {w : World} (hW : w.WInvWeak = true) : (heal w).WInv = true := by
  obtain ⟨hshape, hcells, hagents, hsym⟩ := (WInvWeak_parts_iff w).mp hW
  rw [WInv_parts_iff]
  refine ⟨?_, ?_, ?_, hsym⟩
  · simp only [wShape, Bool.and_eq_true, beq_iff_eq] at hshape ⊢
    exact ⟨hshape.1, by simp [heal, hshape.2]⟩
  · intro i hi
    have hi' : i < w.rows * w.cols := hi
    rw [wCell_reading]
    obtain ⟨hnd, hall, hpairs⟩ := (wCell_reading w i).mp (hcells i hi')
    refine ⟨hnd, ?_, hpairs⟩
    intro b hb
    obtain ⟨k1, k2, k3, k4⟩ := hall b hb
    rw [heal_pos, heal_active]
    exact ⟨k1, k2, k3, k4⟩
  · intro b hb
    have hb' : b < w.n := hb
    rw [wAgent_reading, heal_stOf]
    obtain ⟨g1, g2, g3, g4, g5, g6, g7⟩ := (wAgentWeak_reading w b).mp (hagents b hb')
    rw [healSt_pos, healSt_active, healSt_ammo, healSt_orient]
    refine ⟨g1, ?_, ?_, ?_, g5, g6, g7⟩
    · unfold healSt; split
      · exact g2
      · exact le_refl _
    · unfold healSt; split
      · exact g3
      · show (0 : Rat) ≤ 1
        norm_num
    · unfold healSt
      cases hact : (w.stOf b).active with
      | true =>
        simp only [if_true]
        exact (decide_eq_true (g4 hact)).symm
      | false =>
        simp only [Bool.false_eq_true, if_false]
        show false = decide ((0 : Rat) < 0)
        simp

theorem localGrid_heal (w : World) (a : Aid) (R : Nat) : localGrid (heal w) a R = localGrid w a R := by
  unfold localGrid
  rw [heal_pos]
  rfl

theorem blockersOf_heal (w : World) (a : Aid) : blockersOf (heal w) a = blockersOf w a := by
  unfold blockersOf
  simp only [heal_pos, heal_active]
  rfl

theorem maskFor_heal (w : World) (a : Aid) (R : Nat) : maskFor (heal w) a R = maskFor w a R := by
  unfold maskFor
  rw [blockersOf_heal]

theorem cenCell_heal (w : World) (a : Aid) (os vis : Bool) (cell : Option (List Aid)) (t : Tape) :
    cenCell (heal w) a os vis cell t = cenCell w a os vis cell t := rfl

/-- the observer does not read anybody's health -/
theorem getObsCentered_heal (w : World) (a : Aid) (os : Bool) (t : Tape) :
    getObsCentered (heal w) a os t = getObsCentered w a os t := by
  unfold getObsCentered
  rw [heal_pos]
  simp only [localGrid_heal, maskFor_heal]
  rfl

theorem declared_heal (w : World) (a : Aid) (k : Kind) (o : Obs) : declared (heal w) a k o = declared w a k o := by
  cases o <;> rfl

/-- **the centered observation of every agent with an in-grid position lies in the declared space, in every
`WInvWeak` world** -/
theorem centered_declared_weak {w : World} (hW : w.WInvWeak = true) {a : Aid} (ha : a < w.n)
    (hpos : w.inGrid (w.stOf a).pos = true) (henc : ∀ b < w.n, 0 < w.encOf b)
    (hammo : 0 ≤ (w.cfgOf a).initAmmo) (os : Bool) (t : Tape) :
    ∃ o t', Observers.getObs w a (.centered os) t = .ok (o, t') ∧ declared w a (.centered os) o = true := by
  have hpos' : (heal w).inGrid ((heal w).stOf a).pos = true := by rw [heal_pos]; exact hpos
  obtain ⟨o, t', hget, hdecl⟩ := Observers.getObs_declared (heal w) a (.centered os) t (heal_WInv hW) ha hpos'
    henc hammo
  refine ⟨o, t', ?_, ?_⟩
  · simp only [Observers.getObs] at hget ⊢
    rw [← getObsCentered_heal]; exact hget
  · rw [← declared_heal]; exact hdecl

end RT
end Abmarl
