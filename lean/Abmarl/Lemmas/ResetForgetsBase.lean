import Abmarl.Model.Resets
import Abmarl.Lemmas.Vitals
/-!
# Reset forgets — the agreement relation

Two worlds *agree* (`WAgree F C x1 x2`) when they have the same static part, state lists as long as
the configuration, the same cell table if `C`, and when every agent's dynamic fields agree on the
field groups switched on by the flags `F` (one predicate over agents per group: position, health and
activity, ammunition, orientation).  The ghost fields — the ammunition of an agent without
ammunition, the orientation of an agent without orientation — must agree whatever the flags say: no
component ever writes them.

The reset components are shown (in the sibling files) to map agreeing worlds to agreeing worlds,
with their own flag switched on for every agent.
-/
namespace Abmarl
open World

/-- which field groups of which agents are already known to agree -/
structure Flags where
  P : Aid → Prop
  H : Aid → Prop
  A : Aid → Prop
  O : Aid → Prop

/-- nothing known -/
def Flags.none : Flags := ⟨fun _ => False, fun _ => False, fun _ => False, fun _ => False⟩
/-- everything known -/
def Flags.all : Flags := ⟨fun _ => True, fun _ => True, fun _ => True, fun _ => True⟩

/-- `F'` claims at agent `b` no more than `F` -/
structure Flags.LeAt (F' F : Flags) (b : Aid) : Prop where
  P : F'.P b → F.P b
  H : F'.H b → F.H b
  A : F'.A b → F.A b
  O : F'.O b → F.O b

theorem Flags.LeAt.refl (F : Flags) (b : Aid) : Flags.LeAt F F b := ⟨id, id, id, id⟩

/-- two agent states agree on the groups the flags switch on at agent `a`, and on the ghost fields -/
structure StAgree (c : AgentCfg) (F : Flags) (a : Aid) (s1 s2 : AgentSt) : Prop where
  pos : F.P a → s1.pos = s2.pos
  health : F.H a → s1.health = s2.health
  active : F.H a → s1.active = s2.active
  ammo : F.A a ∨ c.hasAmmo = false → s1.ammo = s2.ammo
  orient : F.O a ∨ c.hasOrient = false → s1.orient = s2.orient

theorem StAgree.rfl' (c : AgentCfg) (F : Flags) (a : Aid) (s : AgentSt) : StAgree c F a s s :=
  ⟨fun _ => rfl, fun _ => rfl, fun _ => rfl, fun _ => rfl, fun _ => rfl⟩

theorem StAgree.mono {c : AgentCfg} {F F' : Flags} {a : Aid} {s1 s2 : AgentSt}
    (h : StAgree c F a s1 s2) (hle : Flags.LeAt F' F a) : StAgree c F' a s1 s2 :=
  ⟨fun p => h.pos (hle.P p), fun p => h.health (hle.H p), fun p => h.active (hle.H p),
   fun p => h.ammo (p.imp hle.A id), fun p => h.orient (p.imp hle.O id)⟩

/-- the agreement of two worlds of configuration `cf` -/
structure WAgree (cf : List AgentCfg) (F : Flags) (C : Prop) (x1 x2 : World) : Prop where
  rows : x1.rows = x2.rows
  cols : x1.cols = x2.cols
  overlap : x1.overlap = x2.overlap
  cfg1 : x1.cfg = cf
  cfg2 : x2.cfg = cf
  len1 : x1.st.length = cf.length
  len2 : x2.st.length = cf.length
  cells : C → x1.cells = x2.cells
  st : ∀ a, StAgree (cf.getD a {}) F a (x1.stOf a) (x2.stOf a)

namespace WAgree
variable {cf : List AgentCfg} {F F' : Flags} {C C' : Prop} {x1 x2 : World}

theorem cfg (h : WAgree cf F C x1 x2) : x1.cfg = x2.cfg := h.cfg1.trans h.cfg2.symm
theorem n1 (h : WAgree cf F C x1 x2) : x1.n = cf.length := by simp [World.n, h.cfg1]
theorem n2 (h : WAgree cf F C x1 x2) : x2.n = cf.length := by simp [World.n, h.cfg2]
theorem n_eq (h : WAgree cf F C x1 x2) : x1.n = x2.n := h.n1.trans h.n2.symm
theorem cfgOf1 (h : WAgree cf F C x1 x2) (a : Aid) : x1.cfgOf a = cf.getD a {} := by
  simp [World.cfgOf, h.cfg1]
theorem cfgOf2 (h : WAgree cf F C x1 x2) (a : Aid) : x2.cfgOf a = cf.getD a {} := by
  simp [World.cfgOf, h.cfg2]
theorem cfgOf_eq (h : WAgree cf F C x1 x2) (a : Aid) : x1.cfgOf a = x2.cfgOf a :=
  (h.cfgOf1 a).trans (h.cfgOf2 a).symm
theorem encOf_eq (h : WAgree cf F C x1 x2) (a : Aid) : x1.encOf a = x2.encOf a := by
  simp [World.encOf, h.cfgOf_eq a]
theorem lenEq (h : WAgree cf F C x1 x2) : x1.st.length = x2.st.length := h.len1.trans h.len2.symm

theorem stOf_default_of_ge {w : World} {a : Aid} (h : w.st.length ≤ a) : w.stOf a = {} := by
  simp only [World.stOf]
  rw [List.getD_eq_getElem?_getD, List.getElem?_eq_none h]; rfl

/-- change the flags (only agents the worlds have need to be checked) and weaken the cell clause -/
theorem mono_st (h : WAgree cf F C x1 x2)
    (hst : ∀ b, b < cf.length → StAgree (cf.getD b {}) F b (x1.stOf b) (x2.stOf b) →
      StAgree (cf.getD b {}) F' b (x1.stOf b) (x2.stOf b)) (hC : C' → C) :
    WAgree cf F' C' x1 x2 := by
  refine ⟨h.rows, h.cols, h.overlap, h.cfg1, h.cfg2, h.len1, h.len2, fun c => h.cells (hC c),
    fun a => ?_⟩
  by_cases ha : a < cf.length
  · exact hst a ha (h.st a)
  · have h1 : x1.st.length ≤ a := by rw [h.len1]; exact Nat.le_of_not_lt ha
    have h2 : x2.st.length ≤ a := by rw [← h.lenEq]; exact h1
    rw [stOf_default_of_ge h1, stOf_default_of_ge h2]
    exact StAgree.rfl' _ _ _ _

/-- weaken the flags (only agents the worlds have need to be checked) and the cell clause -/
theorem mono (h : WAgree cf F C x1 x2) (hle : ∀ b, b < cf.length → Flags.LeAt F' F b) (hC : C' → C) :
    WAgree cf F' C' x1 x2 :=
  h.mono_st (fun b hb hs => hs.mono (hle b hb)) hC

/-- write agent `a`'s state in both worlds -/
theorem setSt (h : WAgree cf F C x1 x2) (a : Aid) (s1 s2 : AgentSt)
    (hs : StAgree (cf.getD a {}) F' a s1 s2) (hle : ∀ b, b ≠ a → Flags.LeAt F' F b) :
    WAgree cf F' C (x1.setSt a s1) (x2.setSt a s2) := by
  refine ⟨h.rows, h.cols, h.overlap, h.cfg1, h.cfg2, ?_, ?_, h.cells, fun b => ?_⟩
  · simp only [World.setSt, List.length_set]; exact h.len1
  · simp only [World.setSt, List.length_set]; exact h.len2
  · rw [stOf_setSt, stOf_setSt, ← h.lenEq]
    by_cases hb : b = a
    · subst hb
      by_cases hl : b < x1.st.length
      · simp only [hl, and_self, if_true]; exact hs
      · simp only [hl, and_false, if_false]
        have h1 : x1.st.length ≤ b := Nat.le_of_not_lt hl
        have h2 : x2.st.length ≤ b := by rw [← h.lenEq]; exact h1
        rw [stOf_default_of_ge h1, stOf_default_of_ge h2]
        exact StAgree.rfl' _ _ _ _
    · simp only [hb, false_and, if_false]
      exact (h.st b).mono (hle b hb)

/-- replace the cell table by the same table in both worlds -/
theorem withCells (h : WAgree cf F C x1 x2) (c : List (List Aid)) :
    WAgree cf F True { x1 with cells := c } { x2 with cells := c } :=
  ⟨h.rows, h.cols, h.overlap, h.cfg1, h.cfg2, h.len1, h.len2, fun _ => rfl, h.st⟩

end WAgree

theorem agentSt_ext {s1 s2 : AgentSt} (h1 : s1.pos = s2.pos) (h2 : s1.health = s2.health)
    (h3 : s1.active = s2.active) (h4 : s1.ammo = s2.ammo) (h5 : s1.orient = s2.orient) : s1 = s2 := by
  cases s1; cases s2; simp_all

/-- agreement on everything is equality -/
theorem WAgree.eq_of_all {cf : List AgentCfg} {x1 x2 : World} (h : WAgree cf Flags.all True x1 x2) : x1 = x2 := by
  have hst : x1.st = x2.st := by
    apply List.ext_getElem h.lenEq
    intro i h1 h2
    have hs := h.st i
    have e1 : x1.stOf i = x1.st[i] := by simp [World.stOf, List.getD_eq_getElem?_getD, h1]
    have e2 : x2.stOf i = x2.st[i] := by simp [World.stOf, List.getD_eq_getElem?_getD, h2]
    rw [e1, e2] at hs
    exact agentSt_ext (hs.pos trivial) (hs.health trivial) (hs.active trivial)
      (hs.ammo (Or.inl trivial)) (hs.orient (Or.inl trivial))
  obtain ⟨r1, c1, o1, ce1, cf1, st1⟩ := x1
  obtain ⟨r2, c2, o2, ce2, cf2, st2⟩ := x2
  have := h.rows; have := h.cols; have := h.overlap; have := h.cfg; have := h.cells trivial
  simp_all

/-- relation on outcomes: the same error, or related results -/
def ERel {β : Type} (R : β → β → Prop) : Except GErr β → Except GErr β → Prop
  | .ok a, .ok b => R a b
  | .error e1, .error e2 => e1 = e2
  | _, _ => False

theorem ERel.eq_of {β : Type} {R : β → β → Prop} (hR : ∀ a b, R a b → a = b)
    {r1 r2 : Except GErr β} (h : ERel R r1 r2) : r1 = r2 := by
  cases r1 with
  | error e1 =>
    cases r2 with
    | error e2 => simp only [ERel] at h; rw [h]
    | ok b => exact False.elim h
  | ok a =>
    cases r2 with
    | error e2 => exact False.elim h
    | ok b => rw [hR a b h]

end Abmarl
