import Abmarl.Lemmas.Builders
/-!
# Helper lemmas for C18, part 2: the text file

`str.split(' ')` / `str.splitlines()` undo `' '.join` / `'\n'.join` for tokens without spaces
and non-empty lines without line boundaries; hence parsing the rendering of a layout visits the
same entries at the same coordinates as the array loop (`fromFile_render`).
-/
namespace Abmarl
namespace Builders

/-- a character that can stand in a file cell: not the separator, not a line boundary -/
def CellOk (c : Nat) : Prop := c ≠ 32 ∧ isBreak c = false

instance : DecidablePred CellOk := fun c => inferInstanceAs (Decidable (c ≠ 32 ∧ isBreak c = false))

def rowText (row : List Nat) : List Nat := joinWith 32 (row.map (fun c => [c]))

theorem render_eq (rows cols : Nat) (cells : List Nat) :
    render rows cols cells = joinWith 10 ((rowsOf cols rows cells).map rowText) := rfl

/-! ## split / join -/

theorem splitSp_tok : ∀ tok : List Nat, (∀ c ∈ tok, c ≠ 32) → splitSp tok = [tok] := by
  intro tok
  induction tok with
  | nil => intro _; rfl
  | cons c tok ih =>
    intro h
    have hc : c ≠ 32 := h c (by simp)
    rw [splitSp, if_neg hc, ih (fun x hx => h x (by simp [hx]))]

theorem splitSp_tok_sep (rest : List Nat) :
    ∀ tok : List Nat, (∀ c ∈ tok, c ≠ 32) → splitSp (tok ++ 32 :: rest) = tok :: splitSp rest := by
  intro tok
  induction tok with
  | nil => intro _; simp [splitSp]
  | cons c tok ih =>
    intro h
    have hc : c ≠ 32 := h c (by simp)
    rw [List.cons_append, splitSp, if_neg hc, ih (fun x hx => h x (by simp [hx]))]

theorem splitSp_joinWith :
    ∀ toks : List (List Nat), toks ≠ [] → (∀ t ∈ toks, ∀ c ∈ t, c ≠ 32) →
      splitSp (joinWith 32 toks) = toks := by
  intro toks
  induction toks with
  | nil => intro h; exact absurd rfl h
  | cons t ts ih =>
    intro _ h
    cases ts with
    | nil => rw [joinWith]; exact splitSp_tok t (h t (by simp))
    | cons t' ts' =>
      rw [joinWith, splitSp_tok_sep _ t (h t (by simp)),
        ih (by simp) (fun x hx => h x (by simp [hx]))]

theorem splitLines_line_sep (rest : List Nat) :
    ∀ line : List Nat, (∀ c ∈ line, isBreak c = false) →
      splitLines (line ++ 10 :: rest) = line :: splitLines rest := by
  intro line
  induction line with
  | nil => intro _; simp [splitLines, isBreak]
  | cons c line ih =>
    intro h
    have hc : isBreak c = false := h c (by simp)
    rw [List.cons_append, splitLines, ih (fun x hx => h x (by simp [hx]))]
    simp [hc]

theorem splitLines_line :
    ∀ line : List Nat, line ≠ [] → (∀ c ∈ line, isBreak c = false) → splitLines line = [line] := by
  intro line
  induction line with
  | nil => intro h; exact absurd rfl h
  | cons c line ih =>
    intro _ h
    have hc : isBreak c = false := h c (by simp)
    cases line with
    | nil => simp [splitLines, hc]
    | cons d line' =>
      rw [splitLines, ih (by simp) (fun x hx => h x (by simp [hx]))]
      simp [hc]

theorem splitLines_joinWith :
    ∀ lines : List (List Nat), (∀ l ∈ lines, l ≠ [] ∧ ∀ c ∈ l, isBreak c = false) →
      splitLines (joinWith 10 lines) = lines := by
  intro lines
  induction lines with
  | nil => intro _; rfl
  | cons l ls ih =>
    intro h
    cases ls with
    | nil => rw [joinWith]; exact splitLines_line l (h l (by simp)).1 (h l (by simp)).2
    | cons l' ls' =>
      rw [joinWith, splitLines_line_sep _ l (h l (by simp)).2, ih (fun x hx => h x (by simp [hx]))]

/-- a final newline does not add a line -/
theorem splitLines_joinWith_nl :
    ∀ lines : List (List Nat), lines ≠ [] → (∀ l ∈ lines, l ≠ [] ∧ ∀ c ∈ l, isBreak c = false) →
      splitLines (joinWith 10 lines ++ [10]) = lines := by
  intro lines
  induction lines with
  | nil => intro h; exact absurd rfl h
  | cons l ls ih =>
    intro _ h
    cases ls with
    | nil =>
      rw [joinWith, splitLines_line_sep [] l (h l (by simp)).2]
      rfl
    | cons l' ls' =>
      rw [joinWith, List.append_assoc, List.cons_append,
        splitLines_line_sep _ l (h l (by simp)).2, ih (by simp) (fun x hx => h x (by simp [hx]))]

theorem normCRLF_id : ∀ t : List Nat, (∀ c ∈ t, c ≠ 13) → normCRLF t = t := by
  intro t
  induction t with
  | nil => intro _; rfl
  | cons c t ih =>
    intro h
    have hc : c ≠ 13 := h c (by simp)
    rw [normCRLF, if_neg (fun hh => hc hh.1), ih (fun x hx => h x (by simp [hx]))]

theorem mem_joinWith (sep : Nat) :
    ∀ (ls : List (List Nat)) (c : Nat), c ∈ joinWith sep ls → c = sep ∨ ∃ l ∈ ls, c ∈ l := by
  intro ls
  induction ls with
  | nil => intro c h; simp [joinWith] at h
  | cons l ls ih =>
    intro c h
    cases ls with
    | nil => rw [joinWith] at h; exact Or.inr ⟨l, by simp, h⟩
    | cons l' ls' =>
      rw [joinWith, List.mem_append, List.mem_cons] at h
      rcases h with h | h | h
      · exact Or.inr ⟨l, by simp, h⟩
      · exact Or.inl h
      · rcases ih c h with h | ⟨x, hx, hc⟩
        · exact Or.inl h
        · exact Or.inr ⟨x, by simp only [List.mem_cons] at hx ⊢; exact Or.inr hx, hc⟩

theorem joinWith_ne_nil (sep : Nat) (l : List Nat) (ls : List (List Nat)) (hl : l ≠ []) :
    joinWith sep (l :: ls) ≠ [] := by
  cases ls with
  | nil => rw [joinWith]; exact hl
  | cons l' ls' => rw [joinWith]; simp [hl]

/-! ## rows of a layout -/

theorem length_rowsOf (cols : Nat) : ∀ (k : Nat) (cells : List Nat), (rowsOf cols k cells).length = k := by
  intro k
  induction k with
  | zero => intro _; rfl
  | succ k ih => intro cells; simp [rowsOf, ih]

theorem mem_rowsOf (cols : Nat) :
    ∀ (k : Nat) (cells row : List Nat), k * cols ≤ cells.length → row ∈ rowsOf cols k cells →
      row.length = cols ∧ ∀ c ∈ row, c ∈ cells := by
  intro k
  induction k with
  | zero => intro cells row _ h; simp [rowsOf] at h
  | succ k ih =>
    intro cells row hlen h
    rw [Nat.succ_mul] at hlen
    rw [rowsOf, List.mem_cons] at h
    rcases h with h | h
    · subst h
      exact ⟨by rw [List.length_take]; omega, fun c hc => List.mem_of_mem_take hc⟩
    · obtain ⟨h1, h2⟩ := ih (cells.drop cols) row (by rw [List.length_drop]; omega) h
      exact ⟨h1, fun c hc => List.mem_of_mem_drop (h2 c hc)⟩

theorem rowText_props (row : List Nat) (hne : row ≠ []) (hok : ∀ c ∈ row, CellOk c) :
    rowText row ≠ [] ∧ ∀ c ∈ rowText row, isBreak c = false ∧ (c = 32 ∨ c ∈ row) := by
  constructor
  · cases row with
    | nil => exact absurd rfl hne
    | cons c row' => exact joinWith_ne_nil 32 [c] _ (by simp)
  · intro c hc
    rcases mem_joinWith 32 _ c hc with h | ⟨l, hl, hcl⟩
    · subst h; exact ⟨by decide, Or.inl rfl⟩
    · obtain ⟨x, hx, rfl⟩ := List.mem_map.mp hl
      simp only [List.mem_singleton] at hcl
      subst hcl
      exact ⟨(hok c hx).2, Or.inr hx⟩

theorem splitSp_rowText (row : List Nat) (hne : row ≠ []) (hok : ∀ c ∈ row, CellOk c) :
    splitSp (rowText row) = row.map (fun c => [c]) := by
  apply splitSp_joinWith
  · simpa using hne
  · intro t ht c hc
    obtain ⟨x, hx, rfl⟩ := List.mem_map.mp ht
    simp only [List.mem_singleton] at hc
    subst hc
    exact (hok c hx).1

/-- the lines of the rendering, as `splitlines` returns them (with or without a final newline) -/
theorem lines_render (rows cols : Nat) (cells : List Nat) (hc : 0 < cols)
    (hlen : rows * cols ≤ cells.length) (hok : ∀ c ∈ cells, CellOk c) :
    splitLines (normCRLF (render rows cols cells)) = (rowsOf cols rows cells).map rowText ∧
    (0 < rows →
      splitLines (normCRLF (render rows cols cells ++ [10])) = (rowsOf cols rows cells).map rowText) := by
  have hrows : ∀ l ∈ (rowsOf cols rows cells).map rowText,
      (l ≠ [] ∧ ∀ c ∈ l, isBreak c = false) ∧ ∀ c ∈ l, c ≠ 13 := by
    intro l hl
    obtain ⟨row, hrow, rfl⟩ := List.mem_map.mp hl
    obtain ⟨h1, h2⟩ := mem_rowsOf cols rows cells row hlen hrow
    have hne : row ≠ [] := by intro e; rw [e] at h1; simp at h1; omega
    have hp := rowText_props row hne (fun c hc' => hok c (h2 c hc'))
    refine ⟨⟨hp.1, fun c hc' => (hp.2 c hc').1⟩, fun c hc' e => ?_⟩
    have := (hp.2 c hc').1
    rw [e] at this
    exact absurd this (by decide)
  have hno13 : ∀ c ∈ render rows cols cells, c ≠ 13 := by
    intro c hc'
    rcases mem_joinWith 10 _ c hc' with h | ⟨l, hl, hcl⟩
    · omega
    · exact (hrows l hl).2 c hcl
  constructor
  · rw [normCRLF_id _ hno13, render_eq]
    exact splitLines_joinWith _ (fun l hl => (hrows l hl).1)
  · intro hr
    rw [normCRLF_id _ (by
      intro c hc'
      rcases List.mem_append.mp hc' with h | h
      · exact hno13 c h
      · simp at h; omega)]
    rw [render_eq]
    apply splitLines_joinWith_nl _ _ (fun l hl => (hrows l hl).1)
    intro e
    have := length_rowsOf cols rows cells
    rw [List.map_eq_nil_iff] at e
    rw [e] at this
    simp at this
    omega

/-! ## the file loops on the rendering -/

theorem fileCols_single (reg : Registry) (cols r : Nat) :
    ∀ (row : List Nat) (c0 : Nat) (st : St), c0 + row.length ≤ cols →
      fileCols reg r (row.map (fun c => [c])) c0 st = scan reg cols row (r * cols + c0) st := by
  intro row
  induction row with
  | nil => intro c0 st _; simp [fileCols, scan]
  | cons ch row ih =>
    intro c0 st h
    simp only [List.length_cons] at h
    obtain ⟨hd, hm⟩ := divmod_flat (cols := cols) (r := r) (c := c0) (by omega)
    rw [List.map_cons, fileCols, scan, hd, hm, ih (c0 + 1) _ (by omega)]
    rfl

theorem fileRows_render (reg : Registry) (cols : Nat) (hc : 0 < cols) :
    ∀ (k : Nat) (cells : List Nat) (r : Nat) (st : St), k * cols ≤ cells.length →
      (∀ c ∈ cells, CellOk c) →
      fileRows reg cols ((rowsOf cols k cells).map rowText) r st =
        .ok (scan reg cols (cells.take (k * cols)) (r * cols) st) := by
  intro k
  induction k with
  | zero => intro cells r st _ _; simp [rowsOf, fileRows, scan]
  | succ k ih =>
    intro cells r st hlen hok
    rw [Nat.succ_mul] at hlen
    have hlt : (cells.take cols).length = cols := by rw [List.length_take]; omega
    have hne : cells.take cols ≠ [] := by intro e; rw [e] at hlt; simp at hlt; omega
    have hokt : ∀ c ∈ cells.take cols, CellOk c := fun c h => hok c (List.mem_of_mem_take h)
    rw [rowsOf, List.map_cons, fileRows]
    simp only [splitSp_rowText _ hne hokt, List.length_map, hlt, ne_eq, not_true_eq_false, if_false]
    rw [fileCols_single reg cols r _ 0 st (by omega),
      ih (cells.drop cols) (r + 1) _ (by rw [List.length_drop]; omega)
        (fun c h => hok c (List.mem_of_mem_drop h))]
    have e : (k + 1) * cols = cols + k * cols := by rw [Nat.succ_mul]; omega
    rw [e, List.take_add, scan_append, hlt, Nat.succ_mul]
    rfl

theorem fromFile_of_lines (text : List Nat) (reg : Registry) (extras : List Agent)
    (l0 : List Nat) (tl : List (List Nat)) (hres : reservedInRegistry reg = false)
    (hl : splitLines (normCRLF text) = l0 :: tl) :
    fromFile text reg extras =
      match fileRows reg (splitSp l0).length (l0 :: tl) 0 (St.init extras) with
      | .error e => .error e
      | .ok st => buildSim (tl.length + 1) (splitSp l0).length st.agents := by
  unfold fromFile
  rw [hres, hl]
  rfl

/-- parsing any text whose lines are the rendered rows gives the array builder's result -/
theorem fromFile_of_render_lines (rows cols : Nat) (cells : List Nat) (reg : Registry)
    (extras : List Agent) (text : List Nat)
    (hr : 0 < rows) (hc : 0 < cols) (hlen : cells.length = rows * cols)
    (hok : ∀ c ∈ cells, CellOk c)
    (hl : splitLines (normCRLF text) = (rowsOf cols rows cells).map rowText) :
    fromFile text reg extras = fromArray rows cols cells reg extras := by
  cases hres : reservedInRegistry reg with
  | true => simp [fromFile, fromArray, hres]
  | false =>
    obtain ⟨k, rfl⟩ : ∃ k, rows = k + 1 := ⟨rows - 1, by omega⟩
    have hrows := fileRows_render reg cols hc (k + 1) cells 0 (St.init extras) (by omega) hok
    have hlt : (cells.take cols).length = cols := by
      rw [List.length_take, hlen, Nat.succ_mul]; omega
    have hne : cells.take cols ≠ [] := by intro e; rw [e] at hlt; simp at hlt; omega
    have hcols : (splitSp (rowText (cells.take cols))).length = cols := by
      rw [splitSp_rowText _ hne (fun c h => hok c (List.mem_of_mem_take h)), List.length_map, hlt]
    rw [rowsOf, List.map_cons] at hl hrows
    rw [fromFile_of_lines text reg extras _ _ hres hl, hcols, hrows]
    have htl : ((rowsOf cols k (cells.drop cols)).map rowText).length + 1 = k + 1 := by
      simp [length_rowsOf]
    rw [htl, fromArray, hres, arrayLoop_eq_scan reg (k + 1) cols cells _ hlen]
    simp [← hlen]

end Builders
end Abmarl
