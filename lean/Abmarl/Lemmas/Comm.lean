import Abmarl.Spec.Comm
/-!
# Helper lemmas for C20: matrices, the receive loop, the send loops, one wrapper step

Each loop is characterised once ("the matrix it leaves is pointwise this function of the action
dictionary"); everything else is derived from the characterisations.
-/
namespace Abmarl
variable {σ α ω ι : Type}

/-! ## matrices -/

/-- an `n × n` matrix -/
def MShape (n : Nat) (m : Matrix) : Prop := m.length = n ∧ ∀ x, x < n → (m.getD x []).length = n

theorem getD_replicate {β : Type} (n i : Nat) (v d : β) (h : i < n) : (List.replicate n v).getD i d = v := by
  simp [List.getD_eq_getElem?_getD, h]

theorem mzero_shape (n : Nat) : MShape n (mzero n) := by
  refine ⟨by simp [mzero], fun x hx => ?_⟩
  unfold mzero
  rw [getD_replicate _ _ _ _ hx]
  simp

theorem mget_mzero (n x y : Nat) : mget (mzero n) x y = false := by
  unfold mget mzero
  by_cases hx : x < n
  · rw [getD_replicate _ _ _ _ hx]
    by_cases hy : y < n
    · rw [getD_replicate _ _ _ _ hy]
    · simp [List.getD_eq_getElem?_getD, hy]
  · simp [List.getD_eq_getElem?_getD, hx]

theorem mget_nil (x y : Nat) : mget [] x y = false := by simp [mget]

theorem getD_set_self {β : Type} (l : List β) (i : Nat) (v d : β) (h : i < l.length) :
    (l.set i v).getD i d = v := by
  simp [List.getD_eq_getElem?_getD, h]

theorem getD_set_ne {β : Type} (l : List β) (i j : Nat) (v d : β) (h : i ≠ j) :
    (l.set i v).getD j d = l.getD j d := by
  simp [List.getD_eq_getElem?_getD, h]

theorem mget_mset (m : Matrix) (x y x' y' : Aid) (v : Bool) (hx : x < m.length)
    (hy : y < (m.getD x []).length) :
    mget (mset m x y v) x' y' = if x' = x ∧ y' = y then v else mget m x' y' := by
  unfold mget mset
  by_cases h1 : x' = x
  · subst h1
    rw [getD_set_self _ _ _ _ hx]
    by_cases h2 : y' = y
    · subst h2
      rw [getD_set_self _ _ _ _ hy]; simp
    · rw [getD_set_ne _ _ _ _ _ (fun e => h2 e.symm)]; simp [h2]
  · rw [getD_set_ne _ _ _ _ _ (fun e => h1 e.symm)]; simp [h1]

theorem mset_shape {n : Nat} {m : Matrix} (h : MShape n m) (x y : Aid) (v : Bool) : MShape n (mset m x y v) := by
  obtain ⟨h1, h2⟩ := h
  refine ⟨by simp [mset, h1], fun x' hx' => ?_⟩
  unfold mset
  by_cases e : x' = x
  · subst e
    rw [getD_set_self _ _ _ _ (by omega), List.length_set]
    exact h2 x' hx'
  · rw [getD_set_ne _ _ _ _ _ (fun e' => e e'.symm)]
    exact h2 x' hx'

/-! ## dictionaries -/

theorem lookup_none_of_not_mem_keys {β : Type} (l : List (Aid × β)) (a : Aid)
    (h : a ∉ l.map (·.1)) : l.lookup a = none := by
  induction l with
  | nil => rfl
  | cons p ps ih =>
    simp only [List.map_cons, List.mem_cons, not_or] at h
    have hne : (a == p.1) = false := by simpa using h.1
    obtain ⟨k, v⟩ := p
    simp only [List.lookup_cons, hne]
    exact ih h.2

theorem mem_others {n x y : Nat} : y ∈ others n x ↔ y < n ∧ y ≠ x := by
  simp [others]

theorem others_nodup (n x : Nat) : (others n x).Nodup := List.nodup_range.sublist List.filter_sublist

theorem getD_map_range' {β : Type} (f : Nat → β) (n a : Nat) (d : β) (h : a < n) :
    ((List.range n).map f).getD a d = f a := by
  simp [List.getD_eq_getElem?_getD, h]

/-! ## the receive loop -/

theorem mget_recvRow (n : Nat) (buffer : Matrix) (x : Aid) (recv : Row) (y : Aid) (hy : y < n) :
    (recvRow n buffer x recv).getD y false =
      ((y != x) && mget buffer x y && (recv.lookup y).getD false) := by
  unfold recvRow
  rw [getD_map_range' _ _ _ _ hy]

/-- what the receive loop needs to run through: dictionary, every acting agent passes `recvOK` -/
def RecvPre (n : Nat) (buffer : Matrix) (acts : List (Aid × CAct α)) : Prop :=
  (acts.map (·.1)).Nodup ∧ ∀ p ∈ acts, recvOK n buffer p.1 p.2.receive = true

theorem procReceives_spec (n : Nat) (buffer : Matrix) :
    ∀ (acts : List (Aid × CAct α)) (rc : Matrix), RecvPre n buffer acts → rc.length = n →
      (procReceives n buffer acts rc).2 = true ∧ (procReceives n buffer acts rc).1.length = n ∧
      ∀ x, (procReceives n buffer acts rc).1.getD x [] =
        match acts.lookup x with
        | some a => recvRow n buffer x a.receive
        | none => rc.getD x [] := by
  intro acts
  induction acts with
  | nil => intro rc _ hl; exact ⟨rfl, hl, fun x => rfl⟩
  | cons p rest ih =>
    intro rc hpre hl
    obtain ⟨x0, a0⟩ := p
    obtain ⟨hnd, hok⟩ := hpre
    have hnd' := List.nodup_cons.mp hnd
    have hok0 : recvOK n buffer x0 a0.receive = true := hok (x0, a0) (by simp)
    have hx0 : x0 < n := by
      simp only [recvOK, Bool.and_eq_true, decide_eq_true_eq] at hok0
      exact hok0.1
    have hpre' : RecvPre n buffer rest := ⟨hnd'.2, fun p hp => hok p (List.mem_cons_of_mem _ hp)⟩
    obtain ⟨h1, h2, h3⟩ := ih (rc.set x0 (recvRow n buffer x0 a0.receive)) hpre' (by simp [hl])
    have hE : procReceives n buffer ((x0, a0) :: rest) rc =
        procReceives n buffer rest (rc.set x0 (recvRow n buffer x0 a0.receive)) := by
      simp only [procReceives, hok0, if_true]
    rw [hE]
    refine ⟨h1, h2, fun x => ?_⟩
    rw [h3 x]
    by_cases hx : x = x0
    · subst hx
      have : rest.lookup x = none := lookup_none_of_not_mem_keys rest x hnd'.1
      simp only [this, List.lookup_cons, beq_self_eq_true]
      exact getD_set_self rc x _ _ (by rw [hl]; exact hx0)
    · have hne : (x == x0) = false := by simpa using hx
      simp only [List.lookup_cons, hne]
      cases hl' : rest.lookup x with
      | some a => rfl
      | none => exact getD_set_ne rc x0 x _ _ (fun e => hx e.symm)

/-! ## the send loops -/

/-- a well-addressed `send` dictionary of agent `s` -/
def SendPre (n : Nat) (_s : Aid) (send : Row) : Prop :=
  (send.map (·.1)).Nodup ∧ ∀ q ∈ send, q.1 < n

theorem procSend1_spec (n : Nat) (s : Aid) (hs : s < n) :
    ∀ (send : Row) (b : Matrix), SendPre n s send → MShape n b →
      (procSend1 n s send b).2 = true ∧ MShape n (procSend1 n s send b).1 ∧
      ∀ r s', mget (procSend1 n s send b).1 r s' =
        if s' = s then (match send.lookup r with | some v => v | none => mget b r s') else mget b r s' := by
  intro send
  induction send with
  | nil =>
    intro b _ hb
    refine ⟨rfl, hb, fun r s' => ?_⟩
    by_cases h : s' = s <;> simp [procSend1, h]
  | cons q rest ih =>
    intro b hpre hb
    obtain ⟨r0, v0⟩ := q
    obtain ⟨hnd, hlt⟩ := hpre
    have hnd' := List.nodup_cons.mp hnd
    have hr0 : r0 < n := hlt (r0, v0) (by simp)
    have hpre' : SendPre n s rest := ⟨hnd'.2, fun q hq => hlt q (List.mem_cons_of_mem _ hq)⟩
    obtain ⟨h1, h2, h3⟩ := ih (mset b r0 s v0) hpre' (mset_shape hb _ _ _)
    have hE : procSend1 n s ((r0, v0) :: rest) b = procSend1 n s rest (mset b r0 s v0) := by
      simp only [procSend1, hr0, if_true]
    rw [hE]
    refine ⟨h1, h2, fun r s' => ?_⟩
    rw [h3 r s']
    have hset : ∀ r' s'', mget (mset b r0 s v0) r' s'' = if r' = r0 ∧ s'' = s then v0 else mget b r' s'' :=
      fun r' s'' => mget_mset b r0 s r' s'' v0 (by rw [hb.1]; exact hr0) (by rw [hb.2 r0 hr0]; exact hs)
    by_cases hs' : s' = s
    · subst hs'
      simp only [if_true]
      by_cases hr : r = r0
      · subst hr
        have : rest.lookup r = none := lookup_none_of_not_mem_keys rest r hnd'.1
        rw [this, hset]
        simp
      · have hne : (r == r0) = false := by simpa using hr
        simp only [List.lookup_cons, hne]
        cases rest.lookup r with
        | some v => rfl
        | none => rw [hset]; simp [hr]
    · simp only [hs', if_false]
      rw [hset]; simp [hs']

/-- what the send loop needs to run through -/
def SendsPre (n : Nat) (acts : List (Aid × CAct α)) : Prop :=
  (acts.map (·.1)).Nodup ∧ ∀ p ∈ acts, p.1 < n ∧ SendPre n p.1 p.2.send

theorem procSends_spec (n : Nat) :
    ∀ (acts : List (Aid × CAct α)) (b : Matrix), SendsPre n acts → MShape n b →
      (procSends n acts b).2 = true ∧ MShape n (procSends n acts b).1 ∧
      ∀ r s, mget (procSends n acts b).1 r s =
        match acts.lookup s with
        | some a => (match a.send.lookup r with | some v => v | none => mget b r s)
        | none => mget b r s := by
  intro acts
  induction acts with
  | nil => intro b _ hb; exact ⟨rfl, hb, fun r s => rfl⟩
  | cons p rest ih =>
    intro b hpre hb
    obtain ⟨s0, a0⟩ := p
    obtain ⟨hnd, hall⟩ := hpre
    have hnd' := List.nodup_cons.mp hnd
    obtain ⟨hs0, hsp⟩ := hall (s0, a0) (by simp)
    have hpre' : SendsPre n rest := ⟨hnd'.2, fun p hp => hall p (List.mem_cons_of_mem _ hp)⟩
    obtain ⟨g1, g2, g3⟩ := procSend1_spec n s0 hs0 a0.send b hsp hb
    obtain ⟨h1, h2, h3⟩ := ih (procSend1 n s0 a0.send b).1 hpre' g2
    have hE : procSends n ((s0, a0) :: rest) b = procSends n rest (procSend1 n s0 a0.send b).1 := by
      simp only [procSends, g1, if_true]
    rw [hE]
    refine ⟨h1, h2, fun r s => ?_⟩
    rw [h3 r s]
    by_cases hs : s = s0
    · subst hs
      have : rest.lookup s = none := lookup_none_of_not_mem_keys rest s hnd'.1
      rw [this]
      simp only [List.lookup_cons, beq_self_eq_true]
      rw [g3 r s]; simp
    · have hne : (s == s0) = false := by simpa using hs
      simp only [List.lookup_cons, hne]
      have hb1 : mget (procSend1 n s0 a0.send b).1 r s = mget b r s := by rw [g3 r s]; simp [hs]
      cases rest.lookup s with
      | some a => simp only [hb1]
      | none => exact hb1

/-- after clearing, the send loop leaves exactly "y acted and chose to send to x" -/
theorem procSends_mzero (n : Nat) (acts : List (Aid × CAct α)) (h : SendsPre n acts) (x y : Aid) :
    mget (procSends n acts (mzero n)).1 x y = sentTo acts y x := by
  rw [(procSends_spec n acts (mzero n) h (mzero_shape n)).2.2 x y]
  unfold sentTo
  cases h1 : acts.lookup y with
  | none => exact mget_mzero n x y
  | some a =>
    show (match a.send.lookup x with | some v => v | none => mget (mzero n) x y) =
      (a.send.lookup x).getD false
    obtain ⟨o, ho⟩ : ∃ o, o = a.send.lookup x := ⟨_, rfl⟩
    rw [← ho]
    cases o with
    | none => simpa using mget_mzero n x y
    | some v => simp

/-! ## one wrapper step -/

/-- the step runs through without an exception -/
structure StepPre (n : Nat) (c : CState σ) (acts : List (Aid × CAct α)) : Prop where
  started : c.started = true
  len : c.received.length = n
  recv : RecvPre n c.buffer acts
  sends : SendsPre n acts

theorem commStep_spec (S : CommIface σ α ω ι) (c : CState σ) (acts : List (Aid × CAct α))
    (h : StepPre S.n c acts) :
    (commStep S c acts).err = none ∧
    (commStep S c acts).args = some (simOnly acts) ∧
    (commStep S c acts).st.sim = S.step c.sim (simOnly acts) ∧
    (commStep S c acts).st.started = true ∧
    (commStep S c acts).st.buffer = (procSends S.n acts (mzero S.n)).1 ∧
    (commStep S c acts).st.received = (procReceives S.n c.buffer acts c.received).1 := by
  have hr := (procReceives_spec S.n c.buffer acts c.received h.recv h.len).1
  have hs := (procSends_spec S.n acts (mzero S.n) h.sends (mzero_shape S.n)).1
  unfold commStep
  simp only [h.started, hr, hs, Bool.not_true, Bool.false_eq_true, if_false, if_true]
  simp

/-- pointwise content of the two matrices after a step -/
theorem commStep_matrices (S : CommIface σ α ω ι) (c : CState σ) (acts : List (Aid × CAct α))
    (h : StepPre S.n c acts) :
    (commStep S c acts).st.received.length = S.n ∧
    (∀ x y, mget (commStep S c acts).st.buffer x y = sentTo acts y x) ∧
    (∀ x y, y < S.n → mget (commStep S c acts).st.received x y =
      match acts.lookup x with
      | some a => ((y != x) && mget c.buffer x y && (a.receive.lookup y).getD false)
      | none => mget c.received x y) := by
  obtain ⟨_, _, _, _, hb, hr⟩ := commStep_spec S c acts h
  obtain ⟨_, r2, r3⟩ := procReceives_spec S.n c.buffer acts c.received h.recv h.len
  refine ⟨by rw [hr]; exact r2, fun x y => by rw [hb]; exact procSends_mzero S.n acts h.sends x y, ?_⟩
  intro x y hy
  rw [hr]
  unfold mget
  rw [r3 x]
  cases acts.lookup x with
  | none => rfl
  | some a => exact mget_recvRow S.n c.buffer x a.receive y hy

end Abmarl
