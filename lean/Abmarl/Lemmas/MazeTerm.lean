import Abmarl.Spec.Placement
import Abmarl.Lemmas.Grid
/-!
# C13 — `generate_maze`: the frontier loop ends within its fuel

Measure: frontier length + number of unvisited (`2`) cells.  Every iteration removes the drawn
cell from the frontier, and every cell that enters the frontier stops being unvisited.
-/
namespace Abmarl
namespace Maze

def cnt2 (g : List Nat) : Nat := g.count 2

theorem mget_eq_two_lt {C : Nat} {g : List Nat} {q : Cell} (h : mget C g q = 2) :
    q.1 * C + q.2 < g.length := by
  by_cases hl : q.1 * C + q.2 < g.length
  · exact hl
  · simp only [mget, List.getD_eq_getElem?_getD, List.getElem?_eq_none (Nat.le_of_not_lt hl)] at h
    cases h

theorem cnt2_set_two {g : List Nat} {i v : Nat} (hi : i < g.length) (hg : g[i] = 2) (hv : v ≠ 2) :
    cnt2 (g.set i v) + 1 = cnt2 g := by
  unfold cnt2
  rw [List.count_set hi]
  have hpos : 0 < g.count 2 := List.count_pos_iff.mpr (hg ▸ List.getElem_mem hi)
  have h1 : (g[i] == 2) = true := by simp [hg]
  have h2 : (v == 2) = false := by simpa using hv
  simp only [h1, h2, if_true, Bool.false_eq_true, if_false]
  omega

theorem cnt2_set_le (g : List Nat) (i v : Nat) (hv : v ≠ 2) : cnt2 (g.set i v) ≤ cnt2 g := by
  by_cases hi : i < g.length
  · unfold cnt2
    rw [List.count_set hi]
    have h2 : (v == 2) = false := by simpa using hv
    simp only [h2, Bool.false_eq_true, if_false]
    omega
  · rw [List.set_eq_of_length_le (Nat.le_of_not_lt hi)]; exact Nat.le_refl _

theorem visitNbr_measure (R C : Nat) (acc : List Cell × List Nat) (q : Cell) :
    (visitNbr R C acc q).1.length + cnt2 (visitNbr R C acc q).2 = acc.1.length + cnt2 acc.2 := by
  unfold visitNbr
  split
  · rfl
  · split
    · rename_i h
      have h2 : mget C acc.2 q = 2 := by simpa using h
      have hlt := mget_eq_two_lt h2
      have hg : acc.2[q.1 * C + q.2] = 2 := by
        simp only [mget, List.getD_eq_getElem?_getD, List.getElem?_eq_getElem hlt, Option.getD_some] at h2
        exact h2
      simp only [List.length_append, List.length_singleton, mset]
      have := cnt2_set_two (v := 1) hlt hg (by decide)
      omega
    · rfl

theorem foldl_visit_measure (R C : Nat) (l : List Cell) (acc : List Cell × List Nat) :
    (l.foldl (visitNbr R C) acc).1.length + cnt2 (l.foldl (visitNbr R C) acc).2 =
      acc.1.length + cnt2 acc.2 := by
  induction l generalizing acc with
  | nil => rfl
  | cons x xs ih => rw [List.foldl_cons, ih, visitNbr_measure]

theorem unvisitedNbrs_measure (R C : Nat) (g : List Nat) (cell : Cell) :
    (unvisitedNbrs R C g cell).1.length + cnt2 (unvisitedNbrs R C g cell).2 = cnt2 g := by
  unfold unvisitedNbrs
  rw [foldl_visit_measure]; simp

theorem mem_foldl_insertNew (l acc : List Cell) (y : Cell) :
    y ∈ l.foldl insertNew acc ↔ (y ∈ acc ∨ y ∈ l) := by
  induction l generalizing acc with
  | nil => simp
  | cons x xs ih =>
    rw [List.foldl_cons, ih]
    unfold insertNew
    split
    · rename_i hx
      constructor
      · rintro (h | h)
        · exact Or.inl h
        · exact Or.inr (List.mem_cons_of_mem _ h)
      · rintro (h | h)
        · exact Or.inl h
        · rcases List.mem_cons.mp h with h | h
          · subst h; exact Or.inl hx
          · exact Or.inr h
    · constructor
      · rintro (h | h)
        · rcases List.mem_append.mp h with h | h
          · exact Or.inl h
          · exact Or.inr (List.mem_cons.mpr (Or.inl (List.mem_singleton.mp h)))
        · exact Or.inr (List.mem_cons_of_mem _ h)
      · rintro (h | h)
        · exact Or.inl (List.mem_append_left _ h)
        · rcases List.mem_cons.mp h with h | h
          · exact Or.inl (List.mem_append_right _ (List.mem_singleton.mpr h))
          · exact Or.inr h

theorem mem_dedup (l : List Cell) (y : Cell) : y ∈ dedup l ↔ y ∈ l := by
  unfold dedup; rw [mem_foldl_insertNew]; simp

theorem length_foldl_insertNew (l acc : List Cell) :
    (l.foldl insertNew acc).length ≤ acc.length + l.length := by
  induction l generalizing acc with
  | nil => simp
  | cons x xs ih =>
    rw [List.foldl_cons]
    refine Nat.le_trans (ih _) ?_
    unfold insertNew
    split
    · simp only [List.length_cons]; omega
    · simp only [List.length_append, List.length_cons, List.length_nil]; omega

theorem length_dedup (l : List Cell) : (dedup l).length ≤ l.length := by
  unfold dedup
  have := length_foldl_insertNew l []
  simpa using this

/-- one iteration strictly decreases the measure -/
theorem iter_measure (R C : Nat) (g : List Nat) (fr : List Cell) (cur : Cell) (hc : cur ∈ fr) :
    (iter R C g fr cur).2.length + cnt2 (iter R C g fr cur).1 + 1 ≤ fr.length + cnt2 g := by
  have hpos : 0 < fr.length := List.length_pos_of_mem hc
  unfold iter
  by_cases h1 : oneSided C g cur = true
  · by_cases h2 : sumFree C g cur < 2
    · simp only [h1, h2, if_true]
      have hm := unvisitedNbrs_measure R C (mset C g cur 0) cur
      have hle : cnt2 (mset C g cur 0) ≤ cnt2 g := cnt2_set_le _ _ _ (by decide)
      have hmem : cur ∈ dedup (fr ++ (unvisitedNbrs R C (mset C g cur 0) cur).1) :=
        (mem_dedup _ _).mpr (List.mem_append_left _ hc)
      have hlen := length_dedup (fr ++ (unvisitedNbrs R C (mset C g cur 0) cur).1)
      rw [List.length_erase_of_mem hmem]
      rw [List.length_append] at hlen
      have hp2 : 0 < (dedup (fr ++ (unvisitedNbrs R C (mset C g cur 0) cur).1)).length :=
        List.length_pos_of_mem hmem
      omega
    · simp only [h1, h2, if_true, if_false]
      rw [List.length_erase_of_mem hc]; omega
  · simp only [h1, Bool.false_eq_true, if_false]
    rw [List.length_erase_of_mem hc]; omega

theorem getD_mem_cons {β : Type} (x : β) (xs : List β) (i : Nat) : (x :: xs).getD i x ∈ x :: xs := by
  by_cases hi : i < (x :: xs).length
  · rw [List.getD_eq_getElem?_getD, List.getElem?_eq_getElem hi, Option.getD_some]
    exact List.getElem_mem hi
  · rw [List.getD_eq_getElem?_getD, List.getElem?_eq_none (Nat.le_of_not_lt hi)]
    exact List.mem_cons_self

/-- **the frontier loop terminates within its fuel** whenever the measure fits -/
theorem mazeLoop_isSome (R C : Nat) : ∀ (fuel : Nat) (g : List Nat) (fr : List Cell) (t : Tape),
    fr.length + cnt2 g ≤ fuel → (mazeLoop R C fuel g fr t).isSome = true := by
  intro fuel
  induction fuel with
  | zero =>
    intro g fr t h
    cases fr with
    | nil => simp [mazeLoop]
    | cons x xs => simp only [List.length_cons] at h; omega
  | succ f ih =>
    intro g fr t h
    cases fr with
    | nil => simp [mazeLoop]
    | cons x xs =>
      simp only [mazeLoop]
      apply ih
      have := iter_measure R C g (x :: xs)
        ((x :: xs).getD (Oracle.randint 0 ((x :: xs).length : Nat) t).1.toNat x) (getD_mem_cons _ _ _)
      omega

end Maze
end Abmarl
