import Abmarl.Lemmas.PlacementLoop
/-!
# C13 — each kind of placement step is sound for the specification
-/
namespace Abmarl
open World

/-- two worlds with the same static part -/
structure SameG (w w' : World) : Prop where
  rows : w'.rows = w.rows
  cols : w'.cols = w.cols
  ov   : w'.overlap = w.overlap
  cfg  : w'.cfg = w.cfg

namespace SameG
variable {w w' : World} (h : SameG w w')
include h
theorem cfgOf (a : Aid) : w'.cfgOf a = w.cfgOf a := by simp only [World.cfgOf, h.cfg]
theorem encOf (a : Aid) : w'.encOf a = w.encOf a := by simp only [World.encOf, h.cfgOf]
theorem pairOK (x y : Int) : w'.pairOK x y = w.pairOK x y := by simp only [World.pairOK, h.ov]
theorem inGrid (p : Pos) : w'.inGrid p = w.inGrid p := by simp only [World.inGrid, h.rows, h.cols]
theorem idx (p : Pos) : w'.idx p = w.idx p := by simp only [World.idx, h.cols]
theorem unravel (k : Nat) : w'.unravel k = w.unravel k := by simp only [World.unravel, h.cols]
theorem n : w'.n = w.n := by simp only [World.n, h.cfg]
theorem allCells : w'.allCells = w.allCells := by simp only [World.allCells, h.rows, h.cols]
theorem isFixed (a : Aid) : isFixed w' a = Abmarl.isFixed w a := by simp only [Abmarl.isFixed, h.cfgOf]
theorem joinOK (cells : List (List Aid)) (e : Int) (c : Nat) :
    Abmarl.joinOK w' cells e c = Abmarl.joinOK w cells e c := by
  simp only [Abmarl.joinOK, h.pairOK, h.encOf]
theorem availRule (no : Bool) (cells : List (List Aid)) (e : Int) (c : Nat) :
    Abmarl.availRule w' no cells e c = Abmarl.availRule w no cells e c := by
  simp only [Abmarl.availRule, h.joinOK]
theorem symm : SameG w' w := ⟨h.rows.symm, h.cols.symm, h.ov.symm, h.cfg.symm⟩
theorem trans {w'' : World} (h2 : SameG w' w'') : SameG w w'' :=
  ⟨h2.rows.trans h.rows, h2.cols.trans h.cols, h2.ov.trans h.ov, h2.cfg.trans h.cfg⟩
end SameG

theorem PInv.sameG {w0 : World} {no : Bool} {base : Int → List Nat} {s : PSt} (h : PInv w0 no base s) :
    SameG w0 s.w := ⟨h.rows, h.cols, h.ov, h.cfg⟩

theorem Ext.sameG {w w' : World} (h : Ext w w') : SameG w w' := ⟨h.rows, h.cols, h.ov, h.cfg⟩

theorem PInv.withTape {w0 : World} {no : Bool} {base : Int → List Nat} {s : PSt} (h : PInv w0 no base s)
    (t : Tape) : PInv w0 no base { s with t := t } :=
  ⟨h.rows, h.cols, h.ov, h.cfg, h.lenC, h.lenS, h.cellOK, h.nodup, h.pair, h.avail, h.vit⟩

theorem joinOK_query (w : World) (a : Aid) (p : Pos) :
    joinOK w w.cells (w.encOf a) (w.idx p) = w.query a p := by
  rw [query_eq]; rfl

/-! ### the facts about one reset that the step lemmas use -/

structure RCtx (kind : PKind) (o : PlaceOpts) (w0 : World) (base : Int → List Nat) (mz : List Nat)
    (start : Pos) : Prop where
  sym : w0.wOverlapSym = true
  baseNodup : ∀ e, (base e).Nodup
  baseMem : ∀ a, a < w0.n → ∀ c, c ∈ base (w0.encOf a) ↔
    (c < w0.rows * w0.cols ∧ baseOK kind o mz (w0.encOf a) c = true)
  fixedIn : ∀ a q, (w0.cfgOf a).initPos = some q → w0.inGrid q = true
  sortedB : ∀ e, kind ≠ .position → o.barrier.contains e = true → o.cluster = true →
    (base e).Pairwise (fun a b => sqDist (w0.unravel b) start ≤ sqDist (w0.unravel a) start)
  sortedF : ∀ e, kind ≠ .position → ¬ (o.barrier.contains e = true ∧ o.cluster = true) →
    o.free.contains e = true → o.scatter = true →
    (base e).Pairwise (fun a b => sqDist (w0.unravel a) start ≤ sqDist (w0.unravel b) start)
  clash : o.noOverlap = true → kind ≠ .position → (w0.cfgOf o.target).initPos = none →
    ∀ b, b ≠ o.target → isFixed w0 b = true → w0.pairOK (w0.encOf b) (w0.encOf o.target) = false

/-- every encoding of an agent has an availability list -/
def Keys (w0 : World) (s : PSt) : Prop := ∀ a, a < w0.n → ∃ l, s.av.lookup (w0.encOf a) = some l

/-- the target stands where the reset put it -/
def TPlaced (kind : PKind) (o : PlaceOpts) (start : Pos) (s : PSt) : Prop :=
  kind ≠ .position → (∃ i, o.target ∈ s.w.cells.getD i []) ∧ (s.w.stOf o.target).pos = start

/-- while agents with initial positions are placed: with no-overlap, the only agent without an
initial position that is in the grid is the target, alone -/
def SealedF (kind : PKind) (o : PlaceOpts) (w0 : World) (s : PSt) : Prop :=
  o.noOverlap = true → ∀ i a, a ∈ s.w.cells.getD i [] → (w0.cfgOf a).initPos = none →
    (kind ≠ .position ∧ a = o.target) ∧ s.w.cells.getD i [] = [a]

/-- afterwards: with no-overlap, every agent without an initial position is alone -/
def SealedV (o : PlaceOpts) (w0 : World) (s : PSt) : Prop :=
  o.noOverlap = true → ∀ i a, a ∈ s.w.cells.getD i [] → (w0.cfgOf a).initPos = none →
    s.w.cells.getD i [] = [a]

theorem lookup_map_fst {β : Type} (l l' : List (Int × β)) (h : l'.map Prod.fst = l.map Prod.fst) (k : Int) :
    (l'.lookup k).isSome = (l.lookup k).isSome := by
  induction l generalizing l' with
  | nil => cases l' with
    | nil => rfl
    | cons => simp at h
  | cons x xs ih =>
    cases l' with
    | nil => simp at h
    | cons y ys =>
      simp only [List.map_cons, List.cons.injEq] at h
      obtain ⟨h1, h2⟩ := h
      obtain ⟨xk, xv⟩ := x
      obtain ⟨yk, yv⟩ := y
      simp only at h1
      subst h1
      by_cases hk : k = yk
      · subst hk; simp
      · have : (k == yk) = false := by simpa using hk
        rw [List.lookup_cons, List.lookup_cons, this]
        exact ih ys h2

theorem Keys.of_map {w0 : World} {s s' : PSt} (h : Keys w0 s) (hm : s'.av.map Prod.fst = s.av.map Prod.fst) :
    Keys w0 s' := by
  intro a ha
  obtain ⟨l, hl⟩ := h a ha
  have := lookup_map_fst s.av s'.av hm (w0.encOf a)
  rw [hl] at this
  cases h' : s'.av.lookup (w0.encOf a) with
  | none => rw [h'] at this; cases this
  | some l' => exact ⟨l', rfl⟩

theorem stepOK_fixed {kind : PKind} {o : PlaceOpts} {w' : World} {mz : List Nat}
    {cells : List (List Aid)} {a : Aid} {q : Pos}
    (hp : (w'.stOf a).pos = q) (hinit : (w'.cfgOf a).initPos = some q) (hin : w'.inGrid q = true)
    (hjoin : joinOK w' cells (w'.encOf a) (w'.idx q) = true)
    (hun : (cells.any fun c => c.contains a) = false) :
    stepOK kind o w' mz cells a = true := by
  simp only [stepOK, hp, hinit, hin, hjoin, hun]
  simp

/-! ### agents with an initial position -/

theorem placeAt_sound {kind : PKind} {o : PlaceOpts} {w0 : World} {base : Int → List Nat} {mz : List Nat}
    {start : Pos} (hC : RCtx kind o w0 base mz start) {s : PSt} {a : Aid} {q : Pos}
    (hI : PInv w0 o.noOverlap base s) (ha : a < w0.n) (hua : Unplaced s.w a)
    (hinit : (w0.cfgOf a).initPos = some q) (hq : s.w.query a q = true) :
    ∃ s', placeAt o.noOverlap s a q = .ok s' ∧ PInv w0 o.noOverlap base s' ∧
      s'.w = placedWorld s.w a q ∧ s'.t = s.t ∧ s'.av.map Prod.fst = s.av.map Prod.fst ∧
      s.w.inGrid q = true ∧
      (∀ w', Ext s'.w w' → stepOK kind o w' mz s.w.cells a = true) := by
  have hG := hI.sameG
  have hin : s.w.inGrid q = true := by rw [hG.inGrid]; exact hC.fixedIn a q hinit
  obtain ⟨s', h1, h2, h3, h4, h5⟩ := placeAt_ok hI hC.sym hC.baseNodup ha hua hin hq
  refine ⟨s', h1, h2, h3, h4, h5, hin, ?_⟩
  intro w' hE
  have hk : s.w.idx q < s.w.cells.length := by
    rw [hI.lenC, ← hI.rows, ← hI.cols]; exact idx_lt hin
  have hast : a < s.w.st.length := by rw [hI.lenS]; exact ha
  have hG' : SameG s.w w' := by
    have := hE.sameG; rw [h3] at this; exact ⟨this.rows, this.cols, this.ov, this.cfg⟩
  have hmem : a ∈ s'.w.cells.getD (s.w.idx q) [] := by
    rw [h3]; exact (mem_cells_placed hk _ _).mpr (Or.inr ⟨rfl, rfl⟩)
  have hst : (w'.stOf a).pos = q := by
    rw [(hE.keep _ _ hmem).2, h3]
    simp only [placedWorld, stOf]
    rw [getD_set_same _ _ _ _ hast]
  apply stepOK_fixed hst
  · rw [hG'.cfgOf, hG.cfgOf]; exact hinit
  · rw [hG'.inGrid]; exact hin
  · rw [hG'.joinOK, hG'.encOf, hG'.idx, joinOK_query]; exact hq
  · exact placedIn_false hua

theorem fixed_fail_justified {kind : PKind} {o : PlaceOpts} {w0 : World} {base : Int → List Nat}
    {mz : List Nat} {start : Pos} (hC : RCtx kind o w0 base mz start) {s : PSt} {a : Aid} {q : Pos}
    (hI : PInv w0 o.noOverlap base s) (hnt : isTargetRole kind o a = false)
    (hinit : (w0.cfgOf a).initPos = some q) (hq : s.w.query a q = false) :
    placeAt o.noOverlap s a q = .error .assertion ∧
    errJustified kind o s.w mz s.w.cells a (some .assertion) = true := by
  have hG := hI.sameG
  have hin : s.w.inGrid q = true := by rw [hG.inGrid]; exact hC.fixedIn a q hinit
  refine ⟨placeAt_fail hin hq, ?_⟩
  have hinit' : (s.w.cfgOf a).initPos = some q := by rw [hG.cfgOf]; exact hinit
  simp [errJustified, hnt, hinit', hin, joinOK_query, hq]

end Abmarl

namespace Abmarl
open World

/-! ### agents without an initial position -/

theorem okCell_imp_query {w0 : World} {no : Bool} {base : Int → List Nat} {s : PSt}
    (hI : PInv w0 no base s) (hsym : w0.wOverlapSym = true) {a : Aid} {k : Nat}
    (hk : k < w0.rows * w0.cols) (hok : okCell s.w no (s.w.encOf a) k = true) :
    s.w.query a (s.w.unravel k) = true := by
  have hsym1 : s.w.wOverlapSym = true := by
    simp only [wOverlapSym, pairOK] at hsym ⊢; rw [hI.ov]; exact hsym
  have hk' : k < s.w.rows * s.w.cols := by rw [hI.rows, hI.cols]; exact hk
  rw [query_eq, List.all_eq_true]
  intro b hb
  simp only [cell, idx_unravel hk'] at hb
  simp only [okCell, List.all_eq_true, Bool.and_eq_true] at hok
  have := (hok b hb).2
  rw [ovHas_eq] at this
  exact pairOK_symm_imp hsym1 this

theorem okCell_no_empty {w : World} {e : Int} {k : Nat} (hok : okCell w true e k = true) :
    w.cells.getD k [] = [] := by
  simp only [okCell, List.all_eq_true] at hok
  cases h : w.cells.getD k [] with
  | nil => rfl
  | cons x xs =>
    have := hok x (by rw [h]; exact List.mem_cons_self)
    simp at this

theorem availRule_imp_okCell {w : World} (hsym : w.wOverlapSym = true) {no : Bool} {e : Int} {c : Nat}
    (h : availRule w no w.cells e c = true) : okCell w no e c = true := by
  cases no with
  | true =>
    simp only [availRule, if_true, List.isEmpty_iff] at h
    unfold okCell
    rw [h]; rfl
  | false =>
    simp only [availRule, Bool.false_eq_true, if_false, joinOK, List.all_eq_true] at h
    simp only [okCell, List.all_eq_true, Bool.not_false, Bool.true_and]
    intro b hb
    rw [ovHas_eq]
    exact pairOK_symm_imp hsym (h b hb)

theorem pairwise_last {R : Nat → Nat → Prop} {l : List Nat} {k c : Nat} (hl : l.Pairwise R)
    (h : l.getLast? = some k) (hc : c ∈ l) : c = k ∨ R c k := by
  obtain ⟨ys, rfl⟩ := List.getLast?_eq_some_iff.mp h
  rw [List.mem_append, List.mem_singleton] at hc
  rcases hc with hc | hc
  · right
    exact (List.pairwise_append.mp hl).2.2 c hc k (List.mem_singleton.mpr rfl)
  · left; exact hc

theorem stepOK_free {kind : PKind} {o : PlaceOpts} {w' : World} {mz : List Nat}
    {cells : List (List Aid)} {a : Aid} {p : Pos}
    (hp : (w'.stOf a).pos = p) (hinit : (w'.cfgOf a).initPos = none) (hin : w'.inGrid p = true)
    (hjoin : joinOK w' cells (w'.encOf a) (w'.idx p) = true)
    (hun : (cells.any fun c => c.contains a) = false)
    (hno : o.noOverlap = true → cells.getD (w'.idx p) [] = [])
    (hbase : baseOK kind o mz (w'.encOf a) (w'.idx p) = true)
    (hsort : kind ≠ .position → o.useLast (w'.encOf a) = true → ∀ c ∈ w'.allCells,
      baseOK kind o mz (w'.encOf a) c = true → availRule w' o.noOverlap cells (w'.encOf a) c = true →
      ((o.barrier.contains (w'.encOf a) && o.cluster) = true →
         sqDist p (w'.stOf o.target).pos ≤ sqDist (w'.unravel c) (w'.stOf o.target).pos) ∧
      (¬ (o.barrier.contains (w'.encOf a) && o.cluster) = true →
         sqDist (w'.unravel c) (w'.stOf o.target).pos ≤ sqDist p (w'.stOf o.target).pos)) :
    stepOK kind o w' mz cells a = true := by
  unfold stepOK
  simp only [hp, hinit, hin, hjoin, hun, hbase, Bool.true_and, Bool.not_false, Bool.and_true]
  rw [Bool.or_eq_true]; right
  rw [Bool.and_eq_true]
  constructor
  · cases hn : o.noOverlap with
    | false => rfl
    | true => rw [hno hn]; rfl
  · by_cases hk : (kind != PKind.position && o.useLast (w'.encOf a)) = true
    · rw [Bool.or_eq_true]; right
      have hk1 : kind ≠ .position := by
        rw [Bool.and_eq_true] at hk; simpa using hk.1
      have hk2 : o.useLast (w'.encOf a) = true := by
        rw [Bool.and_eq_true] at hk; exact hk.2
      rw [List.all_eq_true]
      intro c hc
      cases hb1 : baseOK kind o mz (w'.encOf a) c with
      | false => rfl
      | true =>
        cases hb2 : availRule w' o.noOverlap cells (w'.encOf a) c with
        | false => rfl
        | true =>
          obtain ⟨hs1, hs2⟩ := hsort hk1 hk2 c hc hb1 hb2
          simp only [Bool.and_self, Bool.not_true, Bool.false_or]
          split
          · exact decide_eq_true (hs1 ‹_›)
          · exact decide_eq_true (hs2 ‹_›)
    · rw [Bool.or_eq_true]; left
      have : (kind != PKind.position && o.useLast (w'.encOf a)) = false := by simpa using hk
      rw [this]; rfl

theorem choice1_spec (l : List Nat) (t : Tape) :
    (l = [] ∧ choice1 l t = (none, t)) ∨ (∃ k, k ∈ l ∧ choice1 l t = (some k, t.tail)) := by
  cases l with
  | nil => left; exact ⟨rfl, rfl⟩
  | cons x xs =>
    right
    refine ⟨(x :: xs).getD (t.headD 0 % (xs.length + 1)) x, ?_, ?_⟩
    · have hlt : t.headD 0 % (xs.length + 1) < (x :: xs).length := by
        simp only [List.length_cons]; exact Nat.mod_lt _ (Nat.succ_pos _)
      rw [List.getD_eq_getElem?_getD, List.getElem?_eq_getElem hlt, Option.getD_some]
      exact List.getElem_mem hlt
    · simp [choice1, Oracle.choiceRepl, Oracle.pop]

end Abmarl

namespace Abmarl
open World

/-- what holds while the agents without initial positions are placed -/
def JV (kind : PKind) (o : PlaceOpts) (w0 : World) (start : Pos) (s : PSt) : Prop :=
  Keys w0 s ∧ TPlaced kind o start s ∧ SealedV o w0 s

/-- what holds while the target and the agents with initial positions are placed -/
def JF (kind : PKind) (o : PlaceOpts) (w0 : World) (start : Pos) (s : PSt) : Prop :=
  Keys w0 s ∧ TPlaced kind o start s ∧ SealedF kind o w0 s

theorem TPlaced.placed {kind : PKind} {o : PlaceOpts} {start : Pos} {s s' : PSt} {a : Aid} {p : Pos}
    (h : TPlaced kind o start s) (hk : s.w.idx p < s.w.cells.length) (hua : Unplaced s.w a)
    (hw : s'.w = placedWorld s.w a p) : TPlaced kind o start s' := by
  intro hkind
  obtain ⟨⟨i, hi⟩, hpos⟩ := h hkind
  have hE := ext_placed (p := p) hk hua
  rw [hw]
  exact ⟨⟨i, (hE.keep i _ hi).1⟩, by rw [(hE.keep i _ hi).2]; exact hpos⟩

theorem free_place_sound {kind : PKind} {o : PlaceOpts} {w0 : World} {base : Int → List Nat} {mz : List Nat}
    {start : Pos} (hC : RCtx kind o w0 base mz start) {s : PSt} {a : Aid} {k : Nat} {l : List Nat}
    (hI : PInv w0 o.noOverlap base s) (hJ : JV kind o w0 start s) (ha : a < w0.n)
    (hua : Unplaced s.w a) (hinit : (w0.cfgOf a).initPos = none)
    (hl : s.av.lookup (w0.encOf a) = some l) (hk : k ∈ l)
    (hlast : kind ≠ .position → o.useLast (w0.encOf a) = true → l.getLast? = some k) :
    ∃ s', placeAt o.noOverlap s a (s.w.unravel k) = .ok s' ∧ PInv w0 o.noOverlap base s' ∧
      JV kind o w0 start s' ∧ s'.w = placedWorld s.w a (s.w.unravel k) ∧
      s.w.inGrid (s.w.unravel k) = true ∧
      (∀ w', Ext s'.w w' → stepOK kind o w' mz s.w.cells a = true) := by
  have hG := hI.sameG
  obtain ⟨hKeys, hTP, hSeal⟩ := hJ
  -- the list is the filtered base list
  have hlf : l = (base (w0.encOf a)).filter (okCell s.w o.noOverlap (w0.encOf a)) :=
    hI.avail _ (lookup_mem _ _ _ hl)
  have hkf := hk
  rw [hlf, List.mem_filter] at hkf
  obtain ⟨hkb, hkok⟩ := hkf
  obtain ⟨hklt, hkbase⟩ := (hC.baseMem a ha _).mp hkb
  have hklt' : k < s.w.rows * s.w.cols := by rw [hI.rows, hI.cols]; exact hklt
  have hin : s.w.inGrid (s.w.unravel k) = true := unravel_inGrid hklt'
  have hidx : s.w.idx (s.w.unravel k) = k := idx_unravel hklt'
  have hq : s.w.query a (s.w.unravel k) = true := by
    apply okCell_imp_query hI hC.sym hklt
    rw [hG.encOf]; exact hkok
  obtain ⟨s', h1, h2, h3, h4, h5⟩ := placeAt_ok hI hC.sym hC.baseNodup ha hua hin hq
  have hkl : s.w.idx (s.w.unravel k) < s.w.cells.length := by
    rw [hidx, hI.lenC]; exact hklt
  have hast : a < s.w.st.length := by rw [hI.lenS]; exact ha
  have hcellk : o.noOverlap = true → s.w.cells.getD k [] = [] := by
    intro hn; rw [hn] at hkok; exact okCell_no_empty hkok
  refine ⟨s', h1, h2, ⟨hKeys.of_map h5, hTP.placed hkl hua h3, ?_⟩, h3, hin, ?_⟩
  · -- sealed
    intro hn i b hb hbinit
    rw [h3] at hb ⊢
    by_cases hi : i = s.w.idx (s.w.unravel k)
    · subst hi
      rw [cells_placed_same _ _ _ hkl] at hb ⊢
      have hc : s.w.cell (s.w.unravel k) = [] := by
        simp only [cell, hidx]; exact hcellk hn
      rw [hc] at hb ⊢
      simp only [List.nil_append, List.mem_singleton] at hb
      rw [hb]; rfl
    · rw [cells_placed_ne _ _ _ _ hi] at hb ⊢
      exact hSeal hn i b hb hbinit
  · -- the specification's judgement
    intro w' hE
    have hEs : Ext s.w w' := by
      have := ext_placed (p := s.w.unravel k) hkl hua
      rw [← h3] at this; exact this.trans hE
    have hG' : SameG s.w w' := hEs.sameG
    have hmem : a ∈ s'.w.cells.getD (s.w.idx (s.w.unravel k)) [] := by
      rw [h3]; exact (mem_cells_placed hkl _ _).mpr (Or.inr ⟨rfl, rfl⟩)
    have hst : (w'.stOf a).pos = s.w.unravel k := by
      rw [(hE.keep _ _ hmem).2, h3]
      simp only [placedWorld, stOf]
      rw [getD_set_same _ _ _ _ hast]
    have henc : w'.encOf a = w0.encOf a := by rw [hG'.encOf, hG.encOf]
    have hidx' : w'.idx (s.w.unravel k) = k := by rw [hG'.idx]; exact hidx
    apply stepOK_free hst
    · rw [hG'.cfgOf, hG.cfgOf]; exact hinit
    · rw [hG'.inGrid]; exact hin
    · rw [hG'.joinOK, hG'.encOf, hG'.idx, joinOK_query]; exact hq
    · exact placedIn_false hua
    · intro hn; rw [hidx']; exact hcellk hn
    · rw [henc, hidx']; exact hkbase
    · intro hkind hul c hc hcb hca
      rw [henc] at hul hcb hca ⊢
      -- c is in the list
      have hclt : c < w0.rows * w0.cols := by
        rw [hG'.allCells, hG.allCells] at hc
        simpa [World.allCells] using hc
      have hcl : c ∈ l := by
        rw [hlf, List.mem_filter]
        refine ⟨(hC.baseMem a ha _).mpr ⟨hclt, hcb⟩, ?_⟩
        rw [hG'.availRule] at hca
        have hsym1 : s.w.wOverlapSym = true := by
          have := hC.sym
          simp only [wOverlapSym, pairOK] at this ⊢; rw [hI.ov]; exact this
        exact availRule_imp_okCell hsym1 hca
      -- the target's position
      obtain ⟨⟨i, hi⟩, htpos⟩ := hTP hkind
      have htp : (w'.stOf o.target).pos = start := by rw [(hEs.keep i _ hi).2]; exact htpos
      have hur : ∀ x, w'.unravel x = w0.unravel x := fun x => by rw [hG'.unravel, hG.unravel]
      have hp0 : s.w.unravel k = w0.unravel k := hG.unravel k
      rw [htp, hur, hp0]
      have hlastk := hlast hkind hul
      have hsorted : ∀ R : Nat → Nat → Prop, (base (w0.encOf a)).Pairwise R → l.Pairwise R := by
        intro R hR; rw [hlf]; exact hR.filter _
      constructor
      · intro hbc
        rw [Bool.and_eq_true] at hbc
        rcases pairwise_last (hsorted _ (hC.sortedB _ hkind hbc.1 hbc.2)) hlastk hcl with h | h
        · rw [h]; exact Int.le_refl _
        · exact h
      · intro hbc
        have hbc' : ¬ (o.barrier.contains (w0.encOf a) = true ∧ o.cluster = true) := by
          rw [Bool.and_eq_true] at hbc; exact hbc
        have hfs : o.free.contains (w0.encOf a) = true ∧ o.scatter = true := by
          simp only [PlaceOpts.useLast, Bool.or_eq_true, Bool.and_eq_true] at hul
          rcases hul with h | h
          · exact absurd h hbc'
          · exact h
        rcases pairwise_last (hsorted _ (hC.sortedF _ hkind hbc' hfs.1 hfs.2)) hlastk hcl with h | h
        · rw [h]; exact Int.le_refl _
        · exact h

/-- no list element: the `noCell` failure is justified -/
theorem free_none_justified {kind : PKind} {o : PlaceOpts} {w0 : World} {base : Int → List Nat}
    {mz : List Nat} {start : Pos} (hC : RCtx kind o w0 base mz start) {s : PSt} {a : Aid}
    (hI : PInv w0 o.noOverlap base s) (ha : a < w0.n) (hinit : (w0.cfgOf a).initPos = none)
    (hnt : isTargetRole kind o a = false)
    (hl : s.av.lookup (w0.encOf a) = some []) :
    errJustified kind o s.w mz s.w.cells a (some .noCell) = true := by
  have hG := hI.sameG
  have hlf : [] = (base (w0.encOf a)).filter (okCell s.w o.noOverlap (w0.encOf a)) :=
    hI.avail _ (lookup_mem _ _ _ hl)
  have hfix : isFixed s.w a = false := by
    simp only [isFixed, hG.cfgOf, hinit]; rfl
  simp only [errJustified, hnt, hfix, Bool.not_false, Bool.true_and, List.all_eq_true]
  intro c hc
  have hclt : c < w0.rows * w0.cols := by
    rw [hG.allCells] at hc; simpa [World.allCells] using hc
  rw [hG.encOf]
  cases hb1 : baseOK kind o mz (w0.encOf a) c with
  | false => rfl
  | true =>
    cases hb2 : availRule s.w o.noOverlap s.w.cells (w0.encOf a) c with
    | false => rfl
    | true =>
      exfalso
      have hsym1 : s.w.wOverlapSym = true := by
        have := hC.sym
        simp only [wOverlapSym, pairOK] at this ⊢; rw [hI.ov]; exact this
      have : c ∈ (base (w0.encOf a)).filter (okCell s.w o.noOverlap (w0.encOf a)) :=
        List.mem_filter.mpr ⟨(hC.baseMem a ha _).mpr ⟨hclt, hb1⟩, availRule_imp_okCell hsym1 hb2⟩
      rw [← hlf] at this
      cases this

end Abmarl

namespace Abmarl
open World

theorem isTargetRole_false_ne {kind : PKind} {o : PlaceOpts} {a : Aid}
    (h : isTargetRole kind o a = false) (hk : kind ≠ .position) : a ≠ o.target := by
  intro e
  simp only [isTargetRole, e, beq_self_eq_true, Bool.and_true, bne_eq_false_iff_eq] at h
  exact hk h

/-- `PositionState._place_variable_position_agent` (random choice) is sound -/
theorem placeVarRandom_sound {kind : PKind} {o : PlaceOpts} {w0 : World} {base : Int → List Nat}
    {mz : List Nat} {start : Pos} (hC : RCtx kind o w0 base mz start) {s : PSt} {a : Aid}
    (hI : PInv w0 o.noOverlap base s) (hJ : JV kind o w0 start s) (ha : a < w0.n)
    (hua : Unplaced s.w a) (hinit : (w0.cfgOf a).initPos = none) (hnt : isTargetRole kind o a = false)
    (hnl : kind ≠ .position → o.useLast (w0.encOf a) = false) :
    (∃ s' p, placeVarRandom o.noOverlap s a = .ok s' ∧ PInv w0 o.noOverlap base s' ∧
        JV kind o w0 start s' ∧ s'.w = placedWorld s.w a p ∧ s.w.inGrid p = true ∧
        (∀ w', Ext s'.w w' → stepOK kind o w' mz s.w.cells a = true)) ∨
    (∃ e, placeVarRandom o.noOverlap s a = .error e ∧
        errJustified kind o s.w mz s.w.cells a (some e) = true) := by
  obtain ⟨l, hl⟩ := hJ.1 a ha
  have henc : s.w.encOf a = w0.encOf a := hI.sameG.encOf a
  rcases choice1_spec l s.t with ⟨hnil, hch⟩ | ⟨k, hk, hch⟩
  · right
    refine ⟨.noCell, ?_, ?_⟩
    · simp only [placeVarRandom, henc, hl, hch]
    · subst hnil; exact free_none_justified hC hI ha hinit hnt hl
  · left
    obtain ⟨s', h1, h2, h3, h4, h5, h6⟩ :=
      free_place_sound (s := { s with t := s.t.tail }) hC (hI.withTape _) hJ ha hua hinit hl hk
        (fun hk hu => by rw [hnl hk] at hu; cases hu)
    refine ⟨s', s.w.unravel k, ?_, h2, h3, h4, h5, h6⟩
    simp only [placeVarRandom, henc, hl, hch]
    exact h1

theorem free_stepSound {kind : PKind} {o : PlaceOpts} {w0 : World} {base : Int → List Nat}
    {mz : List Nat} {start : Pos} (hC : RCtx kind o w0 base mz start) :
    StepSound kind o mz w0 o.noOverlap base (JV kind o w0 start)
      (fun a => !isTargetRole kind o a && !isFixed w0 a) (stepFree kind o) := by
  constructor
  · intro s a hI hP
    have hG := hI.sameG
    unfold stepFree
    cases ht : isTargetRole kind o a with
    | true => simp only [isTargetRole] at ht; rw [if_pos ht]
    | false =>
      simp only [isTargetRole] at ht
      rw [if_neg (by rw [ht]; simp)]
      simp only [isTargetRole, ht, Bool.not_false, Bool.true_and, Bool.not_eq_false', isFixed] at hP
      rw [hG.cfgOf]
      cases hi : (w0.cfgOf a).initPos with
      | none => rw [hi] at hP; cases hP
      | some q => rfl
  · intro s a hI hJ hP ha hua
    have hG := hI.sameG
    simp only [Bool.and_eq_true, Bool.not_eq_true', isFixed] at hP
    obtain ⟨hnt, hfix⟩ := hP
    have hinit : (w0.cfgOf a).initPos = none := by
      cases hi : (w0.cfgOf a).initPos with
      | none => rfl
      | some q => rw [hi] at hfix; cases hfix
    have hnt' : ¬ ((kind != PKind.position && a == o.target) = true) := by
      simp only [isTargetRole] at hnt; rw [hnt]; simp
    have henc : s.w.encOf a = w0.encOf a := hG.encOf a
    unfold stepFree
    rw [if_neg hnt', hG.cfgOf, hinit]
    simp only
    by_cases hkind : kind = .position
    · rw [if_pos (by simp [hkind])]
      exact placeVarRandom_sound hC hI hJ ha hua hinit hnt (fun h => absurd hkind h)
    · rw [if_neg (by simpa using hkind)]
      unfold placeVarTB
      simp only [henc]
      cases hul : o.useLast (w0.encOf a) with
      | false =>
        simp only [Bool.false_eq_true, if_false]
        exact placeVarRandom_sound hC hI hJ ha hua hinit hnt (fun _ => hul)
      | true =>
        simp only [if_true]
        obtain ⟨l, hl⟩ := hJ.1 a ha
        rw [hl]
        simp only
        cases hlast : l.getLast? with
        | none =>
          right
          refine ⟨.noCell, rfl, ?_⟩
          have : l = [] := List.getLast?_eq_none_iff.mp hlast
          subst this
          exact free_none_justified hC hI ha hinit hnt hl
        | some k =>
          left
          obtain ⟨s', h1, h2, h3, h4, h5, h6⟩ :=
            free_place_sound hC hI hJ ha hua hinit hl (List.mem_of_getLast? hlast) (fun _ _ => hlast)
          exact ⟨s', s.w.unravel k, h1, h2, h3, h4, h5, h6⟩

theorem fixed_stepSound {kind : PKind} {o : PlaceOpts} {w0 : World} {base : Int → List Nat}
    {mz : List Nat} {start : Pos} (hC : RCtx kind o w0 base mz start) :
    StepSound kind o mz w0 o.noOverlap base (JF kind o w0 start)
      (fun a => !isTargetRole kind o a && isFixed w0 a) (stepFixed kind o) := by
  constructor
  · intro s a hI hP
    have hG := hI.sameG
    unfold stepFixed
    cases ht : isTargetRole kind o a with
    | true => simp only [isTargetRole] at ht; rw [if_pos ht]
    | false =>
      simp only [isTargetRole] at ht
      rw [if_neg (by rw [ht]; simp)]
      simp only [isTargetRole, ht, Bool.not_false, Bool.true_and, isFixed] at hP
      rw [hG.cfgOf]
      cases hi : (w0.cfgOf a).initPos with
      | none => rfl
      | some q => rw [hi] at hP; cases hP
  · intro s a hI hJ hP ha hua
    have hG := hI.sameG
    obtain ⟨hKeys, hTP, hSeal⟩ := hJ
    simp only [Bool.and_eq_true, Bool.not_eq_true', isFixed] at hP
    obtain ⟨hnt, hfix⟩ := hP
    obtain ⟨q, hinit⟩ : ∃ q, (w0.cfgOf a).initPos = some q := by
      cases hi : (w0.cfgOf a).initPos with
      | none => rw [hi] at hfix; cases hfix
      | some q => exact ⟨q, rfl⟩
    have hnt' : ¬ ((kind != PKind.position && a == o.target) = true) := by
      simp only [isTargetRole] at hnt; rw [hnt]; simp
    unfold stepFixed
    rw [if_neg hnt', hG.cfgOf, hinit]
    simp only
    cases hq : s.w.query a q with
    | false =>
      right
      obtain ⟨h1, h2⟩ := fixed_fail_justified hC hI hnt hinit hq
      exact ⟨.assertion, h1, h2⟩
    | true =>
      left
      obtain ⟨s', h1, h2, h3, h4, h5, h6, h7⟩ := placeAt_sound hC hI ha hua hinit hq
      have hkl : s.w.idx q < s.w.cells.length := by
        rw [hI.lenC, ← hI.rows, ← hI.cols]; exact idx_lt h6
      refine ⟨s', q, h1, h2, ⟨hKeys.of_map h5, hTP.placed hkl hua h3, ?_⟩, h3, h6, h7⟩
      intro hn i b hb hbinit
      rw [h3] at hb ⊢
      by_cases hi : i = s.w.idx q
      · subst hi
        exfalso
        rw [cells_placed_same _ _ _ hkl, List.mem_append, List.mem_singleton] at hb
        rcases hb with hb | hb
        · obtain ⟨⟨hkind, hbt⟩, hcell⟩ := hSeal hn _ b hb hbinit
          -- the target is alone on this cell and `a` may not overlap with it
          have hqa : s.w.pairOK (s.w.encOf a) (s.w.encOf b) = true := by
            have := hq
            rw [query_eq, List.all_eq_true] at this
            exact this b hb
          subst hbt
          have := hC.clash hn hkind hbinit a (isTargetRole_false_ne hnt hkind)
            (by simp [isFixed, hinit])
          rw [hG.pairOK, hG.encOf, hG.encOf, this] at hqa
          cases hqa
        · subst hb; rw [hinit] at hbinit; cases hbinit
      · rw [cells_placed_ne _ _ _ _ hi] at hb ⊢
        exact hSeal hn i b hb hbinit

end Abmarl
