import Abmarl.Spec.Wrappers
import Abmarl.Lemmas.Ravel
/-!
# The exclusive-channel arithmetic ("skip the duplicate zero vector")

Digit level: a Dict with channel sizes `ns` (all positive); a wrapped number `k < Σ nᵢ − m + 1`
selects a channel and a value for it.  `xDigits ns k` is the list of per-channel ravelled values
(`0` everywhere except possibly one place), `xCode ns vs` the inverse.  The loops of the model
(`exclFind` + `exclArgs`, `exclSum`) are shown to compute these, and the two to be inverse of each
other on `range dims` / on digit lists with at most one non-zero entry.
-/
namespace Abmarl

def zeros (n : Nat) : List Nat := List.replicate n 0

/-- spec-level decode: the per-channel values selected by `k` -/
def xDigits : List Nat → Nat → List Nat
  | [], _ => []
  | n :: ns, k => if k < n then k :: zeros ns.length else 0 :: xDigits ns (k - n + 1)

/-- spec-level encode of a digit list -/
def xCode : List Nat → List Nat → Nat
  | n :: ns, v :: vs =>
    if v ≠ 0 then v
    else if xCode ns vs = 0 then 0 else xCode ns vs + (n - 1)
  | _, _ => 0

def allPosP (ns : List Nat) : Prop := ∀ n ∈ ns, 0 < n

theorem allPosP_cons {n : Nat} {ns : List Nat} (h : allPosP (n :: ns)) : 0 < n ∧ allPosP ns :=
  ⟨h n (by simp), fun x hx => h x (by simp [hx])⟩

theorem length_le_sum : ∀ (ns : List Nat), allPosP ns → ns.length ≤ sum ns
  | [], _ => by simp [sum]
  | n :: ns, h => by
    obtain ⟨h1, h2⟩ := allPosP_cons h
    have := length_le_sum ns h2
    simp only [List.length_cons, sum]
    omega

/-- `dims (n :: ns) = (n − 1) + dims ns` -/
theorem exclDimsL_cons (n : Nat) (ns : List Nat) (h : allPosP (n :: ns)) :
    exclDimsL (n :: ns) = (n - 1) + exclDimsL ns := by
  obtain ⟨h1, h2⟩ := allPosP_cons h
  have := length_le_sum ns h2
  simp only [exclDimsL, sum, List.length_cons]
  omega

theorem exclDimsL_pos (ns : List Nat) : 0 < exclDimsL ns := by
  simp only [exclDimsL]; omega

theorem exclDimsL_nil : exclDimsL [] = 1 := rfl

/-! ## zeros -/

theorem zeros_succ (n : Nat) : zeros (n + 1) = 0 :: zeros n := rfl

theorem inRange_zeros : ∀ (ns : List Nat), allPosP ns → inRange ns (zeros ns.length)
  | [], _ => trivial
  | n :: ns, h => by
    obtain ⟨h1, h2⟩ := allPosP_cons h
    simp only [List.length_cons, zeros_succ, inRange]
    exact ⟨h1, inRange_zeros ns h2⟩

theorem ofNats_zeros_succ (n : Nat) : ofNats (zeros (n + 1)) = 0 :: ofNats (zeros n) := rfl

theorem exclSum_zeros : ∀ (ns : List Nat) (m : Nat) (acc : Int), exclSum ns (ofNats (zeros m)) acc = 0
  | [], _, _ => by simp [exclSum]
  | _ :: _, 0, _ => by simp [exclSum, zeros, ofNats]
  | n :: ns, m + 1, acc => by
    rw [ofNats_zeros_succ, exclSum]
    simp only [ne_eq, not_true_eq_false, if_false]
    exact exclSum_zeros ns m _

theorem nonZeros_zeros : ∀ (m : Nat), nonZeros (ofNats (zeros m)) = 0
  | 0 => rfl
  | m + 1 => by
    rw [ofNats_zeros_succ]
    simp only [nonZeros, List.filter_cons, bne_self_eq_false, Bool.false_eq_true, if_false]
    exact nonZeros_zeros m

theorem nonZeros_cons (v : Int) (vs : List Int) :
    nonZeros (v :: vs) = (if v ≠ 0 then 1 else 0) + nonZeros vs := by
  by_cases h : v = 0
  · simp [nonZeros, h]
  · simp [nonZeros, h]
    omega

theorem ofNat_ne_zero {v : Nat} (h : v ≠ 0) : Int.ofNat v ≠ 0 := by
  intro e; apply h; exact Int.ofNat_eq_zero.mp e

theorem nonZeros_ofNats_cons (v : Nat) (vs : List Nat) :
    nonZeros (ofNats (v :: vs)) = (if v ≠ 0 then 1 else 0) + nonZeros (ofNats vs) := by
  rw [ofNats_cons, nonZeros_cons]
  by_cases hv : v = 0
  · subst hv; rfl
  · simp only [ne_eq, ofNat_ne_zero hv, not_false_eq_true, if_true, hv]

theorem exclSum_ofNats_cons (n : Nat) (ns : List Nat) (v : Nat) (vs : List Nat) (acc : Int) :
    exclSum (n :: ns) (ofNats (v :: vs)) acc =
      if v ≠ 0 then acc + (v : Int) else exclSum ns (ofNats vs) (acc + (n : Int) - 1) := by
  rw [ofNats_cons, exclSum]
  by_cases hv : v = 0
  · subst hv; rfl
  · simp only [ne_eq, ofNat_ne_zero hv, not_false_eq_true, if_true, hv]
    rfl

/-- a digit list without non-zero entries is all zeros -/
theorem eq_zeros_of_nonZeros : ∀ (vs : List Nat), nonZeros (ofNats vs) = 0 → vs = zeros vs.length
  | [], _ => rfl
  | v :: vs, h => by
    rw [nonZeros_ofNats_cons] at h
    by_cases hv : v = 0
    · subst hv
      simp only [List.length_cons, zeros_succ]
      congr 1
      apply eq_zeros_of_nonZeros vs
      simpa using h
    · simp only [ne_eq, hv, not_false_eq_true, if_true] at h
      omega

/-! ## the decode loops compute `xDigits` -/

theorem exclFind_ge : ∀ (ns : List Nat) (i p : Nat), i ≤ (exclFind ns i p).1
  | [], i, p => by simp [exclFind]
  | [n], i, p => by
    simp only [exclFind]
    split <;> simp
  | n :: n' :: ns, i, p => by
    rw [exclFind]
    split
    · simp
    · have := exclFind_ge (n' :: ns) (i + 1) (p - n + 1)
      omega

theorem exclArgs_zeros : ∀ (ss : List Space) (j act p : Nat), act < j →
    exclArgs ss j act p = zeros ss.length
  | [], _, _, _, _ => rfl
  | _ :: ss, j, act, p, h => by
    have hne : ¬ j = act := by omega
    simp only [exclArgs, hne, if_false, List.length_cons, zeros_succ]
    congr 1
    exact exclArgs_zeros ss (j + 1) act p (by omega)

theorem length_cardL : ∀ (ss : List Space), (cardL ss).length = ss.length
  | [] => rfl
  | _ :: ss => by simp [cardL, length_cardL ss]

/-- the model's decode loops select exactly the digits `xDigits` (for every `k` below `dims`) -/
theorem exclArgs_find : ∀ (ss : List Space) (j k : Nat), ss ≠ [] → allPosP (cardL ss) →
    k < exclDimsL (cardL ss) →
    exclArgs ss j (exclFind (cardL ss) j k).1 (exclFind (cardL ss) j k).2 = xDigits (cardL ss) k
  | [], _, _, h, _, _ => absurd rfl h
  | [s], j, k, _, hp, hk => by
    simp only [cardL] at hp hk ⊢
    have h1 := (allPosP_cons hp).1
    have hk' : k < card s := by
      simp only [exclDimsL, sum, List.length_cons, List.length_nil] at hk
      omega
    simp only [exclFind, hk', if_true, exclArgs, xDigits, List.length_nil]
    rfl
  | s :: s' :: ss, j, k, _, hp, hk => by
    simp only [cardL] at hp hk ⊢
    obtain ⟨h1, hp'⟩ := allPosP_cons hp
    rw [exclDimsL_cons _ _ hp] at hk
    by_cases hlt : k < card s
    · rw [exclFind, if_pos hlt, exclArgs, if_pos rfl, exclArgs_zeros (s' :: ss) (j + 1) j k (by omega),
        xDigits, if_pos hlt]
      simp [length_cardL]
    · rw [exclFind, if_neg hlt]
      have hge := exclFind_ge (card s' :: cardL ss) (j + 1) (k - card s + 1)
      have hne : ¬ j = (exclFind (card s' :: cardL ss) (j + 1) (k - card s + 1)).1 := by omega
      have ih := exclArgs_find (s' :: ss) (j + 1) (k - card s + 1) (by simp)
        (by simpa [cardL] using hp') (by simp only [cardL]; omega)
      simp only [cardL] at ih
      rw [exclArgs, if_neg hne, xDigits, if_neg hlt, ih]

/-! ## properties of `xDigits` -/

theorem xDigits_inRange : ∀ (ns : List Nat) (k : Nat), allPosP ns → k < exclDimsL ns →
    inRange ns (xDigits ns k)
  | [], _, _, _ => trivial
  | n :: ns, k, hp, hk => by
    obtain ⟨h1, hp'⟩ := allPosP_cons hp
    rw [exclDimsL_cons _ _ hp] at hk
    simp only [xDigits]
    split
    · rename_i hlt
      exact ⟨hlt, inRange_zeros ns hp'⟩
    · rename_i hlt
      exact ⟨h1, xDigits_inRange ns _ hp' (by omega)⟩

theorem xDigits_nonZeros : ∀ (ns : List Nat) (k : Nat), nonZeros (ofNats (xDigits ns k)) ≤ 1
  | [], _ => by simp [xDigits, nonZeros, ofNats]
  | n :: ns, k => by
    simp only [xDigits]
    split
    · rw [nonZeros_ofNats_cons, nonZeros_zeros]
      split <;> omega
    · rw [nonZeros_ofNats_cons]
      have := xDigits_nonZeros ns (k - n + 1)
      simp only [ne_eq, not_true_eq_false, if_false]
      omega

/-- the encode loop on the decoded digits gives `k` back -/
theorem exclSum_xDigits : ∀ (ns : List Nat) (k : Nat) (acc : Int), allPosP ns → k < exclDimsL ns →
    exclSum ns (ofNats (xDigits ns k)) acc = if k = 0 then 0 else acc + (k : Int)
  | [], k, acc, _, hk => by
    have : k = 0 := by simp only [exclDimsL_nil] at hk; omega
    simp [this, exclSum]
  | n :: ns, k, acc, hp, hk => by
    obtain ⟨h1, hp'⟩ := allPosP_cons hp
    rw [exclDimsL_cons _ _ hp] at hk
    simp only [xDigits]
    split
    · rename_i hlt
      rw [exclSum_ofNats_cons]
      by_cases hk0 : k = 0
      · subst hk0
        simp only [ne_eq, not_true_eq_false, if_false, if_true]
        exact exclSum_zeros ns _ _
      · simp only [ne_eq, hk0, not_false_eq_true, if_true, if_false]
    · rename_i hlt
      rw [exclSum_ofNats_cons]
      simp only [ne_eq, not_true_eq_false, if_false]
      rw [exclSum_xDigits ns (k - n + 1) _ hp' (by omega)]
      have hk0 : ¬ k = 0 := by omega
      have hk1 : ¬ (k - n + 1 = 0) := by omega
      simp only [hk0, hk1, if_false]
      omega

/-! ## properties of `xCode` -/

theorem xCode_zero_iff : ∀ (ns vs : List Nat), inRange ns vs → xCode ns vs = 0 → vs = zeros vs.length
  | [], [], _, _ => rfl
  | [], _ :: _, h, _ => by simp [inRange] at h
  | _ :: _, [], h, _ => by simp [inRange] at h
  | n :: ns, v :: vs, h, hc => by
    simp only [inRange] at h
    simp only [xCode] at hc
    by_cases hv : v = 0
    · subst hv
      simp only [ne_eq, not_true_eq_false, if_false] at hc
      have hc0 : xCode ns vs = 0 := by
        by_cases h0 : xCode ns vs = 0
        · exact h0
        · simp only [h0, if_false] at hc; omega
      simp only [List.length_cons, zeros_succ]
      congr 1
      exact xCode_zero_iff ns vs h.2 hc0
    · simp only [ne_eq, hv, not_false_eq_true, if_true] at hc

theorem xCode_zeros : ∀ (ns : List Nat) (m : Nat), xCode ns (zeros m) = 0
  | [], _ => by simp [xCode]
  | _ :: _, 0 => by simp [xCode, zeros]
  | n :: ns, m + 1 => by
    rw [zeros_succ, xCode]
    simp [xCode_zeros ns m]

theorem xCode_lt : ∀ (ns vs : List Nat), allPosP ns → inRange ns vs → xCode ns vs < exclDimsL ns
  | [], [], _, _ => by simp [xCode, exclDimsL_nil]
  | [], _ :: _, _, h => by simp [inRange] at h
  | _ :: _, [], _, h => by simp [inRange] at h
  | n :: ns, v :: vs, hp, h => by
    obtain ⟨h1, hp'⟩ := allPosP_cons hp
    simp only [inRange] at h
    have ih := xCode_lt ns vs hp' h.2
    have hpos := exclDimsL_pos ns
    rw [exclDimsL_cons _ _ hp]
    simp only [xCode]
    split
    · omega
    · split <;> omega

/-- the encode loop computes `xCode` -/
theorem exclSum_xCode : ∀ (ns vs : List Nat) (acc : Int), inRange ns vs →
    exclSum ns (ofNats vs) acc = if xCode ns vs = 0 then 0 else acc + (xCode ns vs : Int)
  | [], [], _, _ => by simp [exclSum, xCode]
  | [], _ :: _, _, h => by simp [inRange] at h
  | _ :: _, [], _, h => by simp [inRange] at h
  | n :: ns, v :: vs, acc, h => by
    simp only [inRange] at h
    rw [exclSum_ofNats_cons, xCode]
    by_cases hv : v = 0
    · subst hv
      simp only [ne_eq, not_true_eq_false, if_false]
      rw [exclSum_xCode ns vs _ h.2]
      by_cases hc : xCode ns vs = 0
      · simp [hc]
      · have h2 : ¬ (xCode ns vs + (n - 1) = 0) := by omega
        simp only [hc, if_false, h2]
        omega
    · simp only [ne_eq, hv, not_false_eq_true, if_true, if_false]

/-- decoding the code of a digit list with at most one non-zero entry gives the list back -/
theorem xDigits_xCode : ∀ (ns vs : List Nat), allPosP ns → inRange ns vs →
    nonZeros (ofNats vs) ≤ 1 → xDigits ns (xCode ns vs) = vs
  | [], [], _, _, _ => rfl
  | [], _ :: _, _, h, _ => by simp [inRange] at h
  | _ :: _, [], _, h, _ => by simp [inRange] at h
  | n :: ns, v :: vs, hp, h, hz => by
    obtain ⟨h1, hp'⟩ := allPosP_cons hp
    simp only [inRange] at h
    have hlen := inRange_length ns vs h.2
    rw [nonZeros_ofNats_cons] at hz
    simp only [xCode]
    by_cases hv : v = 0
    · subst hv
      simp only [ne_eq, not_true_eq_false, if_false]
      by_cases hc : xCode ns vs = 0
      · simp only [hc, if_true, xDigits, h1]
        congr 1
        rw [← hlen]
        exact (xCode_zero_iff ns vs h.2 hc).symm
      · have hnl : ¬ (xCode ns vs + (n - 1) < n) := by omega
        simp only [hc, if_false, xDigits, hnl]
        congr 1
        have : xCode ns vs + (n - 1) - n + 1 = xCode ns vs := by omega
        rw [this]
        apply xDigits_xCode ns vs hp' h.2
        simp only [ne_eq, not_true_eq_false, if_false] at hz
        omega
    · simp only [ne_eq, hv, not_false_eq_true, if_true] at hz
      have hz0 : nonZeros (ofNats vs) = 0 := by omega
      simp only [ne_eq, hv, not_false_eq_true, if_true, xDigits, h.1]
      congr 1
      rw [← hlen]
      exact (eq_zeros_of_nonZeros vs hz0).symm

/-- encoding the decoded digits gives `k` back -/
theorem xCode_xDigits (ns : List Nat) (k : Nat) (hp : allPosP ns) (hk : k < exclDimsL ns) :
    xCode ns (xDigits ns k) = k := by
  have h1 := exclSum_xDigits ns k 0 hp hk
  have h2 := exclSum_xCode ns (xDigits ns k) 0 (xDigits_inRange ns k hp hk)
  rw [h1] at h2
  by_cases hk0 : k = 0
  · subst hk0
    simp only [if_true] at h2
    by_cases hc : xCode ns (xDigits ns 0) = 0
    · exact hc
    · simp only [hc, if_false] at h2
      omega
  · simp only [hk0, if_false] at h2
    by_cases hc : xCode ns (xDigits ns k) = 0
    · simp only [hc, if_true] at h2
      omega
    · simp only [hc, if_false] at h2
      omega

/-! ## channels of a well-formed Dict -/

theorem exclChannels_wfL : ∀ (ss : List Space), wfL ss = true → exclChannels ss = some (cardL ss)
  | [], _ => rfl
  | s :: ss, h => by
    simp only [wfL, Bool.and_eq_true] at h
    have hc := card_pos s h.1
    simp only [exclChannels, ravelSpace, hc, if_true, exclChannels_wfL ss h.2, cardL]

theorem allPosP_cardL (ss : List Space) (h : wfL ss = true) : allPosP (cardL ss) :=
  cardL_pos ss h

end Abmarl
