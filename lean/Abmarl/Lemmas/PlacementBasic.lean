import Abmarl.Spec.Placement
import Abmarl.Lemmas.Grid
import Abmarl.Lemmas.Managers
/-!
# C13 — basic facts: the overlap table, ravelling, the cell table under `place`
-/
namespace Abmarl
namespace World

theorem lookup_mem {β : Type} (l : List (Int × β)) (k : Int) (v : β) (h : l.lookup k = some v) :
    (k, v) ∈ l := by
  induction l with
  | nil => simp at h
  | cons x xs ih =>
    obtain ⟨k', v'⟩ := x
    by_cases hk : k = k'
    · subst hk
      simp only [List.lookup_cons_self, Option.some.injEq] at h
      subst h; exact List.mem_cons_self
    · have : (k == k') = false := by simpa using hk
      rw [List.lookup_cons, this] at h
      exact List.mem_cons_of_mem _ (ih h)

theorem ovHas_eq (w : World) (a b : Int) : w.ovHas a b = w.pairOK a b := rfl

/-- a symmetric table answers the same from both rows (C19 closes the table at construction) -/
theorem pairOK_symm_imp {w : World} (hs : w.wOverlapSym = true) {a b : Int}
    (h : w.pairOK a b = true) : w.pairOK b a = true := by
  unfold pairOK at h
  cases hl : w.overlap.lookup a with
  | none => rw [hl] at h; cases h
  | some s =>
    rw [hl] at h
    simp only [decide_eq_true_eq] at h
    have hm := lookup_mem _ _ _ hl
    simp only [wOverlapSym, List.all_eq_true] at hs
    exact hs _ hm _ h

theorem pairOK_symm {w : World} (hs : w.wOverlapSym = true) (a b : Int) :
    w.pairOK a b = w.pairOK b a := by
  cases h1 : w.pairOK a b with
  | true => exact (pairOK_symm_imp hs h1).symm
  | false =>
    cases h2 : w.pairOK b a with
    | false => rfl
    | true => rw [pairOK_symm_imp hs h2] at h1; cases h1

/-! ### ravelled cell numbers -/

theorem unravel_inGrid {w : World} {k : Nat} (hk : k < w.rows * w.cols) : w.inGrid (w.unravel k) = true := by
  have hc : 0 < w.cols := by
    rcases Nat.eq_zero_or_pos w.cols with h | h
    · rw [h] at hk; simp at hk
    · exact h
  have h1 : k / w.cols < w.rows := by
    rw [Nat.div_lt_iff_lt_mul hc]; exact hk
  have h2 : k % w.cols < w.cols := Nat.mod_lt _ hc
  simp only [inGrid, unravel, Bool.and_eq_true]
  refine ⟨⟨⟨decide_eq_true (Int.natCast_nonneg _), decide_eq_true ?_⟩,
    decide_eq_true (Int.natCast_nonneg _)⟩, decide_eq_true ?_⟩
  · exact_mod_cast h1
  · exact_mod_cast h2

theorem idx_unravel {w : World} {k : Nat} (_hk : k < w.rows * w.cols) : w.idx (w.unravel k) = k := by
  simp only [idx, unravel, Int.toNat_natCast]
  exact Nat.div_add_mod' k w.cols

theorem unravel_idx {w : World} {p : Pos} (h : w.inGrid p = true) : w.unravel (w.idx p) = p := by
  simp only [inGrid, Bool.and_eq_true, decide_eq_true_eq] at h
  obtain ⟨⟨⟨h1, h2⟩, h3⟩, h4⟩ := h
  have hc : p.2.toNat < w.cols := by omega
  simp only [unravel, idx]
  have e1 : (p.1.toNat * w.cols + p.2.toNat) / w.cols = p.1.toNat := by
    rw [Nat.mul_comm, Nat.mul_add_div (by omega), Nat.div_eq_of_lt hc]; simp
  have e2 : (p.1.toNat * w.cols + p.2.toNat) % w.cols = p.2.toNat := by
    rw [Nat.mul_comm, Nat.mul_add_mod, Nat.mod_eq_of_lt hc]
  rw [e1, e2]
  apply Prod.ext <;> simp <;> omega

end World
end Abmarl
