import Abmarl.Props.C03
import Abmarl.Lemmas.C02
import Abmarl.Model.Examples
/-!
# One `step` of a packaged example is a history of component calls on one tape

For each of the five modelled classes: if `step` returns, the world and the rest of the tape it
leaves are those of `runGOpsSeq` over the explicit list `stepOps cfg acts` of moves and attacks, and
the invariant (`SFrame` with the constructed world, `WInv`, and — for the three classes whose `step`
has no `if agent.active:` — "nobody is dead") is kept.
-/
namespace Abmarl
open World
namespace Ex

theorem map_ok {α β : Type} {f : α → β} {e : Except GErr α} {y : β} (h : e.map f = .ok y) :
    ∃ x, e = .ok x ∧ f x = y := by
  cases e with
  | error e => cases h
  | ok x => exact ⟨x, rfl, by simpa [Except.map] using h⟩

theorem runGOp_of_seq {w w' : World} {t t' : Tape} {op : GOp} (h : runGOpSeq w t op = .ok (w', t')) :
    runGOp w t op = .ok w' := by
  cases op with
  | move c =>
    simp only [runGOpSeq] at h
    simp only [runGOp]
    split at h
    · rename_i hg
      rw [if_pos hg]
      obtain ⟨o, ho, he⟩ := map_ok h
      rw [ho]
      simp only [Prod.mk.injEq] at he
      simp [Except.map, he.1]
    · rename_i hg
      rw [if_neg hg]
      simp only [Except.ok.injEq, Prod.mk.injEq] at h
      rw [h.1]
  | attack cfg a act =>
    simp only [runGOpSeq] at h
    simp only [runGOp]
    split at h
    · rename_i hg
      rw [if_pos hg]
      obtain ⟨o, ho, he⟩ := map_ok h
      rw [ho]
      simp only [Prod.mk.injEq] at he
      simp [Except.map, he.1]
    · rename_i hg
      rw [if_neg hg]
      simp only [Except.ok.injEq, Prod.mk.injEq] at h
      rw [h.1]
  | reset cs =>
    simp only [runGOpSeq] at h
    simp [runGOp, h, Except.map]

theorem runGOpsSeq_append (xs ys : List GOp) :
    ∀ (w : World) (t : Tape), runGOpsSeq w t (xs ++ ys) =
      (match runGOpsSeq w t xs with
       | .error e => .error e
       | .ok (w', t') => runGOpsSeq w' t' ys) := by
  induction xs with
  | nil => intro w t; simp [runGOpsSeq]
  | cons op rest ih =>
    intro w t
    simp only [List.cons_append, runGOpsSeq]
    cases h : runGOpSeq w t op with
    | error e => rfl
    | ok r => obtain ⟨w1, t1⟩ := r; exact ih w1 t1

/-- a loop each pass of which is one component call -/
theorem foldE_hist {β : Type} (f : PS → β → Except GErr PS) (g : β → GOp) (P : World → Prop) (Q : β → Prop)
    (hstep : ∀ (p : PS) (x : β) (p' : PS), P p.w → Q x → f p x = .ok p' →
      runGOpSeq p.w p.t (g x) = .ok (p'.w, p'.t) ∧ P p'.w) :
    ∀ (l : List β) (p p' : PS), P p.w → (∀ x ∈ l, Q x) → foldE f p l = .ok p' →
      runGOpsSeq p.w p.t (l.map g) = .ok (p'.w, p'.t) ∧ P p'.w := by
  intro l
  induction l with
  | nil =>
    intro p p' hP _ h
    simp only [foldE, Except.ok.injEq] at h
    subst h
    exact ⟨rfl, hP⟩
  | cons x xs ih =>
    intro p p' hP hQ h
    simp only [foldE] at h
    cases h1 : f p x with
    | error e => rw [h1] at h; cases h
    | ok p1 =>
      rw [h1] at h
      obtain ⟨hr, hP1⟩ := hstep p x p1 hP (hQ x List.mem_cons_self) h1
      obtain ⟨hr2, hP2⟩ := ih p1 p' hP1 (fun y hy => hQ y (List.mem_cons_of_mem _ hy)) h
      refine ⟨?_, hP2⟩
      simp only [List.map_cons, runGOpsSeq, hr]
      exact hr2

/-- a loop that only writes the ledger -/
theorem foldE_frame {β : Type} (f : PS → β → Except GErr PS)
    (hstep : ∀ (p : PS) (x : β) (p' : PS), f p x = .ok p' → p'.w = p.w ∧ p'.t = p.t) :
    ∀ (l : List β) (p p' : PS), foldE f p l = .ok p' → p'.w = p.w ∧ p'.t = p.t := by
  intro l
  induction l with
  | nil =>
    intro p p' h
    simp only [foldE, Except.ok.injEq] at h
    subst h; exact ⟨rfl, rfl⟩
  | cons x xs ih =>
    intro p p' h
    simp only [foldE] at h
    cases h1 : f p x with
    | error e => rw [h1] at h; cases h
    | ok p1 =>
      rw [h1] at h
      obtain ⟨a1, a2⟩ := hstep p x p1 h1
      obtain ⟨b1, b2⟩ := ih p1 p' h
      exact ⟨b1.trans a1, b2.trans a2⟩

/-! ## the invariants -/

/-- what every world of a modelled example satisfies: the static part is the constructed one, and the
C03 invariant holds -/
structure XInv (w0 w : World) : Prop where
  frame : SFrame w0 w
  inv : w.WInv = true

/-- … and, for the classes without a component that can kill, nobody is dead -/
structure XInvA (w0 w : World) : Prop extends XInv w0 w where
  alive : HealthC w

theorem inSpace_move_sframe {w0 w : World} (hF : SFrame w0 w) (a : Aid) (d : Pos) :
    (MoveCall.move a d).inSpace w = (MoveCall.move a d).inSpace w0 := by
  simp only [MoveCall.inSpace, sframe_cfgOf hF]

/-- one GOp from a world of the invariant -/
theorem xinv_step {w0 w w' : World} {t t' : Tape} {op : GOp} (hcfg : CfgOK w0) (hX : XInv w0 w)
    (hop : ∀ cs, op ≠ .reset cs) (h : runGOpSeq w t op = .ok (w', t')) : XInv w0 w' := by
  obtain ⟨hF, hI⟩ := runGOp_step hcfg (fun cs hc => absurd hc (hop cs)) hX.frame hX.inv (runGOp_of_seq h)
  exact ⟨hF, hI⟩

/-! ## the passes of the loops -/

theorem accrue_map_ok {r : Ledger} {a : Aid} {v : Int} {w : World} {t : Tape} {p' : PS}
    (h : (accrue r a v).map (fun r' => (⟨w, r', t⟩ : PS)) = .ok p') : p'.w = w ∧ p'.t = t := by
  obtain ⟨r', _, he⟩ := map_ok h
  subst he; exact ⟨rfl, rfl⟩

theorem attack1_shape {cfg : Cfg} {p p' : PS} {x : Aid × Act} (h : attack1 cfg p x = .ok p') :
    runGOpSeq p.w p.t (.attack cfg.attack x.1 x.2.attack) = .ok (p'.w, p'.t) := by
  unfold attack1 at h
  split at h
  · cases h
  · rename_i hn
    have hlt : x.1 < p.w.n := Nat.lt_of_not_le hn
    split at h
    · rename_i hact
      have hg : (decide (x.1 < p.w.n) && (p.w.stOf x.1).active) = true := by simp [hlt, hact]
      simp only [runGOpSeq, hg, if_true]
      split at h
      · cases h
      · rename_i status H w' t' hp
        rw [hp]
        have hw : p'.w = w' ∧ p'.t = t' := by
          split at h
          · split at h
            · exact accrue_map_ok h
            · obtain ⟨r', _, he⟩ := map_ok h
              subst he; exact ⟨rfl, rfl⟩
          · simp only [Except.ok.injEq] at h
            subst h; exact ⟨rfl, rfl⟩
        simp [Except.map, hw.1, hw.2]
    · rename_i hact
      have hg : ¬ (decide (x.1 < p.w.n) && (p.w.stOf x.1).active) = true := by simp [hact]
      simp only [runGOpSeq, hg]
      simp only [Except.ok.injEq] at h
      subst h; rfl

theorem moveAcc_shape {p p' : PS} {a : Aid} {d : Pos} (h : moveAcc p a d = .ok p') :
    ∃ res, p.w.moveAct a d = .ok (res, p'.w) ∧ p'.t = p.t := by
  unfold moveAcc at h
  split at h
  · cases h
  · rename_i res w' hm
    split at h
    · simp only [Except.ok.injEq] at h
      subst h; exact ⟨res, hm, rfl⟩
    · obtain ⟨hw, ht⟩ := accrue_map_ok h
      exact ⟨res, by rw [hw]; exact hm, ht⟩

theorem moveAcc_hist {p p' : PS} {a : Aid} {d : Pos} (ha : a < p.w.n) (hact : (p.w.stOf a).active = true)
    (hsp : (MoveCall.move a d).inSpace p.w = true) (h : moveAcc p a d = .ok p') :
    runGOpSeq p.w p.t (.move (.move a d)) = .ok (p'.w, p'.t) := by
  obtain ⟨res, hm, ht⟩ := moveAcc_shape h
  have hg : (decide ((MoveCall.move a d).agent < p.w.n) && (p.w.stOf (MoveCall.move a d).agent).active &&
      (MoveCall.move a d).inSpace p.w) = true := by
    simp [MoveCall.agent, ha, hact, hsp]
  simp only [runGOpSeq, hg, if_true, runMoveCall, hm, Except.map, ht]

theorem moveGuarded1_shape {p p' : PS} {x : Aid × Act}
    (hsp : p.w.n ≤ x.1 ∨ (MoveCall.move x.1 x.2.move).inSpace p.w = true) (h : moveGuarded1 p x = .ok p') :
    runGOpSeq p.w p.t (.move (.move x.1 x.2.move)) = .ok (p'.w, p'.t) := by
  unfold moveGuarded1 at h
  split at h
  · cases h
  · rename_i hn
    have hlt : x.1 < p.w.n := Nat.lt_of_not_le hn
    have hsp' := hsp.resolve_left hn
    split at h
    · rename_i hact
      exact moveAcc_hist hlt hact hsp' h
    · rename_i hact
      have hg : ¬ (decide ((MoveCall.move x.1 x.2.move).agent < p.w.n) &&
          (p.w.stOf (MoveCall.move x.1 x.2.move).agent).active &&
          (MoveCall.move x.1 x.2.move).inSpace p.w) = true := by
        simp [MoveCall.agent, hact]
      simp only [runGOpSeq, hg]
      simp only [Except.ok.injEq] at h
      subst h; rfl

theorem entropy1_frame (p : PS) (x : Aid × Act) (p' : PS) (h : entropy1 p x = .ok p') :
    p'.w = p.w ∧ p'.t = p.t := accrue_map_ok h

/-! ## `TeamBattleSim.step`, `PredatorPreyResourcesSim.step` -/

/-- the actions are points of the declared `move` spaces (as seen from the constructed world) -/
def MovesInSpace (w0 : World) (acts : List (Aid × Act)) : Prop :=
  ∀ x ∈ acts, (MoveCall.move x.1 x.2.move).inSpace w0 = true

theorem stepBattle_hist {cfg : Cfg} {w0 : World} (hcfg : CfgOK w0) {p p' : PS} {acts : List (Aid × Act)}
    (hX : XInv w0 p.w) (hsp : MovesInSpace w0 acts) (h : stepBattle cfg p acts = .ok p') :
    runGOpsSeq p.w p.t
      (acts.map (fun x => GOp.attack cfg.attack x.1 x.2.attack) ++
       acts.map (fun x => GOp.move (.move x.1 x.2.move))) = .ok (p'.w, p'.t) ∧ XInv w0 p'.w := by
  unfold stepBattle at h
  cases h1 : foldE (attack1 cfg) p acts with
  | error e => rw [h1] at h; cases h
  | ok p1 =>
    rw [h1] at h
    simp only at h
    cases h2 : foldE moveGuarded1 p1 acts with
    | error e => rw [h2] at h; cases h
    | ok p2 =>
      rw [h2] at h
      simp only at h
      obtain ⟨r1, hX1⟩ := foldE_hist (attack1 cfg) (fun x => GOp.attack cfg.attack x.1 x.2.attack)
        (XInv w0) (fun _ => True)
        (fun q x q' hq _ hs => ⟨attack1_shape hs, xinv_step hcfg hq (fun cs hc => by cases hc) (attack1_shape hs)⟩)
        acts p p1 hX (fun _ _ => trivial) h1
      obtain ⟨r2, hX2⟩ := foldE_hist moveGuarded1 (fun x => GOp.move (.move x.1 x.2.move))
        (XInv w0) (fun x => (MoveCall.move x.1 x.2.move).inSpace w0 = true)
        (fun q x q' hq hx hs => by
          have hs' := moveGuarded1_shape (Or.inr (by rw [inSpace_move_sframe hq.frame]; exact hx)) hs
          exact ⟨hs', xinv_step hcfg hq (fun cs hc => by cases hc) hs'⟩)
        acts p1 p2 hX1 hsp h2
      obtain ⟨e1, e2⟩ := foldE_frame entropy1 entropy1_frame acts p2 p' h
      rw [runGOpsSeq_append, r1]
      simp only
      rw [r2, e1, e2]
      exact ⟨rfl, hX2⟩

/-! ## the classes whose `step` has no `if agent.active:` -/

/-- a move keeps everybody's vitals -/
theorem move_keeps_alive {w : World} {a : Aid} {d : Pos} {o : MoveOut} (hI : w.WInv = true) (ha : a < w.n)
    (hact : (w.stOf a).active = true) (hsp : (MoveCall.move a d).inSpace w = true)
    (hm : runMoveCall w (.move a d) = .ok o) (hH : HealthC w) : HealthC o.post := by
  have h12 := C12_moves w (.move a d) hI ha hact hsp
  rw [hm] at h12
  have hS := move_sframe h12
  have hn : o.post.n = w.n := by simp [World.n, hS.cfg]
  simp only [specC12] at h12
  split at h12
  · split at h12
    · rename_i ok hret
      obtain ⟨_, _, hyes, hno⟩ := specMoveBy_reading h12
      by_cases hc : ok = true ∧ ((w.stOf a).pos.1 + d.1, (w.stOf a).pos.2 + d.2) ≠ (w.stOf a).pos
      · obtain ⟨hst, hoth, _⟩ := hyes hc
        intro b hb
        rw [hn] at hb
        by_cases hba : b = a
        · subst hba; rw [hst]; exact hH b hb
        · rw [hoth b hb hba]; exact hH b hb
      · rw [hno hc]; exact hH
    · cases h12
  · simp only [Bool.and_eq_true, beq_iff_eq] at h12
    rw [h12.2]; exact hH

theorem xinvA_move {w0 : World} (hcfg : CfgOK w0) {p p' : PS} {a : Aid} {d : Pos} (hX : XInvA w0 p.w)
    (ha : a < w0.n) (hsp : (MoveCall.move a d).inSpace w0 = true) (h : moveAcc p a d = .ok p') :
    runGOpSeq p.w p.t (.move (.move a d)) = .ok (p'.w, p'.t) ∧ XInvA w0 p'.w := by
  have ha' : a < p.w.n := by rw [sframe_n hX.frame]; exact ha
  have hact : (p.w.stOf a).active = true := (hX.alive a ha').2.2
  have hsp' : (MoveCall.move a d).inSpace p.w = true := by rw [inSpace_move_sframe hX.frame]; exact hsp
  have hs := moveAcc_hist ha' hact hsp' h
  refine ⟨hs, ⟨xinv_step hcfg hX.toXInv (fun cs hc => by cases hc) hs, ?_⟩⟩
  obtain ⟨res, hm, _⟩ := moveAcc_shape h
  have hrun : runMoveCall p.w (.move a d) = .ok ⟨res, p'.w, 0⟩ := by simp [runMoveCall, hm, Except.map]
  exact move_keeps_alive hX.inv ha' hact hsp' hrun hX.alive

/-- the acting agents exist and their moves are points of the declared `move` spaces -/
def MovesOK (w0 : World) (acts : List (Aid × Act)) : Prop :=
  ∀ x ∈ acts, x.1 < w0.n ∧ (MoveCall.move x.1 x.2.move).inSpace w0 = true

theorem multi1_hist {cfg : Cfg} {w0 : World} (hcfg : CfgOK w0) (p : PS) (x : Aid × Act) (p' : PS)
    (hX : XInvA w0 p.w) (hx : x.1 < w0.n ∧ (MoveCall.move x.1 x.2.move).inSpace w0 = true)
    (h : multi1 cfg p x = .ok p') :
    runGOpSeq p.w p.t (.move (.move x.1 x.2.move)) = .ok (p'.w, p'.t) ∧ XInvA w0 p'.w := by
  unfold multi1 at h
  split at h
  · cases h
  · split at h
    · cases h
    · rename_i p1 hm
      split at h
      · cases h
      · split at h
        · cases h
        · obtain ⟨hw, ht⟩ := accrue_map_ok h
          rw [hw, ht]
          exact xinvA_move hcfg hX hx.1 hx.2 hm

theorem traffic1_hist {cfg : Cfg} {w0 : World} (hcfg : CfgOK w0) (p : PS) (x : Aid × Act) (p' : PS)
    (hX : XInvA w0 p.w) (hx : x.1 < w0.n ∧ (MoveCall.move x.1 x.2.move).inSpace w0 = true)
    (h : traffic1 cfg p x = .ok p') :
    runGOpSeq p.w p.t (.move (.move x.1 x.2.move)) = .ok (p'.w, p'.t) ∧ XInvA w0 p'.w := by
  unfold traffic1 at h
  split at h
  · cases h
  · split at h
    · cases h
    · rename_i p1 hm
      have hp1 := xinvA_move hcfg hX hx.1 hx.2 hm
      split at h
      · cases h
      · obtain ⟨hw, ht⟩ := accrue_map_ok h
        rw [hw, ht]; exact hp1
      · simp only [Except.ok.injEq] at h
        subst h; exact hp1

theorem stepMaze_hist {cfg : Cfg} {w0 : World} (hcfg : CfgOK w0) {p p' : PS} {acts : List (Aid × Act)}
    (hX : XInvA w0 p.w) (hnav : cfg.navigator < w0.n)
    (hsp : ∀ act, acts.lookup cfg.navigator = some act → (MoveCall.move cfg.navigator act.move).inSpace w0 = true)
    (h : stepMaze cfg p acts = .ok p') :
    ∃ act, acts.lookup cfg.navigator = some act ∧
      runGOpsSeq p.w p.t [GOp.move (.move cfg.navigator act.move)] = .ok (p'.w, p'.t) ∧ XInvA w0 p'.w := by
  unfold stepMaze at h
  split at h
  · cases h
  · rename_i act hl
    split at h
    · cases h
    · rename_i p1 hm
      obtain ⟨hs, hX1⟩ := xinvA_move hcfg hX hnav (hsp act hl) hm
      split at h
      · cases h
      · obtain ⟨hw, ht⟩ := accrue_map_ok h
        refine ⟨act, hl, ?_, by rw [hw]; exact hX1⟩
        simp only [runGOpsSeq, hs, hw, ht]

/-! ## every class -/

/-- the hypotheses on the action dict of one `step`, as seen from the constructed world -/
def ActsOK (cfg : Cfg) (w0 : World) (acts : List (Aid × Act)) : Prop :=
  match cfg.which with
  | .teamBattle | .predatorPrey => MovesInSpace w0 acts
  | .mazeNav => cfg.navigator < w0.n ∧
      ∀ act, acts.lookup cfg.navigator = some act → (MoveCall.move cfg.navigator act.move).inSpace w0 = true
  | .multiMaze | .traffic => MovesOK w0 acts

/-- the invariant of the class: the three classes without `if agent.active:` also keep everybody alive -/
def Inv (cfg : Cfg) (w0 w : World) : Prop :=
  match cfg.which with
  | .teamBattle | .predatorPrey => XInv w0 w
  | _ => XInvA w0 w

theorem Inv.xinv {cfg : Cfg} {w0 w : World} (h : Inv cfg w0 w) : XInv w0 w := by
  unfold Inv at h
  cases hc : cfg.which <;> rw [hc] at h <;> first | exact h | exact h.toXInv

/-- **one `step` is a history**: if `step` returns, its world and the rest of its tape are those of the
component calls `stepOps cfg acts` run one after the other on the one tape, and the invariant is kept -/
theorem stepPS_hist {cfg : Cfg} {w0 : World} (hcfg : CfgOK w0) {p p' : PS} {acts : List (Aid × Act)}
    (hX : Inv cfg w0 p.w) (hA : ActsOK cfg w0 acts) (h : stepPS cfg p acts = .ok p') :
    runGOpsSeq p.w p.t (stepOps cfg acts) = .ok (p'.w, p'.t) ∧ Inv cfg w0 p'.w := by
  unfold stepPS at h
  unfold Inv at hX ⊢
  unfold ActsOK at hA
  unfold stepOps
  cases hc : cfg.which <;> rw [hc] at h hX hA <;> simp only at h hX hA ⊢
  · exact stepBattle_hist hcfg hX hA h
  · exact stepBattle_hist hcfg hX hA h
  · obtain ⟨act, hl, hr, hX'⟩ := stepMaze_hist hcfg hX hA.1 hA.2 h
    rw [hl]; exact ⟨hr, hX'⟩
  · exact foldE_hist (multi1 cfg) (fun x => GOp.move (.move x.1 x.2.move)) (XInvA w0)
      (fun x => x.1 < w0.n ∧ (MoveCall.move x.1 x.2.move).inSpace w0 = true)
      (multi1_hist hcfg) acts p p' hX hA h
  · exact foldE_hist (traffic1 cfg) (fun x => GOp.move (.move x.1 x.2.move)) (XInvA w0)
      (fun x => x.1 < w0.n ∧ (MoveCall.move x.1 x.2.move).inSpace w0 = true)
      (traffic1_hist hcfg) acts p p' hX hA h

end Ex
end Abmarl
