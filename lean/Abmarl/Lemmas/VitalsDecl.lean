import Abmarl.Lemmas.Vitals
/-!
# Declared initial values are restored exactly (used by C08)
-/
namespace Abmarl
namespace World

/-- a declared initial health is written back exactly (it lies in (0,1], so the clamp is the identity) -/
theorem healthResetFrom_declared (l : List Aid) :
    ∀ (w : World) (t : Tape), l.Nodup → CfgOK w → ∀ b ∈ l, b < w.st.length → ∀ h0,
      (w.cfgOf b).initHealth = some h0 → ((healthResetFrom false l w t).1.stOf b).health = h0 := by
  induction l with
  | nil => intro w t _ _ b hb; cases hb
  | cons a as ih =>
    intro w t hnd hc b hb hbl h0 hi
    have hnd' := List.nodup_cons.mp hnd
    obtain ⟨h, t1, hEq, hh, hdecl⟩ : ∃ (h : Rat) (t1 : Tape),
        healthResetFrom false (a :: as) w t = healthResetFrom false as (w.setHealth a h) t1 ∧
        (0 < h ∧ h ≤ 1) ∧ (∀ x, (w.cfgOf a).initHealth = some x → h = x) := by
      cases hia : (w.cfgOf a).initHealth with
      | some h => exact ⟨h, t, by simp [healthResetFrom, hia], hc.health a h hia, fun x hx => by cases hx; rfl⟩
      | none =>
        exact ⟨(Oracle.uniform01 t).1, (Oracle.uniform01 t).2, by simp [healthResetFrom, hia],
          uniform01_pos t, fun x hx => by cases hx⟩
    rw [hEq]
    obtain ⟨w1, hw1⟩ : ∃ w1, w1 = w.setHealth a h := ⟨_, rfl⟩
    rw [← hw1]
    have hw1' : w1 = w.setSt a { w.stOf a with health := h, active := true } := by
      rw [hw1]; simp only [setHealth, clamp_id hh.1 hh.2, hh.1, decide_true]
    have hF1 : VFrame w w1 := by rw [hw1']; exact VFrame.of_setSt w a _ rfl
    have hc1 : CfgOK w1 := ⟨fun b x hx => hc.health b x (by rw [← cfgOf_of_frame hF1 b]; exact hx),
      fun b x hx => hc.orient b x (by rw [← cfgOf_of_frame hF1 b]; exact hx)⟩
    rcases List.mem_cons.mp hb with rfl | hb'
    · have h2 := (healthResetFrom_spec as w1 t1 hnd'.2 hc1).2.1 b hnd'.1
      rw [h2, hw1', stOf_setSt]
      simp [hbl, hdecl h0 hi]
    · exact ih w1 t1 hnd'.2 hc1 b hb' (by rw [hF1.len]; exact hbl) h0
        (by rw [cfgOf_of_frame hF1 b]; exact hi)

/-- a declared (truthy) initial orientation is written back exactly -/
theorem orientResetFrom_declared (l : List Aid) :
    ∀ (w : World) (t : Tape), l.Nodup → CfgOK w → ∀ b ∈ l, b < w.st.length →
      (w.cfgOf b).hasOrient = true → ∀ o, (w.cfgOf b).initOrient = some (o + 1) →
      ((orientResetFrom l w t).1.stOf b).orient = o + 1 := by
  induction l with
  | nil => intro w t _ _ b hb; cases hb
  | cons a as ih =>
    intro w t hnd hc b hb hbl hOb o hi
    have hnd' := List.nodup_cons.mp hnd
    by_cases hO : (w.cfgOf a).hasOrient = true
    · obtain ⟨x, t1, hEq, hdecl⟩ : ∃ (x : Nat) (t1 : Tape),
          orientResetFrom (a :: as) w t =
            orientResetFrom as (w.setSt a { w.stOf a with orient := x }) t1 ∧
          (∀ y, (w.cfgOf a).initOrient = some (y + 1) → x = y + 1) := by
        cases hia : (w.cfgOf a).initOrient with
        | none =>
          exact ⟨(Oracle.randint 1 5 t).1.toNat, (Oracle.randint 1 5 t).2,
            by simp [orientResetFrom, hO, hia], fun y hy => by cases hy⟩
        | some o' =>
          cases o' with
          | zero =>
            exact ⟨(Oracle.randint 1 5 t).1.toNat, (Oracle.randint 1 5 t).2,
              by simp [orientResetFrom, hO, hia], fun y hy => by cases hy⟩
          | succ o' =>
            exact ⟨o' + 1, t, by simp [orientResetFrom, hO, hia], fun y hy => by cases hy; rfl⟩
      rw [hEq]
      obtain ⟨w1, hw1⟩ : ∃ w1, w1 = w.setSt a { w.stOf a with orient := x } := ⟨_, rfl⟩
      rw [← hw1]
      have hF1 : VFrame w w1 := by rw [hw1]; exact VFrame.of_setSt w a _ rfl
      have hc1 : CfgOK w1 := ⟨fun b y hy => hc.health b y (by rw [← cfgOf_of_frame hF1 b]; exact hy),
        fun b y hy => hc.orient b y (by rw [← cfgOf_of_frame hF1 b]; exact hy)⟩
      rcases List.mem_cons.mp hb with rfl | hb'
      · have h2 := (orientResetFrom_spec as w1 t1 hnd'.2 hc1).2.1 b hnd'.1
        rw [h2, hw1, stOf_setSt]
        simp [hbl, hdecl o hi]
      · exact ih w1 t1 hnd'.2 hc1 b hb' (by rw [hF1.len]; exact hbl)
          (by rw [cfgOf_of_frame hF1 b]; exact hOb) o (by rw [cfgOf_of_frame hF1 b]; exact hi)
    · have hEq : orientResetFrom (a :: as) w t = orientResetFrom as w t := by
        simp [orientResetFrom, hO]
      rw [hEq]
      rcases List.mem_cons.mp hb with rfl | hb'
      · exact absurd hOb hO
      · exact ih w t hnd'.2 hc b hb' hbl hOb o hi

end World
end Abmarl
