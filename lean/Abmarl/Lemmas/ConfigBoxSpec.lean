import Abmarl.Lemmas.ConfigBox
/-!
# Lemmas for C19: the judge's Box classification versus declarative membership

`mustAcceptBox → DocMember`, `mustRejectBox → ¬ DocMember`; with `boxContains_yes_iff` this gives
`model_meets_specBox`.
-/
namespace Abmarl
namespace Cfg

theorem b2i_cast (bb : Bool) : ((b2i bb : Int) : Rat) = (if bb then 1 else 0) := by
  cases bb <;> simp [b2i]

theorem goodLeaf_den (b : BoxSp) (l : PyVal) (h : goodLeaf b l = true) :
    ∃ x, leafDen b.isInt l = some x ∧ inBounds b x = true := by
  cases l with
  | int i =>
    simp only [goodLeaf, Bool.and_eq_true] at h
    exact ⟨.fin i, by simp [leafDen, h.1], h.2⟩
  | float f =>
    simp only [goodLeaf, Bool.and_eq_true, Bool.not_eq_true'] at h
    exact ⟨f, by simp [leafDen, h.1], h.2⟩
  | none => simp [goodLeaf] at h
  | bool _ => simp [goodLeaf] at h
  | str _ => simp [goodLeaf] at h
  | list _ => simp [goodLeaf] at h
  | tuple _ => simp [goodLeaf] at h
  | set _ => simp [goodLeaf] at h
  | dict _ => simp [goodLeaf] at h
  | ndarray _ _ _ => simp [goodLeaf] at h
  | npInt _ => simp [goodLeaf] at h
  | npFloat _ => simp [goodLeaf] at h
  | agent _ _ => simp [goodLeaf] at h

theorem viaAsarray_list (l : List PyVal) : ViaAsarray (.list l) :=
  ⟨(by intro _ h; cases h), (by intro _ h; cases h), (by intro _ _ _ h; cases h)⟩
theorem viaAsarray_tuple (l : List PyVal) : ViaAsarray (.tuple l) :=
  ⟨(by intro _ h; cases h), (by intro _ h; cases h), (by intro _ _ _ h; cases h)⟩
theorem viaAsarray_npInt (i : Int) : ViaAsarray (.npInt i) :=
  ⟨(by intro _ h; cases h), (by intro _ h; cases h), (by intro _ _ _ h; cases h)⟩
theorem viaAsarray_npFloat (f : Flt) : ViaAsarray (.npFloat f) :=
  ⟨(by intro _ h; cases h), (by intro _ h; cases h), (by intro _ _ _ h; cases h)⟩

/-- whatever the judge calls a certain member is one -/
theorem mustAccept_docMember (b : BoxSp) (v : PyVal) (h : mustAcceptBox b v = true) : DocMember b v := by
  cases v with
  | int i =>
    simp only [mustAcceptBox, Bool.and_eq_true, beq_iff_eq] at h
    exact Or.inl ⟨i, rfl, h.1.2, h.1.1, h.2⟩
  | float f =>
    simp only [mustAcceptBox, Bool.and_eq_true, beq_iff_eq, Bool.not_eq_true'] at h
    exact Or.inr (Or.inl ⟨f, rfl, h.1.1, h.1.2, h.2⟩)
  | npInt i =>
    simp only [mustAcceptBox, Bool.and_eq_true, beq_iff_eq] at h
    refine Or.inr (Or.inr (Or.inr ⟨viaAsarray_npInt i, by simp [rect, h.1], ?_⟩))
    intro l hl
    simp only [leaves, List.mem_singleton] at hl
    subst hl
    exact ⟨.fin i, by simp [leafDen], h.2⟩
  | npFloat f =>
    simp only [mustAcceptBox, Bool.and_eq_true, beq_iff_eq, Bool.not_eq_true'] at h
    refine Or.inr (Or.inr (Or.inr ⟨viaAsarray_npFloat f, by simp [rect, h.1.2], ?_⟩))
    intro l hl
    simp only [leaves, List.mem_singleton] at hl
    subst hl
    exact ⟨f, by simp [leafDen, h.1.1], h.2⟩
  | ndarray dt sh xs =>
    simp only [mustAcceptBox, Bool.and_eq_true, beq_iff_eq, List.all_eq_true] at h
    refine Or.inr (Or.inr (Or.inl ⟨dt, sh, xs, rfl, ?_, h.1.2, h.2⟩))
    have h1 := h.1.1
    cases hI : b.isInt <;> simp only [hI, canCast] at h1 ⊢
    · rfl
    · cases dt <;> simp_all
  | list l =>
    simp only [mustAcceptBox, Bool.and_eq_true, beq_iff_eq, List.all_eq_true] at h
    exact Or.inr (Or.inr (Or.inr ⟨viaAsarray_list l, h.1, fun x hx => goodLeaf_den b x (h.2 x hx)⟩))
  | tuple l =>
    simp only [mustAcceptBox, Bool.and_eq_true, beq_iff_eq, List.all_eq_true] at h
    exact Or.inr (Or.inr (Or.inr ⟨viaAsarray_tuple l, h.1, fun x hx => goodLeaf_den b x (h.2 x hx)⟩))
  | none => simp [mustAcceptBox] at h
  | bool _ => simp [mustAcceptBox] at h
  | str _ => simp [mustAcceptBox] at h
  | set _ => simp [mustAcceptBox] at h
  | dict _ => simp [mustAcceptBox] at h
  | agent _ _ => simp [mustAcceptBox] at h

theorem den_float (b : BoxSp) (f x : Flt) (h : (if b.isInt = true then
        (match f with
         | .fin q => if q.den = 1 ∧ inI64 q.num = true then some (Flt.fin q) else none
         | _ => none)
      else some f) = some x) : x = f ∧ (b.isInt = true → wholeF f = true) := by
  cases hI : b.isInt with
  | false => rw [hI] at h; simp at h; exact ⟨h.symm, by intro h'; cases h'⟩
  | true =>
    rw [hI] at h
    simp only [if_true] at h
    cases f with
    | fin q =>
      simp only at h
      split at h
      · rename_i hq
        injection h with h
        exact ⟨h.symm, fun _ => by simp [wholeF, hq.1]⟩
      · cases h
    | nan => cases h
    | pinf => cases h
    | ninf => cases h

/-- a leaf the judge calls bad denotes no in-bounds number -/
theorem badLeaf_no_den (b : BoxSp) (l : PyVal) (h : badLeaf b l = true) :
    ¬ ∃ x, leafDen b.isInt l = some x ∧ inBounds b x = true := by
  rintro ⟨x, hx, hb⟩
  cases l with
  | bool bb =>
    simp only [badLeaf, leafNum, isFloatLeaf, Bool.and_false, Bool.false_and, Bool.or_false,
      Bool.not_eq_true'] at h
    simp only [leafDen, Option.some.injEq] at hx
    subst hx
    rw [b2i_cast] at hb
    rw [hb] at h; cases h
  | int i =>
    simp only [badLeaf, leafNum, isFloatLeaf, Bool.and_false, Bool.false_and, Bool.or_false,
      Bool.not_eq_true'] at h
    simp only [leafDen] at hx
    split at hx
    · cases hx
    · injection hx with hx; subst hx; rw [hb] at h; cases h
  | float f =>
    simp only [badLeaf, leafNum, isFloatLeaf, Bool.and_true, Bool.or_eq_true, Bool.not_eq_true',
      Bool.and_eq_true] at h
    simp only [leafDen] at hx
    obtain ⟨hxf, hw⟩ := den_float b f x hx
    subst hxf
    rcases h with h | ⟨hI, hnw⟩
    · rw [hb] at h; cases h
    · rw [hw hI] at hnw; cases hnw
  | npInt i =>
    simp only [badLeaf, leafNum, isFloatLeaf, Bool.and_false, Bool.false_and, Bool.or_false,
      Bool.not_eq_true'] at h
    simp only [leafDen, Option.some.injEq] at hx
    subst hx; rw [hb] at h; cases h
  | npFloat f =>
    simp only [badLeaf, leafNum, isFloatLeaf, Bool.and_true, Bool.or_eq_true, Bool.not_eq_true',
      Bool.and_eq_true] at h
    simp only [leafDen] at hx
    obtain ⟨hxf, hw⟩ := den_float b f x hx
    subst hxf
    rcases h with h | ⟨hI, hnw⟩
    · rw [hb] at h; cases h
    · rw [hw hI] at hnw; cases hnw
  | none =>
    simp only [leafDen] at hx
    split at hx
    · cases hx
    · injection hx with hx; subst hx; simp [inBounds] at hb
  | str _ => simp [badLeaf, leafNum] at h
  | ndarray _ _ _ => simp [badLeaf, leafNum] at h
  | list _ => simp [leafDen] at hx
  | tuple _ => simp [leafDen] at hx
  | set _ => simp [leafDen] at hx
  | dict _ => simp [leafDen] at hx
  | agent _ _ => simp [leafDen] at hx

/-- for a value that goes through `np.asarray`, membership is the fourth clause -/
theorem docMember_via (b : BoxSp) (v : PyVal) (hv : ViaAsarray v) (h : DocMember b v) :
    rect v = some b.shape ∧ ∀ l ∈ leaves v, ∃ x, leafDen b.isInt l = some x ∧ inBounds b x = true := by
  rcases h with ⟨i', h1, _⟩ | ⟨f', h1, _⟩ | ⟨_, _, _, h1, _⟩ | ⟨_, h2⟩
  · exact absurd h1 (hv.1 _)
  · exact absurd h1 (hv.2.1 _)
  · exact absurd h1 (hv.2.2 _ _ _)
  · exact h2

theorem via_of_ctor (v : PyVal) (h1 : ∀ i, v ≠ .int i) (h2 : ∀ f, v ≠ .float f)
    (h3 : ∀ dt sh xs, v ≠ .ndarray dt sh xs) : ViaAsarray v := ⟨h1, h2, h3⟩

/-- a scalar-like value (`leaves v = [v]`, shape `()`) that the judge calls bad is no member -/
theorem scalar_reject (b : BoxSp) (v : PyVal) (hv : ViaAsarray v) (hl : leaves v = [v])
    (hbad : badLeaf b v = true) : ¬ DocMember b v := by
  intro hd
  obtain ⟨_, hall⟩ := docMember_via b v hv hd
  exact badLeaf_no_den b v hbad (hall v (by rw [hl]; simp))

theorem seq_reject (b : BoxSp) (v : PyVal) (hv : ViaAsarray v)
    (h : ∀ sh, rect v = some sh → (sh != b.shape || (leaves v).any (badLeaf b)) = true) :
    ¬ DocMember b v := by
  intro hd
  obtain ⟨hr, hall⟩ := docMember_via b v hv hd
  have h' := h _ hr
  simp only [bne_self_eq_false, Bool.false_or, List.any_eq_true] at h'
  obtain ⟨l, hl, hbad⟩ := h'
  exact badLeaf_no_den b l hbad (hall l hl)

/-- whatever the judge calls a certain non-member is none -/
theorem mustReject_not_docMember (b : BoxSp) (v : PyVal) (h : mustRejectBox b v = true) :
    ¬ DocMember b v := by
  cases v with
  | none =>
    exact scalar_reject b _ (via_of_ctor _ (by intro _ h; cases h) (by intro _ h; cases h)
      (by intro _ _ _ h; cases h)) (by simp [leaves]) (by simp [badLeaf, leafNum])
  | set l =>
    exact scalar_reject b _ (via_of_ctor _ (by intro _ h; cases h) (by intro _ h; cases h)
      (by intro _ _ _ h; cases h)) (by simp [leaves]) (by simp [badLeaf, leafNum])
  | dict l =>
    exact scalar_reject b _ (via_of_ctor _ (by intro _ h; cases h) (by intro _ h; cases h)
      (by intro _ _ _ h; cases h)) (by simp [leaves]) (by simp [badLeaf, leafNum])
  | agent g i =>
    exact scalar_reject b _ (via_of_ctor _ (by intro _ h; cases h) (by intro _ h; cases h)
      (by intro _ _ _ h; cases h)) (by simp [leaves]) (by simp [badLeaf, leafNum])
  | str _ => simp [mustRejectBox] at h
  | list l =>
    refine seq_reject b _ (viaAsarray_list l) ?_
    intro sh hsh
    simp only [mustRejectBox, hsh] at h
    exact h
  | tuple l =>
    refine seq_reject b _ (viaAsarray_tuple l) ?_
    intro sh hsh
    simp only [mustRejectBox, hsh] at h
    exact h
  | ndarray dt sh xs =>
    intro hd
    rcases hd with ⟨i', h1, _⟩ | ⟨f', h1, _⟩ | ⟨dt', sh', xs', h1, hc, hsh, hall⟩ | ⟨hv, _⟩
    · cases h1
    · cases h1
    · injection h1 with e1 e2 e3
      subst e1 e2 e3
      simp only [mustRejectBox, Bool.or_eq_true, bne_iff_ne, ne_eq, List.any_eq_true,
        Bool.not_eq_true', Bool.and_eq_true] at h
      rcases h with (h | ⟨x, hx, hnb⟩) | ⟨⟨hI, hdt⟩, _⟩
      · exact h hsh
      · rw [hall x hx] at hnb; cases hnb
      · rw [hI] at hc
        cases dt <;> simp [canCast] at hc hdt
    · exact hv.2.2 _ _ _ rfl
  | int i =>
    intro hd
    rcases hd with ⟨i', h1, _, hsh, hb⟩ | ⟨f', h1, _⟩ | ⟨_, _, _, h1, _⟩ | ⟨hv, _⟩
    · injection h1 with h1; subst h1
      simp [mustRejectBox, hsh, badLeaf, leafNum, isFloatLeaf, hb] at h
    · cases h1
    · cases h1
    · exact hv.1 _ rfl
  | float f =>
    intro hd
    rcases hd with ⟨i', h1, _⟩ | ⟨f', h1, hI, hsh, hb⟩ | ⟨_, _, _, h1, _⟩ | ⟨hv, _⟩
    · cases h1
    · injection h1 with h1; subst h1
      simp [mustRejectBox, hsh, badLeaf, leafNum, isFloatLeaf, hb, hI] at h
    · cases h1
    · exact hv.2.1 _ rfl
  | bool bb =>
    intro hd
    have hv : ViaAsarray (.bool bb) := via_of_ctor _ (by intro _ h; cases h) (by intro _ h; cases h)
      (by intro _ _ _ h; cases h)
    obtain ⟨hr, _⟩ := docMember_via b _ hv hd
    have hsh : b.shape = [] := by simpa [rect] using hr.symm
    exact scalar_reject b _ hv (by simp [leaves]) (by simpa [mustRejectBox, hsh] using h) hd
  | npInt i =>
    intro hd
    have hv := viaAsarray_npInt i
    obtain ⟨hr, _⟩ := docMember_via b _ hv hd
    have hsh : b.shape = [] := by simpa [rect] using hr.symm
    exact scalar_reject b _ hv (by simp [leaves]) (by simpa [mustRejectBox, hsh] using h) hd
  | npFloat f =>
    intro hd
    have hv := viaAsarray_npFloat f
    obtain ⟨hr, _⟩ := docMember_via b _ hv hd
    have hsh : b.shape = [] := by simpa [rect] using hr.symm
    exact scalar_reject b _ hv (by simp [leaves]) (by simpa [mustRejectBox, hsh] using h) hd

/-- **the model's `Box.contains` satisfies the judge's specification**, for every box and value -/
theorem model_meets_specBox_aux (b : BoxSp) (v : PyVal) :
    specBox b v (boxContains b v) = true := by
  unfold specBox docBox
  by_cases ha : mustAcceptBox b v = true
  · rw [if_pos ha]
    have := (boxContains_yes_iff b v).mpr (mustAccept_docMember b v ha)
    simp [this]
  · rw [if_neg ha]
    by_cases hr : mustRejectBox b v = true
    · rw [if_pos hr]
      have hn := mustReject_not_docMember b v hr
      have : boxContains b v ≠ .yes := fun hy => hn ((boxContains_yes_iff b v).mp hy)
      simpa using this
    · rw [if_neg hr]

end Cfg
end Abmarl
