import Abmarl.Spec.Grid
/-!
# Helper lemmas about the cell table and the movers
-/
namespace Abmarl
namespace World

theorem idx_lt {w : World} {p : Pos} (h : w.inGrid p = true) : w.idx p < w.rows * w.cols := by
  simp only [inGrid, Bool.and_eq_true, decide_eq_true_eq] at h
  obtain ⟨⟨⟨h1, h2⟩, h3⟩, h4⟩ := h
  unfold idx
  have hr : p.1.toNat < w.rows := by omega
  have hc : p.2.toNat < w.cols := by omega
  calc p.1.toNat * w.cols + p.2.toNat < p.1.toNat * w.cols + w.cols := by omega
    _ = (p.1.toNat + 1) * w.cols := by rw [Nat.add_mul]; simp
    _ ≤ w.rows * w.cols := Nat.mul_le_mul_right _ hr

theorem idx_inj {w : World} {p q : Pos} (hp : w.inGrid p = true) (hq : w.inGrid q = true)
    (h : w.idx p = w.idx q) : p = q := by
  simp only [inGrid, Bool.and_eq_true, decide_eq_true_eq] at hp hq
  obtain ⟨⟨⟨p1, p2⟩, p3⟩, p4⟩ := hp
  obtain ⟨⟨⟨q1, q2⟩, q3⟩, q4⟩ := hq
  unfold idx at h
  have hpc : p.2.toNat < w.cols := by omega
  have hqc : q.2.toNat < w.cols := by omega
  have hdiv : p.1.toNat = q.1.toNat := by
    have h1 : (p.1.toNat * w.cols + p.2.toNat) / w.cols = p.1.toNat := by
      rw [Nat.mul_comm, Nat.mul_add_div (by omega), Nat.div_eq_of_lt hpc]; simp
    have h2 : (q.1.toNat * w.cols + q.2.toNat) / w.cols = q.1.toNat := by
      rw [Nat.mul_comm, Nat.mul_add_div (by omega), Nat.div_eq_of_lt hqc]; simp
    rw [← h1, ← h2, h]
  have hmod : p.2.toNat = q.2.toNat := by
    rw [hdiv] at h; omega
  have e1 : p.1 = q.1 := by omega
  have e2 : p.2 = q.2 := by omega
  exact Prod.ext e1 e2

theorem getD_set_same {β : Type} (l : List β) (i : Nat) (x d : β) (h : i < l.length) :
    (l.set i x).getD i d = x := by
  simp [List.getD, h]

theorem getD_set_ne {β : Type} (l : List β) (i j : Nat) (x d : β) (h : i ≠ j) :
    (l.set i x).getD j d = l.getD j d := by
  simp [List.getD, List.getElem?_set_ne h]

/-- `query` says: every occupant may overlap with the asker (vacuous for an empty cell) -/
theorem query_eq (w : World) (a : Aid) (p : Pos) :
    w.query a p = (w.cell p).all (fun o => w.pairOK (w.encOf a) (w.encOf o)) := by
  unfold query mayJoin pairOK
  cases hc : w.cell p with
  | nil => simp
  | cons x xs =>
    simp only [List.isEmpty_cons, Bool.false_eq_true, if_false]
    cases hl : w.overlap.lookup (w.encOf a) with
    | none => simp
    | some s => rfl

end World
end Abmarl

namespace Abmarl
namespace World

/-- agent `a` is stored consistently: exactly in the cell of its in-grid position -/
structure Placed (w : World) (a : Aid) : Prop where
  lenC : w.cells.length = w.rows * w.cols
  aSt  : a < w.st.length
  inG  : w.inGrid (w.stOf a).pos = true
  mem  : a ∈ w.cell (w.stOf a).pos
  only : ∀ i, a ∈ w.cells.getD i [] → i = w.idx (w.stOf a).pos

theorem stOf_setSt_same (w : World) (a : Aid) (s : AgentSt) (h : a < w.st.length) :
    (w.setSt a s).stOf a = s := by
  simp [setSt, stOf, List.getD, h]

theorem stOf_set_ne (st : List AgentSt) (a b : Aid) (s : AgentSt) (h : a ≠ b) :
    (st.set a s).getD b {} = st.getD b {} := getD_set_ne _ _ _ _ _ h

/-- the outcome of a successful relocation, written out -/
def relocated (w : World) (a : Aid) (dst : Pos) : World :=
  { w with
    cells := (w.cells.set (w.idx (w.stOf a).pos) ((w.cell (w.stOf a).pos).erase a)).set (w.idx dst)
               (w.cell dst ++ [a]),
    st := w.st.set a { w.stOf a with pos := dst } }

theorem moveBy_eq {w : World} {a : Aid} (h : Placed w a) (d : Pos) :
    w.moveBy a d =
      .ok (if w.inGrid ((w.stOf a).pos.1 + d.1, (w.stOf a).pos.2 + d.2) then
             if ((w.stOf a).pos.1 + d.1, (w.stOf a).pos.2 + d.2) = (w.stOf a).pos then (true, w)
             else if w.query a ((w.stOf a).pos.1 + d.1, (w.stOf a).pos.2 + d.2) then
               (true, w.relocated a ((w.stOf a).pos.1 + d.1, (w.stOf a).pos.2 + d.2))
             else (false, w)
           else (false, w)) := by
  obtain ⟨src, hsrc⟩ : ∃ src, src = (w.stOf a).pos := ⟨_, rfl⟩
  obtain ⟨dst, hdst⟩ : ∃ dst : Pos, dst = (src.1 + d.1, src.2 + d.2) := ⟨_, rfl⟩
  unfold moveBy
  simp only [← hsrc, ← hdst]
  by_cases hin : w.inGrid dst = true
  · simp only [hin, if_true]
    by_cases heq : dst = src
    · simp [heq]
    · simp only [heq, if_false]
      by_cases hq : w.query a dst = true
      · simp only [hq, if_true]
        have hmem : a ∈ w.cell src := hsrc ▸ h.mem
        simp only [remove, hmem, if_true]
        -- the world after `remove`
        obtain ⟨w1, hw1⟩ : ∃ w1 : World, w1 = { w with cells := w.cells.set (w.idx src) ((w.cell src).erase a) } :=
          ⟨_, rfl⟩
        rw [← hw1]
        have hidx : w.idx src ≠ w.idx dst := fun e => heq (idx_inj hin (hsrc ▸ h.inG) e.symm)
        have hcell1 : w1.cell dst = w.cell dst := by
          rw [hw1]; simp only [cell, idx]
          exact getD_set_ne _ _ _ _ _ hidx
        have hq1 : w1.query a dst = true := by
          rw [query_eq] at hq ⊢
          rw [hcell1]
          have : w1.pairOK = w.pairOK := by rw [hw1]; rfl
          have e2 : w1.encOf = w.encOf := by rw [hw1]; rfl
          rw [this, e2]; exact hq
        have hnot : a ∉ w.cell dst := by
          intro hc
          have := h.only (w.idx dst) hc
          rw [← hsrc] at this
          exact hidx this.symm
        simp only [place, hq1, if_true, hcell1, hnot, if_false]
        subst hsrc
        rw [hw1]
        rfl
      · simp [hq]
  · simp [hin]

end World
end Abmarl

namespace Abmarl
namespace World

theorem destFree_eq (w : World) (a : Aid) (d : Pos) :
    w.destFree a d =
      (w.inGrid ((w.stOf a).pos.1 + d.1, (w.stOf a).pos.2 + d.2) &&
        (((w.stOf a).pos.1 + d.1, (w.stOf a).pos.2 + d.2) == (w.stOf a).pos ||
          w.query a ((w.stOf a).pos.1 + d.1, (w.stOf a).pos.2 + d.2))) := by
  simp only [destFree, query_eq]

theorem sameStatic_refl (w : World) : sameStatic w w = true := by simp [sameStatic]

theorem specMoveBy_of_fields {w w' : World} {a : Aid} (h : Placed w a) (d : Pos) (src dst : Pos)
    (hsrc : src = (w.stOf a).pos) (hdst : dst = (src.1 + d.1, src.2 + d.2))
    (hin : w.inGrid dst = true) (hne : dst ≠ src) (hq : w.query a dst = true)
    (hrows : w'.rows = w.rows) (hcols : w'.cols = w.cols) (hov : w'.overlap = w.overlap)
    (hcfg : w'.cfg = w.cfg)
    (hcells : w'.cells = (w.cells.set (w.idx src) ((w.cell src).erase a)).set (w.idx dst) (w.cell dst ++ [a]))
    (hst : w'.st = w.st.set a { w.stOf a with pos := dst }) :
    specMoveBy w a d true w' = true := by
  have hidx : w.idx src ≠ w.idx dst := fun e => hne (idx_inj hin (hsrc ▸ h.inG) e.symm)
  have hsl : w.idx src < w.cells.length := by rw [h.lenC]; exact idx_lt (hsrc ▸ h.inG)
  have hdl : w.idx dst < w.cells.length := by rw [h.lenC]; exact idx_lt hin
  have hidx' : ∀ p, w'.idx p = w.idx p := by intro p; simp [idx, hcols]
  have hfree : w.destFree a d = true := by
    rw [destFree_eq, ← hsrc, ← hdst, hin, hq]; simp
  have hne' : (dst != src) = true := by simpa using hne
  unfold specMoveBy
  simp only [← hsrc, ← hdst, hfree, hne', Bool.and_true, if_true, beq_self_eq_true, Bool.true_and,
    Bool.and_eq_true]
  refine ⟨?_, ⟨⟨⟨⟨?_, ?_⟩, ?_⟩, ?_⟩, ?_⟩⟩
  · -- static part
    simp [sameStatic, hrows, hcols, hov, hcfg, hcells, hst]
  · -- the mover's state
    have : w'.stOf a = { w.stOf a with pos := dst } := by
      simp only [stOf, hst]; exact getD_set_same _ _ _ _ h.aSt
    simp [this]
  · -- everybody else
    rw [List.all_eq_true]
    intro b _
    by_cases hb : b = a
    · simp [hb]
    · have : w'.stOf b = w.stOf b := by
        simp only [stOf, hst]; exact getD_set_ne _ _ _ _ _ (fun e => hb e.symm)
      simp [sameAgent, this, hb]
  · -- source cell
    have : w'.cell src = (w.cell src).erase a := by
      simp only [cell, hidx', hcells]
      rw [getD_set_ne _ _ _ _ _ (fun e => hidx e.symm)]
      exact getD_set_same _ _ _ _ hsl
    simp [this]
  · -- destination cell
    have : w'.cell dst = w.cell dst ++ [a] := by
      simp only [cell, hidx', hcells]
      exact getD_set_same _ _ _ _ (by simpa using hdl)
    simp [this]
  · -- all other cells
    rw [List.all_eq_true]
    intro i _
    by_cases h1 : i = w.idx src
    · simp [h1]
    · by_cases h2 : i = w.idx dst
      · simp [h2]
      · have : w'.cells.getD i [] = w.cells.getD i [] := by
          rw [hcells, getD_set_ne _ _ _ _ _ (fun e => h2 e.symm), getD_set_ne _ _ _ _ _ (fun e => h1 e.symm)]
        simp only [sameCell, this, beq_self_eq_true, Bool.or_true]

theorem specMoveBy_relocated {w : World} {a : Aid} (h : Placed w a) (d : Pos)
    (hin : w.inGrid ((w.stOf a).pos.1 + d.1, (w.stOf a).pos.2 + d.2) = true)
    (hne : ((w.stOf a).pos.1 + d.1, (w.stOf a).pos.2 + d.2) ≠ (w.stOf a).pos)
    (hq : w.query a ((w.stOf a).pos.1 + d.1, (w.stOf a).pos.2 + d.2) = true) :
    specMoveBy w a d true (w.relocated a ((w.stOf a).pos.1 + d.1, (w.stOf a).pos.2 + d.2)) = true :=
  specMoveBy_of_fields h d _ _ rfl rfl hin hne hq rfl rfl rfl rfl rfl rfl

/-- **soundness of the common move body**: under consistency of the mover it never raises, and
its outcome satisfies the C12 specification -/
theorem moveBy_sound {w : World} {a : Aid} (h : Placed w a) (d : Pos) :
    ∃ ok w', w.moveBy a d = .ok (ok, w') ∧ specMoveBy w a d ok w' = true := by
  rw [moveBy_eq h d]
  by_cases hin : w.inGrid ((w.stOf a).pos.1 + d.1, (w.stOf a).pos.2 + d.2) = true
  · by_cases heq : ((w.stOf a).pos.1 + d.1, (w.stOf a).pos.2 + d.2) = (w.stOf a).pos
    · refine ⟨true, w, by simp [heq, h.inG], ?_⟩
      have hin2 : w.inGrid (w.stOf a).pos = true := h.inG
      simp [specMoveBy, destFree_eq, heq, hin2, sameStatic_refl]
    · by_cases hq : w.query a ((w.stOf a).pos.1 + d.1, (w.stOf a).pos.2 + d.2) = true
      · exact ⟨true, _, by simp [hin, heq, hq], specMoveBy_relocated h d hin heq hq⟩
      · refine ⟨false, w, by simp [hin, heq, hq], ?_⟩
        have hq' : w.query a ((w.stOf a).pos.1 + d.1, (w.stOf a).pos.2 + d.2) = false := by simpa using hq
        have hne : (((w.stOf a).pos.1 + d.1, (w.stOf a).pos.2 + d.2) == (w.stOf a).pos) = false := by
          simpa using heq
        simp [specMoveBy, destFree_eq, hin, hne, hq', sameStatic_refl]
  · refine ⟨false, w, by simp [hin], ?_⟩
    have hin' : w.inGrid ((w.stOf a).pos.1 + d.1, (w.stOf a).pos.2 + d.2) = false := by simpa using hin
    simp [specMoveBy, destFree_eq, hin', sameStatic_refl]

end World
end Abmarl

namespace Abmarl
namespace World

/-- Prop reading of `specMoveBy` (used both as a lemma and as the meaning of the judge) -/
theorem specMoveBy_reading {w w' : World} {a : Aid} {d : Pos} {ok : Bool}
    (h : specMoveBy w a d ok w' = true) :
    ok = w.destFree a d ∧ sameStatic w w' = true ∧
    ((ok = true ∧ ((w.stOf a).pos.1 + d.1, (w.stOf a).pos.2 + d.2) ≠ (w.stOf a).pos) →
      w'.stOf a = { w.stOf a with pos := ((w.stOf a).pos.1 + d.1, (w.stOf a).pos.2 + d.2) } ∧
      (∀ b < w.n, b ≠ a → w'.stOf b = w.stOf b) ∧
      w'.cell (w.stOf a).pos = (w.cell (w.stOf a).pos).erase a ∧
      w'.cell ((w.stOf a).pos.1 + d.1, (w.stOf a).pos.2 + d.2) =
        w.cell ((w.stOf a).pos.1 + d.1, (w.stOf a).pos.2 + d.2) ++ [a] ∧
      (∀ i < w.rows * w.cols, i ≠ w.idx (w.stOf a).pos →
        i ≠ w.idx ((w.stOf a).pos.1 + d.1, (w.stOf a).pos.2 + d.2) →
        w'.cells.getD i [] = w.cells.getD i [])) ∧
    (¬ (ok = true ∧ ((w.stOf a).pos.1 + d.1, (w.stOf a).pos.2 + d.2) ≠ (w.stOf a).pos) → w' = w) := by
  obtain ⟨src, hsrc⟩ : ∃ src, src = (w.stOf a).pos := ⟨_, rfl⟩
  obtain ⟨dst, hdst⟩ : ∃ dst : Pos, dst = (src.1 + d.1, src.2 + d.2) := ⟨_, rfl⟩
  unfold specMoveBy at h
  simp only [← hsrc, ← hdst] at h ⊢
  by_cases hc : (ok && dst != src) = true
  · rw [if_pos hc] at h
    simp only [Bool.and_eq_true, beq_iff_eq, List.all_eq_true, Bool.or_eq_true, bne_iff_ne, ne_eq] at h hc
    obtain ⟨⟨h1, h2⟩, ⟨⟨⟨⟨h3, h4⟩, h5⟩, h6⟩, h7⟩⟩ := h
    refine ⟨h1, h2, fun _ => ⟨h3, ?_, h5, h6, ?_⟩, fun hn => absurd hc hn⟩
    · intro b hb hba
      rcases h4 b (by simpa [allAgents] using hb) with h | h
      · exact absurd h hba
      · simp only [sameAgent, beq_iff_eq] at h; exact h.symm
    · intro i hi h1' h2'
      rcases h7 i (by simpa [allCells] using hi) with (h | h) | h
      · exact absurd h h1'
      · exact absurd h h2'
      · simp only [sameCell, beq_iff_eq] at h; exact h.symm
  · rw [if_neg hc] at h
    simp only [Bool.and_eq_true, beq_iff_eq] at h
    simp only [Bool.and_eq_true, bne_iff_ne, ne_eq] at hc
    exact ⟨h.1.1, h.1.2, fun hp => absurd hp hc, fun _ => h.2⟩

end World
end Abmarl

namespace Abmarl
open World

theorem setSt_back {w1 : World} {a : Aid} (x o : Nat) (ha : a < w1.st.length)
    (ho : (w1.stOf a).orient = o) :
    (w1.setSt a { w1.stOf a with orient := x }).setSt a
      { (w1.setSt a { w1.stOf a with orient := x }).stOf a with orient := o } = w1 := by
  have h1 : (w1.setSt a { w1.stOf a with orient := x }).stOf a = { w1.stOf a with orient := x } :=
    stOf_setSt_same _ _ _ ha
  rw [h1]
  simp only [setSt, List.set_set]
  have : ({ w1.stOf a with orient := o } : AgentSt) = w1.stOf a := by
    cases hs : w1.stOf a
    simp only [hs] at ho
    simp [ho]
  rw [this]
  have hself : w1.st.set a (w1.stOf a) = w1.st := by
    simp only [stOf, List.getD_eq_getElem?_getD, List.getElem?_eq_getElem ha, Option.getD_some]
    exact List.set_getElem_self ha
  rw [hself]


end Abmarl
