import Abmarl.Lemmas.AttacksGrouped
/-!
# C11 lemmas, part 3d: `SelectiveAttackActor._determine_attack`
-/
namespace Abmarl
namespace World

/-- the group of window cell `ij`: the agents standing on it, limit = the array entry (row-major) -/
def selGroup (w : World) (a : Aid) (W : Nat) (l : List Nat) (ij : Nat × Nat) : Group :=
  ⟨fun b => w.winRow a b == ij.1 && w.winCol a b == ij.2, l.getD (ij.1 * W + ij.2) 0⟩

theorem attackGroups_selective {cfg : AttackCfg} (w : World) (a : Aid) (l : List Nat)
    (hk : cfg.kind = .selective) :
    attackGroups cfg w a (.grid l) =
      (windowCells (w.cfgOf a).attackRange).map (selGroup w a (2 * (w.cfgOf a).attackRange + 1) l) := by
  unfold attackGroups; rw [hk]; rfl

theorem getD_le_of_all {l : List Nat} {s : Nat} (h : ∀ k ∈ l, k ≤ s) (q : Nat) : l.getD q 0 ≤ s := by
  rw [List.getD_eq_getElem?_getD]
  cases hq : l[q]? with
  | none => exact Nat.zero_le _
  | some v => exact h v (List.mem_of_getElem? hq)

theorem selGroup_mem_iff (w : World) (a : Aid) (W : Nat) (l : List Nat) (i j : Nat) (b : Aid) :
    (selGroup w a W l (i, j)).mem b = true ↔ w.winRow a b = i ∧ w.winCol a b = j := by
  simp [selGroup]

/-- the double loop over (any duplicate-free part of) the window, for any array and any tape -/
theorem selLoop_grouped {cfg : AttackCfg} {w : World} {a : Aid} {s : List Int} (hI : w.WInv = true)
    (hmap : cfg.mapping.lookup (w.encOf a) = some s) (l : List Nat) (cs : List (Nat × Nat))
    (hcs : ∀ ij ∈ cs, ij.1 < 2 * (w.cfgOf a).attackRange + 1 ∧ ij.2 < 2 * (w.cfgOf a).attackRange + 1)
    (t : Tape) :
    ∃ L t1, selLoop cfg w a (w.cfgOf a).attackRange
        (Mask.maskOf (w.cfgOf a).attackRange (w.attackBlockers a)) l cs t = .ok (L, t1) ∧
      Grouped cfg w a (cs.map (selGroup w a (2 * (w.cfgOf a).attackRange + 1) l)) L := by
  induction cs generalizing t with
  | nil => exact ⟨[], t, rfl, Grouped.nil⟩
  | cons ij rest ih =>
    obtain ⟨i, j⟩ := ij
    obtain ⟨hi, hj⟩ := hcs (i, j) List.mem_cons_self
    have hrest : ∀ ij ∈ rest, ij.1 < 2 * (w.cfgOf a).attackRange + 1 ∧ ij.2 < 2 * (w.cfgOf a).attackRange + 1 :=
      fun ij h => hcs ij (List.mem_cons_of_mem _ h)
    obtain ⟨k, hk⟩ : ∃ k, k = l.getD (i * (2 * (w.cfgOf a).attackRange + 1) + j) 0 := ⟨_, rfl⟩
    have hlim : (selGroup w a (2 * (w.cfgOf a).attackRange + 1) l (i, j)).lim = k := by rw [hk]; rfl
    have facts : ∀ S P, S.Sublist ((w.cellCands a (w.cfgOf a).attackRange
          (Mask.maskOf (w.cfgOf a).attackRange (w.attackBlockers a)) i j).filter (detOK cfg w a)) →
        (1 ≤ (w.cfgOf a).accuracy → S = (w.cellCands a (w.cfgOf a).attackRange
          (Mask.maskOf (w.cfgOf a).attackRange (w.attackBlockers a)) i j).filter (detOK cfg w a)) →
        Picked cfg.stacked S k P → _ :=
      fun S P hsub hall hP => group_facts (g := selGroup w a (2 * (w.cfgOf a).attackRange + 1) l (i, j))
        ((nodup_cellCands hI a _ _ i j).filter _)
        (fun b => by rw [mem_cellCands_det hI cfg a i j hi hj b, selGroup_mem_iff])
        hsub hall (by rw [hlim]; exact hP)
    unfold selLoop
    simp only [List.map_cons, ← hk]
    by_cases hk0 : k = 0
    · -- `if not attack[r, c]: continue`
      rw [if_pos hk0]
      obtain ⟨L, t1, hL, hG⟩ := ih hrest t
      refine ⟨L, t1, hL, ?_⟩
      exact Grouped.cons (P := []) (fun b hb => (by cases hb)) (Nat.zero_le _) (fun _ => List.nodup_nil)
        (fun _ => by rw [hlim, hk0, expected_zero_lim]; rfl) hG
    · rw [if_neg hk0]
      obtain ⟨S, t1, hs, hsub, hall⟩ := scanCands_sound hmap
        (w.cellCands a (w.cfgOf a).attackRange
          (Mask.maskOf (w.cfgOf a).attackRange (w.attackBlockers a)) i j) t
      simp only [hs]
      by_cases hS : S.isEmpty = true
      · rw [if_pos hS]
        obtain ⟨L, t2, hL, hG⟩ := ih hrest t1
        refine ⟨L, t2, hL, ?_⟩
        obtain ⟨f1, f2, f3, f4⟩ := facts S [] hsub hall (by rw [List.isEmpty_iff.mp hS]; exact Picked.nil _ _)
        exact Grouped.cons (P := []) f1 f2 f3 f4 hG
      · rw [if_neg hS]
        obtain ⟨L, t2, hL, hG⟩ := ih hrest (subsetAttackables cfg.stacked S k t1).2
        refine ⟨(subsetAttackables cfg.stacked S k t1).1 ++ L, t2, by simp only [hL], ?_⟩
        obtain ⟨f1, f2, f3, f4⟩ := facts S _ hsub hall (subsetAttackables_picked cfg.stacked S k t1)
        exact Grouped.cons f1 f2 f3 f4 hG

theorem excl_selective (cfg : AttackCfg) (w : World) (a : Aid) (W : Nat) (l : List Nat) (R : Nat) :
    Excl cfg w a ((windowCells R).map (selGroup w a W l)) := by
  unfold Excl
  rw [List.pairwise_map]
  have hnd := nodup_windowCells R
  unfold List.Nodup at hnd
  refine hnd.imp ?_
  intro p q hpq b _ hb
  obtain ⟨i, j⟩ := p
  obtain ⟨i', j'⟩ := q
  rw [selGroup_mem_iff, selGroup_mem_iff] at hb
  apply hpq
  rw [← hb.1.1, ← hb.1.2, hb.2.1, hb.2.2]

theorem determineSelective_sound {cfg : AttackCfg} {w : World} {a : Aid} {s : List Int} (hI : w.WInv = true)
    (hmap : cfg.mapping.lookup (w.encOf a) = some s) (hkind : cfg.kind = .selective) (l : List Nat)
    (hlen : l.length = (2 * (w.cfgOf a).attackRange + 1) * (2 * (w.cfgOf a).attackRange + 1))
    (hall : ∀ k ∈ l, k ≤ (w.cfgOf a).simAttacks) (t : Tape) :
    ∃ st L t1, determineSelective cfg w a l t = .ok ((st, L), t1) ∧ SelOK cfg w a (.grid l) L := by
  have hx : Excl cfg w a (attackGroups cfg w a (.grid l)) := by
    rw [attackGroups_selective w a l hkind]; exact excl_selective cfg w a _ l _
  have hlim : ∀ g ∈ attackGroups cfg w a (.grid l), g.lim ≤ (w.cfgOf a).simAttacks := by
    rw [attackGroups_selective w a l hkind]
    intro g hg
    rw [List.mem_map] at hg
    obtain ⟨p, _, rfl⟩ := hg
    exact getD_le_of_all hall _
  unfold determineSelective
  simp only [hlen, ne_eq, not_true_eq_false, if_false]
  by_cases h0 : l.all (· == 0) = true
  · refine ⟨false, [], t, by simp only [h0, if_true], ?_⟩
    refine Grouped.selOK ?_ hx hlim (Or.inr hkind)
    rw [attackGroups_selective w a l hkind]
    apply Grouped.zeros
    intro g hg
    rw [List.mem_map] at hg
    obtain ⟨p, _, rfl⟩ := hg
    rw [List.all_eq_true] at h0
    have : ∀ k ∈ l, k ≤ 0 := fun k hk => by have := h0 k hk; simp at this; omega
    exact Nat.le_zero.mp (getD_le_of_all this _)
  · obtain ⟨L, t1, hL, hG⟩ := selLoop_grouped hI hmap l (windowCells (w.cfgOf a).attackRange)
      (fun ij h => (mem_windowCells _ ij).mp h) t
    refine ⟨true, L, t1, by simp only [h0, Bool.false_eq_true, if_false, hL], ?_⟩
    refine Grouped.selOK ?_ hx hlim (Or.inr hkind)
    rw [attackGroups_selective w a l hkind]
    exact hG

end World
end Abmarl
