import Abmarl.Lemmas.PlacementFinal
/-!
# C13 — the resets satisfy `specPlacement`
-/
namespace Abmarl
open World

theorem mem_placementOrder (kind : PKind) (o : PlaceOpts) (w : World) (t : Tape) {a : Aid} (ha : a < w.n) :
    a ∈ placementOrder kind o w t := by
  unfold placementOrder
  have hl : a ∈ (if o.randomize then (shuffle w.allAgents t).1 else w.allAgents) := by
    rw [← listing_eq]
    exact (listing_perm o w t).mem_iff.mpr (List.mem_range.mpr ha)
  simp only [List.mem_append, List.mem_filter]
  cases ht : isTargetRole kind o a with
  | true =>
    left; left
    simp only [isTargetRole, Bool.and_eq_true, bne_iff_ne, ne_eq, beq_iff_eq] at ht
    have : (kind == PKind.position) = false := by simpa using ht.1
    rw [this, ht.2]; simp
  | false =>
    cases hf : isFixed w a with
    | true => left; right; exact ⟨hl, by simp⟩
    | false => right; exact ⟨hl, by simp⟩

/-- from the final state of a reset to `specPlacement` -/
theorem spec_of_final {kind : PKind} {o : PlaceOpts} {w : World} {t : Tape} {out : PlaceOut} {sF : PSt}
    {base : Int → List Nat} {start : Pos}
    (hpost : out.post = sF.w) (hI : PInv w.gridReset o.noOverlap base sF)
    (hJ : out.err = none → JV kind o w.gridReset start sF)
    (hrep : replay kind o sF.w (mazeOf kind o w t sF.w) out.err (placementOrder kind o w t)
      (List.replicate (w.rows * w.cols) []) = true)
    (hmaze : out.err = none → kind = .maze →
      Maze.specMaze sF.w.rows sF.w.cols (sF.w.stOf o.target).pos (mazeOf kind o w t sF.w) = true) :
    specPlacement kind o w t out = true := by
  obtain ⟨f1, f2, f3⟩ := final_static hI
  unfold specPlacement
  simp only [hpost, f1, f2, f3, hrep, Bool.true_and, Bool.and_true]
  cases herr : out.err with
  | some e => rfl
  | none =>
    rw [herr] at hrep
    have hall := replay_none_all _ _ hrep
    have hG := hI.sameG
    have hn : sF.w.n = w.n := hG.n
    have hplaced : ∀ a, a < w.gridReset.n → ∃ i, a ∈ sF.w.cells.getD i [] := by
      intro a ha
      exact mem_of_placedIn (hall a (mem_placementOrder kind o w t ha)).1
    have h1 := final_posInv hI hplaced
    have h2 : fixedOnInit sF.w = true := by
      apply final_fixedOnInit (kind := kind) (o := o) (mz := mazeOf kind o w t sF.w)
      intro a ha
      rw [hn] at ha
      exact (hall a (mem_placementOrder kind o w t ha)).2
    have h3 := final_alone hI (hJ herr) hplaced
    simp only [Option.isSome_none, Bool.false_or, h1, h2, h3, Bool.true_and]
    by_cases hk : kind = .maze
    · rw [hmaze herr hk]; simp
    · have : (kind != PKind.maze) = true := by simpa using hk
      simp [this]

theorem order_facts (o : PlaceOpts) (w : World) (t : Tape) :
    (placementListing o w.gridReset t).1.Nodup ∧
    ∀ a ∈ (placementListing o w.gridReset t).1, a < w.gridReset.n := by
  have hp := listing_perm o w t
  exact ⟨hp.nodup_iff.mpr List.nodup_range, fun a ha => List.mem_range.mp (hp.mem_iff.mp ha)⟩

/-- **PositionState.reset** satisfies the specification -/
theorem position_spec (o : PlaceOpts) (w : World) (t : Tape) (hwf : wfPlacement .position o w = true) :
    specPlacement .position o w t (positionResetX o w t).1 = true := by
  have hW := wfp_of_wf hwf
  obtain ⟨av, hav, hav2, hav3⟩ := buildPosition_some (w := w.gridReset) hW.npos
  obtain ⟨base, hbase⟩ : ∃ base : Int → List Nat, base = fun _ => List.range (w.rows * w.cols) := ⟨_, rfl⟩
  have hC : RCtx .position o w.gridReset base [] (0, 0) := by
    constructor
    · exact hW.sym
    · intro e; rw [hbase]; exact List.nodup_range
    · intro a _ c
      rw [hbase]
      simp [baseOK, gridReset]
    · exact hW.fixedIn
    · intro _ h; exact absurd rfl h
    · intro _ h; exact absurd rfl h
    · intro _ h; exact absurd rfl h
  obtain ⟨s0, hs0⟩ : ∃ s0 : PSt, s0 = ⟨w.gridReset, av, (placementListing o w.gridReset t).2⟩ := ⟨_, rfl⟩
  have hI0 : PInv w.gridReset o.noOverlap base s0 := by
    rw [hs0]
    exact pinv_init w _ _ _ _ hW.lenS (fun x hx => by rw [hbase]; exact hav2 x hx)
  have hJ0 : JF .position o w.gridReset (0, 0) s0 := by
    refine ⟨?_, fun h => absurd rfl h, ?_⟩
    · intro a ha
      rw [hs0]
      exact hav3 a ha (hW.enc rfl a ha)
    · intro _ i a ha
      rw [hs0, gridReset_cells_getD] at ha; cases ha
  obtain ⟨hnd, hlt⟩ := order_facts o w t
  obtain ⟨sF, g1, g2, _, g4, g5⟩ := placeAll_replay hC (placementListing o w.gridReset t).1 s0 hI0 hJ0 hnd
    (fun a ha _ => ⟨hlt a ha, by rw [hs0]; exact gridReset_unplaced _ _⟩)
  have hres : (positionResetX o w t).1 = (placeAll .position o (placementListing o w.gridReset t).1 s0).1 := by
    simp only [positionResetX, hav, hs0]
  rw [hres]
  apply spec_of_final g1 g2 g4
  · have hm : mazeOf .position o w t sF.w = [] := rfl
    rw [hm]
    have hord : placementOrder .position o w t =
        (placementListing o w.gridReset t).1.filter (PF .position o w.gridReset) ++
        (placementListing o w.gridReset t).1.filter (PV .position o w.gridReset) := by
      unfold placementOrder
      rw [listing_eq]
      rfl
    rw [hord]
    have hc : List.replicate (w.rows * w.cols) ([] : List Aid) = s0.w.cells := by rw [hs0]; rfl
    rw [hc]
    exact g5
  · intro _ h; cases h

end Abmarl

namespace Abmarl
open World

/-! ### the target and maze states -/

/-- the maze of a reset in terms of the model's values -/
def mzModel (kind : PKind) (rows cols : Nat) (start : Pos) (tp : Tape) : List Nat :=
  if kind == .maze then
    match Maze.generateMaze rows cols start tp with
    | .ok r => r.1
    | .error _ => []
  else []

theorem inGrid_iff_start {w : World} {p : Pos} : w.inGrid p = true ↔ Maze.startInGrid w.rows w.cols p := by
  simp only [inGrid, Bool.and_eq_true, decide_eq_true_eq, Maze.startInGrid]
  constructor
  · rintro ⟨⟨⟨a, b⟩, c⟩, d⟩; exact ⟨a, b, c, d⟩
  · rintro ⟨a, b, c, d⟩; exact ⟨⟨⟨a, b⟩, c⟩, d⟩

theorem baseLists_ok (kind : PKind) (w0 : World) (start : Pos) (tp : Tape)
    (hs : w0.inGrid start = true) :
    ∃ b0 f0 t', baseLists kind w0 start tp = .ok ((b0, f0), t') ∧ b0.Nodup ∧ f0.Nodup ∧
      (∀ c, c ∈ b0 ↔ (c < w0.rows * w0.cols ∧
        (kind = .maze → (mzModel kind w0.rows w0.cols start tp).getD c 1 = 1))) ∧
      (∀ c, c ∈ f0 ↔ (c < w0.rows * w0.cols ∧
        (kind = .maze → (mzModel kind w0.rows w0.cols start tp).getD c 1 = 0))) := by
  by_cases hk : kind = .maze
  · obtain ⟨r, hr⟩ := Maze.generateMaze_ok w0.rows w0.cols start tp (inGrid_iff_start.mp hs)
    have hm : mzModel kind w0.rows w0.cols start tp = r.1 := by
      simp [mzModel, hk, hr]
    refine ⟨(List.range (w0.rows * w0.cols)).filter (fun i => r.1.getD i 1 == 1),
      (List.range (w0.rows * w0.cols)).filter (fun i => r.1.getD i 1 == 0), r.2, ?_,
      List.nodup_range.sublist List.filter_sublist,
      List.nodup_range.sublist List.filter_sublist, ?_, ?_⟩
    · unfold baseLists
      rw [if_pos (by simp [hk]), hr]
    · intro c
      rw [hm]
      simp only [List.mem_filter, List.mem_range, beq_iff_eq]
      exact ⟨fun h => ⟨h.1, fun _ => h.2⟩, fun h => ⟨h.1, h.2 hk⟩⟩
    · intro c
      rw [hm]
      simp only [List.mem_filter, List.mem_range, beq_iff_eq]
      exact ⟨fun h => ⟨h.1, fun _ => h.2⟩, fun h => ⟨h.1, h.2 hk⟩⟩
  · have hb : (kind == PKind.maze) = false := by simpa using hk
    refine ⟨List.range (w0.rows * w0.cols), List.range (w0.rows * w0.cols), tp, by simp [baseLists, hb],
      List.nodup_range, List.nodup_range, ?_, ?_⟩
    · intro c; simp only [List.mem_range]
      exact ⟨fun h => ⟨h, fun h' => absurd h' hk⟩, fun h => h.1⟩
    · intro c; simp only [List.mem_range]
      exact ⟨fun h => ⟨h, fun h' => absurd h' hk⟩, fun h => h.1⟩

theorem sortFar_facts (w : World) (start : Pos) (l : List Nat) :
    (sortFar w start l).Perm l ∧
    (sortFar w start l).Pairwise
      (fun a b => sqDist (w.unravel b) start ≤ sqDist (w.unravel a) start) := by
  refine ⟨List.mergeSort_perm _ _, ?_⟩
  have := List.pairwise_mergeSort
    (le := fun a b => decide (sqDist (w.unravel a) start ≥ sqDist (w.unravel b) start))
    (fun a b c h1 h2 => by
      simp only [decide_eq_true_eq, ge_iff_le] at h1 h2 ⊢; exact Int.le_trans h2 h1)
    (fun a b => by
      simp only [Bool.or_eq_true, decide_eq_true_eq, ge_iff_le]; exact (Int.le_total _ _).symm) l
  exact this.imp (fun h => by simpa using h)

theorem sortNear_facts (w : World) (start : Pos) (l : List Nat) :
    (sortNear w start l).Perm l ∧
    (sortNear w start l).Pairwise
      (fun a b => sqDist (w.unravel a) start ≤ sqDist (w.unravel b) start) := by
  refine ⟨List.mergeSort_perm _ _, ?_⟩
  have := List.pairwise_mergeSort
    (le := fun a b => decide (sqDist (w.unravel a) start ≤ sqDist (w.unravel b) start))
    (fun a b c h1 h2 => by
      simp only [decide_eq_true_eq] at h1 h2 ⊢; exact Int.le_trans h1 h2)
    (fun a b => by
      simp only [Bool.or_eq_true, decide_eq_true_eq]; exact Int.le_total _ _) l
  exact this.imp (fun h => by simpa using h)

theorem baseOK_iff {kind : PKind} {o : PlaceOpts} {mz : List Nat} {e : Int} {c : Nat} :
    baseOK kind o mz e c = true ↔
      (kind = .maze → (o.barrier.contains e = true → mz.getD c 1 = 1) ∧
                       (o.free.contains e = true → mz.getD c 1 = 0)) := by
  unfold baseOK
  by_cases hk : kind = .maze
  · subst hk
    simp only [bne_self_eq_false, Bool.false_or, Bool.and_eq_true, Bool.or_eq_true,
      Bool.not_eq_true', beq_iff_eq, forall_const]
    constructor
    · rintro ⟨h1, h2⟩
      refine ⟨fun hb => ?_, fun hf => ?_⟩
      · rcases h1 with h | h
        · rw [hb] at h; cases h
        · exact h
      · rcases h2 with h | h
        · rw [hf] at h; cases h
        · exact h
    · rintro ⟨h1, h2⟩
      refine ⟨?_, ?_⟩
      · cases hb : o.barrier.contains e with
        | false => exact Or.inl rfl
        | true => exact Or.inr (h1 hb)
      · cases hf : o.free.contains e with
        | false => exact Or.inl rfl
        | true => exact Or.inr (h2 hf)
  · have : (kind != PKind.maze) = true := by simpa using hk
    simp [this, hk]

theorem rctx_tb {kind : PKind} {o : PlaceOpts} {w : World} (hW : WFP kind o w) (hkind : kind ≠ .position)
    (start : Pos) (mz b0 f0 : List Nat) (hb0nd : b0.Nodup) (hf0nd : f0.Nodup)
    (hb0 : ∀ c, c ∈ b0 ↔ (c < w.rows * w.cols ∧ (kind = .maze → mz.getD c 1 = 1)))
    (hf0 : ∀ c, c ∈ f0 ↔ (c < w.rows * w.cols ∧ (kind = .maze → mz.getD c 1 = 0)))
    (hcov : ∀ a, a < w.n → (o.barrier ++ o.free).contains (w.encOf a) = true) :
    RCtx kind o w.gridReset
      (fun e => if o.free.contains e then
          (if o.scatter then sortNear w.gridReset start f0 else f0)
        else (if o.cluster then sortFar w.gridReset start b0 else b0)) mz start := by
  have hfl : ∀ c, c ∈ (if o.scatter then sortNear w.gridReset start f0 else f0) ↔ c ∈ f0 := by
    intro c; split
    · exact (sortNear_facts _ _ _).1.mem_iff
    · exact Iff.rfl
  have hbl : ∀ c, c ∈ (if o.cluster then sortFar w.gridReset start b0 else b0) ↔ c ∈ b0 := by
    intro c; split
    · exact (sortFar_facts _ _ _).1.mem_iff
    · exact Iff.rfl
  constructor
  · exact hW.sym
  · intro e
    split
    · split
      · exact (sortNear_facts _ _ _).1.nodup_iff.mpr hf0nd
      · exact hf0nd
    · split
      · exact (sortFar_facts _ _ _).1.nodup_iff.mpr hb0nd
      · exact hb0nd
  · intro a ha c
    have hc := hcov a ha
    have henc : w.gridReset.encOf a = w.encOf a := rfl
    have hrc : w.gridReset.rows * w.gridReset.cols = w.rows * w.cols := rfl
    rw [henc, hrc, baseOK_iff]
    cases hf : o.free.contains (w.encOf a) with
    | true =>
      have hnb : o.barrier.contains (w.encOf a) = false := by
        cases hb : o.barrier.contains (w.encOf a) with
        | false => rfl
        | true => have := hW.disj hkind _ hb; rw [hf] at this; cases this
      simp only [if_true, hfl, hf0, hnb, Bool.false_eq_true, false_implies, true_and, forall_const]
    | false =>
      have hb : o.barrier.contains (w.encOf a) = true := by
        simp only [List.contains_eq_mem, List.mem_append, decide_eq_true_eq] at hc
        rcases hc with h | h
        · simpa using h
        · have : o.free.contains (w.encOf a) = true := by simpa using h
          rw [hf] at this; cases this
      simp only [Bool.false_eq_true, if_false, hbl, hb0, hb, forall_const, false_implies, and_true]
  · exact hW.fixedIn
  · intro e _ hb hcl
    have hf : o.free.contains e = false := hW.disj hkind e hb
    simp only [hf, Bool.false_eq_true, if_false, hcl, if_true]
    exact (sortFar_facts _ _ _).2
  · intro e _ _ hf hsc
    simp only [hf, if_true, hsc]
    exact (sortNear_facts _ _ _).2
  · exact hW.clash

end Abmarl

namespace Abmarl
open World

theorem placementOrder_tb {kind : PKind} (hkind : kind ≠ .position) (o : PlaceOpts) (w : World) (t : Tape) :
    placementOrder kind o w t =
      o.target :: ((placementListing o w.gridReset t).1.filter (PF kind o w.gridReset) ++
                   (placementListing o w.gridReset t).1.filter (PV kind o w.gridReset)) := by
  unfold placementOrder
  rw [listing_eq]
  have : (kind == PKind.position) = false := by simpa using hkind
  simp only [this, Bool.false_eq_true, if_false, List.cons_append, List.nil_append]
  rfl

theorem randint_range (n : Nat) (hn : 0 < n) (t : Tape) :
    0 ≤ (Oracle.randint 0 (n : Int) t).1 ∧ (Oracle.randint 0 (n : Int) t).1 < n ∧
    (Oracle.randint 0 (n : Int) t).2 = t.tail := by
  have hn' : (0 : Int) < n := by exact_mod_cast hn
  refine ⟨?_, ?_, rfl⟩ <;> simp only [Oracle.randint, Oracle.pop, Int.sub_zero, Int.zero_add]
  · exact Int.emod_nonneg _ (by omega)
  · exact Int.emod_lt_of_pos _ hn'

theorem targetStart_facts {kind : PKind} {o : PlaceOpts} {w : World} (hW : WFP kind o w) (tp : Tape) :
    w.gridReset.inGrid (targetStart o w.gridReset tp).1 = true ∧
    (∀ q, (w.gridReset.cfgOf o.target).initPos = some q → (targetStart o w.gridReset tp).1 = q) ∧
    (targetStart o w.gridReset tp).2 = (if isFixed w o.target then tp else tp.tail.tail) := by
  unfold targetStart
  cases hi : (w.gridReset.cfgOf o.target).initPos with
  | some p =>
    have hf : isFixed w o.target = true := by
      have : (w.cfgOf o.target).initPos = some p := hi
      simp [isFixed, this]
    refine ⟨hW.fixedIn _ _ hi, fun q hq => ?_, by simp [hf]⟩
    simp only [Option.some.injEq] at hq; exact hq
  | none =>
    have hf : isFixed w o.target = false := by
      have : (w.cfgOf o.target).initPos = none := hi
      simp [isFixed, this]
    obtain ⟨r1, r2, r3⟩ := randint_range w.rows hW.rows tp
    obtain ⟨c1, c2, c3⟩ := randint_range w.cols hW.cols (Oracle.randint 0 (w.rows : Int) tp).2
    refine ⟨?_, fun q hq => (by cases hq), ?_⟩
    · simp only [inGrid, Bool.and_eq_true, decide_eq_true_eq]
      exact ⟨⟨⟨r1, r2⟩, c1⟩, c2⟩
    · simp only [hf, Bool.false_eq_true, if_false]
      show (Oracle.randint 0 (w.cols : Int) (Oracle.randint 0 (w.rows : Int) tp).2).2 = _
      rw [c3, r3]

theorem mazeTape_eq (o : PlaceOpts) (w : World) (t : Tape) :
    mazeTape o w t =
      (if isFixed w o.target then (placementListing o w.gridReset t).2
       else (placementListing o w.gridReset t).2.tail.tail) := by
  unfold mazeTape
  rw [listing_tape]

/-- **TargetBarriersFreePlacementState.reset / MazePlacementState.reset** satisfy the specification -/
theorem tb_spec (kind : PKind) (hkind : kind ≠ .position) (o : PlaceOpts) (w : World) (t : Tape)
    (hwf : wfPlacement kind o w = true) :
    specPlacement kind o w t (tbResetX kind o w t).1 = true := by
  have hW := wfp_of_wf hwf
  obtain ⟨sh, hsh⟩ : ∃ sh, sh = placementListing o w.gridReset t := ⟨_, rfl⟩
  have htrole : isTargetRole kind o o.target = true := by simp [isTargetRole, hkind]
  by_cases hcov : (w.gridReset.cfg.all fun c => (o.barrier ++ o.free).contains c.enc) = true
  · -- encodings covered
    have hcovA : ∀ a, a < w.n → (o.barrier ++ o.free).contains (w.encOf a) = true := by
      intro a ha
      rw [List.all_eq_true] at hcov
      have ha' : a < w.cfg.length := ha
      have : w.encOf a = (w.cfg[a]).enc := by
        simp only [encOf, cfgOf]
        rw [List.getD_eq_getElem?_getD, List.getElem?_eq_getElem ha', Option.getD_some]
      rw [this]
      exact hcov _ (List.getElem_mem ha')
    obtain ⟨st, hst⟩ : ∃ st, st = targetStart o w.gridReset sh.2 := ⟨_, rfl⟩
    obtain ⟨s_in, s_init, s_tape⟩ := targetStart_facts hW sh.2
    rw [← hst] at s_in s_init s_tape
    obtain ⟨b0, f0, t', hbl, hb0nd, hf0nd, hb0, hf0⟩ := baseLists_ok kind w.gridReset st.1 st.2 s_in
    obtain ⟨mz, hmz⟩ : ∃ mz, mz = mzModel kind w.gridReset.rows w.gridReset.cols st.1 st.2 := ⟨_, rfl⟩
    rw [← hmz] at hb0 hf0
    obtain ⟨bl, hbldef⟩ : ∃ bl, bl = (if o.cluster then sortFar w.gridReset st.1 b0 else b0) := ⟨_, rfl⟩
    obtain ⟨fl, hfldef⟩ : ∃ fl, fl = (if o.scatter then sortNear w.gridReset st.1 f0 else f0) := ⟨_, rfl⟩
    have hbuild : buildTB kind o w.gridReset st.1 st.2 = .ok (mkAvail o bl fl, t') := by
      simp only [buildTB, hbl, hbldef, hfldef]
    have hC := rctx_tb hW hkind st.1 mz b0 f0 hb0nd hf0nd hb0 hf0 hcovA
    rw [← hbldef, ← hfldef] at hC
    obtain ⟨base, hbase⟩ : ∃ base : Int → List Nat, base = fun e => if o.free.contains e then fl else bl :=
      ⟨_, rfl⟩
    rw [← hbase] at hC
    -- the state after `_build_available_positions`
    have hav : ∀ x ∈ mkAvail o bl fl, x.2 = base x.1 := by
      intro x hx
      rw [hbase]
      simp only [mkAvail, List.mem_append, List.mem_map, List.mem_filter] at hx
      rcases hx with ⟨e, ⟨_, he⟩, rfl⟩ | ⟨e, he, rfl⟩
      · have : o.free.contains e = false := by simpa using he
        show bl = if o.free.contains e then fl else bl
        rw [this]; rfl
      · have : o.free.contains e = true := by simpa using he
        show fl = if o.free.contains e then fl else bl
        rw [this]; rfl
    have hI0 : PInv w.gridReset o.noOverlap base ⟨w.gridReset, mkAvail o bl fl, t'⟩ :=
      pinv_init w _ _ _ _ hW.lenS hav
    have hK0 : Keys w.gridReset ⟨w.gridReset, mkAvail o bl fl, t'⟩ := by
      intro a ha
      have hc := hcovA a ha
      have henc : w.gridReset.encOf a = w.encOf a := rfl
      rw [henc]
      cases hf : o.free.contains (w.encOf a) with
      | true =>
        apply lookup_isSome_of_mem _ _ fl
        simp only [mkAvail, List.mem_append, List.mem_map]
        right
        exact ⟨_, by simpa using hf, rfl⟩
      | false =>
        apply lookup_isSome_of_mem _ _ bl
        simp only [mkAvail, List.mem_append, List.mem_map, List.mem_filter]
        left
        refine ⟨_, ⟨?_, by rw [hf]; rfl⟩, rfl⟩
        simp only [List.contains_eq_mem, List.mem_append, decide_eq_true_eq] at hc
        rcases hc with h | h
        · exact h
        · have : o.free.contains (w.encOf a) = true := by simpa using h
          rw [hf] at this; cases this
    obtain ⟨s1, p1, p2, p3, p4, p5, p6⟩ :=
      target_sound hC hkind (mkAvail o bl fl) t' hI0 hK0 (hW.tgt hkind) s_in s_init
    obtain ⟨hnd, hlt⟩ := order_facts o w t
    rw [← hsh] at hnd hlt
    obtain ⟨sF, g1, g2, g3, g4, g5⟩ := placeAll_replay hC sh.1 s1 p2 p3 hnd
      (fun a ha hr => ⟨hlt a ha, p5 a (isTargetRole_false_ne hr hkind)⟩)
    have hres : (tbResetX kind o w t).1 = (placeAll kind o sh.1 s1).1 := by
      unfold tbResetX
      simp only [← hsh, hcov, if_true, ← hst, hbuild, p1]
    rw [hres]
    -- the target stands on the start in the outcome
    have htpos : (sF.w.stOf o.target).pos = st.1 := by
      obtain ⟨⟨i, hi⟩, hp⟩ := p3.2.1 hkind
      rw [(g3.keep i _ hi).2]; exact hp
    have hGF := g2.sameG
    have hmaze : mazeOf kind o w t sF.w = mz := by
      unfold mazeOf
      rw [hmz, htpos, hGF.rows, hGF.cols, mazeTape_eq, ← hsh, ← s_tape]
      rfl
    apply spec_of_final g1 g2 g4
    · rw [hmaze, placementOrder_tb hkind, ← hsh]
      exact p6 _ sF.w _ g3 g5
    · intro _ hk
      rw [hmaze, htpos, hGF.rows, hGF.cols, hmz]
      obtain ⟨r, hr⟩ := Maze.generateMaze_ok w.gridReset.rows w.gridReset.cols st.1 st.2
        (inGrid_iff_start.mp s_in)
      have : mzModel kind w.gridReset.rows w.gridReset.cols st.1 st.2 = r.1 := by
        simp [mzModel, hk, hr]
      rw [this]
      exact Maze.generateMaze_spec hr
  · -- an encoding is neither barrier nor free: the assertion, before anything is placed
    have hres : (tbResetX kind o w t).1 = ⟨some .assertion, w.gridReset⟩ := by
      unfold tbResetX
      simp only [hcov, Bool.false_eq_true, if_false]
    rw [hres]
    have hI0 : PInv w.gridReset o.noOverlap (fun _ => []) ⟨w.gridReset, [], t⟩ :=
      pinv_init w _ _ _ _ hW.lenS (fun x hx => by cases hx)
    apply spec_of_final (sF := ⟨w.gridReset, [], t⟩) (start := (0, 0)) rfl hI0 (fun h => by cases h)
    · rw [placementOrder_tb hkind]
      unfold replay
      rw [if_neg (by rw [placedIn_false (gridReset_unplaced _ _)]; simp)]
      have hcov' : (w.gridReset.cfg.all fun c => (o.barrier ++ o.free).contains c.enc) = false := by
        simpa using hcov
      simp only [errJustified, htrole, if_true, hcov', Bool.not_false, Bool.and_true]
      simp [gridReset]
    · intro h; cases h

/-- **place_ok_spec**: for all worlds, options and tapes, the outcome of the model's reset satisfies
`specPlacement` -/
theorem resetX_spec (kind : PKind) (o : PlaceOpts) (w : World) (t : Tape)
    (hwf : wfPlacement kind o w = true) : specPlacement kind o w t (resetX kind o w t).1 = true := by
  unfold resetX
  by_cases hk : kind = .position
  · subst hk
    simp only [beq_self_eq_true, if_true]
    exact position_spec o w t hwf
  · have : (kind == PKind.position) = false := by simpa using hk
    simp only [this, Bool.false_eq_true, if_false]
    exact tb_spec kind hk o w t hwf

end Abmarl
