import Abmarl.Lemmas.Grid
/-!
# The world invariant `WInv` (C03) is preserved by moves
-/
namespace Abmarl
namespace World

/-- Prop reading of `wCell` -/
theorem wCell_reading (w : World) (i : Nat) :
    w.wCell i = true ↔
      ((w.cells.getD i []).Nodup ∧
       (∀ a ∈ w.cells.getD i [], a < w.n ∧ (w.stOf a).active = true ∧ w.inGrid (w.stOf a).pos = true ∧
          w.idx (w.stOf a).pos = i) ∧
       (∀ a ∈ w.cells.getD i [], ∀ b ∈ w.cells.getD i [], a = b ∨ w.pairOK (w.encOf a) (w.encOf b) = true)) := by
  simp only [wCell, Bool.and_eq_true, decide_eq_true_eq, List.all_eq_true, beq_iff_eq, Bool.or_eq_true,
    and_assoc]

/-- Prop reading of `wAgent` -/
theorem wAgent_reading (w : World) (a : Aid) :
    w.wAgent a = true ↔
      (((w.stOf a).active = true → w.inGrid (w.stOf a).pos = true ∧ a ∈ w.cell (w.stOf a).pos) ∧
       0 ≤ (w.stOf a).health ∧ (w.stOf a).health ≤ 1 ∧
       ((w.stOf a).active = decide (0 < (w.stOf a).health)) ∧ 0 ≤ (w.stOf a).ammo ∧
       ((w.cfgOf a).hasAmmo = true → (w.stOf a).ammo ≤ max 0 (w.cfgOf a).initAmmo) ∧
       ((w.cfgOf a).hasOrient = true → 1 ≤ (w.stOf a).orient ∧ (w.stOf a).orient ≤ 4)) := by
  simp only [wAgent, Bool.and_eq_true, decide_eq_true_eq, beq_iff_eq, Bool.or_eq_true, Bool.not_eq_true',
    and_assoc]
  constructor
  · rintro ⟨h1, h2, h3, h4, h5, h6, h7⟩
    refine ⟨?_, h2, h3, h4, h5, ?_, ?_⟩
    · intro ha; rcases h1 with h | h
      · rw [ha] at h; cases h
      · exact h
    · intro ha; rcases h6 with h | h
      · rw [ha] at h; cases h
      · exact h
    · intro ha; rcases h7 with h | h
      · rw [ha] at h; cases h
      · exact h
  · rintro ⟨h1, h2, h3, h4, h5, h6, h7⟩
    refine ⟨?_, h2, h3, h4, h5, ?_, ?_⟩
    · cases ha : (w.stOf a).active with
      | false => exact Or.inl rfl
      | true => exact Or.inr (h1 ha)
    · cases ha : (w.cfgOf a).hasAmmo with
      | false => exact Or.inl rfl
      | true => exact Or.inr (h6 ha)
    · cases ha : (w.cfgOf a).hasOrient with
      | false => exact Or.inl rfl
      | true => exact Or.inr (h7 ha)

theorem WInv_parts_iff (w : World) :
    w.WInv = true ↔
      (w.wShape = true ∧ (∀ i < w.rows * w.cols, w.wCell i = true) ∧ (∀ a < w.n, w.wAgent a = true) ∧
        w.wOverlapSym = true) := by
  simp only [WInv, Bool.and_eq_true, List.all_eq_true, allCells, allAgents, List.mem_range, and_assoc]

theorem mem_of_lookup_int {β : Type} (l : List (Int × β)) (e : Int) (s : β) (h : l.lookup e = some s) :
    (e, s) ∈ l := by
  induction l with
  | nil => simp at h
  | cons p ps ih =>
    by_cases he : e = p.1
    · have : (e == p.1) = true := by simpa using he
      simp only [List.lookup, this, Option.some.injEq] at h
      subst h; subst he; simp
    · have : (e == p.1) = false := by simpa using he
      simp only [List.lookup, this] at h
      exact List.mem_cons_of_mem _ (ih h)

/-- the overlapping table is symmetric -/
theorem pairOK_symm_of_table {w : World} (h : w.wOverlapSym = true) {e1 e2 : Int}
    (hp : w.pairOK e1 e2 = true) : w.pairOK e2 e1 = true := by
  unfold pairOK at hp
  cases hl : w.overlap.lookup e1 with
  | none => rw [hl] at hp; cases hp
  | some s =>
    rw [hl] at hp
    simp only [decide_eq_true_eq] at hp
    simp only [wOverlapSym, List.all_eq_true] at h
    exact h (e1, s) (mem_of_lookup_int _ _ _ hl) e2 hp

end World
end Abmarl

namespace Abmarl
namespace World

theorem sameStatic_iff (w w' : World) :
    sameStatic w w' = true ↔
      (w.rows = w'.rows ∧ w.cols = w'.cols ∧ w.overlap = w'.overlap ∧ w.cfg = w'.cfg ∧
        w.cells.length = w'.cells.length ∧ w.st.length = w'.st.length) := by
  simp only [sameStatic, Bool.and_eq_true, beq_iff_eq, and_assoc]

/-- **moves preserve the world invariant** (the C03 step for the three move actors) -/
theorem move_preserves_WInv {w w' : World} {a : Aid} {d : Pos} {ok : Bool}
    (hI : w.WInv = true) (ha : a < w.n) (hact : (w.stOf a).active = true)
    (hs : specMoveBy w a d ok w' = true) : w'.WInv = true := by
  obtain ⟨hokfree, hstat, hmoved, hstay⟩ := specMoveBy_reading hs
  by_cases hnmv : ¬ (ok = true ∧ ((w.stOf a).pos.1 + d.1, (w.stOf a).pos.2 + d.2) ≠ (w.stOf a).pos)
  · rw [hstay hnmv]; exact hI
  have hmv := Classical.not_not.mp hnmv
  obtain ⟨hok, hne⟩ := hmv
  obtain ⟨src, hsrc⟩ : ∃ src, src = (w.stOf a).pos := ⟨_, rfl⟩
  obtain ⟨dst, hdst⟩ : ∃ dst : Pos, dst = (src.1 + d.1, src.2 + d.2) := ⟨_, rfl⟩
  rw [← hsrc] at hmoved hne
  rw [← hdst] at hmoved hne
  obtain ⟨hsta, hothers, hcsrc, hcdst, hcells⟩ := hmoved ⟨hok, hne⟩
  obtain ⟨hrows, hcols, hov, hcfg, hlenc, hlens⟩ := (sameStatic_iff w w').mp hstat
  obtain ⟨hshape, hcellsI, hagentsI, hsym⟩ := (WInv_parts_iff w).mp hI
  have hP : Placed w a := by
    -- (same derivation as `placed_of_WInv`, inlined to avoid a cyclic import)
    simp only [wShape, Bool.and_eq_true, beq_iff_eq] at hshape
    have hA := (wAgent_reading w a).mp (hagentsI a ha)
    refine ⟨hshape.1, by rw [hshape.2]; exact ha, (hA.1 hact).1, (hA.1 hact).2, ?_⟩
    intro i hi
    by_cases hil : i < w.rows * w.cols
    · exact (((wCell_reading w i).mp (hcellsI i hil)).2.1 a hi).2.2.2.symm
    · have : w.cells.getD i [] = [] := by
        simp only [List.getD_eq_getElem?_getD]
        rw [List.getElem?_eq_none (by omega)]; rfl
      rw [this] at hi; cases hi
  -- facts about the destination
  have hfree : w.destFree a d = true := by rw [← hokfree]; exact hok
  have hdfree : w.inGrid dst = true ∧
      ∀ o ∈ w.cell dst, w.pairOK (w.encOf a) (w.encOf o) = true := by
    simp only [destFree, ← hsrc, ← hdst, Bool.and_eq_true, Bool.or_eq_true, beq_iff_eq, List.all_eq_true] at hfree
    refine ⟨hfree.1, ?_⟩
    rcases hfree.2 with h | h
    · exact absurd h hne
    · exact h
  have hinsrc : w.inGrid src = true := hsrc ▸ hP.inG
  have hidxne : w.idx src ≠ w.idx dst := fun e => hne (idx_inj hdfree.1 hinsrc e.symm)
  have hidx' : ∀ p, w'.idx p = w.idx p := by intro p; simp [idx, hcols]
  have hinG' : ∀ p, w'.inGrid p = w.inGrid p := by intro p; simp [inGrid, hrows, hcols]
  have hn' : w'.n = w.n := by simp [n, hcfg]
  have henc' : ∀ b, w'.encOf b = w.encOf b := by intro b; simp [encOf, cfgOf, hcfg]
  have hcfg' : ∀ b, w'.cfgOf b = w.cfgOf b := by intro b; simp [cfgOf, hcfg]
  have hpair' : ∀ e1 e2, w'.pairOK e1 e2 = w.pairOK e1 e2 := by intro e1 e2; simp [pairOK, hov]
  have hst' : ∀ b, b < w.n → w'.stOf b = if b = a then { w.stOf a with pos := dst } else w.stOf b := by
    intro b hb
    by_cases hba : b = a
    · simp [hba, hsta]
    · simp [hba, hothers b hb hba]
  have hanotdst : a ∉ w.cell dst := by
    intro hc
    have := hP.only (w.idx dst) hc
    rw [← hsrc] at this
    exact hidxne this.symm
  have hcellsrc : w'.cells.getD (w.idx src) [] = (w.cell src).erase a := by
    have := hcsrc; simp only [cell, hidx'] at this; exact this
  have hcelldst : w'.cells.getD (w.idx dst) [] = w.cell dst ++ [a] := by
    have := hcdst; simp only [cell, hidx'] at this; exact this
  have hsl : w.idx src < w.rows * w.cols := idx_lt hinsrc
  have hdl : w.idx dst < w.rows * w.cols := idx_lt hdfree.1
  rw [WInv_parts_iff]
  refine ⟨?_, ?_, ?_, ?_⟩
  · -- shape
    simp only [wShape, Bool.and_eq_true, beq_iff_eq] at hshape ⊢
    exact ⟨by rw [← hlenc, ← hrows, ← hcols]; exact hshape.1, by rw [← hlens, ← hcfg]; exact hshape.2⟩
  · -- cells
    intro i hi
    rw [← hrows, ← hcols] at hi
    have hold := (wCell_reading w i).mp (hcellsI i hi)
    rw [wCell_reading]
    by_cases hisrc : i = w.idx src
    · -- the source cell lost the mover
      subst hisrc
      rw [hcellsrc]
      obtain ⟨hnd, hmem, hpw⟩ := hold
      have hnd' : (w.cell src).Nodup := hnd
      refine ⟨hnd'.erase a, ?_, ?_⟩
      · intro b hb
        have hb0 : b ∈ w.cell src := List.mem_of_mem_erase hb
        have hba : b ≠ a := fun e => by
          subst e; exact (List.Nodup.not_mem_erase hnd') hb
        obtain ⟨m1, m2, m3, m4⟩ := hmem b hb0
        rw [hn', hst' b m1, if_neg hba, hinG', hidx']
        exact ⟨m1, m2, m3, m4⟩
      · intro b hb c hc
        rw [henc', henc', hpair']
        exact hpw b (List.mem_of_mem_erase hb) c (List.mem_of_mem_erase hc)
    · by_cases hidst : i = w.idx dst
      · -- the destination cell gained the mover
        subst hidst
        rw [hcelldst]
        obtain ⟨hnd, hmem, hpw⟩ := hold
        have hnd' : (w.cell dst).Nodup := hnd
        refine ⟨?_, ?_, ?_⟩
        · rw [List.nodup_append]
          exact ⟨hnd', by simp, fun x hx y hy => by
            simp only [List.mem_singleton] at hy; subst hy
            exact fun e => hanotdst (e ▸ hx)⟩
        · intro b hb
          rcases List.mem_append.mp hb with hb | hb
          · have hba : b ≠ a := fun e => hanotdst (e ▸ hb)
            obtain ⟨m1, m2, m3, m4⟩ := hmem b hb
            rw [hn', hst' b m1, if_neg hba, hinG', hidx']
            exact ⟨m1, m2, m3, m4⟩
          · simp only [List.mem_singleton] at hb
            subst hb
            rw [hn', hst' b ha, if_pos rfl, hinG', hidx']
            exact ⟨ha, hact, hdfree.1, rfl⟩
        · intro b hb c hc
          rw [henc', henc', hpair']
          rcases List.mem_append.mp hb with hb1 | hb1 <;> rcases List.mem_append.mp hc with hc1 | hc1
          · exact hpw b hb1 c hc1
          · simp only [List.mem_singleton] at hc1
            rw [hc1]
            exact Or.inr (pairOK_symm_of_table hsym (hdfree.2 b hb1))
          · simp only [List.mem_singleton] at hb1
            rw [hb1]
            exact Or.inr (hdfree.2 c hc1)
          · simp only [List.mem_singleton] at hb1 hc1
            exact Or.inl (hb1.trans hc1.symm)
      · -- every other cell is untouched and does not hold the mover
        rw [hcells i hi hisrc hidst]
        obtain ⟨hnd, hmem, hpw⟩ := hold
        refine ⟨hnd, ?_, ?_⟩
        · intro b hb
          have hba : b ≠ a := fun e => by
            subst e
            have := hP.only i hb
            rw [← hsrc] at this
            exact hisrc this
          obtain ⟨m1, m2, m3, m4⟩ := hmem b hb
          rw [hn', hst' b m1, if_neg hba, hinG', hidx']
          exact ⟨m1, m2, m3, m4⟩
        · intro b hb c hc
          rw [henc', henc', hpair']
          exact hpw b hb c hc
  · -- agents
    intro b hb
    rw [hn'] at hb
    have hold := (wAgent_reading w b).mp (hagentsI b hb)
    rw [wAgent_reading, hcfg']
    by_cases hba : b = a
    · subst hba
      rw [hst' b hb, if_pos rfl]
      obtain ⟨_, h2, h3, h4, h5, h6, h7⟩ := hold
      refine ⟨fun _ => ?_, h2, h3, h4, h5, h6, h7⟩
      simp only [cell, hidx', hinG']
      rw [hcelldst]
      exact ⟨hdfree.1, by simp⟩
    · rw [hst' b hb, if_neg hba]
      obtain ⟨h1, h2, h3, h4, h5, h6, h7⟩ := hold
      refine ⟨fun hbact => ?_, h2, h3, h4, h5, h6, h7⟩
      obtain ⟨hg, hm⟩ := h1 hbact
      rw [hinG']
      refine ⟨hg, ?_⟩
      simp only [cell, hidx']
      have hm' : b ∈ w.cells.getD (w.idx (w.stOf b).pos) [] := hm
      by_cases h1' : w.idx (w.stOf b).pos = w.idx src
      · rw [h1', hcellsrc]
        rw [h1'] at hm'
        exact (List.mem_erase_of_ne hba).mpr hm'
      · by_cases h2' : w.idx (w.stOf b).pos = w.idx dst
        · rw [h2', hcelldst]
          rw [h2'] at hm'
          exact List.mem_append_left _ hm'
        · rw [hcells _ (idx_lt hg) h1' h2']
          exact hm'
  · -- the table did not change
    simp only [wOverlapSym, List.all_eq_true] at hsym ⊢
    rw [← hov]
    intro p hp x hx
    rw [hpair']
    exact hsym p hp x hx

end World
end Abmarl

namespace Abmarl
namespace World

/-- changing only an agent's orientation (to one of the four directions) keeps the invariant -/
theorem orient_preserves_WInv {w : World} {a : Aid} (hI : w.WInv = true) (ha : a < w.n) (x : Nat)
    (hx : 1 ≤ x ∧ x ≤ 4) : (w.setSt a { w.stOf a with orient := x }).WInv = true := by
  obtain ⟨hshape, hcellsI, hagentsI, hsym⟩ := (WInv_parts_iff w).mp hI
  have hlen : a < w.st.length := by
    simp only [wShape, Bool.and_eq_true, beq_iff_eq] at hshape
    rw [hshape.2]; exact ha
  obtain ⟨w', hw'⟩ : ∃ w', w' = w.setSt a { w.stOf a with orient := x } := ⟨_, rfl⟩
  rw [← hw']
  have hst' : ∀ b, w'.stOf b = if b = a then { w.stOf a with orient := x } else w.stOf b := by
    intro b
    by_cases hba : b = a
    · subst hba; rw [hw', stOf_setSt_same _ _ _ hlen]; simp
    · rw [hw']; simp only [setSt, stOf, hba, if_false]
      exact getD_set_ne _ _ _ _ _ (fun e => hba e.symm)
  have hcells' : w'.cells = w.cells := by rw [hw']; rfl
  have hrows : w'.rows = w.rows := by rw [hw']; rfl
  have hcols : w'.cols = w.cols := by rw [hw']; rfl
  have hcfg : w'.cfg = w.cfg := by rw [hw']; rfl
  have hov : w'.overlap = w.overlap := by rw [hw']; rfl
  have hidx' : ∀ p, w'.idx p = w.idx p := by intro p; simp [idx, hcols]
  have hinG' : ∀ p, w'.inGrid p = w.inGrid p := by intro p; simp [inGrid, hrows, hcols]
  have hn' : w'.n = w.n := by simp [n, hcfg]
  have henc' : ∀ b, w'.encOf b = w.encOf b := by intro b; simp [encOf, cfgOf, hcfg]
  have hcfg' : ∀ b, w'.cfgOf b = w.cfgOf b := by intro b; simp [cfgOf, hcfg]
  have hpair' : ∀ e1 e2, w'.pairOK e1 e2 = w.pairOK e1 e2 := by intro e1 e2; simp [pairOK, hov]
  -- position, health, activity and ammunition of everybody are unchanged
  have hpos : ∀ b, (w'.stOf b).pos = (w.stOf b).pos ∧ (w'.stOf b).active = (w.stOf b).active ∧
      (w'.stOf b).health = (w.stOf b).health ∧ (w'.stOf b).ammo = (w.stOf b).ammo := by
    intro b; rw [hst' b]; by_cases hba : b = a <;> simp [hba]
  rw [WInv_parts_iff]
  refine ⟨?_, ?_, ?_, ?_⟩
  · simp only [wShape, Bool.and_eq_true, beq_iff_eq] at hshape ⊢
    rw [hcells', hrows, hcols, hcfg]
    refine ⟨hshape.1, ?_⟩
    rw [hw']; simp [setSt, hshape.2]
  · intro i hi
    rw [hrows, hcols] at hi
    have hold := (wCell_reading w i).mp (hcellsI i hi)
    rw [wCell_reading, hcells']
    obtain ⟨hnd, hmem, hpw⟩ := hold
    refine ⟨hnd, ?_, ?_⟩
    · intro b hb
      obtain ⟨m1, m2, m3, m4⟩ := hmem b hb
      rw [hn', (hpos b).1, (hpos b).2.1, hinG', hidx']
      exact ⟨m1, m2, m3, m4⟩
    · intro b hb c hc
      rw [henc', henc', hpair']; exact hpw b hb c hc
  · intro b hb
    rw [hn'] at hb
    have hold := (wAgent_reading w b).mp (hagentsI b hb)
    rw [wAgent_reading, hcfg', (hpos b).1, (hpos b).2.1, (hpos b).2.2.1, (hpos b).2.2.2, hinG']
    obtain ⟨h1, h2, h3, h4, h5, h6, h7⟩ := hold
    refine ⟨?_, h2, h3, h4, h5, h6, ?_⟩
    · intro hbact
      obtain ⟨hg, hm⟩ := h1 hbact
      refine ⟨hg, ?_⟩
      simp only [cell, hidx', hcells']; exact hm
    · intro ho
      rw [hst' b]
      by_cases hba : b = a
      · simp [hba]; exact hx
      · simp only [hba, if_false]; exact h7 ho
  · simp only [wOverlapSym, List.all_eq_true] at hsym ⊢
    rw [hov]
    intro p hp y hy
    rw [hpair']; exact hsym p hp y hy

end World
end Abmarl
