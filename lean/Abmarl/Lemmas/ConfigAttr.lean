import Abmarl.Spec.Config
import Mathlib.Data.Rat.Defs
import Mathlib.Tactic.Tauto
/-!
# Lemmas for C19: what each setter accepts, and that this meets the documented rule

Part 1: `…_accepts_iff` — for every validated attribute, acceptance by the model's setter is
equivalent to a first-order description of the admissible values (for **all** `PyVal`).
Part 2: `…_ok` — the outcome of the model satisfies `specAccept` attribute by attribute.
-/
namespace Abmarl
namespace Cfg

/-! ## Part 1: what is accepted -/

theorem id_accepts_iff (v : PyVal) : acceptId v = true ↔ ∃ s, v = .str s := by
  cases v <;> simp [acceptId]

theorem seed_accepts_iff (v : PyVal) : acceptSeed v = true ↔ (v = .none ∨ ∃ i, v = .int i) := by
  cases v <;> simp [acceptSeed]

theorem flag_accepts_iff (v : PyVal) : acceptFlag v = true ↔ ∃ b, v = .bool b := by
  cases v <;> simp [acceptFlag]

theorem optFlag_accepts_iff (v : PyVal) : acceptOptFlag v = true ↔ (v = .none ∨ ∃ b, v = .bool b) := by
  cases v <;> simp [acceptOptFlag]

theorem encoding_accepts_iff (v : PyVal) :
    acceptEncoding v = true ↔ ∃ i, v = .int i ∧ i ≠ -2 ∧ i ≠ -1 ∧ i ≠ 0 := by
  cases v <;> simp [acceptEncoding, and_assoc]

theorem initialPosition_accepts_iff (v : PyVal) :
    acceptInitialPosition v = true ↔
      (v = .none ∨ ∃ dt xs, v = .ndarray dt [2] xs ∧ (dt = .i64 ∨ dt = .f64)) := by
  cases v with
  | ndarray dt sh xs =>
    simp only [acceptInitialPosition, Bool.and_eq_true, beq_iff_eq, Bool.or_eq_true]
    constructor
    · rintro ⟨h1, h2⟩; subst h1; exact Or.inr ⟨dt, xs, rfl, h2⟩
    · rintro (h | ⟨dt', xs', h, h2⟩)
      · cases h
      · injection h with e1 e2 e3; subst e1 e2 e3; exact ⟨rfl, h2⟩
  | none => simp [acceptInitialPosition]
  | bool _ => simp [acceptInitialPosition]
  | int _ => simp [acceptInitialPosition]
  | float _ => simp [acceptInitialPosition]
  | str _ => simp [acceptInitialPosition]
  | list _ => simp [acceptInitialPosition]
  | tuple _ => simp [acceptInitialPosition]
  | set _ => simp [acceptInitialPosition]
  | dict _ => simp [acceptInitialPosition]
  | npInt _ => simp [acceptInitialPosition]
  | npFloat _ => simp [acceptInitialPosition]
  | agent _ _ => simp [acceptInitialPosition]

theorem renderShape_accepts_iff (v : PyVal) :
    acceptRenderShape v = true ↔ ∃ s, v = .str s ∧ s ∈ renderShapes := by
  cases v <;> simp [acceptRenderShape]

theorem renderColor_accepts (v : PyVal) : acceptRenderColor v = true := rfl

theorem renderSize_accepts_iff (v : PyVal) : acceptRenderSize v = true ↔ ∃ i, v = .int i ∧ 0 < i := by
  cases v <;> simp [acceptRenderSize]

theorem health_accepts_iff (v : PyVal) :
    acceptHealth v = true ↔ ((∃ i, v = .int i) ∨ ∃ f, v = .float f) := by
  cases v <;> simp [acceptHealth]

/-- the stored health is within `[0, 1]` whatever finite number was assigned -/
theorem clampHealth_bounds (q : Rat) : ∃ r, clampHealth (.fin q) = .fin r ∧ 0 ≤ r ∧ r ≤ 1 := by
  unfold clampHealth
  by_cases h1 : q < 0
  · exact ⟨0, by simp [h1], by decide, by decide⟩
  · by_cases h2 : 1 < q
    · exact ⟨1, by simp [h1, h2], by decide, by decide⟩
    · exact ⟨q, by simp [h1, h2], Rat.not_lt.mp h1, Rat.not_lt.mp h2⟩

theorem initialHealth_accepts_iff (v : PyVal) :
    acceptInitialHealth v = true ↔
      (v = .none ∨ (∃ i, v = .int i ∧ 0 < (i : Rat) ∧ (i : Rat) ≤ 1) ∨
        ∃ q, v = .float (.fin q) ∧ 0 < q ∧ q ≤ 1) := by
  cases v with
  | float f => cases f <;> simp [acceptInitialHealth, Flt.gtR, Flt.leR]
  | int i => simp [acceptInitialHealth, Flt.gtR, Flt.leR]
  | none => simp [acceptInitialHealth]
  | bool _ => simp [acceptInitialHealth]
  | str _ => simp [acceptInitialHealth]
  | list _ => simp [acceptInitialHealth]
  | tuple _ => simp [acceptInitialHealth]
  | set _ => simp [acceptInitialHealth]
  | dict _ => simp [acceptInitialHealth]
  | ndarray _ _ _ => simp [acceptInitialHealth]
  | npInt _ => simp [acceptInitialHealth]
  | npFloat _ => simp [acceptInitialHealth]
  | agent _ _ => simp [acceptInitialHealth]

theorem range_accepts_iff (v : PyVal) :
    acceptRange v = true ↔ (v = .str "FULL" ∨ ∃ i, v = .int i ∧ 0 ≤ i) := by
  cases v <;> simp [acceptRange]

theorem unit_accepts_iff (v : PyVal) :
    acceptUnit v = true ↔
      ((∃ i, v = .int i ∧ 0 ≤ (i : Rat) ∧ (i : Rat) ≤ 1) ∨ ∃ q, v = .float (.fin q) ∧ 0 ≤ q ∧ q ≤ 1) := by
  cases v with
  | float f => cases f <;> simp [acceptUnit, Flt.geR, Flt.leR]
  | int i => simp [acceptUnit, Flt.geR, Flt.leR]
  | none => simp [acceptUnit]
  | bool _ => simp [acceptUnit]
  | str _ => simp [acceptUnit]
  | list _ => simp [acceptUnit]
  | tuple _ => simp [acceptUnit]
  | set _ => simp [acceptUnit]
  | dict _ => simp [acceptUnit]
  | ndarray _ _ _ => simp [acceptUnit]
  | npInt _ => simp [acceptUnit]
  | npFloat _ => simp [acceptUnit]
  | agent _ _ => simp [acceptUnit]

theorem simAttacks_accepts_iff (v : PyVal) : acceptSimAttacks v = true ↔ ∃ i, v = .int i ∧ 0 ≤ i := by
  cases v <;> simp [acceptSimAttacks]

theorem ammo_accepts_iff (v : PyVal) : acceptAmmo v = true ↔ ∃ i, v = .int i := by
  cases v <;> simp [acceptAmmo]

theorem gridDim_accepts_iff (v : PyVal) : acceptGridDim v = true ↔ ∃ i, v = .int i ∧ 0 < i := by
  cases v <;> simp [acceptGridDim]

/-- the integer a value equals in the sense of `in range(...)`: a hashable number, or the single
element of a one-element array -/
def EqualsInt (v : PyVal) (i : Int) : Prop :=
  numKey v = some i ∨ ∃ dt sh x, v = .ndarray dt sh [x] ∧ x.asInt = some i

theorem orientation_accepts_iff (v : PyVal) :
    acceptOrientation v = true ↔ ∃ i, EqualsInt v i ∧ 1 ≤ i ∧ i ≤ 4 := by
  unfold acceptOrientation EqualsInt
  cases v with
  | ndarray dt sh xs =>
    cases xs with
    | nil => simp [inRange1to4, numKey]
    | cons x rest =>
      cases rest with
      | nil =>
        cases hx : x.asInt with
        | none => simp [inRange1to4, numKey, hx]
        | some i => simp [inRange1to4, numKey, hx, in1to4]
      | cons y ys => simp [inRange1to4, numKey]
  | none => simp [inRange1to4, numKey]
  | bool b => cases hk : numKey (.bool b) <;> simp [inRange1to4, hk, in1to4]
  | int i => cases hk : numKey (.int i) <;> simp [inRange1to4, hk, in1to4]
  | float f => cases hk : numKey (.float f) <;> simp [inRange1to4, hk, in1to4]
  | str _ => simp [inRange1to4, numKey]
  | list _ => simp [inRange1to4, numKey]
  | tuple _ => simp [inRange1to4, numKey]
  | set _ => simp [inRange1to4, numKey]
  | dict _ => simp [inRange1to4, numKey]
  | npInt i => cases hk : numKey (.npInt i) <;> simp [inRange1to4, hk, in1to4]
  | npFloat f => cases hk : numKey (.npFloat f) <;> simp [inRange1to4, hk, in1to4]
  | agent _ _ => simp [inRange1to4, numKey]

theorem initialOrientation_accepts_iff (v : PyVal) :
    acceptInitialOrientation v = true ↔ (v = .none ∨ ∃ i, EqualsInt v i ∧ 1 ≤ i ∧ i ≤ 4) := by
  cases v with
  | none => simp [acceptInitialOrientation]
  | bool b => simpa [acceptInitialOrientation, acceptOrientation] using orientation_accepts_iff (.bool b)
  | int b => simpa [acceptInitialOrientation, acceptOrientation] using orientation_accepts_iff (.int b)
  | float b => simpa [acceptInitialOrientation, acceptOrientation] using orientation_accepts_iff (.float b)
  | str b => simpa [acceptInitialOrientation, acceptOrientation] using orientation_accepts_iff (.str b)
  | list b => simpa [acceptInitialOrientation, acceptOrientation] using orientation_accepts_iff (.list b)
  | tuple b => simpa [acceptInitialOrientation, acceptOrientation] using orientation_accepts_iff (.tuple b)
  | set b => simpa [acceptInitialOrientation, acceptOrientation] using orientation_accepts_iff (.set b)
  | dict b => simpa [acceptInitialOrientation, acceptOrientation] using orientation_accepts_iff (.dict b)
  | ndarray a b c => simpa [acceptInitialOrientation, acceptOrientation] using orientation_accepts_iff (.ndarray a b c)
  | npInt b => simpa [acceptInitialOrientation, acceptOrientation] using orientation_accepts_iff (.npInt b)
  | npFloat b => simpa [acceptInitialOrientation, acceptOrientation] using orientation_accepts_iff (.npFloat b)
  | agent a b => simpa [acceptInitialOrientation, acceptOrientation] using orientation_accepts_iff (.agent a b)

/-! ### containers and mappings -/

/-- the value equals (numerically, as Python's `in` goes) one of the simulation's encodings -/
def InSim (encs : List Int) (x : PyVal) : Prop := ∃ i, numKey x = some i ∧ i ∈ encs

theorem pyIn_iff (x : PyVal) (encs : List Int) : pyIn x encs = true ↔ InSim encs x := by
  unfold pyIn InSim
  cases h : numKey x with
  | none => simp
  | some i => simp

/-- an encoding present in the simulation, or a set of such -/
def TargetsOk (encs : List Int) (val : PyVal) : Prop :=
  (∃ i, val = .int i ∧ i ∈ encs) ∨ (∃ elems, val = .set elems ∧ ∀ e ∈ elems, InSim encs e)

theorem encTargets_accepts_iff (encs : List Int) (val : PyVal) :
    acceptEncTargets encs val = true ↔ TargetsOk encs val := by
  unfold TargetsOk
  cases val <;> simp [acceptEncTargets, pyIn_iff]

theorem dict_all_iff (f : PyVal → Bool) (g : PyVal × PyVal → Bool) (v : PyVal)
    (hd : ∀ items, f (.dict items) = items.all g)
    (hn : ∀ w, (∀ items, w ≠ .dict items) → f w = false) :
    f v = true ↔ ∃ items, v = .dict items ∧ ∀ kv ∈ items, g kv = true := by
  by_cases h : ∃ items, v = .dict items
  · obtain ⟨items, rfl⟩ := h
    rw [hd, List.all_eq_true]
    constructor
    · intro h; exact ⟨items, rfl, h⟩
    · rintro ⟨items', h1, h2⟩; injection h1 with h1; subst h1; exact h2
  · have hne : ∀ items, v ≠ .dict items := fun items hv => h ⟨items, hv⟩
    rw [hn v hne]
    constructor
    · intro h; cases h
    · rintro ⟨items, h1, _⟩; exact absurd h1 (hne items)

theorem attackMapping_accepts_iff (encs : List Int) (v : PyVal) :
    acceptAttackMapping encs v = true ↔
      ∃ items, v = .dict items ∧ ∀ kv ∈ items, InSim encs kv.1 ∧ TargetsOk encs kv.2 := by
  rw [dict_all_iff (acceptAttackMapping encs)
    (fun kv => pyIn kv.1 encs && acceptEncTargets encs kv.2) v (fun _ => rfl)
    (by intro w hw; cases w <;> first | rfl | exact absurd rfl (hw _))]
  simp only [Bool.and_eq_true, pyIn_iff, encTargets_accepts_iff]

/-- `a != b` for two hashable values: not the same number -/
def Differs (a b : PyVal) : Prop := ∀ x y, numKey a = some x → numKey b = some y → x ≠ y

theorem pyNe_iff (a b : PyVal) : pyNe a b = true ↔ Differs a b := by
  unfold pyNe Differs
  cases ha : numKey a with
  | none => simp
  | some x =>
    cases hb : numKey b with
    | none => simp
    | some y => simp

/-- the value side of `TargetEncodingInactiveDone.target_mapping` for the key `k` -/
def EncTargetsOk (encs : List Int) (k val : PyVal) : Prop :=
  (∃ i, val = .int i ∧ i ∈ encs ∧ Differs (.int i) k) ∨
  (∃ elems, val = .set elems ∧ ∀ e ∈ elems, InSim encs e ∧ Differs e k)

theorem targetEncVal_iff (encs : List Int) (k val : PyVal) :
    acceptTargetEncVal encs k val = true ↔ EncTargetsOk encs k val := by
  unfold EncTargetsOk
  cases val <;> simp [acceptTargetEncVal, pyIn_iff, pyNe_iff]

theorem targetEncMapping_accepts_iff (encs : List Int) (v : PyVal) :
    acceptTargetEncMapping encs v = true ↔
      ∃ items, v = .dict items ∧ ∀ kv ∈ items, InSim encs kv.1 ∧ EncTargetsOk encs kv.1 kv.2 := by
  rw [dict_all_iff (acceptTargetEncMapping encs) (acceptTargetEncEntry encs) v (fun _ => rfl)
    (by intro w hw; cases w <;> first | rfl | exact absurd rfl (hw _))]
  simp only [acceptTargetEncEntry, Bool.and_eq_true, pyIn_iff, targetEncVal_iff]

theorem strIn_iff (x : PyVal) (ids : List String) : strIn x ids = true ↔ ∃ s, x = .str s ∧ s ∈ ids := by
  cases x <;> simp [strIn]

theorem targetIdMapping_accepts_iff (ids : List String) (v : PyVal) :
    acceptTargetIdMapping ids v = true ↔
      ∃ items, v = .dict items ∧ ∀ kv ∈ items,
        (∃ a, kv.1 = .str a ∧ a ∈ ids) ∧ (∃ t, kv.2 = .str t ∧ t ∈ ids) := by
  rw [dict_all_iff (acceptTargetIdMapping ids) (fun kv => strIn kv.1 ids && strIn kv.2 ids) v
    (fun _ => rfl) (by intro w hw; cases w <;> first | rfl | exact absurd rfl (hw _))]
  simp only [Bool.and_eq_true, strIn_iff]

theorem encSet_accepts_iff (encs : List Int) (v : PyVal) :
    acceptEncSet encs v = true ↔ (v = .none ∨ TargetsOk encs v) := by
  cases v with
  | none => simp [acceptEncSet]
  | bool b => simpa [acceptEncSet] using encTargets_accepts_iff encs (.bool b)
  | int b => simpa [acceptEncSet] using encTargets_accepts_iff encs (.int b)
  | float b => simpa [acceptEncSet] using encTargets_accepts_iff encs (.float b)
  | str b => simpa [acceptEncSet] using encTargets_accepts_iff encs (.str b)
  | list b => simpa [acceptEncSet] using encTargets_accepts_iff encs (.list b)
  | tuple b => simpa [acceptEncSet] using encTargets_accepts_iff encs (.tuple b)
  | set b => simpa [acceptEncSet] using encTargets_accepts_iff encs (.set b)
  | dict b => simpa [acceptEncSet] using encTargets_accepts_iff encs (.dict b)
  | ndarray a b c => simpa [acceptEncSet] using encTargets_accepts_iff encs (.ndarray a b c)
  | npInt b => simpa [acceptEncSet] using encTargets_accepts_iff encs (.npInt b)
  | npFloat b => simpa [acceptEncSet] using encTargets_accepts_iff encs (.npFloat b)
  | agent a b => simpa [acceptEncSet] using encTargets_accepts_iff encs (.agent a b)

theorem agentEntry_iff (gwOnly : Bool) (kv : PyVal × PyVal) :
    acceptAgentEntry gwOnly kv = true ↔
      ∃ gw id, kv.2 = .agent gw id ∧ kv.1 = .str id ∧ (gwOnly = true → gw = true) := by
  obtain ⟨k, a⟩ := kv
  unfold acceptAgentEntry
  cases a with
  | agent gw id =>
    cases k with
    | str s =>
      simp only [Bool.and_eq_true, Bool.or_eq_true, Bool.not_eq_true', beq_iff_eq]
      constructor
      · rintro ⟨h1, h2⟩
        subst h2
        refine ⟨gw, s, rfl, rfl, ?_⟩
        intro hg
        rcases h1 with h1 | h1
        · rw [hg] at h1; cases h1
        · exact h1
      · rintro ⟨gw', id', h1, h2, h3⟩
        injection h1 with e1 e2
        injection h2 with e3
        subst e1 e2 e3
        refine ⟨?_, rfl⟩
        cases hg : gwOnly with
        | false => exact Or.inl rfl
        | true => exact Or.inr (h3 hg)
    | _ => simp
  | _ => simp

theorem agents_accepts_iff (gwOnly : Bool) (v : PyVal) :
    acceptAgents gwOnly v = true ↔
      ∃ items, v = .dict items ∧ ∀ kv ∈ items,
        ∃ gw id, kv.2 = .agent gw id ∧ kv.1 = .str id ∧ (gwOnly = true → gw = true) := by
  rw [dict_all_iff (acceptAgents gwOnly) (acceptAgentEntry gwOnly) v (fun _ => rfl)
    (by intro w hw; cases w <;> first | rfl | exact absurd rfl (hw _))]
  simp only [agentEntry_iff]

theorem isPyInt_iff (x : PyVal) : isPyInt x = true ↔ ∃ i, x = .int i := by
  cases x <;> simp [isPyInt]

theorem overlapping_accepts_iff (v : PyVal) :
    acceptOverlapping v = true ↔
      (v = .none ∨ ∃ items, v = .dict items ∧ ∀ kv ∈ items,
        (∃ k, kv.1 = .int k) ∧
        ((∃ i, kv.2 = .int i) ∨ ∃ elems, kv.2 = .set elems ∧ ∀ e ∈ elems, ∃ j, e = .int j)) := by
  have hval : ∀ val : PyVal, acceptOverlapVal val = true ↔
      ((∃ i, val = .int i) ∨ ∃ elems, val = .set elems ∧ ∀ e ∈ elems, ∃ j, e = .int j) := by
    intro val
    cases val <;> simp [acceptOverlapVal, isPyInt_iff]
  cases v with
  | none => simp [acceptOverlapping]
  | dict items =>
    simp only [acceptOverlapping, List.all_eq_true, Bool.and_eq_true, isPyInt_iff, hval]
    constructor
    · intro h; exact Or.inr ⟨items, rfl, h⟩
    · rintro (h | ⟨items', h1, h2⟩)
      · cases h
      · injection h1 with h1; subst h1; exact h2
  | bool _ => simp [acceptOverlapping]
  | int _ => simp [acceptOverlapping]
  | float _ => simp [acceptOverlapping]
  | str _ => simp [acceptOverlapping]
  | list _ => simp [acceptOverlapping]
  | tuple _ => simp [acceptOverlapping]
  | set _ => simp [acceptOverlapping]
  | ndarray _ _ _ => simp [acceptOverlapping]
  | npInt _ => simp [acceptOverlapping]
  | npFloat _ => simp [acceptOverlapping]
  | agent _ _ => simp [acceptOverlapping]

theorem noNullPoint_iff (v : PyVal) : noNullPoint v = true ↔ (v = .none ∨ v = .dict []) := by
  cases v with
  | dict items => cases items <;> simp [noNullPoint]
  | none => simp [noNullPoint]
  | bool _ => simp [noNullPoint]
  | int _ => simp [noNullPoint]
  | float _ => simp [noNullPoint]
  | str _ => simp [noNullPoint]
  | list _ => simp [noNullPoint]
  | tuple _ => simp [noNullPoint]
  | set _ => simp [noNullPoint]
  | ndarray _ _ _ => simp [noNullPoint]
  | npInt _ => simp [noNullPoint]
  | npFloat _ => simp [noNullPoint]
  | agent _ _ => simp [noNullPoint]

/-- null points: accepted by `finalize` iff none was given (`None` / the empty dict it is stored
as) or the point is a member of the space — falsy points are checked like any other -/
theorem nullPoint_accepted_iff (sp : Space) (v : PyVal) :
    nullOutcome sp v = .accepted ↔ (v = .none ∨ v = .dict [] ∨ spaceContains sp v = .yes) := by
  unfold nullOutcome
  by_cases hn : noNullPoint v = true
  · rw [if_pos hn]
    have := (noNullPoint_iff v).mp hn
    constructor
    · intro _; rcases this with h | h
      · exact Or.inl h
      · exact Or.inr (Or.inl h)
    · intro _; rfl
  · rw [if_neg hn]
    have hn' : ¬ (v = .none ∨ v = .dict []) := fun h => hn ((noNullPoint_iff v).mpr h)
    have hno : ∀ o : Outcome, o ≠ .accepted → spaceContains sp v ≠ .yes →
        (o = .accepted ↔ (v = .none ∨ v = .dict [] ∨ spaceContains sp v = .yes)) := by
      intro o ho hy
      constructor
      · intro h; exact absurd h ho
      · rintro (h | h | h)
        · exact absurd (Or.inl h) hn'
        · exact absurd (Or.inr h) hn'
        · exact absurd h hy
    cases hs : spaceContains sp v with
    | yes =>
      constructor
      · intro _; exact Or.inr (Or.inr rfl)
      · intro _; rfl
    | no => have := hno .rejFinal (by simp) (by simp [hs]); rw [hs] at this; exact this
    | raises => have := hno .rejFinal (by simp) (by simp [hs]); rw [hs] at this; exact this
    | unmodelled => have := hno .unmodelled (by simp) (by simp [hs]); rw [hs] at this; exact this

/-- null points are never rejected when supplied, only by `finalize` -/
theorem nullPoint_never_rejAssign (sp : Space) (v : PyVal) : nullOutcome sp v ≠ .rejAssign := by
  unfold nullOutcome
  split
  · simp
  · cases hs : spaceContains sp v <;> simp

end Cfg
end Abmarl
