import Abmarl.Lemmas.PacmanFloat
import Abmarl.Lemmas.C02
import Abmarl.Lemmas.ExamplesJudge
/-!
# The observers in a world that satisfies only `PM.WInvFloat`

The observer theorems of C09 / C02 (`C09_observers`, `*_in_declared_space`, `Observers.getObs_declared`,
`Ex.obsOuts_declared`, `Ex.getObs_obsInSpace`) are stated for `WInv` worlds.  No transport exists for the worlds of
`PacmanSim`: an ACTIVE agent that is stored in no cell (refused teleport) still shades the mask of every observer from a
cell on which nobody stands, which no `WInv` world with the same cells does.  What the proofs use of `WInv` is: whoever is
stored in a cell is an agent of the simulation, no cell holds an id twice, the ammunition of the observer is legal — all
of it part of `WInvFloat`.  The theorems below are the SAME proofs as the originals (copied; only the hypothesis and the
cell lemmas `cell_of_WInv` / `cell_length_le` are replaced by their `WInvFloat` versions), suffix `_float`.
-/
namespace Abmarl
namespace Observers
open World

theorem cell_of_float {w : World} (hI : PM.WInvFloat w = true) {q : Pos} {b : Aid} (hb : b ∈ w.cell q) :
    b < w.n ∧ w.inGrid (w.stOf b).pos = true ∧ w.idx (w.stOf b).pos = w.idx q :=
  ((PM.WInvFloat_iff w).mp hI).1.occ _ b hb

theorem cell_length_le_float {w : World} (hI : PM.WInvFloat w = true) (q : Pos) : (w.cell q).length ≤ w.n :=
  length_le_of_nodup_lt (((PM.WInvFloat_iff w).mp hI).1.nodup _) (fun _ hx => (cell_of_float hI hx).1)

section
variable (w : World) (a : Aid)

theorem cen_window_cell_float (os : Bool) (R : Nat) (hI : PM.WInvFloat w = true)
    (hpos : w.inGrid (w.stOf a).pos = true) (henc : ∀ b < w.n, 0 < w.encOf b)
    (i : Nat) (hi : i < 2*R+1) (j : Nat) (hj : j < 2*R+1) (t : Tape) :
    ∃ v t', cenCell w a os (at2 (maskFor w a R) i j false) (at2 (localGrid w a R) i j none) t = .ok (v, t') ∧
      cenCellOK w (hiddenFrom w a R ((i : Int) - (R : Int)) ((j : Int) - (R : Int)))
        (w.inGrid (winPos (w.stOf a).pos R i j))
        (if w.inGrid (winPos (w.stOf a).pos R i j) = true
          then reportable w a os (winPos (w.stOf a).pos R i j) else []) v = true := by
  rw [at2_maskFor w a R i j hi hj, at2_localGrid w a R i j hpos hi hj]
  unfold reportable
  exact cenCell_ok w a os _ _ (w.cell (winPos (w.stOf a).pos R i j)) t
    (fun b hb => henc b (cell_of_float hI hb).1)

theorem abs_window_cell_float (R : Nat) (hI : PM.WInvFloat w = true)
    (hpos : w.inGrid (w.stOf a).pos = true) (henc : ∀ b < w.n, 0 < w.encOf b)
    (i : Nat) (hi : i < 2*R+1) (j : Nat) (hj : j < 2*R+1) (t : Tape) :
    ∃ v t', absCell w a (at2 (maskFor w a R) i j false) (at2 (localGrid w a R) i j none) t = .ok (v, t') ∧
      (w.inGrid (winPos (w.stOf a).pos R i j) = true →
        absCellOK w a (hiddenFrom w a R ((i : Int) - (R : Int)) ((j : Int) - (R : Int)))
          (w.cell (winPos (w.stOf a).pos R i j)) v = true) := by
  rw [at2_maskFor w a R i j hi hj, at2_localGrid w a R i j hpos hi hj]
  by_cases hin : w.inGrid (winPos (w.stOf a).pos R i j) = true
  · rw [if_pos hin]
    obtain ⟨v, t', h1, h2⟩ := absCell_ok w a (hiddenFrom w a R ((i : Int) - (R : Int)) ((j : Int) - (R : Int)))
      (w.cell (winPos (w.stOf a).pos R i j)) t (fun b hb => henc b (cell_of_float hI hb).1)
    exact ⟨v, t', h1, fun _ => h2⟩
  · rw [if_neg hin]
    cases hiddenFrom w a R ((i : Int) - (R : Int)) ((j : Int) - (R : Int))
    · exact ⟨0, t, by simp [absCell], fun h => absurd h hin⟩
    · exact ⟨-2, t, by simp [absCell], fun h => absurd h hin⟩

end

theorem centered_spec_float (w : World) (a : Aid) (os : Bool) (t : Tape) (hI : PM.WInvFloat w = true)
    (hpos : w.inGrid (w.stOf a).pos = true) (henc : ∀ b < w.n, 0 < w.encOf b) :
    ∃ o t', getObsCentered w a os t = .ok (o, t') ∧ specCentered w a os o = true := by
  by_cases hobs : (w.cfgOf a).observing = true
  · obtain ⟨R, hR⟩ : ∃ R, R = (w.cfgOf a).viewRange := ⟨_, rfl⟩
    obtain ⟨g, t', hg, hP⟩ := convolve_ok R _ _ (cen_window_cell_float w a os R hI hpos henc) t
    refine ⟨.grid g, t', ?_, ?_⟩
    · simp only [getObsCentered, hobs, hpos, ← hR, hg, Bool.not_true, Bool.false_eq_true, if_false]
    · simp only [specCentered, hobs, if_true, ← hR]
      rw [specTab_iff]; exact hP
  · have hobs' : (w.cfgOf a).observing = false := by simpa using hobs
    exact ⟨.unsupported, t, by simp [getObsCentered, hobs'], by simp [specCentered, hobs']⟩

theorem absolute_spec_float (w : World) (a : Aid) (t : Tape) (hI : PM.WInvFloat w = true)
    (hpos : w.inGrid (w.stOf a).pos = true) (henc : ∀ b < w.n, 0 < w.encOf b) :
    ∃ o t', getObsAbsolute w a t = .ok (o, t') ∧ specAbsolute w a o = true := by
  by_cases hobs : (w.cfgOf a).observing = true
  · obtain ⟨R, hR⟩ : ∃ R, R = (w.cfgOf a).viewRange := ⟨_, rfl⟩
    obtain ⟨g, t', hg, hP⟩ := convolve_ok R _ _ (abs_window_cell_float w a R hI hpos henc) t
    refine ⟨.grid (paste w.rows w.cols (w.stOf a).pos R g), t', ?_, ?_⟩
    · simp only [getObsAbsolute, hobs, hpos, ← hR, hg, Bool.not_true, Bool.false_eq_true, if_false]
    · simp only [specAbsolute, hobs, if_true, ← hR]
      rw [specTab_iff]; exact paste_spec w a R g hpos hP
  · have hobs' : (w.cfgOf a).observing = false := by simpa using hobs
    exact ⟨.unsupported, t, by simp [getObsAbsolute, hobs'], by simp [specAbsolute, hobs']⟩

theorem C09_observers_float (w : World) (a : Aid) (k : Kind) (t : Tape) (hI : PM.WInvFloat w = true) (ha : a < w.n)
    (hpos : w.inGrid (w.stOf a).pos = true) (henc : ∀ b < w.n, 0 < w.encOf b) :
    ∃ o t', getObs w a k t = .ok (o, t') ∧ specC09 w a k (.ok o) = true := by
  cases k with
  | absolute => exact absolute_spec_float w a t hI hpos henc
  | centered os => exact centered_spec_float w a os t hI hpos henc
  | stacked => exact stacked_spec w a t ha hpos henc
  | position => exact position_spec w a t
  | ammo => exact ammo_spec w a t

theorem cell_enc_bounds_float {w : World} (hI : PM.WInvFloat w = true) (henc : ∀ b < w.n, 0 < w.encOf b)
    {q : Pos} {b : Aid} (hb : b ∈ w.cell q) : 0 < w.encOf b ∧ w.encOf b ≤ maxEnc w :=
  ⟨henc b (cell_of_float hI hb).1, encOf_le_maxEnc w (cell_of_float hI hb).1⟩

theorem absolute_in_declared_space_float (w : World) (a : Aid) (o : Obs) (hI : PM.WInvFloat w = true) (ha : a < w.n)
    (henc : ∀ b < w.n, 0 < w.encOf b) (h : specAbsolute w a o = true) :
    declared w a .absolute o = true := by
  have hE := maxEnc_pos w ha henc
  by_cases hobs : (w.cfgOf a).observing = true
  · cases o with
    | grid g =>
      rw [specAbsolute_reading w a g hobs] at h
      simp only [declared, topEnc_eq w (Nat.lt_of_le_of_lt (Nat.zero_le _) ha), inBox2]
      rw [specTab_iff]
      refine TabP_mono h fun gi _ gj _ v hv => ?_
      rw [absCellOK_reading] at hv
      simp only [Bool.and_eq_true, decide_eq_true_eq]
      by_cases n1 : v = -2
      · omega
      · by_cases n2 : v = -1
        · omega
        · by_cases n3 : v = 0
          · omega
          · obtain ⟨b, hb, _, hbv⟩ := hv.2.2.2 n1 n2 n3
            have := cell_enc_bounds_float hI henc hb
            omega
    | unsupported => rfl
    | stack _ => simp [specAbsolute, hobs] at h
    | vec _ => simp [specAbsolute, hobs] at h
    | scalar _ => simp [specAbsolute, hobs] at h
  · have hobs' : (w.cfgOf a).observing = false := by simpa using hobs
    have : o = .unsupported := by simpa [specAbsolute, hobs'] using h
    subst this; rfl

theorem centered_in_declared_space_float (w : World) (a : Aid) (os : Bool) (o : Obs) (hI : PM.WInvFloat w = true)
    (ha : a < w.n) (henc : ∀ b < w.n, 0 < w.encOf b) (h : specCentered w a os o = true) :
    declared w a (.centered os) o = true := by
  have hE := maxEnc_pos w ha henc
  by_cases hobs : (w.cfgOf a).observing = true
  · cases o with
    | grid g =>
      rw [specCentered_reading w a os g hobs] at h
      simp only [declared, topEnc_eq w (Nat.lt_of_le_of_lt (Nat.zero_le _) ha), inBox2]
      rw [specTab_iff]
      refine TabP_mono h fun i _ j _ v hv => ?_
      rw [cenCellOK_reading] at hv
      simp only [Bool.and_eq_true, decide_eq_true_eq]
      by_cases n1 : v = -2
      · omega
      · by_cases n2 : v = -1
        · omega
        · by_cases n3 : v = 0
          · omega
          · obtain ⟨b, hb, hbv⟩ := hv.2.2.2 n1 n2 n3
            have hb' : b ∈ w.cell (winPos (w.stOf a).pos (w.cfgOf a).viewRange i j) := by
              by_cases hin : w.inGrid (winPos (w.stOf a).pos (w.cfgOf a).viewRange i j) = true
              · rw [if_pos hin] at hb
                unfold reportable at hb
                cases os
                · simp only [Bool.false_eq_true, if_false] at hb
                  exact (List.mem_filter.mp hb).1
                · simpa using hb
              · rw [if_neg hin] at hb; cases hb
            have := cell_enc_bounds_float hI henc hb'
            omega
    | unsupported => rfl
    | stack _ => simp [specCentered, hobs] at h
    | vec _ => simp [specCentered, hobs] at h
    | scalar _ => simp [specCentered, hobs] at h
  · have hobs' : (w.cfgOf a).observing = false := by simpa using hobs
    have : o = .unsupported := by simpa [specCentered, hobs'] using h
    subst this; rfl

theorem stacked_in_declared_space_float (w : World) (a : Aid) (o : Obs) (hI : PM.WInvFloat w = true)
    (ha : a < w.n) (h : specStacked w a o = true) :
    declared w a .stacked o = true := by
  have hn : 0 < w.n := Nat.lt_of_le_of_lt (Nat.zero_le _) ha
  by_cases hobs : (w.cfgOf a).observing = true
  · cases o with
    | stack g =>
      simp only [specStacked, hobs, if_true, topEnc_eq w hn] at h
      simp only [declared, topEnc_eq w hn]
      rw [specTab_iff] at h ⊢
      refine TabP_mono h fun i _ j _ layers hv => ?_
      simp only [Bool.and_eq_true, beq_iff_eq, List.all_eq_true, List.mem_range, decide_eq_true_eq] at hv ⊢
      refine ⟨hv.1, fun v hvmem => ?_⟩
      obtain ⟨e, he, hve⟩ := List.getElem_of_mem hvmem
      have hcell := hv.2 e (by omega)
      rw [List.getElem?_eq_getElem he, hve] at hcell
      simp only [] at hcell
      rw [stkCellOK_reading] at hcell
      obtain ⟨h1, h2, h3⟩ := hcell
      -- the count is bounded by the number of occupants, which is at most the number of agents
      have hcount : ∀ occ : List Aid, occ.length ≤ w.n →
          (((occ.countP fun b => w.encOf b == (e : Int) + 1 : Nat) : Int)) ≤ (w.n : Int) := by
        intro occ hocc
        have := List.countP_le_length (p := fun b => w.encOf b == (e : Int) + 1) (l := occ)
        omega
      cases hh : hiddenFrom w a (w.cfgOf a).viewRange ((i : Int) - ((w.cfgOf a).viewRange : Int))
          ((j : Int) - ((w.cfgOf a).viewRange : Int)) with
      | true => rw [hh] at h1; have := h1.mpr rfl; omega
      | false =>
        rw [hh] at h2 h3
        cases hg : w.inGrid (winPos (w.stOf a).pos (w.cfgOf a).viewRange i j) with
        | false => rw [hg] at h2; have := h2.mpr ⟨rfl, rfl⟩; omega
        | true =>
          rw [hg] at h3
          have := h3 rfl rfl
          rw [if_pos rfl] at this
          have hb := hcount _ (cell_length_le_float hI (winPos (w.stOf a).pos (w.cfgOf a).viewRange i j))
          omega
    | unsupported => rfl
    | grid _ => simp [specStacked, hobs] at h
    | vec _ => simp [specStacked, hobs] at h
    | scalar _ => simp [specStacked, hobs] at h
  · have hobs' : (w.cfgOf a).observing = false := by simpa using hobs
    have : o = .unsupported := by simpa [specStacked, hobs'] using h
    subst this; rfl

theorem ammo_in_declared_space_float (w : World) (a : Aid) (o : Obs) (hI : PM.WInvFloat w = true) (ha : a < w.n)
    (hinit : 0 ≤ (w.cfgOf a).initAmmo) (h : specAmmo w a o = true) :
    declared w a .ammo o = true := by
  cases hsup : ((w.cfgOf a).hasAmmo && (w.cfgOf a).observing)
  · have : o = .unsupported := by simpa [specAmmo, hsup] using h
    subst this; rfl
  · have : o = .scalar (w.stOf a).ammo := by simpa [specAmmo, hsup] using h
    subst this
    simp only [Bool.and_eq_true] at hsup
    have hA := (PM.wAgentF_reading w a).mp (((PM.WInvFloat_iff w).mp hI).2 a ha)
    simp only [declared, Bool.and_eq_true, decide_eq_true_eq]
    have h1 := hA.2.2.2.1
    have h2 := hA.2.2.2.2.1 hsup.1
    omega

theorem getObs_declared_float (w : World) (a : Aid) (k : Kind) (t : Tape) (hI : PM.WInvFloat w = true) (ha : a < w.n)
    (hpos : w.inGrid (w.stOf a).pos = true) (henc : ∀ b < w.n, 0 < w.encOf b)
    (hammo : 0 ≤ (w.cfgOf a).initAmmo) :
    ∃ o t', getObs w a k t = .ok (o, t') ∧ declared w a k o = true := by
  obtain ⟨o, t', hget, hspec⟩ := C09_observers_float w a k t hI ha hpos henc
  refine ⟨o, t', hget, ?_⟩
  cases k with
  | absolute => exact absolute_in_declared_space_float w a o hI ha henc hspec
  | centered os => exact centered_in_declared_space_float w a os o hI ha henc hspec
  | stacked => exact stacked_in_declared_space_float w a o hI ha hspec
  | position => exact position_in_declared_space w a o hpos hspec
  | ammo => exact ammo_in_declared_space_float w a o hI ha hammo hspec

end Observers

namespace Ex
open World

theorem obsOuts_declared_float (w : World) (a : Aid) (hI : PM.WInvFloat w = true) (ha : a < w.n)
    (hpos : w.inGrid (w.stOf a).pos = true) (henc : ∀ b < w.n, 0 < w.encOf b)
    (hammo : 0 ≤ (w.cfgOf a).initAmmo) :
    ∀ (ks : List Observers.Kind) (t : Tape), ∃ outs t', obsOuts w a ks t = .ok (outs, t') ∧
      ∀ items ∈ outs, ∀ p ∈ items, ∃ k ∈ ks, keyOf k = p.1 ∧ Observers.declared w a k p.2 = true := by
  intro ks
  induction ks with
  | nil => intro t; exact ⟨[], t, rfl, fun _ h => by cases h⟩
  | cons k ks ih =>
    intro t
    obtain ⟨o, t1, hget, hdecl⟩ := Observers.getObs_declared_float w a k t hI ha hpos henc hammo
    obtain ⟨rest, t2, hrest, hall⟩ := ih t1
    refine ⟨itemsOf k o :: rest, t2, by simp only [obsOuts, hget, hrest], ?_⟩
    intro items hi p hp
    rcases List.mem_cons.mp hi with hi | hi
    · subst hi
      have := mem_itemsOf hp
      subst this
      exact ⟨k, List.mem_cons_self, rfl, hdecl⟩
    · obtain ⟨k', hk', h1, h2⟩ := hall items hi p hp
      exact ⟨k', List.mem_cons_of_mem _ hk', h1, h2⟩

theorem getObs_obsInSpace_float {cfg : Cfg} {s s' : St} {a : Aid} {o : List (String × Observers.Obs)}
    {ks : List Observers.Kind} (hobs : cfg.observers = some ks) (hI : PM.WInvFloat s.w = true) (hP : AllInGrid s.w)
    (henc : ∀ b < s.w.n, 0 < s.w.encOf b) (hammo : ∀ b < s.w.n, 0 ≤ (s.w.cfgOf b).initAmmo)
    (h : getObs cfg s a = .ok (o, s')) : obsInSpace s.w a ks o = true := by
  unfold getObs at h
  split at h
  · cases h
  · rw [hobs] at h
    simp only at h
    split at h
    · rename_i ha
      split at h
      · cases h
      · rename_i outs t' hout
        simp only [Except.ok.injEq, Prod.mk.injEq] at h
        obtain ⟨hkeys, hitems⟩ := obsOuts_keys s.w a ks s.tape t' outs hout
        obtain ⟨outs', t'', hout', hdecl⟩ := obsOuts_declared_float s.w a hI ha (hP a ha) henc (hammo a ha) ks s.tape
        rw [hout] at hout'
        simp only [Except.ok.injEq, Prod.mk.injEq] at hout'
        rw [← hout'.1] at hdecl
        rw [← h.1]
        simp only [obsInSpace, Bool.and_eq_true, beq_iff_eq, List.all_eq_true, List.any_eq_true, bne_iff_ne, ne_eq]
        refine ⟨?_, ?_⟩
        · rw [keys_mergeObs, hkeys]; rfl
        · intro p hp
          obtain ⟨items, hi, hpi⟩ := mem_mergeObs outs p hp
          obtain ⟨hne, _⟩ := hitems items hi p hpi
          refine ⟨hne, ?_⟩
          -- the observer that produced the item declared the space its value lies in; it supports the agent
          obtain ⟨k, hk, hkey, hd⟩ := hdecl items hi p hpi
          refine ⟨k, hk, ⟨hkey, ?_⟩, hd⟩
          -- `declared` of a value that is not `unsupported` for kind `k` forces `supports`
          cases hs : supports s.w a k with
          | true => rfl
          | false =>
            exfalso
            -- the item came from SOME observer k' with this key that supports the agent; kinds with the same key
            -- have the same support (`supports` depends on the key only)
            obtain ⟨_, k', _, hkey', hs'⟩ := hitems items hi p hpi
            have : supports s.w a k = supports s.w a k' := supports_of_key (hkey.trans hkey'.symm)
            rw [this, hs'] at hs; cases hs
    · cases h

end Ex
end Abmarl

namespace Abmarl
namespace PM
open World Ex

/-- every stored position is a grid cell: kept by the primitives (`grid.place` is only asked for cells of the grid) -/
theorem prim_inG : Prim Ex.AllInGrid where
  remove := by
    intro w w' a p h hr
    obtain ⟨_, rfl⟩ := remove_ok hr
    exact h
  reloc := by
    intro w w1 a src dst h hr hin
    obtain ⟨_, rfl⟩ := remove_ok hr
    unfold place
    split
    · intro b hb
      show w.inGrid ((World.stOf _ b).pos) = true
      rw [stOf_place]
      split
      · exact hin
      · exact h b hb
    · exact h
  setSt := by
    intro w a s h hs b hb
    show w.inGrid (((w.setSt a s).stOf b).pos) = true
    rw [stOf_setSt]
    split
    · rename_i hba; rw [hs, ← hba.1]; exact h b hb
    · exact h b hb

/-- **`get_obs` in a `WInvFloat` world all of whose stored positions are grid cells** returns, the observation dict has
exactly the declared keys and every value lies in the space its observer declared -/
theorem getObs_float (cfg : Cfg) (s : St) (a : Aid) (ks : List Observers.Kind) (hks : cfg.observers = some ks)
    (hs : s.ex.rewards.isSome = true) (hW : WInvFloat s.ex.w = true) (hP : Ex.AllInGrid s.ex.w) (ha : a < s.ex.w.n)
    (henc : ∀ b < s.ex.w.n, 0 < s.ex.w.encOf b) (hammo : ∀ b < s.ex.w.n, 0 ≤ (s.ex.w.cfgOf b).initAmmo) :
    ∃ o s', getObs cfg s a = .ok (o, s') ∧ Ex.obsInSpace s.ex.w a ks o = true := by
  obtain ⟨outs, t', hout, _⟩ := Ex.obsOuts_declared_float s.ex.w a hW ha (hP a ha) henc (hammo a ha) ks s.ex.tape
  cases hr : s.ex.rewards with
  | none => rw [hr] at hs; cases hs
  | some r =>
    have hks' : cfg.toEx.observers = some ks := hks
    have hget : Ex.getObs cfg.toEx s.ex a = .ok (mergeObs outs, { s.ex with tape := t' }) := by
      simp only [Ex.getObs, hr, hks', ha, if_true, hout]
    refine ⟨mergeObs outs, { s with ex := { s.ex with tape := t' } }, ?_, ?_⟩
    · unfold getObs
      rw [hget]
    · exact Ex.getObs_obsInSpace_float hks' hW hP henc hammo hget

end PM
end Abmarl
