import Abmarl.Lemmas.Observers
import Abmarl.Lemmas.Grid
import Batteries.Data.List.Perm
/-!
# C09 lemmas, part 2: what the consistency invariant says about cells; one cell of each view

`*_ok`: for **every tape** the cell function of the model returns a value that satisfies the
cell clause of the specification (`absCellOK`, `cenCellOK`, `stkCellOK`), provided the
encodings of the occupants are positive.
-/
namespace Abmarl
namespace Observers
open World

/-! ## Consequences of `WInv` for the occupants of a cell -/

theorem cells_of_WInv {w : World} (hI : w.WInv = true) {i : Nat} {b : Aid}
    (hb : b ∈ w.cells.getD i []) :
    b < w.n ∧ (w.stOf b).active = true ∧ w.inGrid (w.stOf b).pos = true ∧ w.idx (w.stOf b).pos = i := by
  simp only [WInv, Bool.and_eq_true, List.all_eq_true] at hI
  obtain ⟨⟨⟨hshape, hcells⟩, _⟩, _⟩ := hI
  simp only [wShape, Bool.and_eq_true, beq_iff_eq] at hshape
  by_cases hil : i < w.rows * w.cols
  · have hc := hcells i (by simpa [allCells] using hil)
    simp only [wCell, Bool.and_eq_true, List.all_eq_true, beq_iff_eq, decide_eq_true_eq] at hc
    obtain ⟨⟨⟨h1, h2⟩, h3⟩, h4⟩ := hc.1.2 b hb
    exact ⟨h1, h2, h3, h4⟩
  · have : w.cells.getD i [] = [] := by
      simp only [List.getD_eq_getElem?_getD]
      rw [List.getElem?_eq_none (by omega)]; rfl
    rw [this] at hb; cases hb

theorem nodup_cells_of_WInv {w : World} (hI : w.WInv = true) (i : Nat) : (w.cells.getD i []).Nodup := by
  simp only [WInv, Bool.and_eq_true, List.all_eq_true] at hI
  obtain ⟨⟨⟨hshape, hcells⟩, _⟩, _⟩ := hI
  simp only [wShape, Bool.and_eq_true, beq_iff_eq] at hshape
  by_cases hil : i < w.rows * w.cols
  · have hc := hcells i (by simpa [allCells] using hil)
    simp only [wCell, Bool.and_eq_true, decide_eq_true_eq] at hc
    exact hc.1.1
  · have : w.cells.getD i [] = [] := by
      simp only [List.getD_eq_getElem?_getD]
      rw [List.getElem?_eq_none (by omega)]; rfl
    rw [this]; exact List.nodup_nil

/-- whoever stands on a cell is a real, active agent whose position is that cell -/
theorem cell_of_WInv {w : World} (hI : w.WInv = true) {q : Pos} {b : Aid} (hb : b ∈ w.cell q) :
    b < w.n ∧ (w.stOf b).active = true ∧ w.inGrid (w.stOf b).pos = true ∧
      w.idx (w.stOf b).pos = w.idx q :=
  cells_of_WInv hI hb

/-- a Nodup list of naturals below `n` has at most `n` elements -/
theorem length_le_of_nodup_lt {l : List Nat} {n : Nat} (hn : l.Nodup) (hl : ∀ x ∈ l, x < n) :
    l.length ≤ n := by
  have hsub : l ⊆ List.range n := fun x hx => List.mem_range.mpr (hl x hx)
  have := (List.subperm_of_subset hn hsub).length_le
  simpa using this

theorem cell_length_le {w : World} (hI : w.WInv = true) (q : Pos) : (w.cell q).length ≤ w.n :=
  length_le_of_nodup_lt (nodup_cells_of_WInv hI _) (fun _ hx => (cell_of_WInv hI hx).1)

/-! ## One cell of the absolute view -/

theorem absCell_ok (w : World) (a : Aid) (hidden : Bool) (occ : List Aid) (t : Tape)
    (henc : ∀ b ∈ occ, 0 < w.encOf b) :
    ∃ v t', absCell w a (!hidden) (some occ) t = .ok (v, t') ∧ absCellOK w a hidden occ v = true := by
  cases hidden with
  | true => exact ⟨-2, t, by simp [absCell], by simp [absCellOK]⟩
  | false =>
    by_cases hne : occ = []
    · subst hne
      exact ⟨0, t, by simp [absCell], by simp [absCellOK]⟩
    · have hemp : occ.isEmpty = false := by simpa using hne
      by_cases hmem : a ∈ occ
      · exact ⟨-1, t, by simp [absCell, hemp, hmem], by simp [absCellOK, hemp, hmem]⟩
      · obtain ⟨v, t', hp, b, hb, hv⟩ := pick_ok w occ t hne
        have hpos := henc b hb
        rw [hv] at hpos
        refine ⟨v, t', by simp [absCell, hemp, hmem, hp], ?_⟩
        have h1 : (v == -2) = false := by simp; omega
        have h2 : (v == -1) = false := by simp; omega
        have h3 : (v == 0) = false := by simp; omega
        have hba : b ≠ a := fun e => hmem (e ▸ hb)
        have h4 : (occ.any fun b => b != a && w.encOf b == v) = true :=
          List.any_eq_true.mpr ⟨b, hb, by simp [hv, hba]⟩
        simp [absCellOK, h1, h2, h3, h4, hemp, hmem]

/-! ## One cell of the centred view -/

theorem cenCell_ok (w : World) (a : Aid) (os hidden inG : Bool) (occ : List Aid) (t : Tape)
    (henc : ∀ b ∈ occ, 0 < w.encOf b) :
    ∃ v t', cenCell w a os (!hidden) (if inG = true then some occ else none) t = .ok (v, t') ∧
      cenCellOK w hidden inG
        (if inG = true then (if os = true then occ else occ.filter fun b => b != a) else []) v = true := by
  cases hidden with
  | true => exact ⟨-2, t, by simp [cenCell], by simp [cenCellOK]⟩
  | false =>
    cases inG with
    | false => exact ⟨-1, t, by simp [cenCell], by simp [cenCellOK]⟩
    | true =>
      simp only [if_true]
      -- the common last step: a value picked from a non-empty list `rep` of reportable occupants
      have hpick : ∀ rep : List Aid, rep ≠ [] → (∀ b ∈ rep, 0 < w.encOf b) →
          ∃ v t', pick w rep t = .ok (v, t') ∧ cenCellOK w false true rep v = true := by
        intro rep hne hrep
        obtain ⟨v, t', hp, b, hb, hv⟩ := pick_ok w rep t hne
        have hpos := hrep b hb
        rw [hv] at hpos
        refine ⟨v, t', hp, ?_⟩
        have h1 : (v == -2) = false := by simp; omega
        have h2 : (v == -1) = false := by simp; omega
        have h3 : (v == 0) = false := by simp; omega
        have h4 : (rep.any fun b => w.encOf b == v) = true :=
          List.any_eq_true.mpr ⟨b, hb, by simp [hv]⟩
        have hemp : rep.isEmpty = false := by simpa using hne
        simp [cenCellOK, h1, h2, h3, h4, hemp]
      by_cases hne : occ = []
      · subst hne
        exact ⟨0, t, by simp [cenCell], by cases os <;> simp [cenCellOK]⟩
      · have hemp : occ.isEmpty = false := by simpa using hne
        cases os with
        | true =>
          obtain ⟨v, t', hp, hok⟩ := hpick occ hne henc
          exact ⟨v, t', by simp [cenCell, hemp, hp], by simpa using hok⟩
        | false =>
          by_cases hoth : (occ.filter fun b => b != a) = []
          · refine ⟨0, t, ?_, ?_⟩
            · simp only [cenCell, Bool.not_false, if_true, hemp, Bool.false_eq_true, if_false, hoth,
                List.isEmpty_nil]
            · simp only [Bool.false_eq_true, if_false, hoth]
              simp [cenCellOK]
          · obtain ⟨v, t', hp, hok⟩ := hpick _ hoth (fun b hb => henc b (List.mem_filter.mp hb).1)
            have hemp2 : (occ.filter fun b => b != a).isEmpty = false := by simpa using hoth
            refine ⟨v, t', ?_, ?_⟩
            · simp only [cenCell, Bool.not_false, if_true, hemp, Bool.false_eq_true, if_false, hemp2, hp]
            · simpa using hok

/-! ## One entry of the stacked view -/

theorem stkCell_ok (w : World) (hidden inG : Bool) (occ : List Aid) (e : Nat) :
    stkCellOK w hidden inG (if inG = true then occ else []) e
      (stkCell w (!hidden) (if inG = true then some occ else none) e) = true := by
  cases hidden with
  | true => simp [stkCell, stkCellOK]
  | false =>
    cases inG with
    | false => simp [stkCell, stkCellOK]
    | true =>
      by_cases hne : occ = []
      · subst hne; simp [stkCell, stkCellOK]
      · have hemp : occ.isEmpty = false := by simpa using hne
        have h1 : (((occ.countP fun b => w.encOf b == (e : Int) + 1 : Nat) : Int) == -2) = false := by
          simp
        have h2 : (((occ.countP fun b => w.encOf b == (e : Int) + 1 : Nat) : Int) == -1) = false := by
          simp
        simp [stkCell, stkCellOK, hemp, h1, h2]

end Observers
end Abmarl
