import Abmarl.Lemmas.SuperAgent
/-!
# The invariant behind C14 and the per-call soundness lemmas

`SInv` links the wrapper model's state (inner state + the two "last reported" lists) to the ghost
state `SG` that `specC14` folds from the trace alone.  `supCall_sound`: every call made after the
first `reset` satisfies its clause `c14Entry` and re-establishes the invariant.
-/
namespace Abmarl
variable {σ α ω ι : Type}

structure SInv (S : SimIface σ α ω ι) (cs : SCSt σ) (g : SG) : Prop where
  started : cs.started = true
  gstarted : g.started = true
  done : g.done = S.agents.map (S.done cs.st.sim)
  pend : g.pend = S.agents.map (S.pending cs.st.sim)
  obsRep : ∀ c, c ∈ cs.st.lastObs ↔ c ∈ g.obsRep
  rewRep : ∀ c, c ∈ cs.st.lastRew ↔ c ∈ g.rewRep

theorem SInv.isDone {S : SimIface σ α ω ι} {cs : SCSt σ} {g : SG} (h : SInv S cs g) {c : Aid}
    (hc : c < S.n) : g.isDone c = S.done cs.st.sim c := by
  unfold SG.isDone
  rw [h.done]
  exact getD_map_range _ _ _ _ hc

theorem SInv.pendOf {S : SimIface σ α ω ι} {cs : SCSt σ} {g : SG} (h : SInv S cs g) {c : Aid}
    (hc : c < S.n) : g.pendOf c = S.pending cs.st.sim c := by
  unfold SG.pendOf
  rw [h.pend]
  exact getD_map_range _ _ _ _ hc

/-- soundness statement for one wrapper call -/
def CallSound [DecidableEq α] [DecidableEq ω] [DecidableEq ι] (S : SimIface σ α ω ι) (cfg : SuperCfg ω)
    (cs : SCSt σ) (g : SG) (call : SCall α) : Prop :=
  c14Entry S.n cfg g (supCall S cfg cs call).1 = true ∧
  SInv S (supCall S cfg cs call).2 (sgNext cfg g (supCall S cfg cs call).1)

/-! ### resolution of agent references -/

theorem resolve_sup {n : Nat} {cfg : SuperCfg ω} {r : Ref} {cov : List Aid}
    (h : resolve n cfg r = .ok (.sup cov)) : ∃ i, r = .sup i ∧ cfg.groups[i]? = some cov := by
  cases r with
  | sup i =>
    simp only [resolve] at h
    cases hg : cfg.groups[i]? with
    | none => simp [hg] at h
    | some cov' =>
      simp only [hg, Except.ok.injEq, Outer.sup.injEq] at h
      exact ⟨i, rfl, by rw [← h]; exact hg⟩
  | inner a =>
    simp only [resolve] at h
    split at h
    · cases h
    · split at h <;> cases h

theorem resolve_unc {n : Nat} {cfg : SuperCfg ω} {r : Ref} {a : Aid}
    (h : resolve n cfg r = .ok (.unc a)) : r = .inner a ∧ a ∉ cfg.covered ∧ a < n := by
  cases r with
  | sup i =>
    simp only [resolve] at h
    cases hg : cfg.groups[i]? with
    | none => simp [hg] at h
    | some cov' => simp [hg] at h
  | inner b =>
    simp only [resolve] at h
    split at h
    · cases h
    · rename_i hnc
      split at h
      · rename_i hlt
        simp only [Except.ok.injEq, Outer.unc.injEq] at h
        subst h
        exact ⟨rfl, hnc, hlt⟩
      · cases h

theorem resolve_not_bad {n : Nat} {cfg : SuperCfg ω} {r : Ref} : resolve n cfg r ≠ .ok .bad := by
  intro h
  cases r with
  | sup i =>
    simp only [resolve] at h
    cases hg : cfg.groups[i]? with
    | none => simp [hg] at h
    | some cov' => simp [hg] at h
  | inner b =>
    simp only [resolve] at h
    split at h
    · cases h
    · split at h <;> cases h

/-! ### the shape of the model's entries -/

theorem supCall_reset (S : SimIface σ α ω ι) (cfg : SuperCfg ω) (cs : SCSt σ) :
    supCall S cfg cs (.reset : SCall α) =
      (sup_mkEntry S .reset .unit none (supReset S cs.st).sim [] (supReset S cs.st).sim,
       { st := supReset S cs.st, started := true }) := by
  simp only [supCall]

theorem supCall_getObs {S : SimIface σ α ω ι} {cfg : SuperCfg ω} {cs : SCSt σ} {r : Ref} {o : Outer}
    (h : resolve S.n cfg r = .ok o) (hs : cs.started = true) :
    supCall (α := α) S cfg cs (.getObs r) =
      (sup_mkEntry S (.getObs r) (.obs (supObs S cfg cs.st o).1) none cs.st.sim (supObs S cfg cs.st o).2.1
         (supObs S cfg cs.st o).2.2.sim,
       { cs with st := (supObs S cfg cs.st o).2.2 }) := by
  simp only [supCall, h]
  split
  · rename_i hf; rw [hs] at hf; cases hf
  · rfl

theorem supCall_getReward {S : SimIface σ α ω ι} {cfg : SuperCfg ω} {cs : SCSt σ} {r : Ref} {o : Outer}
    (h : resolve S.n cfg r = .ok o) (hs : cs.started = true) :
    supCall (α := α) S cfg cs (.getReward r) =
      (sup_mkEntry S (.getReward r) (.reward (supReward S cs.st o).1) none cs.st.sim []
         (supReward S cs.st o).2.sim,
       { cs with st := (supReward S cs.st o).2 }) := by
  simp only [supCall, h]
  split
  · rename_i hf; rw [hs] at hf; cases hf
  · rfl

/-- a call that fails before anything reaches the simulation -/
def failOut (S : SimIface σ α ω ι) (cs : SCSt σ) (call : SCall α) (e : Err) : SupEntry α ω ι × SCSt σ :=
  (sup_mkEntry S call (.err e) none cs.st.sim [] cs.st.sim, cs)

theorem untouched_same {S : SimIface σ α ω ι} {cs : SCSt σ} {g : SG} (hI : SInv S cs g)
    (call : SCall α) (res : SupRes ω ι) :
    untouched g (sup_mkEntry S call res none cs.st.sim [] cs.st.sim) = true := by
  simp [untouched, frameOK, sup_mkEntry, hI.done, hI.pend]

/-- the ghost fold for an entry that leaves the hand-over state alone -/
theorem SInv.same {S : SimIface σ α ω ι} {cs : SCSt σ} {g : SG} (hI : SInv S cs g)
    (g' : SG) (hs : g'.started = g.started) (hd : g'.done = S.agents.map (S.done cs.st.sim))
    (hp : g'.pend = S.agents.map (S.pending cs.st.sim)) (ho : g'.obsRep = g.obsRep)
    (hr : g'.rewRep = g.rewRep) : SInv S cs g' :=
  { started := hI.started, gstarted := by rw [hs]; exact hI.gstarted, done := hd, pend := hp,
    obsRep := by rw [ho]; exact hI.obsRep, rewRep := by rw [hr]; exact hI.rewRep }

section proj
variable (S : SimIface σ α ω ι) (call : SCall α) (res : SupRes ω ι) (args : Option (List (Aid × α)))
  (sA : σ) (reads : List (Aid × ω)) (s' : σ)
@[simp] theorem mkEntry_call : (sup_mkEntry S call res args sA reads s').call = call := rfl
@[simp] theorem mkEntry_res : (sup_mkEntry S call res args sA reads s').res = res := rfl
@[simp] theorem mkEntry_simArgs : (sup_mkEntry S call res args sA reads s').simArgs = args := rfl
@[simp] theorem mkEntry_accrued :
    (sup_mkEntry S call res args sA reads s').accrued = S.agents.map (S.pending sA) := rfl
@[simp] theorem mkEntry_obsReads : (sup_mkEntry S call res args sA reads s').obsReads = reads := rfl
@[simp] theorem mkEntry_simDone :
    (sup_mkEntry S call res args sA reads s').simDone = S.agents.map (S.done s') := rfl
@[simp] theorem mkEntry_pending :
    (sup_mkEntry S call res args sA reads s').pending = S.agents.map (S.pending s') := rfl
@[simp] theorem mkEntry_simAllDone :
    (sup_mkEntry S call res args sA reads s').simAllDone = S.allDone s' := rfl
@[simp] theorem mkEntry_simInfos :
    (sup_mkEntry S call res args sA reads s').simInfos = S.agents.map (S.info s') := rfl
end proj

section calls
variable [DecidableEq α] [DecidableEq ω] [DecidableEq ι]

theorem reset_call_sound (S : SimIface σ α ω ι) (cfg : SuperCfg ω) (cs : SCSt σ) (g : SG) :
    CallSound S cfg cs g (.reset : SCall α) := by
  unfold CallSound
  rw [supCall_reset]
  refine ⟨by simp [c14Entry], ?_⟩
  simp only [sgNext, mkEntry_call, mkEntry_simDone, mkEntry_pending]
  exact { started := rfl, gstarted := rfl, done := rfl, pend := rfl,
          obsRep := by simp [supReset], rewRep := by simp [supReset] }

omit [DecidableEq α] [DecidableEq ω] [DecidableEq ι] in
/-- a failing call is judged sound: the error kind is the one the dispatch prescribes and nothing
reached the inner simulation -/
theorem fail_sound {S : SimIface σ α ω ι} {cfg : SuperCfg ω} {cs : SCSt σ} {g : SG} (hI : SInv S cs g)
    (call : SCall α) (e : Err) (hnr : sup_isReset call = false) :
    untouched g (failOut S cs call e).1 = true ∧
    SInv S (failOut S cs call e).2 (sgNext cfg g (failOut S cs call e).1) := by
  refine ⟨untouched_same hI call (.err e), ?_⟩
  simp only [failOut]
  cases call with
  | reset => simp [sup_isReset] at hnr
  | getObs r => cases r <;> exact hI.same _ rfl rfl rfl rfl rfl
  | getReward r => cases r <;> exact hI.same _ rfl rfl rfl rfl rfl
  | step _ => exact hI.same _ rfl rfl rfl rfl rfl
  | getDone _ => exact hI.same _ rfl rfl rfl rfl rfl
  | getAllDone => exact hI.same _ rfl rfl rfl rfl rfl
  | getInfo _ => exact hI.same _ rfl rfl rfl rfl rfl

theorem getElem?_map_range {β : Type} (f : Nat → β) (n a : Nat) (h : a < n) :
    ((List.range n).map f)[a]? = some (f a) := by
  simp [h]

theorem all_congr_mem {β : Type} {l : List β} {p q : β → Bool} (h : ∀ a ∈ l, p a = q a) :
    l.all p = l.all q := by
  induction l with
  | nil => rfl
  | cons x xs ih =>
    simp only [List.all_cons]
    rw [h x (List.mem_cons_self ..), ih (fun a ha => h a (List.mem_cons_of_mem _ ha))]

theorem getAllDone_sound {S : SimIface σ α ω ι} {cfg : SuperCfg ω} {cs : SCSt σ} {g : SG}
    (hI : SInv S cs g) : CallSound S cfg cs g (.getAllDone : SCall α) := by
  unfold CallSound
  have hE : supCall S cfg cs (.getAllDone : SCall α) =
      (sup_mkEntry S .getAllDone (.done (S.allDone cs.st.sim)) none cs.st.sim [] cs.st.sim, cs) := by
    simp only [supCall]
  rw [hE]
  refine ⟨?_, hI.same _ rfl rfl rfl rfl rfl⟩
  simp only [c14Entry, mkEntry_call, mkEntry_res, mkEntry_simAllDone, untouched_same hI, Bool.and_true]
  simp

theorem getDone_sound {S : SimIface σ α ω ι} {cfg : SuperCfg ω} {cs : SCSt σ} {g : SG}
    (hc : ctorOK S.n S.learning cfg = true) (hI : SInv S cs g) (r : Ref) :
    CallSound S cfg cs g (.getDone r : SCall α) := by
  unfold CallSound
  cases hres : resolve S.n cfg r with
  | error e =>
    have hE : supCall S cfg cs (.getDone r : SCall α) = failOut S cs (.getDone r) e := by
      simp only [supCall, hres, failOut]
    rw [hE]
    obtain ⟨h1, h2⟩ := fail_sound (cfg := cfg) hI (.getDone r : SCall α) e rfl
    refine ⟨?_, h2⟩
    simp only [c14Entry, failOut, mkEntry_call, mkEntry_res, hres]
    simpa [failOut] using h1
  | ok o =>
    have hE : supCall S cfg cs (.getDone r : SCall α) =
        (sup_mkEntry S (.getDone r) (.done (supDone S cs.st o)) none cs.st.sim [] cs.st.sim, cs) := by
      simp only [supCall, hres]
    rw [hE]
    refine ⟨?_, hI.same _ rfl rfl rfl rfl rfl⟩
    simp only [c14Entry, mkEntry_call, mkEntry_res, hres]
    cases o with
    | bad => exact absurd hres resolve_not_bad
    | unc a =>
      obtain ⟨_, _, hlt⟩ := resolve_unc hres
      simp [supDone, untouched_same hI, hI.isDone hlt]
    | sup cov =>
      obtain ⟨i, _, hg⟩ := resolve_sup hres
      have hcov := (ctorOK_iff.mp hc).1
      simp only [supDone, untouched_same hI, Bool.and_true, beq_iff_eq, SupRes.done.injEq]
      apply all_congr_mem
      intro c hcm
      exact (hI.isDone (hcov c (mem_covered_of_group hg hcm)).1).symm

theorem getInfo_sound {S : SimIface σ α ω ι} {cfg : SuperCfg ω} {cs : SCSt σ} {g : SG}
    (hc : ctorOK S.n S.learning cfg = true) (hI : SInv S cs g) (r : Ref) :
    CallSound S cfg cs g (.getInfo r : SCall α) := by
  unfold CallSound
  cases hres : resolve S.n cfg r with
  | error e =>
    have hE : supCall S cfg cs (.getInfo r : SCall α) = failOut S cs (.getInfo r) e := by
      simp only [supCall, hres, failOut]
    rw [hE]
    obtain ⟨h1, h2⟩ := fail_sound (cfg := cfg) hI (.getInfo r : SCall α) e rfl
    refine ⟨?_, h2⟩
    simp only [c14Entry, failOut, mkEntry_call, mkEntry_res, hres]
    simpa [failOut] using h1
  | ok o =>
    have hE : supCall S cfg cs (.getInfo r : SCall α) =
        (sup_mkEntry S (.getInfo r) (.info (supInfo S cs.st o)) none cs.st.sim [] cs.st.sim, cs) := by
      simp only [supCall, hres]
    rw [hE]
    refine ⟨?_, hI.same _ rfl rfl rfl rfl rfl⟩
    simp only [c14Entry, mkEntry_call, mkEntry_res, mkEntry_simInfos, hres]
    cases o with
    | bad => exact absurd hres resolve_not_bad
    | unc a =>
      obtain ⟨_, _, hlt⟩ := resolve_unc hres
      simp [supInfo, untouched_same hI, SimIface.agents, hlt]
    | sup cov =>
      obtain ⟨i, _, hg⟩ := resolve_sup hres
      have hcov := (ctorOK_iff.mp hc).1
      simp only [supInfo, untouched_same hI, Bool.and_true, Bool.and_eq_true, beq_iff_eq,
        List.all_eq_true, List.map_map]
      refine ⟨by simp [Function.comp_def], ?_⟩
      intro p hp
      obtain ⟨c, hcm, rfl⟩ := List.mem_map.mp hp
      have hlt := (hcov c (mem_covered_of_group hg hcm)).1
      simp [SimIface.agents, hlt]

omit [DecidableEq α] [DecidableEq ω] [DecidableEq ι] in
theorem groups_getD {cfg : SuperCfg ω} {i : Nat} {cov : List Aid} (hg : cfg.groups[i]? = some cov) :
    cfg.groups.getD i [] = cov := by
  rw [List.getD_eq_getElem?_getD, hg]; rfl

theorem getObs_sound {S : SimIface σ α ω ι} {cfg : SuperCfg ω} {cs : SCSt σ} {g : SG}
    (hS : Lawful S) (hc : ctorOK S.n S.learning cfg = true) (hn : NullTruthy cfg) (hI : SInv S cs g)
    (r : Ref) : CallSound S cfg cs g (.getObs r : SCall α) := by
  unfold CallSound
  cases hres : resolve S.n cfg r with
  | error e =>
    have hE : supCall S cfg cs (.getObs r : SCall α) = failOut S cs (.getObs r) e := by
      simp only [supCall, hres, failOut]
    rw [hE]
    obtain ⟨h1, h2⟩ := fail_sound (cfg := cfg) hI (.getObs r : SCall α) e rfl
    refine ⟨?_, h2⟩
    simp only [c14Entry, failOut, mkEntry_call, mkEntry_res, hres]
    simpa [failOut] using h1
  | ok o =>
    rw [supCall_getObs hres hI.started]
    cases o with
    | bad => exact absurd hres resolve_not_bad
    | unc a =>
      obtain ⟨hr, _, hlt⟩ := resolve_unc hres
      subst hr
      have hd : S.agents.map (S.done (S.obs cs.st.sim a).2) = g.done := by
        rw [hI.done]; apply List.map_congr_left; intro b _; exact hS.obs_done _ _ _
      have hp : S.agents.map (S.pending (S.obs cs.st.sim a).2) = g.pend := by
        rw [hI.pend]; apply List.map_congr_left; intro b _; exact hS.obs_pending _ _ _
      constructor
      · simp only [c14Entry, mkEntry_call, mkEntry_res, hres, supObs, mkEntry_obsReads, frameOK,
          mkEntry_simArgs, mkEntry_simDone, mkEntry_accrued, mkEntry_pending, hd, hp, hI.pend]
        simp
      · simp only [sgNext, mkEntry_call, mkEntry_simDone, mkEntry_pending, supObs, hd, hp]
        exact { started := hI.started, gstarted := hI.gstarted, done := hd.symm, pend := hp.symm,
                obsRep := hI.obsRep, rewRep := hI.rewRep }
    | sup cov =>
      obtain ⟨i, hr, hg⟩ := resolve_sup hres
      subst hr
      have hcov := ctorOK_iff.mp hc
      have hnd : cov.Nodup := nodup_group hcov.2 hg
      have hlt : ∀ c ∈ cov, c < S.n := fun c hcm => (hcov.1 c (mem_covered_of_group hg hcm)).1
      have hdue : ∀ c ∈ cov, g.obsDue cfg c =
          (!S.done cs.st.sim c || !decide (c ∈ cs.st.lastObs) || (cfg.declared c).isNone) := by
        intro c hcm
        unfold SG.obsDue
        rw [hI.isDone (hlt c hcm)]
        have : (c ∈ g.obsRep) ↔ (c ∈ cs.st.lastObs) := (hI.obsRep c).symm
        simp only [this]
      have hnull : ∀ c ∈ cov, cfg.usableNull c = cfg.declared c :=
        fun c hcm => usableNull_isNone hn (mem_covered_of_group hg hcm)
      obtain ⟨h1, h2, h3, h4, h5, h6⟩ := supObsLoop_spec hS cfg (g.obsDue cfg) cov cs.st hnd hdue hnull
      obtain ⟨l, hl⟩ : ∃ l, l = supObsLoop S cfg cov cs.st := ⟨_, rfl⟩
      rw [← hl] at h1 h2 h3 h4 h5 h6
      have hd : S.agents.map (S.done l.2.sim) = g.done := by
        rw [hI.done]; apply List.map_congr_left; intro b _; exact h3.1 b
      have hp : S.agents.map (S.pending l.2.sim) = g.pend := by
        rw [hI.pend]; apply List.map_congr_left; intro b _; exact h4 b
      have hmask : (cov.map fun c => (c, !g.isDone c)) = l.1.map fun i => (i.agent, i.mask) := by
        rw [h2]; apply List.map_congr_left; intro c hcm; rw [hI.isDone (hlt c hcm)]
      have hO : supObs S cfg cs.st (.sup cov) = (packObs l.1, readsOf l.1, l.2) := by
        simp only [supObs, ← hl]
      rw [hO]
      constructor
      · simp only [c14Entry, mkEntry_call, mkEntry_res, hres, mkEntry_obsReads, h1, frameOK,
          mkEntry_simArgs, mkEntry_simDone, mkEntry_accrued, mkEntry_pending, hd, hp, hI.pend, hmask,
          packObs]
        simp
      · simp only [sgNext, mkEntry_call, mkEntry_res, mkEntry_simDone, mkEntry_pending, hd, hp,
          groups_getD hg]
        exact { started := hI.started, gstarted := hI.gstarted, done := hd.symm, pend := hp.symm,
                rewRep := by intro c; rw [h5]; exact hI.rewRep c,
                obsRep := by
                  intro c
                  rw [h6 c, hI.obsRep c]
                  simp only [List.mem_append, List.mem_filter]
                  constructor
                  · rintro (h | ⟨hm, hdn⟩)
                    · exact Or.inl h
                    · exact Or.inr ⟨hm, by rw [hI.isDone (hlt c hm)]; exact hdn⟩
                  · rintro (h | ⟨hm, hdn⟩)
                    · exact Or.inl h
                    · exact Or.inr ⟨hm, by rw [← hI.isDone (hlt c hm)]; exact hdn⟩ }

omit [DecidableEq α] [DecidableEq ω] [DecidableEq ι] in
theorem pendingAfter_of {S : SimIface σ α ω ι} {cs : SCSt σ} {g : SG} (hI : SInv S cs g)
    (read : List Aid) (s' : σ) (call : SCall α) (res : SupRes ω ι) (args : Option (List (Aid × α)))
    (sA : σ) (reads : List (Aid × ω))
    (h : ∀ b, S.pending s' b = if b ∈ read then 0 else S.pending cs.st.sim b) :
    pendingAfter S.n g read (sup_mkEntry S call res args sA reads s') = true := by
  unfold pendingAfter
  simp only [mkEntry_pending, Bool.and_eq_true, beq_iff_eq, List.all_eq_true, List.mem_range]
  refine ⟨by simp [SimIface.agents], ?_⟩
  intro a ha
  rw [SimIface.agents, getD_map_range _ _ _ _ ha, h a]
  by_cases hm : a ∈ read <;> simp [hm, hI.pendOf ha]

theorem getReward_sound {S : SimIface σ α ω ι} {cfg : SuperCfg ω} {cs : SCSt σ} {g : SG}
    (hS : Lawful S) (hc : ctorOK S.n S.learning cfg = true) (hI : SInv S cs g)
    (r : Ref) : CallSound S cfg cs g (.getReward r : SCall α) := by
  unfold CallSound
  cases hres : resolve S.n cfg r with
  | error e =>
    have hE : supCall S cfg cs (.getReward r : SCall α) = failOut S cs (.getReward r) e := by
      simp only [supCall, hres, failOut]
    rw [hE]
    obtain ⟨h1, h2⟩ := fail_sound (cfg := cfg) hI (.getReward r : SCall α) e rfl
    refine ⟨?_, h2⟩
    simp only [c14Entry, failOut, mkEntry_call, mkEntry_res, hres]
    simpa [failOut] using h1
  | ok o =>
    rw [supCall_getReward hres hI.started]
    cases o with
    | bad => exact absurd hres resolve_not_bad
    | unc a =>
      obtain ⟨hr, _, hlt⟩ := resolve_unc hres
      subst hr
      have hd : S.agents.map (S.done (S.reward cs.st.sim a).2) = g.done := by
        rw [hI.done]; apply List.map_congr_left; intro b _; exact hS.rew_done _ _ _
      have hpa := fun res => pendingAfter_of hI [a] (S.reward cs.st.sim a).2
        (.getReward (.inner a) : SCall α) res none cs.st.sim []
        (by intro b; rw [hS.rew_pending]; simp)
      constructor
      · simp only [c14Entry, mkEntry_call, mkEntry_res, hres, supReward, mkEntry_obsReads, frameOK,
          mkEntry_simArgs, mkEntry_simDone, mkEntry_accrued, hd, hI.pend, hpa, hS.rew_val,
          hI.pendOf hlt]
        simp
      · simp only [sgNext, mkEntry_call, mkEntry_simDone, mkEntry_pending, supReward, hd]
        exact { started := hI.started, gstarted := hI.gstarted, done := hd.symm, pend := rfl,
                obsRep := hI.obsRep, rewRep := hI.rewRep }
    | sup cov =>
      obtain ⟨i, hr, hg⟩ := resolve_sup hres
      subst hr
      have hcov := ctorOK_iff.mp hc
      have hnd : cov.Nodup := nodup_group hcov.2 hg
      have hlt : ∀ c ∈ cov, c < S.n := fun c hcm => (hcov.1 c (mem_covered_of_group hg hcm)).1
      obtain ⟨h1, h2, h3, h4, h5⟩ := supRewLoop_spec hS cov cs.st 0 hnd
      have hcnt : (cov.filter fun c => !(S.done cs.st.sim c && decide (c ∈ cs.st.lastRew))) =
          g.counted cov := by
        unfold SG.counted
        apply List.filter_congr
        intro c hcm
        rw [hI.isDone (hlt c hcm)]
        have : (c ∈ cs.st.lastRew) ↔ (c ∈ g.rewRep) := hI.rewRep c
        simp only [this]
      rw [hcnt] at h1 h3
      obtain ⟨l, hl⟩ : ∃ l, l = supRewLoop S cov cs.st 0 := ⟨_, rfl⟩
      rw [← hl] at h1 h2 h3 h4 h5
      have hd : S.agents.map (S.done l.2.sim) = g.done := by
        rw [hI.done]; apply List.map_congr_left; intro b _; exact h2.1 b
      have hsum : l.1 = ((g.counted cov).map g.pendOf).sum := by
        rw [h1, Int.zero_add]
        congr 1
        apply List.map_congr_left
        intro c hcm
        have : c ∈ cov := by
          unfold SG.counted at hcm; exact (List.mem_filter.mp hcm).1
        rw [hI.pendOf (hlt c this)]
      have hR : supReward S cs.st (.sup cov) = l := by simp only [supReward, ← hl]
      rw [hR]
      have hpa := fun res => pendingAfter_of hI (g.counted cov) l.2.sim (.getReward (.sup i) : SCall α)
        res none cs.st.sim [] h3
      constructor
      · simp only [c14Entry, mkEntry_call, mkEntry_res, hres, mkEntry_obsReads, frameOK,
          mkEntry_simArgs, mkEntry_simDone, mkEntry_accrued, hd, hI.pend, hpa, hsum]
        simp
      · simp only [sgNext, mkEntry_call, mkEntry_res, mkEntry_simDone, mkEntry_pending, hd,
          groups_getD hg]
        exact { started := hI.started, gstarted := hI.gstarted, done := hd.symm, pend := rfl,
                obsRep := by intro c; rw [h4]; exact hI.obsRep c,
                rewRep := by
                  intro c
                  rw [h5 c, hI.rewRep c]
                  simp only [List.mem_append, List.mem_filter]
                  constructor
                  · rintro (h | ⟨hm, hdn⟩)
                    · exact Or.inl h
                    · exact Or.inr ⟨hm, by rw [hI.isDone (hlt c hm)]; exact hdn⟩
                  · rintro (h | ⟨hm, hdn⟩)
                    · exact Or.inl h
                    · exact Or.inr ⟨hm, by rw [← hI.isDone (hlt c hm)]; exact hdn⟩ }

end calls

/-- an accepted action dict names, inside joint actions, only agents of the inner simulation -/
theorem checkActs_ok_keys {n : Nat} {cfg : SuperCfg ω} :
    ∀ (acts : List (Ref × SAct α)) (oacts : List (Outer × SAct α)), checkActs n cfg acts = .ok oacts →
      ∀ p ∈ oacts, ∀ cov l, p = (Outer.sup cov, SAct.joint l) → ∀ q ∈ l, q.1 < n := by
  intro acts
  induction acts with
  | nil =>
    intro oacts h p hp
    simp only [checkActs, Except.ok.injEq] at h
    subst h; cases hp
  | cons x rest ih =>
    intro oacts h p hp cov l hpe q hq
    obtain ⟨r, a⟩ := x
    simp only [checkActs] at h
    cases hres : resolve n cfg r with
    | error e => simp [hres] at h
    | ok o =>
      simp only [hres] at h
      by_cases hbad : badItem n o a = true
      · simp [hbad] at h
      · cases hrest : checkActs n cfg rest with
        | error e => simp [hbad, hrest] at h
        | ok l' =>
          simp only [hbad, hrest, Bool.false_eq_true, if_false, Except.ok.injEq] at h
          subst h
          rcases List.mem_cons.mp hp with hp | hp
          · subst hp
            simp only [Prod.mk.injEq] at hpe
            obtain ⟨ho, ha⟩ := hpe
            subst ho ha
            simp only [badItem, List.any_eq_true, decide_eq_true_eq, not_exists, not_and, Nat.not_le] at hbad
            exact hbad q hq
          · exact ih l' hrest p hp cov l hpe q hq

theorem unravel_eq_expect {S : SimIface σ α ω ι} {cs : SCSt σ} {g : SG} (hI : SInv S cs g) :
    ∀ (oacts : List (Outer × SAct α)),
      (∀ p ∈ oacts, ∀ cov l, p = (Outer.sup cov, SAct.joint l) → ∀ q ∈ l, q.1 < S.n) →
      oacts.flatMap (unravel1 S cs.st.sim) = oacts.flatMap (expect1 g) := by
  intro oacts
  induction oacts with
  | nil => intro _; rfl
  | cons p ps ih =>
    intro h
    simp only [List.flatMap_cons]
    rw [ih (fun p' hp' => h p' (List.mem_cons_of_mem _ hp'))]
    congr 1
    obtain ⟨o, a⟩ := p
    cases o with
    | bad => cases a <;> rfl
    | unc b => cases a <;> rfl
    | sup cov =>
      cases a with
      | plain v => rfl
      | joint l =>
        simp only [unravel1, expect1]
        apply List.filter_congr
        intro q hq
        rw [hI.isDone (h _ (List.mem_cons_self ..) cov l rfl q hq)]

section calls
variable [DecidableEq α] [DecidableEq ω] [DecidableEq ι]

theorem step_sound {S : SimIface σ α ω ι} {cfg : SuperCfg ω} {cs : SCSt σ} {g : SG}
    (hI : SInv S cs g) (acts : List (Ref × SAct α)) : CallSound S cfg cs g (.step acts) := by
  unfold CallSound
  cases hchk : checkActs S.n cfg acts with
  | error e =>
    have hE : supCall S cfg cs (.step acts) = failOut S cs (.step acts) e := by
      simp only [supCall, hchk, failOut]
    rw [hE]
    obtain ⟨h1, h2⟩ := fail_sound (cfg := cfg) hI (.step acts) e rfl
    refine ⟨?_, h2⟩
    simp only [c14Entry, failOut, mkEntry_call, mkEntry_res, hchk]
    simpa [failOut] using h1
  | ok oacts =>
    obtain ⟨s', hs'⟩ : ∃ s', s' = S.step cs.st.sim (supStepArgs S cs.st.sim oacts) := ⟨_, rfl⟩
    have hE : supCall S cfg cs (.step acts) =
        (sup_mkEntry S (.step acts) .unit (some (supStepArgs S cs.st.sim oacts)) s' [] s',
         { cs with st := { cs.st with sim := s' } }) := by
      simp only [supCall, hchk, ← hs']
    rw [hE]
    constructor
    · simp only [c14Entry, mkEntry_call, mkEntry_res, hchk, mkEntry_simArgs, mkEntry_obsReads,
        mkEntry_pending, mkEntry_accrued, supStepArgs,
        unravel_eq_expect hI oacts (checkActs_ok_keys acts oacts hchk)]
      simp
    · simp only [sgNext, mkEntry_call, mkEntry_simDone, mkEntry_pending]
      exact { started := hI.started, gstarted := hI.gstarted, done := rfl, pend := rfl,
              obsRep := hI.obsRep, rewRep := hI.rewRep }

/-- every call made after the first `reset` (and every `reset`) satisfies its clause of the
specification and re-establishes the invariant -/
theorem supCall_sound {S : SimIface σ α ω ι} {cfg : SuperCfg ω} (hS : Lawful S)
    (hc : ctorOK S.n S.learning cfg = true) (hn : NullTruthy cfg) (cs : SCSt σ) (g : SG)
    (call : SCall α) (hI : sup_isReset call = false → SInv S cs g) : CallSound S cfg cs g call := by
  cases call with
  | reset => exact reset_call_sound S cfg cs g
  | step acts => exact step_sound (hI rfl) acts
  | getObs r => exact getObs_sound hS hc hn (hI rfl) r
  | getReward r => exact getReward_sound hS hc (hI rfl) r
  | getDone r => exact getDone_sound hc (hI rfl) r
  | getAllDone => exact getAllDone_sound (hI rfl)
  | getInfo r => exact getInfo_sound hc (hI rfl) r

/-- the trace of the model satisfies the specification loop from any state in which the invariant
holds (or the wrapper has not been reset yet) -/
theorem supRun_sound {S : SimIface σ α ω ι} {cfg : SuperCfg ω} (hS : Lawful S)
    (hc : ctorOK S.n S.learning cfg = true) (hn : NullTruthy cfg) :
    ∀ (calls : List (SCall α)) (cs : SCSt σ) (g : SG), (g.started = true → SInv S cs g) →
      c14Loop S.n cfg g (supRun S cfg cs calls) = true := by
  intro calls
  induction calls with
  | nil => intro cs g _; simp [supRun, c14Loop]
  | cons c rest ih =>
    intro cs g hI
    simp only [supRun, c14Loop]
    have hcall : (supCall S cfg cs c).1.call = c := by
      cases c <;> simp only [supCall] <;> (repeat' split) <;> rfl
    rw [hcall]
    by_cases hskip : (!sup_isReset c && !g.started) = true
    · simp [hskip]
    · have hI' : sup_isReset c = false → SInv S cs g := by
        intro hr
        apply hI
        cases hgs : g.started with
        | true => rfl
        | false => simp [hr, hgs] at hskip
      obtain ⟨h1, h2⟩ := supCall_sound hS hc hn cs g c hI'
      simp only [hskip, Bool.false_eq_true, if_false, Bool.and_eq_true]
      exact ⟨h1, ih _ _ (fun _ => h2)⟩

end calls

end Abmarl
