import Abmarl.Lemmas.Ravel
/-!
# Flatten / unflatten: leaf lemmas and the mutual inductions over `Space` / `List Space`

The point of the characterisation: the array `flatten s p` is the concatenation of what the
leaves produce, *re-tagged* by numpy's promotion (`cast b`: everything stays as it is when
`b`, everything becomes float otherwise).  A parent may promote once more, so the unflatten
half is proved for the array re-tagged by an arbitrary `b`.
-/
namespace Abmarl

/-- numpy promotion applied to one element: keep (`true`) or convert to float (`false`) -/
def cast (b : Bool) (x : Num) : Num := if b then x else x.toFlt

theorem cast_true (x : Num) : cast true x = x := rfl
theorem cast_false (x : Num) : cast false x = x.toFlt := rfl

theorem map_cast_true (l : List Num) : l.map (cast true) = l := by
  induction l with
  | nil => rfl
  | cons x xs ih => simp only [List.map_cons, cast_true, ih]

theorem toFlt_toFlt (x : Num) : x.toFlt.toFlt = x.toFlt := by cases x <;> rfl
theorem val_toFlt (x : Num) : x.toFlt.val = x.val := by cases x <;> rfl
theorem val_cast (b : Bool) (x : Num) : (cast b x).val = x.val := by
  cases b
  · exact val_toFlt x
  · rfl
theorem cast_cast (b c : Bool) (x : Num) : cast b (cast c x) = cast (b && c) x := by
  cases b <;> cases c <;> simp [cast, toFlt_toFlt]
theorem toFlt_cast (b : Bool) (x : Num) : (cast b x).toFlt = x.toFlt := by
  cases b
  · exact toFlt_toFlt x
  · rfl
theorem isInt_toFlt (x : Num) : x.toFlt.isInt = false := by cases x <;> rfl

theorem toInt_cast_int (b : Bool) (i : Int) : (cast b (.int i)).toInt = .int i := by
  cases b
  · show Num.int (Int.tdiv ((i : Rat).num) ((i : Rat).den)) = .int i
    rw [Rat.num_intCast, Rat.den_intCast]
    simp
  · rfl

theorem map_cast_cast (b c : Bool) (l : List Num) : (l.map (cast c)).map (cast b) = l.map (cast (b && c)) := by
  induction l with
  | nil => rfl
  | cons x xs ih => simp only [List.map_cons, cast_cast, ih]

/-! ## `join`, `split`, `concat` -/

theorem join_map (f : Num → Num) : ∀ (parts : List (List Num)),
    join (parts.map (List.map f)) = (join parts).map f
  | [] => rfl
  | a :: as => by simp only [List.map_cons, join, List.map_append, join_map f as]

theorem length_join : ∀ (parts : List (List Num)), (join parts).length = sum (parts.map List.length)
  | [] => rfl
  | a :: as => by simp only [join, List.length_append, List.map_cons, sum, length_join as]

theorem split_join : ∀ (parts : List (List Num)) (ds : List Nat), parts.map List.length = ds →
    parts ≠ [] → split ds (join parts) = parts
  | [], _, _, h => absurd rfl h
  | [a], ds, hd, _ => by
    subst hd
    simp only [List.map_cons, List.map_nil, split, join, List.append_nil]
  | a :: b :: r, ds, hd, _ => by
    subst hd
    have ih := split_join (b :: r) _ rfl (by simp)
    simp only [List.map_cons] at ih ⊢
    simp only [split]
    rw [show join (a :: b :: r) = a ++ join (b :: r) from rfl]
    rw [List.take_left', List.drop_left', ih] <;> rfl

theorem all_isInt_map_toFlt : ∀ (l : List Num), l ≠ [] → (l.map Num.toFlt).all Num.isInt = false
  | [], h => absurd rfl h
  | x :: xs, _ => by simp [isInt_toFlt]

theorem concat_eq (parts : List (List Num)) (h : parts ≠ []) :
    concat parts = some ((join parts).map (cast ((join parts).all Num.isInt))) := by
  cases parts with
  | nil => exact absurd rfl h
  | cons a as =>
    simp only [concat]
    split
    · rename_i hall; rw [hall, map_cast_true]
    · rename_i hall
      have : (join (a :: as)).all Num.isInt = false := by simpa using hall
      rw [this]; rfl

theorem all_isInt_concat (j : List Num) :
    (j.map (cast (j.all Num.isInt))).all Num.isInt = j.all Num.isInt := by
  cases h : j.all Num.isInt
  · have hne : j ≠ [] := by intro e; subst e; simp at h
    exact all_isInt_map_toFlt j hne
  · rw [map_cast_true]; exact h

/-! ## bounds of the flattened Box -/

theorem memBoxQ_length : ∀ (lo hi : List Rat) (a : List Num), memBoxQ lo hi a = true →
    a.length = lo.length ∧ hi.length = lo.length
  | [], [], [], _ => ⟨rfl, rfl⟩
  | [], [], _ :: _, h => by simp [memBoxQ] at h
  | [], _ :: _, _, h => by simp [memBoxQ] at h
  | _ :: _, [], _, h => by simp [memBoxQ] at h
  | _ :: _, _ :: _, [], h => by simp [memBoxQ] at h
  | _ :: ls, _ :: hs, _ :: vs, h => by
    simp only [memBoxQ, Bool.and_eq_true] at h
    have := memBoxQ_length ls hs vs h.2
    simp [this.1, this.2]

theorem memBoxQ_append : ∀ (l1 h1 : List Rat) (a1 : List Num) (l2 h2 : List Rat) (a2 : List Num),
    memBoxQ l1 h1 a1 = true → memBoxQ (l1 ++ l2) (h1 ++ h2) (a1 ++ a2) = memBoxQ l2 h2 a2
  | [], [], [], _, _, _, _ => rfl
  | [], [], _ :: _, _, _, _, h => by simp [memBoxQ] at h
  | [], _ :: _, _, _, _, _, h => by simp [memBoxQ] at h
  | _ :: _, [], _, _, _, _, h => by simp [memBoxQ] at h
  | _ :: _, _ :: _, [], _, _, _, h => by simp [memBoxQ] at h
  | l :: ls, h' :: hs, v :: vs, l2, h2, a2, h => by
    simp only [memBoxQ, Bool.and_eq_true] at h
    simp only [List.cons_append, memBoxQ, h.1.1, h.1.2, Bool.true_and,
      memBoxQ_append ls hs vs l2 h2 a2 h.2]

theorem memBoxQ_map_cast (b : Bool) : ∀ (lo hi : List Rat) (a : List Num),
    memBoxQ lo hi (a.map (cast b)) = memBoxQ lo hi a
  | [], [], [] => rfl
  | [], [], _ :: _ => by simp [memBoxQ]
  | [], _ :: _, [] => by simp [memBoxQ]
  | [], _ :: _, _ :: _ => by simp [memBoxQ]
  | _ :: _, [], [] => by simp [memBoxQ]
  | _ :: _, [], _ :: _ => by simp [memBoxQ]
  | _ :: _, _ :: _, [] => by simp [memBoxQ]
  | l :: ls, h :: hs, v :: vs => by
    simp only [List.map_cons, memBoxQ, val_cast, memBoxQ_map_cast b ls hs vs]

theorem memBoxQ_map_toFlt (lo hi : List Rat) (a : List Num) :
    memBoxQ lo hi (a.map Num.toFlt) = memBoxQ lo hi a := memBoxQ_map_cast false lo hi a

theorem ratOfInt_le {a b : Int} : ratOfInt a ≤ ratOfInt b ↔ a ≤ b := Rat.intCast_le_intCast

/-! ## leaves -/

theorem leaf_box : ∀ (lo hi : List Int) (vs : List Num), memBoxI lo hi vs = true →
    memBoxQ (ratsOf lo) (ratsOf hi) vs = true ∧ vs.all Num.isInt = true ∧
      (∀ b, (vs.map (cast b)).map Num.toInt = vs) ∧ vs.length = lo.length
  | [], [], [], _ => ⟨rfl, rfl, fun _ => rfl, rfl⟩
  | [], [], _ :: _, h => by simp [memBoxI] at h
  | [], _ :: _, _, h => by simp [memBoxI] at h
  | _ :: _, [], _, h => by simp [memBoxI] at h
  | _ :: _, _ :: _, [], h => by simp [memBoxI] at h
  | _ :: _, _ :: _, .flt _ :: _, h => by simp [memBoxI] at h
  | l :: ls, h' :: hs, .int v :: vs, h => by
    simp only [memBoxI, Bool.and_eq_true, decide_eq_true_eq] at h
    obtain ⟨g1, g2, g3, g4⟩ := leaf_box ls hs vs h.2
    refine ⟨?_, ?_, ?_, ?_⟩
    · simp only [ratsOf, List.map_cons, memBoxQ, Bool.and_eq_true, decide_eq_true_eq]
      exact ⟨⟨ratOfInt_le.mpr h.1.1, ratOfInt_le.mpr h.1.2⟩, g1⟩
    · simp only [List.all_cons, Num.isInt, g2, Bool.and_self]
    · intro b; simp only [List.map_cons, toInt_cast_int, g3 b]
    · simp [g4]

theorem leaf_md : ∀ (rs : List Nat) (vs : List Num), memMD rs vs = true →
    memBoxQ (rs.map fun _ => 0) (rs.map predRat) vs = true ∧ vs.all Num.isInt = true ∧
      vs.length = rs.length
  | [], [], _ => ⟨rfl, rfl, rfl⟩
  | [], _ :: _, h => by simp [memMD] at h
  | _ :: _, [], h => by simp [memMD] at h
  | _ :: _, .flt _ :: _, h => by simp [memMD] at h
  | r :: rs, .int v :: vs, h => by
    simp only [memMD, Bool.and_eq_true, decide_eq_true_eq] at h
    obtain ⟨g1, g2, g3⟩ := leaf_md rs vs h.2
    refine ⟨?_, ?_, ?_⟩
    · simp only [List.map_cons, memBoxQ, Bool.and_eq_true, decide_eq_true_eq]
      refine ⟨⟨?_, ?_⟩, g1⟩
      · have : ratOfInt 0 ≤ ratOfInt v := ratOfInt_le.mpr h.1.1
        simpa [ratOfInt, Num.val] using this
      · show ratOfInt v ≤ ratOfInt (Int.ofNat r - 1)
        apply ratOfInt_le.mpr
        have : v < (r : Int) := h.1.2
        show v ≤ Int.ofNat r - 1
        have : Int.ofNat r = (r : Int) := rfl
        omega
    · simp only [List.all_cons, Num.isInt, g2, Bool.and_self]
    · simp [g3]

theorem leaf_mb (n : Nat) (vs : List Num) (h : memMB n vs = true) :
    memBoxQ (List.replicate n 0) (List.replicate n 1) vs = true ∧ vs.all Num.isInt = true ∧
      vs.length = n := by
  rw [memMB_eq_memMD] at h
  obtain ⟨g1, g2, g3⟩ := leaf_md _ _ h
  refine ⟨?_, g2, by simpa using g3⟩
  have e1 : ((List.replicate n 2).map fun _ => (0 : Rat)) = List.replicate n 0 := by simp
  have e2 : (List.replicate n 2).map predRat = List.replicate n 1 := by
    simp only [List.map_replicate]
    congr 1
  rw [e1, e2] at g1
  exact g1

theorem valsEq_map_cast (b : Bool) : ∀ (a : List Num), valsEq (a.map (cast b)) a = true
  | [] => rfl
  | x :: xs => by simp [valsEq, val_cast, valsEq_map_cast b xs]

theorem valsEq_map_toFlt (a : List Num) : valsEq (a.map Num.toFlt) a = true := valsEq_map_cast false a

theorem boundsOkQ_length : ∀ (lo hi : List Rat), boundsOkQ lo hi = true → lo.length = hi.length
  | [], [], _ => rfl
  | [], _ :: _, h => by simp [boundsOkQ] at h
  | _ :: _, [], h => by simp [boundsOkQ] at h
  | _ :: ls, _ :: hs, h => by
    simp only [boundsOkQ, Bool.and_eq_true] at h
    simp [boundsOkQ_length ls hs h.2]

/-! ## the flattened Box, without a point: dtype rule and one bound per flat dimension -/

mutual
theorem flattenSpace_ok : ∀ (s : Space), wfF s = true →
    ∃ fb, flattenSpace s = some fb ∧ fb.kind = (if allLeavesInt s then .i64 else .f) ∧
      fb.lo.length = flatdim s ∧ fb.hi.length = flatdim s
  | .discrete n st, _ => ⟨_, rfl, rfl, rfl, rfl⟩
  | .multiBinary n, _ => ⟨_, rfl, rfl, by simp [flatdim], by simp [flatdim]⟩
  | .multiDiscrete nvec, _ => ⟨_, rfl, rfl, by simp [flatdim], by simp [flatdim]⟩
  | .box shape lo hi wide, hw => by
    simp only [wfF, Bool.and_eq_true, decide_eq_true_eq] at hw
    obtain ⟨⟨⟨hwide, hsh⟩, _⟩, hb⟩ := hw
    subst hwide
    have hl := boundsOk_length _ _ hb
    exact ⟨_, rfl, rfl, by simp [ratsOf, flatdim, hsh], by simp [ratsOf, flatdim, hsh, hl]⟩
  | .fbox shape lo hi, hw => by
    simp only [wfF, Bool.and_eq_true, decide_eq_true_eq] at hw
    have hl := boundsOkQ_length _ _ hw.2
    exact ⟨_, rfl, rfl, by simp [flatdim, hw.1.1], by simp [flatdim, hw.1.1, hl]⟩
  | .ubox _, hw => by simp [wfF] at hw
  | .dict keys ss, hw => by
    simp only [wfF, Bool.and_eq_true] at hw
    obtain ⟨bs, h1, h2, h3, h4, h5⟩ := flattenSpaceL_ok ss hw.2
    have hne : bs ≠ [] := by
      intro e; subst e
      have : ss = [] := by simpa using h5.symm
      simp [this] at hw
    cases bs with
    | nil => exact absurd rfl hne
    | cons b bs' =>
      refine ⟨⟨if allI64 (b :: bs') then .i64 else .f, losOf (b :: bs'), hisOf (b :: bs')⟩,
        by simp only [flattenSpace, h1, concatBoxes], ?_, ?_, ?_⟩
      · have e : allLeavesInt (Space.dict keys ss) = allLeavesIntL ss := by simp only [allLeavesInt]
        rw [e, ← h2]
      · simp only [h3, flatdim]
      · simp only [h4, flatdim]
  | .tuple ss, hw => by
    simp only [wfF, Bool.and_eq_true] at hw
    obtain ⟨bs, h1, h2, h3, h4, h5⟩ := flattenSpaceL_ok ss hw.2
    have hne : bs ≠ [] := by
      intro e; subst e
      have : ss = [] := by simpa using h5.symm
      simp [this] at hw
    cases bs with
    | nil => exact absurd rfl hne
    | cons b bs' =>
      refine ⟨⟨if allI64 (b :: bs') then .i64 else .f, losOf (b :: bs'), hisOf (b :: bs')⟩,
        by simp only [flattenSpace, h1, concatBoxes], ?_, ?_, ?_⟩
      · have e : allLeavesInt (Space.tuple ss) = allLeavesIntL ss := by simp only [allLeavesInt]
        rw [e, ← h2]
      · simp only [h3, flatdim]
      · simp only [h4, flatdim]
theorem flattenSpaceL_ok : ∀ (ss : List Space), wfFL ss = true →
    ∃ bs, flattenSpaceL ss = some bs ∧ allI64 bs = allLeavesIntL ss ∧
      (losOf bs).length = sum (flatdimL ss) ∧ (hisOf bs).length = sum (flatdimL ss) ∧
      bs.length = ss.length
  | [], _ => ⟨[], rfl, rfl, rfl, rfl, rfl⟩
  | s :: ss, hw => by
    simp only [wfFL, Bool.and_eq_true] at hw
    obtain ⟨fb, h1, h2, h3, h4⟩ := flattenSpace_ok s hw.1
    obtain ⟨bs, g1, g2, g3, g4, g5⟩ := flattenSpaceL_ok ss hw.2
    refine ⟨fb :: bs, by simp only [flattenSpaceL, h1, g1], ?_, ?_, ?_, by simp [g5]⟩
    · simp only [allI64, allLeavesIntL, h2, g2]
      cases allLeavesInt s <;> simp
    · simp only [losOf, List.length_append, h3, g3, flatdimL, sum]
    · simp only [hisOf, List.length_append, h4, g4, flatdimL, sum]
end

/-! ## the main induction: members -/

/-- everything the property says about the flattened array `a` of the member `p` -/
structure FlatOK (s : Space) (p : Pt) (a : List Num) : Prop where
  len : a.length = flatdim s
  tags : a.all Num.isInt = allLeavesInt s
  unfl : ∀ b, ∃ q, unflatten s (a.map (cast b)) = some q ∧ ptEqv q p = true ∧
    (b = true → allLeavesInt s = true → q = p)
  box : ∃ fb, flattenSpace s = some fb ∧ memBoxQ fb.lo fb.hi a = true

structure FlatLOK (ss : List Space) (ps : List Pt) (parts : List (List Num)) : Prop where
  lens : parts.map List.length = flatdimL ss
  tags : (join parts).all Num.isInt = allLeavesIntL ss
  unfl : ∀ b, ∃ qs, unflattenL ss (parts.map (List.map (cast b))) = some qs ∧ ptEqvL qs ps = true ∧
    (b = true → allLeavesIntL ss = true → qs = ps)
  box : ∃ bs, flattenSpaceL ss = some bs ∧ memBoxQ (losOf bs) (hisOf bs) (join parts) = true

theorem flatdimL_ne_nil : ∀ (ss : List Space), ss ≠ [] → flatdimL ss ≠ []
  | [], h => absurd rfl h
  | _ :: _, _ => by simp [flatdimL]

/-- the composite case, shared by Dict and Tuple -/
theorem composite_ok {ss : List Space} {ps : List Pt} {parts : List (List Num)}
    (hne : ss ≠ []) (h : FlatLOK ss ps parts) (mk : List Pt → Pt) (s : Space) (p : Pt)
    (hp : p = mk ps)
    (hdim : flatdim s = sum (flatdimL ss))
    (hint : allLeavesInt s = allLeavesIntL ss)
    (hunf : ∀ a, unflatten s a = (unflattenL ss (split (flatdimL ss) a)).map mk)
    (heqv : ∀ qs, ptEqvL qs ps = true → ptEqv (mk qs) (mk ps) = true)
    (hfs : flattenSpace s = (flattenSpaceL ss).bind concatBoxes) :
    ∃ a, concat parts = some a ∧ FlatOK s p a := by
  have hpne : parts ≠ [] := by
    intro e; subst e
    have := h.lens
    simp only [List.map_nil] at this
    exact flatdimL_ne_nil ss hne this.symm
  refine ⟨_, concat_eq parts hpne, ?_⟩
  constructor
  · rw [List.length_map, length_join, h.lens, hdim]
  · rw [all_isInt_concat, h.tags, hint]
  · intro b
    obtain ⟨qs, h1, h2, h3⟩ := h.unfl (b && (join parts).all Num.isInt)
    refine ⟨mk qs, ?_, ?_, ?_⟩
    · rw [hunf, map_cast_cast, ← join_map, split_join _ _ (by rw [List.map_map]; simpa [Function.comp_def] using h.lens)
        (by simpa using hpne), h1]
      rfl
    · rw [hp]; exact heqv qs h2
    · intro hb hi
      rw [hp, h3 (by rw [hb, h.tags, ← hint, hi]; rfl) (by rw [← hint]; exact hi)]
  · obtain ⟨bs, g1, g2⟩ := h.box
    have hbne : bs ≠ [] := by
      intro e; subst e
      have hl := memBoxQ_length _ _ _ g2
      simp only [losOf, List.length_nil] at hl
      have hj : join parts = [] := List.eq_nil_of_length_eq_zero hl.1
      have : sum (parts.map List.length) = 0 := by rw [← length_join, hj]; rfl
      -- a non-empty list of children cannot have an empty list of boxes
      cases ss with
      | nil => exact hne rfl
      | cons s' ss' =>
        simp only [flattenSpaceL] at g1
        cases h' : flattenSpace s' with
        | none => simp [h'] at g1
        | some b' =>
          cases h'' : flattenSpaceL ss' with
          | none => simp [h', h''] at g1
          | some r => simp [h', h''] at g1
    cases bs with
    | nil => exact absurd rfl hbne
    | cons b0 bs' =>
      refine ⟨_, by rw [hfs, g1]; rfl, ?_⟩
      simp only [memBoxQ_map_cast]
      exact g2

mutual
theorem flatten_ok : ∀ (s : Space) (p : Pt), wfF s = true → mem s p = true →
    ∃ a, flatten s p = some a ∧ FlatOK s p a
  | .discrete n st, p, hw, hm => by
    simp only [wfF, Bool.and_eq_true, decide_eq_true_eq] at hw
    obtain ⟨_, hst⟩ := hw
    subst hst
    cases p with
    | scalar v =>
      cases v with
      | int v =>
        simp only [mem, Bool.and_eq_true, decide_eq_true_eq] at hm
        refine ⟨[.int v], rfl, ⟨rfl, rfl, ?_, ?_⟩⟩
        · intro b
          refine ⟨.scalar (cast b (.int v)), rfl, ?_, ?_⟩
          · simp only [ptEqv, val_cast, decide_true]
          · intro hb _; subst hb; rfl
        · refine ⟨_, rfl, ?_⟩
          simp only [memBoxQ, Bool.and_eq_true, decide_eq_true_eq, Bool.and_true]
          constructor
          · have : ratOfInt 0 ≤ ratOfInt v := ratOfInt_le.mpr hm.1
            simpa [ratOfInt, Num.val] using this
          · show ratOfInt v ≤ ratOfInt (Int.ofNat n - 1)
            apply ratOfInt_le.mpr
            show v ≤ Int.ofNat n - 1
            have : Int.ofNat n = (n : Int) := rfl
            omega
      | flt q => simp [mem] at hm
    | arr vs => simp [mem] at hm
    | dict k ps => simp [mem] at hm
    | tuple ps => simp [mem] at hm
  | .multiBinary n, p, _, hm => by
    cases p with
    | arr vs =>
      simp only [mem] at hm
      obtain ⟨g1, g2, g3⟩ := leaf_mb n vs hm
      refine ⟨vs, rfl, ⟨g3, g2, ?_, ⟨_, rfl, g1⟩⟩⟩
      intro b
      refine ⟨.arr (vs.map (cast b)), rfl, ?_, ?_⟩
      · simp only [ptEqv, valsEq_map_cast]
      · intro hb _; subst hb; rw [map_cast_true]
    | scalar v => simp [mem] at hm
    | dict k ps => simp [mem] at hm
    | tuple ps => simp [mem] at hm
  | .multiDiscrete nvec, p, _, hm => by
    cases p with
    | arr vs =>
      simp only [mem] at hm
      obtain ⟨g1, g2, g3⟩ := leaf_md nvec vs hm
      refine ⟨vs, rfl, ⟨g3, g2, ?_, ⟨_, rfl, g1⟩⟩⟩
      intro b
      refine ⟨.arr (vs.map (cast b)), rfl, ?_, ?_⟩
      · simp only [ptEqv, valsEq_map_cast]
      · intro hb _; subst hb; rw [map_cast_true]
    | scalar v => simp [mem] at hm
    | dict k ps => simp [mem] at hm
    | tuple ps => simp [mem] at hm
  | .box shape lo hi wide, p, hw, hm => by
    simp only [wfF, Bool.and_eq_true, decide_eq_true_eq] at hw
    obtain ⟨⟨⟨_, hsh⟩, _⟩, _⟩ := hw
    cases p with
    | arr vs =>
      simp only [mem] at hm
      obtain ⟨g1, g2, g3, g4⟩ := leaf_box lo hi vs hm
      have hid : vs.map Num.toInt = vs := by have := g3 true; rwa [map_cast_true] at this
      refine ⟨vs, by simp only [flatten, hid], ⟨by rw [g4, flatdim, hsh], g2, ?_, ⟨_, rfl, g1⟩⟩⟩
      intro b
      refine ⟨.arr vs, ?_, ?_, fun _ _ => rfl⟩
      · simp only [unflatten, List.length_map, g4, hsh, if_true, g3 b]
      · have := valsEq_map_cast true vs
        rw [map_cast_true] at this
        simp only [ptEqv, this]
    | scalar v => simp [mem] at hm
    | dict k ps => simp [mem] at hm
    | tuple ps => simp [mem] at hm
  | .fbox shape lo hi, p, hw, hm => by
    simp only [wfF, Bool.and_eq_true, decide_eq_true_eq] at hw
    obtain ⟨⟨hsh, hpos⟩, _⟩ := hw
    cases p with
    | arr vs =>
      simp only [mem] at hm
      have hlen := (memBoxQ_length _ _ _ hm).1
      have hne : vs ≠ [] := by
        intro e; subst e; simp at hlen; omega
      refine ⟨vs.map Num.toFlt, rfl, ⟨?_, ?_, ?_, ⟨_, rfl, ?_⟩⟩⟩
      · rw [List.length_map, hlen, flatdim, hsh]
      · rw [all_isInt_map_toFlt vs hne]; rfl
      · intro b
        refine ⟨.arr (vs.map Num.toFlt), ?_, ?_, ?_⟩
        · simp only [unflatten, List.length_map, hlen, hsh, if_true, List.map_map]
          congr 2
          apply List.map_congr_left
          intro x _
          simp only [Function.comp, toFlt_cast, toFlt_toFlt]
        · simp only [ptEqv, valsEq_map_toFlt]
        · intro _ hi; simp [allLeavesInt] at hi
      · rw [memBoxQ_map_toFlt]; exact hm
    | scalar v => simp [mem] at hm
    | dict k ps => simp [mem] at hm
    | tuple ps => simp [mem] at hm
  | .ubox _, _, hw, _ => by simp [wfF] at hw
  | .dict keys ss, p, hw, hm => by
    simp only [wfF, Bool.and_eq_true] at hw
    have hne : ss ≠ [] := by intro e; subst e; simp at hw
    cases p with
    | dict pk ps =>
      simp only [mem, Bool.and_eq_true, decide_eq_true_eq] at hm
      obtain ⟨hk, hm⟩ := hm
      subst hk
      obtain ⟨parts, h1, h2⟩ := flattenL_ok ss ps hw.2 hm
      obtain ⟨a, ha, hok⟩ := composite_ok hne h2 (.dict keys) (.dict keys ss) (.dict keys ps) rfl
        (by simp only [flatdim]) (by simp only [allLeavesInt]) (fun a => by simp only [unflatten])
        (fun qs hq => by simp only [ptEqv, decide_true, Bool.true_and, hq])
        (by simp only [flattenSpace]; cases flattenSpaceL ss <;> rfl)
      exact ⟨a, by simp only [flatten, if_true, h1, ha], hok⟩
    | scalar v => simp [mem] at hm
    | arr vs => simp [mem] at hm
    | tuple ps => simp [mem] at hm
  | .tuple ss, p, hw, hm => by
    simp only [wfF, Bool.and_eq_true] at hw
    have hne : ss ≠ [] := by intro e; subst e; simp at hw
    cases p with
    | tuple ps =>
      simp only [mem] at hm
      obtain ⟨parts, h1, h2⟩ := flattenL_ok ss ps hw.2 hm
      obtain ⟨a, ha, hok⟩ := composite_ok hne h2 .tuple (.tuple ss) (.tuple ps) rfl
        (by simp only [flatdim]) (by simp only [allLeavesInt]) (fun a => by simp only [unflatten])
        (fun qs hq => by simp only [ptEqv, hq])
        (by simp only [flattenSpace]; cases flattenSpaceL ss <;> rfl)
      exact ⟨a, by simp only [flatten, h1, ha], hok⟩
    | scalar v => simp [mem] at hm
    | arr vs => simp [mem] at hm
    | dict k ps => simp [mem] at hm
theorem flattenL_ok : ∀ (ss : List Space) (ps : List Pt), wfFL ss = true → memL ss ps = true →
    ∃ parts, flattenL ss ps = some parts ∧ FlatLOK ss ps parts
  | [], [], _, _ => ⟨[], rfl, ⟨rfl, rfl, fun _ => ⟨[], rfl, rfl, fun _ _ => rfl⟩, ⟨[], rfl, rfl⟩⟩⟩
  | [], _ :: _, _, hm => by simp [memL] at hm
  | _ :: _, [], _, hm => by simp [memL] at hm
  | s :: ss, p :: ps, hw, hm => by
    simp only [wfFL, Bool.and_eq_true] at hw
    simp only [memL, Bool.and_eq_true] at hm
    obtain ⟨a, h1, h2⟩ := flatten_ok s p hw.1 hm.1
    obtain ⟨parts, g1, g2⟩ := flattenL_ok ss ps hw.2 hm.2
    refine ⟨a :: parts, by simp only [flattenL, h1, g1], ?_⟩
    constructor
    · simp only [List.map_cons, h2.len, g2.lens, flatdimL]
    · simp only [join, List.all_append, h2.tags, g2.tags, allLeavesIntL]
    · intro b
      obtain ⟨q, u1, u2, u3⟩ := h2.unfl b
      obtain ⟨qs, v1, v2, v3⟩ := g2.unfl b
      refine ⟨q :: qs, by simp only [List.map_cons, unflattenL, u1, v1], ?_, ?_⟩
      · simp only [ptEqvL, u2, v2, Bool.and_self]
      · intro hb hi
        simp only [allLeavesIntL, Bool.and_eq_true] at hi
        rw [u3 hb hi.1, v3 hb hi.2]
    · obtain ⟨fb, b1, b2⟩ := h2.box
      obtain ⟨bs, c1, c2⟩ := g2.box
      refine ⟨fb :: bs, by simp only [flattenSpaceL, b1, c1], ?_⟩
      simp only [losOf, hisOf, join]
      rw [memBoxQ_append _ _ _ _ _ _ b2]
      exact c2
end

/-! ## `ptEqv` is reflexive; exact equality implies it -/

theorem valsEq_refl : ∀ (a : List Num), valsEq a a = true
  | [] => rfl
  | _ :: xs => by simp [valsEq, valsEq_refl xs]

mutual
theorem ptEqv_refl : ∀ (p : Pt), ptEqv p p = true
  | .scalar _ => by simp [ptEqv]
  | .arr a => by simp [ptEqv, valsEq_refl a]
  | .dict _ ps => by simp [ptEqv, ptEqvL_refl ps]
  | .tuple ps => by simp [ptEqv, ptEqvL_refl ps]
theorem ptEqvL_refl : ∀ (ps : List Pt), ptEqvL ps ps = true
  | [] => rfl
  | p :: ps => by simp [ptEqvL, ptEqv_refl p, ptEqvL_refl ps]
end

end Abmarl
