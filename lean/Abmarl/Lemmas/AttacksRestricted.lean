import Abmarl.Lemmas.AttacksWin
/-!
# C11 lemmas, part 3e: `RestrictedSelectiveAttackActor._determine_attack`

The loop `for raveled_cell in attack:` (`resLoop`) is verified with an invariant `ResInv pre acc`
relating the entries already processed (`pre`) to the list of attacked agents so far (`acc`):

* every member of `acc` is a real, eligible agent whose window cell is named by an entry of `pre`;
* per window cell, `acc` holds at most as many agents of the cell as entries of `pre` name it;
* `acc` is at most as long as `pre`;
* without stacking nobody is in `acc` twice;
* at accuracy 1, per window cell the number of members of `acc` in it is exactly
  `expected stacked (entries naming it) (eligible agents in it)`.

`resInv_nil` starts it, `resInv_zero` / `resInv_step` carry it over one entry, `resLoop_inv` over
the loop, `selOK_of_resInv` turns the invariant at the end into `SelOK`.
-/
namespace Abmarl
namespace World

/-! ## Small facts -/

theorem expected_zero' (stacked : Bool) (E : Nat) : expected stacked 0 E = 0 := by
  unfold expected; cases stacked <;> simp

/-- membership in window cell `(i, j)` of `a`'s window (the `mem` of the groups of the
cell-directed actors) -/
def cellMem (w : World) (a : Aid) (i j : Nat) : Aid → Bool :=
  fun b => w.winRow a b == i && w.winCol a b == j

theorem cellMem_iff (w : World) (a : Aid) (i j : Nat) (b : Aid) :
    cellMem w a i j b = true ↔ w.winRow a b = i ∧ w.winCol a b = j := by
  simp [cellMem]

theorem names_iff (W k i j : Nat) :
    names W k i j = true ↔ 1 ≤ k ∧ (k - 1) / W = i ∧ (k - 1) % W = j := by
  simp [names, and_assoc]

theorem names_zero (W i j : Nat) : names W 0 i j = false := by
  simp [names]

theorem countP_snoc {α : Type} (p : α → Bool) (l : List α) (x : α) :
    (l ++ [x]).countP p = l.countP p + if p x = true then 1 else 0 := by
  rw [List.countP_append, List.countP_singleton]

theorem attackGroups_restricted {cfg : AttackCfg} (w : World) (a : Aid) (l : List Nat)
    (hk : cfg.kind = .restricted) :
    attackGroups cfg w a (.cells l) =
      (windowCells (w.cfgOf a).attackRange).map fun ij =>
        ⟨cellMem w a ij.1 ij.2,
         l.countP fun k => names (2 * (w.cfgOf a).attackRange + 1) k ij.1 ij.2⟩ := by
  unfold attackGroups; rw [hk]; rfl

/-- an eligible agent stands inside the window -/
theorem eligible_win {cfg : AttackCfg} {w : World} {a b : Aid} (h : eligible cfg w a b = true) :
    w.winRow a b < 2 * (w.cfgOf a).attackRange + 1 ∧ w.winCol a b < 2 * (w.cfgOf a).attackRange + 1 := by
  rw [eligible_eq] at h
  simp only [Bool.and_eq_true, Mask.inWin_iff] at h
  constructor
  · unfold winRow; omega
  · unfold winCol; omega

/-! ## The invariant of the loop -/

structure ResInv (cfg : AttackCfg) (w : World) (a : Aid) (pre : List Nat) (acc : List Aid) : Prop where
  who   : ∀ b ∈ acc, b < w.n ∧ eligible cfg w a b = true ∧
            ∃ k ∈ pre, names (2 * (w.cfgOf a).attackRange + 1) k (w.winRow a b) (w.winCol a b) = true
  lim   : ∀ i j, acc.countP (cellMem w a i j) ≤
            pre.countP fun k => names (2 * (w.cfgOf a).attackRange + 1) k i j
  total : acc.length ≤ pre.length
  nodup : cfg.stacked = false → acc.Nodup
  exact : 1 ≤ (w.cfgOf a).accuracy → ∀ i j,
            acc.countP (cellMem w a i j) =
              expected cfg.stacked (pre.countP fun k => names (2 * (w.cfgOf a).attackRange + 1) k i j)
                ((eligList cfg w a).countP (cellMem w a i j))

theorem resInv_nil (cfg : AttackCfg) (w : World) (a : Aid) : ResInv cfg w a [] [] := by
  refine ⟨fun b hb => (by cases hb), fun _ _ => Nat.le_refl _, Nat.le_refl _, fun _ => List.nodup_nil, ?_⟩
  intro _ i j
  simp [expected_zero']

/-- entries that are all 0 select nobody -/
theorem resInv_allZero (cfg : AttackCfg) (w : World) (a : Aid) (l : List Nat) (h : ∀ k ∈ l, k = 0) :
    ResInv cfg w a l [] := by
  have hc : ∀ i j, (l.countP fun k => names (2 * (w.cfgOf a).attackRange + 1) k i j) = 0 := by
    intro i j
    rw [List.countP_eq_zero]
    intro k hk
    rw [h k hk, names_zero]
    simp
  refine ⟨fun b hb => (by cases hb), fun _ _ => Nat.zero_le _, Nat.zero_le _, fun _ => List.nodup_nil, ?_⟩
  intro _ i j
  rw [hc i j, expected_zero']
  rfl

/-- an unused attack (entry 0) -/
theorem resInv_zero {cfg : AttackCfg} {w : World} {a : Aid} {pre : List Nat} {acc : List Aid}
    (inv : ResInv cfg w a pre acc) : ResInv cfg w a (pre ++ [0]) acc := by
  have hc : ∀ i j, ((pre ++ [0]).countP fun k => names (2 * (w.cfgOf a).attackRange + 1) k i j) =
      pre.countP fun k => names (2 * (w.cfgOf a).attackRange + 1) k i j := by
    intro i j
    rw [countP_snoc, names_zero]
    simp
  refine ⟨?_, ?_, ?_, inv.nodup, ?_⟩
  · intro b hb
    obtain ⟨h1, h2, k, hk, hn⟩ := inv.who b hb
    exact ⟨h1, h2, k, List.mem_append_left _ hk, hn⟩
  · intro i j; rw [hc]; exact inv.lim i j
  · rw [List.length_append]; exact Nat.le_trans inv.total (Nat.le_add_right _ _)
  · intro hacc i j; rw [hc]; exact inv.exact hacc i j

/-! ## One used entry -/

/-- two duplicate-free lists: the members of `C` that are in `acc` are the members of `acc`
with property `p`, when `C` holds exactly the members-to-be with property `p` -/
theorem filter_contains_length {C acc : List Aid} (p : Aid → Bool) (hC : C.Nodup) (hacc : acc.Nodup)
    (h1 : ∀ b ∈ acc, p b = true → b ∈ C) (h2 : ∀ b ∈ C, p b = true) :
    (C.filter fun b => acc.contains b).length = acc.countP p := by
  rw [List.countP_eq_length_filter]
  apply List.Perm.length_eq
  rw [List.perm_ext_iff_of_nodup (hC.filter _) (hacc.filter _)]
  intro b
  simp only [List.mem_filter, List.contains_iff_mem]
  constructor
  · rintro ⟨hb, hb'⟩; exact ⟨hb', h2 b hb⟩
  · rintro ⟨hb, hp⟩; exact ⟨h1 b hb hp, hb⟩

/-- the arithmetic of one step for the cell the entry names: the list `S'` the victim is drawn
from is empty exactly when the expected number does not grow -/
theorem expected_step {cfg : AttackCfg} {w : World} {a : Aid} {pre : List Nat} {acc C : List Aid}
    (inv : ResInv cfg w a pre acc) (hacc : 1 ≤ (w.cfgOf a).accuracy) (i j : Nat)
    (hCnd : C.Nodup)
    (hCmem : ∀ b, b ∈ C ↔ b < w.n ∧ eligible cfg w a b = true ∧ cellMem w a i j b = true)
    (n E : Nat) (hn : n = pre.countP fun k => names (2 * (w.cfgOf a).attackRange + 1) k i j)
    (hE : E = (eligList cfg w a).countP (cellMem w a i j)) :
    ((if cfg.stacked = true then C else C.filter fun b => !acc.contains b) = [] →
        expected cfg.stacked (n + 1) E = expected cfg.stacked n E) ∧
    ((if cfg.stacked = true then C else C.filter fun b => !acc.contains b) ≠ [] →
        expected cfg.stacked (n + 1) E = expected cfg.stacked n E + 1) := by
  have hlen : C.length = E := by rw [hE]; exact length_eq_countP (cellMem w a i j) hCnd hCmem
  cases hst : cfg.stacked with
  | true =>
    simp only [if_true, expected]
    constructor
    · intro h; rw [h] at hlen; simp [← hlen]
    · intro h
      have : E ≠ 0 := by
        rw [← hlen]; exact fun e => h (List.length_eq_zero_iff.mp e)
      simp [this]
  | false =>
    simp only [Bool.false_eq_true, if_false, expected]
    have hnd := inv.nodup hst
    have hc := inv.exact hacc i j
    rw [← hn, ← hE, hst] at hc
    simp only [expected, Bool.false_eq_true, if_false] at hc
    have hf : (C.filter fun b => acc.contains b).length = acc.countP (cellMem w a i j) :=
      filter_contains_length (cellMem w a i j) hCnd hnd
        (fun b hb hp => (hCmem b).mpr ⟨(inv.who b hb).1, (inv.who b hb).2.1, hp⟩)
        (fun b hb => ((hCmem b).mp hb).2.2)
    have hsplit := List.length_eq_length_filter_add (l := C) (fun b => acc.contains b)
    rw [hf, hc, hlen] at hsplit
    constructor
    · intro h; rw [h] at hsplit; simp only [List.length_nil] at hsplit; omega
    · intro h
      have : 0 < (C.filter fun b => !acc.contains b).length :=
        List.length_pos_iff.mpr h
      omega

/-- a used entry `k` that names window cell `(i, j)`; `C` = the candidates of that cell passing
the deterministic tests, `S` = what the scan kept of them.  Either nobody is left to choose
from and the list stays, or the chosen `v` is appended. -/
theorem resInv_step {cfg : AttackCfg} {w : World} {a : Aid} {pre : List Nat} {acc C S : List Aid}
    (inv : ResInv cfg w a pre acc) (k i j : Nat)
    (hnames : ∀ i' j', names (2 * (w.cfgOf a).attackRange + 1) k i' j' = true ↔ i' = i ∧ j' = j)
    (hCnd : C.Nodup)
    (hCmem : ∀ b, b ∈ C ↔ b < w.n ∧ eligible cfg w a b = true ∧ cellMem w a i j b = true)
    (hsub : S.Sublist C) (hall : 1 ≤ (w.cfgOf a).accuracy → S = C) :
    ((if cfg.stacked = true then S else S.filter fun b => !acc.contains b) = [] →
        ResInv cfg w a (pre ++ [k]) acc) ∧
    (∀ v ∈ (if cfg.stacked = true then S else S.filter fun b => !acc.contains b),
        ResInv cfg w a (pre ++ [k]) (acc ++ [v])) := by
  have hcP : ∀ i' j', ((pre ++ [k]).countP fun k => names (2 * (w.cfgOf a).attackRange + 1) k i' j') =
      (pre.countP fun k => names (2 * (w.cfgOf a).attackRange + 1) k i' j') +
        if i' = i ∧ j' = j then 1 else 0 := by
    intro i' j'
    rw [countP_snoc]
    simp only [hnames]
  constructor
  · intro hS'
    refine ⟨?_, ?_, ?_, inv.nodup, ?_⟩
    · intro b hb
      obtain ⟨h1, h2, k', hk', hn⟩ := inv.who b hb
      exact ⟨h1, h2, k', List.mem_append_left _ hk', hn⟩
    · intro i' j'; rw [hcP]; exact Nat.le_trans (inv.lim i' j') (Nat.le_add_right _ _)
    · rw [List.length_append]; exact Nat.le_trans inv.total (Nat.le_add_right _ _)
    · intro hacc i' j'
      rw [hcP, inv.exact hacc i' j']
      by_cases hij : i' = i ∧ j' = j
      · rw [if_pos hij, hij.1, hij.2]
        rw [hall hacc] at hS'
        exact ((expected_step inv hacc i j hCnd hCmem _ _ rfl rfl).1 hS').symm
      · rw [if_neg hij]; rfl
  · intro v hv
    have hvS : v ∈ S := by
      split at hv
      · exact hv
      · exact (List.mem_filter.mp hv).1
    obtain ⟨hv1, hv2, hv3⟩ := (hCmem v).mp (hsub.subset hvS)
    have hvr := (cellMem_iff w a i j v).mp hv3
    have hcA : ∀ i' j', (acc ++ [v]).countP (cellMem w a i' j') =
        acc.countP (cellMem w a i' j') + if i' = i ∧ j' = j then 1 else 0 := by
      intro i' j'
      have hcm : cellMem w a i' j' v = true ↔ i' = i ∧ j' = j := by
        rw [cellMem_iff, hvr.1, hvr.2]
        exact ⟨fun h => ⟨h.1.symm, h.2.symm⟩, fun h => ⟨h.1.symm, h.2.symm⟩⟩
      rw [countP_snoc]
      simp only [hcm]
    refine ⟨?_, ?_, ?_, ?_, ?_⟩
    · intro b hb
      rcases List.mem_append.mp hb with hb | hb
      · obtain ⟨h1, h2, k', hk', hn⟩ := inv.who b hb
        exact ⟨h1, h2, k', List.mem_append_left _ hk', hn⟩
      · rw [List.mem_singleton] at hb
        subst hb
        refine ⟨hv1, hv2, k, by simp, ?_⟩
        rw [hnames]; exact hvr
    · intro i' j'; rw [hcP, hcA]
      exact Nat.add_le_add_right (inv.lim i' j') _
    · simp only [List.length_append, List.length_singleton]
      exact Nat.add_le_add_right inv.total 1
    · intro hst
      rw [hst] at hv
      simp only [Bool.false_eq_true, if_false, List.mem_filter, Bool.not_eq_true',
        List.contains_eq_mem, decide_eq_false_iff_not] at hv
      have := inv.nodup hst
      rw [List.nodup_append]
      refine ⟨this, List.nodup_singleton v, ?_⟩
      intro x hx y hy
      rw [List.mem_singleton] at hy
      subst hy
      exact fun e => hv.2 (e ▸ hx)
    · intro hacc i' j'
      rw [hcP, hcA, inv.exact hacc i' j']
      by_cases hij : i' = i ∧ j' = j
      · rw [if_pos hij, hij.1, hij.2]
        rw [hall hacc] at hv
        exact ((expected_step inv hacc i j hCnd hCmem _ _ rfl rfl).2
          (List.ne_nil_of_mem hv)).symm
      · rw [if_neg hij]; rfl

/-! ## The loop -/

theorem names_of_ne_zero {W k : Nat} (hk : k ≠ 0) (i' j' : Nat) :
    names W k i' j' = true ↔ i' = (k - 1) / W ∧ j' = (k - 1) % W := by
  rw [names_iff]
  constructor
  · rintro ⟨_, h1, h2⟩; exact ⟨h1.symm, h2.symm⟩
  · rintro ⟨h1, h2⟩; exact ⟨by omega, h1.symm, h2.symm⟩

theorem resLoop_inv {cfg : AttackCfg} {w : World} {a : Aid} {s : List Int} (hI : w.WInv = true)
    (hmap : cfg.mapping.lookup (w.encOf a) = some s) :
    ∀ (rest pre : List Nat) (acc : List Aid) (t : Tape),
      (∀ k ∈ rest, k ≤ (2 * (w.cfgOf a).attackRange + 1) * (2 * (w.cfgOf a).attackRange + 1)) →
      ResInv cfg w a pre acc →
      ∃ L t', resLoop cfg w a (w.cfgOf a).attackRange
          (Mask.maskOf (w.cfgOf a).attackRange (w.attackBlockers a)) rest acc t = .ok (L, t') ∧
        ResInv cfg w a (pre ++ rest) L := by
  intro rest
  induction rest with
  | nil =>
    intro pre acc t _ inv
    exact ⟨acc, t, rfl, by rwa [List.append_nil]⟩
  | cons k rest ih =>
    intro pre acc t hall inv
    have hrest : ∀ k ∈ rest, k ≤ (2 * (w.cfgOf a).attackRange + 1) * (2 * (w.cfgOf a).attackRange + 1) :=
      fun k hk => hall k (List.mem_cons_of_mem _ hk)
    rw [List.append_cons]
    by_cases hk : k = 0
    · subst hk
      rw [resLoop, if_pos rfl]
      exact ih (pre ++ [0]) acc t hrest (resInv_zero inv)
    · rw [resLoop, if_neg hk]
      simp only []
      have hkW := hall k List.mem_cons_self
      have hW : 0 < 2 * (w.cfgOf a).attackRange + 1 := Nat.succ_pos _
      have hi : (k - 1) / (2 * (w.cfgOf a).attackRange + 1) < 2 * (w.cfgOf a).attackRange + 1 := by
        rw [Nat.div_lt_iff_lt_mul hW]; omega
      have hj : (k - 1) % (2 * (w.cfgOf a).attackRange + 1) < 2 * (w.cfgOf a).attackRange + 1 :=
        Nat.mod_lt _ hW
      rw [if_neg (Nat.not_le.mpr hi)]
      obtain ⟨S, t1, hs, hsub, hacc⟩ := scanCands_sound hmap
        (w.cellCands a (w.cfgOf a).attackRange (Mask.maskOf (w.cfgOf a).attackRange (w.attackBlockers a))
          ((k - 1) / (2 * (w.cfgOf a).attackRange + 1)) ((k - 1) % (2 * (w.cfgOf a).attackRange + 1))) t
      rw [hs]
      simp only []
      obtain ⟨h0, h1⟩ := resInv_step inv k _ _ (names_of_ne_zero hk)
        ((nodup_cellCands hI a _ _ _ _).filter _)
        (fun b => by rw [mem_cellCands_det hI cfg a _ _ hi hj b, cellMem_iff]) hsub hacc
      by_cases hE : (if cfg.stacked = true then S else S.filter fun b => !acc.contains b).isEmpty = true
      · rw [if_pos hE]
        exact ih (pre ++ [k]) acc t1 hrest (h0 (List.isEmpty_iff.mp hE))
      · rw [if_neg hE]
        obtain ⟨v, hv, hvm⟩ := Oracle.choice_spec
          (if cfg.stacked = true then S else S.filter fun b => !acc.contains b)
          (fun e => hE (List.isEmpty_iff.mpr e)) t1
        rw [hv]
        exact ih (pre ++ [k]) (acc ++ [v]) t1.tail hrest (h1 v hvm)

/-! ## Every hit lies in exactly one window cell -/

theorem sum_map_add_ite {γ : Type} [DecidableEq γ] (cs : List γ) (x : γ) (f : γ → Nat) :
    (cs.map fun c => f c + if c = x then 1 else 0).sum = (cs.map f).sum + cs.count x := by
  induction cs with
  | nil => simp
  | cons c cs ih =>
    simp only [List.map_cons, List.sum_cons, ih, List.count_cons]
    by_cases h : c = x
    · simp [h]; omega
    · simp [h]; omega

theorem sum_map_add_ite_nodup {γ : Type} [DecidableEq γ] (cs : List γ) (x : γ) (f : γ → Nat)
    (hcs : cs.Nodup) (hx : x ∈ cs) :
    (cs.map fun c => f c + if c = x then 1 else 0).sum = (cs.map f).sum + 1 := by
  rw [sum_map_add_ite, List.count_eq_one_of_mem hcs hx]

theorem length_eq_sum_cells (w : World) (a : Aid) (cs : List (Nat × Nat)) (hcs : cs.Nodup)
    (L : List Aid) (h : ∀ b ∈ L, (w.winRow a b, w.winCol a b) ∈ cs) :
    L.length = (cs.map fun c => L.countP (cellMem w a c.1 c.2)).sum := by
  induction L with
  | nil => simp
  | cons b L ih =>
    have hb : ∀ c : Nat × Nat, cellMem w a c.1 c.2 b = true ↔ c = (w.winRow a b, w.winCol a b) := by
      intro c
      rw [cellMem_iff]
      constructor
      · rintro ⟨h1, h2⟩; exact Prod.ext h1.symm h2.symm
      · intro e; rw [e]; exact ⟨rfl, rfl⟩
    simp only [List.countP_cons, hb, List.length_cons]
    rw [sum_map_add_ite_nodup _ _ _ hcs (h b List.mem_cons_self),
      ← ih (fun b hb => h b (List.mem_cons_of_mem _ hb))]

/-! ## From the invariant at the end of the loop to `SelOK` -/

theorem selOK_of_resInv {cfg : AttackCfg} {w : World} {a : Aid} {l : List Nat} {L : List Aid}
    (hkind : cfg.kind = .restricted) (hlen : l.length = (w.cfgOf a).simAttacks)
    (inv : ResInv cfg w a l L) : SelOK cfg w a (.cells l) L := by
  have hg : ∀ g, g ∈ attackGroups cfg w a (.cells l) ↔
      ∃ ij ∈ windowCells (w.cfgOf a).attackRange,
        (⟨cellMem w a ij.1 ij.2,
          l.countP fun k => names (2 * (w.cfgOf a).attackRange + 1) k ij.1 ij.2⟩ : Group) = g := by
    intro g
    rw [attackGroups_restricted w a l hkind, List.mem_map]
  refine ⟨?_, ?_, fun _ => hlen ▸ inv.total, inv.nodup, ?_, ?_⟩
  · intro b hb
    obtain ⟨h1, h2, k, hk, hn⟩ := inv.who b hb
    refine ⟨h1, h2, _, (hg _).mpr ⟨(w.winRow a b, w.winCol a b),
      (mem_windowCells _ _).mpr (eligible_win h2), rfl⟩, ?_, ?_⟩
    · exact (cellMem_iff w a _ _ b).mpr ⟨rfl, rfl⟩
    · exact List.countP_pos_iff.mpr ⟨k, hk, hn⟩
  · intro g hgm
    obtain ⟨ij, _, rfl⟩ := (hg g).mp hgm
    exact ⟨inv.lim ij.1 ij.2, hlen ▸ List.countP_le_length⟩
  · intro hacc g hgm
    obtain ⟨ij, _, rfl⟩ := (hg g).mp hgm
    exact inv.exact hacc ij.1 ij.2
  · intro hacc
    unfold totalExpected
    rw [attackGroups_restricted w a l hkind, List.map_map,
      length_eq_sum_cells w a (windowCells (w.cfgOf a).attackRange) (nodup_windowCells _) L
        (fun b hb => (mem_windowCells _ _).mpr (eligible_win (inv.who b hb).2.1))]
    congr 1
    apply List.map_congr_left
    intro ij _
    exact inv.exact hacc ij.1 ij.2

/-! ## `RestrictedSelectiveAttackActor._determine_attack` -/

/-- inside the action space (as many entries as `simultaneous_attacks`, every entry at most
`W·W`) and with a row for the attacker's encoding in the mapping, the actor never raises and
the list it returns satisfies all selection clauses of the specification, for every tape -/
theorem determineRestricted_sound {cfg : AttackCfg} {w : World} {a : Aid} {s : List Int} (hI : w.WInv = true)
    (hmap : cfg.mapping.lookup (w.encOf a) = some s) (hkind : cfg.kind = .restricted) (l : List Nat)
    (hlen : l.length = (w.cfgOf a).simAttacks)
    (hall : ∀ k ∈ l, k ≤ (2 * (w.cfgOf a).attackRange + 1) * (2 * (w.cfgOf a).attackRange + 1)) (t : Tape) :
    ∃ st L t1, determineRestricted cfg w a l t = .ok ((st, L), t1) ∧ SelOK cfg w a (.cells l) L := by
  by_cases h0 : l.all (· == 0) = true
  · refine ⟨false, [], t, by rw [determineRestricted, if_pos h0], ?_⟩
    apply selOK_of_resInv hkind hlen
    apply resInv_allZero
    intro k hk
    simpa using List.all_eq_true.mp h0 k hk
  · obtain ⟨L, t1, hL, inv⟩ := resLoop_inv hI hmap l [] [] t hall (resInv_nil cfg w a)
    rw [List.nil_append] at inv
    refine ⟨true, L, t1, ?_, selOK_of_resInv hkind hlen inv⟩
    rw [determineRestricted, if_neg h0]
    simp only []
    rw [hL]

end World
end Abmarl
