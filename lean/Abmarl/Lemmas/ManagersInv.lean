import Abmarl.Lemmas.Managers
/-!
# The manager invariant and the per-call soundness lemmas behind C01 / C07
-/
namespace Abmarl
variable {σ α ω ι : Type}

/-- well-formedness of the simulation for manager kind `k` (each excluded point was run on the
real code, see DESIGN.md §6 O3/O8): a turn-based manager needs a learning agent; a
dynamic-order simulation has an entity and nominates each agent at most once, from its own
agents. -/
structure WF (S : SimIface σ α ω ι) (k : MKind) : Prop where
  lawful : Lawful S
  turn : k = .turnBased → S.learners ≠ []
  dyn : k = .dynamic → 0 < S.n ∧ ∀ s, (S.next s).Nodup ∧ ∀ a ∈ S.next s, a < S.n

/-- what links the manager's bookkeeping to the ghost state computed from the trace alone -/
structure Inv (S : SimIface σ α ω ι) (k : MKind) (m : MState σ) (g : GSt) : Prop where
  ds : ∀ a, a ∈ m.doneSet ↔ a ∈ g.R ∨ (k ≠ .dynamic ∧ a ∈ S.nonLearners)
  pend : g.pend = S.agents.map (S.pending m.sim)
  live : k ≠ .allStep → ¬ ∀ b ∈ S.agents, b ∈ m.doneSet
  ptr : k = .turnBased → ∃ h, g.holder = some h ∧ h ∈ S.learners ∧
          m.ptr = (S.learners.idxOf h + 1) % S.learners.length

/-- the agents `reps` were reported, each once, from simulation state `s1`, leaving `s'` -/
structure Reported (S : SimIface σ α ω ι) (s1 : σ) (reps : List Aid) (o : Out ω ι) (s' : σ) : Prop where
  obs : keys o.obs = reps
  rewards : o.rewards = reps.map fun a => (a, S.pending s1 a)
  dones : o.dones = reps.map fun a => (a, S.done s1 a)
  infos : keys o.infos = reps
  view : SameView S s1 s'
  pending : ∀ b, S.pending s' b = if b ∈ reps then 0 else S.pending s1 b
  nodup : reps.Nodup

theorem mem_agents (S : SimIface σ α ω ι) (a : Aid) : a ∈ S.agents ↔ a < S.n := by
  simp [SimIface.agents]

theorem mem_learners (S : SimIface σ α ω ι) (a : Aid) : a ∈ S.learners ↔ a < S.n ∧ S.learning a = true := by
  simp [SimIface.learners, mem_agents]

theorem mem_nonLearners (S : SimIface σ α ω ι) (a : Aid) :
    a ∈ S.nonLearners ↔ a < S.n ∧ S.learning a = false := by
  simp [SimIface.nonLearners, mem_agents]

theorem nodup_agents (S : SimIface σ α ω ι) : S.agents.Nodup := List.nodup_range

theorem nodup_learners (S : SimIface σ α ω ι) : S.learners.Nodup :=
  (nodup_agents S).sublist List.filter_sublist

theorem Reported.of_reportAll {S : SimIface σ α ω ι} (hS : Lawful S) (s1 : σ) (reps : List Aid)
    (hnd : reps.Nodup) (ad : Bool) :
    Reported S s1 reps (mkOut (reportAll S s1 {} reps).1 ad) (reportAll S s1 {} reps).2 := by
  obtain ⟨h1, h2, h3, h4⟩ := reportAll_acc hS reps s1 {} hnd
  exact { obs := by simpa [mkOut, keys] using h1, rewards := by simpa [mkOut] using h2,
          dones := by simpa [mkOut] using h3, infos := by simpa [mkOut, keys] using h4,
          view := reportAll_view hS reps s1 {}, pending := reportAll_pending hS reps s1 {},
          nodup := hnd }

theorem newlyDone_reported {S : SimIface σ α ω ι} {s1 : σ} {reps : List Aid} {o : Out ω ι} {s' : σ}
    (hR : Reported S s1 reps o s') : newlyDone o.dones = reps.filter (fun a => S.done s1 a) := by
  rw [hR.dones]; unfold newlyDone
  clear hR
  induction reps with
  | nil => simp
  | cons a as ih =>
    simp only [List.map_cons, List.filter_cons]
    by_cases h : S.done s1 a = true <;> simp [h, ih]

theorem keys_map_pair {β : Type} (f : Aid → β) (l : List Aid) : keys (l.map fun a => (a, f a)) = l := by
  simp [keys, Function.comp_def]

theorem ledger_reported {S : SimIface σ α ω ι} {s1 : σ} {reps : List Aid} {o : Out ω ι} {s' : σ}
    (hR : Reported S s1 reps o s') :
    ledgerOk S.n o.rewards (S.agents.map (S.pending s1)) (ghostOf S s').pending = true := by
  unfold ledgerOk
  rw [List.all_eq_true]
  intro a ha
  have han : a < S.n := by simpa using ha
  rw [hR.rewards, lookup_map_self]
  simp only [ghostOf, SimIface.agents]
  rw [getD_map_range _ _ _ _ han, getD_map_range _ _ _ _ han, hR.pending a]
  by_cases h : a ∈ reps <;> simp [h]

/-- the agents not in `done_agents` are exactly the participating agents not yet reported done -/
theorem live_iff_participating {S : SimIface σ α ω ι} {k : MKind} {m : MState σ} {g : GSt}
    (hI : Inv S k m g) (a : Aid) :
    a ∈ S.agents.filter (fun a => decide (a ∉ m.doneSet)) ↔
      (a ∈ participating k S.n S.learning ∧ a ∉ g.R) := by
  simp only [List.mem_filter, decide_eq_true_eq, mem_agents, hI.ds a, not_or]
  cases k with
  | dynamic => simp [participating]
  | allStep =>
    simp only [participating, List.mem_filter, List.mem_range, mem_nonLearners, ne_eq, reduceCtorEq,
      not_false_eq_true, true_and, not_and]
    constructor
    · rintro ⟨h1, h2, h3⟩
      exact ⟨⟨h1, by cases hl : S.learning a <;> simp_all⟩, h2⟩
    · rintro ⟨⟨h1, h2⟩, h3⟩
      exact ⟨h1, h3, fun _ => by simp [h2]⟩
  | turnBased =>
    simp only [participating, List.mem_filter, List.mem_range, mem_nonLearners, ne_eq, reduceCtorEq,
      not_false_eq_true, true_and, not_and]
    constructor
    · rintro ⟨h1, h2, h3⟩
      exact ⟨⟨h1, by cases hl : S.learning a <;> simp_all⟩, h2⟩
    · rintro ⟨⟨h1, h2⟩, h3⟩
      exact ⟨h1, h3, fun _ => by simp [h2]⟩

/-- the C01 clauses for an accepted step, from the abstract description of what was reported -/
theorem c01Step_of_reported [DecidableEq α] {S : SimIface σ α ω ι} {k : MKind} {m : MState σ} {g : GSt}
    (hI : Inv S k m g) (shuffled : Bool) (acts args : List (Aid × α)) (s1 s' : σ) (reps : List Aid)
    (o : Out ω ι)
    (hacc : acts.any (fun p => decide (p.1 ∈ m.doneSet)) = false)
    (hargs : if shuffled then permOf args acts = true else args = acts)
    (hR : Reported S s1 reps o s')
    (hreps : ∀ a ∈ reps, a ∉ m.doneSet)
    (hpart : ∀ a ∈ reps, a ∈ participating k S.n S.learning)
    (hfinal : o.allDone = true → ∀ a ∈ participating k S.n S.learning, a ∉ g.R → a ∈ reps)
    (had : o.allDone = (S.allDone s1 ||
      (participating k S.n S.learning).all (fun a => decide (a ∈ g.R ++ newlyDone o.dones)))) :
    c01Step k S.n S.learning shuffled g acts
      ⟨.step acts, .stepOk o, some args, S.agents.map (S.pending s1), ghostOf S s'⟩ = true := by
  unfold c01Step
  simp only [Bool.and_eq_true, Bool.not_eq_true']
  have hblock : (acts.any fun p => decide (p.1 ∈ g.R)) = false := by
    rw [List.any_eq_false] at hacc ⊢
    intro p hp
    have := hacc p hp
    simp only [decide_eq_true_eq] at this ⊢
    exact fun h => this ((hI.ds p.1).mpr (Or.inl h))
  refine ⟨⟨⟨⟨⟨⟨⟨⟨⟨⟨hblock, ?_⟩, ?_⟩, ?_⟩, ?_⟩, ?_⟩, ?_⟩, ?_⟩, ?_⟩, ?_⟩, ?_⟩
  · rw [hR.rewards, hR.obs, keys_map_pair]; simp
  · rw [hR.dones, hR.obs, keys_map_pair]; simp
  · rw [hR.infos, hR.obs]; simp
  · rw [hR.obs]; simpa using hR.nodup
  · rw [hR.obs, List.all_eq_true]
    intro a ha
    simpa using hpart a ha
  · rw [hR.obs]
    cases hAD : o.allDone with
    | false => simp
    | true =>
      simp only [Bool.not_true, Bool.false_or, List.all_eq_true, Bool.or_eq_true, decide_eq_true_eq]
      intro a ha
      by_cases haR : a ∈ g.R
      · exact Or.inl haR
      · exact Or.inr (hfinal hAD a ha haR)
  · rw [hR.obs, List.all_eq_true]
    intro a ha
    simp only [decide_eq_true_eq]
    exact fun h => hreps a ha ((hI.ds a).mpr (Or.inl h))
  · cases shuffled <;> simpa using hargs
  · rw [had]
    simp [ghostOf, hR.view.2.1]
  · exact ledger_reported hR

end Abmarl

namespace Abmarl
variable {σ α ω ι : Type}

theorem inv_of_reported {S : SimIface σ α ω ι} {k : MKind} {m m' : MState σ} {g : GSt}
    (hI : Inv S k m g) {s1 s' : σ} {reps : List Aid} {o : Out ω ι}
    (hR : Reported S s1 reps o s') (e : Entry α ω ι)
    (he : e.res = .stepOk o) (hgh : e.ghost = ghostOf S s')
    (hsim : m'.sim = s')
    (hds' : ∀ x, x ∈ m'.doneSet ↔ x ∈ m.doneSet ∨ (x ∈ reps ∧ S.done s1 x = true))
    (hlive : k ≠ .allStep → ¬ ∀ b ∈ S.agents, b ∈ m'.doneSet)
    (hptr : k = .turnBased → ∃ h, liveOf o.dones = some h ∧ h ∈ S.learners ∧
          m'.ptr = (S.learners.idxOf h + 1) % S.learners.length) :
    Inv S k m' (gNext g e) := by
  unfold gNext
  rw [he]
  simp only []
  refine ⟨?_, ?_, hlive, ?_⟩
  · intro a
    simp only [List.mem_append]
    rw [hds' a, hI.ds a, newlyDone_reported hR]
    simp only [List.mem_filter]
    constructor
    · rintro ((h | h) | h)
      · exact Or.inl (Or.inl h)
      · exact Or.inr h
      · exact Or.inl (Or.inr h)
    · rintro ((h | h) | h)
      · exact Or.inl (Or.inl h)
      · exact Or.inr h
      · exact Or.inl (Or.inr h)
  · simp [hgh, ghostOf, hsim]
  · intro hk
    obtain ⟨h, h1, h2, h3⟩ := hptr hk
    exact ⟨h, by simp [h1], h2, h3⟩

end Abmarl

namespace Abmarl
variable {σ α ω ι : Type}

/-- soundness statement for one manager call -/
def OpSound [DecidableEq α] (S : SimIface σ α ω ι) (k : MKind) (m : MState σ) (g : GSt) (op : Op α) : Prop :=
  c01Entry k S.n S.learning m.shuffle g (runOp S k m op).1 = true ∧
  c07Entry k S.n S.learning g (runOp S k m op).1 = true ∧
  (runOp S k m op).2.shuffle = m.shuffle ∧
  ((gNext g (runOp S k m op).1).started = true → (gNext g (runOp S k m op).1).over = false →
    Inv S k (runOp S k m op).2 (gNext g (runOp S k m op).1))

theorem step_rejected [DecidableEq α] {S : SimIface σ α ω ι} {k : MKind} {m : MState σ} {g : GSt}
    (hI : Inv S k m g) (hs : g.started = true) (acts : List (Aid × α))
    (hrej : acts.any (fun p => decide (p.1 ∈ m.doneSet)) = true) :
    OpSound S k m g (.step acts) := by
  have hE : runOp S k m (.step acts) =
      (⟨.step acts, .err .rejected, none, S.agents.map (S.pending m.sim), ghostOf S m.sim⟩, m) := by
    simp [runOp, mgrStep, hrej]
  unfold OpSound
  rw [hE]
  refine ⟨?_, by simp [c07Entry], rfl, ?_⟩
  · simp only [c01Entry, c01Step, Bool.and_eq_true, decide_eq_true_eq, Option.isNone_none,
      beq_iff_eq, true_and, and_true]
    refine ⟨⟨?_, hI.pend.symm⟩, by simp [ghostOf, hI.pend]⟩
    rw [List.any_eq_true] at hrej ⊢
    obtain ⟨p, hp, hpd⟩ := hrej
    refine ⟨p, hp, ?_⟩
    simp only [decide_eq_true_eq] at hpd
    rcases (hI.ds p.1).mp hpd with h | ⟨h1, h2⟩
    · simp [h]
    · have := (mem_nonLearners S p.1).mp h2
      simp [this.2, h1]
  · intro _ hov
    simpa [gNext] using hI

theorem allStep_step_sound [DecidableEq α] {S : SimIface σ α ω ι} (hW : WF S .allStep)
    {m : MState σ} {g : GSt} (hI : Inv S .allStep m g) (hs : g.started = true)
    (acts : List (Aid × α)) : OpSound S .allStep m g (.step acts) := by
  by_cases hrej : acts.any (fun p => decide (p.1 ∈ m.doneSet)) = true
  · exact step_rejected hI hs acts hrej
  have hacc : acts.any (fun p => decide (p.1 ∈ m.doneSet)) = false := by simpa using hrej
  have hS := hW.lawful
  -- names for the pieces of the computation
  let sh := if m.shuffle then shuffle acts m.tape else (acts, m.tape)
  let s1 := S.step m.sim sh.1
  let live := S.agents.filter (fun a => decide (a ∉ m.doneSet))
  let o := readObs S s1 live
  let r := readRewards S o.2 live
  let s3 := r.2
  let dones := live.map (fun a => (a, S.done s3 a))
  let ds' := m.doneSet ++ (dones.filter (·.2)).map (·.1)
  let out : Out ω ι := { obs := o.1, rewards := r.1, dones := dones,
                         infos := live.map (fun a => (a, S.info s3 a)),
                         allDone := S.allDone s3 || S.agents.all (fun b => decide (b ∈ ds')) }
  let m' : MState σ := { m with sim := s3, doneSet := ds', tape := sh.2 }
  have hE : runOp S .allStep m (.step acts) =
      (⟨.step acts, .stepOk out, some sh.1, S.agents.map (S.pending s1), ghostOf S s3⟩, m') := by
    simp only [runOp, mgrStep, hacc]
    rfl
  have hlnd : live.Nodup := (nodup_agents S).sublist List.filter_sublist
  obtain ⟨ho1, ho2, ho3⟩ := readObs_spec hS live s1
  obtain ⟨hr1, hr2, hr3⟩ := readRewards_spec hS live o.2 hlnd
  have hview : SameView S s1 s3 := ho2.trans hr2
  have hR : Reported S s1 live out s3 := {
    obs := ho1
    rewards := by
      show r.1 = _
      rw [hr1]; apply List.map_congr_left; intro a _; rw [ho3]
    dones := by
      show dones = _
      apply List.map_congr_left; intro a _; rw [hview.1]
    infos := keys_map_pair _ _
    view := hview
    pending := by intro b; rw [hr3 b, ho3 b]
    nodup := hlnd }
  have hreps : ∀ a ∈ live, a ∉ m.doneSet := by
    intro a ha; simpa [live] using (List.mem_filter.mp ha).2
  have hnew : (dones.filter (·.2)).map (·.1) = newlyDone out.dones := rfl
  have hds' : ∀ x, x ∈ ds' ↔ x ∈ m.doneSet ∨ (x ∈ live ∧ S.done s1 x = true) := by
    intro x
    simp only [ds', hnew, List.mem_append, newlyDone_reported hR, List.mem_filter]
  have hall : S.agents.all (fun b => decide (b ∈ ds')) =
      (participating .allStep S.n S.learning).all (fun a => decide (a ∈ g.R ++ newlyDone out.dones)) := by
    rw [Bool.eq_iff_iff, List.all_eq_true, List.all_eq_true]
    simp only [decide_eq_true_eq, participating, List.mem_filter, List.mem_range, List.mem_append]
    constructor
    · intro h a ⟨han, hal⟩
      have := h a ((mem_agents S a).mpr han)
      simp only [ds', hnew, List.mem_append] at this
      rcases this with h1 | h1
      · rcases (hI.ds a).mp h1 with h2 | ⟨_, h2⟩
        · exact Or.inl h2
        · have := (mem_nonLearners S a).mp h2
          simp [hal] at this
      · exact Or.inr h1
    · intro h a ha
      have han := (mem_agents S a).mp ha
      simp only [ds', hnew, List.mem_append]
      by_cases hal : S.learning a = true
      · rcases h a ⟨han, hal⟩ with h1 | h1
        · exact Or.inl ((hI.ds a).mpr (Or.inl h1))
        · exact Or.inr h1
      · exact Or.inl ((hI.ds a).mpr (Or.inr ⟨by simp, (mem_nonLearners S a).mpr ⟨han, by simpa using hal⟩⟩))
  have had : out.allDone = (S.allDone s1 ||
      (participating .allStep S.n S.learning).all (fun a => decide (a ∈ g.R ++ newlyDone out.dones))) := by
    show (S.allDone s3 || _) = _
    rw [hview.2.1, hall]
  have hargs : if m.shuffle then permOf sh.1 acts = true else sh.1 = acts := by
    by_cases hsf : m.shuffle = true
    · simp only [hsf, if_true, sh]
      exact permOf_of_perm (shuffle_perm acts m.tape)
    · simp [hsf, sh]
  unfold OpSound
  rw [hE]
  refine ⟨?_, ?_, rfl, ?_⟩
  · have hlp := live_iff_participating hI
    exact c01Step_of_reported hI m.shuffle acts sh.1 s1 s3 live out hacc hargs hR hreps
      (fun a ha => ((hlp a).mp ha).1) (fun _ a ha haR => (hlp a).mpr ⟨ha, haR⟩) had
  · -- C07: every learning agent not yet reported done is reported; somebody can act
    simp only [c07Entry, Bool.or_eq_true, Bool.and_eq_true]
    by_cases hAD : out.allDone = true
    · exact Or.inl hAD
    · right
      have hkeys : keys out.dones = live := by rw [hR.dones, keys_map_pair]
      refine ⟨?_, Or.inl ?_⟩
      · rw [hkeys]
        unfold sameSet
        simp only [Bool.and_eq_true, List.all_eq_true, decide_eq_true_eq, List.mem_filter, List.mem_range,
          live, mem_agents, decide_not, Bool.not_eq_true', decide_eq_false_iff_not]
        constructor
        · intro a ⟨han, hnd⟩
          refine ⟨⟨han, ?_⟩, fun h => hnd ((hI.ds a).mpr (Or.inl h))⟩
          by_cases hal : S.learning a = true
          · exact hal
          · exact absurd ((hI.ds a).mpr (Or.inr ⟨by simp, (mem_nonLearners S a).mpr ⟨han, by simpa using hal⟩⟩)) hnd
        · intro a ⟨⟨han, hal⟩, hnR⟩
          refine ⟨han, fun h => ?_⟩
          rcases (hI.ds a).mp h with h1 | ⟨_, h1⟩
          · exact hnR h1
          · have := (mem_nonLearners S a).mp h1
            simp [hal] at this
      · -- not all done: some agent is outside ds', it is live and not done
        have hnot : ¬ (S.agents.all (fun b => decide (b ∈ ds')) = true) := by
          intro h; apply hAD; show (S.allDone s3 || _) = true; simp [h]
        rw [List.all_eq_true] at hnot
        have : ∃ b ∈ S.agents, b ∉ ds' := by
          apply Classical.byContradiction; intro hne; apply hnot; intro b hb
          simp only [decide_eq_true_eq]
          apply Classical.byContradiction; intro hb'; exact hne ⟨b, hb, hb'⟩
        obtain ⟨b, hb, hbds⟩ := this
        rw [hds' b] at hbds
        have hbl : b ∈ live := by
          simp only [live, List.mem_filter, decide_not, Bool.not_eq_true', decide_eq_false_iff_not]
          exact ⟨hb, fun h => hbds (Or.inl h)⟩
        rw [List.any_eq_true]
        refine ⟨(b, S.done s1 b), ?_, ?_⟩
        · rw [hR.dones]; exact List.mem_map.mpr ⟨b, hbl, rfl⟩
        · simp only [Bool.not_eq_true']
          by_cases hd : S.done s1 b = true
          · exact absurd (Or.inr ⟨hbl, hd⟩) hbds
          · simpa using hd
  · intro _ hov
    refine inv_of_reported hI hR _ rfl rfl rfl hds' (by simp) (by simp)

end Abmarl

namespace Abmarl
variable {σ α ω ι : Type}

/-- The turn search never runs through a whole rotation while some agent is unreported and every
unreported agent is in the rotation: the model's `exhausted` error (the real code's endless
`for … in cycle`) is unreachable. -/
theorem turnSearch_total (S : SimIface σ α ω ι) :
    ∀ (rot : List Aid) (s : σ) (ds : List Aid) (acc : Acc ω ι) (k : Nat),
      (∃ b ∈ S.agents, b ∉ ds) → (∀ b ∈ S.agents, b ∉ ds → b ∈ rot) →
      (turnSearch S rot s ds acc k).isSome = true := by
  intro rot
  induction rot with
  | nil =>
    intro s ds acc k ⟨b, hb, hnd⟩ hsub
    exact absurd (hsub b hb hnd) (by simp)
  | cons a rest ih =>
    intro s ds acc k hex hsub
    unfold turnSearch
    split
    · rename_i hads
      apply ih s ds acc (k + 1) hex
      intro b hb hnd
      rcases List.mem_cons.mp (hsub b hb hnd) with rfl | h
      · exact absurd hads hnd
      · exact h
    · rename_i hads
      split
      · simp only []
        split
        · simp
        · rename_i hall
          apply ih
          · simp only [List.all_eq_true, decide_eq_true_eq] at hall
            apply Classical.byContradiction; intro hne; apply hall; intro x hx
            apply Classical.byContradiction; intro hx'; exact hne ⟨x, hx, hx'⟩
          · intro b hb hnd
            have hnd' : b ∉ ds := fun h => hnd (List.mem_cons_of_mem _ h)
            rcases List.mem_cons.mp (hsub b hb hnd') with rfl | h
            · exact absurd List.mem_cons_self hnd
            · exact h
      · simp

theorem permOf_refl [DecidableEq α] (a : List (Aid × α)) : permOf a a = true :=
  permOf_of_perm (List.Perm.refl a)

/-- the flush branch (simulation finished), shared by the turn-based and dynamic managers -/
theorem flush_sound [DecidableEq α] {S : SimIface σ α ω ι} (hS : Lawful S) {k : MKind}
    {m : MState σ} {g : GSt} (hI : Inv S k m g) (acts : List (Aid × α))
    (hacc : acts.any (fun p => decide (p.1 ∈ m.doneSet)) = false)
    (hfin : S.allDone (S.step m.sim acts) = true)
    (hE : runOp S k m (.step acts) =
      (⟨.step acts,
        .stepOk (mkOut (reportAll S (S.step m.sim acts) {} (S.agents.filter (fun a => decide (a ∉ m.doneSet)))).1 true),
        some acts, S.agents.map (S.pending (S.step m.sim acts)),
        ghostOf S (reportAll S (S.step m.sim acts) {} (S.agents.filter (fun a => decide (a ∉ m.doneSet)))).2⟩,
       { m with sim := (reportAll S (S.step m.sim acts) {} (S.agents.filter (fun a => decide (a ∉ m.doneSet)))).2 })) :
    OpSound S k m g (.step acts) := by
  have hlnd : (S.agents.filter (fun a => decide (a ∉ m.doneSet))).Nodup :=
    (nodup_agents S).sublist List.filter_sublist
  have hR := Reported.of_reportAll hS (S.step m.sim acts) _ hlnd true
  unfold OpSound
  rw [hE]
  refine ⟨?_, by simp [c07Entry, mkOut], rfl, ?_⟩
  · refine c01Step_of_reported hI m.shuffle acts acts _ _ _ _ hacc ?_ hR ?_ ?_ ?_ ?_
    · cases m.shuffle <;> simp [permOf_refl]
    · intro a ha; simpa using (List.mem_filter.mp ha).2
    · intro a ha; exact ((live_iff_participating hI a).mp ha).1
    · intro _ a ha haR; exact (live_iff_participating hI a).mpr ⟨ha, haR⟩
    · simp [mkOut, hfin]
  · intro _ hov
    simp [gNext, mkOut] at hov

end Abmarl

namespace Abmarl
variable {σ α ω ι : Type}

theorem length_rotate {β : Type} (l : List β) (k : Nat) : (rotate l k).length = l.length := by
  unfold rotate; simp; omega

theorem idxOf_of_getElem? {l : List Aid} (hnd : l.Nodup) {i : Nat} {x : Aid} (h : l[i]? = some x) :
    l.idxOf x = i := by
  obtain ⟨hi, rfl⟩ := List.getElem?_eq_some_iff.mp h
  exact hnd.idxOf_getElem i hi

/-- shape of the done dictionary when the turn search stops at a live agent -/
theorem liveOf_shape (X : List Aid) (live : Aid) :
    liveOf ((X.map fun a => (a, true)) ++ [(live, false)]) = some live := by
  unfold liveOf
  simp [List.filter_append, List.filter_map, Function.comp_def]

theorem turn_step_sound [DecidableEq α] {S : SimIface σ α ω ι} (hW : WF S .turnBased)
    {m : MState σ} {g : GSt} (hI : Inv S .turnBased m g) (hs : g.started = true)
    (acts : List (Aid × α)) : OpSound S .turnBased m g (.step acts) := by
  by_cases hrej : acts.any (fun p => decide (p.1 ∈ m.doneSet)) = true
  · exact step_rejected hI hs acts hrej
  have hacc : acts.any (fun p => decide (p.1 ∈ m.doneSet)) = false := by simpa using hrej
  have hS := hW.lawful
  by_cases hfin : S.allDone (S.step m.sim acts) = true
  · apply flush_sound hS hI acts hacc hfin
    simp only [runOp, mgrStep, hacc, hfin, flush_eq]
    rfl
  have hfin' : S.allDone (S.step m.sim acts) = false := by simpa using hfin
  -- facts about the bookkeeping
  have hnl : ∀ a, a ∈ S.nonLearners → a ∈ m.doneSet := fun a h => (hI.ds a).mpr (Or.inr ⟨by simp, h⟩)
  have hlearnR : ∀ a, a ∈ S.learners → (a ∈ m.doneSet ↔ a ∈ g.R) := by
    intro a ha
    have hal := (mem_learners S a).mp ha
    rw [hI.ds a]
    constructor
    · rintro (h | ⟨_, h⟩)
      · exact h
      · have := (mem_nonLearners S a).mp h; simp [hal.2] at this
    · exact Or.inl
  obtain ⟨h, hh1, hh2, hh3⟩ := hI.ptr rfl
  have hlen : 0 < S.learners.length := List.length_pos_of_mem hh2
  have hptr : m.ptr < S.learners.length := by rw [hh3]; exact Nat.mod_lt _ hlen
  obtain ⟨s1, hs1⟩ : ∃ s1, s1 = S.step m.sim acts := ⟨_, rfl⟩
  obtain ⟨rot, hrotdef⟩ : ∃ rot, rot = rotate S.learners m.ptr := ⟨_, rfl⟩
  rw [← hs1] at hfin'
  have hrotnd : rot.Nodup := hrotdef ▸ nodup_rotate _ _ (nodup_learners S)
  have hex : ∃ b ∈ S.agents, b ∉ m.doneSet := by
    have := hI.live (by simp)
    apply Classical.byContradiction; intro hne; apply this; intro b hb
    apply Classical.byContradiction; intro hb'; exact hne ⟨b, hb, hb'⟩
  have hsub : ∀ b ∈ S.agents, b ∉ m.doneSet → b ∈ rot := by
    intro b hb hnd
    rw [hrotdef, mem_rotate, mem_learners]
    have hbn := (mem_agents S b).mp hb
    refine ⟨hbn, ?_⟩
    by_cases hl : S.learning b = true
    · exact hl
    · exact absurd (hnl b ((mem_nonLearners S b).mpr ⟨hbn, by simpa using hl⟩)) hnd
  have htot := turnSearch_total S rot s1 m.doneSet {} 0 hex hsub
  obtain ⟨res, hres⟩ := Option.isSome_iff_exists.mp htot
  obtain ⟨pre, post, hrot, hused, hrep, hds, hT, hF⟩ := turnSearch_spec hS rot s1 m.doneSet {} 0 res hrotnd hres
  let reps := pre.filter (fun a => decide (a ∉ m.doneSet))
  have hacc' : res.acc = (reportAll S s1 {} reps).1 := congrArg Prod.fst hrep
  have hsim' : res.sim = (reportAll S s1 {} reps).2 := congrArg Prod.snd hrep
  have hprend : pre.Nodup := (hrot ▸ hrotnd).sublist (List.sublist_append_left pre post)
  have hrepsnd : reps.Nodup := hprend.sublist List.filter_sublist
  have hpre_learn : ∀ b ∈ pre, b ∈ S.learners := by
    intro b hb
    have : b ∈ rot := by rw [hrot]; exact List.mem_append_left _ hb
    rw [hrotdef] at this
    exact (mem_rotate _ _ _).mp this
  let out : Out ω ι := mkOut res.acc res.allDone
  let m' : MState σ := { m with sim := res.sim, doneSet := res.ds,
                                ptr := (m.ptr + res.used) % S.learners.length }
  have hE : runOp S .turnBased m (.step acts) =
      (⟨.step acts, .stepOk out, some acts, S.agents.map (S.pending s1), ghostOf S res.sim⟩, m') := by
    have hM : mgrStep S .turnBased m acts = .ok (out, acts, m') := by
      simp only [mgrStep, hacc, Bool.false_eq_true, ↓reduceIte, ← hs1, ← hrotdef, hfin', hres]
      rfl
    simp only [runOp, hM, hs1]
    rfl
  have hR : Reported S s1 reps out res.sim := by
    have := Reported.of_reportAll hS s1 reps hrepsnd res.allDone
    rw [← hacc', ← hsim'] at this
    exact this
  have hreps : ∀ a ∈ reps, a ∉ m.doneSet := by
    intro a ha; simpa using (List.mem_filter.mp ha).2
  have hds' : ∀ x, x ∈ res.ds ↔ x ∈ m.doneSet ∨ (x ∈ reps ∧ S.done s1 x = true) := by
    intro x; rw [hds x]
    constructor
    · rintro (h | ⟨h1, h2⟩)
      · exact Or.inl h
      · by_cases hx : x ∈ m.doneSet
        · exact Or.inl hx
        · exact Or.inr ⟨List.mem_filter.mpr ⟨h1, by simpa using hx⟩, h2⟩
    · rintro (h | ⟨h1, h2⟩)
      · exact Or.inl h
      · exact Or.inr ⟨(List.mem_filter.mp h1).1, h2⟩
  have hnewly : newlyDone out.dones = reps.filter (fun a => S.done s1 a) := newlyDone_reported hR
  have hrepspart : ∀ a ∈ reps, a ∈ participating .turnBased S.n S.learning := fun a ha => by
    have := hpre_learn a (List.mem_filter.mp ha).1
    simpa [participating, mem_learners] using this
  unfold OpSound
  rw [hE]
  cases hAD : res.allDone with
  | true =>
    obtain ⟨_, hallin⟩ := hT hAD
    refine ⟨?_, by simp [c07Entry, out, mkOut, hAD], rfl, ?_⟩
    · refine c01Step_of_reported hI m.shuffle acts acts s1 res.sim reps out hacc ?_ hR hreps hrepspart ?_ ?_
      · cases m.shuffle <;> simp [permOf_refl]
      · intro _ a ha haR
        have hal : a ∈ S.learners := by simpa [participating, mem_learners] using ha
        have han := ((mem_learners S a).mp hal).1
        rcases (hds' a).mp (hallin a ((mem_agents S a).mpr han)) with h1 | h1
        · exact absurd ((hlearnR a hal).mp h1) haR
        · exact h1.1
      · show res.allDone = _
        rw [hAD, hfin']
        symm
        simp only [Bool.false_or, List.all_eq_true, decide_eq_true_eq, participating, List.mem_filter,
          List.mem_range, List.mem_append]
        intro a ⟨han, hal⟩
        have hal' : a ∈ S.learners := (mem_learners S a).mpr ⟨han, hal⟩
        rcases (hds' a).mp (hallin a ((mem_agents S a).mpr han)) with h1 | h1
        · exact Or.inl ((hlearnR a hal').mp h1)
        · right; rw [hnewly]; exact List.mem_filter.mpr h1
    · intro _ hov
      simp [gNext, out, mkOut, hAD] at hov
  | false =>
    obtain ⟨pre', live, hpre, hlive_nds, hlive_nd, hpre'⟩ := hF hAD
    have hlive_pre : live ∈ pre := by rw [hpre]; simp
    have hlive_learn : live ∈ S.learners := hpre_learn live hlive_pre
    have hlive_res : live ∉ res.ds := by
      rw [hds live]; rintro (h | ⟨_, h⟩)
      · exact hlive_nds h
      · rw [hlive_nd] at h; cases h
    -- normal form of the done dictionary
    let X := pre'.filter (fun a => decide (a ∉ m.doneSet))
    have hrepsX : reps = X ++ [live] := by
      simp only [reps, X, hpre, List.filter_append, List.filter_cons, List.filter_nil]
      simp [hlive_nds]
    have hdn : out.dones = (X.map fun a => (a, true)) ++ [(live, false)] := by
      rw [hR.dones, hrepsX, List.map_append]
      simp only [List.map_cons, List.map_nil, hlive_nd]
      congr 1
      apply List.map_congr_left
      intro b hb
      have hb' := List.mem_filter.mp hb
      rcases hpre' b hb'.1 with h1 | h1
      · exact absurd h1 (by simpa using hb'.2)
      · rw [h1]
    refine ⟨?_, ?_, rfl, ?_⟩
    · refine c01Step_of_reported hI m.shuffle acts acts s1 res.sim reps out hacc ?_ hR hreps hrepspart ?_ ?_
      · cases m.shuffle <;> simp [permOf_refl]
      · intro hT; simp [out, mkOut, hAD] at hT
      · show res.allDone = _
        rw [hAD, hfin']
        symm
        simp only [Bool.false_or]
        rw [List.all_eq_false]
        refine ⟨live, ?_, ?_⟩
        · simpa [participating, mem_learners] using hlive_learn
        · simp only [decide_eq_true_eq, List.mem_append, hnewly, List.mem_filter]
          rintro (h1 | ⟨_, h1⟩)
          · exact hlive_nds ((hlearnR live hlive_learn).mpr h1)
          · rw [hlive_nd] at h1; cases h1
    · -- C07: exactly the finishing agents in between, then the next live agent in listing order
      simp only [c07Entry, Bool.or_eq_true, Bool.and_eq_true]
      right
      refine ⟨?_, Or.inl ?_⟩
      · have hrotE : rotAfter ((List.range S.n).filter S.learning) g.holder = rot := by
          show rotAfter S.learners g.holder = rot
          simp only [rotAfter, hh1, hrotdef, hh3]
        have hgone_pre : ∀ b ∈ pre', (decide (b ∈ g.R) || ((ghostOf S res.sim).simDone.getD b false)) = true := by
          intro b hb
          have hbl : b ∈ S.learners := hpre_learn b (by rw [hpre]; exact List.mem_append_left _ hb)
          have hbn := ((mem_learners S b).mp hbl).1
          simp only [ghostOf, SimIface.agents, getD_map_range _ _ _ _ hbn, Bool.or_eq_true, decide_eq_true_eq]
          rcases hpre' b hb with h1 | h1
          · exact Or.inl ((hlearnR b hbl).mp h1)
          · right; rw [hR.view.1 b]; exact h1
        have hgone_live : (decide (live ∈ g.R) || ((ghostOf S res.sim).simDone.getD live false)) = false := by
          have hbn := ((mem_learners S live).mp hlive_learn).1
          simp only [ghostOf, SimIface.agents, getD_map_range _ _ _ _ hbn, Bool.or_eq_false_iff,
            decide_eq_false_iff_not]
          exact ⟨fun h => hlive_nds ((hlearnR live hlive_learn).mpr h), by rw [hR.view.1 live]; exact hlive_nd⟩
        have hrot' : rot = pre' ++ live :: post := by rw [hrot, hpre]; simp
        have hXR : pre'.filter (fun a => decide (a ∉ g.R)) = X := by
          apply List.filter_congr
          intro b hb
          have hbl : b ∈ S.learners := hpre_learn b (by rw [hpre]; exact List.mem_append_left _ hb)
          simp [hlearnR b hbl]
        unfold turnExpect
        simp only [hrotE]
        rw [hrot', List.dropWhile_append_of_pos hgone_pre, List.takeWhile_append_of_pos hgone_pre]
        simp only [List.dropWhile_cons, List.takeWhile_cons, hgone_live, Bool.false_eq_true, if_false,
          List.append_nil, hXR]
        rw [hdn]; simp
      · rw [hdn]; simp
    · intro _ _
      refine inv_of_reported hI hR _ rfl rfl rfl hds' ?_ ?_
      · intro _ hall
        exact hlive_res (hall live ((mem_agents S live).mpr ((mem_learners S live).mp hlive_learn).1))
      · intro _
        refine ⟨live, by rw [hdn]; exact liveOf_shape X live, hlive_learn, ?_⟩
        show (m.ptr + res.used) % S.learners.length = _
        have hpl : pre'.length < S.learners.length := by
          have := congrArg List.length hrot
          rw [hrotdef, length_rotate, hpre] at this
          simp at this; omega
        have hget : rot[pre'.length]? = some live := by
          rw [hrot, hpre]; simp
        rw [hrotdef, getElem?_rotate _ _ _ hptr hpl] at hget
        rw [idxOf_of_getElem? (nodup_learners S) hget, hused, hpre, Nat.mod_add_mod]
        simp; congr 1

end Abmarl

namespace Abmarl
variable {σ α ω ι : Type}

theorem sameSet_refl (l : List Aid) : sameSet l l = true := by
  simp [sameSet]

theorem dyn_step_sound [DecidableEq α] {S : SimIface σ α ω ι} (hW : WF S .dynamic)
    {m : MState σ} {g : GSt} (hI : Inv S .dynamic m g) (hs : g.started = true)
    (acts : List (Aid × α)) : OpSound S .dynamic m g (.step acts) := by
  by_cases hrej : acts.any (fun p => decide (p.1 ∈ m.doneSet)) = true
  · exact step_rejected hI hs acts hrej
  have hacc : acts.any (fun p => decide (p.1 ∈ m.doneSet)) = false := by simpa using hrej
  have hS := hW.lawful
  by_cases hfin : S.allDone (S.step m.sim acts) = true
  · apply flush_sound hS hI acts hacc hfin
    simp only [runOp, mgrStep, hacc, hfin, flush_eq]
    rfl
  have hfin' : S.allDone (S.step m.sim acts) = false := by simpa using hfin
  have hdsR : ∀ a, a ∈ m.doneSet ↔ a ∈ g.R := by
    intro a; rw [hI.ds a]; simp
  obtain ⟨s1, hs1⟩ : ∃ s1, s1 = S.step m.sim acts := ⟨_, rfl⟩
  rw [← hs1] at hfin'
  obtain ⟨hn0, hnext⟩ := hW.dyn rfl
  have hna : ¬ ∀ b ∈ S.agents, b ∈ m.doneSet := hI.live (by simp)
  obtain ⟨pre, post, hnom, hrep, hds, hT, hF⟩ :=
    dynLoop_spec hS (S.next s1) s1 m.doneSet {} (hnext s1).1 hna
  obtain ⟨res, hres⟩ : ∃ res, res = dynLoop S (S.next s1) s1 m.doneSet {} := ⟨_, rfl⟩
  rw [← hres] at hrep hds hT hF
  let reps := pre.filter (fun a => decide (a ∉ m.doneSet))
  have hacc' : res.acc = (reportAll S s1 {} reps).1 := congrArg Prod.fst hrep
  have hsim' : res.sim = (reportAll S s1 {} reps).2 := congrArg Prod.snd hrep
  have hprend : pre.Nodup := (hnom ▸ (hnext s1).1).sublist (List.sublist_append_left pre post)
  have hrepsnd : reps.Nodup := hprend.sublist List.filter_sublist
  let out : Out ω ι := mkOut res.acc res.allDone
  let m' : MState σ := { m with sim := res.sim, doneSet := res.ds }
  have hE : runOp S .dynamic m (.step acts) =
      (⟨.step acts, .stepOk out, some acts, S.agents.map (S.pending s1), ghostOf S res.sim⟩, m') := by
    have hM : mgrStep S .dynamic m acts = .ok (out, acts, m') := by
      simp only [mgrStep, hacc, Bool.false_eq_true, ↓reduceIte, ← hs1, hfin', ← hres]
      rfl
    simp only [runOp, hM, hs1]
    rfl
  have hR : Reported S s1 reps out res.sim := by
    have := Reported.of_reportAll hS s1 reps hrepsnd res.allDone
    rw [← hacc', ← hsim'] at this
    exact this
  have hreps : ∀ a ∈ reps, a ∉ m.doneSet := by
    intro a ha; simpa using (List.mem_filter.mp ha).2
  have hds' : ∀ x, x ∈ res.ds ↔ x ∈ m.doneSet ∨ (x ∈ reps ∧ S.done s1 x = true) := by
    intro x; rw [hds x]
    constructor
    · rintro (h | ⟨h1, h2⟩)
      · exact Or.inl h
      · by_cases hx : x ∈ m.doneSet
        · exact Or.inl hx
        · exact Or.inr ⟨List.mem_filter.mpr ⟨h1, by simpa using hx⟩, h2⟩
    · rintro (h | ⟨h1, h2⟩)
      · exact Or.inl h
      · exact Or.inr ⟨(List.mem_filter.mp h1).1, h2⟩
  have hnewly : newlyDone out.dones = reps.filter (fun a => S.done s1 a) := newlyDone_reported hR
  have hmemR : ∀ a, a ∈ g.R ++ newlyDone out.dones ↔ a ∈ res.ds := by
    intro a
    rw [hds' a, hnewly, List.mem_append, List.mem_filter, hdsR a]
  have had : out.allDone = (S.allDone s1 ||
      (participating .dynamic S.n S.learning).all (fun a => decide (a ∈ g.R ++ newlyDone out.dones))) := by
    show res.allDone = _
    rw [hfin', Bool.false_or]
    cases hAD : res.allDone with
    | true =>
      symm
      simp only [List.all_eq_true, decide_eq_true_eq, participating, List.mem_range]
      intro a han
      exact (hmemR a).mpr (hT hAD a ((mem_agents S a).mpr han))
    | false =>
      symm
      rw [Bool.eq_false_iff]
      intro hall
      apply (hF hAD).2
      intro b hb
      simp only [List.all_eq_true, decide_eq_true_eq, participating, List.mem_range] at hall
      exact (hmemR b).mp (hall b ((mem_agents S b).mp hb))
  unfold OpSound
  rw [hE]
  refine ⟨?_, ?_, rfl, ?_⟩
  · have hrepspart : ∀ a ∈ reps, a ∈ participating .dynamic S.n S.learning := by
      intro a ha
      have : a ∈ S.next s1 := by rw [hnom]; exact List.mem_append_left _ (List.mem_filter.mp ha).1
      simpa [participating] using (hnext s1).2 a this
    refine c01Step_of_reported hI m.shuffle acts acts s1 res.sim reps out hacc ?_ hR hreps hrepspart ?_ had
    · cases m.shuffle <;> simp [permOf_refl]
    · intro hTo a ha haR
      have hT' : res.allDone = true := hTo
      have han : a < S.n := by simpa [participating] using ha
      rcases (hds' a).mp (hT hT' a ((mem_agents S a).mpr han)) with h1 | h1
      · exact absurd ((hdsR a).mp h1) haR
      · exact h1.1
  · simp only [c07Entry, Bool.or_eq_true, Bool.and_eq_true]
    cases hAD : res.allDone with
    | true => exact Or.inl (by simp [out, mkOut, hAD])
    | false =>
      right
      obtain ⟨hpost, _⟩ := hF hAD
      have hpre : pre = S.next s1 := by rw [hnom, hpost]; simp
      have hkeys : keys out.dones = reps := by rw [hR.dones, keys_map_pair]
      have hnomG : (ghostOf S res.sim).nominated = S.next s1 := by
        simp only [ghostOf]; exact hR.view.2.2
      have hfilt : (S.next s1).filter (fun a => decide (a ∉ g.R)) = reps := by
        simp only [reps, hpre]
        apply List.filter_congr
        intro a _
        simp [hdsR a]
      refine ⟨?_, ?_⟩
      · rw [hkeys, hnomG, hfilt]; exact sameSet_refl _
      · by_cases hNL : nominatesLive g (ghostOf S res.sim) = true
        · left
          unfold nominatesLive at hNL
          rw [List.any_eq_true] at hNL
          obtain ⟨a, ha, hcond⟩ := hNL
          rw [hnomG] at ha
          have han : a < S.n := (hnext s1).2 a ha
          simp only [ghostOf, SimIface.agents, getD_map_range _ _ _ _ han, Bool.and_eq_true,
            decide_eq_true_eq, Bool.not_eq_true'] at hcond
          rw [hR.view.1 a] at hcond
          have harep : a ∈ reps := by
            rw [← hfilt]; exact List.mem_filter.mpr ⟨ha, by simpa using hcond.1⟩
          rw [List.any_eq_true]
          exact ⟨(a, S.done s1 a), by rw [hR.dones]; exact List.mem_map.mpr ⟨a, harep, rfl⟩,
            by simp [hcond.2]⟩
        · right; simp [hNL]
  · intro _ hov
    have hAD : res.allDone = false := by simpa [gNext, out, mkOut] using hov
    exact inv_of_reported hI hR _ rfl rfl rfl hds' (fun _ => (hF hAD).2) (by simp)

end Abmarl

namespace Abmarl
variable {σ α ω ι : Type}

theorem filter_notin_nonLearners (S : SimIface σ α ω ι) :
    S.agents.filter (fun a => decide (a ∉ S.nonLearners)) = S.learners := by
  unfold SimIface.learners
  apply List.filter_congr
  intro a ha
  have han := (mem_agents S a).mp ha
  simp [mem_nonLearners, han]

theorem reset_sound [DecidableEq α] {S : SimIface σ α ω ι} {k : MKind} (hW : WF S k)
    (m : MState σ) (g : GSt) : OpSound (α := α) S k m g .reset := by
  have hS := hW.lawful
  cases k with
  | allStep =>
    obtain ⟨h1, h2, h3⟩ := readObs_spec hS (S.agents.filter (fun a => decide (a ∉ S.nonLearners))) (S.reset m.sim)
    have hE : runOp (α := α) S .allStep m .reset =
        (⟨.reset, .resetOk (readObs S (S.reset m.sim) (S.agents.filter (fun a => decide (a ∉ S.nonLearners)))).1,
          none, S.agents.map (S.pending (S.reset m.sim)),
          ghostOf S (readObs S (S.reset m.sim) (S.agents.filter (fun a => decide (a ∉ S.nonLearners)))).2⟩,
         { m with sim := (readObs S (S.reset m.sim) (S.agents.filter (fun a => decide (a ∉ S.nonLearners)))).2,
                  doneSet := S.nonLearners, ptr := 0 }) := by
      simp only [runOp, mgrReset]
    unfold OpSound
    rw [hE]
    rw [filter_notin_nonLearners] at h1 ⊢
    refine ⟨?_, ?_, rfl, ?_⟩
    · simp only [c01Entry, h1, Bool.and_eq_true, decide_eq_true_eq, List.all_eq_true]
      exact ⟨nodup_learners S, fun a ha => ((mem_learners S a).mp ha).1⟩
    · simp only [c07Entry, h1, Bool.and_eq_true, Bool.or_eq_true]
      refine ⟨sameSet_refl _, ?_⟩
      cases hl : S.learners with
      | nil => right; simp [show (List.range S.n).filter S.learning = [] from hl]
      | cons a r => left; left; simp
    · intro _ _
      simp only [gNext]
      refine ⟨?_, by simp [ghostOf], by simp, by simp⟩
      intro a; simp
  | turnBased =>
    have hne := hW.turn rfl
    obtain ⟨a, rest, hL⟩ : ∃ a rest, S.learners = a :: rest := by
      cases hl : S.learners with
      | nil => exact absurd hl hne
      | cons a r => exact ⟨a, r, rfl⟩
    have hE : runOp (α := α) S .turnBased m .reset =
        (⟨.reset, .resetOk [(a, (S.obs (S.reset m.sim) a).1)], none, S.agents.map (S.pending (S.reset m.sim)),
          ghostOf S (S.obs (S.reset m.sim) a).2⟩,
         { m with sim := (S.obs (S.reset m.sim) a).2, doneSet := S.nonLearners,
                  ptr := 1 % S.learners.length }) := by
      simp only [runOp, mgrReset, hL]
    unfold OpSound
    rw [hE]
    have haL : a ∈ S.learners := by rw [hL]; simp
    refine ⟨by simpa [c01Entry, keys] using ((mem_learners S a).mp haL).1, ?_, rfl, ?_⟩
    · have : (List.range S.n).filter S.learning = a :: rest := hL
      simp [c07Entry, keys, this]
    · intro _ _
      simp only [gNext]
      refine ⟨by intro x; simp, by simp [ghostOf], ?_, ?_⟩
      · intro _ hall
        have han := ((mem_learners S a).mp haL)
        have := (mem_nonLearners S a).mp (hall a ((mem_agents S a).mpr han.1))
        simp [han.2] at this
      · intro _
        refine ⟨a, by simp [keys], haL, ?_⟩
        simp [hL]
  | dynamic =>
    obtain ⟨hn0, hnext⟩ := hW.dyn rfl
    obtain ⟨h1, h2, h3⟩ := readObs_spec hS (S.next (S.reset m.sim)) (S.reset m.sim)
    have hE : runOp (α := α) S .dynamic m .reset =
        (⟨.reset, .resetOk (readObs S (S.reset m.sim) (S.next (S.reset m.sim))).1,
          none, S.agents.map (S.pending (S.reset m.sim)),
          ghostOf S (readObs S (S.reset m.sim) (S.next (S.reset m.sim))).2⟩,
         { m with sim := (readObs S (S.reset m.sim) (S.next (S.reset m.sim))).2, doneSet := [], ptr := 0 }) := by
      simp only [runOp, mgrReset]
    unfold OpSound
    rw [hE]
    have hnomG : (ghostOf S (readObs S (S.reset m.sim) (S.next (S.reset m.sim))).2).nominated
        = S.next (S.reset m.sim) := by simp only [ghostOf]; exact h2.2.2
    refine ⟨?_, ?_, rfl, ?_⟩
    · simp only [c01Entry, h1, Bool.and_eq_true, decide_eq_true_eq, List.all_eq_true]
      exact ⟨(hnext _).1, (hnext _).2⟩
    · simp only [c07Entry, h1, hnomG, Bool.and_eq_true, Bool.or_eq_true]
      refine ⟨sameSet_refl _, ?_⟩
      cases hl : S.next (S.reset m.sim) with
      | nil => left; right; simp
      | cons a r => left; left; simp
    · intro _ _
      simp only [gNext]
      refine ⟨by intro x; simp, by simp [ghostOf], ?_, by simp⟩
      intro _ hall
      have := hall 0 ((mem_agents S 0).mpr hn0)
      simp at this

/-- every call of a history is sound, hence so is the whole trace -/
theorem runOps_sound [DecidableEq α] {S : SimIface σ α ω ι} {k : MKind} (hW : WF S k) :
    ∀ (ops : List (Op α)) (m : MState σ) (g : GSt),
      (g.started = true → g.over = false → Inv S k m g) →
      specLoop (c01Entry k S.n S.learning m.shuffle) g (runOps S k m ops) = true ∧
      specLoop (c07Entry k S.n S.learning) g (runOps S k m ops) = true := by
  intro ops
  induction ops with
  | nil => intro m g _; simp [runOps, specLoop]
  | cons op ops ih =>
    intro m g hI
    have hop : (runOp S k m op).1.op = op := by
      cases op with
      | reset => simp only [runOp]; split <;> rfl
      | step acts => simp only [runOp]; split <;> rfl
    cases op with
    | reset =>
      obtain ⟨h1, h7, hsh, hinv⟩ := reset_sound (α := α) hW m g
      obtain ⟨i1, i7⟩ := ih (runOp S k m .reset).2 (gNext g (runOp S k m .reset).1) hinv
      rw [hsh] at i1
      simp only [runOps, specLoop, hop]
      exact ⟨by rw [h1, i1]; rfl, by rw [h7, i7]; rfl⟩
    | step acts =>
      simp only [runOps, specLoop, hop]
      by_cases hprot : (!g.started || g.over) = true
      · simp [hprot]
      · have hst : g.started = true := by
          cases hs : g.started <;> simp [hs] at hprot ⊢
        have hov : g.over = false := by
          cases ho : g.over <;> simp [ho, hst] at hprot ⊢
        have hInv := hI hst hov
        have hsound : OpSound S k m g (.step acts) := by
          cases k with
          | allStep => exact allStep_step_sound hW hInv hst acts
          | turnBased => exact turn_step_sound hW hInv hst acts
          | dynamic => exact dyn_step_sound hW hInv hst acts
        obtain ⟨h1, h7, hsh, hinv⟩ := hsound
        obtain ⟨i1, i7⟩ := ih (runOp S k m (.step acts)).2 (gNext g (runOp S k m (.step acts)).1) hinv
        rw [hsh] at i1
        simp only [hprot]
        exact ⟨by rw [h1, i1]; rfl, by rw [h7, i7]; rfl⟩

end Abmarl

namespace Abmarl
variable {σ α ω ι : Type}

/-- every manager call made under the caller protocol is sound -/
theorem op_sound [DecidableEq α] {S : SimIface σ α ω ι} {k : MKind} (hW : WF S k)
    (m : MState σ) (g : GSt) (op : Op α)
    (hI : g.started = true → g.over = false → Inv S k m g)
    (hop : ∀ acts, op = .step acts → g.started = true ∧ g.over = false) :
    OpSound S k m g op := by
  cases op with
  | reset => exact reset_sound hW m g
  | step acts =>
    obtain ⟨hst, hov⟩ := hop acts rfl
    have hInv := hI hst hov
    cases k with
    | allStep => exact allStep_step_sound hW hInv hst acts
    | turnBased => exact turn_step_sound hW hInv hst acts
    | dynamic => exact dyn_step_sound hW hInv hst acts

end Abmarl

namespace Abmarl
variable {σ α ω ι : Type}

theorem runOp_op (S : SimIface σ α ω ι) (k : MKind) (m : MState σ) (op : Op α) :
    (runOp S k m op).1.op = op := by
  cases op with
  | reset => simp only [runOp]; split <;> rfl
  | step acts => simp only [runOp]; split <;> rfl

/-- what `turnExpect` pins down -/
theorem turnExpect_shape {learners : List Aid} {g : GSt} {simDone : List Bool} {d : List (Aid × Bool)}
    (h : turnExpect learners g simDone = some d) :
    ∃ pre live post, rotAfter learners g.holder = pre ++ live :: post ∧
      (∀ b ∈ pre, b ∈ g.R ∨ simDone.getD b false = true) ∧
      live ∉ g.R ∧ simDone.getD live false = false ∧
      d = ((pre.filter (fun a => decide (a ∉ g.R))).map fun a => (a, true)) ++ [(live, false)] := by
  unfold turnExpect at h
  simp only [] at h
  split at h
  · cases h
  · rename_i live post hdw
    simp only [Option.some.injEq] at h
    refine ⟨(rotAfter learners g.holder).takeWhile (fun a => decide (a ∈ g.R) || simDone.getD a false),
      live, post, ?_, ?_, ?_, ?_, h.symm⟩
    · rw [← hdw, List.takeWhile_append_dropWhile]
    · intro b hb
      have hall := List.all_takeWhile (l := rotAfter learners g.holder)
        (p := fun a => decide (a ∈ g.R) || simDone.getD a false)
      have := List.all_eq_true.mp hall b hb
      simpa using this
    · have := List.head_dropWhile_not (fun a => decide (a ∈ g.R) || simDone.getD a false)
        (l := rotAfter learners g.holder) (by rw [hdw]; simp)
      simp only [hdw, List.head_cons, Bool.or_eq_false_iff, decide_eq_false_iff_not] at this
      exact this.1
    · have := List.head_dropWhile_not (fun a => decide (a ∈ g.R) || simDone.getD a false)
        (l := rotAfter learners g.holder) (by rw [hdw]; simp)
      simp only [hdw, List.head_cons, Bool.or_eq_false_iff, decide_eq_false_iff_not] at this
      exact this.2


theorem lookup_of_mem_nodup {β : Type} (l : List (Aid × β)) (hnd : (keys l).Nodup) (a : Aid) (v : β)
    (h : (a, v) ∈ l) : l.lookup a = some v := by
  induction l with
  | nil => cases h
  | cons p ps ih =>
    have hnd0 : (p.1 :: keys ps).Nodup := hnd
    have hnd' := List.nodup_cons.mp hnd0
    rcases List.mem_cons.mp h with h | h
    · subst h; simp [List.lookup]
    · have hne : a ≠ p.1 := by
        intro e; apply hnd'.1; rw [← e]
        exact List.mem_map.mpr ⟨(a, v), h, rfl⟩
      have : (a == p.1) = false := by simpa using hne
      simp only [List.lookup, this]
      exact ih hnd'.2 h

end Abmarl

namespace Abmarl
section unpack
variable {α ω ι : Type} [DecidableEq α] {k : MKind} {n : Nat} {learning : Aid → Bool} {sh : Bool} {g : GSt}
  {acts : List (Aid × α)} {e : Entry α ω ι} {o : Out ω ι}

/-- everything `c01Step` says about an accepted step, as named Prop fields -/
structure C01StepOK (k : MKind) (n : Nat) (learning : Aid → Bool) (sh : Bool) (g : GSt)
    (acts : List (Aid × α)) (e : Entry α ω ι) (o : Out ω ι) : Prop where
  notBlocked : (acts.any fun p => decide (p.1 ∈ g.R)) = false
  keysR : keys o.rewards = keys o.obs
  keysD : keys o.dones = keys o.obs
  keysI : keys o.infos = keys o.obs
  nodup : (keys o.obs).Nodup
  part : ∀ a ∈ keys o.obs, a ∈ participating k n learning
  final : o.allDone = true → ∀ a ∈ participating k n learning, a ∈ g.R ∨ a ∈ keys o.obs
  notR : ∀ a ∈ keys o.obs, a ∉ g.R
  args : (match e.simArgs with
          | none => false
          | some args => if sh then permOf args acts else decide (args = acts)) = true
  allDone : o.allDone = (e.ghost.simAllDone ||
      (participating k n learning).all (fun a => decide (a ∈ g.R ++ newlyDone o.dones)))
  ledger : ledgerOk n o.rewards e.accrued e.ghost.pending = true

theorem c01Step_unpack (h : c01Step k n learning sh g acts e = true) (ho : e.res = .stepOk o) :
    C01StepOK k n learning sh g acts e o := by
  simp only [c01Step, ho, Bool.and_eq_true, beq_iff_eq, decide_eq_true_eq, List.all_eq_true,
    Bool.not_eq_true'] at h
  obtain ⟨⟨⟨⟨⟨⟨⟨⟨⟨⟨h1, h2⟩, h3⟩, h4⟩, h5⟩, h6⟩, hf⟩, h7⟩, h8⟩, h9⟩, h10⟩ := h
  refine ⟨h1, h2, h3, h4, h5, h6, ?_, h7, h8, h9, h10⟩
  intro hAD a ha
  rw [hAD] at hf
  simp only [Bool.not_true, Bool.false_or, List.all_eq_true, Bool.or_eq_true, decide_eq_true_eq] at hf
  exact hf a ha


theorem participating_lt {k : MKind} {n : Nat} {learning : Aid → Bool} {a : Aid}
    (h : a ∈ participating k n learning) : a < n := by
  cases k <;> simp [participating] at h <;> first | exact h | exact h.1

theorem C01StepOK.lt (u : C01StepOK k n learning sh g acts e o) : ∀ a ∈ keys o.obs, a < n :=
  fun a ha => participating_lt (u.part a ha)

/-- an error outcome of a step is only possible for a blocked action -/
theorem c01Step_err_blocked {er : Err} (h : c01Step k n learning sh g acts e = true)
    (hr : e.res = .err er) : ∃ p ∈ acts, p.1 ∈ g.R ∨ (k ≠ .dynamic ∧ learning p.1 = false) := by
  simp only [c01Step, hr, Bool.and_eq_true, decide_eq_true_eq, Option.isNone_iff_eq_none, beq_iff_eq,
    List.any_eq_true, Bool.or_eq_true, bne_iff_ne, ne_eq, Bool.not_eq_true'] at h
  obtain ⟨⟨⟨⟨_, p, hp, hpp⟩, _⟩, _⟩, _⟩ := h
  exact ⟨p, hp, hpp⟩

end unpack
end Abmarl
