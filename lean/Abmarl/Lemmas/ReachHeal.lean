import Abmarl.Lemmas.ReachObs
import Abmarl.Lemmas.ExamplesNoRaise
/-!
# The attack actors RETURN for an in-space action in a `WInvWeak` world

`attackOK_all` (Props/C11.lean) is stated for `WInv` worlds.  The worlds of `ReachTheTargetSim` are only `WInvWeak`
once a runner was taken off the grid by hand (inactive, health still positive).  Transport through `RT.heal`
(Lemmas/ReachObs.lean: the world with the health of every INACTIVE agent set to 0; it satisfies `WInv`):

* `_determine_attack` of all four actors reads positions, activity flags, encodings, cells and the static configuration —
  never anybody's health: `determineAttack_heal` (equality of the results, tape included);
* the ammunition filter reads and writes the attacker's ammunition: it commutes with `heal` (`ammoFilter_heal`);
* a pass of the health loop skips an inactive victim and reads the health of an ACTIVE victim only — which `heal` leaves
  alone —, and a victim that dies ends with health exactly 0: it commutes with `heal` (`hitStep_heal`).

So `processAttack cfg (heal w) = (processAttack cfg w).map (… heal …)` for EVERY world, attacker, action, tape
(`processAttack_heal`): the call on `w` returns iff the call on `heal w` does, with the same status and the same list
of victims.  `processAttack_ok_weak` is the consequence this class needs.
-/
namespace Abmarl
namespace RT
open World

theorem heal_ammo (w : World) (b : Aid) : ((heal w).stOf b).ammo = (w.stOf b).ammo := by
  rw [heal_stOf, healSt_ammo]

theorem healSt_of_active {s : AgentSt} (h : s.active = true) : healSt s = s := by
  unfold healSt; rw [if_pos h]

theorem heal_stOf_active {w : World} {b : Aid} (h : (w.stOf b).active = true) : (heal w).stOf b = w.stOf b := by
  rw [heal_stOf, healSt_of_active h]

theorem heal_cfgOf (w : World) (b : Aid) : (heal w).cfgOf b = w.cfgOf b := rfl
theorem heal_encOf (w : World) (b : Aid) : (heal w).encOf b = w.encOf b := rfl
theorem heal_n (w : World) : (heal w).n = w.n := rfl

theorem heal_setSt (w : World) (a : Aid) (s : AgentSt) : heal (w.setSt a s) = (heal w).setSt a (healSt s) := by
  simp only [heal, setSt, List.map_set]

/-! ## `_determine_attack` does not read health -/

theorem attackBlockers_heal (w : World) (a : Aid) : attackBlockers (heal w) a = attackBlockers w a := by
  unfold attackBlockers
  simp only [heal_pos, heal_active]
  rfl

theorem localCell_heal (w : World) (a : Aid) (R i j : Nat) : localCell (heal w) a R i j = localCell w a R i j := by
  unfold localCell
  rw [heal_pos]
  rfl

theorem cellCands_heal (w : World) (a : Aid) (R : Nat) (m : List (List Bool)) (i j : Nat) :
    cellCands (heal w) a R m i j = cellCands w a R m i j := by
  unfold cellCands
  rw [localCell_heal]

theorem windowCands_heal (w : World) (a : Aid) (R : Nat) (m : List (List Bool)) :
    windowCands (heal w) a R m = windowCands w a R m := by
  unfold windowCands
  simp only [cellCands_heal]

theorem basicCriteria_heal (cfg : AttackCfg) (w : World) (a b : Aid) (t : Tape) :
    basicCriteria cfg (heal w) a b t = basicCriteria cfg w a b t := by
  unfold basicCriteria
  rw [heal_active]
  rfl

theorem scanCands_heal (cfg : AttackCfg) (w : World) (a : Aid) (l : List Aid) :
    ∀ t, scanCands cfg (heal w) a l t = scanCands cfg w a l t := by
  induction l with
  | nil => intro t; rfl
  | cons b bs ih =>
    intro t
    simp only [scanCands, basicCriteria_heal, ih]

theorem encLoop_heal (w : World) (stacked : Bool) (S : List Aid) (l : List (Int × Nat)) :
    ∀ t, encLoop (heal w) stacked S l t = encLoop w stacked S l t := by
  induction l with
  | nil => intro t; rfl
  | cons p rest ih =>
    intro t
    obtain ⟨e, k⟩ := p
    simp only [encLoop, heal_encOf, ih]

theorem selLoop_heal (cfg : AttackCfg) (w : World) (a : Aid) (R : Nat) (m : List (List Bool)) (act : List Nat)
    (cs : List (Nat × Nat)) : ∀ t, selLoop cfg (heal w) a R m act cs t = selLoop cfg w a R m act cs t := by
  induction cs with
  | nil => intro t; rfl
  | cons c rest ih =>
    intro t
    obtain ⟨i, j⟩ := c
    simp only [selLoop, scanCands_heal, cellCands_heal, ih]

theorem resLoop_heal (cfg : AttackCfg) (w : World) (a : Aid) (R : Nat) (m : List (List Bool)) (l : List Nat) :
    ∀ acc t, resLoop cfg (heal w) a R m l acc t = resLoop cfg w a R m l acc t := by
  induction l with
  | nil => intro acc t; rfl
  | cons k rest ih =>
    intro acc t
    simp only [resLoop, scanCands_heal, cellCands_heal, ih]

theorem determineBinary_heal (cfg : AttackCfg) (w : World) (a : Aid) (k : Nat) (t : Tape) :
    determineBinary cfg (heal w) a k t = determineBinary cfg w a k t := by
  unfold determineBinary
  simp only [heal_cfgOf, attackBlockers_heal, windowCands_heal, scanCands_heal]

theorem determineEncoding_heal (cfg : AttackCfg) (w : World) (a : Aid) (l : List (Int × Nat)) (t : Tape) :
    determineEncoding cfg (heal w) a l t = determineEncoding cfg w a l t := by
  unfold determineEncoding
  simp only [heal_cfgOf, heal_encOf, attackBlockers_heal, windowCands_heal, scanCands_heal, encLoop_heal]

theorem determineSelective_heal (cfg : AttackCfg) (w : World) (a : Aid) (l : List Nat) (t : Tape) :
    determineSelective cfg (heal w) a l t = determineSelective cfg w a l t := by
  unfold determineSelective
  simp only [heal_cfgOf, attackBlockers_heal, selLoop_heal]

theorem determineRestricted_heal (cfg : AttackCfg) (w : World) (a : Aid) (l : List Nat) (t : Tape) :
    determineRestricted cfg (heal w) a l t = determineRestricted cfg w a l t := by
  unfold determineRestricted
  simp only [heal_cfgOf, attackBlockers_heal, resLoop_heal]

/-- **`_determine_attack` of every actor does not read anybody's health** -/
theorem determineAttack_heal (cfg : AttackCfg) (w : World) (a : Aid) (act : AttackAct) (t : Tape) :
    determineAttack cfg (heal w) a act t = determineAttack cfg w a act t := by
  unfold determineAttack
  cases cfg.kind <;> cases act <;>
    simp only [determineBinary_heal, determineEncoding_heal, determineSelective_heal, determineRestricted_heal]

/-! ## the ammunition filter and the health loop commute with `heal` -/

theorem healSt_withAmmo (s : AgentSt) (x : Int) : healSt { s with ammo := x } = { healSt s with ammo := x } := by
  unfold healSt
  split <;> rfl

theorem setAmmo_heal (w : World) (a : Aid) (v : Int) : (heal w).setAmmo a v = heal (w.setAmmo a v) := by
  unfold setAmmo
  rw [heal_setSt, healSt_withAmmo, heal_stOf]

theorem ammoFilter_heal (w : World) (a : Aid) (L : List Aid) (t : Tape) :
    ammoFilter (heal w) a L t = (ammoFilter w a L t).map fun r => (r.1, heal r.2.1, r.2.2) := by
  unfold ammoFilter
  simp only [heal_cfgOf, heal_ammo, setAmmo_heal]
  split
  · split
    · split <;> rfl
    · rfl
  · rfl

theorem remove_heal (w : World) (a : Aid) (p : Pos) : (heal w).remove a p = (w.remove a p).map heal := by
  unfold World.remove
  have hc : (heal w).cell p = w.cell p := rfl
  rw [hc]
  split <;> rfl

/-- the health setter on an ACTIVE agent commutes with `heal`: a health that is not positive is exactly 0 -/
theorem setHealth_heal {w : World} {v : Aid} (hact : (w.stOf v).active = true) (x : Rat) :
    (heal w).setHealth v x = heal (w.setHealth v x) := by
  unfold setHealth
  rw [heal_setSt, heal_stOf_active hact]
  obtain ⟨hn, hhn⟩ : ∃ hn : Rat, hn = min (max x 0) 1 := ⟨_, rfl⟩
  simp only [← hhn]
  have hb0 : 0 ≤ hn := by rw [hhn]; exact (clamp_bounds x).1
  unfold healSt
  by_cases hp : 0 < hn
  · simp [hp]
  · have h0 : hn = 0 := le_antisymm (not_lt.mp hp) hb0
    subst h0
    simp

/-- **one pass of the health loop commutes with `heal`** -/
theorem hitStep_heal (w : World) (s : Rat) (v : Aid) : (heal w).hitStep s v = (w.hitStep s v).map heal := by
  unfold hitStep
  rw [heal_active]
  by_cases hact : (w.stOf v).active = true
  · simp only [hact, Bool.not_true, Bool.false_eq_true, if_false]
    rw [heal_stOf_active hact, setHealth_heal hact, heal_active, heal_pos]
    split
    · exact remove_heal _ _ _
    · rfl
  · have hf : (w.stOf v).active = false := by simpa using hact
    simp only [hf, Bool.not_false, if_true]
    rfl

theorem applyHits_heal (s : Rat) (H : List Aid) :
    ∀ w : World, applyHits (heal w) s H = (applyHits w s H).map heal := by
  induction H with
  | nil => intro w; rfl
  | cons v vs ih =>
    intro w
    simp only [applyHits, hitStep_heal]
    cases h1 : w.hitStep s v with
    | error e => rfl
    | ok w1 =>
      simp only [Except.map]
      exact ih w1

/-- **`process_action` of every attack actor commutes with `heal`**: for every world (no invariant needed), attacker,
action and tape, the call on the world with the health of the inactive agents set to 0 returns iff the call on the world
itself does, with the same status, victims and tape, and the worlds they leave are related by `heal` again -/
theorem processAttack_heal (cfg : AttackCfg) (w : World) (a : Aid) (act : AttackAct) (t : Tape) :
    processAttack cfg (heal w) a act t =
      (processAttack cfg w a act t).map fun r => (r.1, heal r.2.1, r.2.2) := by
  unfold processAttack
  simp only [heal_cfgOf, determineAttack_heal]
  split
  · cases hdet : determineAttack cfg w a act t with
    | error e => rfl
    | ok d =>
      obtain ⟨⟨status, L⟩, t1⟩ := d
      simp only [ammoFilter_heal]
      cases hfil : w.ammoFilter a L t1 with
      | error e => rfl
      | ok f =>
        obtain ⟨H, w1, t2⟩ := f
        simp only [Except.map, applyHits_heal]
        cases happ : applyHits w1 (w.cfgOf a).strength H with
        | error e => rfl
        | ok w2 => rfl
  · rfl

theorem inSpace_heal (cfg : AttackCfg) (w : World) (a : Aid) (act : AttackAct) :
    inSpace cfg (heal w) a act = inSpace cfg w a act := rfl

/-- **the missing lemma of DESIGN.md 11.2**: `process_action` of every attack actor (in particular
`SelectiveAttackActor`, the one `ReachTheTargetSim` builds) RETURNS for an in-space action of an active agent of the
simulation in a world that satisfies only `WInvWeak`; every victim it lists is an agent of the simulation.  (An agent that
cannot attack needs no action space: the call returns `(False, [])`.) -/
theorem processAttack_ok_weak {cfg : AttackCfg} {w : World} {a : Aid} {act : AttackAct} (t : Tape)
    (hW : w.WInvWeak = true) (ha : a < w.n) (hact : (w.stOf a).active = true)
    (hsp : (w.cfgOf a).attacking = true → inSpace cfg w a act = true) :
    ∃ st H w' t', processAttack cfg w a act t = .ok ((st, H), w', t') ∧ ∀ v ∈ H, v < w.n := by
  by_cases hatt : (w.cfgOf a).attacking = true
  · have hpre : attackPre cfg (heal w) a act = true := by
      simp only [attackPre, Bool.and_eq_true, decide_eq_true_eq]
      exact ⟨⟨⟨heal_WInv hW, ha⟩, by rw [heal_active]; exact hact⟩, by rw [inSpace_heal]; exact hsp hatt⟩
    obtain ⟨st, H, w1, t', hp, hs, _⟩ := attackOK_all cfg (heal w) a act t hpre
    rw [processAttack_heal] at hp
    cases hq : processAttack cfg w a act t with
    | error e => rw [hq] at hp; cases hp
    | ok r =>
      obtain ⟨⟨st', H'⟩, w', t''⟩ := r
      rw [hq] at hp
      simp only [Except.map, Except.ok.injEq, Prod.mk.injEq] at hp
      refine ⟨st', H', w', t'', rfl, ?_⟩
      have hatt' : ((heal w).cfgOf a).attacking = true := hatt
      simp only [AttackSpec, hatt', if_true, Bool.and_eq_true, specWho, List.all_eq_true, decide_eq_true_eq] at hs
      intro v hv
      rw [hp.1.2] at hv
      exact (hs.1.1 v hv).1.1
  · exact ⟨false, [], w, t, by simp [processAttack, hatt], fun _ h => by cases h⟩

end RT
end Abmarl
