import Abmarl.Lemmas.AttacksSel
import Abmarl.Lemmas.MaskTable
import Abmarl.Lemmas.Grid
import Mathlib.Data.List.Nodup
/-!
# C11 lemmas, part 2: what the scan of the window meets

Under the consistency invariant `WInv` the candidates the actors read from the cell table of
the local grid are exactly the agents the specification calls eligible by their *positions*:

* `mem_cellCands` — `b` is met in window cell `(i, j)` iff it is a real, active agent standing
  at `position − R + (i, j)` and the cell is not hidden (C10: `Mask.cellAt_maskOf_spec`);
* `mem_cellCands_det` / `mem_windowCands_det` — after the deterministic tests of
  `_basic_criteria`: iff eligible (and in window row `i`, column `j`);
* `nodup_cellCands`, `nodup_windowCands` — nobody is met twice;
* `length_eq_countP`, `countP_eq_countP` — counting a duplicate-free list of eligible agents
  against the list of all eligible agents.
-/
namespace Abmarl
namespace World

/-! ## Facts read off the invariant -/

theorem winv_shape {w : World} (hI : w.WInv = true) :
    w.cells.length = w.rows * w.cols ∧ w.st.length = w.cfg.length := by
  simp only [WInv, Bool.and_eq_true, wShape, beq_iff_eq] at hI
  exact hI.1.1.1

theorem winv_cell {w : World} (hI : w.WInv = true) {i : Nat} (hi : i < w.rows * w.cols) :
    (w.cells.getD i []).Nodup ∧
    ∀ b ∈ w.cells.getD i [], b < w.n ∧ (w.stOf b).active = true ∧ w.inGrid (w.stOf b).pos = true ∧
      w.idx (w.stOf b).pos = i := by
  simp only [WInv, Bool.and_eq_true, List.all_eq_true] at hI
  have hc := hI.1.1.2 i (by simpa [allCells] using hi)
  simp only [wCell, Bool.and_eq_true, List.all_eq_true, beq_iff_eq, decide_eq_true_eq] at hc
  exact ⟨hc.1.1, fun b hb => ⟨(hc.1.2 b hb).1.1.1, (hc.1.2 b hb).1.1.2, (hc.1.2 b hb).1.2, (hc.1.2 b hb).2⟩⟩

theorem winv_agent {w : World} (hI : w.WInv = true) {b : Aid} (hb : b < w.n)
    (hact : (w.stOf b).active = true) :
    w.inGrid (w.stOf b).pos = true ∧ b ∈ w.cell (w.stOf b).pos := by
  simp only [WInv, Bool.and_eq_true, List.all_eq_true] at hI
  have hA := hI.1.2 b (by simpa [allAgents] using hb)
  simp only [wAgent, Bool.and_eq_true] at hA
  have hA1 := hA.1.1.1.1.1.1
  rw [hact] at hA1
  simpa using hA1

/-- under the invariant the cell table and the positions say the same -/
theorem mem_cell_iff_pos {w : World} (hI : w.WInv = true) (p : Pos) (b : Aid) :
    (w.inGrid p = true ∧ b ∈ w.cell p) ↔ (b < w.n ∧ (w.stOf b).active = true ∧ (w.stOf b).pos = p) := by
  constructor
  · rintro ⟨hp, hb⟩
    obtain ⟨_, hall⟩ := winv_cell hI (idx_lt hp)
    obtain ⟨h1, h2, h3, h4⟩ := hall b hb
    exact ⟨h1, h2, idx_inj h3 hp h4⟩
  · rintro ⟨h1, h2, h3⟩
    have := winv_agent hI h1 h2
    rw [h3] at this
    exact this

/-! ## The mask and the local grid -/

theorem attackBlockers_eq (w : World) (a : Aid) : w.attackBlockers a = w.specBlockers a := rfl

theorem maskAt_maskOf (R : Nat) (bs : List Mask.Blocker) (i j : Nat) (hi : i < 2*R+1) (hj : j < 2*R+1) :
    maskAt (Mask.maskOf R bs) i j = !Mask.hiddenBySpec R bs ((i : Int) - (R : Int)) ((j : Int) - (R : Int)) := by
  have h := Mask.cellAt_maskOf_spec R bs i j hi hj
  unfold Mask.cellAt at h
  unfold maskAt
  rw [h]

/-- the grid position of window cell `(i, j)` -/
def winPos (w : World) (a : Aid) (R i j : Nat) : Pos :=
  ((w.stOf a).pos.1 - (R : Int) + (i : Int), (w.stOf a).pos.2 - (R : Int) + (j : Int))

theorem localCell_eq (w : World) (a : Aid) (R i j : Nat) :
    w.localCell a R i j =
      if w.inGrid (w.winPos a R i j) then some (w.cell (w.winPos a R i j)) else none := rfl

theorem mem_cellCands {w : World} (hI : w.WInv = true) (a : Aid) (R i j : Nat)
    (hi : i < 2*R+1) (hj : j < 2*R+1) (b : Aid) :
    b ∈ w.cellCands a R (Mask.maskOf R (w.attackBlockers a)) i j ↔
      (b < w.n ∧ (w.stOf b).active = true ∧ (w.stOf b).pos = w.winPos a R i j) ∧
      Mask.hiddenBySpec R (w.specBlockers a) ((i : Int) - (R : Int)) ((j : Int) - (R : Int)) = false := by
  unfold cellCands
  rw [maskAt_maskOf R _ i j hi hj, attackBlockers_eq, ← mem_cell_iff_pos hI]
  rw [localCell_eq]
  cases hh : Mask.hiddenBySpec R (w.specBlockers a) ((i : Int) - (R : Int)) ((j : Int) - (R : Int)) with
  | true => simp
  | false =>
    simp only [Bool.not_false, if_true, and_true]
    by_cases hg : w.inGrid (w.winPos a R i j) = true
    · simp [hg]
    · simp [hg]

theorem nodup_cellCands {w : World} (hI : w.WInv = true) (a : Aid) (R : Nat) (m : List (List Bool))
    (i j : Nat) : (w.cellCands a R m i j).Nodup := by
  unfold cellCands
  rw [localCell_eq]
  split
  · by_cases hg : w.inGrid (w.winPos a R i j) = true
    · simp only [hg, if_true]
      exact (winv_cell hI (idx_lt hg)).1
    · simp only [hg]
      exact List.nodup_nil
  · exact List.nodup_nil

/-! ## The window cells -/

theorem mem_windowCells (R : Nat) (ij : Nat × Nat) :
    ij ∈ windowCells R ↔ ij.1 < 2*R+1 ∧ ij.2 < 2*R+1 := by
  obtain ⟨i, j⟩ := ij
  simp [windowCells]

theorem nodup_windowCells (R : Nat) : (windowCells R).Nodup := by
  unfold windowCells
  rw [List.nodup_flatMap]
  refine ⟨fun i _ => List.nodup_range.map (fun j j' h => by injection h), ?_⟩
  apply List.Nodup.pairwise_of_forall_ne List.nodup_range
  intro i _ i' _ hne
  rw [Function.onFun, List.disjoint_left]
  intro x hx hx'
  simp only [List.mem_map, List.mem_range] at hx hx'
  obtain ⟨j, _, rfl⟩ := hx
  obtain ⟨j', _, h⟩ := hx'
  injection h with h1 _
  exact hne h1.symm

theorem windowIdx_eq (R : Nat) : windowIdx (2*R+1) = windowCells R := rfl

theorem nodup_windowCands {w : World} (hI : w.WInv = true) (a : Aid) (R : Nat) :
    (w.windowCands a R (Mask.maskOf R (w.attackBlockers a))).Nodup := by
  unfold windowCands
  rw [List.nodup_flatMap]
  refine ⟨fun ij _ => nodup_cellCands hI a R _ ij.1 ij.2, ?_⟩
  apply List.Nodup.pairwise_of_forall_ne (nodup_windowCells R)
  intro ij hij ij' hij' hne
  rw [Function.onFun, List.disjoint_left]
  intro b hb hb'
  rw [mem_windowCells] at hij hij'
  rw [mem_cellCands hI a R _ _ hij.1 hij.2] at hb
  rw [mem_cellCands hI a R _ _ hij'.1 hij'.2] at hb'
  have h := hb.1.2.2.symm.trans hb'.1.2.2
  unfold winPos at h
  injection h with h1 h2
  apply hne
  apply Prod.ext <;> omega

/-! ## Candidates that pass the deterministic tests are the eligible agents -/

theorem offs_eq_iff (w : World) (a b : Aid) (R i j : Nat) :
    (w.stOf b).pos = w.winPos a R i j ↔
      (w.offs a b).1 = (i : Int) - (R : Int) ∧ (w.offs a b).2 = (j : Int) - (R : Int) := by
  unfold winPos offs
  constructor
  · intro h; rw [h]; constructor <;> simp <;> omega
  · rintro ⟨h1, h2⟩
    apply Prod.ext <;> simp only <;> omega

theorem mem_cellCands_det {w : World} (hI : w.WInv = true) (cfg : AttackCfg) (a : Aid) (i j : Nat)
    (hi : i < 2 * (w.cfgOf a).attackRange + 1) (hj : j < 2 * (w.cfgOf a).attackRange + 1) (b : Aid) :
    b ∈ (w.cellCands a (w.cfgOf a).attackRange
          (Mask.maskOf (w.cfgOf a).attackRange (w.attackBlockers a)) i j).filter (detOK cfg w a) ↔
      b < w.n ∧ eligible cfg w a b = true ∧ w.winRow a b = i ∧ w.winCol a b = j := by
  obtain ⟨R, hR⟩ : ∃ R, R = (w.cfgOf a).attackRange := ⟨_, rfl⟩
  rw [List.mem_filter, mem_cellCands hI a _ i j hi hj, offs_eq_iff, eligible_eq]
  unfold winRow winCol
  simp only [← hR] at hi hj ⊢
  simp only [Bool.and_eq_true, Bool.not_eq_true', Mask.inWin_iff]
  constructor
  · rintro ⟨⟨⟨h1, h2, h3, h4⟩, h5⟩, h6⟩
    rw [h3, h4]
    refine ⟨h1, ⟨⟨⟨h6, by omega⟩, by omega⟩, h5⟩, by omega, by omega⟩
  · rintro ⟨h1, ⟨⟨⟨h6, h7⟩, h8⟩, h5⟩, h9, h10⟩
    have hact : (w.stOf b).active = true := by
      simp only [detOK, Bool.and_eq_true] at h6; exact h6.1.2
    have e1 : (w.offs a b).1 = (i : Int) - (R : Int) := by omega
    have e2 : (w.offs a b).2 = (j : Int) - (R : Int) := by omega
    rw [e1, e2] at h5
    exact ⟨⟨⟨h1, hact, e1, e2⟩, h5⟩, h6⟩

theorem mem_windowCands_det {w : World} (hI : w.WInv = true) (cfg : AttackCfg) (a : Aid) (b : Aid) :
    b ∈ (w.windowCands a (w.cfgOf a).attackRange
          (Mask.maskOf (w.cfgOf a).attackRange (w.attackBlockers a))).filter (detOK cfg w a) ↔
      b < w.n ∧ eligible cfg w a b = true := by
  unfold windowCands
  rw [List.filter_flatMap, List.mem_flatMap]
  constructor
  · rintro ⟨ij, hij, hb⟩
    rw [mem_windowCells] at hij
    rw [mem_cellCands_det hI cfg a _ _ hij.1 hij.2] at hb
    exact ⟨hb.1, hb.2.1⟩
  · rintro ⟨h1, h2⟩
    have h2' := h2
    rw [eligible_eq] at h2'
    simp only [Bool.and_eq_true, Mask.inWin_iff] at h2'
    have hr : w.winRow a b < 2 * (w.cfgOf a).attackRange + 1 := by unfold winRow; omega
    have hc : w.winCol a b < 2 * (w.cfgOf a).attackRange + 1 := by unfold winCol; omega
    refine ⟨(w.winRow a b, w.winCol a b), (mem_windowCells _ _).mpr ⟨hr, hc⟩, ?_⟩
    rw [mem_cellCands_det hI cfg a _ _ hr hc]
    exact ⟨h1, h2, rfl, rfl⟩

/-! ## Counting -/

theorem nodup_eligList (cfg : AttackCfg) (w : World) (a : Aid) : (eligList cfg w a).Nodup :=
  List.nodup_range.filter _

theorem mem_eligList (cfg : AttackCfg) (w : World) (a b : Aid) :
    b ∈ eligList cfg w a ↔ b < w.n ∧ eligible cfg w a b = true := by
  simp [eligList, allAgents]

/-- a duplicate-free list holding exactly the eligible agents with property `p`, counted by `q` -/
theorem countP_eq_countP {cfg : AttackCfg} {w : World} {a : Aid} {C : List Aid} (p q : Aid → Bool)
    (hC : C.Nodup) (hmem : ∀ b, b ∈ C ↔ b < w.n ∧ eligible cfg w a b = true ∧ p b = true) :
    C.countP q = (eligList cfg w a).countP (fun b => p b && q b) := by
  have hperm : C.Perm ((eligList cfg w a).filter p) := by
    rw [List.perm_ext_iff_of_nodup hC ((nodup_eligList cfg w a).filter _)]
    intro b
    rw [hmem, List.mem_filter, mem_eligList]
    tauto
  rw [hperm.countP_eq, List.countP_filter]
  congr 1
  funext b
  rw [Bool.and_comm]

theorem length_eq_countP {cfg : AttackCfg} {w : World} {a : Aid} {C : List Aid} (p : Aid → Bool)
    (hC : C.Nodup) (hmem : ∀ b, b ∈ C ↔ b < w.n ∧ eligible cfg w a b = true ∧ p b = true) :
    C.length = (eligList cfg w a).countP p := by
  have := countP_eq_countP p (fun _ => true) hC hmem
  simpa using this

end World
end Abmarl
