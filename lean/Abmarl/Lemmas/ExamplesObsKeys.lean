import Abmarl.Lemmas.ExamplesPos
import Abmarl.Lemmas.ExamplesObs
/-!
# The observation dict of a packaged example has exactly the declared keys
-/
namespace Abmarl
open World
namespace Ex

theorem keys_dictSet (d : List (String × Observers.Obs)) (k : String) (v : Observers.Obs) :
    (dictSet d k v).map (·.1) = if k ∈ d.map (·.1) then d.map (·.1) else d.map (·.1) ++ [k] := by
  induction d with
  | nil => simp [dictSet]
  | cons p rest ih =>
    obtain ⟨k', v'⟩ := p
    simp only [dictSet]
    by_cases hk : k' = k
    · simp [hk]
    · simp only [hk, if_false, List.map_cons, ih, List.mem_cons]
      have : ¬ k = k' := fun e => hk e.symm
      by_cases hm : k ∈ rest.map (·.1)
      · simp [hm]
      · simp [hm, this]

theorem filter_filter_ne (l : List String) (x : String) (ks : List String) (hx : x ∈ ks) :
    (l.filter (· != x)).filter (fun k => decide (k ∉ ks)) = l.filter (fun k => decide (k ∉ ks)) := by
  rw [List.filter_filter]
  apply List.filter_congr
  intro k _
  by_cases hk : k = x
  · subst hk; simp [hx]
  · simp [hk]

theorem keys_foldl_dictSet (items : List (String × Observers.Obs)) :
    ∀ d : List (String × Observers.Obs),
      (items.foldl (fun d p => dictSet d p.1 p.2) d).map (·.1) =
        d.map (·.1) ++ (dedup (items.map (·.1))).filter (fun k => decide (k ∉ d.map (·.1))) := by
  induction items with
  | nil => intro d; simp [dedup]
  | cons p rest ih =>
    intro d
    simp only [List.foldl_cons, List.map_cons, dedup]
    rw [ih, keys_dictSet]
    by_cases hm : p.1 ∈ d.map (·.1)
    · simp only [hm, if_true, List.filter_cons, decide_not, decide_true, Bool.not_true, Bool.false_eq_true, if_false]
      congr 1
      have := filter_filter_ne (dedup (rest.map (·.1))) p.1 (d.map (·.1)) hm
      simpa [decide_not] using this.symm
    · simp only [hm, if_false, List.append_assoc, List.filter_cons, decide_not, decide_false, Bool.not_false, if_true,
        List.cons_append, List.nil_append]
      congr 2
      rw [List.filter_filter]
      apply List.filter_congr
      intro k _
      by_cases hk : k = p.1
      · subst hk; simp
      · have h1 : (k != p.1) = true := by simpa using hk
        rw [h1]
        simp [List.mem_append, hk]

/-- the keys of the merged observation: first occurrences, in order -/
theorem keys_mergeObs (outs : List (List (String × Observers.Obs))) :
    (mergeObs outs).map (·.1) = dedup (outs.flatten.map (·.1)) := by
  unfold mergeObs dictOf
  rw [keys_foldl_dictSet]
  simp

/-- an observer answers `{}` exactly for the agents it does not support -/
theorem getObs_unsupported_iff {w : World} {a : Aid} {k : Observers.Kind} {t t' : Tape} {o : Observers.Obs}
    (h : Observers.getObs w a k t = .ok (o, t')) : o = .unsupported ↔ supports w a k = false := by
  cases k with
  | absolute =>
    simp only [Observers.getObs, Observers.getObsAbsolute] at h
    simp only [supports]
    split at h
    · rename_i hs
      simp only [Except.ok.injEq, Prod.mk.injEq] at h
      simp only [Bool.not_eq_true'] at hs
      simp [← h.1, hs]
    · rename_i hs
      simp only [Bool.not_eq_true', Bool.not_eq_false] at hs
      split at h
      · cases h
      · split at h
        · cases h
        · simp only [Except.ok.injEq, Prod.mk.injEq] at h
          simp [← h.1, hs]
  | centered os =>
    simp only [Observers.getObs, Observers.getObsCentered] at h
    simp only [supports]
    split at h
    · rename_i hs
      simp only [Except.ok.injEq, Prod.mk.injEq] at h
      simp only [Bool.not_eq_true'] at hs
      simp [← h.1, hs]
    · rename_i hs
      simp only [Bool.not_eq_true', Bool.not_eq_false] at hs
      split at h
      · cases h
      · split at h
        · cases h
        · simp only [Except.ok.injEq, Prod.mk.injEq] at h
          simp [← h.1, hs]
  | stacked =>
    simp only [Observers.getObs, Observers.getObsStacked] at h
    simp only [supports]
    split at h
    · rename_i hs
      simp only [Except.ok.injEq, Prod.mk.injEq] at h
      simp only [Bool.not_eq_true'] at hs
      simp [← h.1, hs]
    · rename_i hs
      simp only [Bool.not_eq_true', Bool.not_eq_false] at hs
      split at h
      · cases h
      · split at h
        · cases h
        · simp only [Except.ok.injEq, Prod.mk.injEq] at h
          simp [← h.1, hs]
  | position =>
    simp only [Observers.getObs, Observers.getObsPosition] at h
    simp only [supports]
    split at h
    · rename_i hs
      simp only [Except.ok.injEq, Prod.mk.injEq] at h
      simp only [Bool.not_eq_true'] at hs
      simp [← h.1, hs]
    · rename_i hs
      simp only [Bool.not_eq_true', Bool.not_eq_false] at hs
      simp only [Except.ok.injEq, Prod.mk.injEq] at h
      simp [← h.1, hs]
  | ammo =>
    simp only [Observers.getObs, Observers.getObsAmmo] at h
    simp only [supports]
    split at h
    · rename_i hs
      simp only [Except.ok.injEq, Prod.mk.injEq] at h
      simp only [Bool.not_eq_true'] at hs
      simp [← h.1, hs]
    · rename_i hs
      simp only [Bool.not_eq_true', Bool.not_eq_false] at hs
      simp only [Except.ok.injEq, Prod.mk.injEq] at h
      simp [← h.1, hs]

theorem itemsOf_keys (k : Observers.Kind) (o : Observers.Obs) :
    (itemsOf k o).map (·.1) = if o = .unsupported then [] else [keyOf k] := by
  cases o <;> simp [itemsOf]

/-- the keys the observers of the list return, in call order -/
theorem obsOuts_keys (w : World) (a : Aid) :
    ∀ (ks : List Observers.Kind) (t t' : Tape) (outs : List (List (String × Observers.Obs))),
      obsOuts w a ks t = .ok (outs, t') →
      outs.flatten.map (·.1) = (ks.filter (supports w a)).map keyOf ∧
      ∀ items ∈ outs, ∀ p ∈ items, p.2 ≠ .unsupported ∧ ∃ k ∈ ks, keyOf k = p.1 ∧ supports w a k = true := by
  intro ks
  induction ks with
  | nil =>
    intro t t' outs h
    simp only [obsOuts, Except.ok.injEq, Prod.mk.injEq] at h
    rw [← h.1]
    exact ⟨rfl, fun _ hi => by cases hi⟩
  | cons k ks ih =>
    intro t t' outs h
    simp only [obsOuts] at h
    split at h
    · cases h
    · rename_i o t1 hget
      split at h
      · cases h
      · rename_i rest t2 hrest
        simp only [Except.ok.injEq, Prod.mk.injEq] at h
        obtain ⟨ih1, ih2⟩ := ih t1 t2 rest hrest
        have hu := getObs_unsupported_iff hget
        rw [← h.1]
        constructor
        · simp only [List.flatten_cons, List.map_append, itemsOf_keys, ih1, List.filter_cons]
          by_cases hs : supports w a k = true
          · have : o ≠ .unsupported := fun e => by rw [hu.mp e] at hs; cases hs
            simp [hs, this]
          · have hs' : supports w a k = false := by simpa using hs
            simp [hs', hu.mpr hs']
        · intro items hi p hp
          rcases List.mem_cons.mp hi with hi | hi
          · subst hi
            have hpe := mem_itemsOf hp
            subst hpe
            have hne : o ≠ .unsupported := by
              intro e; subst e; simp [itemsOf] at hp
            refine ⟨hne, k, List.mem_cons_self, rfl, ?_⟩
            cases hs : supports w a k with
            | true => rfl
            | false => exact absurd (hu.mpr hs) hne
          · obtain ⟨h1, k', hk', h2, h3⟩ := ih2 items hi p hp
            exact ⟨h1, k', List.mem_cons_of_mem _ hk', h2, h3⟩

end Ex
end Abmarl
