import Abmarl.Spec.Pacman
import Abmarl.Lemmas.ExamplesHist
import Abmarl.Lemmas.ExamplesLawful
import Abmarl.Lemmas.ExamplesReset
/-!
# `PacmanSim` / `PacmanSimSimple`: the getters are frame-correct (`Lawful`), and what EVERY `step` keeps — returned or
raised, whatever the action dict and the configuration: the static part of the world and the legality of the vitals
(`VSame`: ammunition untouched, health unchanged or set to 0 with `active = False`, orientation unchanged or one of the
four directions).
-/
namespace Abmarl
namespace PM
open World Ex

/-! ## the getters -/

theorem obs_eq (cfg : Cfg) (n : Nat) (s : St) (a : Aid) :
    (toSimIface cfg n).obs s a =
      (((Ex.toSimIface cfg.toEx n).obs s.ex a).1, { s with ex := ((Ex.toSimIface cfg.toEx n).obs s.ex a).2 }) := by
  simp only [toSimIface, Ex.toSimIface, getObs]
  cases h : Ex.getObs cfg.toEx s.ex a with
  | error e => rfl
  | ok r => obtain ⟨o, e⟩ := r; rfl

theorem reward_eq (cfg : Cfg) (n : Nat) (s : St) (a : Aid) :
    (toSimIface cfg n).reward s a =
      (((Ex.toSimIface cfg.toEx n).reward s.ex a).1, { s with ex := ((Ex.toSimIface cfg.toEx n).reward s.ex a).2 }) := by
  simp only [toSimIface, Ex.toSimIface, getReward]
  cases h : Ex.getReward cfg.toEx s.ex a with
  | error e => rfl
  | ok r => obtain ⟨o, e⟩ := r; rfl

/-- what the done getters read -/
def doneOf (cfg : Cfg) (e : Ex.St) : Bool :=
  match e.rewards with
  | none => false
  | some _ => allDoneW cfg e.w

theorem done_eq (cfg : Cfg) (n : Nat) (s : St) (b : Aid) : (toSimIface cfg n).done s b = doneOf cfg s.ex := by
  simp only [toSimIface, getDone, getAllDone, doneOf]
  cases s.ex.rewards <;> rfl

theorem allDone_eq (cfg : Cfg) (n : Nat) (s : St) : (toSimIface cfg n).allDone s = doneOf cfg s.ex := by
  simp only [toSimIface, getAllDone, doneOf]
  cases s.ex.rewards <;> rfl

theorem doneOf_obs (cfg : Cfg) (n : Nat) (e : Ex.St) (a : Aid) :
    doneOf cfg ((Ex.toSimIface cfg.toEx n).obs e a).2 = doneOf cfg e := by
  simp only [Ex.toSimIface]
  cases h : Ex.getObs cfg.toEx e a with
  | error _ => rfl
  | ok r => obtain ⟨o, e'⟩ := r; obtain ⟨t', rfl⟩ := Ex.getObs_shape h; rfl

theorem doneOf_reward (cfg : Cfg) (n : Nat) (e : Ex.St) (a : Aid) :
    doneOf cfg ((Ex.toSimIface cfg.toEx n).reward e a).2 = doneOf cfg e := by
  simp only [Ex.toSimIface]
  cases h : Ex.getReward cfg.toEx e a with
  | error _ => rfl
  | ok r =>
    obtain ⟨x, e'⟩ := r
    obtain ⟨r0, hr0, _, rfl⟩ := Ex.getReward_shape h
    simp only [doneOf, hr0]

/-- **`Lawful`** for both classes -/
theorem pm_lawful (cfg : Cfg) (n : Nat) : Lawful (toSimIface cfg n) where
  obs_done := by intro s a b; rw [done_eq, done_eq, obs_eq]; exact doneOf_obs cfg n s.ex a
  obs_allDone := by intro s a; rw [allDone_eq, allDone_eq, obs_eq]; exact doneOf_obs cfg n s.ex a
  obs_next := by intros; rfl
  obs_pending := by
    intro s a b
    rw [obs_eq]
    exact (Ex.ex_lawful cfg.toEx n).obs_pending s.ex a b
  rew_done := by intro s a b; rw [done_eq, done_eq, reward_eq]; exact doneOf_reward cfg n s.ex a
  rew_allDone := by intro s a; rw [allDone_eq, allDone_eq, reward_eq]; exact doneOf_reward cfg n s.ex a
  rew_next := by intros; rfl
  rew_val := by
    intro s a
    rw [reward_eq]
    exact (Ex.ex_lawful cfg.toEx n).rew_val s.ex a
  rew_pending := by
    intro s a b
    rw [reward_eq]
    exact (Ex.ex_lawful cfg.toEx n).rew_pending s.ex a b

theorem pm_WF (cfg : Cfg) (n : Nat) (k : MKind) (hk : k ≠ .dynamic)
    (hl : k = .turnBased → ∃ a < n, cfg.isLearning a = true) : WF (toSimIface cfg n) k where
  lawful := pm_lawful cfg n
  turn := by
    intro hk'
    obtain ⟨a, ha, hla⟩ := hl hk'
    intro he
    have : a ∈ (toSimIface cfg n).learners := (mem_learners _ a).mpr ⟨ha, hla⟩
    rw [he] at this; cases this
  dyn := fun h => absurd h hk

/-! ## what every step keeps -/

/-- one agent's vitals before and after -/
def stRel (s s' : AgentSt) : Prop :=
  s'.ammo = s.ammo ∧ ((s'.health = s.health ∧ s'.active = s.active) ∨ (s'.health = 0 ∧ s'.active = false)) ∧
  (s'.orient = s.orient ∨ (1 ≤ s'.orient ∧ s'.orient ≤ 4))

theorem stRel.refl (s : AgentSt) : stRel s s := ⟨rfl, Or.inl ⟨rfl, rfl⟩, Or.inl rfl⟩

theorem stRel.trans {s s' s'' : AgentSt} (h : stRel s s') (h' : stRel s' s'') : stRel s s'' := by
  obtain ⟨a1, h1, o1⟩ := h
  obtain ⟨a2, h2, o2⟩ := h'
  refine ⟨a2.trans a1, ?_, ?_⟩
  · rcases h2 with ⟨e1, e2⟩ | h2
    · rcases h1 with ⟨f1, f2⟩ | h1
      · exact Or.inl ⟨e1.trans f1, e2.trans f2⟩
      · exact Or.inr ⟨e1.trans h1.1, e2.trans h1.2⟩
    · exact Or.inr h2
  · rcases o2 with e | o2
    · rcases o1 with f | o1
      · exact Or.inl (e.trans f)
      · exact Or.inr (by rw [e]; exact o1)
    · exact Or.inr o2

/-- **what every statement of `step` keeps**: the static part of the world and, agent by agent, `stRel` -/
structure VSame (w w' : World) : Prop where
  rows : w'.rows = w.rows
  cols : w'.cols = w.cols
  overlap : w'.overlap = w.overlap
  cfg : w'.cfg = w.cfg
  len : w'.st.length = w.st.length
  st : ∀ b, stRel (w.stOf b) (w'.stOf b)

theorem VSame.refl (w : World) : VSame w w := ⟨rfl, rfl, rfl, rfl, rfl, fun _ => stRel.refl _⟩

theorem VSame.trans {w w' w'' : World} (h : VSame w w') (h' : VSame w' w'') : VSame w w'' :=
  ⟨h'.rows.trans h.rows, h'.cols.trans h.cols, h'.overlap.trans h.overlap, h'.cfg.trans h.cfg, h'.len.trans h.len,
   fun b => (h.st b).trans (h'.st b)⟩

theorem VSame.sframe {w w' : World} (h : VSame w w') : SFrame w w' := ⟨h.rows, h.cols, h.overlap, h.cfg, h.len⟩

/-- a change of the cell table only -/
theorem vsame_cells (w : World) (c : List (List Aid)) : VSame w { w with cells := c } :=
  ⟨rfl, rfl, rfl, rfl, rfl, fun _ => stRel.refl _⟩

theorem stOf_setSt (w : World) (a b : Aid) (s : AgentSt) :
    (w.setSt a s).stOf b = if b = a ∧ a < w.st.length then s else w.stOf b := by
  simp only [setSt, stOf, List.getD_eq_getElem?_getD, List.getElem?_set]
  by_cases hab : a = b
  · subst hab
    by_cases hl : a < w.st.length
    · simp [hl]
    · simp [hl]
  · have : ¬ (b = a ∧ a < w.st.length) := fun h => hab h.1.symm
    simp [hab, this]

theorem vsame_setSt (w : World) (a : Aid) (s : AgentSt) (h : stRel (w.stOf a) s) : VSame w (w.setSt a s) := by
  refine ⟨rfl, rfl, rfl, rfl, by simp [setSt], ?_⟩
  intro b
  rw [stOf_setSt]
  split
  · rename_i hb; rw [hb.1]; exact h
  · exact stRel.refl _

theorem vsame_remove {w w' : World} {a : Aid} {p : Pos} (h : w.remove a p = .ok w') : VSame w w' := by
  unfold remove at h
  split at h
  · simp only [Except.ok.injEq] at h; subst h; exact vsame_cells w _
  · cases h

theorem vsame_removeG {w w' : World} {a : Aid} {p : Pos} (h : removeG w a p = .ok w') : VSame w w' := by
  unfold removeG at h
  split at h
  · exact vsame_remove h
  · cases h

theorem vsame_place (w : World) (a : Aid) (p : Pos) : VSame w (w.place a p).2 := by
  unfold place
  split
  · have h1 : VSame w (w.setSt a { w.stOf a with pos := p }) :=
      vsame_setSt w a _ ⟨rfl, Or.inl ⟨rfl, rfl⟩, Or.inl rfl⟩
    exact ⟨h1.rows, h1.cols, h1.overlap, h1.cfg, h1.len, h1.st⟩
  · exact VSame.refl w

theorem vsame_setHealth0 (w : World) (a : Aid) : VSame w (w.setHealth a 0) := by
  unfold setHealth
  apply vsame_setSt
  refine ⟨rfl, Or.inr ⟨?_, ?_⟩, Or.inl rfl⟩
  · show min (max (0 : Rat) 0) 1 = 0
    decide
  · show decide (0 < min (max (0 : Rat) 0) 1) = false
    decide

theorem vsame_moveBy {w w' : World} {a : Aid} {d : Pos} {b : Bool} (h : w.moveBy a d = .ok (b, w')) : VSame w w' := by
  unfold moveBy at h
  simp only at h
  split at h
  · split at h
    · simp only [Except.ok.injEq, Prod.mk.injEq] at h; rw [← h.2]; exact VSame.refl w
    · split at h
      · split at h
        · cases h
        · rename_i w1 hr
          simp only [Except.ok.injEq, Prod.mk.injEq] at h
          rw [← h.2]
          exact (vsame_remove hr).trans (vsame_place w1 a _)
      · simp only [Except.ok.injEq, Prod.mk.injEq] at h; rw [← h.2]; exact VSame.refl w
  · simp only [Except.ok.injEq, Prod.mk.injEq] at h; rw [← h.2]; exact VSame.refl w

theorem vsame_crossAct {w w' : World} {a : Aid} {x : Int} {r : Option Bool} (h : w.crossAct a x = .ok (r, w')) :
    VSame w w' := by
  unfold crossAct at h
  split at h
  · split at h
    · cases h
    · split at h
      · rename_i b w1 hm
        simp only [Except.ok.injEq, Prod.mk.injEq] at h
        rw [← h.2]; exact vsame_moveBy hm
      · cases h
  · simp only [Except.ok.injEq, Prod.mk.injEq] at h; rw [← h.2]; exact VSame.refl w

theorem crossTable_range {x : Int} {d : Pos} (h : crossTable x = some d) (h0 : x ≠ 0) : 1 ≤ x.toNat ∧ x.toNat ≤ 4 := by
  unfold crossTable at h
  split at h <;> first | (exact absurd rfl h0) | decide | cases h

theorem crossAct_some_true {w w' : World} {a : Aid} {x : Int} (h : w.crossAct a x = .ok (some true, w')) :
    ∃ d, crossTable x = some d := by
  unfold crossAct at h
  split at h
  · split at h
    · cases h
    · rename_i d hd; exact ⟨d, hd⟩
  · cases h

theorem vsame_driftAct {w w' : World} {a : Aid} {x : Int} {r : Option Bool} {l : Int}
    (h : w.driftAct a x = .ok (r, w', l)) : VSame w w' := by
  unfold driftAct at h
  simp only at h
  split at h
  · have hdrift : ∀ (w0 : World) (r' : Option Bool) (w'' : World) (l' : Int),
        (match w0.crossAct a ((w0.stOf a).orient : Int) with
         | .ok (b, w1) => Except.ok (b, w1, ((w0.stOf a).orient : Int))
         | .error e => .error e) = .ok (r', w'', l') → VSame w0 w'' := by
      intro w0 r' w'' l' hd
      split at hd
      · rename_i b w1 hc
        simp only [Except.ok.injEq, Prod.mk.injEq] at hd
        rw [← hd.2.1]; exact vsame_crossAct hc
      · cases hd
    by_cases hx0 : x ≠ 0
    · rw [if_pos hx0] at h
      cases hc : w.crossAct a x with
      | error e => rw [hc] at h; cases h
      | ok rw1 =>
        obtain ⟨r1, w1⟩ := rw1
        rw [hc] at h
        cases r1 with
        | none => exact (vsame_crossAct hc).trans (hdrift w1 r w' l h)
        | some b =>
          cases b with
          | false => exact (vsame_crossAct hc).trans (hdrift w1 r w' l h)
          | true =>
            simp only [Except.ok.injEq, Prod.mk.injEq] at h
            rw [← h.2.1]
            obtain ⟨d, hd⟩ := crossAct_some_true hc
            exact (vsame_crossAct hc).trans
              (vsame_setSt w1 a _ ⟨rfl, Or.inl ⟨rfl, rfl⟩, Or.inr (crossTable_range hd hx0)⟩)
    · rw [if_neg hx0] at h
      exact hdrift w r w' l h
  · simp only [Except.ok.injEq, Prod.mk.injEq] at h; rw [← h.2.1]; exact VSame.refl w

theorem vsame_teleTo (w : World) (a : Aid) (src dst : Pos) : VSame w (teleTo w a src dst).1 := by
  unfold teleTo
  split
  · exact VSame.refl w
  · rename_i w1 hr
    split
    · exact (vsame_removeG hr).trans (vsame_place w1 a dst)
    · exact vsame_removeG hr

theorem vsame_tele (cfg : Cfg) (w : World) (a : Aid) : VSame w (tele cfg w a).1 := by
  unfold tele
  split
  · exact vsame_teleTo w a _ _
  · split
    · exact vsame_teleTo w a _ _
    · exact VSame.refl w

/-! ### blocks of statements -/

/-- a block keeps `VSame` -/
def Keeps (f : PS → R) : Prop := ∀ p, VSame p.w (f p).1.w

theorem keeps_andThen {x : R} {f : PS → R} {w : World} (hx : VSame w x.1.w) (hf : Keeps f) :
    VSame w (andThen x f).1.w := by
  unfold andThen
  split
  · exact hx.trans (hf x.1)
  · exact hx

theorem keeps_loopR {β : Type} {f : PS → β → R} (hf : ∀ x, Keeps fun p => f p x) :
    ∀ (l : List β) (p : PS), VSame p.w (loopR f p l).1.w := by
  intro l
  induction l with
  | nil => intro p; exact VSame.refl _
  | cons x xs ih =>
    intro p
    unfold loopR
    have h1 := hf x p
    split
    · rename_i p' heq
      have : (f p x).1 = p' := by rw [heq]
      rw [this] at h1
      exact h1.trans (ih p')
    · exact h1

theorem keeps_reward (a : Aid) (v : Option Int) : Keeps fun p => reward p a v := by
  intro p
  dsimp only
  unfold reward
  split
  · exact VSame.refl _
  · split <;> exact VSame.refl _

theorem keeps_moveTele (cfg : Cfg) (a : Aid) (act : Int) (rew : Bool) : Keeps fun p => moveTele cfg p a act rew := by
  intro p
  dsimp only
  unfold moveTele
  split
  · exact VSame.refl _
  · rename_i res w1 l hd
    have h1 : VSame p.w w1 := vsame_driftAct hd
    apply keeps_andThen
    · split
      · exact h1.trans (keeps_reward a _ { p with w := w1 })
      · exact h1
    · intro p2
      exact vsame_tele cfg p2.w a

theorem keeps_biteBody (cfg : Cfg) (b : Aid) :
    Keeps fun p => andThen (reward p cfg.pacman cfg.scheme.die) fun p1 =>
      andThen (reward p1 b cfg.scheme.kill) fun p2 => ({ p2 with w := p2.w.setHealth cfg.pacman 0 }, Ctl.go) := by
  intro p
  apply keeps_andThen (keeps_reward _ _ p)
  intro p1
  apply keeps_andThen (keeps_reward _ _ p1)
  intro p2
  exact vsame_setHealth0 p2.w cfg.pacman

theorem keeps_eatBody (cfg : Cfg) (b : Aid) :
    Keeps fun p => andThen (reward p cfg.pacman cfg.scheme.eatFood) fun p1 =>
      match removeG p1.w b (p1.w.stOf cfg.pacman).pos with
      | .error e => (p1, Ctl.err e)
      | .ok w2 => ({ p1 with w := w2.setHealth b 0 }, Ctl.go) := by
  intro p
  apply keeps_andThen (keeps_reward _ _ p)
  intro p1
  dsimp only
  split
  · exact VSame.refl _
  · rename_i w2 hr
    exact (vsame_removeG hr).trans (vsame_setHealth0 w2 b)

theorem keeps_eat1 (cfg : Cfg) (b : Aid) : Keeps fun p => eat1 cfg p b := by
  intro p
  dsimp only
  unfold eat1
  split
  · exact VSame.refl _
  · split
    · exact keeps_eatBody cfg b p
    · split
      · exact keeps_biteBody cfg b p
      · exact VSame.refl _

theorem keeps_bite1 (cfg : Cfg) (b : Aid) : Keeps fun p => bite1 cfg p b := by
  intro p
  dsimp only
  unfold bite1
  split
  · exact VSame.refl _
  · split
    · exact keeps_biteBody cfg b p
    · exact VSame.refl _

theorem keeps_dieNow (cfg : Cfg) : Keeps fun p => dieNow cfg p := by
  intro p
  dsimp only
  unfold dieNow
  apply keeps_andThen (keeps_reward _ _ p)
  intro p1
  simp only
  split
  · exact vsame_setHealth0 p1.w cfg.pacman
  · rename_i w2 hr
    exact (vsame_setHealth0 p1.w cfg.pacman).trans (vsame_removeG hr)

theorem keeps_eat1S (cfg : Cfg) (b : Aid) : Keeps fun p => eat1S cfg p b := by
  intro p
  dsimp only
  unfold eat1S
  split
  · exact VSame.refl _
  · split
    · exact keeps_eatBody cfg b p
    · split
      · exact keeps_dieNow cfg p
      · exact VSame.refl _

theorem keeps_bite1S (cfg : Cfg) (b : Aid) : Keeps fun p => bite1S cfg p b := by
  intro p
  dsimp only
  unfold bite1S
  split
  · exact VSame.refl _
  · split
    · exact keeps_dieNow cfg p
    · exact VSame.refl _

theorem keeps_overlapLoop (cfg : Cfg) {f : PS → Aid → R} (hf : ∀ b, Keeps fun p => f p b) :
    Keeps fun p => overlapLoop cfg f p := by
  intro p
  dsimp only
  unfold overlapLoop
  simp only
  split
  · exact keeps_loopR hf _ p
  · exact VSame.refl _

theorem keeps_baddie1 (cfg : Cfg) (x : Aid × Int) : Keeps fun p => baddie1 cfg p x := by
  intro p
  dsimp only
  unfold baddie1
  split
  · exact VSame.refl _
  · split
    · exact VSame.refl _
    · exact keeps_moveTele cfg x.1 x.2 true p

theorem keeps_baddie1S (cfg : Cfg) (x : Nat × Int) : Keeps fun p => baddie1S cfg p x := by
  intro p
  dsimp only
  unfold baddie1S
  split
  · exact VSame.refl _
  · rename_i b _
    exact keeps_moveTele cfg b x.2 false p

theorem keeps_finish (cfg : Cfg) : Keeps fun p => finish cfg p := by
  intro p
  dsimp only
  unfold finish
  split
  · split
    · exact VSame.refl _
    · rename_i w' hr; exact vsame_removeG hr
  · exact VSame.refl _

theorem keeps_stepFull (cfg : Cfg) (acts : List (Aid × Int)) : Keeps fun p => stepFull cfg p acts := by
  intro p
  dsimp only
  unfold stepFull
  split
  · exact VSame.refl _
  · rename_i act _
    apply keeps_andThen (keeps_moveTele cfg cfg.pacman act true p)
    intro p1
    apply keeps_andThen (keeps_overlapLoop cfg (keeps_eat1 cfg) p1)
    intro p2
    apply keeps_andThen (keeps_loopR (keeps_baddie1 cfg) acts p2)
    intro p3
    apply keeps_andThen (keeps_overlapLoop cfg (keeps_bite1 cfg) p3)
    intro p4
    exact keeps_finish cfg p4

theorem keeps_stepSimple (cfg : Cfg) (k : Nat) (acts : List (Aid × Int)) : Keeps fun p => stepSimple cfg p k acts := by
  intro p
  dsimp only
  unfold stepSimple
  split
  · exact VSame.refl _
  · rename_i act _
    apply keeps_andThen (keeps_moveTele cfg cfg.pacman act true p)
    intro p1
    apply keeps_andThen (keeps_overlapLoop cfg (keeps_eat1S cfg) p1)
    intro p2
    dsimp only
    split
    · exact VSame.refl _
    · rename_i sc _
      apply keeps_andThen (keeps_loopR (keeps_baddie1S cfg) sc p2)
      intro p3
      exact keeps_overlapLoop cfg (keeps_bite1S cfg) p3

/-- **every `step` keeps the static part and the legality of the vitals** — for every configuration, world, ledger,
tape, `step_count` and action dict, whether the call returns or raises -/
theorem step_vsame (cfg : Cfg) (s : St) (acts : List (Aid × Int)) : VSame s.ex.w (step cfg s acts).1.ex.w := by
  unfold step
  split
  · exact VSame.refl _
  · rename_i r _
    simp only [stepR]
    split
    · exact keeps_stepSimple cfg s.count acts ⟨s.ex.w, r, s.ex.tape⟩
    · exact keeps_stepFull cfg acts ⟨s.ex.w, r, s.ex.tape⟩

/-- … and the reward dict keeps its keys; a ledger exists afterwards iff it existed before -/
theorem step_rewards_isSome (cfg : Cfg) (s : St) (acts : List (Aid × Int)) :
    (step cfg s acts).1.ex.rewards.isSome = s.ex.rewards.isSome := by
  unfold step
  split
  · rfl
  · rename_i r hr; rw [hr]; rfl

end PM
end Abmarl
