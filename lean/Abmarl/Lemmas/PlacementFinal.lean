import Abmarl.Lemmas.PlacementReset
/-!
# C13 — from the final state of a reset to the conjuncts of `specPlacement`
-/
namespace Abmarl
open World

/-- a successful outcome that `replay` accepts: everybody in the order is in the grid and was judged
by `stepOK` at its moment -/
theorem replay_none_all {kind : PKind} {o : PlaceOpts} {w' : World} {mz : List Nat} :
    ∀ (l : List Aid) (cells : List (List Aid)), replay kind o w' mz none l cells = true →
      ∀ a ∈ l, placedIn w' a = true ∧ ∃ cells', stepOK kind o w' mz cells' a = true := by
  intro l
  induction l with
  | nil => intro _ _ a ha; cases ha
  | cons x xs ih =>
    intro cells h a ha
    unfold replay at h
    by_cases hp : placedIn w' x = true
    · rw [if_pos hp, Bool.and_eq_true] at h
      rcases List.mem_cons.mp ha with rfl | ha
      · exact ⟨hp, cells, h.1⟩
      · exact ih _ h.2 a ha
    · rw [if_neg hp] at h
      simp [errJustified] at h

theorem stepOK_fixedPos {kind : PKind} {o : PlaceOpts} {w' : World} {mz : List Nat}
    {cells : List (List Aid)} {a : Aid} {q : Pos} (h : stepOK kind o w' mz cells a = true)
    (hi : (w'.cfgOf a).initPos = some q) : (w'.stOf a).pos = q := by
  simp only [stepOK, hi, Bool.and_eq_true, beq_iff_eq] at h
  exact h.2

theorem mem_of_placedIn {w : World} {a : Aid} (h : placedIn w a = true) : ∃ i, a ∈ w.cells.getD i [] := by
  simp only [placedIn, List.any_eq_true] at h
  obtain ⟨c, hc, hac⟩ := h
  obtain ⟨i, hi, rfl⟩ := List.getElem_of_mem hc
  refine ⟨i, ?_⟩
  rw [List.getD_eq_getElem?_getD, List.getElem?_eq_getElem hi]
  simpa using hac

/-- static part, shape and vitals of any state of the reset -/
theorem final_static {w : World} {no : Bool} {base : Int → List Nat} {sF : PSt}
    (hI : PInv w.gridReset no base sF) :
    sameGrid w sF.w = true ∧ sF.w.wShape = true ∧ vitalsKept w sF.w = true := by
  refine ⟨?_, ?_, ?_⟩
  · have h1 : sF.w.rows = w.rows := hI.rows
    have h2 : sF.w.cols = w.cols := hI.cols
    have h3 : sF.w.overlap = w.overlap := hI.ov
    have h4 : sF.w.cfg = w.cfg := hI.cfg
    simp [sameGrid, h1, h2, h3, h4]
  · have h1 : sF.w.cells.length = sF.w.rows * sF.w.cols := by rw [hI.lenC, hI.rows, hI.cols]
    have h2 : sF.w.st.length = sF.w.cfg.length := by rw [hI.lenS, hI.cfg]
    simp [wShape, h1, h2]
  · simp only [vitalsKept, List.all_eq_true, beq_iff_eq]
    intro a _
    exact hI.vit a

/-- if every agent is in the grid, the position part of the C03 invariant holds -/
theorem final_posInv {w0 : World} {no : Bool} {base : Int → List Nat} {sF : PSt}
    (hI : PInv w0 no base sF) (hall : ∀ a, a < w0.n → ∃ i, a ∈ sF.w.cells.getD i []) :
    sF.w.posInv = true := by
  have hG := hI.sameG
  have h1 : sF.w.cells.length = sF.w.rows * sF.w.cols := by rw [hI.lenC, hI.rows, hI.cols]
  have h2 : sF.w.st.length = sF.w.cfg.length := by rw [hI.lenS, hI.cfg]
  simp only [posInv, Bool.and_eq_true, List.all_eq_true]
  refine ⟨⟨by simp [wShape, h1, h2], ?_⟩, ?_⟩
  · intro i _
    simp only [posCell, Bool.and_eq_true, List.all_eq_true, decide_eq_true_eq, beq_iff_eq,
      Bool.or_eq_true]
    refine ⟨⟨hI.nodup i, ?_⟩, ?_⟩
    · intro a ha
      obtain ⟨c1, c2, c3⟩ := hI.cellOK i a ha
      exact ⟨⟨by rw [hG.n]; exact c1, c2⟩, c3⟩
    · intro a ha b hb
      by_cases hab : a = b
      · exact Or.inl hab
      · exact Or.inr (hI.pair i a b ha hb hab)
  · intro a ha
    have han : a < w0.n := by
      have : a < sF.w.n := by simpa [allAgents] using ha
      rw [hG.n] at this; exact this
    obtain ⟨i, hi⟩ := hall a han
    obtain ⟨_, c2, c3⟩ := hI.cellOK i a hi
    simp only [posAgent, Bool.and_eq_true, decide_eq_true_eq]
    refine ⟨c2, ?_⟩
    simp only [cell, c3]; exact hi

theorem final_fixedOnInit {kind : PKind} {o : PlaceOpts} {w' : World} {mz : List Nat}
    (h : ∀ a, a < w'.n → ∃ cells', stepOK kind o w' mz cells' a = true) : fixedOnInit w' = true := by
  simp only [fixedOnInit, List.all_eq_true]
  intro a ha
  have han : a < w'.n := by simpa [allAgents] using ha
  cases hi : (w'.cfgOf a).initPos with
  | none => rfl
  | some q =>
    obtain ⟨cells', hc⟩ := h a han
    simp [stepOK_fixedPos hc hi]

theorem final_alone {kind : PKind} {o : PlaceOpts} {w0 : World} {base : Int → List Nat}
    {start : Pos} {sF : PSt} (hI : PInv w0 o.noOverlap base sF) (hJ : JV kind o w0 start sF)
    (hall : ∀ a, a < w0.n → ∃ i, a ∈ sF.w.cells.getD i []) : aloneFinal o sF.w = true := by
  have hG := hI.sameG
  cases hn : o.noOverlap with
  | false => simp [aloneFinal, hn]
  | true =>
    simp only [aloneFinal, hn, Bool.not_true, Bool.false_or, List.all_eq_true, Bool.or_eq_true,
      beq_iff_eq]
    intro a ha
    have han : a < w0.n := by
      have : a < sF.w.n := by simpa [allAgents] using ha
      rw [hG.n] at this; exact this
    obtain ⟨i, hi⟩ := hall a han
    obtain ⟨_, _, c3⟩ := hI.cellOK i a hi
    cases hinit : (w0.cfgOf a).initPos with
    | some q => left; simp [isFixed, hG.cfgOf, hinit]
    | none =>
      right
      simp only [cell, c3]
      exact hJ.2.2 hn i a hi hinit

end Abmarl

namespace Abmarl
open World

/-! ### unpacking `wfPlacement` -/

structure WFP (kind : PKind) (o : PlaceOpts) (w : World) : Prop where
  rows : 0 < w.rows
  cols : 0 < w.cols
  npos : 0 < w.n
  lenS : w.st.length = w.cfg.length
  sym : w.wOverlapSym = true
  enc : kind = .position → ∀ a, a < w.n → 1 ≤ w.encOf a
  fixedIn : ∀ a q, (w.cfgOf a).initPos = some q → w.inGrid q = true
  tgt : kind ≠ .position → o.target < w.n
  disj : kind ≠ .position → ∀ e, o.barrier.contains e = true → o.free.contains e = false
  clash : o.noOverlap = true → kind ≠ .position → (w.cfgOf o.target).initPos = none →
    ∀ b, b ≠ o.target → isFixed w b = true → w.pairOK (w.encOf b) (w.encOf o.target) = false

theorem cfgOf_ge {w : World} {a : Aid} (h : ¬ a < w.n) : w.cfgOf a = {} := by
  have h' : w.cfg.length ≤ a := Nat.le_of_not_lt h
  unfold cfgOf
  rw [List.getD_eq_getElem?_getD, List.getElem?_eq_none h']; rfl

theorem wfp_of_wf {kind : PKind} {o : PlaceOpts} {w : World} (h : wfPlacement kind o w = true) :
    WFP kind o w := by
  simp only [wfPlacement, Bool.and_eq_true, decide_eq_true_eq, beq_iff_eq, List.all_eq_true,
    Bool.or_eq_true] at h
  obtain ⟨⟨⟨⟨⟨⟨h1, h2⟩, h3⟩, h4⟩, h5⟩, h6⟩, h7⟩ := h
  have hmem : ∀ a, a < w.n → a ∈ w.allAgents := fun a ha => by simpa [allAgents] using ha
  refine ⟨h1, h2, h3, h4, h5, ?_, ?_, ?_, ?_, ?_⟩
  · intro hk a ha
    have := (h6 a (hmem a ha)).1
    rcases this with h | h
    · simp [hk] at h
    · exact h
  · intro a q hq
    by_cases ha : a < w.n
    · have := (h6 a (hmem a ha)).2
      rw [hq] at this; exact this
    · rw [cfgOf_ge ha] at hq; cases hq
  · intro hk
    rcases h7 with h | h
    · exact absurd h hk
    · exact h.1.1
  · intro hk e he
    rcases h7 with h | h
    · exact absurd h hk
    · have := h.1.2 e (by simpa using he)
      simpa using this
  · intro hn hk hinit b hb hfix
    rcases h7 with h | h
    · exact absurd h hk
    · rcases h.2 with (h' | h') | h'
      · rw [hn] at h'; cases h'
      · simp [isFixed, hinit] at h'
      · by_cases hbn : b < w.n
        · rcases h' b (hmem b hbn) with (h'' | h'') | h''
          · exact absurd h'' hb
          · rw [hfix] at h''; cases h''
          · simpa using h''
        · simp [isFixed, cfgOf_ge hbn] at hfix

/-! ### the listing -/

theorem listing_eq (o : PlaceOpts) (w : World) (t : Tape) :
    (placementListing o w.gridReset t).1 =
      (if o.randomize then (shuffle w.allAgents t).1 else w.allAgents) := by
  unfold placementListing
  cases o.randomize <;> rfl

theorem listing_perm (o : PlaceOpts) (w : World) (t : Tape) :
    (placementListing o w.gridReset t).1.Perm (List.range w.n) := by
  unfold placementListing
  cases o.randomize with
  | false => exact List.Perm.refl _
  | true => exact shuffle_perm _ _

theorem listing_tape (o : PlaceOpts) (w : World) (t : Tape) :
    (placementListing o w.gridReset t).2 = (if o.randomize then (shuffle w.allAgents t).2 else t) := by
  unfold placementListing
  cases o.randomize <;> rfl

theorem lookup_isSome_of_mem {β : Type} (l : List (Int × β)) (k : Int) (v : β) (h : (k, v) ∈ l) :
    ∃ v', l.lookup k = some v' := by
  induction l with
  | nil => cases h
  | cons x xs ih =>
    obtain ⟨k', v'⟩ := x
    by_cases hk : k = k'
    · subst hk; exact ⟨v', by simp⟩
    · have hb : (k == k') = false := by simpa using hk
      rw [List.lookup_cons, hb]
      rcases List.mem_cons.mp h with h | h
      · simp only [Prod.mk.injEq] at h; exact absurd h.1 hk
      · exact ih h

theorem le_foldl_max (xs : List Int) (x : Int) :
    x ≤ xs.foldl max x ∧ ∀ y ∈ xs, y ≤ xs.foldl max x := by
  induction xs generalizing x with
  | nil => exact ⟨Int.le_refl _, fun y hy => by cases hy⟩
  | cons z zs ih =>
    obtain ⟨h1, h2⟩ := ih (max x z)
    rw [List.foldl_cons]
    refine ⟨Int.le_trans (Int.le_max_left _ _) h1, ?_⟩
    intro y hy
    rcases List.mem_cons.mp hy with rfl | hy
    · exact Int.le_trans (Int.le_max_right _ _) h1
    · exact h2 y hy

theorem encOf_mem {w : World} {a : Aid} (ha : a < w.n) : w.encOf a ∈ w.cfg.map (·.enc) := by
  unfold encOf cfgOf
  unfold n at ha
  rw [List.getD_eq_getElem?_getD, List.getElem?_eq_getElem ha, Option.getD_some]
  exact List.mem_map.mpr ⟨_, List.getElem_mem ha, rfl⟩

theorem buildPosition_some {w : World} (hn : 0 < w.n) :
    ∃ av, buildPosition w = some av ∧ (∀ x ∈ av, x.2 = List.range (w.rows * w.cols)) ∧
      (∀ a, a < w.n → 1 ≤ w.encOf a → ∃ l, av.lookup (w.encOf a) = some l) := by
  unfold buildPosition maxEnc
  cases hc : w.cfg.map (·.enc) with
  | nil =>
    exfalso
    have : (w.cfg.map (·.enc)).length = w.n := by simp [n]
    rw [hc] at this; simp at this; omega
  | cons x xs =>
    refine ⟨_, rfl, ?_, ?_⟩
    · intro y hy
      simp only [List.mem_map] at hy
      obtain ⟨i, _, rfl⟩ := hy
      rfl
    · intro a ha h1
      have hm := encOf_mem ha
      rw [hc] at hm
      have hle : w.encOf a ≤ xs.foldl max x := by
        obtain ⟨g1, g2⟩ := le_foldl_max xs x
        rcases List.mem_cons.mp hm with h | h
        · rw [h]; exact g1
        · exact g2 _ h
      apply lookup_isSome_of_mem _ _ (List.range (w.rows * w.cols))
      simp only [List.mem_map, List.mem_range]
      refine ⟨(w.encOf a - 1).toNat, by omega, ?_⟩
      simp only [Prod.mk.injEq, and_true]
      omega

end Abmarl
